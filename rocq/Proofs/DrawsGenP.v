(* C11 -- proofs about the model of the draw generators (Model/DrawsGen.v). *)
From Coq Require Import ZArith QArith Qround Qabs Qminmax List Bool Lia Lqa Permutation String Ascii.
From BV Require Import Model.DrawsGen Gen.DrawCatalogue.
Import ListNotations.
Open Scope Q_scope.

(* ------------------------------------------------------------------ lists *)
Lemma nth_firstn_lt {A} (d : A) : forall n l i, (i < n)%nat -> nth i (firstn n l) d = nth i l d.
Proof.
  induction n as [|n IH]; intros l i Hi; [lia|].
  destruct l as [|x l]; [now destruct i|].
  destruct i as [|i]; simpl; [reflexivity|]. apply IH. lia.
Qed.

Lemma nth_skipn_plus {A} (d : A) : forall n l i, nth i (skipn n l) d = nth (n + i) l d.
Proof.
  induction n as [|n IH]; intros l i; [reflexivity|].
  destruct l as [|x l]; simpl; [now destruct i|]. apply IH.
Qed.

Lemma nth_map_lt {A B} (f : A -> B) (da : A) (db : B) :
  forall l i, (i < List.length l)%nat -> nth i (map f l) db = f (nth i l da).
Proof.
  induction l as [|x l IH]; intros i Hi; simpl in *; [lia|].
  destruct i; [reflexivity|]. apply IH. lia.
Qed.

(* ------------------------------------------------------------------ Z -> Q *)
Lemma Qz_pos b : (0 < b)%Z -> 0 < Qz b.
Proof. intros H. unfold Qz. change 0 with (inject_Z 0). rewrite <- Zlt_Qlt. exact H. Qed.

Lemma Qz_nonneg b : (0 <= b)%Z -> 0 <= Qz b.
Proof. intros H. unfold Qz. change 0 with (inject_Z 0). rewrite <- Zle_Qle. exact H. Qed.

Lemma Qz_neq0 b : (0 < b)%Z -> ~ Qz b == 0.
Proof. intros H E. pose proof (Qz_pos b H) as P. rewrite E in P. now apply Qlt_irrefl in P. Qed.

Lemma Qz_plus a b : Qz (a + b) == Qz a + Qz b.
Proof. unfold Qz. rewrite inject_Z_plus. reflexivity. Qed.

Lemma Qz_mult a b : Qz (a * b) == Qz a * Qz b.
Proof. unfold Qz. rewrite inject_Z_mult. reflexivity. Qed.

Lemma Qz_pow_succ b t : (0 <= t)%Z -> Qz (b ^ (t + 1)) == Qz b * Qz (b ^ t).
Proof. intros Ht. rewrite Z.pow_add_r, Z.pow_1_r by lia. rewrite Qz_mult. ring. Qed.

(* ------------------------------------------------------------------ radical inverse *)
Lemma radinv_fuel : forall f1 f2 b n, (2 <= b)%Z ->
  (n < Z.of_nat f1)%Z -> (n < Z.of_nat f2)%Z -> radinv f1 b n = radinv f2 b n.
Proof.
  induction f1 as [|f1 IH]; intros f2 b n Hb H1 H2.
  - destruct f2; simpl; [reflexivity|].
    destruct (Z.leb_spec n 0); [reflexivity|lia].
  - destruct f2 as [|f2]; simpl.
    + destruct (Z.leb_spec n 0); [reflexivity|lia].
    + destruct (Z.leb_spec n 0); [reflexivity|].
      rewrite (IH f2 b (n / b)%Z Hb); [reflexivity| |].
      * assert (n / b < n)%Z by (apply Z.div_lt; lia). lia.
      * assert (n / b < n)%Z by (apply Z.div_lt; lia). lia.
Qed.

(* the defining recursion, for every n >= 0 (at n = 0 both sides are 0) *)
Lemma radical_inverse_unfold b n : (2 <= b)%Z -> (0 <= n)%Z ->
  radical_inverse b n == (Qz (n mod b) + radical_inverse b (n / b)) / Qz b.
Proof.
  intros Hb Hn. unfold radical_inverse at 1. cbn [radinv].
  destruct (Z.leb_spec n 0) as [H0|Hpos].
  - assert (n = 0%Z) by lia. subst n. rewrite Zmod_0_l, Zdiv_0_l.
    unfold radical_inverse. simpl. unfold Qz.
    change (inject_Z 0) with 0. unfold Qdiv. ring.
  - assert (Hd : (n / b < n)%Z) by (apply Z.div_lt; lia).
    assert (Hd0 : (0 <= n / b)%Z) by (apply Z.div_pos; lia).
    unfold radical_inverse.
    rewrite (radinv_fuel (Z.to_nat n) (S (Z.to_nat (n / b))) b (n / b)%Z Hb) by lia.
    reflexivity.
Qed.

Lemma radical_inverse_0 b : radical_inverse b 0 = 0.
Proof. reflexivity. Qed.

(* range: 0 <= phi < 1, and 0 < phi for n >= 1 *)
Lemma radinv_range : forall f b n, (2 <= b)%Z -> (0 <= n < Z.of_nat f)%Z ->
  0 <= radinv f b n /\ radinv f b n < 1 /\ ((0 < n)%Z -> 0 < radinv f b n).
Proof.
  induction f as [|f IH]; intros b n Hb Hn; [lia|].
  cbn [radinv]. destruct (Z.leb_spec n 0) as [H0|Hpos].
  - repeat split; try lra. lia.
  - assert (Hd : (n / b < n)%Z) by (apply Z.div_lt; lia).
    assert (Hd0 : (0 <= n / b)%Z) by (apply Z.div_pos; lia).
    destruct (IH b (n / b)%Z Hb ltac:(lia)) as (Ilo & Ihi & Ipos).
    pose proof (Z.mod_pos_bound n b ltac:(lia)) as Hm.
    assert (Bp : 0 < Qz b) by (apply Qz_pos; lia).
    assert (M0 : 0 <= Qz (n mod b)) by (apply Qz_nonneg; lia).
    assert (M1 : Qz (n mod b) + 1 <= Qz b).
    { change 1 with (Qz 1). rewrite <- Qz_plus. unfold Qz. rewrite <- Zle_Qle. lia. }
    repeat split.
    + apply Qle_shift_div_l; [exact Bp|]. lra.
    + apply Qlt_shift_div_r; [exact Bp|]. lra.
    + intros _. apply Qlt_shift_div_l; [exact Bp|].
      destruct (Z.eq_dec (n mod b) 0) as [E|NE].
      * assert (0 < n / b)%Z.
        { pose proof (Z.div_mod n b ltac:(lia)). nia. }
        specialize (Ipos H). lra.
      * assert (M2 : 1 <= Qz (n mod b)).
        { change 1 with (Qz 1). unfold Qz. rewrite <- Zle_Qle. lia. }
        lra.
Qed.

Lemma radical_inverse_range b n : (2 <= b)%Z -> (0 <= n)%Z ->
  0 <= radical_inverse b n /\ radical_inverse b n < 1.
Proof.
  intros Hb Hn. unfold radical_inverse.
  destruct (radinv_range (S (Z.to_nat n)) b n Hb ltac:(lia)) as (A & B & _). split; assumption.
Qed.

Lemma radical_inverse_pos b n : (2 <= b)%Z -> (1 <= n)%Z -> 0 < radical_inverse b n.
Proof.
  intros Hb Hn. unfold radical_inverse.
  destruct (radinv_range (S (Z.to_nat n)) b n Hb ltac:(lia)) as (_ & _ & C). apply C. lia.
Qed.

(* small arguments: phi_b(i) = i / b for 0 <= i < b *)
Lemma radical_inverse_small b i : (2 <= b)%Z -> (0 <= i < b)%Z -> radical_inverse b i == Qz i / Qz b.
Proof.
  intros Hb Hi. rewrite radical_inverse_unfold by lia.
  rewrite Z.mod_small, Z.div_small by lia. rewrite radical_inverse_0.
  rewrite Qplus_0_r. reflexivity.
Qed.

(* the identity behind the doubling construction: a new leading digit i at position t *)
Lemma radical_inverse_high b : (2 <= b)%Z -> forall t : nat, forall k i : Z,
  (0 <= k < b ^ Z.of_nat t)%Z -> (0 <= i < b)%Z ->
  radical_inverse b (k + i * b ^ Z.of_nat t)
  == radical_inverse b k + Qz i / Qz (b ^ (Z.of_nat t + 1)).
Proof.
  intros Hb. induction t as [|t IH]; intros k i Hk Hi.
  - simpl in Hk. assert (k = 0%Z) by lia. subst k.
    change (Z.of_nat 0) with 0%Z. rewrite Z.pow_0_r, Z.mul_1_r, Z.add_0_l. simpl (0 + 1)%Z.
    rewrite Z.pow_1_r, radical_inverse_0, Qplus_0_l. apply radical_inverse_small; lia.
  - rewrite Nat2Z.inj_succ in *. unfold Z.succ in *.
    assert (Hpow : (b ^ (Z.of_nat t + 1) = b * b ^ Z.of_nat t)%Z).
    { rewrite Z.pow_add_r, Z.pow_1_r by lia. ring. }
    assert (Hpp : (0 < b ^ Z.of_nat t)%Z) by (apply Z.pow_pos_nonneg; lia).
    set (n := (k + i * b ^ (Z.of_nat t + 1))%Z).
    assert (Hn0 : (0 <= n)%Z) by (unfold n; nia).
    assert (Hmod : (n mod b = k mod b)%Z).
    { unfold n. rewrite Hpow.
      replace (k + i * (b * b ^ Z.of_nat t))%Z with (k + (i * b ^ Z.of_nat t) * b)%Z by ring.
      apply Z.mod_add. lia. }
    assert (Hdiv : (n / b = k / b + i * b ^ Z.of_nat t)%Z).
    { unfold n. rewrite Hpow.
      replace (k + i * (b * b ^ Z.of_nat t))%Z with (k + (i * b ^ Z.of_nat t) * b)%Z by ring.
      apply Z.div_add. lia. }
    rewrite (radical_inverse_unfold b n Hb Hn0), Hmod, Hdiv.
    assert (Hkb : (0 <= k / b < b ^ Z.of_nat t)%Z).
    { split; [apply Z.div_pos; lia|]. apply Z.div_lt_upper_bound; lia. }
    rewrite (IH (k / b)%Z i Hkb Hi).
    rewrite (radical_inverse_unfold b k Hb ltac:(lia)).
    rewrite (Qz_pow_succ b (Z.of_nat t + 1)) by lia.
    assert (B0 : ~ Qz b == 0) by (apply Qz_neq0; lia).
    assert (P0 : ~ Qz (b ^ (Z.of_nat t + 1)) == 0).
    { apply Qz_neq0. apply Z.pow_pos_nonneg; lia. }
    field. split; assumption.
Qed.

(* digits: the radical inverse mirrors the digit string about the radix point *)
Lemma from_digits_nonneg b ds : (2 <= b)%Z -> Forall (fun d => 0 <= d < b)%Z ds ->
  (0 <= from_digits b ds)%Z.
Proof.
  intros Hb H. induction H as [|d r Hd _ IH]; simpl; [lia|]. nia.
Qed.

Lemma radical_inverse_digits b ds : (2 <= b)%Z -> Forall (fun d => 0 <= d < b)%Z ds ->
  radical_inverse b (from_digits b ds) == mirror_digits b ds.
Proof.
  intros Hb H. induction H as [|d r Hd Hr IH]; [reflexivity|].
  cbn [from_digits mirror_digits].
  pose proof (from_digits_nonneg b r Hb Hr) as Hnn.
  rewrite radical_inverse_unfold by nia.
  replace (d + b * from_digits b r)%Z with (d + from_digits b r * b)%Z by ring.
  rewrite Z.mod_add, Z.div_add by lia.
  rewrite Z.mod_small, Z.div_small by lia. rewrite Z.add_0_l, IH. reflexivity.
Qed.

(* ------------------------------------------------------------------ Halton as coded *)
Definition good (b : Z) (nums : list Q) : Prop :=
  forall j, (j < List.length nums)%nat -> nth j nums 0 == radical_inverse b (Z.of_nat j).

Lemma halton_append_length d i m nums : (m <= List.length nums)%nat ->
  List.length (halton_append d i m nums) = (List.length nums + m)%nat.
Proof.
  intros Hm. unfold halton_append. rewrite app_length, map_length, firstn_length. lia.
Qed.

(* one copy of the prefix: indices [i*size, i*size + m) get phi(k) + i / b^(t+1) = phi(k + i*size) *)
Lemma halton_append_good b (t : nat) i m nums : (2 <= b)%Z ->
  good b nums -> (1 <= i < b)%Z ->
  Z.of_nat (List.length nums) = (i * b ^ Z.of_nat t)%Z ->
  (Z.of_nat m <= b ^ Z.of_nat t)%Z ->
  good b (halton_append (1 / Qz (b ^ (Z.of_nat t + 1))) i m nums).
Proof.
  intros Hb G Hi Hlen Hm j Hj.
  assert (Hpp : (0 < b ^ Z.of_nat t)%Z) by (apply Z.pow_pos_nonneg; lia).
  assert (Hml : (m <= List.length nums)%nat) by nia.
  rewrite halton_append_length in Hj by exact Hml.
  unfold halton_append.
  destruct (Nat.lt_ge_cases j (List.length nums)) as [Hlt|Hge].
  - rewrite app_nth1 by exact Hlt. apply G. exact Hlt.
  - rewrite app_nth2 by exact Hge.
    set (k := (j - List.length nums)%nat).
    assert (Hk : (k < m)%nat) by (unfold k; lia).
    rewrite (nth_map_lt _ 0 0) by (rewrite firstn_length; lia).
    rewrite nth_firstn_lt by exact Hk.
    rewrite (G k) by lia.
    replace (Z.of_nat j) with (Z.of_nat k + i * b ^ Z.of_nat t)%Z by (unfold k; lia).
    rewrite (radical_inverse_high b Hb t (Z.of_nat k) i) by lia.
    assert (P0 : ~ Qz (b ^ (Z.of_nat t + 1)) == 0).
    { apply Qz_neq0. apply Z.pow_pos_nonneg; lia. }
    field. exact P0.
Qed.

(* state of the inner loop: either the array is full, or exactly i copies of the prefix are in *)
Definition inner_inv (b : Z) (req : nat) (t : nat) (i : Z) (nums : list Q) : Prop :=
  good b nums /\ (List.length nums <= req)%nat /\
  (List.length nums = req \/ Z.of_nat (List.length nums) = (i * b ^ Z.of_nat t)%Z).

Lemma halton_inner_spec b req (t : nat) : (2 <= b)%Z ->
  forall fuel i nums, (1 <= i <= b)%Z -> (Z.to_nat (b - i) <= fuel)%nat ->
  inner_inv b req t i nums ->
  inner_inv b req t b
    (halton_inner fuel b req (1 / Qz (b ^ (Z.of_nat t + 1))) (Z.to_nat (b ^ Z.of_nat t)) i nums).
Proof.
  intros Hb. assert (Hpp : (0 < b ^ Z.of_nat t)%Z) by (apply Z.pow_pos_nonneg; lia).
  induction fuel as [|fuel IH]; intros i nums Hi Hf (G & Hle & Hor).
  - assert (i = b) by lia. subst i. simpl. repeat split; assumption.
  - cbn [halton_inner].
    destruct (Z.ltb_spec i b) as [Hib|Hib]; cbn [andb].
    2:{ assert (i = b) by lia. subst i. repeat split; assumption. }
    destruct (Nat.ltb_spec (List.length nums) req) as [Hlr|Hlr].
    2:{ repeat split; try assumption. left. lia. }
    destruct Hor as [Hfull|Hcopies]; [lia|].
    set (m := Nat.min (req - List.length nums) (Z.to_nat (b ^ Z.of_nat t))).
    assert (Hm1 : (Z.of_nat m <= b ^ Z.of_nat t)%Z) by (unfold m; lia).
    assert (Hml : (m <= List.length nums)%nat) by nia.
    apply IH; [lia|lia|].
    repeat split.
    + apply halton_append_good; try assumption; lia.
    + rewrite halton_append_length by exact Hml. unfold m. lia.
    + rewrite halton_append_length by exact Hml.
      destruct (Nat.le_ge_cases (req - List.length nums) (Z.to_nat (b ^ Z.of_nat t))) as [Hc|Hc].
      * left. unfold m. rewrite Nat.min_l by exact Hc. lia.
      * right. unfold m. rewrite Nat.min_r by exact Hc. lia.
Qed.

Lemma halton_inner_length_grows : forall fuel b req d size i nums,
  (List.length nums <= List.length (halton_inner fuel b req d size i nums))%nat.
Proof.
  induction fuel as [|fuel IH]; intros; simpl; [lia|].
  destruct ((i <? b)%Z && (List.length nums <? req)%nat)%bool; [|lia].
  etransitivity; [|apply IH]. unfold halton_append. rewrite app_length. lia.
Qed.

(* state of the outer loop at the start of round t+1 (Python's t = t+1) *)
Definition outer_inv (b : Z) (req : nat) (t : nat) (nums : list Q) : Prop :=
  good b nums /\ (1 <= List.length nums <= req)%nat /\
  (List.length nums = req \/ Z.of_nat (List.length nums) = (b ^ Z.of_nat t)%Z).

Lemma halton_outer_spec b req : (2 <= b)%Z ->
  forall fuel (t : nat) nums, (req - List.length nums <= fuel)%nat ->
  outer_inv b req t nums ->
  let r := halton_outer fuel b req (Z.of_nat t + 1)%Z nums in
  good b r /\ List.length r = req.
Proof.
  intros Hb. induction fuel as [|fuel IH]; intros t nums Hf (G & Hlen & Hor).
  - simpl. split; [exact G|lia].
  - cbn [halton_outer]. cbv zeta.
    destruct (Nat.ltb_spec (List.length nums) req) as [Hlr|Hlr].
    2:{ split; [exact G|lia]. }
    destruct Hor as [Hfull|Hpow]; [lia|].
    assert (Hpp : (0 < b ^ Z.of_nat t)%Z) by (apply Z.pow_pos_nonneg; lia).
    assert (Hsize : List.length nums = Z.to_nat (b ^ Z.of_nat t)) by lia.
    assert (H1b : (1 <= 1 <= b)%Z) by lia.
    assert (Hfu : (Z.to_nat (b - 1) <= Z.to_nat b)%nat) by lia.
    pose proof (halton_inner_spec b req t Hb (Z.to_nat b) 1%Z nums H1b Hfu) as Hin.
    rewrite <- Hsize in Hin.
    destruct Hin as (G' & Hle' & Hor').
    { repeat split; [exact G|lia|]. right. lia. }
    set (nums' := halton_inner (Z.to_nat b) b req (1 / Qz (b ^ (Z.of_nat t + 1)))
                   (List.length nums) 1%Z nums) in *.
    (* the round added at least one element *)
    assert (Hgrow : (List.length nums < List.length nums')%nat).
    { destruct Hor' as [E|E]; [lia|].
      assert (b ^ Z.of_nat t < b * b ^ Z.of_nat t)%Z by nia. lia. }
    replace (Z.of_nat t + 1 + 1)%Z with (Z.of_nat (S t) + 1)%Z by lia.
    apply IH; [lia|].
    repeat split; [exact G'|lia|exact Hle'|].
    destruct Hor' as [E|E]; [left; exact E|right].
    rewrite E, Nat2Z.inj_succ. unfold Z.succ. rewrite Z.pow_add_r, Z.pow_1_r by lia. ring.
Qed.

Lemma halton_numbers_spec b req : (2 <= b)%Z -> (1 <= req)%nat ->
  good b (halton_numbers b req) /\ List.length (halton_numbers b req) = req.
Proof.
  intros Hb Hr. unfold halton_numbers.
  apply (halton_outer_spec b req Hb req 0%nat [0]); [simpl; lia|].
  repeat split; simpl; try lia.
  intros j Hj. simpl in Hj. assert (j = 0%nat) by lia. subst j. reflexivity.
Qed.

Lemma halton_py_length b len skip : (2 <= b)%Z -> List.length (halton_py b len skip) = len.
Proof.
  intros Hb. unfold halton_py.
  destruct (halton_numbers_spec b (len + skip + 1) Hb ltac:(lia)) as (_ & L).
  rewrite firstn_length, skipn_length, L. lia.
Qed.

(* T11a: element i of the result is the radical inverse of i + skip + 1 *)
Lemma halton_is_radical_inverse b len skip i : (2 <= b)%Z -> (i < len)%nat ->
  nth i (halton_py b len skip) 0 == radical_inverse b (Z.of_nat (i + skip + 1)).
Proof.
  intros Hb Hi. unfold halton_py.
  destruct (halton_numbers_spec b (len + skip + 1) Hb ltac:(lia)) as (G & L).
  rewrite nth_firstn_lt by exact Hi. rewrite nth_skipn_plus.
  rewrite (G (skip + 1 + i)%nat) by lia.
  replace (skip + 1 + i)%nat with (i + skip + 1)%nat by lia. reflexivity.
Qed.

(* skip law: skipping is dropping a prefix of the unskipped sequence *)
Lemma halton_skip_law b len skip i : (2 <= b)%Z -> (i < len)%nat ->
  nth i (halton_py b len skip) 0 == nth (skip + i) (halton_py b (len + skip) 0) 0.
Proof.
  intros Hb Hi. rewrite halton_is_radical_inverse by assumption.
  rewrite halton_is_radical_inverse by (try assumption; lia).
  replace (skip + i + 0 + 1)%nat with (i + skip + 1)%nat by lia. reflexivity.
Qed.

(* the length asked for does not matter *)
Lemma halton_prefix b len len' skip i : (2 <= b)%Z -> (i < len)%nat -> (i < len')%nat ->
  nth i (halton_py b len skip) 0 == nth i (halton_py b len' skip) 0.
Proof.
  intros Hb H1 H2. rewrite !halton_is_radical_inverse by assumption. reflexivity.
Qed.

Lemma halton_support b len skip i : (2 <= b)%Z -> (i < len)%nat ->
  0 < nth i (halton_py b len skip) 0 /\ nth i (halton_py b len skip) 0 < 1.
Proof.
  intros Hb Hi. rewrite halton_is_radical_inverse by assumption. split.
  - apply radical_inverse_pos; lia.
  - apply radical_inverse_range; lia.
Qed.

(* T11h: different bases give different sequences (they differ at the first element
   when nothing is skipped: 1/b vs 1/b') *)
Lemma radical_inverse_1 b : (2 <= b)%Z -> radical_inverse b 1 == 1 / Qz b.
Proof. intros Hb. rewrite radical_inverse_small by lia. reflexivity. Qed.

Lemma distinct_bases_distinct_sequences b b' len len' : (2 <= b)%Z -> (2 <= b')%Z -> b <> b' ->
  (1 <= len)%nat -> (1 <= len')%nat ->
  ~ nth 0 (halton_py b len 0) 0 == nth 0 (halton_py b' len' 0) 0.
Proof.
  intros Hb Hb' Hne Hl Hl' E.
  rewrite !halton_is_radical_inverse in E by (try assumption; lia).
  simpl in E. rewrite !radical_inverse_1 in E by assumption.
  assert (P : 0 < Qz b) by (apply Qz_pos; lia).
  assert (P' : 0 < Qz b') by (apply Qz_pos; lia).
  assert (Qz b == Qz b').
  { assert (N0 : ~ Qz b == 0) by (intro Z0; rewrite Z0 in P; now apply Qlt_irrefl in P).
    assert (N0' : ~ Qz b' == 0) by (intro Z0; rewrite Z0 in P'; now apply Qlt_irrefl in P').
    setoid_replace (Qz b) with (1 / (1 / Qz b)) by (field; exact N0).
    rewrite E. field. exact N0'. }
  unfold Qz in H. rewrite inject_Z_injective in H. contradiction.
Qed.

(* a pointwise-different pair of sequences stays different under any injective elementwise map
   (2u-1; a strictly increasing quantile function) *)
Lemma distinct_after_injective_map (f : Q -> Q) xs ys i :
  (forall a b, f a == f b -> a == b) ->
  (i < List.length xs)%nat -> (i < List.length ys)%nat ->
  ~ nth i xs 0 == nth i ys 0 ->
  ~ nth i (map f xs) (f 0) == nth i (map f ys) (f 0).
Proof.
  intros Hinj Hx Hy Hne E. rewrite !map_nth in E. apply Hne, Hinj, E.
Qed.

(* ------------------------------------------------------------------ symmetric map *)
Lemma sym_range u : 0 <= u <= 1 -> -1 <= sym u <= 1.
Proof. unfold sym. intros [A B]. split; lra. Qed.

Lemma sym_range_open u : 0 <= u < 1 -> -1 <= sym u < 1.
Proof. unfold sym. intros [A B]. split; lra. Qed.

Lemma sym_injective a b : sym a == sym b -> a == b.
Proof. unfold sym. intros H. lra. Qed.

Lemma sym_halves u : (sym u + 1) / 2 == u.
Proof. unfold sym. field. Qed.

(* ------------------------------------------------------------------ MLHS *)
Lemma permute_nat perm ys : permute perm ys = map (fun i => nth i ys 0) (map N.to_nat perm).
Proof. unfold permute. now rewrite map_map. Qed.

Lemma mlhs_from_length N : forall us i, List.length (mlhs_from i N us) = List.length us.
Proof. induction us as [|u r IH]; intros i; simpl; [reflexivity|]. now rewrite IH. Qed.

Lemma mlhs_from_nth N : forall us i j, (j < List.length us)%nat ->
  nth j (mlhs_from i N us) 0 = (Qn (i + j) + nth j us 0) / N.
Proof.
  induction us as [|u r IH]; intros i j Hj; simpl in Hj; [lia|].
  destruct j as [|j]; simpl.
  - now rewrite Nat.add_0_r.
  - rewrite IH by lia. now rewrite Nat.add_succ_r.
Qed.

Lemma Qfloor_unique (x : Q) (z : Z) : Qz z <= x -> x < Qz z + 1 -> Qfloor x = z.
Proof.
  intros Hlo Hhi.
  assert (A : (z <= Qfloor x)%Z).
  { rewrite <- (Qfloor_Z z). apply Qfloor_resp_le. exact Hlo. }
  assert (B : (Qfloor x < z + 1)%Z).
  { rewrite Zlt_Qlt. eapply Qle_lt_trans; [apply Qfloor_le|].
    rewrite inject_Z_plus. exact Hhi. }
  lia.
Qed.

(* the point built in stratum j lies in stratum j *)
Lemma mlhs_point_stratum (N j : nat) (u : Q) (s : bool) : (0 < N)%nat -> 0 <= u < 1 ->
  stratum N s (symopt s ((Qn j + u) / Qn N)) = Z.of_nat j.
Proof.
  intros HN [U0 U1]. unfold stratum.
  assert (NP : 0 < Qn N) by (apply Qz_pos; lia).
  assert (N0 : ~ Qn N == 0) by (intro E; rewrite E in NP; now apply Qlt_irrefl in NP).
  assert (E : Qn N * (if s then (symopt s ((Qn j + u) / Qn N) + 1) / 2
                       else symopt s ((Qn j + u) / Qn N)) == Qn j + u).
  { destruct s; simpl; [rewrite sym_halves|]; field; exact N0. }
  rewrite (Qfloor_comp _ _ E). apply Qfloor_unique; unfold Qn, Qz in *; lra.
Qed.

(* T11b: exactly one point per stratum, whatever the random numbers and the shuffle *)
Lemma mlhs_one_per_stratum us perm s :
  (forall u, In u us -> 0 <= u < 1) ->
  Permutation (map N.to_nat perm) (seq 0 (List.length us)) ->
  Permutation (map (stratum (List.length us) s) (mlhs us perm s))
              (map Z.of_nat (seq 0 (List.length us))).
Proof.
  intros Hu Hp. unfold mlhs. rewrite permute_nat, map_map.
  set (perm' := map N.to_nat perm) in *.
  apply Permutation_trans with (map Z.of_nat perm'); [|apply Permutation_map; exact Hp].
  assert (Hext : forall j, In j perm' ->
            stratum (List.length us) s
              (nth j (map (symopt s) (mlhs_base us)) 0) = Z.of_nat j).
  { intros j Hj.
    assert (Hjl : (j < List.length us)%nat).
    { apply (Permutation_in _ Hp) in Hj. apply in_seq in Hj. lia. }
    rewrite (nth_map_lt _ 0 0) by (unfold mlhs_base; rewrite mlhs_from_length; exact Hjl).
    unfold mlhs_base. rewrite mlhs_from_nth by exact Hjl. simpl (0 + j)%nat.
    apply mlhs_point_stratum; [lia|]. apply Hu. apply nth_In. exact Hjl. }
  rewrite (map_ext_in _ _ _ Hext). apply Permutation_refl.
Qed.

Lemma mlhs_length us perm s : List.length (mlhs us perm s) = List.length perm.
Proof. unfold mlhs, permute. now rewrite map_length. Qed.

(* every point is in the advertised support *)
Lemma mlhs_support us perm s x :
  (forall u, In u us -> 0 <= u < 1) ->
  Permutation (map N.to_nat perm) (seq 0 (List.length us)) ->
  In x (mlhs us perm s) -> if s then -1 <= x < 1 else 0 <= x < 1.
Proof.
  intros Hu Hp Hx. unfold mlhs in Hx. rewrite permute_nat in Hx. apply in_map_iff in Hx.
  destruct Hx as (j & <- & Hj).
  assert (Hjl : (j < List.length us)%nat).
  { apply (Permutation_in _ Hp) in Hj. apply in_seq in Hj. lia. }
  rewrite (nth_map_lt _ 0 0) by (unfold mlhs_base; rewrite mlhs_from_length; exact Hjl).
  unfold mlhs_base. rewrite mlhs_from_nth by exact Hjl. simpl (0 + j)%nat.
  destruct (Hu (nth j us 0) (nth_In _ _ Hjl)) as [U0 U1].
  assert (NP : 0 < Qn (List.length us)) by (apply Qz_pos; lia).
  assert (J0 : 0 <= Qn j) by (apply Qz_nonneg; lia).
  assert (J1 : Qn j + 1 <= Qn (List.length us)).
  { unfold Qn. change 1 with (inject_Z 1). rewrite <- inject_Z_plus, <- Zle_Qle. lia. }
  assert (R : 0 <= (Qn j + nth j us 0) / Qn (List.length us) < 1).
  { split; [apply Qle_shift_div_l|apply Qlt_shift_div_r]; try exact NP; lra. }
  destruct s; simpl; [apply sym_range_open|]; exact R.
Qed.

(* ------------------------------------------------------------------ antithetic completion *)
Lemma anti_row_length m xs : List.length (anti_row m xs) = (2 * List.length xs)%nat.
Proof. unfold anti_row. rewrite app_length, map_length. lia. Qed.

Lemma anti_row_first m xs j : (j < List.length xs)%nat -> nth j (anti_row m xs) 0 = nth j xs 0.
Proof. intros H. unfold anti_row. now rewrite app_nth1. Qed.

(* T11c: the second half is the mirror image of the first, element by element *)
Lemma anti_row_mirror m xs j : (j < List.length xs)%nat ->
  nth (List.length xs + j) (anti_row m xs) 0 = m (nth j (anti_row m xs) 0).
Proof.
  intros H. rewrite (anti_row_first m xs j H). unfold anti_row.
  rewrite app_nth2_plus. now apply nth_map_lt.
Qed.

Lemma mirror_unit_support x : 0 <= x < 1 -> 0 < mirror_unit x <= 1.
Proof. unfold mirror_unit. intros [A B]. split; lra. Qed.

Lemma mirror_neg_support x : -1 <= x <= 1 -> -1 <= mirror_neg x <= 1.
Proof. unfold mirror_neg. intros [A B]. split; lra. Qed.

Lemma mirror_unit_involutive x : mirror_unit (mirror_unit x) == x.
Proof. unfold mirror_unit. ring. Qed.

(* ------------------------------------------------------------------ shape *)
Lemma reshape_length cols : forall rows flat, List.length (reshape rows cols flat) = rows.
Proof. induction rows as [|r IH]; intros flat; simpl; [reflexivity|]. now rewrite IH. Qed.

Lemma reshape_rows cols : forall rows flat, List.length flat = (rows * cols)%nat ->
  Forall (fun r => List.length r = cols) (reshape rows cols flat).
Proof.
  induction rows as [|r IH]; intros flat Hl; simpl; constructor.
  - rewrite firstn_length. simpl in Hl. lia.
  - apply IH. rewrite skipn_length. simpl in Hl. lia.
Qed.

(* element (o, r) of the reshaped array is element o*cols + r of the flat one *)
Lemma reshape_nth cols : forall rows flat o r, (o < rows)%nat -> (r < cols)%nat ->
  nth r (nth o (reshape rows cols flat) []) 0 = nth (o * cols + r) flat 0.
Proof.
  induction rows as [|rows IH]; intros flat o r Ho Hr; [lia|].
  destruct o as [|o]; simpl.
  - now apply nth_firstn_lt.
  - rewrite IH by lia. rewrite nth_skipn_plus. f_equal. lia.
Qed.

Lemma stage_length e count us perm : (2 <= e_base e)%Z \/ e_family e <> FHalton ->
  List.length us = count -> List.length perm = count ->
  List.length (stage e count us perm) = count.
Proof.
  intros Hb Hu Hp. unfold stage. destruct (e_family e) eqn:F.
  - now rewrite map_length.
  - destruct Hb as [Hb|Hb]; [|congruence]. rewrite map_length.
    destruct (e_shuffled e).
    + unfold permute. now rewrite map_length.
    + now apply halton_py_length.
  - now rewrite mlhs_length.
Qed.

(* T11f: shape (observations x draws), for an even number of draws when antithetic *)
Lemma gen_output_shape quant e ss n us perm :
  (2 <= e_base e)%Z \/ e_family e <> FHalton ->
  e_half e = e_antithetic e ->
  (e_antithetic e = true -> Nat.even n = true) ->
  List.length us = (ss * gen_cols e n)%nat -> List.length perm = (ss * gen_cols e n)%nat ->
  List.length (gen_output quant e ss n us perm) = ss /\
  Forall (fun r => List.length r = n) (gen_output quant e ss n us perm).
Proof.
  intros Hb Hh He Hu Hp. unfold gen_output, gen_rows.
  pose proof (stage_length e _ us perm Hb Hu Hp) as Hs.
  pose proof (reshape_rows (gen_cols e n) ss _ Hs) as Hr.
  pose proof (reshape_length (gen_cols e n) ss (stage e (ss * gen_cols e n) us perm)) as Hl.
  set (rows := reshape ss (gen_cols e n) (stage e (ss * gen_cols e n) us perm)) in *.
  assert (Hr2 : Forall (fun r => List.length r = gen_cols e n)
                  (if e_normal e then map (map quant) rows else rows)).
  { destruct (e_normal e); [|exact Hr]. rewrite Forall_map.
    eapply Forall_impl; [|exact Hr]. intros r E. now rewrite map_length. }
  assert (Hl2 : List.length (if e_normal e then map (map quant) rows else rows) = ss).
  { destruct (e_normal e); [rewrite map_length|]; exact Hl. }
  destruct (e_antithetic e) eqn:A.
  - split; [now rewrite map_length|]. rewrite Forall_map.
    eapply Forall_impl; [|exact Hr2]. intros r E. rewrite anti_row_length, E.
    unfold gen_cols. rewrite Hh.
    specialize (He eq_refl). apply Nat.even_spec in He. destruct He as [k ->].
    replace (2 * k / 2)%nat with k by (rewrite (Nat.mul_comm 2 k), Nat.div_mul; lia). lia.
  - split; [exact Hl2|]. eapply Forall_impl; [|exact Hr2]. intros r E. rewrite E.
    unfold gen_cols. now rewrite Hh.
Qed.

(* T11c on the returned array: every row of an antithetic type is a first half followed by its
   mirror image (1 - x, or -x), for ANY quantile transform *)
Lemma gen_output_antithetic quant e ss n us perm row :
  e_antithetic e = true -> In row (gen_output quant e ss n us perm) ->
  exists half, row = half ++ map (mirror_fun (e_mirror e)) half /\
    In half (let rows := gen_rows e ss n us perm in
             if e_normal e then map (map quant) rows else rows).
Proof.
  intros A H. unfold gen_output in H. rewrite A in H. apply in_map_iff in H.
  destruct H as (half & <- & Hin). exists half. split; [reflexivity|exact Hin].
Qed.


(* ------------------------------------------------------------------ support (T11e) *)
Lemma reshape_In cols : forall rows flat row x, In row (reshape rows cols flat) -> In x row -> In x flat.
Proof.
  induction rows as [|rows IH]; intros flat row x Hr Hx; simpl in Hr; [contradiction|].
  rewrite <- (firstn_skipn cols flat). apply in_or_app.
  destruct Hr as [<-|Hr]; [left; exact Hx|right]. eapply IH; eassumption.
Qed.

Lemma symopt_support (s : bool) (y : Q) : 0 <= y < 1 -> if s then -1 <= symopt s y < 1 else 0 <= symopt s y < 1.
Proof. intros H. destruct s; simpl; [apply sym_range_open|]; exact H. Qed.

Lemma stage_support e count us perm x :
  (2 <= e_base e)%Z \/ e_family e <> FHalton ->
  (forall u, In u us -> 0 <= u < 1) -> List.length us = count ->
  Permutation (map N.to_nat perm) (seq 0 count) ->
  In x (stage e count us perm) ->
  if e_symmetric e then -1 <= x < 1 else 0 <= x < 1.
Proof.
  intros Hb Hu Hl Hp Hx. unfold stage in Hx. destruct (e_family e) eqn:Fam.
  - apply in_map_iff in Hx. destruct Hx as (u & <- & Hin). apply symopt_support, Hu, Hin.
  - destruct Hb as [Hb|Hb]; [|congruence].
    apply in_map_iff in Hx. destruct Hx as (y & <- & Hin). apply symopt_support.
    set (h := halton_py (e_base e) count (Z.to_nat (e_skip e))) in *.
    assert (Hh : forall i, (i < count)%nat -> 0 <= nth i h 0 < 1).
    { intros i Hi. destruct (halton_support (e_base e) count (Z.to_nat (e_skip e)) i Hb Hi).
      split; [apply Qlt_le_weak|]; assumption. }
    assert (Hlen : List.length h = count) by (apply halton_py_length; exact Hb).
    destruct (e_shuffled e).
    + rewrite permute_nat in Hin. apply in_map_iff in Hin. destruct Hin as (j & <- & Hj).
      apply Hh. apply (Permutation_in _ Hp) in Hj. apply in_seq in Hj. lia.
    + destruct (In_nth _ _ 0 Hin) as (i & Hi & <-). apply Hh. lia.
  - subst count. eapply mlhs_support; eassumption.
Qed.

Lemma gen_output_support quant e ss n us perm row x :
  e_normal e = false ->
  (2 <= e_base e)%Z \/ e_family e <> FHalton ->
  (forall u, In u us -> 0 <= u < 1) -> List.length us = (ss * gen_cols e n)%nat ->
  Permutation (map N.to_nat perm) (seq 0 (ss * gen_cols e n)) ->
  (e_antithetic e = true -> e_mirror e = if e_symmetric e then MNeg else MOneMinus) ->
  In row (gen_output quant e ss n us perm) -> In x row ->
  if e_symmetric e then -1 <= x <= 1 else 0 <= x <= 1.
Proof.
  intros Hn Hb Hu Hl Hp Hm Hrow Hx. unfold gen_output in Hrow. rewrite Hn in Hrow.
  assert (Hst : forall r y, In r (gen_rows e ss n us perm) -> In y r ->
            if e_symmetric e then -1 <= y < 1 else 0 <= y < 1).
  { intros r y Hr Hy. unfold gen_rows in Hr.
    eapply (stage_support e _ us perm y Hb Hu Hl Hp). eapply reshape_In; eassumption. }
  destruct (e_antithetic e) eqn:A.
  - apply in_map_iff in Hrow. destruct Hrow as (half & <- & Hhalf).
    specialize (Hm eq_refl). unfold anti_row in Hx. apply in_app_or in Hx.
    destruct Hx as [Hx|Hx].
    + specialize (Hst half x Hhalf Hx). destruct (e_symmetric e); split; lra.
    + apply in_map_iff in Hx. destruct Hx as (y & <- & Hy).
      specialize (Hst half y Hhalf Hy). rewrite Hm.
      destruct (e_symmetric e); simpl; unfold mirror_neg, mirror_unit; split; lra.
  - specialize (Hst row x Hrow Hx). destruct (e_symmetric e); split; lra.
Qed.

(* T11d: a symmetric entry is the map 2u-1 of the unit entry with the same generator, fed with
   the same random numbers and the same shuffle *)
Lemma stage_symmetric e e' count us perm :
  e_family e' = e_family e -> e_base e' = e_base e -> e_skip e' = e_skip e ->
  e_shuffled e' = e_shuffled e -> e_symmetric e' = true -> e_symmetric e = false ->
  Forall (fun j => (N.to_nat j < List.length us)%nat) perm ->
  stage e' count us perm = map sym (stage e count us perm).
Proof.
  intros Fa B S Sh Sy Sn Hperm. unfold stage. rewrite Fa, B, S, Sh, Sy, Sn.
  destruct (e_family e); simpl.
  - rewrite map_map. reflexivity.
  - rewrite map_map. reflexivity.
  - unfold mlhs, permute. rewrite map_map.
    apply map_ext_in. intros j Hj. rewrite Forall_forall in Hperm. specialize (Hperm j Hj).
    assert (Hlen : List.length (mlhs_base us) = List.length us).
    { unfold mlhs_base. apply mlhs_from_length. }
    rewrite !(nth_map_lt _ 0 0) by lia. reflexivity.
Qed.

(* ------------------------------------------------------------------ the generated catalogue (T11g) *)
Lemma catalogue_size : List.length catalogue = 21%nat.
Proof. vm_compute. reflexivity. Qed.

Lemma catalogue_keys_distinct : distinct_keys (map e_key catalogue) = true.
Proof. vm_compute. reflexivity. Qed.

Ltac solve_entry_goal :=
  vm_compute;
  first [ reflexivity
        | (intros; discriminate)
        | (intros; split; reflexivity)
        | (let k := fresh "k" in let H := fresh "H" in
           intros k H; injection H as <-; split; reflexivity)
        | (intros; reflexivity) ].

Lemma catalogue_consistent : Forall entry_consistent catalogue.
Proof.
  unfold catalogue.
  repeat (apply Forall_cons; [constructor; solve_entry_goal|]).
  apply Forall_nil.
Qed.

Lemma primeb_ge2 n : primeb n = true -> (2 <= n)%Z.
Proof. unfold primeb. intros H. apply andb_prop in H. destruct H as [H _]. lia. Qed.

Lemma family_eqb_eq a b : family_eqb a b = true <-> a = b.
Proof. destruct a, b; simpl; split; intros H; congruence. Qed.

(* readable corollaries *)
Lemma catalogue_base_advertised e : In e catalogue -> e_family e = FHalton ->
  number_after "base " (e_descr e) = Some (e_base e) /\
  number_after "HALTON" (e_key e) = Some (e_base e) /\ (2 <= e_base e)%Z /\ e_shuffled e = false.
Proof.
  intros Hin Hf. pose proof catalogue_consistent as C. rewrite Forall_forall in C.
  destruct (C e Hin) as [].
  assert (E : family_eqb (e_family e) FHalton = true) by (apply family_eqb_eq; exact Hf).
  rewrite E in *. repeat split; try assumption. apply primeb_ge2. auto.
Qed.

Lemma catalogue_base_ok e : In e catalogue -> (2 <= e_base e)%Z \/ e_family e <> FHalton.
Proof.
  intros Hin. destruct (e_family e) eqn:Fam; try (right; congruence).
  left. apply catalogue_base_advertised; assumption.
Qed.

(* entries advertising different bases give different sequences: decided pairwise on the table
   at the first delivered element (index skip+1 of the radical-inverse sequence) *)
Definition halton_pairs_differ (cat : list entry) : bool :=
  forallb (fun e1 => forallb (fun e2 =>
    implb (family_eqb (e_family e1) FHalton && family_eqb (e_family e2) FHalton
           && negb (e_base e1 =? e_base e2)%Z)
          (negb (Qeq_bool (radical_inverse (e_base e1) (Z.of_nat (0 + Z.to_nat (e_skip e1) + 1)))
                          (radical_inverse (e_base e2) (Z.of_nat (0 + Z.to_nat (e_skip e2) + 1))))))
    cat) cat.

Lemma catalogue_pairs_differ : halton_pairs_differ catalogue = true.
Proof. vm_compute. reflexivity. Qed.

Lemma catalogue_halton_distinct e1 e2 len1 len2 :
  In e1 catalogue -> In e2 catalogue ->
  e_family e1 = FHalton -> e_family e2 = FHalton -> e_base e1 <> e_base e2 ->
  (1 <= len1)%nat -> (1 <= len2)%nat ->
  ~ nth 0 (halton_py (e_base e1) len1 (Z.to_nat (e_skip e1))) 0
    == nth 0 (halton_py (e_base e2) len2 (Z.to_nat (e_skip e2))) 0.
Proof.
  intros H1 H2 F1 F2 Hne L1 L2 E.
  destruct (catalogue_base_advertised e1 H1 F1) as (_ & _ & B1 & _).
  destruct (catalogue_base_advertised e2 H2 F2) as (_ & _ & B2 & _).
  rewrite !halton_is_radical_inverse in E by (try assumption; lia).
  pose proof catalogue_pairs_differ as P. unfold halton_pairs_differ in P.
  rewrite forallb_forall in P. specialize (P e1 H1). rewrite forallb_forall in P. specialize (P e2 H2).
  apply family_eqb_eq in F1, F2. rewrite F1, F2 in P. simpl in P.
  assert (Hb : (e_base e1 =? e_base e2)%Z = false) by (apply Z.eqb_neq; exact Hne).
  rewrite Hb in P. simpl in P. apply negb_true_iff in P.
  apply Qeq_bool_neq in P. apply P. exact E.
Qed.

(* ------------------------------------------------------------------ Wichura: branch structure (T11i) *)
Lemma Qle_bool_spec a b : BoolSpec (a <= b) (b < a) (Qle_bool a b).
Proof.
  destruct (Qle_bool a b) eqn:E; constructor.
  - apply Qle_bool_iff. exact E.
  - apply Qnot_le_lt. intro H. apply Qle_bool_iff in H. congruence.
Qed.

Lemma Qabs_lt_cases x c : c < Qabs x -> x < - c \/ c < x.
Proof.
  intros H. destruct (Qlt_le_dec x 0) as [N|P].
  - left. rewrite Qabs_neg in H by lra. lra.
  - right. rewrite Qabs_pos in H by lra. lra.
Qed.

Lemma Qabs_le_cases x c : Qabs x <= c -> - c <= x /\ x <= c.
Proof. intros H. apply Qabs_Qle_condition in H. exact H. Qed.

(* the interval ends of AS241's central region, with the binary64 value of 0.425 *)
Definition as241_lo : Q := (1 # 2) - as241_split1.   (* 0.07500000000000001110... *)
Definition as241_hi : Q := (1 # 2) + as241_split1.   (* 0.92499999999999998889... *)

(* where the implementation selects the same formula as AS241 *)
Definition wichura_agree (u : Q) : Prop := as241_lo <= u <= w_c1 wichura \/ as241_hi < u.

Ltac norm_dy :=
  repeat match goal with
         | |- context [dy ?m ?k] =>
             let v := eval vm_compute in (dy m k) in change (dy m k) with v
         | H : context [dy ?m ?k] |- _ =>
             let v := eval vm_compute in (dy m k) in change (dy m k) with v in H
         end.

Ltac wich_unfold :=
  cbv [impl_region as241_region wichura warg_eval wcmp_eval wichura_agree as241_lo as241_hi
       as241_split1 impl_tail_area impl_tail_negated wsrc_eval as241_tail_area
       w_shift w_arg1 w_op1 w_c1 w_arg2 w_op2 w_c2 w_opa w_ca w_srca w_nega
       w_opb w_cb w_srcb w_negb] in *;
  norm_dy.

Ltac wich_cases :=
  repeat match goal with
         | |- context [Qle_bool ?a ?b] => destruct (Qle_bool_spec a b)
         | H : context [Qle_bool ?a ?b] |- _ => destruct (Qle_bool_spec a b)
         end.

Ltac wich_abs :=
  repeat match goal with
         | H : Qabs _ <= _ |- _ => apply Qabs_le_cases in H; destruct H
         | H : _ < Qabs _ |- _ => apply Qabs_lt_cases in H; destruct H
         end.

(* exact description of the set where the branch choice of the code coincides with AS241 *)
Lemma wichura_branches_exact u : 0 < u < 1 ->
  (impl_region wichura u = as241_region u <-> wichura_agree u).
Proof.
  intros [H0 H1]. wich_unfold. wich_cases; cbn [andb negb]; wich_abs;
    (split; [intros E; try discriminate E; try (left; split; lra); try (right; lra); try lra
            | intros [[A B]|A]; try reflexivity; exfalso; lra]).
Qed.

(* the statement that SHOULD hold (branch structure of AS241) is false for the code ... *)
Lemma wichura_branches_refuted :
  (exists u, 0 < u < 1 /\ impl_region wichura u = WCentral /\ as241_region u = WTailLow) /\
  (exists u, 0 < u < 1 /\ impl_region wichura u = WTailLow /\ as241_region u = WCentral) /\
  (exists u, 0 < u < 1 /\ impl_region wichura u = WTailHigh /\ as241_region u = WCentral).
Proof.
  split; [|split].
  - exists (1 # 100). split; [split; reflexivity|]. split; vm_compute; reflexivity.
  - exists (47 # 100). split; [split; reflexivity|]. split; vm_compute; reflexivity.
  - exists (6 # 10). split; [split; reflexivity|]. split; vm_compute; reflexivity.
Qed.

(* ... and holds on the sub-range where the two tests happen to coincide *)
Lemma wichura_branches_partial u : 0 < u < 1 -> wichura_agree u ->
  impl_region wichura u = as241_region u.
Proof. intros Hu Ha. apply wichura_branches_exact; assumption. Qed.

(* every u of (0,1) is assigned a formula; whenever a tail formula is selected it is fed AS241's
   tail area min(u, 1-u) and carries AS241's sign *)
Lemma wichura_tails u : 0 < u < 1 ->
  impl_region wichura u <> WUnassigned /\
  (impl_region wichura u = WTailLow ->
     u < 1 # 2 /\ impl_tail_area wichura u == as241_tail_area u /\ impl_tail_negated wichura u = true) /\
  (impl_region wichura u = WTailHigh ->
     1 # 2 <= u /\ impl_tail_area wichura u == as241_tail_area u /\ impl_tail_negated wichura u = false).
Proof.
  intros [H0 H1].
  assert (Hmin1 : u <= 1 - u -> Qmin u (1 - u) == u) by (intros; apply Q.min_l; assumption).
  assert (Hmin2 : 1 - u <= u -> Qmin u (1 - u) == 1 - u) by (intros; apply Q.min_r; assumption).
  wich_unfold. wich_cases; cbn [andb negb]; wich_abs;
    (split; [discriminate|split; intros E; try discriminate E];
     (split; [lra|split; [|reflexivity]]);
     first [rewrite Hmin1 by lra; reflexivity | rewrite Hmin2 by lra; reflexivity]).
Qed.
