(* Proofs/DBP.v -- lemmas about the data-base model Model/DB.v (property C13). *)
From Coq Require Import ZArith List Bool Lia Permutation.
From BV Require Import Model.DB.
Import ListNotations.
Open Scope Z_scope.

(* ================================================================== cells *)
Lemma ceqb_eq (a b : cell) : ceqb a b = true <-> a = b.
Proof.
  destruct a as [m e], b as [m' e']; unfold ceqb; simpl.
  rewrite andb_true_iff, !Z.eqb_eq. split.
  - intros [-> ->]; reflexivity.
  - intros H; injection H; auto.
Qed.

Lemma ceqb_refl a : ceqb a a = true.
Proof. apply ceqb_eq; reflexivity. Qed.

Lemma ceqb_neq (a b : cell) : ceqb a b = false <-> a <> b.
Proof.
  split.
  - intros H E. apply ceqb_eq in E. congruence.
  - intros H. destruct (ceqb a b) eqn:E; auto. apply ceqb_eq in E. contradiction.
Qed.

Lemma ceqb_sym a b : ceqb a b = ceqb b a.
Proof.
  destruct (ceqb a b) eqn:E.
  - apply ceqb_eq in E; subst; symmetry; apply ceqb_refl.
  - symmetry. apply ceqb_neq. apply ceqb_neq in E. congruence.
Qed.

Lemma norm_pos_pos p e : exists q e', norm_pos p e = (q, e').
Proof. destruct (norm_pos p e) as [q e']; eauto. Qed.

Lemma fst_dnorm_sgn m e : Z.sgn (fst (dnorm (m, e))) = Z.sgn m.
Proof.
  unfold dnorm; simpl. destruct m as [|p|p]; simpl; auto;
    destruct (norm_pos p e) as [q e']; reflexivity.
Qed.

Lemma dsub_self a : dsub a a = (0, 0).
Proof.
  destruct a as [m e]. unfold dsub, dadd, dopp; simpl.
  rewrite Z.min_id, Z.sub_diag. simpl. replace (m * 1 + - m * 1) with 0 by lia. reflexivity.
Qed.

Lemma dleb_refl a : dleb a a = true.
Proof. unfold dleb. rewrite dsub_self. reflexivity. Qed.

(* the un-normalised mantissa of a - b *)
Definition raw_sub (a b : cell) : Z :=
  let e := Z.min (snd a) (snd b) in fst a * 2 ^ (snd a - e) - fst b * 2 ^ (snd b - e).

Lemma dsub_sgn a b : Z.sgn (fst (dsub a b)) = Z.sgn (raw_sub a b).
Proof.
  unfold dsub, dadd, dopp, raw_sub; simpl. rewrite fst_dnorm_sgn. f_equal. lia.
Qed.

Lemma raw_sub_anti a b : raw_sub b a = - raw_sub a b.
Proof. unfold raw_sub. rewrite (Z.min_comm (snd b) (snd a)). lia. Qed.

Lemma dleb_total a b : dleb a b = false -> dleb b a = true.
Proof.
  unfold dleb. intros H. apply Z.leb_gt in H. apply Z.leb_le.
  pose proof (dsub_sgn a b) as Ha. pose proof (dsub_sgn b a) as Hb.
  rewrite raw_sub_anti in Hb. lia.
Qed.

(* ================================================================== lists *)
Lemma memZ_In z l : memZ z l = true <-> In z l.
Proof.
  unfold memZ. rewrite existsb_exists. split.
  - intros [x [Hx E]]. apply Z.eqb_eq in E. subst. assumption.
  - intros H. exists z. split; auto. apply Z.eqb_refl.
Qed.

Lemma memZ_false z l : memZ z l = false <-> ~ In z l.
Proof.
  split.
  - intros H E. apply memZ_In in E. congruence.
  - intros H. destruct (memZ z l) eqn:E; auto. apply memZ_In in E. contradiction.
Qed.

Lemma memC_In c l : memC c l = true <-> In c l.
Proof.
  unfold memC. rewrite existsb_exists. split.
  - intros [x [Hx E]]. apply ceqb_eq in E. subst. assumption.
  - intros H. exists c. split; auto. apply ceqb_refl.
Qed.

Lemma index_of_Some c cs i : index_of c cs = Some i -> (i < length cs)%nat /\ nth_error cs i = Some c.
Proof.
  revert i. induction cs as [|x r IH]; simpl; intros i H; [discriminate|].
  destruct (x =? c) eqn:E.
  - injection H as <-. apply Z.eqb_eq in E. subst. split; [lia|reflexivity].
  - destruct (index_of c r) as [j|]; simpl in H; [|discriminate].
    injection H as <-. destruct (IH j eq_refl). split; [lia|assumption].
Qed.

Lemma index_of_In c cs : In c cs <-> exists i, index_of c cs = Some i.
Proof.
  induction cs as [|x r IH]; simpl.
  - split; [tauto|intros [i H]; discriminate].
  - destruct (x =? c) eqn:E.
    + apply Z.eqb_eq in E. split; eauto.
    + apply Z.eqb_neq in E. rewrite IH. split.
      * intros [H|[i H]]; [contradiction|]. rewrite H. simpl. eauto.
      * intros [i H]. destruct (index_of c r); simpl in H; [|discriminate]. right; eauto.
Qed.

Lemma index_of_None c cs : index_of c cs = None <-> ~ In c cs.
Proof.
  rewrite index_of_In. split.
  - intros H [i E]. congruence.
  - intros H. destruct (index_of c cs) eqn:E; auto. exfalso. apply H. eauto.
Qed.

Lemma index_of_app_l c cs l i : index_of c cs = Some i -> index_of c (cs ++ l) = Some i.
Proof.
  revert i. induction cs as [|x r IH]; simpl; intros i H; [discriminate|].
  destruct (x =? c); auto.
  destruct (index_of c r) as [j|]; simpl in H; [|discriminate].
  rewrite (IH j eq_refl). assumption.
Qed.

Lemma index_of_app_last c cs : ~ In c cs -> index_of c (cs ++ [c]) = Some (length cs).
Proof.
  induction cs as [|x r IH]; simpl; intros H.
  - rewrite Z.eqb_refl. reflexivity.
  - destruct (x =? c) eqn:E.
    + apply Z.eqb_eq in E. exfalso. apply H. auto.
    + rewrite IH by tauto. reflexivity.
Qed.

Lemma index_of_app_other c c' cs : c' <> c -> ~ In c' cs -> index_of c' (cs ++ [c]) = None.
Proof.
  intros Hn Hi. apply index_of_None. intros H. apply in_app_or in H. simpl in H.
  destruct H as [H|[H|[]]]; [contradiction|congruence].
Qed.

Lemma remove_nth_app_last {A} (l : list A) x : remove_nth (length l) (l ++ [x]) = l.
Proof. induction l as [|y r IH]; simpl; [reflexivity|]. f_equal. exact IH. Qed.

Lemma nth_error_app_last {A} (l : list A) x : nth_error (l ++ [x]) (length l) = Some x.
Proof. rewrite nth_error_app2 by lia. rewrite Nat.sub_diag. reflexivity. Qed.

Lemma length_update_nth {A} n (f : A -> A) l : length (update_nth n f l) = length l.
Proof. revert n; induction l as [|x r IH]; intros [|n]; simpl; auto. Qed.

Lemma nth_error_update_nth_same {A} n (f : A -> A) l :
  nth_error (update_nth n f l) n = option_map f (nth_error l n).
Proof. revert n; induction l as [|x r IH]; intros [|n]; simpl; auto. Qed.

Lemma nth_error_update_nth_other {A} n m (f : A -> A) l :
  n <> m -> nth_error (update_nth n f l) m = nth_error l m.
Proof.
  revert n m; induction l as [|x r IH]; intros [|n] [|m] H; simpl; auto; try congruence.
Qed.

Lemma length_remove_nth {A} n (l : list A) :
  (n < length l)%nat -> length (remove_nth n l) = pred (length l).
Proof.
  revert n; induction l as [|x r IH]; intros [|n] H; simpl in *; try lia.
  rewrite IH by lia. destruct r; simpl in *; lia.
Qed.

Lemma map_opt_Some {A B} (f : A -> option B) l l' (d : B) :
  map_opt f l = Some l' -> l' = map (fun x => match f x with Some y => y | None => d end) l
                           /\ forall x, In x l -> f x <> None.
Proof.
  revert l'. induction l as [|x r IH]; simpl; intros l' H.
  - injection H as <-. split; [reflexivity|tauto].
  - destruct (f x) as [y|] eqn:E; [|discriminate].
    destruct (map_opt f r) as [ys|]; [|discriminate].
    injection H as <-. destruct (IH ys eq_refl) as [-> Hn]. split; [reflexivity|].
    intros z [<-|Hz]; [congruence|auto].
Qed.

Lemma map_opt_total {A B} (f : A -> option B) l :
  (forall x, In x l -> f x <> None) -> exists l', map_opt f l = Some l'.
Proof.
  induction l as [|x r IH]; simpl; intros H; [eauto|].
  destruct (f x) as [y|] eqn:E; [|exfalso; apply (H x); auto].
  destruct IH as [ys ->]; [intros; apply H; auto|]. eauto.
Qed.

Lemma map_opt_None {A B} (f : A -> option B) l :
  map_opt f l = None -> exists x, In x l /\ f x = None.
Proof.
  induction l as [|x r IH]; simpl; [discriminate|].
  destruct (f x) as [y|] eqn:E; [|intros _; exists x; auto].
  destruct (map_opt f r); [discriminate|]. intros _.
  destruct IH as [z [Hz Ez]]; auto. exists z; auto.
Qed.

Lemma filter_map {A B} (p : B -> bool) (g : A -> B) l :
  filter p (map g l) = map g (filter (fun x => p (g x)) l).
Proof.
  induction l as [|x r IH]; simpl; [reflexivity|].
  destruct (p (g x)); simpl; rewrite IH; reflexivity.
Qed.

Lemma map_id_ext {A} (g : A -> A) l : (forall x, In x l -> g x = x) -> map g l = l.
Proof.
  induction l as [|x r IH]; simpl; intros H; [reflexivity|].
  rewrite H by auto. f_equal. apply IH. intros; apply H; auto.
Qed.

Lemma filter_ext_in' {A} (p q : A -> bool) l :
  (forall x, In x l -> p x = q x) -> filter p l = filter q l.
Proof.
  induction l as [|x r IH]; simpl; intros H; [reflexivity|].
  rewrite (H x) by auto. rewrite IH by (intros; apply H; auto). reflexivity.
Qed.

Lemma filter_partition_perm {A} (p : A -> bool) l :
  Permutation (filter p l ++ filter (fun x => negb (p x)) l) l.
Proof.
  induction l as [|x r IH]; simpl; [constructor|].
  destruct (p x); simpl.
  - constructor. exact IH.
  - apply Permutation_sym. apply Permutation_cons_app. apply Permutation_sym. exact IH.
Qed.

Lemma length_filter_le {A} (p : A -> bool) l : (length (filter p l) <= length l)%nat.
Proof. induction l as [|x r IH]; simpl; [lia|]. destruct (p x); simpl; lia. Qed.

Lemma map_nth_seq {A} (l : list A) d : map (fun i => nth i l d) (seq 0 (length l)) = l.
Proof.
  induction l as [|x r IH]; simpl; [reflexivity|]. f_equal.
  rewrite <- seq_shift, map_map. exact IH.
Qed.

Lemma split_at {A} (l : list A) i d :
  (i < length l)%nat -> l = firstn i l ++ nth i l d :: skipn (S i) l.
Proof.
  revert i; induction l as [|x r IH]; intros [|i] H; simpl in *; try lia; [reflexivity|].
  f_equal. apply IH. lia.
Qed.

(* ------------------------------------------------------------------ uniq *)
Lemma uniq_In v l : In v (uniq l) <-> In v l.
Proof.
  induction l as [|x r IH]; simpl; [tauto|].
  rewrite filter_In, IH. split.
  - intros [H|[H _]]; auto.
  - intros [H|H]; auto. destruct (ceqb x v) eqn:E.
    + apply ceqb_eq in E. auto.
    + right. split; auto.
Qed.

Lemma uniq_NoDup l : NoDup (uniq l).
Proof.
  induction l as [|x r IH]; simpl; constructor.
  - rewrite filter_In. intros [_ H]. rewrite ceqb_refl in H. discriminate.
  - apply NoDup_filter. exact IH.
Qed.

(* ----------------------------------------------------------- perm_b *)
Section PermB.
  Context {A : Type} (eqb : A -> A -> bool).
  Hypothesis eqb_eq : forall x y, eqb x y = true <-> x = y.

  Lemma remove_one_perm x l l' : remove_one eqb x l = Some l' -> Permutation l (x :: l').
  Proof.
    revert l'. induction l as [|y r IH]; simpl; intros l' H; [discriminate|].
    destruct (eqb x y) eqn:E.
    - injection H as <-. apply eqb_eq in E. subst. reflexivity.
    - destruct (remove_one eqb x r) as [r'|]; [|discriminate]. injection H as <-.
      rewrite (IH r' eq_refl). apply perm_swap.
  Qed.

  Lemma remove_one_In x l : In x l -> exists l', remove_one eqb x l = Some l'.
  Proof.
    induction l as [|y r IH]; simpl; [tauto|]. intros H.
    destruct (eqb x y) eqn:E; [eauto|].
    destruct H as [H|H].
    - subst. assert (eqb x x = true) by (apply eqb_eq; reflexivity). congruence.
    - destruct (IH H) as [r' ->]. eauto.
  Qed.

  Lemma perm_b_spec l1 l2 : perm_b eqb l1 l2 = true <-> Permutation l1 l2.
  Proof.
    revert l2. induction l1 as [|x r IH]; simpl; intros l2.
    - destruct l2; split; intros H; auto; try discriminate.
      apply Permutation_nil_cons in H. contradiction.
    - destruct (remove_one eqb x l2) as [l2'|] eqn:E.
      + pose proof (remove_one_perm _ _ _ E) as P. rewrite IH. split; intros H.
        * rewrite P. constructor. exact H.
        * rewrite P in H. apply Permutation_cons_inv in H. exact H.
      + split; [discriminate|]. intros H.
        assert (In x l2) by (apply (Permutation_in _ H); simpl; auto).
        destruct (remove_one_In x l2 H0) as [l' E']. congruence.
  Qed.
End PermB.

Lemma row_eqb_eq (a b : row) : row_eqb a b = true <-> a = b.
Proof.
  revert b. induction a as [|x a IH]; intros [|y b]; simpl; split; intros H; auto; try discriminate.
  - apply andb_true_iff in H. destruct H as [H1 H2]. apply ceqb_eq in H1. apply IH in H2. congruence.
  - injection H as -> ->. rewrite ceqb_refl. simpl. apply IH. reflexivity.
Qed.

Lemma lrow_eqb_eq (a b : lrow) : lrow_eqb a b = true <-> a = b.
Proof.
  destruct a as [l r], b as [l' r']. unfold lrow_eqb; simpl.
  rewrite andb_true_iff, Z.eqb_eq, row_eqb_eq. split.
  - intros [-> ->]. reflexivity.
  - intros H. injection H. auto.
Qed.

(* ================================================================== getc *)
Lemma getc_app_new cs c r v :
  ~ In c cs -> length r = length cs -> getc (cs ++ [c]) c (r ++ [v]) = Some v.
Proof.
  intros H L. unfold getc. rewrite index_of_app_last by assumption.
  rewrite <- L. apply nth_error_app_last.
Qed.

Lemma getc_app_old cs c c' r v :
  c' <> c -> length r = length cs -> getc (cs ++ [c]) c' (r ++ [v]) = getc cs c' r.
Proof.
  intros Hn L. unfold getc. destruct (index_of c' cs) as [i|] eqn:E.
  - rewrite (index_of_app_l _ _ _ _ E). apply index_of_Some in E. destruct E as [Hi _].
    apply nth_error_app1. lia.
  - apply index_of_None in E. rewrite index_of_app_other by assumption. reflexivity.
Qed.

Lemma getc_In_Some cs c r : In c cs -> length r = length cs -> exists v, getc cs c r = Some v.
Proof.
  intros H L. apply index_of_In in H. destruct H as [i E]. unfold getc. rewrite E.
  apply index_of_Some in E. destruct E as [Hi _].
  destruct (nth_error r i) eqn:N; eauto. apply nth_error_None in N. lia.
Qed.

(* ============================================= add_column / define_variable *)
Definition fval (f : formula) (cs : list Z) (r : lrow) : cell :=
  match f cs (snd r) with Some v => v | None => dzero end.

Lemma add_col_Some f c t t' :
  add_col f c t = Some t' ->
  rows t <> [] /\ ~ In c (cols t) /\ (forall r, In r (rows t) -> f (cols t) (snd r) <> None) /\
  cols t' = cols t ++ [c] /\
  rows t' = map (fun r : lrow => (fst r, snd r ++ [fval f (cols t) r])) (rows t).
Proof.
  unfold add_col. destruct (rows t) as [|r0 rs] eqn:R; [discriminate|].
  destruct (memZ c (cols t)) eqn:M; [discriminate|].
  destruct (map_opt _ (r0 :: rs)) as [l'|] eqn:O; [|discriminate].
  intros H; injection H as <-. cbn [cols rows].
  apply (map_opt_Some _ _ _ (0, [])) in O. destruct O as [-> Hn].
  split; [discriminate|]. split; [apply memZ_false; assumption|]. split; [|split; [reflexivity|]].
  - intros r Hr E. apply (Hn r Hr). rewrite E. reflexivity.
  - apply map_ext_in. intros r Hr. unfold fval.
    destruct (f (cols t) (snd r)) eqn:E; simpl; [reflexivity|].
    exfalso. apply (Hn r Hr). rewrite E. reflexivity.
Qed.

Lemma add_col_defined f c t :
  rows t <> [] -> ~ In c (cols t) -> (forall r, In r (rows t) -> f (cols t) (snd r) <> None) ->
  exists t', add_col f c t = Some t'.
Proof.
  intros R C F. unfold add_col. destruct (rows t) as [|r0 rs] eqn:E; [congruence|].
  apply memZ_false in C. rewrite C.
  destruct (map_opt_total (fun r : lrow => option_map (fun v => (fst r, snd r ++ [v])) (f (cols t) (snd r)))
                          (r0 :: rs)) as [l' ->]; [|eauto].
  intros r Hr. specialize (F r Hr). destruct (f (cols t) (snd r)); simpl; congruence.
Qed.

Lemma add_col_None f c t :
  add_col f c t = None ->
  rows t = [] \/ In c (cols t) \/ exists r, In r (rows t) /\ f (cols t) (snd r) = None.
Proof.
  unfold add_col. destruct (rows t) as [|r0 rs] eqn:R; [auto|].
  destruct (memZ c (cols t)) eqn:M; [intros _; right; left; apply memZ_In; assumption|].
  destruct (map_opt _ (r0 :: rs)) as [l'|] eqn:O; [discriminate|]. intros _.
  apply map_opt_None in O. destruct O as [r [Hr E]]. right; right. exists r. split; auto.
  destruct (f (cols t) (snd r)); simpl in E; congruence.
Qed.

Lemma NoDup_app_last {A} (l : list A) x : NoDup l -> ~ In x l -> NoDup (l ++ [x]).
Proof.
  intros N H. apply (Permutation_NoDup (Permutation_cons_append l x)). constructor; assumption.
Qed.

Lemma add_col_wf f c t t' : well_formed t -> add_col f c t = Some t' -> well_formed t'.
Proof.
  intros [ND WF] H. apply add_col_Some in H. destruct H as [_ [NI [_ [C R]]]]. split.
  - rewrite C. apply NoDup_app_last; assumption.
  - intros r Hr. rewrite R in Hr. apply in_map_iff in Hr. destruct Hr as [r0 [<- Hr0]]. simpl.
    rewrite C, !app_length, (WF r0 Hr0). reflexivity.
Qed.

(* T13b: every row keeps its label and its old cells and receives, in the new column, the
   value of the formula on that row *)
Lemma add_column_pointwise f c t t' :
  well_formed t -> add_col f c t = Some t' ->
  cols t' = cols t ++ [c] /\ labels t' = labels t /\
  forall i r, nth_error (rows t) i = Some r ->
    exists r', nth_error (rows t') i = Some r' /\ fst r' = fst r /\
               getc (cols t') c (snd r') = f (cols t) (snd r) /\
               forall c', In c' (cols t) -> getc (cols t') c' (snd r') = getc (cols t) c' (snd r).
Proof.
  intros [ND WF] H. apply add_col_Some in H. destruct H as [_ [NI [FN [C R]]]].
  split; [assumption|]. split.
  - unfold labels. rewrite R, map_map. simpl. reflexivity.
  - intros i r Hi. exists (fst r, snd r ++ [fval f (cols t) r]).
    assert (Hr : In r (rows t)) by (eapply nth_error_In; eauto).
    split; [rewrite R; exact (map_nth_error (fun r0 : lrow => (fst r0, snd r0 ++ [fval f (cols t) r0])) _ _ Hi)|]. split; [reflexivity|]. simpl. rewrite C. split.
    + rewrite getc_app_new by (auto using WF). unfold fval.
      destruct (f (cols t) (snd r)) eqn:E; [reflexivity|]. exfalso. apply (FN r Hr). assumption.
    + intros c' Hc'. apply getc_app_old; [|auto using WF]. intros ->. contradiction.
Qed.

(* ================================================================== remove *)
Definition keeps (f : formula) (cs : list Z) (r : lrow) : bool := negb (cell_nonzero (fval f cs r)).

Lemma cond_nonzero_added f cs b (r : lrow) :
  ~ In b cs -> length (snd r) = length cs ->
  cond_nonzero (cs ++ [b]) b (fst r, snd r ++ [fval f cs r]) = cell_nonzero (fval f cs r).
Proof. intros H L. unfold cond_nonzero. simpl. rewrite getc_app_new by assumption. reflexivity. Qed.

Lemma drop_added_col b cs (g : lrow -> cell) (rs : list lrow) :
  ~ In b cs -> (forall r, In r rs -> length (snd r) = length cs) ->
  drop_col b (mkT (cs ++ [b]) (map (fun r : lrow => (fst r, snd r ++ [g r])) rs)) = mkT cs rs.
Proof.
  intros H WF. unfold drop_col. cbn [cols rows]. rewrite index_of_app_last by assumption.
  rewrite remove_nth_app_last. f_equal. rewrite map_map. apply map_id_ext.
  intros r Hr. simpl. rewrite <- (WF r Hr), remove_nth_app_last. destruct r; reflexivity.
Qed.

(* T13a: remove deletes exactly the rows on which the condition is non-zero -- whatever the
   labels are --, keeps order, labels and all cells of the others, reports the number of
   deleted rows and leaves no temporary column behind *)
Lemma remove_exact f t t' n :
  well_formed t -> remove_tab f t = Some (t', n) ->
  cols t' = cols t /\
  rows t' = filter (keeps f (cols t)) (rows t) /\
  n = Z.of_nat (length (filter (fun r => negb (keeps f (cols t) r)) (rows t))) /\
  n + nrows t' = nrows t.
Proof.
  intros [ND WF] H. unfold remove_tab in H.
  destruct (add_col f bioRemove t) as [t1|] eqn:A; [|discriminate].
  apply add_col_Some in A. destruct A as [_ [NI [FN [C R]]]].
  injection H as <- <-. rewrite C, R.
  rewrite !filter_map.
  assert (E1 : filter (fun x : lrow => negb (cond_nonzero (cols t ++ [bioRemove]) bioRemove
                         (fst x, snd x ++ [fval f (cols t) x]))) (rows t)
               = filter (keeps f (cols t)) (rows t)).
  { apply filter_ext_in'. intros r Hr. rewrite cond_nonzero_added by auto. reflexivity. }
  assert (E2 : filter (fun x : lrow => cond_nonzero (cols t ++ [bioRemove]) bioRemove
                         (fst x, snd x ++ [fval f (cols t) x])) (rows t)
               = filter (fun r => negb (keeps f (cols t) r)) (rows t)).
  { apply filter_ext_in'. intros r Hr. rewrite cond_nonzero_added by auto.
    unfold keeps. rewrite negb_involutive. reflexivity. }
  rewrite E1, E2, map_length.
  rewrite drop_added_col; [|assumption|intros r Hr; apply WF; apply filter_In in Hr; tauto].
  cbn [cols rows]. repeat split. unfold nrows. cbn [rows].
  pose proof (filter_partition_perm (keeps f (cols t)) (rows t)) as P.
  apply Permutation_length in P. rewrite app_length in P. lia.
Qed.

Lemma remove_defined f t :
  rows t <> [] -> ~ In bioRemove (cols t) -> (forall r, In r (rows t) -> f (cols t) (snd r) <> None) ->
  exists t' n, remove_tab f t = Some (t', n).
Proof.
  intros R C F. destruct (add_col_defined f bioRemove t R C F) as [t1 E].
  unfold remove_tab. rewrite E. eauto.
Qed.

Lemma remove_None f t :
  remove_tab f t = None ->
  rows t = [] \/ In bioRemove (cols t) \/ exists r, In r (rows t) /\ f (cols t) (snd r) = None.
Proof.
  unfold remove_tab. destruct (add_col f bioRemove t) eqn:A; [discriminate|].
  intros _. apply add_col_None. assumption.
Qed.

Lemma remove_wf f t t' n : well_formed t -> remove_tab f t = Some (t', n) -> well_formed t'.
Proof.
  intros W H. destruct (remove_exact f t t' n W H) as [C [R _]]. destruct W as [ND WF]. split.
  - rewrite C. assumption.
  - intros r Hr. rewrite R in Hr. apply filter_In in Hr. rewrite C. apply WF. tauto.
Qed.

(* the survivors' values of the condition are zero, the deleted rows' values are not *)
Lemma remove_exact_values f t t' n r :
  well_formed t -> remove_tab f t = Some (t', n) -> In r (rows t) ->
  exists v, f (cols t) (snd r) = Some v /\ (In r (rows t') <-> fst v = 0).
Proof.
  intros W H Hr. destruct (remove_exact f t t' n W H) as [_ [R _]].
  unfold remove_tab in H. destruct (add_col f bioRemove t) as [t1|] eqn:A; [|discriminate].
  apply add_col_Some in A. destruct A as [_ [_ [FN _]]].
  destruct (f (cols t) (snd r)) as [v|] eqn:E; [|exfalso; apply (FN r Hr); assumption].
  exists v. split; [reflexivity|]. rewrite R, filter_In. unfold keeps, fval, cell_nonzero. rewrite E.
  rewrite negb_involutive, Z.eqb_eq. tauto.
Qed.

(* the code before commit 589b5da dropped by label: a row with a zero condition disappears
   when it shares its label with a row that is removed *)
Lemma remove_by_label_refuted :
  exists f t t' n r,
    well_formed t /\ remove_tab_by_label f t = Some (t', n) /\
    In r (rows t) /\ f (cols t) (snd r) = Some dzero /\ ~ In r (rows t').
Proof.
  exists (feval (FBin BEq (FCol 1) (FConst (3, 0)))).
  exists (mkT [1] [(7, [(1, 0)]); (3, [(1, 1)]); (7, [(3, 0)]); (10, [(1, 2)])]).
  eexists. eexists. exists (7, [(1, 0)]).
  split; [|split; [vm_compute; reflexivity|]].
  - split; [repeat constructor; simpl; tauto|].
    intros r Hr. simpl in Hr. repeat destruct Hr as [<-|Hr]; try reflexivity. contradiction.
  - split; [simpl; auto|]. split; [reflexivity|].
    simpl. intros [H|[H|[]]]; discriminate.
Qed.

(* ============================================================ scale_column *)
Lemma getc_update_same cs c i r g :
  index_of c cs = Some i -> getc cs c (update_nth i g r) = option_map g (getc cs c r).
Proof. intros E. unfold getc. rewrite E. apply nth_error_update_nth_same. Qed.

Lemma getc_update_other cs c c' i r g :
  NoDup cs -> index_of c cs = Some i -> c' <> c -> getc cs c' (update_nth i g r) = getc cs c' r.
Proof.
  intros ND E Hn. unfold getc. destruct (index_of c' cs) as [j|] eqn:E'; [|reflexivity].
  apply nth_error_update_nth_other. intros ->.
  apply index_of_Some in E. apply index_of_Some in E'.
  destruct E as [_ E], E' as [_ E']. congruence.
Qed.

(* T13c: scaling multiplies the cells of exactly one column, in every row *)
Lemma scale_one_column c s t t' :
  well_formed t -> scale_tab c s t = Some t' ->
  In c (cols t) /\ cols t' = cols t /\ labels t' = labels t /\ well_formed t' /\
  forall i r, nth_error (rows t) i = Some r ->
    exists r', nth_error (rows t') i = Some r' /\ fst r' = fst r /\
               getc (cols t) c (snd r') = option_map (fun x => dmul x s) (getc (cols t) c (snd r)) /\
               forall c', c' <> c -> getc (cols t) c' (snd r') = getc (cols t) c' (snd r).
Proof.
  intros [ND WF] H. unfold scale_tab in H.
  destruct (index_of c (cols t)) as [i0|] eqn:E; [|discriminate]. injection H as <-.
  split; [apply index_of_In; eauto|]. cbn [cols rows]. split; [reflexivity|]. split; [|split].
  - unfold labels. cbn [rows]. rewrite map_map. reflexivity.
  - split; [assumption|]. cbn [cols rows]. intros r Hr. apply in_map_iff in Hr.
    destruct Hr as [r0 [<- Hr0]]. simpl. rewrite length_update_nth. auto.
  - intros i r Hi. exists (fst r, update_nth i0 (fun x => dmul x s) (snd r)).
    split; [exact (map_nth_error (fun r1 : lrow => (fst r1, update_nth i0 (fun x => dmul x s) (snd r1))) _ _ Hi)|].
    split; [reflexivity|]. simpl. split.
    + apply getc_update_same. assumption.
    + intros c' Hn. apply (getc_update_other _ c); assumption.
Qed.

Lemma scale_None c s t : scale_tab c s t = None <-> ~ In c (cols t).
Proof.
  unfold scale_tab. destruct (index_of c (cols t)) eqn:E.
  - split; [discriminate|]. intros H. exfalso. apply H. apply index_of_In. eauto.
  - apply index_of_None in E. tauto.
Qed.

(* ==================================================== extract / count / sample *)
Lemma in_range_spec t i : in_range t i = true <-> 0 <= i < nrows t.
Proof. unfold in_range. rewrite andb_true_iff, Z.leb_le, Z.ltb_lt. tauto. Qed.

Lemma iloc_In t i : 0 <= i < nrows t -> In (iloc t i) (rows t).
Proof. intros H. unfold iloc. apply nth_In. unfold nrows in H. lia. Qed.

(* T13f (extract): extract_rows returns the rows at the requested POSITIONS of the current
   table (labels and cells untouched), whatever the labels are *)
Lemma extract_spec idx t t' :
  extract_tab idx t = Some t' ->
  idx <> [] /\ (forall i, In i idx -> 0 <= i < nrows t) /\
  cols t' = cols t /\ rows t' = map (iloc t) idx /\ incl (rows t') (rows t).
Proof.
  unfold extract_tab. destruct (forallb (in_range t) idx) eqn:F; [|discriminate].
  destruct idx as [|i0 idx']; [discriminate|]. intros H. injection H as <-.
  rewrite forallb_forall in F.
  split; [discriminate|]. split; [intros i Hi; apply in_range_spec; auto|].
  cbn [cols rows]. split; [reflexivity|]. split; [reflexivity|].
  intros r Hr. change (In r (map (iloc t) (i0 :: idx'))) in Hr.
  apply in_map_iff in Hr. destruct Hr as [i [<- Hi]]. apply iloc_In.
  apply in_range_spec. auto.
Qed.

Lemma extract_defined idx t :
  idx <> [] -> (forall i, In i idx -> 0 <= i < nrows t) -> exists t', extract_tab idx t = Some t'.
Proof.
  intros N H. unfold extract_tab.
  assert (F : forallb (in_range t) idx = true)
    by (apply forallb_forall; intros i Hi; apply in_range_spec; auto).
  rewrite F. destruct idx; [congruence|eauto].
Qed.

Lemma extract_wf idx t t' : well_formed t -> extract_tab idx t = Some t' -> well_formed t'.
Proof.
  intros [ND WF] H. apply extract_spec in H. destruct H as [_ [_ [C [_ I]]]]. split.
  - rewrite C. assumption.
  - intros r Hr. rewrite C. apply WF. apply I. assumption.
Qed.

(* gaps in the index do not matter: after a removal, position i designates the i-th SURVIVING
   row, with its original label *)
Lemma extract_after_remove f idx t t1 n t2 :
  well_formed t -> remove_tab f t = Some (t1, n) -> extract_tab idx t1 = Some t2 ->
  cols t2 = cols t /\
  rows t2 = map (fun i => nth (Z.to_nat i) (filter (keeps f (cols t)) (rows t)) dummy_row) idx.
Proof.
  intros W R E. destruct (remove_exact _ _ _ _ W R) as [C [Rw _]].
  apply extract_spec in E. destruct E as [_ [_ [C2 [R2 _]]]].
  split; [congruence|]. rewrite R2. unfold iloc. rewrite Rw. reflexivity.
Qed.

Lemma colvals_Some c t vs :
  colvals c t = Some vs -> In c (cols t) /\ vs = map (fun r : lrow => getd (cols t) c (snd r)) (rows t)
                           /\ forall r, In r (rows t) -> getc (cols t) c (snd r) <> None.
Proof.
  unfold colvals. destruct (index_of c (cols t)) eqn:E; [|discriminate]. intros H.
  split; [apply index_of_In; eauto|].
  apply (map_opt_Some _ _ _ dzero) in H. destruct H as [-> Hn]. split; [|assumption].
  apply map_ext. intros r. reflexivity.
Qed.

Lemma colvals_defined c t :
  well_formed t -> In c (cols t) -> exists vs, colvals c t = Some vs.
Proof.
  intros [ND WF] H. unfold colvals. pose proof H as H'. apply index_of_In in H'. destruct H' as [i ->].
  apply map_opt_total. intros r Hr. destruct (getc_In_Some (cols t) c (snd r) H (WF r Hr)) as [v ->].
  discriminate.
Qed.

Lemma filter_filter_and {A} (p q : A -> bool) l :
  filter q (filter p l) = filter (fun x => p x && q x) l.
Proof.
  induction l as [|x r IH]; simpl; [reflexivity|].
  destruct (p x); simpl; [|exact IH]. destruct (q x); rewrite IH; reflexivity.
Qed.

(* T13f (count) *)
Lemma count_spec c v t n :
  count_tab c v t = Some n ->
  In c (cols t) /\
  n = Z.of_nat (length (filter (fun r : lrow => ceqb v (getd (cols t) c (snd r))) (rows t))).
Proof.
  unfold count_tab. destruct (colvals c t) as [vs|] eqn:E; [|discriminate].
  intros H. injection H as <-. apply colvals_Some in E. destruct E as [Hc [-> _]].
  split; [assumption|]. rewrite filter_map, map_length. reflexivity.
Qed.

Lemma count_after_remove f c v t t1 n m :
  well_formed t -> remove_tab f t = Some (t1, n) -> count_tab c v t1 = Some m ->
  m = Z.of_nat (length (filter (fun r : lrow => keeps f (cols t) r && ceqb v (getd (cols t) c (snd r))) (rows t))).
Proof.
  intros W R C. destruct (remove_exact _ _ _ _ W R) as [Cc [Rw _]].
  apply count_spec in C. destruct C as [_ ->]. rewrite Rw, Cc. f_equal. f_equal.
  apply filter_filter_and.
Qed.

(* T13e: a bootstrap sample only contains existing rows / individuals *)
Lemma sample_rows_subset {A} (l : list A) d size idx s :
  sample_rows l d size idx = Ok s ->
  incl s l /\ Z.of_nat (length s) = match size with Some z => z | None => Z.of_nat (length l) end.
Proof.
  unfold sample_rows.
  destruct (_ <? 0); [discriminate|]. destruct (_ && _); [discriminate|].
  destruct ((Z.of_nat (length idx) =? _) && forallb _ idx) eqn:E; simpl; [|discriminate].
  intros H. injection H as <-. apply andb_true_iff in E. destruct E as [E1 E2].
  rewrite forallb_forall in E2. split.
  - intros x Hx. apply in_map_iff in Hx. destruct Hx as [i [<- Hi]].
    specialize (E2 i Hi). apply andb_true_iff in E2. destruct E2 as [E2 E3].
    apply Z.leb_le in E2. apply Z.ltb_lt in E3. apply nth_In. lia.
  - rewrite map_length. apply Z.eqb_eq in E1. exact E1.
Qed.

Lemma sample_db_subset size idx d s : sample_db size idx d = Ok s -> incl s (rows (tab d)).
Proof. intros H. apply sample_rows_subset in H. tauto. Qed.

Lemma sample_imap_subset size idx d s :
  sample_imap_db size idx d = Ok s -> exists m, imap d = Some m /\ incl s m.
Proof.
  unfold sample_imap_db. destruct (pcol d); [|discriminate]. destruct (imap d) as [m|]; [|discriminate].
  intros H. apply sample_rows_subset in H. exists m. tauto.
Qed.

Lemma check_subset_spec s rs : check_subset s rs = true <-> incl s rs.
Proof.
  unfold check_subset. rewrite forallb_forall. split.
  - intros H r Hr. specialize (H r Hr). apply existsb_exists in H. destruct H as [x [Hx E]].
    apply lrow_eqb_eq in E. subst. assumption.
  - intros H r Hr. apply existsb_exists. exists r. split; [auto|]. apply lrow_eqb_eq. reflexivity.
Qed.

(* =================================================================== split *)
Lemma chunk_sizes_length n k : length (chunk_sizes n k) = k.
Proof. unfold chunk_sizes. rewrite map_length, seq_length. reflexivity. Qed.

Lemma sum_indicator q m k :
  list_sum (map (fun j => if (j <? m)%nat then S q else q) (seq 0 k)) = (k * q + Nat.min m k)%nat.
Proof.
  induction k as [|k IH]; [simpl; lia|].
  rewrite seq_S, map_app, list_sum_app, IH. simpl.
  destruct (k <? m)%nat eqn:E.
  - apply Nat.ltb_lt in E. lia.
  - apply Nat.ltb_ge in E. lia.
Qed.

Lemma chunk_sizes_sum n k : (0 < k)%nat -> list_sum (chunk_sizes n k) = n.
Proof.
  intros H. unfold chunk_sizes. rewrite sum_indicator.
  pose proof (Nat.div_mod n k ltac:(lia)) as D.
  pose proof (Nat.mod_upper_bound n k ltac:(lia)) as U. lia.
Qed.

Lemma chunks_length {A} sz (l : list A) : length (chunks sz l) = length sz.
Proof. revert l; induction sz as [|s r IH]; intros l; simpl; [reflexivity|]. rewrite IH. reflexivity. Qed.

Lemma chunks_concat {A} sz (l : list A) : concat (chunks sz l) = firstn (list_sum sz) l.
Proof.
  revert l; induction sz as [|s r IH]; intros l; simpl; [reflexivity|].
  rewrite IH. clear IH. revert l. induction s as [|s IHs]; intros l; simpl; [reflexivity|].
  destruct l as [|x l]; simpl; [rewrite firstn_nil; reflexivity|]. f_equal. apply IHs.
Qed.

Lemma chunks_concat_all {A} sz (l : list A) : list_sum sz = length l -> concat (chunks sz l) = l.
Proof. intros H. rewrite chunks_concat, H. apply firstn_all. Qed.

Lemma folds_of_length {A} (sl : list (list A)) : length (folds_of sl) = length sl.
Proof. unfold folds_of. rewrite map_length, seq_length. reflexivity. Qed.

Lemma folds_of_snd {A} (sl : list (list A)) : map snd (folds_of sl) = sl.
Proof. unfold folds_of. rewrite map_map. simpl. apply map_nth_seq. Qed.

Lemma nth_map_seq {B} (f : nat -> B) n i d : (i < n)%nat -> nth i (map f (seq 0 n)) d = f i.
Proof.
  intros H. rewrite (nth_indep _ d (f O)) by (rewrite map_length, seq_length; lia).
  rewrite (map_nth f (seq 0 n) O i). rewrite seq_nth by lia. reflexivity.
Qed.

Lemma folds_of_nth {A} (sl : list (list A)) i :
  (i < length sl)%nat ->
  nth i (folds_of sl) ([], []) = (concat (firstn i sl ++ skipn (S i) sl), nth i sl []).
Proof.
  intros H. unfold folds_of.
  exact (nth_map_seq (fun i => (concat (firstn i sl ++ skipn (S i) sl), nth i sl [])) (length sl) i ([], []) H).
Qed.

Lemma folds_of_complement {A} (sl : list (list A)) f :
  In f (folds_of sl) -> Permutation (fst f ++ snd f) (concat sl).
Proof.
  unfold folds_of. intros H. apply in_map_iff in H. destruct H as [i [<- Hi]]. apply in_seq in Hi.
  cbn [fst snd].
  assert (E : concat sl = concat (firstn i sl) ++ nth i sl [] ++ concat (skipn (S i) sl)).
  { rewrite (split_at sl i []) at 1 by lia. rewrite concat_app, concat_cons. reflexivity. }
  rewrite E, concat_app, <- app_assoc. apply Permutation_app_head. apply Permutation_app_comm.
Qed.

Lemma iota_NoDup n : NoDup (iota n).
Proof.
  unfold iota. apply FinFun.Injective_map_NoDup; [|apply seq_NoDup].
  intros x y H. lia.
Qed.

Lemma is_perm_idx_perm perm n : is_perm_idx perm n = true -> Permutation (iota n) perm.
Proof.
  unfold is_perm_idx. intros H. apply andb_true_iff in H. destruct H as [L C].
  apply Nat.eqb_eq in L. rewrite forallb_forall in C.
  apply NoDup_Permutation_bis.
  - apply iota_NoDup.
  - unfold iota. rewrite map_length, seq_length. lia.
  - intros i Hi. apply memZ_In. auto.
Qed.

Lemma map_iloc_iota t : map (iloc t) (iota (length (rows t))) = rows t.
Proof.
  unfold iota. rewrite map_map.
  transitivity (map (fun i => nth i (rows t) dummy_row) (seq 0 (length (rows t)))); [|apply map_nth_seq].
  apply map_ext. intros i. unfold iloc. rewrite Nat2Z.id. reflexivity.
Qed.

Lemma shuffle_perm t perm :
  is_perm_idx perm (length (rows t)) = true -> Permutation (map (iloc t) perm) (rows t).
Proof.
  intros H. apply is_perm_idx_perm in H.
  apply (Permutation_trans (l' := map (iloc t) (iota (length (rows t))))).
  - apply Permutation_map. apply Permutation_sym. assumption.
  - rewrite map_iloc_iota. apply Permutation_refl.
Qed.

(* generic: folds built from slices whose concatenation is a permutation of the rows *)
Lemma folds_partition (t : table) (sl : list (list lrow)) :
  Permutation (concat sl) (rows t) ->
  Permutation (concat (map snd (folds_of sl))) (rows t) /\
  forall f, In f (folds_of sl) -> Permutation (fst f ++ snd f) (rows t).
Proof.
  intros P. rewrite folds_of_snd. split; [assumption|].
  intros f Hf. rewrite (folds_of_complement sl f Hf). assumption.
Qed.

(* T13d, no grouping *)
Lemma split_plain_spec k perm t fs :
  split_plain k perm t = Ok fs -> 2 <= k /\ split_spec t None (Z.to_nat k) fs.
Proof.
  unfold split_plain. destruct (k <? 2) eqn:K; [discriminate|]. apply Z.ltb_ge in K.
  destruct (is_perm_idx perm (length (rows t))) eqn:P; simpl; [|discriminate].
  intros H. injection H as <-. split; [assumption|].
  assert (L : length (map (iloc t) perm) = length (rows t)).
  { rewrite map_length. unfold is_perm_idx in P. apply andb_true_iff in P. destruct P as [P _].
    apply Nat.eqb_eq in P. assumption. }
  assert (C : Permutation (concat (chunks (chunk_sizes (length (rows t)) (Z.to_nat k)) (map (iloc t) perm))) (rows t)).
  { rewrite chunks_concat_all; [apply shuffle_perm; assumption|].
    rewrite chunk_sizes_sum by lia. symmetry. assumption. }
  destruct (folds_partition t _ C) as [P1 P2].
  unfold split_spec.
  split; [etransitivity; [apply folds_of_length|]; rewrite chunks_length, chunk_sizes_length; reflexivity|].
  auto.
Qed.

Lemma split_plain_defined k perm t :
  2 <= k -> is_perm_idx perm (length (rows t)) = true -> exists fs, split_plain k perm t = Ok fs.
Proof.
  intros K P. unfold split_plain. apply Z.ltb_ge in K. rewrite K, P. simpl. eauto.
Qed.

Lemma NoDup_app_r {A} (l1 l2 : list A) : NoDup (l1 ++ l2) -> NoDup l2.
Proof. induction l1 as [|x r IH]; simpl; intros H; [assumption|]. inversion H; auto. Qed.

Lemma NoDup_app_disjoint {A} (l1 l2 : list A) x : NoDup (l1 ++ l2) -> In x l1 -> In x l2 -> False.
Proof.
  induction l1 as [|y r IH]; simpl; intros H H1 H2; [contradiction|].
  inversion H as [|? ? N1 N2]; subst. destruct H1 as [->|H1].
  - apply N1. apply in_or_app. auto.
  - auto.
Qed.

(* slices selected by membership of the group id in disjoint id lists *)
Lemma group_slices_perm cs g (parts : list (list cell)) (R : list lrow) :
  NoDup (concat parts) ->
  (forall r, In r R -> exists v, getc cs g (snd r) = Some v /\ In v (concat parts)) ->
  Permutation (concat (map (fun ids => filter (in_group cs g ids) R) parts)) R.
Proof.
  revert R. induction parts as [|p ps IH]; intros R ND H; simpl.
  - destruct R as [|r R]; [constructor|]. destruct (H r (or_introl eq_refl)) as [v [_ []]].
  - simpl in ND. pose proof (NoDup_app_r _ _ ND) as ND'.
    set (R' := filter (fun r => negb (in_group cs g p r)) R).
    assert (E : map (fun ids => filter (in_group cs g ids) R) ps
                = map (fun ids => filter (in_group cs g ids) R') ps).
    { apply map_ext_in. intros ids Hids. unfold R'. rewrite filter_filter_and.
      apply filter_ext_in'. intros r Hr. destruct (in_group cs g ids r) eqn:G; [|rewrite andb_false_r; reflexivity].
      rewrite andb_true_r. unfold in_group in *. destruct (getc cs g (snd r)) as [v|]; [|discriminate].
      apply memC_In in G. destruct (memC v p) eqn:M; [|reflexivity]. apply memC_In in M.
      exfalso. apply (NoDup_app_disjoint _ _ v ND M). apply in_concat. eauto. }
    rewrite E. rewrite (IH R' ND').
    + unfold R'. apply filter_partition_perm.
    + intros r Hr. unfold R' in Hr. apply filter_In in Hr. destruct Hr as [Hr Gn].
      destruct (H r Hr) as [v [Ev Hv]]. exists v. split; [assumption|].
      apply in_app_or in Hv. destruct Hv as [Hv|Hv]; [|assumption].
      unfold in_group in Gn. rewrite Ev in Gn. apply memC_In in Hv. rewrite Hv in Gn. discriminate.
Qed.

Lemma NoDup_concat_nth {A} (parts : list (list A)) i j v :
  NoDup (concat parts) -> (i < length parts)%nat -> (j < length parts)%nat ->
  In v (nth i parts []) -> In v (nth j parts []) -> i = j.
Proof.
  revert i j. induction parts as [|p ps IH]; intros i j ND Hi Hj Vi Vj; simpl in *; [lia|].
  destruct i as [|i], j as [|j]; auto.
  - exfalso. apply (NoDup_app_disjoint _ _ v ND Vi). apply in_concat. exists (nth j ps []).
    split; [apply nth_In; lia|assumption].
  - exfalso. apply (NoDup_app_disjoint _ _ v ND Vj). apply in_concat. exists (nth i ps []).
    split; [apply nth_In; lia|assumption].
  - f_equal. apply IH; try lia; try assumption. apply (NoDup_app_r _ _ ND).
Qed.

Lemma nth_map_default {A B} (F : A -> B) l i d d' :
  (i < length l)%nat -> nth i (map F l) d' = F (nth i l d).
Proof.
  intros H. rewrite (nth_indep _ d' (F d)) by (rewrite map_length; assumption). apply map_nth.
Qed.

(* T13d with a grouping column (also the panel case): the folds partition the rows and the
   rows of one group all land in the same validation part *)
Lemma split_groups_spec k g shuffled t fs :
  split_groups k g shuffled t = Ok fs -> 2 <= k /\ split_spec t (Some g) (Z.to_nat k) fs.
Proof.
  unfold split_groups. destruct (k <? 2) eqn:K; [discriminate|]. apply Z.ltb_ge in K.
  destruct (colvals g t) as [vs|] eqn:CV; [|discriminate].
  destruct (perm_b ceqb shuffled (uniq vs)) eqn:P; simpl; [|discriminate].
  intros H. injection H as <-. split; [assumption|].
  apply (perm_b_spec ceqb ceqb_eq) in P.
  apply colvals_Some in CV. destruct CV as [Hg [Evs Hsome]].
  set (parts := chunks (chunk_sizes (length shuffled) (Z.to_nat k)) shuffled).
  assert (CP : concat parts = shuffled).
  { unfold parts. apply chunks_concat_all. apply chunk_sizes_sum. lia. }
  assert (ND : NoDup (concat parts)).
  { rewrite CP. apply (Permutation_NoDup (Permutation_sym P)). apply uniq_NoDup. }
  assert (LP : length parts = Z.to_nat k).
  { unfold parts. rewrite chunks_length, chunk_sizes_length. reflexivity. }
  assert (HR : forall r, In r (rows t) -> exists v, getc (cols t) g (snd r) = Some v /\ In v (concat parts)).
  { intros r Hr. destruct (getc (cols t) g (snd r)) as [v|] eqn:E; [|exfalso; apply (Hsome r Hr); assumption].
    exists v. split; [reflexivity|]. rewrite CP. apply (Permutation_in _ (Permutation_sym P)).
    apply uniq_In. rewrite Evs. apply in_map_iff. exists r. split; [|assumption].
    unfold getd. rewrite E. reflexivity. }
  pose proof (group_slices_perm (cols t) g parts (rows t) ND HR) as C.
  destruct (folds_partition t _ C) as [P1 P2].
  set (sl := map (fun ids => filter (in_group (cols t) g ids) (rows t)) parts) in *.
  assert (LS : length sl = Z.to_nat k) by (unfold sl; rewrite map_length; assumption).
  unfold split_spec.
  split; [etransitivity; [apply folds_of_length|]; assumption|].
  split; [assumption|]. split; [assumption|].
  intros i j r1 r2 H1 H2 Li Lj [v [G1 G2]].
  assert (Li' : (i < length sl)%nat) by (rewrite <- (folds_of_length sl); exact Li).
  assert (Lj' : (j < length sl)%nat) by (rewrite <- (folds_of_length sl); exact Lj).
  pose proof (folds_of_nth sl i Li') as N1. pose proof (folds_of_nth sl j Lj') as N2.
  assert (H1' : In r1 (snd (concat (firstn i sl ++ skipn (S i) sl), nth i sl []))) by (rewrite <- N1; exact H1).
  assert (H2' : In r2 (snd (concat (firstn j sl ++ skipn (S j) sl), nth j sl []))) by (rewrite <- N2; exact H2).
  clear H1 H2 N1 N2. rename H1' into H1, H2' into H2. cbn [snd] in H1, H2.
  unfold sl in H1, H2.
  rewrite (nth_map_default _ parts i [] []) in H1 by lia.
  rewrite (nth_map_default _ parts j [] []) in H2 by lia.
  apply filter_In in H1. apply filter_In in H2. destruct H1 as [_ H1], H2 as [_ H2].
  unfold in_group in H1, H2. rewrite G1 in H1. rewrite G2 in H2.
  apply memC_In in H1. apply memC_In in H2.
  apply (NoDup_concat_nth parts i j v ND); try lia; assumption.
Qed.

Lemma split_db_spec k groups o d fs :
  split_db k groups o d = Ok fs ->
  2 <= k /\
  split_spec (tab d) (match pcol d with Some p => Some p | None => groups end) (Z.to_nat k) fs.
Proof.
  unfold split_db. destruct (k <? 2) eqn:K; [discriminate|].
  destruct groups as [g|], (pcol d) as [p|]; intros H.
  - destruct (g =? p); [|discriminate]. destruct o; [discriminate|]. apply split_groups_spec in H. assumption.
  - destruct o; [discriminate|]. apply split_groups_spec in H. assumption.
  - destruct o; [discriminate|]. apply split_groups_spec in H. assumption.
  - destruct o; [|discriminate]. apply split_plain_spec in H. assumption.
Qed.

Lemma concat_map_map {A B C} (g : B -> C) (h : A -> list B) l :
  concat (map (fun f => map g (h f)) l) = map g (concat (map h l)).
Proof. induction l as [|x r IH]; simpl; [reflexivity|]. rewrite map_app, IH. reflexivity. Qed.

(* with unique labels "disjoint" can be said of the labels themselves *)
Lemma split_spec_disjoint_labels t g k fs i j l :
  split_spec t g k fs -> labels_unique t ->
  (i < length fs)%nat -> (j < length fs)%nat ->
  In l (map fst (snd (nth i fs ([], [])))) -> In l (map fst (snd (nth j fs ([], [])))) -> i = j.
Proof.
  intros [_ [P _]] U Li Lj Hi Hj.
  assert (ND : NoDup (concat (map (fun f : fold => map fst (snd f)) fs))).
  { unfold labels_unique, labels in U.
    apply (Permutation_NoDup (l := map fst (rows t))); [|assumption].
    apply Permutation_sym. rewrite concat_map_map. apply Permutation_map. assumption. }
  apply (NoDup_concat_nth _ i j l ND); try (rewrite map_length; assumption).
  - rewrite (nth_map_default _ fs i ([], []) []) by assumption. assumption.
  - rewrite (nth_map_default _ fs j ([], []) []) by assumption. assumption.
Qed.

(* T13h: the boolean checker used on the implementation's folds is equivalent to the
   specification *)
Lemma group_ok_spec cs g (fs : list fold) :
  group_ok cs g fs = true <->
  (forall i j r1 r2, In r1 (snd (nth i fs ([], []))) -> In r2 (snd (nth j fs ([], []))) ->
                     (i < length fs)%nat -> (j < length fs)%nat -> same_group cs g r1 r2 -> i = j).
Proof.
  unfold group_ok. split.
  - intros H i j r1 r2 H1 H2 Li Lj [v [G1 G2]].
    rewrite forallb_forall in H. specialize (H i ltac:(apply in_seq; lia)).
    rewrite forallb_forall in H. specialize (H j ltac:(apply in_seq; lia)).
    apply orb_true_iff in H. destruct H as [H|H]; [apply Nat.eqb_eq; assumption|].
    rewrite forallb_forall in H. specialize (H r1 H1).
    rewrite forallb_forall in H. specialize (H r2 H2).
    rewrite G1, G2, ceqb_refl in H. discriminate.
  - intros H. apply forallb_forall. intros i Hi. apply forallb_forall. intros j Hj.
    apply in_seq in Hi. apply in_seq in Hj.
    destruct (i =? j)%nat eqn:E; [reflexivity|]. simpl.
    apply forallb_forall. intros r1 H1. apply forallb_forall. intros r2 H2.
    destruct (getc cs g (snd r1)) as [a|] eqn:G1; [|reflexivity].
    destruct (getc cs g (snd r2)) as [b|] eqn:G2; [|reflexivity].
    destruct (ceqb a b) eqn:C; [|reflexivity]. apply ceqb_eq in C. subst b.
    apply Nat.eqb_neq in E. exfalso. apply E.
    apply (H i j r1 r2 H1 H2); try lia. exists a. auto.
Qed.

Lemma check_split_spec t g k fs : check_split t g k fs = true <-> split_spec t g k fs.
Proof.
  unfold check_split, split_spec. rewrite !andb_true_iff, Nat.eqb_eq.
  rewrite (perm_b_spec lrow_eqb lrow_eqb_eq), forallb_forall.
  assert (E : (forall x : fold, In x fs -> perm_b lrow_eqb (fst x ++ snd x) (rows t) = true) <->
              (forall f : fold, In f fs -> Permutation (fst f ++ snd f) (rows t))).
  { split; intros H f Hf; apply (perm_b_spec lrow_eqb lrow_eqb_eq); auto. }
  rewrite E. destruct g as [g|].
  - rewrite group_ok_spec. tauto.
  - tauto.
Qed.

(* ============================================================ stable sorting *)
Lemma insert_by_perm {A} (key : A -> cell) x l : Permutation (insert_by key x l) (x :: l).
Proof.
  induction l as [|y r IH]; simpl; [reflexivity|].
  destruct (dleb (key x) (key y)); [reflexivity|].
  rewrite IH. apply perm_swap.
Qed.

Lemma sort_by_perm {A} (key : A -> cell) l : Permutation (sort_by key l) l.
Proof.
  induction l as [|x r IH]; simpl; [constructor|].
  rewrite insert_by_perm. constructor. exact IH.
Qed.

Lemma sort_by_In {A} (key : A -> cell) l x : In x (sort_by key l) <-> In x l.
Proof.
  split; apply Permutation_in; [|apply Permutation_sym]; apply sort_by_perm.
Qed.

Lemma sort_by_length {A} (key : A -> cell) l : length (sort_by key l) = length l.
Proof. apply Permutation_length. apply sort_by_perm. Qed.

Lemma sorted_cells_cons a l :
  sorted_cells (a :: l) = true <->
  (match l with [] => True | b :: _ => dleb a b = true end) /\ sorted_cells l = true.
Proof.
  destruct l as [|b r]; [simpl; tauto|].
  change (sorted_cells (a :: b :: r)) with (dleb a b && sorted_cells (b :: r)).
  rewrite andb_true_iff. tauto.
Qed.

Lemma insert_by_sorted {A} (key : A -> cell) x l :
  sorted_cells (map key l) = true -> sorted_cells (map key (insert_by key x l)) = true.
Proof.
  induction l as [|y r IH]; intros S; [reflexivity|]. simpl.
  destruct (dleb (key x) (key y)) eqn:E.
  - change (map key (x :: y :: r)) with (key x :: map key (y :: r)).
    apply sorted_cells_cons. split; [exact E|exact S].
  - change (map key (y :: r)) with (key y :: map key r) in S. apply sorted_cells_cons in S.
    destruct S as [S1 S2]. specialize (IH S2).
    change (map key (y :: insert_by key x r)) with (key y :: map key (insert_by key x r)).
    apply sorted_cells_cons. split; [|exact IH].
    destruct r as [|z r']; simpl.
    + apply dleb_total. exact E.
    + destruct (dleb (key x) (key z)); simpl; [apply dleb_total; exact E|exact S1].
Qed.

Lemma sort_by_sorted {A} (key : A -> cell) l : sorted_cells (map key (sort_by key l)) = true.
Proof. induction l as [|x r IH]; [reflexivity|]. simpl. apply insert_by_sorted. exact IH. Qed.

Lemma filter_insert_by {A} (p : A -> bool) (key : A -> cell) x l :
  (forall y, p x = true -> p y = true -> dleb (key x) (key y) = true) ->
  filter p (insert_by key x l) = if p x then x :: filter p l else filter p l.
Proof.
  intros H. induction l as [|y r IH]; simpl; [reflexivity|].
  destruct (dleb (key x) (key y)) eqn:E; simpl; [reflexivity|].
  rewrite IH. destruct (p x) eqn:Px; [|reflexivity].
  destruct (p y) eqn:Py; [|reflexivity].
  rewrite (H y eq_refl Py) in E. discriminate.
Qed.

(* stability: the elements selected by a predicate that only selects elements of equal key
   come out in their original relative order *)
Lemma sort_by_stable {A} (p : A -> bool) (key : A -> cell) l :
  (forall x y, p x = true -> p y = true -> dleb (key x) (key y) = true) ->
  filter p (sort_by key l) = filter p l.
Proof.
  intros H. induction l as [|x r IH]; simpl; [reflexivity|].
  rewrite filter_insert_by by (intros y; apply H). rewrite IH. reflexivity.
Qed.

(* ------------------------------------------------------------------ relabel *)
Lemma map_snd_combine {A B} (l : list A) (l' : list B) :
  length l = length l' -> map snd (combine l l') = l'.
Proof.
  revert l'. induction l as [|x r IH]; intros [|y r'] H; simpl in *; try lia; [reflexivity|].
  f_equal. apply IH. lia.
Qed.

Lemma map_fst_combine {A B} (l : list A) (l' : list B) :
  length l = length l' -> map fst (combine l l') = l.
Proof.
  revert l'. induction l as [|x r IH]; intros [|y r'] H; simpl in *; try lia; [reflexivity|].
  f_equal. apply IH. lia.
Qed.

Lemma iota_length n : length (iota n) = n.
Proof. unfold iota. rewrite map_length, seq_length. reflexivity. Qed.

Lemma relabel_snd rs : map snd (relabel rs) = map snd rs.
Proof.
  unfold relabel. rewrite map_map.
  transitivity (map snd (map snd (combine (iota (length rs)) rs))).
  - rewrite map_map. apply map_ext. intros [a [b c]]. reflexivity.
  - rewrite map_snd_combine by apply iota_length. reflexivity.
Qed.

Lemma relabel_fst rs : map fst (relabel rs) = iota (length rs).
Proof.
  unfold relabel. rewrite map_map.
  transitivity (map fst (combine (iota (length rs)) rs)).
  - apply map_ext. intros [a [b c]]. reflexivity.
  - apply map_fst_combine. apply iota_length.
Qed.

Lemma relabel_length rs : length (relabel rs) = length rs.
Proof. unfold relabel. rewrite map_length, combine_length, iota_length. lia. Qed.

Lemma filter_snd_map (q : row -> bool) (l : list lrow) :
  map snd (filter (fun r => q (snd r)) l) = filter q (map snd l).
Proof. rewrite filter_map. reflexivity. Qed.

(* ==================================================================== panel *)
Lemma sort_tab_cols c t : cols (sort_tab c t) = cols t.
Proof. reflexivity. Qed.

Lemma sort_tab_labels c t : labels (sort_tab c t) = iota (length (rows t)).
Proof. unfold labels, sort_tab. cbn [rows]. rewrite relabel_fst, sort_by_length. reflexivity. Qed.

Lemma sort_tab_cells_perm c t : Permutation (map snd (rows (sort_tab c t))) (map snd (rows t)).
Proof.
  unfold sort_tab. cbn [rows]. rewrite relabel_snd. apply Permutation_map. apply sort_by_perm.
Qed.

Lemma sort_tab_sorted c t :
  sorted_cells (map (fun r : lrow => getd (cols t) c (snd r)) (rows (sort_tab c t))) = true.
Proof.
  unfold sort_tab. cbn [rows cols].
  assert (E : forall l : list lrow, map (fun r : lrow => getd (cols t) c (snd r)) l
                                    = map (getd (cols t) c) (map snd l))
    by (intros; rewrite map_map; reflexivity).
  rewrite E, relabel_snd, <- E.
  apply (sort_by_sorted (fun r : lrow => getd (cols t) c (snd r))).
Qed.

(* the repaired build_panel_map sorts with a stable algorithm: the observations of every
   individual keep their original order *)
Lemma sort_tab_keeps_order c t v :
  map snd (filter (has_id (cols t) c v) (rows (sort_tab c t)))
  = map snd (filter (has_id (cols t) c v) (rows t)).
Proof.
  unfold sort_tab. cbn [rows].
  set (q := fun x : row => match getc (cols t) c x with Some y => ceqb y v | None => false end).
  change (has_id (cols t) c v) with (fun r : lrow => q (snd r)).
  rewrite !filter_snd_map, relabel_snd, <- !filter_snd_map. f_equal.
  apply sort_by_stable. intros x y Hx Hy. unfold q, getd in *.
  destruct (getc (cols t) c (snd x)) as [a|]; [|discriminate].
  destruct (getc (cols t) c (snd y)) as [b|]; [|discriminate].
  apply ceqb_eq in Hx. apply ceqb_eq in Hy. subst. apply dleb_refl.
Qed.

Lemma sort_tab_wf c t : well_formed t -> well_formed (sort_tab c t).
Proof.
  intros [ND WF]. split; [assumption|]. intros r Hr. rewrite sort_tab_cols.
  assert (H : In (snd r) (map snd (rows (sort_tab c t)))) by (apply in_map; assumption).
  apply (Permutation_in _ (sort_tab_cells_perm c t)) in H. apply in_map_iff in H.
  destruct H as [r0 [E Hr0]]. rewrite <- E. apply WF. assumption.
Qed.

Lemma sort_tab_labels_unique c t : labels_unique (sort_tab c t).
Proof. unfold labels_unique. rewrite sort_tab_labels. apply iota_NoDup. Qed.

Lemma colvals_sort_tab c t vs :
  colvals c t = Some vs -> exists vs', colvals c (sort_tab c t) = Some vs'.
Proof.
  intros H. apply colvals_Some in H. destruct H as [Hc [_ Hs]].
  unfold colvals. rewrite sort_tab_cols. apply index_of_In in Hc. destruct Hc as [i ->].
  apply map_opt_total. intros r Hr.
  assert (H : In (snd r) (map snd (rows (sort_tab c t)))) by (apply in_map; assumption).
  apply (Permutation_in _ (sort_tab_cells_perm c t)) in H. apply in_map_iff in H.
  destruct H as [r0 [E Hr0]]. rewrite <- E. apply Hs. assumption.
Qed.

Lemma build_imap_Some c t m :
  build_imap c t = Some m ->
  exists vs, colvals c t = Some vs /\ map fst m = uniq vs.
Proof.
  unfold build_imap. destruct (colvals c t) as [vs|]; [|discriminate].
  intros H. injection H as <-. exists vs. split; [reflexivity|].
  rewrite map_map. simpl. apply map_id.
Qed.

(* the individuals of the map are exactly the values present in the panel column *)
Lemma build_imap_individuals c t m v :
  build_imap c t = Some m ->
  (In v (map fst m) <-> exists r, In r (rows t) /\ getc (cols t) c (snd r) = Some v).
Proof.
  intros H. apply build_imap_Some in H. destruct H as [vs [CV ->]]. rewrite uniq_In.
  apply colvals_Some in CV. destruct CV as [_ [-> Hs]]. rewrite in_map_iff. split.
  - intros [r [E Hr]]. exists r. split; [assumption|]. unfold getd in E.
    destruct (getc (cols t) c (snd r)) eqn:G; [congruence|]. exfalso. apply (Hs r Hr). assumption.
  - intros [r [Hr G]]. exists r. split; [|assumption]. unfold getd. rewrite G. reflexivity.
Qed.

Lemma build_imap_NoDup c t m : build_imap c t = Some m -> NoDup (map fst m).
Proof. intros H. apply build_imap_Some in H. destruct H as [vs [_ ->]]. apply uniq_NoDup. Qed.

Definition panel_inv (d : db) : Prop :=
  match pcol d with
  | None => imap d = None
  | Some c => In c (cols (tab d)) /\ exists m, imap d = Some m
  end.
Definition inv (d : db) : Prop := well_formed (tab d) /\ panel_inv d.
(* the map is the one computed from the current rows, and labels are positions *)
Definition map_fresh (d : db) : Prop :=
  match pcol d with
  | None => True
  | Some c => imap d = build_imap c (tab d) /\ labels (tab d) = iota (length (rows (tab d)))
  end.

Lemma build_panel_map_spec d c :
  pcol d = Some c -> well_formed (tab d) -> In c (cols (tab d)) ->
  exists m, build_panel_map d = (mkDB (sort_tab c (tab d)) (excluded d) (Some c) (Some m), Done)
            /\ build_imap c (sort_tab c (tab d)) = Some m.
Proof.
  intros P W Hc. unfold build_panel_map. rewrite P.
  destruct (colvals_defined c (tab d) W Hc) as [vs CV].
  destruct (colvals_sort_tab c (tab d) vs CV) as [vs' CV'].
  unfold build_imap at 1. unfold build_imap. rewrite CV'. eauto.
Qed.

Lemma build_panel_map_None d : pcol d = None -> build_panel_map d = (d, Done).
Proof. intros P. unfold build_panel_map. rewrite P. reflexivity. Qed.

(* panel(): a refused declaration leaves the database untouched; an accepted one sorts the
   rows by individual (stable), renumbers the index and builds the map *)
Lemma panel_db_spec c d :
  well_formed (tab d) ->
  match panel_db c d with
  | (d', Raised) => d' = d
  | (d', Done) =>
    In c (cols (tab d)) /\
    exists m, d' = mkDB (sort_tab c (tab d)) (excluded d) (Some c) (Some m) /\
              build_imap c (sort_tab c (tab d)) = Some m
  end.
Proof.
  intros W. unfold panel_db. destruct (colvals c (tab d)) as [vs|] eqn:CV; [|reflexivity].
  destruct (_ =? _)%nat; [|reflexivity].
  apply colvals_Some in CV. destruct CV as [Hc _].
  destruct (build_panel_map_spec (mkDB (tab d) (excluded d) (Some c) (imap d)) c eq_refl W Hc) as [m [E B]].
  rewrite E. split; [assumption|]. exists m. auto.
Qed.

(* ======================================================= steps and histories *)
Lemma remove_cols f t t' n : well_formed t -> remove_tab f t = Some (t', n) -> cols t' = cols t.
Proof. intros W H. destruct (remove_exact f t t' n W H) as [C _]. exact C. Qed.

Lemma step_inv d o : inv d -> inv (fst (step d o)).
Proof.
  intros [W P]. destruct o as [f|f c|c s|c|idx]; simpl.
  - destruct (remove_tab f (tab d)) as [[t' n]|] eqn:R; [|split; assumption].
    pose proof (remove_wf _ _ _ _ W R) as W'. pose proof (remove_cols _ _ _ _ W R) as C.
    unfold panel_inv in P. destruct (pcol d) as [c|] eqn:PC.
    + destruct P as [Hc _]. rewrite <- C in Hc.
      destruct (build_panel_map_spec (mkDB t' n (Some c) (imap d)) c eq_refl W' Hc) as [m [E _]].
      rewrite E. simpl. split; [apply sort_tab_wf; assumption|].
      unfold panel_inv. simpl. split; [assumption|eauto].
    + rewrite build_panel_map_None by reflexivity. split; [assumption|]. unfold panel_inv. simpl. assumption.
  - destruct (add_col f c (tab d)) as [t'|] eqn:A; [|split; assumption]. simpl.
    split; [apply (add_col_wf _ _ _ _ W A)|].
    unfold panel_inv in *. simpl. destruct (pcol d) as [pc|]; [|assumption].
    destruct P as [Hc Hm]. split; [|assumption].
    apply add_col_Some in A. destruct A as [_ [_ [_ [C _]]]]. rewrite C. apply in_or_app. auto.
  - destruct (scale_tab c s (tab d)) as [t'|] eqn:A; [|split; assumption]. simpl.
    destruct (scale_one_column _ _ _ _ W A) as [_ [C [_ [W' _]]]].
    split; [assumption|]. unfold panel_inv in *. simpl. rewrite C. assumption.
  - pose proof (panel_db_spec c d W) as S. destruct (panel_db c d) as [d' [|]]; simpl.
    + destruct S as [Hc [m [-> _]]]. split; simpl; [apply sort_tab_wf; assumption|].
      unfold panel_inv. simpl. split; [assumption|eauto].
    + subst d'. split; assumption.
  - destruct (extract_tab idx (tab d)) as [t'|] eqn:A; [|split; assumption]. simpl.
    split; [apply (extract_wf _ _ _ W A)|]. reflexivity.
Qed.

(* T13g: the invariants hold along every history *)
Lemma run_inv ops : forall d, inv d -> inv (run d ops).
Proof.
  unfold run. induction ops as [|o os IH]; intros d H; simpl; [assumption|].
  apply IH. apply step_inv. assumption.
Qed.

Lemma new_db_inv t : well_formed t -> inv (new_db t).
Proof. intros W. split; [assumption|reflexivity]. Qed.

(* an operation that raises leaves the database exactly as it was *)
Lemma step_raised_unchanged d o : inv d -> snd (step d o) = Raised -> fst (step d o) = d.
Proof.
  intros [W P]. destruct o as [f|f c|c s|c|idx]; simpl.
  - destruct (remove_tab f (tab d)) as [[t' n]|] eqn:R; [|reflexivity].
    pose proof (remove_wf _ _ _ _ W R) as W'. pose proof (remove_cols _ _ _ _ W R) as C.
    unfold panel_inv in P. destruct (pcol d) as [c|] eqn:PC.
    + destruct P as [Hc _]. rewrite <- C in Hc.
      destruct (build_panel_map_spec (mkDB t' n (Some c) (imap d)) c eq_refl W' Hc) as [m [E _]].
      rewrite E. simpl. discriminate.
    + rewrite build_panel_map_None by reflexivity. simpl. discriminate.
  - destruct (add_col f c (tab d)); simpl; [discriminate|reflexivity].
  - destruct (scale_tab c s (tab d)); simpl; [discriminate|reflexivity].
  - pose proof (panel_db_spec c d W) as S. destruct (panel_db c d) as [d' [|]]; simpl; [discriminate|auto].
  - destruct (extract_tab idx (tab d)); simpl; [discriminate|reflexivity].
Qed.

(* what remove does to the database object *)
Lemma step_remove_spec d f d' :
  inv d -> step d (ORemove f) = (d', Done) ->
  let kept := filter (keeps f (cols (tab d))) (rows (tab d)) in
  excluded d' = Z.of_nat (length (filter (fun r => negb (keeps f (cols (tab d)) r)) (rows (tab d)))) /\
  pcol d' = pcol d /\
  match pcol d with
  | None => tab d' = mkT (cols (tab d)) kept /\ imap d' = None
  | Some c => tab d' = sort_tab c (mkT (cols (tab d)) kept) /\
              imap d' = build_imap c (tab d') /\ exists m, imap d' = Some m
  end.
Proof.
  intros [W P] H. simpl in H.
  destruct (remove_tab f (tab d)) as [[t' n]|] eqn:R; [|discriminate].
  pose proof (remove_wf _ _ _ _ W R) as W'.
  destruct (remove_exact _ _ _ _ W R) as [C [Rw [N _]]].
  assert (T : t' = mkT (cols (tab d)) (filter (keeps f (cols (tab d))) (rows (tab d)))).
  { destruct t' as [cs rs]. simpl in *. subst. reflexivity. }
  unfold panel_inv in P. destruct (pcol d) as [c|] eqn:PC.
  - destruct P as [Hc _]. rewrite <- C in Hc.
    destruct (build_panel_map_spec (mkDB t' n (Some c) (imap d)) c eq_refl W' Hc) as [m [E B]].
    rewrite E in H. injection H as <-. simpl in *. rewrite <- T.
    repeat split; try assumption; try reflexivity; [symmetry; assumption|eauto].
  - rewrite build_panel_map_None in H by reflexivity. injection H as <-. simpl.
    repeat split; assumption.
Qed.

Lemma NoDup_map_filter {A B} (g : A -> B) (p : A -> bool) l : NoDup (map g l) -> NoDup (map g (filter p l)).
Proof.
  induction l as [|x r IH]; simpl; intros H; [constructor|].
  inversion H as [|? ? N1 N2]; subst. destruct (p x); simpl; [|auto].
  constructor; [|auto]. intros Hx. apply N1. apply in_map_iff in Hx.
  destruct Hx as [y [E Hy]]. apply filter_In in Hy. rewrite <- E. apply in_map. tauto.
Qed.

Lemma NoDup_map_nth (l : list Z) (idx : list Z) d :
  NoDup l -> NoDup idx -> (forall i, In i idx -> 0 <= i < Z.of_nat (length l)) ->
  NoDup (map (fun i => nth (Z.to_nat i) l d) idx).
Proof.
  intros NL. induction idx as [|i r IH]; simpl; intros NI R; [constructor|].
  inversion NI as [|? ? N1 N2]; subst. constructor; [|apply IH; auto].
  intros H. apply in_map_iff in H. destruct H as [j [E Hj]].
  assert (Ri := R i (or_introl eq_refl)). assert (Rj := R j (or_intror Hj)).
  apply (proj1 (NoDup_nth l d) NL) in E; try lia.
  apply N1. replace i with j by lia. assumption.
Qed.

Lemma step_labels_unique d o :
  inv d -> labels_unique (tab d) -> (forall idx, o = OExtract idx -> NoDup idx) ->
  labels_unique (tab (fst (step d o))).
Proof.
  intros [W P] U Hx. destruct o as [f|f c|c s|c|idx].
  - destruct (step d (ORemove f)) as [d' [|]] eqn:S.
    + destruct (step_remove_spec d f d' (conj W P) S) as [_ [_ M]]. simpl.
      destruct (pcol d) as [c|].
      * destruct M as [-> _]. apply sort_tab_labels_unique.
      * destruct M as [-> _]. unfold labels_unique, labels. simpl. apply NoDup_map_filter. exact U.
    + pose proof (step_raised_unchanged d (ORemove f) (conj W P)) as Q. rewrite S in Q.
      simpl in Q. simpl. rewrite Q by reflexivity. exact U.
  - simpl. destruct (add_col f c (tab d)) as [t'|] eqn:A; [|exact U]. simpl.
    destruct (add_column_pointwise _ _ _ _ W A) as [_ [L _]]. unfold labels_unique. rewrite L. exact U.
  - simpl. destruct (scale_tab c s (tab d)) as [t'|] eqn:A; [|exact U]. simpl.
    destruct (scale_one_column _ _ _ _ W A) as [_ [_ [L _]]]. unfold labels_unique. rewrite L. exact U.
  - simpl. pose proof (panel_db_spec c d W) as S. destruct (panel_db c d) as [d' [|]]; simpl.
    + destruct S as [_ [m [-> _]]]. simpl. apply sort_tab_labels_unique.
    + subst d'. exact U.
  - simpl. destruct (extract_tab idx (tab d)) as [t'|] eqn:A; [|exact U]. simpl.
    apply extract_spec in A. destruct A as [_ [R [_ [Rw _]]]].
    unfold labels_unique, labels. rewrite Rw, map_map. unfold iloc.
    assert (E : map (fun x => fst (nth (Z.to_nat x) (rows (tab d)) dummy_row)) idx
                = map (fun i => nth (Z.to_nat i) (map fst (rows (tab d))) 0) idx).
    { apply map_ext. intros i. change 0 with (fst dummy_row). rewrite map_nth. reflexivity. }
    rewrite E. apply NoDup_map_nth; [exact U|apply Hx; reflexivity|].
    intros i Hi. rewrite map_length. apply R. assumption.
Qed.

Lemma run_labels_unique ops : forall d,
  inv d -> labels_unique (tab d) -> (forall idx, In (OExtract idx) ops -> NoDup idx) ->
  labels_unique (tab (run d ops)).
Proof.
  unfold run. induction ops as [|o os IH]; intros d I U H; simpl; [assumption|].
  apply IH.
  - apply step_inv. assumption.
  - apply step_labels_unique; try assumption. intros idx ->. apply H. simpl. auto.
  - intros idx Hi. apply H. simpl. auto.
Qed.

(* T13a over histories: whatever was done before (removals leaving gaps in the index,
   extraction with repeated positions creating duplicate labels, panel declaration ...), remove
   deletes exactly the rows whose condition is non-zero and reports their number *)
Lemma remove_exact_over_histories ops d0 f d' :
  inv d0 -> step (run d0 ops) (ORemove f) = (d', Done) ->
  let d := run d0 ops in
  let kept := filter (keeps f (cols (tab d))) (rows (tab d)) in
  excluded d' = Z.of_nat (length (filter (fun r => negb (keeps f (cols (tab d)) r)) (rows (tab d)))) /\
  cols (tab d') = cols (tab d) /\
  Permutation (map snd (rows (tab d'))) (map snd kept) /\
  (pcol d = None -> rows (tab d') = kept) /\
  (forall c v, pcol d = Some c ->
      map snd (filter (has_id (cols (tab d)) c v) (rows (tab d'))) = map snd (filter (has_id (cols (tab d)) c v) kept)).
Proof.
  intros I S. pose proof (run_inv ops d0 I) as I'.
  destruct (step_remove_spec _ _ _ I' S) as [E [_ M]]. cbv zeta.
  split; [exact E|].
  destruct (pcol (run d0 ops)) as [c|].
  - destruct M as [-> _]. split; [reflexivity|]. split; [apply sort_tab_cells_perm|].
    split; [discriminate|]. intros c' v Hc. injection Hc as <-.
    apply (sort_tab_keeps_order c (mkT (cols (tab (run d0 ops))) _) v).
  - destruct M as [-> _]. simpl. split; [reflexivity|]. split; [apply Permutation_refl|].
    split; [reflexivity|discriminate].
Qed.

(* ================================================================== flatten *)
Lemma In_combine_seq {A} (f : nat -> Z) (l : list A) s i r :
  In (i, r) (combine (map f (seq s (length l))) l) <-> exists n, nth_error l n = Some r /\ i = f (s + n)%nat.
Proof.
  revert s. induction l as [|x l IH]; intros s; simpl.
  - split; [tauto|]. intros [[|n] [H _]]; discriminate.
  - rewrite IH. split.
    + intros [H|[n [H1 H2]]].
      * injection H as <- <-. exists O. rewrite Nat.add_0_r. auto.
      * exists (S n). rewrite Nat.add_succ_r. auto.
    + intros [[|n] [H1 H2]].
      * injection H1 as <-. rewrite Nat.add_0_r in H2. subst. auto.
      * right. exists n. rewrite Nat.add_succ_r in H2. auto.
Qed.

Lemma In_enumerate1 {A} (l : list A) i r :
  In (i, r) (enumerate1 l) <-> exists n, nth_error l n = Some r /\ i = Z.of_nat n + 1.
Proof.
  unfold enumerate1, iota. rewrite map_map.
  apply (In_combine_seq (fun n => Z.of_nat n + 1) l 0 i r).
Qed.

Lemma all_same_spec l : all_same l = true -> forall x, In x l -> x = hd dzero l.
Proof.
  destruct l as [|y r]; simpl; [tauto|]. intros H x [<-|Hx]; [reflexivity|].
  rewrite forallb_forall in H. specialize (H x Hx). apply ceqb_eq in H. congruence.
Qed.

Definition colv (cs : list Z) (c : Z) (rs : list lrow) : list cell := map (fun r : lrow => getd cs c (snd r)) rs.

(* T13f (flatten): one line per individual present in the table; an identical column carries the
   common value of the individual's rows; the other columns appear once per observation,
   numbered 1, 2, ... in the order of the rows of the table *)
Lemma flatten_spec g idn t out :
  flatten_tab g idn t = Some out ->
  exists varying ident,
    incl varying (cols t) /\ incl ident (cols t) /\ ~ In g ident /\
    (forall c, In c (cols t) -> c <> g -> In c varying \/ In c ident) /\
    (forall c, In c ident -> ~ In c varying) /\
    NoDup (map fst out) /\
    (forall v, In v (map fst out) <-> exists r, In r (rows t) /\ getc (cols t) g (snd r) = Some v) /\
    forall v common flat, In (v, (common, flat)) out ->
      let G := filter (has_id (cols t) g v) (rows t) in
      common = map (fun c => (c, hd dzero (colv (cols t) c G))) ident /\
      (forall k c x, In ((k, c), x) flat <->
                     In c varying /\ exists n r, nth_error G n = Some r /\ k = Z.of_nat n + 1 /\
                                                 x = getd (cols t) c (snd r)) /\
      (idn = None -> forall c r, In c ident -> In r G ->
                     getd (cols t) c (snd r) = hd dzero (colv (cols t) c G)).
Proof.
  unfold flatten_tab. intros H.
  assert (H' : match colvals g t with
               | Some vs =>
                 let cs := cols t in
                 let ids := uniq (sort_by (fun v => v) vs) in
                 let grp := fun v => filter (has_id cs g v) (rows t) in
                 let colv := fun c (rs : list lrow) => map (fun r : lrow => getd cs c (snd r)) rs in
                 let varying := match idn with
                                | None => filter (fun c => existsb (fun v => negb (all_same (colv c (grp v)))) ids) cs
                                | Some l => filter (fun c => negb (memZ c l) && negb (c =? g)) cs
                                end in
                 let ident := filter (fun c => negb (memZ c varying) && negb (c =? g)) cs in
                 if match idn with Some l => forallb (fun c => memZ c cs) l | None => true end
                 then Some (map (fun v => (v, (map (fun c => (c, hd dzero (colv c (grp v)))) ident,
                                 concat (map (fun p : Z * lrow => map (fun c => ((fst p, c), getd cs c (snd (snd p)))) varying)
                                             (enumerate1 (grp v)))))) ids)
                 else None
               | None => None
               end = Some out).
  { destruct (rows t); [destruct idn; [exact H|discriminate]|exact H]. }
  clear H. destruct (colvals g t) as [vs|] eqn:CV; [|discriminate].
  cbv zeta in H'.
  set (ids := uniq (sort_by (fun v => v) vs)) in *.
  set (varying := match idn with
                  | None => filter (fun c => existsb (fun v => negb (all_same (map (fun r : lrow => getd (cols t) c (snd r))
                                      (filter (has_id (cols t) g v) (rows t))))) ids) (cols t)
                  | Some l => filter (fun c => negb (memZ c l) && negb (c =? g)) (cols t)
                  end) in *.
  set (ident := filter (fun c => negb (memZ c varying) && negb (c =? g)) (cols t)) in *.
  destruct (match idn with Some l => forallb (fun c => memZ c (cols t)) l | None => true end); [|discriminate].
  injection H' as <-.
  exists varying, ident.
  assert (IV : incl varying (cols t)).
  { intros c Hc. unfold varying in Hc. destruct idn; apply filter_In in Hc; tauto. }
  split; [exact IV|]. split; [intros c Hc; apply filter_In in Hc; tauto|].
  split. { intros Hg. apply filter_In in Hg. destruct Hg as [_ Hg]. rewrite Z.eqb_refl, andb_false_r in Hg. discriminate. }
  split. { intros c Hc Hn. destruct (memZ c varying) eqn:M; [left; apply memZ_In; assumption|].
           right. apply filter_In. split; [assumption|]. rewrite M. simpl.
           apply negb_true_iff. apply Z.eqb_neq. assumption. }
  split. { intros c Hc Hv. apply filter_In in Hc. destruct Hc as [_ Hc]. apply memZ_In in Hv.
           rewrite Hv in Hc. discriminate. }
  rewrite map_map. simpl. rewrite map_id.
  split; [apply uniq_NoDup|].
  pose proof (colvals_Some _ _ _ CV) as [Hg [Evs Hs]].
  split.
  { intros v. unfold ids. rewrite uniq_In.
    rewrite (sort_by_In (fun v => v) vs v). rewrite Evs, in_map_iff. split.
    - intros [r [E Hr]]. exists r. split; [assumption|]. unfold getd in E.
      destruct (getc (cols t) g (snd r)) eqn:G; [congruence|]. exfalso. apply (Hs r Hr). assumption.
    - intros [r [Hr G]]. exists r. split; [|assumption]. unfold getd. rewrite G. reflexivity. }
  intros v common flat Hin. apply in_map_iff in Hin. destruct Hin as [v' [E Hv']].
  injection E as -> <- <-. cbv zeta. split; [reflexivity|]. split.
  - intros k c x. rewrite in_concat. split.
    + intros [l [Hl Hx]]. apply in_map_iff in Hl. destruct Hl as [[i r] [<- Hp]].
      apply in_map_iff in Hx. destruct Hx as [c' [E Hc']]. simpl in E. injection E as <- <- <-.
      apply In_enumerate1 in Hp. destruct Hp as [n [N ->]]. split; [assumption|]. exists n, r. auto.
    + intros [Hc [n [r [N [-> ->]]]]].
      exists (map (fun c0 => ((Z.of_nat n + 1, c0), getd (cols t) c0 (snd r))) varying). split.
      * apply in_map_iff. exists (Z.of_nat n + 1, r). split; [reflexivity|].
        apply In_enumerate1. eauto.
      * apply in_map_iff. exists c. auto.
  - intros -> c r Hc Hr. apply filter_In in Hc. destruct Hc as [Hcc Hc].
    apply andb_true_iff in Hc. destruct Hc as [Hc _]. apply negb_true_iff in Hc.
    apply memZ_false in Hc. unfold varying in Hc.
    rewrite filter_In in Hc.
    destruct (existsb (fun v0 => negb (all_same (map (fun r0 : lrow => getd (cols t) c (snd r0))
                  (filter (has_id (cols t) g v0) (rows t))))) ids) eqn:X.
    + exfalso. apply Hc. split; [assumption|reflexivity].
    + unfold colv. apply all_same_spec;
        [|apply (in_map (fun r0 : lrow => getd (cols t) c (snd r0))); assumption].
      rewrite <- not_true_iff_false, existsb_exists in X.
      destruct (all_same (map (fun r0 : lrow => getd (cols t) c (snd r0))
                              (filter (has_id (cols t) g v) (rows t)))) eqn:A; [reflexivity|].
      exfalso. apply X. exists v. split; [assumption|]. rewrite A. reflexivity.
Qed.

(* ============================================ the map follows the table (map_fresh) *)
Lemma map_opt_map {A B C} (f : B -> option C) (G : A -> B) l :
  map_opt f (map G l) = map_opt (fun x => f (G x)) l.
Proof. induction l as [|x r IH]; simpl; [reflexivity|]. rewrite IH. reflexivity. Qed.

Lemma map_opt_ext_in {A B} (f g : A -> option B) l :
  (forall x, In x l -> f x = g x) -> map_opt f l = map_opt g l.
Proof.
  induction l as [|x r IH]; simpl; intros H; [reflexivity|].
  rewrite (H x) by auto. rewrite IH by (intros; apply H; auto). reflexivity.
Qed.

Lemma build_imap_map_rows c t t' (G : lrow -> lrow) :
  rows t' = map G (rows t) -> (forall r, fst (G r) = fst r) ->
  (forall r, In r (rows t) -> getc (cols t') c (snd (G r)) = getc (cols t) c (snd r)) ->
  In c (cols t) -> In c (cols t') -> build_imap c t' = build_imap c t.
Proof.
  intros R F E Hc Hc'. unfold build_imap.
  assert (CV : colvals c t' = colvals c t).
  { unfold colvals. apply index_of_In in Hc. apply index_of_In in Hc'.
    destruct Hc as [i ->], Hc' as [i' ->]. rewrite R, map_opt_map. apply map_opt_ext_in. exact E. }
  rewrite CV. destruct (colvals c t) as [vs|]; [|reflexivity]. f_equal. apply map_ext. intros v.
  assert (L : map fst (filter (has_id (cols t') c v) (rows t')) = map fst (filter (has_id (cols t) c v) (rows t))).
  { rewrite R, filter_map, map_map.
    rewrite (filter_ext_in' (fun x => has_id (cols t') c v (G x)) (has_id (cols t) c v)).
    - apply map_ext. exact F.
    - intros r Hr. unfold has_id. rewrite (E r Hr). reflexivity. }
  rewrite L. reflexivity.
Qed.

Lemma build_imap_add_col f c c' t t' :
  well_formed t -> add_col f c' t = Some t' -> In c (cols t) -> build_imap c t' = build_imap c t.
Proof.
  intros [ND WF] A Hc. apply add_col_Some in A. destruct A as [_ [NI [_ [C R]]]].
  apply (build_imap_map_rows c t t' (fun r : lrow => (fst r, snd r ++ [fval f (cols t) r]))); auto.
  - intros r Hr. simpl. rewrite C. apply getc_app_old; [|auto]. intros ->. contradiction.
  - rewrite C. apply in_or_app. auto.
Qed.

Lemma build_imap_scale_other c c' s t t' :
  well_formed t -> scale_tab c' s t = Some t' -> c <> c' -> In c (cols t) -> build_imap c t' = build_imap c t.
Proof.
  intros [ND WF] A Hn Hc. unfold scale_tab in A.
  destruct (index_of c' (cols t)) as [i|] eqn:E; [|discriminate]. injection A as <-.
  apply (build_imap_map_rows c t _ (fun r : lrow => (fst r, update_nth i (fun x => dmul x s) (snd r)))); auto.
  intros r Hr. simpl. apply (getc_update_other _ c'); assumption.
Qed.

Lemma sort_tab_rows_length c t : length (rows (sort_tab c t)) = length (rows t).
Proof. unfold sort_tab. cbn [rows]. rewrite relabel_length, sort_by_length. reflexivity. Qed.

(* one step keeps "the map is the one computed from the current rows, labels are positions",
   unless the step rescales the column of the individuals' identifiers itself *)
Lemma step_map_fresh d o :
  inv d -> map_fresh d -> (forall c s, o = OScale c s -> pcol d <> Some c) -> map_fresh (fst (step d o)).
Proof.
  intros [W P] MF Hs. destruct o as [f|f c|c s|c|idx].
  - destruct (step d (ORemove f)) as [d' [|]] eqn:S.
    + destruct (step_remove_spec d f d' (conj W P) S) as [_ [PC M]]. simpl.
      unfold map_fresh. rewrite PC. destruct (pcol d) as [c|]; [|exact I].
      destruct M as [T [M _]]. split; [exact M|]. rewrite T, sort_tab_labels. f_equal. symmetry. apply sort_tab_rows_length.
    + pose proof (step_raised_unchanged d (ORemove f) (conj W P)) as Q. rewrite S in Q.
      simpl in Q. simpl. rewrite Q by reflexivity. exact MF.
  - simpl. destruct (add_col f c (tab d)) as [t'|] eqn:A; [|exact MF]. simpl.
    unfold map_fresh in *. simpl. unfold panel_inv in P. destruct (pcol d) as [pc|]; [|exact I].
    destruct MF as [M L]. destruct P as [Hc _].
    rewrite (build_imap_add_col _ _ _ _ _ W A Hc).
    destruct (add_column_pointwise _ _ _ _ W A) as [_ [L' _]]. split; [exact M|]. rewrite L', L.
    apply add_col_Some in A. destruct A as [_ [_ [_ [_ R]]]]. rewrite R, map_length. reflexivity.
  - simpl. destruct (scale_tab c s (tab d)) as [t'|] eqn:A; [|exact MF]. simpl.
    unfold map_fresh in *. simpl. unfold panel_inv in P. destruct (pcol d) as [pc|] eqn:PC; [|exact I].
    destruct MF as [M L]. destruct P as [Hc _].
    assert (pc <> c) by (intros ->; apply (Hs c s eq_refl); reflexivity).
    rewrite (build_imap_scale_other pc c s _ _ W A H Hc).
    destruct (scale_one_column _ _ _ _ W A) as [_ [_ [L' _]]]. split; [exact M|]. rewrite L', L.
    unfold scale_tab in A. destruct (index_of c (cols (tab d))); [|discriminate]. injection A as <-.
    cbn [rows]. rewrite map_length. reflexivity.
  - simpl. pose proof (panel_db_spec c d W) as S. destruct (panel_db c d) as [d' [|]]; simpl.
    + destruct S as [_ [m [-> B]]]. unfold map_fresh. simpl. split; [symmetry; exact B|].
      rewrite sort_tab_labels. f_equal. symmetry. apply sort_tab_rows_length.
    + subst d'. exact MF.
  - simpl. destruct (extract_tab idx (tab d)); [exact I|exact MF].
Qed.

Fixpoint no_id_scaling (d : db) (ops : list op) : Prop :=
  match ops with
  | [] => True
  | o :: r => (forall c s, o = OScale c s -> pcol d <> Some c) /\ no_id_scaling (fst (step d o)) r
  end.

Lemma run_map_fresh ops : forall d, inv d -> map_fresh d -> no_id_scaling d ops -> map_fresh (run d ops).
Proof.
  unfold run. induction ops as [|o os IH]; intros d I M N; simpl; [assumption|].
  destruct N as [N1 N2]. apply IH; [apply step_inv; assumption|apply step_map_fresh; assumption|assumption].
Qed.

Lemma new_db_map_fresh t : map_fresh (new_db t).
Proof. exact I. Qed.

(* in a fresh panel state the individuals of the map are exactly those present in the table *)
Lemma map_fresh_individuals d c m v :
  pcol d = Some c -> map_fresh d -> imap d = Some m ->
  (In v (map fst m) <-> exists r, In r (rows (tab d)) /\ getc (cols (tab d)) c (snd r) = Some v).
Proof.
  intros P MF M. unfold map_fresh in MF. rewrite P in MF. destruct MF as [E _].
  apply build_imap_individuals. rewrite <- E. assumption.
Qed.

Lemma sort_tab_spec c t :
  cols (sort_tab c t) = cols t /\
  labels (sort_tab c t) = iota (length (rows t)) /\
  Permutation (map snd (rows (sort_tab c t))) (map snd (rows t)) /\
  sorted_cells (map (fun r : lrow => getd (cols t) c (snd r)) (rows (sort_tab c t))) = true /\
  forall v, map snd (filter (has_id (cols t) c v) (rows (sort_tab c t)))
            = map snd (filter (has_id (cols t) c v) (rows t)).
Proof.
  exact (conj (sort_tab_cols c t) (conj (sort_tab_labels c t) (conj (sort_tab_cells_perm c t)
        (conj (sort_tab_sorted c t) (sort_tab_keeps_order c t))))).
Qed.

(* ===================================== the order on cells; ranges of the individuals *)
Lemma raw_sub_scale a b E :
  E <= snd a -> E <= snd b ->
  raw_sub a b * 2 ^ (Z.min (snd a) (snd b) - E) = fst a * 2 ^ (snd a - E) - fst b * 2 ^ (snd b - E).
Proof.
  intros Ha Hb. unfold raw_sub. set (e0 := Z.min (snd a) (snd b)).
  assert (H0a : e0 <= snd a) by (unfold e0; lia). assert (H0b : e0 <= snd b) by (unfold e0; lia).
  assert (HE : E <= e0) by (unfold e0; lia).
  replace (snd a - E) with ((snd a - e0) + (e0 - E)) by lia.
  replace (snd b - E) with ((snd b - e0) + (e0 - E)) by lia.
  rewrite !Z.pow_add_r by lia. ring.
Qed.

Lemma dleb_iff a b E :
  E <= snd a -> E <= snd b ->
  (dleb a b = true <-> fst a * 2 ^ (snd a - E) <= fst b * 2 ^ (snd b - E)).
Proof.
  intros Ha Hb. unfold dleb. rewrite Z.leb_le.
  pose proof (dsub_sgn a b) as S. pose proof (raw_sub_scale a b E Ha Hb) as R.
  assert (K : 0 < 2 ^ (Z.min (snd a) (snd b) - E)) by (apply Z.pow_pos_nonneg; lia).
  set (k := 2 ^ (Z.min (snd a) (snd b) - E)) in *.
  set (va := fst a * 2 ^ (snd a - E)) in *. set (vb := fst b * 2 ^ (snd b - E)) in *.
  split; intros H.
  - assert (raw_sub a b <= 0) by lia. nia.
  - assert (raw_sub a b <= 0) by nia. lia.
Qed.

Lemma dleb_trans a b c : dleb a b = true -> dleb b c = true -> dleb a c = true.
Proof.
  set (E := Z.min (snd a) (Z.min (snd b) (snd c))).
  intros H1 H2.
  apply (dleb_iff a b E) in H1; try (unfold E; lia).
  apply (dleb_iff b c E) in H2; try (unfold E; lia).
  apply (dleb_iff a c E); try (unfold E; lia). lia.
Qed.

Lemma norm_pos_snd_ge p e : e <= snd (norm_pos p e).
Proof.
  revert e. induction p as [p IH|p IH|]; intros e; simpl; try lia.
  specialize (IH (e + 1)). lia.
Qed.

Lemma canonical_cases a : canonical a -> a = (0, 0) \/ Z.odd (fst a) = true.
Proof.
  destruct a as [m e]. unfold canonical, dnorm. simpl. destruct m as [|p|p].
  - intros H. left. symmetry. exact H.
  - destruct (norm_pos p e) as [q e'] eqn:N. intros H. injection H as -> ->. right.
    destruct p as [p|p|]; try reflexivity.
    exfalso. simpl in N. pose proof (norm_pos_snd_ge p (e + 1)) as G. rewrite N in G. simpl in G. lia.
  - destruct (norm_pos p e) as [q e'] eqn:N. intros H. injection H as -> ->. right.
    destruct p as [p|p|]; try reflexivity.
    exfalso. simpl in N. pose proof (norm_pos_snd_ge p (e + 1)) as G. rewrite N in G. simpl in G. lia.
Qed.

Lemma odd_mul_pow2 m k : 0 < k -> Z.odd (m * 2 ^ k) = false.
Proof.
  intros H. replace k with (1 + (k - 1)) by lia. rewrite Z.pow_add_r by lia.
  replace (m * (2 ^ 1 * 2 ^ (k - 1))) with (2 * (m * 2 ^ (k - 1))) by (rewrite Z.pow_1_r; ring).
  apply Z.odd_mul. 
Qed.

Lemma dleb_antisym a b : canonical a -> canonical b -> dleb a b = true -> dleb b a = true -> a = b.
Proof.
  intros Ca Cb H1 H2.
  remember (Z.min (snd a) (snd b)) as E eqn:HE.
  apply (dleb_iff a b E) in H1; try lia.
  apply (dleb_iff b a E) in H2; try lia.
  assert (EQ : fst a * 2 ^ (snd a - E) = fst b * 2 ^ (snd b - E)) by lia. clear H1 H2.
  destruct a as [ma ea], b as [mb eb]. simpl in *.
  destruct (Z.lt_trichotomy ea eb) as [L|[L|L]].
  - exfalso. assert (H : E = ea) by lia. rewrite H, Z.sub_diag, Z.pow_0_r, Z.mul_1_r in EQ.
    apply canonical_cases in Ca. destruct Ca as [Ca|Ca].
    + injection Ca as Hm He. rewrite Hm, He in *. assert (0 < 2 ^ (eb - 0)) by (apply Z.pow_pos_nonneg; lia).
      assert (Hb : mb = 0) by nia. rewrite Hb in *. apply canonical_cases in Cb. destruct Cb as [Cb|Cb]; [|discriminate].
      injection Cb as Hb'. lia.
    + simpl in Ca. rewrite EQ, odd_mul_pow2 in Ca by lia. discriminate.
  - assert (H : E = ea) by lia. rewrite <- L in EQ. rewrite H, Z.sub_diag, Z.pow_0_r, !Z.mul_1_r in EQ.
    rewrite EQ, L. reflexivity.
  - exfalso. assert (H : E = eb) by lia. rewrite H, Z.sub_diag, Z.pow_0_r, Z.mul_1_r in EQ.
    apply canonical_cases in Cb. destruct Cb as [Cb|Cb].
    + injection Cb as Hm He. rewrite Hm, He in *. assert (0 < 2 ^ (ea - 0)) by (apply Z.pow_pos_nonneg; lia).
      assert (Ha : ma = 0) by nia. rewrite Ha in *. apply canonical_cases in Ca. destruct Ca as [Ca|Ca]; [|discriminate].
      injection Ca as Ha'. lia.
    + simpl in Cb. rewrite <- EQ, odd_mul_pow2 in Cb by lia. discriminate.
Qed.

Lemma sorted_cells_head_le x l : sorted_cells (x :: l) = true -> forall y, In y l -> dleb x y = true.
Proof.
  revert x. induction l as [|z r IH]; intros x S y Hy; [contradiction|].
  apply sorted_cells_cons in S. destruct S as [S1 S2]. destruct Hy as [<-|Hy]; [exact S1|].
  apply (dleb_trans x z y); [exact S1|]. apply IH; assumption.
Qed.

Lemma sorted_cells_nth l d i j :
  sorted_cells l = true -> (i <= j)%nat -> (j < length l)%nat -> dleb (nth i l d) (nth j l d) = true.
Proof.
  revert i j. induction l as [|x r IH]; intros i j S Hij Hj; simpl in Hj; [lia|].
  destruct i as [|i], j as [|j]; simpl; try lia.
  - apply dleb_refl.
  - apply (sorted_cells_head_le x r S). apply nth_In. lia.
  - apply sorted_cells_cons in S. apply IH; [tauto|lia|lia].
Qed.

Lemma Zmin_list_spec l d : In (Zmin_list d l) (d :: l) /\ forall x, In x (d :: l) -> Zmin_list d l <= x.
Proof.
  unfold Zmin_list. revert d. induction l as [|y r IH]; intros d; simpl.
  - split; [auto|]. intros x [<-|[]]. lia.
  - destruct (IH (Z.min d y)) as [I1 I2]. split.
    + destruct I1 as [I1|I1]; [|auto]. rewrite <- I1. destruct (Z.min_spec d y) as [[_ ->]|[_ ->]]; auto.
    + intros x Hx. assert (M : fold_left Z.min r (Z.min d y) <= Z.min d y) by (apply I2; simpl; auto).
      destruct Hx as [<-|[<-|Hx]]; try lia. apply I2. simpl. auto.
Qed.

Lemma Zmax_list_spec l d : In (Zmax_list d l) (d :: l) /\ forall x, In x (d :: l) -> x <= Zmax_list d l.
Proof.
  unfold Zmax_list. revert d. induction l as [|y r IH]; intros d; simpl.
  - split; [auto|]. intros x [<-|[]]. lia.
  - destruct (IH (Z.max d y)) as [I1 I2]. split.
    + destruct I1 as [I1|I1]; [|auto]. rewrite <- I1. destruct (Z.max_spec d y) as [[_ ->]|[_ ->]]; auto.
    + intros x Hx. assert (M : Z.max d y <= fold_left Z.max r (Z.max d y)) by (apply I2; simpl; auto).
      destruct Hx as [<-|[<-|Hx]]; try lia. apply I2. simpl. auto.
Qed.

Lemma min_label_spec l : l <> [] -> In (min_label l) l /\ forall x, In x l -> min_label l <= x.
Proof. destruct l as [|d r]; [congruence|]. intros _. apply Zmin_list_spec. Qed.
Lemma max_label_spec l : l <> [] -> In (max_label l) l /\ forall x, In x l -> x <= max_label l.
Proof. destruct l as [|d r]; [congruence|]. intros _. apply Zmax_list_spec. Qed.

(* rows whose labels are their positions *)
Lemma label_nth t i :
  labels t = iota (length (rows t)) -> (i < length (rows t))%nat -> fst (nth i (rows t) dummy_row) = Z.of_nat i.
Proof.
  intros L Hi. transitivity (nth i (labels t) 0).
  - unfold labels. change 0 with (fst dummy_row). symmetry. apply map_nth.
  - rewrite L. unfold iota. change 0 with (Z.of_nat 0). rewrite map_nth, seq_nth by assumption. reflexivity.
Qed.

Lemma positional_row t p r :
  labels t = iota (length (rows t)) -> In r (rows t) -> fst r = p ->
  0 <= p < nrows t /\ r = iloc t p.
Proof.
  intros L Hr Hp. apply In_nth with (d := dummy_row) in Hr. destruct Hr as [i [Hi E]].
  assert (F : fst r = Z.of_nat i) by (rewrite <- E; apply label_nth; assumption).
  unfold nrows, iloc. split; [lia|]. rewrite <- Hp, F, Nat2Z.id. symmetry. exact E.
Qed.

Lemma iloc_label t p : labels t = iota (length (rows t)) -> 0 <= p < nrows t -> fst (iloc t p) = p.
Proof.
  intros L Hp. unfold iloc, nrows in *. rewrite label_nth by (assumption || lia). lia.
Qed.

Definition canonical_col (c : Z) (t : table) : Prop :=
  forall r, In r (rows t) -> canonical (getd (cols t) c (snd r)).

(* T13e/T13i: in a table sorted by individual whose labels are positions -- what build_panel_map
   produces -- the range recorded for an individual contains exactly that individual's rows *)
Lemma build_imap_ranges c t m v lo hi :
  well_formed t -> In c (cols t) -> canonical_col c t ->
  labels t = iota (length (rows t)) ->
  sorted_cells (map (fun r : lrow => getd (cols t) c (snd r)) (rows t)) = true ->
  build_imap c t = Some m -> In (v, (lo, hi)) m ->
  0 <= lo <= hi /\ hi < nrows t /\
  forall p, 0 <= p < nrows t -> (lo <= p <= hi <-> getc (cols t) c (snd (iloc t p)) = Some v).
Proof.
  intros W Hc CC L S B Hin. unfold build_imap in B.
  destruct (colvals c t) as [vs|] eqn:CV; [|discriminate]. injection B as <-.
  apply in_map_iff in Hin. destruct Hin as [v' [E Hv]]. injection E as -> <- <-.
  apply colvals_Some in CV. destruct CV as [_ [Evs Hs]].
  set (ls := map fst (filter (has_id (cols t) c v) (rows t))).
  assert (HID : forall r, In r (rows t) -> (has_id (cols t) c v r = true <-> getc (cols t) c (snd r) = Some v)).
  { intros r Hr. unfold has_id. destruct (getc (cols t) c (snd r)) as [x|] eqn:G.
    - rewrite ceqb_eq. split; congruence.
    - split; [discriminate|]. intros; exfalso; apply (Hs r Hr); assumption. }
  assert (LS : forall p, In p ls <-> 0 <= p < nrows t /\ getc (cols t) c (snd (iloc t p)) = Some v).
  { intros p. unfold ls. rewrite in_map_iff. split.
    - intros [r [Hp Hr]]. apply filter_In in Hr. destruct Hr as [Hr Hid].
      destruct (positional_row t p r L Hr Hp) as [Rg ->]. split; [assumption|]. apply HID; [apply iloc_In|]; assumption.
    - intros [Rg G]. exists (iloc t p). split; [apply iloc_label; assumption|].
      apply filter_In. split; [apply iloc_In; assumption|]. apply HID; [apply iloc_In|]; assumption. }
  assert (NE : ls <> []).
  { apply (proj1 (uniq_In _ _)) in Hv. rewrite Evs in Hv. apply in_map_iff in Hv. destruct Hv as [r [Er Hr]].
    assert (In (fst r) ls).
    { unfold ls. apply in_map. apply filter_In. split; [assumption|]. apply HID; [assumption|].
      unfold getd in Er. destruct (getc (cols t) c (snd r)) eqn:G; [congruence|]. exfalso. apply (Hs r Hr). assumption. }
    intros Z0. rewrite Z0 in H. contradiction. }
  destruct (min_label_spec ls NE) as [Min1 Min2]. destruct (max_label_spec ls NE) as [Max1 Max2].
  apply LS in Min1. apply LS in Max1. destruct Min1 as [Rlo Glo], Max1 as [Rhi Ghi].
  assert (LH : min_label ls <= max_label ls) by (apply Min2; apply LS; split; assumption).
  split; [lia|]. split; [lia|].
  intros p Rp. split.
  - intros [P1 P2].
    (* sandwiched between two rows of individual v in a sorted column *)
    set (vals := map (fun r : lrow => getd (cols t) c (snd r)) (rows t)) in *.
    assert (NV : forall q, 0 <= q < nrows t -> nth (Z.to_nat q) vals dzero = getd (cols t) c (snd (iloc t q))).
    { intros q Rq. unfold vals, iloc.
      rewrite (nth_indep _ dzero ((fun r : lrow => getd (cols t) c (snd r)) dummy_row))
        by (rewrite map_length; unfold nrows in Rq; lia).
      exact (map_nth (fun r : lrow => getd (cols t) c (snd r)) (rows t) dummy_row (Z.to_nat q)). }
    assert (LV : length vals = length (rows t)) by (unfold vals; apply map_length).
    unfold nrows in *.
    assert (D1 : dleb (nth (Z.to_nat (min_label ls)) vals dzero) (nth (Z.to_nat p) vals dzero) = true)
      by (apply sorted_cells_nth; [assumption|lia|lia]).
    assert (D2 : dleb (nth (Z.to_nat p) vals dzero) (nth (Z.to_nat (max_label ls)) vals dzero) = true)
      by (apply sorted_cells_nth; [assumption|lia|lia]).
    rewrite !NV in D1, D2 by (unfold nrows; lia).
    unfold getd in D1 at 1. rewrite Glo in D1. unfold getd in D2 at 2. rewrite Ghi in D2.
    assert (Cp : canonical (getd (cols t) c (snd (iloc t p)))) by (apply CC; apply iloc_In; unfold nrows; lia).
    assert (Cv : canonical v).
    { specialize (CC (iloc t (min_label ls)) ltac:(apply iloc_In; unfold nrows; lia)).
      unfold getd in CC. rewrite Glo in CC. exact CC. }
    assert (EQ : getd (cols t) c (snd (iloc t p)) = v) by (apply dleb_antisym; assumption).
    unfold getd in EQ. destruct (getc (cols t) c (snd (iloc t p))) eqn:G; [congruence|].
    exfalso. apply (Hs (iloc t p)); [apply iloc_In; unfold nrows; lia|assumption].
  - intros G. assert (In p ls) by (apply LS; split; assumption). split; [apply Min2|apply Max2]; assumption.
Qed.

Lemma sort_tab_canonical_col c t : canonical_col c t -> canonical_col c (sort_tab c t).
Proof.
  intros CC r Hr. rewrite sort_tab_cols.
  assert (H : In (snd r) (map snd (rows (sort_tab c t)))) by (apply in_map; assumption).
  apply (Permutation_in _ (sort_tab_cells_perm c t)) in H. apply in_map_iff in H.
  destruct H as [r0 [E Hr0]]. rewrite <- E. apply CC. assumption.
Qed.

(* the map built by panel() / rebuilt by remove(): every individual's range is exactly the block of
   its rows in the sorted, renumbered table *)
Lemma panel_ranges c t m v lo hi :
  well_formed t -> In c (cols t) -> canonical_col c t ->
  build_imap c (sort_tab c t) = Some m -> In (v, (lo, hi)) m ->
  let t' := sort_tab c t in
  0 <= lo <= hi /\ hi < nrows t' /\
  forall p, 0 <= p < nrows t' -> (lo <= p <= hi <-> getc (cols t') c (snd (iloc t' p)) = Some v).
Proof.
  intros W Hc CC B Hin. cbv zeta.
  apply (build_imap_ranges c (sort_tab c t) m v lo hi); try assumption.
  - apply sort_tab_wf. assumption.
  - apply sort_tab_canonical_col. assumption.
  - rewrite sort_tab_labels. f_equal. symmetry. apply sort_tab_rows_length.
  - rewrite sort_tab_cols. apply sort_tab_sorted.
Qed.

(* ============================ the dyadic arithmetic of the model is exact arithmetic *)
(* value of a cell in units of 2^E (an integer as soon as E <= exponent) *)
Definition dval (a : cell) (E : Z) : Z := fst a * 2 ^ (snd a - E).

Lemma norm_pos_value p e :
  e <= snd (norm_pos p e) /\ Zpos p = Zpos (fst (norm_pos p e)) * 2 ^ (snd (norm_pos p e) - e).
Proof.
  revert e. induction p as [p IH|p IH|]; intros e.
  - cbn [norm_pos fst snd]. split; [lia|]. rewrite Z.sub_diag, Z.pow_0_r. lia.
  - cbn [norm_pos]. destruct (IH (e + 1)) as [I1 I2]. split; [lia|].
    replace (snd (norm_pos p (e + 1)) - e) with (1 + (snd (norm_pos p (e + 1)) - (e + 1))) by lia.
    rewrite Z.pow_add_r by lia. rewrite Z.pow_1_r.
    rewrite Pos2Z.inj_xO. set (q := Z.pos (fst (norm_pos p (e + 1)))) in *.
    set (x := 2 ^ (snd (norm_pos p (e + 1)) - (e + 1))) in *. rewrite I2. ring.
  - cbn [norm_pos fst snd]. split; [lia|]. rewrite Z.sub_diag, Z.pow_0_r. lia.
Qed.

Lemma dnorm_value c E : E <= snd c -> dval (dnorm c) E = dval c E.
Proof.
  destruct c as [m e]. intros H. cbn [snd] in H. destruct m as [|p|p].
  - reflexivity.
  - unfold dnorm. cbn [fst snd]. destruct (norm_pos_value p e) as [I1 I2].
    destruct (norm_pos p e) as [q e']. cbn [fst snd] in *. unfold dval. cbn [fst snd].
    rewrite I2. replace (e' - E) with ((e' - e) + (e - E)) by lia. rewrite Z.pow_add_r by lia. ring.
  - unfold dnorm. cbn [fst snd]. destruct (norm_pos_value p e) as [I1 I2].
    destruct (norm_pos p e) as [q e']. cbn [fst snd] in *. unfold dval. cbn [fst snd].
    rewrite <- !Pos2Z.opp_pos.
    rewrite I2. replace (e' - E) with ((e' - e) + (e - E)) by lia. rewrite Z.pow_add_r by lia. ring.
Qed.

Lemma dadd_value a b E : E <= snd a -> E <= snd b -> dval (dadd a b) E = dval a E + dval b E.
Proof.
  intros Ha Hb. unfold dadd. rewrite dnorm_value by (simpl; lia). unfold dval. simpl.
  set (e0 := Z.min (snd a) (snd b)).
  replace (snd a - E) with ((snd a - e0) + (e0 - E)) by lia.
  replace (snd b - E) with ((snd b - e0) + (e0 - E)) by lia.
  rewrite !Z.pow_add_r by (unfold e0; lia). ring.
Qed.

Lemma dsub_value a b E : E <= snd a -> E <= snd b -> dval (dsub a b) E = dval a E - dval b E.
Proof.
  intros Ha Hb. unfold dsub. rewrite dadd_value by (simpl; assumption). unfold dval, dopp. simpl. ring.
Qed.

Lemma dmul_value a b Ea Eb :
  Ea <= snd a -> Eb <= snd b -> dval (dmul a b) (Ea + Eb) = dval a Ea * dval b Eb.
Proof.
  intros Ha Hb. unfold dmul. rewrite dnorm_value by (simpl; lia). unfold dval. simpl.
  replace (snd a + snd b - (Ea + Eb)) with ((snd a - Ea) + (snd b - Eb)) by lia.
  rewrite Z.pow_add_r by lia. ring.
Qed.

Lemma dleb_value a b E : E <= snd a -> E <= snd b -> (dleb a b = true <-> dval a E <= dval b E).
Proof. exact (dleb_iff a b E). Qed.

Lemma dltb_value a b E : E <= snd a -> E <= snd b -> (dltb a b = true <-> dval a E < dval b E).
Proof.
  intros Ha Hb. unfold dltb. rewrite Z.ltb_lt.
  pose proof (dsub_sgn a b) as S. pose proof (raw_sub_scale a b E Ha Hb) as R.
  assert (K : 0 < 2 ^ (Z.min (snd a) (snd b) - E)) by (apply Z.pow_pos_nonneg; lia).
  unfold dval. set (k := 2 ^ (Z.min (snd a) (snd b) - E)) in *.
  set (va := fst a * 2 ^ (snd a - E)) in *. set (vb := fst b * 2 ^ (snd b - E)) in *.
  split; intros H.
  - assert (raw_sub a b < 0) by lia. nia.
  - assert (raw_sub a b < 0) by nia. lia.
Qed.

Lemma ceqb_value a b E :
  canonical a -> canonical b -> E <= snd a -> E <= snd b -> (ceqb a b = true <-> dval a E = dval b E).
Proof.
  intros Ca Cb Ha Hb. rewrite ceqb_eq. split; [intros ->; reflexivity|]. intros H.
  apply dleb_antisym; try assumption; apply (dleb_iff _ _ E); try assumption; unfold dval in H; lia.
Qed.

Lemma norm_pos_idem p e q e' : norm_pos p e = (q, e') -> norm_pos q e' = (q, e').
Proof.
  revert e. induction p as [p IH|p IH|]; intros e N; simpl in N; try (injection N as <- <-; reflexivity).
  apply (IH (e + 1)). exact N.
Qed.

Lemma dnorm_canonical c : canonical (dnorm c).
Proof.
  unfold canonical. destruct c as [m e]. destruct m as [|p|p]; [reflexivity| |].
  - destruct (norm_pos p e) as [q e'] eqn:N.
    assert (D : dnorm (Z.pos p, e) = (Z.pos q, e')) by (unfold dnorm; cbn [fst snd]; rewrite N; reflexivity).
    rewrite D. unfold dnorm. cbn [fst snd]. rewrite (norm_pos_idem _ _ _ _ N). reflexivity.
  - destruct (norm_pos p e) as [q e'] eqn:N.
    assert (D : dnorm (Z.neg p, e) = (Z.neg q, e')) by (unfold dnorm; cbn [fst snd]; rewrite N; reflexivity).
    rewrite D. unfold dnorm. cbn [fst snd]. rewrite (norm_pos_idem _ _ _ _ N). reflexivity.
Qed.

Lemma arithmetic_exact :
  (forall a b E, E <= snd a -> E <= snd b -> dval (dadd a b) E = dval a E + dval b E) /\
  (forall a b E, E <= snd a -> E <= snd b -> dval (dsub a b) E = dval a E - dval b E) /\
  (forall a b Ea Eb, Ea <= snd a -> Eb <= snd b -> dval (dmul a b) (Ea + Eb) = dval a Ea * dval b Eb) /\
  (forall a b E, E <= snd a -> E <= snd b -> (dleb a b = true <-> dval a E <= dval b E)) /\
  (forall a b E, E <= snd a -> E <= snd b -> (dltb a b = true <-> dval a E < dval b E)) /\
  (forall a b E, canonical a -> canonical b -> E <= snd a -> E <= snd b -> (ceqb a b = true <-> dval a E = dval b E)) /\
  (forall a b, canonical (dadd a b) /\ canonical (dmul a b)).
Proof.
  exact (conj dadd_value (conj dsub_value (conj dmul_value (conj dleb_value (conj dltb_value
        (conj ceqb_value (fun a b => conj (dnorm_canonical _) (dnorm_canonical _)))))))).
Qed.
