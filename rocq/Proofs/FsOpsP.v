(* Lemmas about the file-system model of Model/FsOps.v *)
From Coq Require Import ZArith List String Ascii Bool Lia FinFun.
From BV Require Import Model.PyBase Model.FsOps Proofs.PyBaseP.
Open Scope Z_scope.

(* ------------------------------------------------------------------ lookup / write *)
Lemma lookup_In d n c : lookup d n = Some c -> In n (names d).
Proof.
  induction d as [|[n' c'] r IH]; simpl; [discriminate|].
  destruct (String.eqb n n') eqn:E; intros H.
  - apply String.eqb_eq in E. left. congruence.
  - right. apply IH. exact H.
Qed.

Lemma lookup_None d n : lookup d n = None <-> ~ In n (names d).
Proof.
  induction d as [|[n' c'] r IH]; simpl.
  - split; auto.
  - destruct (String.eqb n n') eqn:E.
    + apply String.eqb_eq in E. subst. split; [discriminate|]. intros H. exfalso. apply H. now left.
    + apply String.eqb_neq in E. rewrite IH. split.
      * intros H [H1|H1]; [congruence|auto].
      * intros H H1. apply H. now right.
Qed.

Lemma lookup_fs_write_other d n c n0 :
  n0 <> n -> lookup (fs_write d n c) n0 = lookup d n0.
Proof.
  intros Hne. induction d as [|[n' c'] r IH]; simpl.
  - destruct (String.eqb n0 n) eqn:E; [apply String.eqb_eq in E; congruence|reflexivity].
  - destruct (String.eqb n n') eqn:E; simpl.
    + apply String.eqb_eq in E. subst n'.
      destruct (String.eqb n0 n) eqn:E2; [apply String.eqb_eq in E2; congruence|reflexivity].
    + destruct (String.eqb n0 n'); [reflexivity|exact IH].
Qed.

Lemma lookup_fs_write_same d n c : lookup (fs_write d n c) n = Some c.
Proof.
  induction d as [|[n' c'] r IH]; simpl.
  - rewrite String.eqb_refl. reflexivity.
  - destruct (String.eqb n n') eqn:E; simpl; rewrite E; [reflexivity|exact IH].
Qed.

Lemma lookup_fs_remove_same d n : lookup (fs_remove d n) n = None.
Proof.
  induction d as [|[n' c'] r IH]; simpl; [reflexivity|].
  destruct (String.eqb n n') eqn:E; [exact IH|]. simpl. rewrite E. exact IH.
Qed.

Lemma lookup_fs_remove_other d n n0 : n0 <> n -> lookup (fs_remove d n) n0 = lookup d n0.
Proof.
  intros Hne. induction d as [|[n' c'] r IH]; simpl; [reflexivity|].
  destruct (String.eqb n n') eqn:E.
  - apply String.eqb_eq in E. subst n'.
    destruct (String.eqb n0 n) eqn:E2; [apply String.eqb_eq in E2; congruence|exact IH].
  - simpl. destruct (String.eqb n0 n'); [reflexivity|exact IH].
Qed.

Lemma path_exists_In fs n : path_exists fs n = true <-> In n fs.
Proof. exact (is_file_In fs n). Qed.

Lemma path_exists_false fs n : path_exists fs n = false <-> ~ In n fs.
Proof. exact (is_file_false fs n). Qed.

(* -------------------------------------------------------------------- pigeonhole *)
(* For an injective enumeration c of candidate names, one of c 0 .. c |fs| is not in fs; the
   least such index m has all earlier candidates in fs. *)
Lemma least_free_gen (c : nat -> string) (fs : list string) :
  (forall i j, c i = c j -> i = j) ->
  exists m, (m <= List.length fs)%nat /\ ~ In (c m) fs /\ forall j, (j < m)%nat -> In (c j) fs.
Proof.
  intros Hinj.
  assert (H : exists m, (m <= List.length fs)%nat /\ ~ In (c m) fs).
  { destruct (Forall_Exists_dec (fun k => In (c k) fs)
               (fun k => in_dec string_dec (c k) fs) (seq 0 (S (List.length fs)))) as [Hall|Hex].
    - exfalso.
      assert (Hnd : NoDup (map c (seq 0 (S (List.length fs))))).
      { apply FinFun.Injective_map_NoDup; [|apply seq_NoDup]. intros i j. apply Hinj. }
      assert (Hincl : incl (map c (seq 0 (S (List.length fs)))) fs).
      { intros x Hx. apply in_map_iff in Hx. destruct Hx as (k & <- & Hk).
        rewrite Forall_forall in Hall. apply Hall. exact Hk. }
      pose proof (NoDup_incl_length Hnd Hincl) as Hl.
      rewrite map_length, seq_length in Hl. lia.
    - apply Exists_exists in Hex. destruct Hex as (k & Hk & Hn).
      apply in_seq in Hk. exists k. split; [lia|exact Hn]. }
  destruct H as (m0 & Hm0 & Hout0).
  revert Hm0 Hout0. induction m0 as [m0 IH] using lt_wf_ind. intros Hm0 Hout0.
  destruct (Forall_Exists_dec (fun k => In (c k) fs)
             (fun k => in_dec string_dec (c k) fs) (seq 0 m0)) as [Hall|Hex].
  - exists m0. split; [exact Hm0|]. split; [exact Hout0|].
    intros j Hj. rewrite Forall_forall in Hall. apply Hall. apply in_seq. lia.
  - apply Exists_exists in Hex. destruct Hex as (k & Hk & Hn). apply in_seq in Hk.
    apply (IH k); [lia|lia|exact Hn].
Qed.

(* ---------------------------------------------------------------------- splitext *)
Lemma str_take_drop n s : (str_take n s ++ str_drop n s)%string = s.
Proof.
  revert s; induction n as [|n IH]; intros s; simpl; [reflexivity|].
  destruct s as [|a r]; simpl; [reflexivity|]. rewrite IH. reflexivity.
Qed.

(* os.path.splitext: root + ext == p, always *)
Lemma splitext_join p : (fst (splitext p) ++ snd (splitext p))%string = p.
Proof.
  unfold splitext.
  destruct (rfind "." p >? rfind "/" p); [|simpl; apply append_nil_r].
  destruct (all_dots _); simpl; [apply append_nil_r|apply str_take_drop].
Qed.
