(* C17 -- lemmas about the trees built by Model/Builders17.v and about the definitions generated
   from the source in Gen/Piecewise.v. *)
From Coq Require Import Reals Lra Lia ZArith List Bool Sorted.
From Coquelicot Require Import Coquelicot.
From Interval Require Import Tactic.
From BV Require Import Model.PyBase Model.Builders17 Gen.Piecewise.
Import ListNotations.
Open Scope R_scope.

(* ================================================================== evaluation lemmas *)
Section Eval.
  Variable Phi : R -> R.
  Variable en : env.
  Notation evf := (fun e => evalX Phi e en).

  Lemma ev_num : forall d, evalX Phi (ENumD d) en = XR (D2R d).
  Proof. reflexivity. Qed.
  Lemma ev_ENum : forall m e, evalX Phi (ENum m e) en = XR (D2R (m, e)).
  Proof. reflexivity. Qed.
  Lemma ev_ENumZ : forall n, evalX Phi (ENumZ n) en = XR (D2R (n, 0%Z)).
  Proof. reflexivity. Qed.
  Lemma ev_bin : forall op a b,
    evalX Phi (EBin op a b) en = xbin op (evalX Phi a en) (evalX Phi b en).
  Proof. reflexivity. Qed.
  Lemma ev_exp : forall a, evalX Phi (EUn Exp a) en = xun Phi Exp (evalX Phi a en).
  Proof. reflexivity. Qed.
  Lemma ev_log : forall a, evalX Phi (EUn Log a) en = xun Phi Log (evalX Phi a en).
  Proof. reflexivity. Qed.
  Lemma ev_uminus : forall a, evalX Phi (EUn UMinus a) en = xun Phi UMinus (evalX Phi a en).
  Proof. reflexivity. Qed.
  Lemma ev_powc : forall a c, evalX Phi (EPowC a c) en = xpowc c (evalX Phi a en).
  Proof. reflexivity. Qed.
  Lemma ev_multsum : forall l, evalX Phi (EMultSum l) en = xsum (map evf l).
  Proof. reflexivity. Qed.
  Lemma ev_elem : forall key entries,
    evalX Phi (EElem key entries) en
    = xelem (map fst entries) (evalX Phi key en :: map evf (map snd entries)).
  Proof. reflexivity. Qed.
  Lemma ev_beta : forall n f, evalX Phi (EBeta n f) en = of_opt (e_beta en n).
  Proof. reflexivity. Qed.
  Lemma ev_var : forall n, evalX Phi (EVar n) en = of_opt (e_var en n).
  Proof. reflexivity. Qed.
End Eval.

#[global] Hint Rewrite ev_num ev_ENum ev_ENumZ ev_bin ev_exp ev_log ev_uminus ev_powc ev_multsum
  ev_elem ev_beta ev_var : evx.

Lemma D2R_0 : D2R (0%Z, 0%Z) = 0.
Proof. unfold D2R; simpl; ring. Qed.
Lemma D2R_1 : D2R (1%Z, 0%Z) = 1.
Proof. unfold D2R; simpl; ring. Qed.
Lemma D2R_2 : D2R (1%Z, 1%Z) = 2.
Proof. unfold D2R; simpl; ring. Qed.
Lemma D2R_6 : D2R (3%Z, 1%Z) = 6.
Proof. unfold D2R; simpl; ring. Qed.
Lemma D2R_24 : D2R (3%Z, 3%Z) = 24.
Proof. unfold D2R; simpl; ring. Qed.

Lemma Rnz_true : forall r, r <> 0 -> Rnz r = true.
Proof. intros r H; unfold Rnz; destruct (Req_EM_T r 0); [contradiction | reflexivity]. Qed.
Lemma Rnz_0 : Rnz 0 = false.
Proof. unfold Rnz; destruct (Req_EM_T 0 0); [reflexivity | contradiction]. Qed.
Lemma Rltb'_true : forall a b, a < b -> Rltb' a b = true.
Proof. intros; unfold Rltb'; destruct (Rlt_dec a b); [reflexivity | contradiction]. Qed.
Lemma Rltb'_false : forall a b, b <= a -> Rltb' a b = false.
Proof. intros; unfold Rltb'; destruct (Rlt_dec a b); [lra | reflexivity]. Qed.
Lemma Rleb'_true : forall a b, a <= b -> Rleb' a b = true.
Proof. intros; unfold Rleb'; destruct (Rle_dec a b); [reflexivity | contradiction]. Qed.
Lemma Rleb'_false : forall a b, b < a -> Rleb' a b = false.
Proof. intros; unfold Rleb'; destruct (Rle_dec a b); [lra | reflexivity]. Qed.
Lemma Reqb'_true : forall a b, a = b -> Reqb' a b = true.
Proof. intros; unfold Reqb'; destruct (Req_EM_T a b); [reflexivity | contradiction]. Qed.
Lemma Reqb'_false : forall a b, a <> b -> Reqb' a b = false.
Proof. intros; unfold Reqb'; destruct (Req_EM_T a b); [contradiction | reflexivity]. Qed.

(* ------------------------------------------------------------------ dyadics *)
Lemma powerRZ_2_succ : forall e, powerRZ 2 (e + 1) = 2 * powerRZ 2 e.
Proof. intros; rewrite powerRZ_add by lra; simpl; ring. Qed.

Lemma strip_pos_D2R : forall p e q e',
  strip_pos p e = (q, e') -> IZR (Zpos q) * powerRZ 2 e' = IZR (Zpos p) * powerRZ 2 e.
Proof.
  induction p; intros e q e' H; simpl in H; try (inversion H; subst; reflexivity).
  apply IHp in H. rewrite H, powerRZ_2_succ.
  change (Z.pos p~0) with (2 * Z.pos p)%Z. rewrite mult_IZR. ring.
Qed.

Lemma dnorm_D2R : forall d, D2R (dnorm d) = D2R d.
Proof.
  intros [m e]; unfold dnorm, D2R; simpl fst; simpl snd. destruct m as [|p|p].
  - simpl. ring.
  - destruct (strip_pos p e) as [q e'] eqn:E. simpl. eapply strip_pos_D2R; eauto.
  - destruct (strip_pos p e) as [q e'] eqn:E. simpl.
    apply strip_pos_D2R in E.
    change (Z.neg q) with (- Z.pos q)%Z. change (Z.neg p) with (- Z.pos p)%Z.
    rewrite !opp_IZR. lra.
Qed.

Lemma D2R_ENumI : forall n, D2R (dnorm (n, 0%Z)) = IZR n.
Proof. intros; rewrite dnorm_D2R; unfold D2R; simpl; ring. Qed.

(* ================================================================== piecewise.py *)
Definition clip (x a b : R) : R := Rmax 0 (Rmin (x - a) (b - a)).

(* values of the variables after the first one (mirrors pw_rest) *)
Fixpoint pw_rest_vals (x a : R) (l : list (option R)) : list R :=
  match l with
  | [] => []
  | [None] => [Rmax 0 (x - a)]
  | [Some b] => [clip x a b]
  | Some b :: r => clip x a b :: pw_rest_vals x b r
  | None :: _ => []
  end.

(* values of the variables of a threshold list  first :: map Some mids ++ [last] *)
Definition pw_vals (x : R) (first : option R) (l : list (option R)) : list R :=
  match first with
  | Some a => pw_rest_vals x a l
  | None => match l with
            | [] => []
            | [None] => []
            | [Some b] => [Rmin x b]
            | Some b :: r => Rmin x b :: pw_rest_vals x b r
            | None :: _ => []
            end
  end.

Definition rsum (l : list R) : R := fold_right Rplus 0 l.
Fixpoint dot (bs ws : list R) : R :=
  match bs, ws with b :: bs', w :: ws' => b * w + dot bs' ws' | _, _ => 0 end.

Definition somes (l : list (option R)) : list R :=
  flat_map (fun o => match o with Some r => [r] | None => [] end) l.

Definition oD2R (o : option dyadic) : option R := option_map D2R o.

(* the float differences stored in the tree are exact *)
Fixpoint exact_diffs (ts : list (option dyadic)) : Prop :=
  match ts with
  | Some a :: r => match r with
                   | Some b :: _ => D2R (dsub53 b a) = D2R b - D2R a
                   | _ => True
                   end /\ exact_diffs r
  | None :: r => exact_diffs r
  | [] => True
  end.

Definition tail_of (mids : list dyadic) (last : option dyadic) : list (option dyadic) :=
  map Some mids ++ [last].
Definition rtail_of (mids : list R) (last : option R) : list (option R) :=
  map Some mids ++ [last].

Lemma rtail_map : forall mids last,
  map oD2R (tail_of mids last) = rtail_of (map D2R mids) (oD2R last).
Proof. intros; unfold tail_of, rtail_of; rewrite map_app, !map_map; reflexivity. Qed.

Section PW.
  Variable Phi : R -> R.
  Variable en : env.
  Variable v : expr.
  Variable x : R.
  Hypothesis Hv : evalX Phi v en = XR x.
  Notation ev := (fun e => evalX Phi e en).

  Lemma ev_pw_mid : forall a b, D2R (dsub53 b a) = D2R b - D2R a ->
    ev (pw_mid v a b) = XR (clip x (D2R a) (D2R b)).
  Proof.
    intros a b E. unfold pw_mid, clip. autorewrite with evx. rewrite Hv. simpl.
    rewrite E, D2R_0. reflexivity.
  Qed.
  Lemma ev_pw_open : forall a, ev (pw_open v a) = XR (Rmax 0 (x - D2R a)).
  Proof. intros; unfold pw_open. autorewrite with evx. rewrite Hv. simpl. rewrite D2R_0. reflexivity. Qed.
  Lemma ev_pw_first_open : forall b, ev (pw_first_open v b) = XR (Rmin x (D2R b)).
  Proof. intros; unfold pw_first_open. autorewrite with evx. rewrite Hv. reflexivity. Qed.

  (* tree -> values, for the variables after the first *)
  Lemma pw_rest_vals_ok : forall mids a last,
    exact_diffs (Some a :: tail_of mids last) ->
    exists vars, pw_rest v a (tail_of mids last) = Some vars /\
      map ev vars = map XR (pw_rest_vals x (D2R a) (rtail_of (map D2R mids) (oD2R last))).
  Proof.
    induction mids as [|b m IH]; intros a last E.
    - unfold tail_of, rtail_of; simpl. destruct last as [c|]; simpl.
      + eexists; split; [reflexivity|]. cbn [map app pw_rest_vals oD2R option_map].
        rewrite ev_pw_mid; [reflexivity|]. simpl in E; tauto.
      + eexists; split; [reflexivity|]. cbn [map app pw_rest_vals oD2R option_map].
        rewrite ev_pw_open; reflexivity.
    - destruct E as [E1 E2]. destruct (IH b last E2) as [vars [H1 H2]].
      unfold tail_of, rtail_of in *. simpl map. simpl app.
      assert (NE : exists t r, map Some m ++ [last] = t :: r).
      { destruct m; simpl; eauto. }
      destruct NE as [t [r NE]].
      assert (NE' : map Some (map D2R m) ++ [oD2R last] = oD2R t :: map oD2R r).
      { pose proof (rtail_map m last) as RM. unfold tail_of, rtail_of in RM.
        rewrite <- RM, NE. reflexivity. }
      simpl pw_rest. rewrite NE in *. rewrite H1. simpl option_map.
      eexists; split; [reflexivity|].
      cbn [map]. rewrite H2, ev_pw_mid by (simpl in E1; exact E1).
      cbn [pw_rest_vals app]. rewrite NE'. reflexivity.
  Qed.
End PW.
Definition olist (o : option R) : list R := match o with Some c => [c] | None => [] end.

Ltac mm := unfold clip;
  repeat (match goal with |- context [Rmin ?a ?b] =>
            destruct (Rle_dec a b); [rewrite (Rmin_left a b) by lra | rewrite (Rmin_right a b) by lra] end);
  repeat (match goal with |- context [Rmax ?a ?b] =>
            destruct (Rle_dec a b); [rewrite (Rmax_right a b) by lra | rewrite (Rmax_left a b) by lra] end);
  lra.

Lemma clip_tele : forall x a b c, a <= b -> b <= c -> clip x a b + clip x b c = clip x a c.
Proof. intros; mm. Qed.
Lemma clip_open : forall x a b, a <= b -> clip x a b + Rmax 0 (x - b) = Rmax 0 (x - a).
Proof. intros; mm. Qed.
Lemma min_clip : forall x b c, b <= c -> Rmin x b + clip x b c = Rmin x c.
Proof. intros; mm. Qed.
Lemma min_open : forall x b, Rmin x b + Rmax 0 (x - b) = x.
Proof. intros; mm. Qed.
Lemma clip_below : forall x a b, x <= a -> clip x a b = 0.
Proof. intros; mm. Qed.
Lemma clip_inside : forall x a b, a <= x -> x <= b -> clip x a b = x - a.
Proof. intros; mm. Qed.
Lemma clip_above : forall x a b, a <= b -> b <= x -> clip x a b = b - a.
Proof. intros; mm. Qed.
Lemma open_below : forall x a, x <= a -> Rmax 0 (x - a) = 0.
Proof. intros; mm. Qed.
Lemma open_above : forall x a, a <= x -> Rmax 0 (x - a) = x - a.
Proof. intros; mm. Qed.

Lemma rtail_cons : forall b m last, rtail_of (b :: m) last = Some b :: rtail_of m last.
Proof. reflexivity. Qed.
Lemma rtail_nonempty : forall m last, exists t r, rtail_of m last = t :: r.
Proof. intros; unfold rtail_of; destruct m; simpl; eauto. Qed.

Lemma pw_rest_vals_cons : forall x a b m last,
  pw_rest_vals x a (rtail_of (b :: m) last) = clip x a b :: pw_rest_vals x b (rtail_of m last).
Proof.
  intros. rewrite rtail_cons. destruct (rtail_nonempty m last) as [t [r E]]. rewrite E. reflexivity.
Qed.
Lemma pw_rest_vals_nil : forall x a last,
  pw_rest_vals x a (rtail_of [] last) = [match last with Some c => clip x a c | None => Rmax 0 (x - a) end].
Proof. intros; destruct last; reflexivity. Qed.

Lemma sorted_head_last : forall a m c, StronglySorted Rle (a :: m ++ [c]) -> a <= c.
Proof.
  intros a m c H. inversion H as [|? ? _ F]; subst. rewrite Forall_forall in F.
  apply F. apply in_or_app; right; left; reflexivity.
Qed.
Lemma sorted_head_next : forall a b r, StronglySorted Rle (a :: b :: r) -> a <= b.
Proof. intros a b r H. inversion H as [|? ? _ F]; subst. inversion F; assumption. Qed.
Lemma sorted_tail : forall a r, StronglySorted Rle (a :: r) -> StronglySorted Rle r.
Proof. intros a r H; inversion H; assumption. Qed.

Lemma rsum_pw_rest : forall x m a last,
  StronglySorted Rle (a :: m ++ olist last) ->
  rsum (pw_rest_vals x a (rtail_of m last)) =
  match last with Some c => clip x a c | None => Rmax 0 (x - a) end.
Proof.
  induction m as [|b m IH]; intros a last S.
  - rewrite pw_rest_vals_nil. simpl. ring.
  - rewrite pw_rest_vals_cons. simpl rsum. change (fold_right Rplus 0) with rsum.
    pose proof (sorted_head_next _ _ _ S) as Hab.
    rewrite (IH b last (sorted_tail _ _ S)).
    destruct last as [c|].
    + apply clip_tele; [assumption|]. apply (sorted_head_last b m c). exact (sorted_tail _ _ S).
    + apply clip_open; assumption.
Qed.

Lemma dot_nil_r : forall bs, dot bs [] = 0.
Proof. destruct bs; reflexivity. Qed.

Lemma dot_pw_rest_zero : forall x m b last bs,
  x <= b -> StronglySorted Rle (b :: m ++ olist last) ->
  dot bs (pw_rest_vals x b (rtail_of m last)) = 0.
Proof.
  induction m as [|b' m IH]; intros b last bs Hx S.
  - rewrite pw_rest_vals_nil. destruct bs as [|v bs]; [reflexivity|]. simpl.
    destruct last as [c|]; [rewrite clip_below by assumption | rewrite open_below by assumption];
      rewrite dot_nil_r; ring.
  - rewrite pw_rest_vals_cons. destruct bs as [|v bs]; [reflexivity|]. simpl.
    rewrite clip_below by assumption.
    rewrite IH; [ring| |exact (sorted_tail _ _ S)].
    pose proof (sorted_head_next _ _ _ S). lra.
Qed.

(* ------------------------------------------------------------------ piecewise_function (generated) *)
Fixpoint pf_struct (x : R) (prev : option R) (l : list (option R)) (bs : list R) (total rest : R)
  : option R :=
  match bs with
  | [] => Some total
  | v :: bs' =>
      let nxt := match l with [] => None | t :: _ => t end in
      if negb (isSome nxt) then Some (total + v * rest)
      else if Rltb x (oget nxt) then Some (total + v * rest)
      else pf_struct x nxt (tl l) bs'
             (total + v * (oget nxt - (if negb (isSome prev) then 0 else oget prev))) (x - oget nxt)
  end.

Lemma nth_Z_app_at : forall (pre : list (option R)) t l,
  nth_Z None (pre ++ t :: l) (Z.of_nat (List.length pre)) = t.
Proof.
  intros. unfold nth_Z.
  destruct (Z.ltb_spec (Z.of_nat (List.length pre)) 0); [lia|].
  rewrite Nat2Z.id, app_nth2 by lia. rewrite Nat.sub_diag. reflexivity.
Qed.
Lemma nth_Z_app_next : forall (pre : list (option R)) t l,
  nth_Z None (pre ++ t :: l) (Z.of_nat (List.length pre) + 1) = match l with [] => None | u :: _ => u end.
Proof.
  intros. unfold nth_Z.
  destruct (Z.ltb_spec (Z.of_nat (List.length pre) + 1) 0); [lia|].
  replace (Z.to_nat (Z.of_nat (List.length pre) + 1)) with (S (List.length pre)) by lia.
  rewrite app_nth2 by lia. replace (S (List.length pre) - List.length pre)%nat with 1%nat by lia.
  destruct l; reflexivity.
Qed.

Lemma loop_struct : forall x bs pre prev l total rest,
  piecewise_function_loop x (pre ++ prev :: l) (enumerate_from (Z.of_nat (List.length pre)) bs) total rest
  = pf_struct x prev l bs total rest.
Proof.
  induction bs as [|v bs IH]; intros pre prev l total rest; [reflexivity|].
  cbn [enumerate_from piecewise_function_loop pf_struct].
  rewrite nth_Z_app_next, nth_Z_app_at.
  destruct l as [|t l']; [reflexivity|].
  destruct (negb (isSome t)); [reflexivity|].
  destruct (Rltb x (oget t)); [reflexivity|].
  cbn [tl].
  replace (pre ++ prev :: t :: l') with ((pre ++ [prev]) ++ t :: l') by (rewrite <- app_assoc; reflexivity).
  replace (Z.of_nat (List.length pre) + 1)%Z with (Z.of_nat (List.length (pre ++ [prev])))
    by (rewrite app_length; simpl; lia).
  apply IH.
Qed.

Lemma Rltb_true : forall a b, a < b -> Rltb a b = true.
Proof. intros; unfold Rltb; destruct (Rlt_dec a b); [reflexivity|contradiction]. Qed.
Lemma Rltb_false : forall a b, b <= a -> Rltb a b = false.
Proof. intros; unfold Rltb; destruct (Rlt_dec a b); [lra|reflexivity]. Qed.

Lemma pf_struct_some : forall x m a last bs total rest,
  a <= x -> rest = x - a ->
  StronglySorted Rle (a :: m ++ olist last) ->
  List.length bs = S (List.length m) ->
  pf_struct x (Some a) (rtail_of m last) bs total rest
  = Some (total + dot bs (pw_rest_vals x a (rtail_of m last))).
Proof.
  induction m as [|b m IH]; intros a last bs total rest Hx Hr S L.
  - destruct bs as [|v [|? ?]]; try discriminate. rewrite pw_rest_vals_nil.
    unfold rtail_of; cbn [map app pf_struct dot]. subst rest.
    destruct last as [c|]; cbn [isSome negb oget].
    + destruct (Rlt_dec x c) as [Hlt|Hge].
      * rewrite Rltb_true by assumption. rewrite clip_inside by lra. f_equal; ring.
      * rewrite Rltb_false by lra. cbn [tl pf_struct].
        pose proof (sorted_head_last a [] c S). rewrite clip_above by lra. f_equal; ring.
    + rewrite open_above by assumption. f_equal; ring.
  - destruct bs as [|v bs]; [discriminate|]. rewrite pw_rest_vals_cons, rtail_cons.
    cbn [pf_struct isSome negb oget tl dot]. subst rest.
    pose proof (sorted_head_next _ _ _ S) as Hab.
    destruct (Rlt_dec x b) as [Hlt|Hge].
    + rewrite Rltb_true by assumption. rewrite clip_inside by lra.
      rewrite dot_pw_rest_zero; [f_equal; ring|lra|exact (sorted_tail _ _ S)].
    + rewrite Rltb_false by lra.
      rewrite (IH b last bs _ (x - b)); [|lra|reflexivity|exact (sorted_tail _ _ S)|simpl in L; lia].
      rewrite clip_above by lra. f_equal; ring.
Qed.

Definition pw_total (x : R) (first last : option R) : R :=
  match first, last with
  | Some a, Some b => Rmax 0 (Rmin (x - a) (b - a))
  | Some a, None => Rmax 0 (x - a)
  | None, Some b => Rmin x b
  | None, None => x
  end.

Lemma tail_nonempty : forall m (last : option dyadic), exists t r, tail_of m last = t :: r.
Proof. intros; unfold tail_of; destruct m; simpl; eauto. Qed.

Lemma pv_some : forall v a mids last,
  piecewise_variables v (Some a :: tail_of mids last) = pw_rest v a (tail_of mids last).
Proof.
  intros v a [|b m] last.
  - destruct last; reflexivity.
  - unfold tail_of; cbn [map app]. fold (tail_of m last).
    destruct (tail_nonempty m last) as [t [r E]]. rewrite E. reflexivity.
Qed.

Lemma length_pw_rest_vals : forall x m a last,
  List.length (pw_rest_vals x a (rtail_of m last)) = S (List.length m).
Proof.
  induction m; intros.
  - rewrite pw_rest_vals_nil; reflexivity.
  - rewrite pw_rest_vals_cons; simpl; rewrite IHm; reflexivity.
Qed.

Lemma xsum_XR : forall ws, xsum (map XR ws) = XR (rsum ws).
Proof.
  intros ws. induction ws as [|w ws IH]; [reflexivity|].
  unfold xsum in *. simpl. rewrite IH. reflexivity.
Qed.

Section PW2.
  Variable Phi : R -> R.
  Variable en : env.
  Variable v : expr.
  Variable x : R.
  Hypothesis Hv : evalX Phi v en = XR x.
  Notation ev := (fun e => evalX Phi e en).

  Lemma pw_vars_ok : forall first mids last,
    ~ (first = None /\ mids = [] /\ last = None) ->
    exact_diffs (first :: tail_of mids last) ->
    exists vars, piecewise_variables v (first :: tail_of mids last) = Some vars /\
      map ev vars = map XR (pw_vals x (oD2R first) (rtail_of (map D2R mids) (oD2R last))).
  Proof.
    intros [a|] mids last NN E.
    - rewrite pv_some. cbn [oD2R option_map pw_vals].
      apply (pw_rest_vals_ok Phi en v x Hv mids a last E).
    - cbn [oD2R option_map pw_vals]. destruct mids as [|b m].
      + destruct last as [b|]; [|exfalso; apply NN; auto].
        eexists; split; [reflexivity|]. unfold rtail_of; cbn [map app option_map].
        rewrite (ev_pw_first_open Phi en v x Hv). reflexivity.
      + cbn [exact_diffs] in E.
        destruct (pw_rest_vals_ok Phi en v x Hv m b last) as [vars [H1 H2]].
        { unfold tail_of in *; cbn [map app] in E. exact E. }
        unfold tail_of in *; cbn [map app].
        destruct (tail_nonempty m last) as [t [r T]]. unfold tail_of in T. rewrite T in *.
        cbn [piecewise_variables]. rewrite H1. cbn [option_map].
        eexists; split; [reflexivity|]. cbn [map]. rewrite H2.
        rewrite (ev_pw_first_open Phi en v x Hv).
        rewrite rtail_cons. destruct (rtail_nonempty (map D2R m) (oD2R last)) as [t' [r' T']].
        rewrite T'. reflexivity.
  Qed.
End PW2.

Lemma rsum_pw_vals : forall x first mids last,
  ~ (first = None /\ mids = [] /\ last = None) ->
  StronglySorted Rle (olist first ++ mids ++ olist last) ->
  rsum (pw_vals x first (rtail_of mids last)) = pw_total x first last.
Proof.
  intros x [a|] mids last NN S.
  - cbn [pw_vals]. rewrite rsum_pw_rest by exact S. destruct last; reflexivity.
  - cbn [pw_vals olist app] in *. destruct mids as [|b m].
    + destruct last as [b|]; [|exfalso; apply NN; auto]. unfold rtail_of; simpl. ring.
    + rewrite rtail_cons. destruct (rtail_nonempty m last) as [t [r T]]. rewrite T, <- T.
      simpl rsum. change (fold_right Rplus 0) with rsum.
      rewrite rsum_pw_rest by exact S.
      destruct last as [c|]; cbn [pw_total].
      * apply min_clip. apply (sorted_head_last b m c). exact S.
      * apply min_open.
Qed.

(* T17a *)
Theorem piecewise_vars_sum : forall Phi en v x first mids last,
  evalX Phi v en = XR x ->
  ~ (first = None /\ mids = [] /\ last = None) ->
  exact_diffs (first :: tail_of mids last) ->
  StronglySorted Rle (olist (oD2R first) ++ map D2R mids ++ olist (oD2R last)) ->
  exists vars, piecewise_variables v (first :: tail_of mids last) = Some vars /\
    List.length vars = S (List.length mids) /\
    evalX Phi (EMultSum vars) en = XR (pw_total x (oD2R first) (oD2R last)).
Proof.
  intros Phi en v x first mids last Hv NN E S.
  destruct (pw_vars_ok Phi en v x Hv first mids last NN E) as [vars [H1 H2]].
  exists vars; split; [exact H1|]. split.
  - apply (f_equal (@List.length xval)) in H2. rewrite !map_length in H2. rewrite H2.
    destruct first as [a|]; cbn [oD2R option_map pw_vals].
    + rewrite length_pw_rest_vals, map_length; reflexivity.
    + destruct mids as [|b m].
      * destruct last; [reflexivity|exfalso; apply NN; auto].
      * cbn [map]. rewrite rtail_cons.
        destruct (rtail_nonempty (map D2R m) (oD2R last)) as [t [r T]]. rewrite T, <- T.
        cbn [List.length]. rewrite length_pw_rest_vals, map_length. reflexivity.
  - rewrite ev_multsum, H2, xsum_XR. f_equal. apply rsum_pw_vals; [|exact S].
    intros [A [B C]]. apply NN. destruct first; [discriminate|]. destruct last; [discriminate|].
    destruct mids; [auto|discriminate].
Qed.

(* ------------------------------------------------------------------ formula = function *)
Lemma ev_zip_times : forall Phi en betas bvs,
  Forall2 (fun b bv => evalX Phi b en = XR bv) betas bvs ->
  forall vars ws, map (fun e => evalX Phi e en) vars = map XR ws ->
  xsum (map (fun e => evalX Phi e en) (zip_times betas vars)) = XR (dot bvs ws).
Proof.
  intros Phi en betas bvs F. induction F as [|b bv betas bvs Hb F IH]; intros vars ws H.
  - reflexivity.
  - destruct vars as [|w vars]; destruct ws as [|wv ws]; try discriminate.
    + reflexivity.
    + cbn [map] in H. injection H as Hw Hr.
      cbn [zip_times map dot]. unfold xsum in *. cbn [fold_right].
      rewrite (IH vars ws Hr). rewrite ev_bin, Hb, Hw. reflexivity.
Qed.

Lemma forallb_none_false : forall first mids last,
  ~ (first = None /\ mids = [] /\ last = None) ->
  forallb (fun t : option R => negb (isSome t)) (first :: rtail_of mids last) = false.
Proof.
  intros [a|] mids last NN; [reflexivity|]. destruct mids as [|b m].
  - destruct last; [reflexivity|exfalso; apply NN; auto].
  - reflexivity.
Qed.

Lemma interior_ts : forall (first : option R) mids last,
  interior (first :: rtail_of mids last) = map Some mids.
Proof. intros; unfold interior, rtail_of; cbn [tl]. apply removelast_last. Qed.

Lemma existsb_some_false : forall mids : list R,
  existsb (fun t : option R => negb (isSome t)) (map Some mids) = false.
Proof. induction mids; simpl; auto. Qed.

Lemma F2_length : forall A B (P : A -> B -> Prop) l1 l2, Forall2 P l1 l2 -> List.length l1 = List.length l2.
Proof. intros A B P l1 l2 F; induction F; simpl; congruence. Qed.

Lemma loop_struct0 : forall x bs prev l total rest,
  piecewise_function_loop x (prev :: l) (enumerate bs) total rest = pf_struct x prev l bs total rest.
Proof. intros. exact (loop_struct x bs [] prev l total rest). Qed.

Lemma pw_function_ok : forall x first mids last bvs,
  ~ (first = None /\ mids = [] /\ last = None) ->
  StronglySorted Rle (olist first ++ mids ++ olist last) ->
  List.length bvs = S (List.length mids) ->
  piecewise_function x (first :: rtail_of mids last) bvs
  = Some (dot bvs (pw_vals x first (rtail_of mids last))).
Proof.
  intros x first mids last bvs NN S L. unfold piecewise_function.
  rewrite forallb_none_false by exact NN. rewrite interior_ts, existsb_some_false.
  assert (LL : (Z.of_nat (List.length bvs) =? Z.of_nat (List.length (first :: rtail_of mids last)) - 1)%Z = true).
  { apply Z.eqb_eq. unfold rtail_of. cbn [List.length]. rewrite app_length, map_length. cbn [List.length]. lia. }
  rewrite LL. cbn [negb].
  change (nth_Z None (first :: rtail_of mids last) 0) with first.
  destruct first as [a|]; cbn [isSome negb oget pw_vals olist app] in *.
  - destruct (Rlt_dec x a) as [Hlt|Hge].
    + rewrite Rltb_true by assumption. rewrite dot_pw_rest_zero; [reflexivity|lra|exact S].
    + rewrite Rltb_false by lra. rewrite loop_struct0.
      rewrite (pf_struct_some x mids a last bvs _ (x - a)); [|lra|reflexivity|exact S|exact L].
      f_equal. simpl. ring.
  - rewrite loop_struct0. destruct bvs as [|v bs]; [discriminate|].
    destruct mids as [|b m].
    + destruct last as [b|]; [|exfalso; apply NN; auto].
      destruct bs; [|discriminate]. unfold rtail_of; cbn [map app pf_struct isSome negb oget tl dot].
      destruct (Rlt_dec x b) as [Hlt|Hge].
      * rewrite Rltb_true by assumption. rewrite Rmin_left by lra. f_equal; simpl; ring.
      * rewrite Rltb_false by lra. rewrite Rmin_right by lra. f_equal; simpl; ring.
    + rewrite rtail_cons. destruct (rtail_nonempty m last) as [t [r T]]. rewrite T, <- T.
      cbn [pf_struct isSome negb oget tl dot].
      destruct (Rlt_dec x b) as [Hlt|Hge].
      * rewrite Rltb_true by assumption. rewrite Rmin_left by lra.
        rewrite dot_pw_rest_zero; [f_equal; simpl; ring|lra|exact S].
      * rewrite Rltb_false by lra. rewrite Rmin_right by lra.
        rewrite (pf_struct_some x m b last bs _ (x - b)); [|lra|reflexivity|exact S|simpl in L; lia].
        f_equal. simpl. ring.
Qed.

Lemma map_oD2R_ts : forall first mids last,
  map oD2R (first :: tail_of mids last) = oD2R first :: rtail_of (map D2R mids) (oD2R last).
Proof. intros; cbn [map]; rewrite rtail_map; reflexivity. Qed.

(* T17b *)
Theorem formula_equals_function : forall Phi en v x first mids last betas bvs,
  evalX Phi v en = XR x ->
  Forall2 (fun b bv => evalX Phi b en = XR bv) betas bvs ->
  List.length betas = S (List.length mids) ->
  ~ (first = None /\ mids = [] /\ last = None) ->
  exact_diffs (first :: tail_of mids last) ->
  StronglySorted Rle (olist (oD2R first) ++ map D2R mids ++ olist (oD2R last)) ->
  exists tree r,
    piecewise_formula v (first :: tail_of mids last) betas = Some tree /\
    evalX Phi tree en = XR r /\
    piecewise_function x (map oD2R (first :: tail_of mids last)) bvs = Some r.
Proof.
  intros Phi en v x first mids last betas bvs Hv F L NN E S.
  destruct (pw_vars_ok Phi en v x Hv first mids last NN E) as [vars [H1 H2]].
  exists (EMultSum (zip_times betas vars)).
  exists (dot bvs (pw_vals x (oD2R first) (rtail_of (map D2R mids) (oD2R last)))).
  split; [|split].
  - unfold piecewise_formula. rewrite H1.
    assert (LL : Nat.eqb (List.length betas) (List.length (first :: tail_of mids last) - 1) = true).
    { apply Nat.eqb_eq. unfold tail_of. cbn [List.length]. rewrite app_length, map_length. cbn [List.length]. lia. }
    rewrite LL. cbn [negb]. destruct betas; [discriminate|reflexivity].
  - rewrite ev_multsum. apply ev_zip_times; assumption.
  - rewrite map_oD2R_ts. apply pw_function_ok.
    + intros [A [B C]]. apply NN. destruct first; [discriminate|]. destruct last; [discriminate|].
      destruct mids; [auto|discriminate].
    + exact S.
    + rewrite <- (F2_length _ _ _ _ _ F), map_length. exact L.
Qed.

(* piecewise_as_variable = x_T1 + sum_{i>=2} beta_i x_Ti *)
Theorem as_variable_documented : forall Phi en v x first mids last betas bvs,
  evalX Phi v en = XR x ->
  Forall2 (fun b bv => evalX Phi b en = XR bv) betas bvs ->
  List.length betas = List.length mids -> mids <> [] ->
  exact_diffs (first :: tail_of mids last) ->
  exists tree,
    piecewise_as_variable v (first :: tail_of mids last) betas = Some tree /\
    evalX Phi tree en =
    XR (let ws := pw_vals x (oD2R first) (rtail_of (map D2R mids) (oD2R last)) in
        hd 0 ws + dot bvs (tl ws)).
Proof.
  intros Phi en v x first mids last betas bvs Hv F L NE E.
  assert (NN : ~ (first = None /\ mids = [] /\ last = None)) by tauto.
  destruct (pw_vars_ok Phi en v x Hv first mids last NN E) as [vars [H1 H2]].
  set (ws := pw_vals x (oD2R first) (rtail_of (map D2R mids) (oD2R last))) in *.
  destruct vars as [|v0 vars'].
  { exfalso. destruct mids as [|b m]; [tauto|]. subst ws.
    apply (f_equal (@List.length xval)) in H2. rewrite !map_length in H2. simpl in H2.
    destruct first; cbn [oD2R option_map pw_vals map] in H2.
    - rewrite pw_rest_vals_cons in H2; discriminate.
    - rewrite rtail_cons in H2.
      destruct (rtail_nonempty (map D2R m) (oD2R last)) as [t [r T]]. rewrite T in H2. discriminate. }
  destruct ws as [|w0 ws']; [discriminate|]. cbn [map] in H2. injection H2 as Hw0 Hws.
  exists (EBin Plus v0 (EMultSum (zip_times betas vars'))). split.
  - unfold piecewise_as_variable. rewrite H1.
    assert (LL : Nat.eqb (List.length betas) (List.length (first :: tail_of mids last) - 2) = true).
    { apply Nat.eqb_eq. unfold tail_of. cbn [List.length]. rewrite app_length, map_length. cbn [List.length]. lia. }
    rewrite LL. cbn [negb]. destruct betas; [|reflexivity].
    destruct mids; [tauto|discriminate].
  - rewrite ev_bin, ev_multsum, Hw0. rewrite (ev_zip_times Phi en betas bvs F vars' ws' Hws).
    reflexivity.
Qed.

(* ================================================================== boxcox.py *)
Lemma IZR_pow2 : forall k, (0 <= k)%Z -> IZR (2 ^ k) = powerRZ 2 k.
Proof.
  intros k Hk. rewrite <- (Z2Nat.id k Hk). rewrite <- pow_IZR, <- pow_powerRZ. reflexivity.
Qed.

Lemma dyadic_is_int_D2R : forall c n, dyadic_is_int c = Some n -> D2R c = IZR n.
Proof.
  intros [m e] n. unfold dyadic_is_int, D2R. cbn [fst snd].
  destruct (Z.leb_spec 0 e) as [He|He].
  - intros H; injection H as <-. rewrite mult_IZR, IZR_pow2 by assumption. reflexivity.
  - destruct (Z.eqb_spec (m mod 2 ^ (- e)) 0) as [Hm|Hm]; [|discriminate].
    intros H; injection H as <-.
    remember (- e)%Z as k eqn:Ek. assert (Ee : e = (- k)%Z) by lia. subst e.
    assert (P : (0 < 2 ^ k)%Z) by (apply Z.pow_pos_nonneg; lia).
    assert (Em : m = (2 ^ k * (m / 2 ^ k))%Z) by (apply Z.div_exact; lia).
    set (q := (m / 2 ^ k)%Z) in *.
    rewrite Em, mult_IZR, IZR_pow2 by lia. rewrite powerRZ_neg'.
    assert (powerRZ 2 k <> 0) by (apply powerRZ_NOR; lra).
    field; assumption.
Qed.

Lemma xpowc_pos : forall c r, 0 < r -> xpowc c (XR r) = XR (Rpower r (D2R c)).
Proof.
  intros c r Hr. unfold xpowc. destruct (dyadic_is_int c) as [n|] eqn:E.
  - rewrite (dyadic_is_int_D2R c n E), <- powerRZ_Rpower by assumption.
    destruct (0 <=? n)%Z; [reflexivity|]. rewrite Rnz_true by lra. reflexivity.
  - rewrite Rltb'_true by assumption. reflexivity.
Qed.

Lemma R2Z_IZR : forall z, R2Z (IZR z) = Some z.
Proof.
  intros z. unfold R2Z, Int_part.
  assert (U : up (IZR z) = (z + 1)%Z).
  { symmetry. apply tech_up; rewrite plus_IZR; lra. }
  rewrite U. replace (z + 1 - 1)%Z with z by lia.
  destruct (Req_EM_T (IZR z) (IZR z)); [reflexivity|contradiction].
Qed.
Lemma R2Z_0 : R2Z 0 = Some 0%Z. Proof. exact (R2Z_IZR 0). Qed.
Lemma R2Z_1 : R2Z 1 = Some 1%Z. Proof. exact (R2Z_IZR 1). Qed.
Lemma xelem2_0 : forall a b,
  xelem [0; 1]%Z [XR 0; a; b] = match a with XR v => XR v | _ => XNaN end.
Proof. intros; unfold xelem; rewrite R2Z_0; reflexivity. Qed.
Lemma xelem2_1 : forall a b,
  xelem [0; 1]%Z [XR 1; a; b] = match b with XR v => XR v | _ => XNaN end.
Proof. intros; unfold xelem; rewrite R2Z_1; reflexivity. Qed.

Definition bc_eps : R := D2R c_1em5.
Lemma D2R_pos : forall m e, (0 < m)%Z -> 0 < D2R (m, e).
Proof.
  intros m e H. unfold D2R; cbn [fst snd].
  apply Rmult_lt_0_compat; [apply IZR_lt; assumption | apply powerRZ_lt; lra].
Qed.
Lemma bc_eps_pos : 0 < bc_eps.
Proof. apply D2R_pos; reflexivity. Qed.
Lemma bc_eps_value : Rabs (bc_eps - 1 / 100000) <= 1 / 10 ^ 21.
Proof. unfold bc_eps, D2R, c_1em5; cbn [fst snd]. interval with (i_prec 120). Qed.

(* the k-th coefficient of the expansion of (x^l - 1)/l in powers of l *)
Definition bc_coeff (k : nat) (x : R) : R := ln x ^ (k + 1) / INR (fact (k + 1)).
Definition bc_series (x l : R) : R :=
  bc_coeff 0 x + bc_coeff 1 x * l + bc_coeff 2 x * l ^ 2 + bc_coeff 3 x * l ^ 3.
Definition bc_regular (x l : R) : R := (Rpower x l - 1) / l.
(* the value of the tree as a function of (x, l), x > 0 *)
Definition bc_value (x l : R) : R :=
  if Rlt_dec (- bc_eps) l then (if Rlt_dec l bc_eps then bc_series x l else bc_regular x l)
  else bc_regular x l.

Section BoxCox.
  Variable Phi : R -> R.
  Variable en : env.
  Variables x ell : expr.
  Variables vx vl : R.
  Hypothesis Hx : evalX Phi x en = XR vx.
  Hypothesis Hl : evalX Phi ell en = XR vl.
  Notation ev e := (evalX Phi e en) (only parsing).

  Lemma ev_bc_pw : 0 < vx ->
    ev (match ell with Node (HNum d) [] => EPowC x d | _ => EBin Power x ell end)
    = XR (Rpower vx vl).
  Proof.
    intros Hpos.
    assert (G : ev (EBin Power x ell) = XR (Rpower vx vl)).
    { rewrite ev_bin, Hx, Hl. cbn [xbin]. rewrite Rltb'_true by assumption. reflexivity. }
    destruct ell as [h k]. destruct h; try exact G. destruct k; try exact G.
    rewrite ev_powc, Hx, xpowc_pos by assumption.
    cbn in Hl. injection Hl as <-. reflexivity.
  Qed.

  Lemma ev_bc_close :
    ev (EBin Times (EBin Lt ell (ENumD c_1em5)) (EBin Gt ell (EUn UMinus (ENumD c_1em5))))
    = XR (b2R (Rltb' vl bc_eps) * b2R (Rltb' (- bc_eps) vl)).
  Proof. autorewrite with evx. rewrite Hl. reflexivity. Qed.

  Lemma ev_bc_series : 0 < vx ->
    ev (boxcox_series (EUn Log x) ell (EPowC ell (1%Z, 1%Z)) (EPowC ell (3%Z, 0%Z)))
    = XR (bc_series vx vl).
  Proof.
    intros Hpos. unfold boxcox_series. autorewrite with evx. rewrite Hx, Hl.
    cbn [xun]. rewrite Rltb'_true by assumption.
    cbn [xpowc dyadic_is_int Z.leb Z.mul Z.pow Z.pow_pos Pos.iter Pos.mul Z.compare xbin lift2].
    rewrite D2R_2, D2R_6, D2R_24. rewrite !Rnz_true by lra. cbn [lift2]. f_equal.
    unfold bc_series, bc_coeff. simpl. field.
  Qed.

  (* T17c: off the switching band the tree is (x^l - 1)/l *)
  Lemma boxcox_regular : 0 < vx -> (vl <= - bc_eps \/ bc_eps <= vl) ->
    ev (boxcox x ell) = XR ((Rpower vx vl - 1) / vl).
  Proof.
    intros Hpos Hband. pose proof bc_eps_pos as EP.
    unfold boxcox. rewrite ev_elem. cbn [map fst snd].
    rewrite ev_bin, Hx, ev_ENumZ, D2R_0. cbn [xbin lift2]. rewrite Reqb'_false by lra.
    cbn [b2R]. rewrite xelem2_0.
    rewrite ev_elem. cbn [map fst snd]. rewrite ev_bc_close.
    assert (K : b2R (Rltb' vl bc_eps) * b2R (Rltb' (- bc_eps) vl) = 0).
    { destruct Hband; [rewrite (Rltb'_false (- bc_eps) vl) by lra | rewrite (Rltb'_false vl bc_eps) by lra];
        simpl; ring. }
    rewrite K, xelem2_0.
    rewrite ev_bin, ev_bin, ev_bc_pw, Hl, ev_ENum, D2R_1 by assumption.
    cbn [xbin lift2]. rewrite Rnz_true by lra. reflexivity.
  Qed.

  (* T17d: inside the band the tree is the series with coefficients ln^(k+1) x / (k+1)! *)
  Lemma boxcox_series_coefficients : 0 < vx -> - bc_eps < vl < bc_eps ->
    ev (boxcox x ell) = XR (bc_series vx vl).
  Proof.
    intros Hpos Hband.
    unfold boxcox. rewrite ev_elem. cbn [map fst snd].
    rewrite ev_bin, Hx, ev_ENumZ, D2R_0. cbn [xbin lift2]. rewrite Reqb'_false by lra.
    cbn [b2R]. rewrite xelem2_0.
    rewrite ev_elem. cbn [map fst snd]. rewrite ev_bc_close.
    rewrite !Rltb'_true by lra. cbn [b2R]. rewrite Rmult_1_l, xelem2_1.
    rewrite ev_bc_series by assumption. reflexivity.
  Qed.

  Lemma boxcox_at_zero : vx = 0 -> ev (boxcox x ell) = XR 0.
  Proof.
    intros Hz. unfold boxcox. rewrite ev_elem. cbn [map fst snd].
    rewrite ev_bin, Hx, ev_ENumZ, D2R_0. cbn [xbin lift2]. rewrite Reqb'_true by assumption.
    cbn [b2R]. rewrite xelem2_1. reflexivity.
  Qed.

  (* both branches at once *)
  Lemma boxcox_value : 0 < vx -> ev (boxcox x ell) = XR (bc_value vx vl).
  Proof.
    intros Hpos. unfold bc_value.
    destruct (Rlt_dec (- bc_eps) vl); [destruct (Rlt_dec vl bc_eps)|].
    - apply boxcox_series_coefficients; [assumption|lra].
    - apply boxcox_regular; [assumption|lra].
    - apply boxcox_regular; [assumption|lra].
  Qed.
End BoxCox.

(* T17e: the limit of (x^l - 1)/l when l -> 0 is ln x *)
Lemma boxcox_limit : forall x, 0 < x -> is_lim (fun l => bc_regular x l) 0 (ln x).
Proof.
  intros x Hx. apply is_lim_spec. intros eps.
  assert (D : derivable_pt_lim (fun l => exp (l * ln x)) 0 (ln x)).
  { apply is_derive_Reals. auto_derive; [trivial|]. rewrite Rmult_0_l, exp_0. ring. }
  destruct (D eps (cond_pos eps)) as [delta Hd].
  exists delta. intros y By Hy.
  assert (Hy' : Rabs (y - 0) < delta) by exact By. rewrite Rminus_0_r in Hy'.
  specialize (Hd y Hy Hy'). rewrite Rplus_0_l, Rmult_0_l, exp_0 in Hd.
  unfold bc_regular, Rpower. exact Hd.
Qed.

Lemma bc_value_zero : forall x, bc_value x 0 = ln x.
Proof.
  intros x. pose proof bc_eps_pos. unfold bc_value.
  destruct (Rlt_dec (- bc_eps) 0); [|lra]. destruct (Rlt_dec 0 bc_eps); [|lra].
  unfold bc_series, bc_coeff. simpl. field.
Qed.

(* the value function of the tree is continuous in l at l = 0 *)
Lemma boxcox_continuous_at_zero : forall x, continuous (bc_value x) 0.
Proof.
  intros x. pose proof bc_eps_pos as EP.
  apply continuous_ext_loc with (g := bc_series x).
  - exists (mkposreal _ EP). intros l Bl.
    assert (Hl : Rabs (l - 0) < bc_eps) by exact Bl. rewrite Rminus_0_r in Hl.
    apply Rabs_def2 in Hl. unfold bc_value.
    destruct (Rlt_dec (- bc_eps) l); [|lra]. destruct (Rlt_dec l bc_eps); [|lra]. reflexivity.
  - apply (ex_derive_continuous (bc_series x) 0). unfold bc_series. auto_derive. trivial.
Qed.

Lemma boxcox_value_limit : forall x, is_lim (bc_value x) 0 (ln x).
Proof.
  intros x. rewrite <- (bc_value_zero x). apply is_lim_continuity.
  apply continuity_pt_filterlim. apply boxcox_continuous_at_zero.
Qed.

(* ================================================================== distributions.py *)
Definition k_sqrt2pi : R := D2R c_sqrt2pi.       (* the double 2.506628275 *)
Definition k_halflog2pi : R := D2R c_halflog2pi. (* the double 0.9189385332 *)

Lemma k_sqrt2pi_close : Rabs (k_sqrt2pi - sqrt (2 * PI)) <= 4 / 10 ^ 10.
Proof. unfold k_sqrt2pi, D2R, c_sqrt2pi; cbn [fst snd]. interval with (i_prec 80). Qed.
Lemma k_sqrt2pi_ratio : Rabs (sqrt (2 * PI) / k_sqrt2pi - 1) <= 2 / 10 ^ 10.
Proof. unfold k_sqrt2pi, D2R, c_sqrt2pi; cbn [fst snd]. interval with (i_prec 80). Qed.
Lemma k_sqrt2pi_pos : 0 < k_sqrt2pi.
Proof. apply D2R_pos; reflexivity. Qed.
Lemma k_halflog2pi_close : Rabs (k_halflog2pi - ln (2 * PI) / 2) <= 1 / 10 ^ 11.
Proof. unfold k_halflog2pi, D2R, c_halflog2pi; cbn [fst snd]. interval with (i_prec 80). Qed.
Lemma sqrt2pi_pos : 0 < sqrt (2 * PI).
Proof. apply sqrt_lt_R0. apply Rmult_lt_0_compat; [lra | apply PI_RGT_0]. Qed.

(* the normal density written with an arbitrary normalising constant c *)
Definition npdf_c (c m s x : R) : R := exp (- (x - m) * (x - m) / (2 * s * s)) / (s * c).
Definition normal_density (m s x : R) : R :=
  1 / (s * sqrt (2 * PI)) * exp (- ((x - m) ^ 2 / (2 * s ^ 2))).
Definition lognormal_density (m s x : R) : R :=
  if Rlt_dec 0 x then 1 / (x * s * sqrt (2 * PI)) * exp (- ((ln x - m) ^ 2 / (2 * s ^ 2))) else 0.
Definition uniform_density (a b x : R) : R :=
  if Rle_dec a x then (if Rle_dec x b then 1 / (b - a) else 0) else 0.
Definition triangular_density (a b c x : R) : R :=
  if Rlt_dec x a then 0
  else if Rlt_dec x c then 2 * (x - a) / ((b - a) * (c - a))
  else if Req_EM_T x c then 2 / (b - a)
  else if Rle_dec x b then 2 * (b - x) / ((b - a) * (b - c))
  else 0.
Definition logistic_cdf (m s x : R) : R := 1 / (1 + exp (- (x - m) / s)).
Definition logistic_density (m s x : R) : R :=
  exp (- (x - m) / s) / (s * (1 + exp (- (x - m) / s)) ^ 2).

Lemma npdf_textbook : forall m s x, s <> 0 -> npdf_c (sqrt (2 * PI)) m s x = normal_density m s x.
Proof.
  intros m s x Hs. pose proof sqrt2pi_pos. unfold npdf_c, normal_density.
  replace (- (x - m) * (x - m) / (2 * s * s)) with (- ((x - m) ^ 2 / (2 * s ^ 2))) by (field; assumption).
  field. split; lra.
Qed.

Lemma npdf_c_ratio : forall c m s x, s <> 0 -> c <> 0 ->
  npdf_c c m s x = normal_density m s x * (sqrt (2 * PI) / c).
Proof.
  intros c m s x Hs Hc. pose proof sqrt2pi_pos. rewrite <- npdf_textbook by assumption.
  unfold npdf_c. field. repeat split; lra.
Qed.

Lemma normal_density_pos : forall m s x, 0 < s -> 0 < normal_density m s x.
Proof.
  intros m s x Hs. pose proof sqrt2pi_pos. unfold normal_density.
  apply Rmult_lt_0_compat; [|apply exp_pos].
  apply Rdiv_lt_0_compat; [lra|]. apply Rmult_lt_0_compat; assumption.
Qed.

(* the tree's constant instead of sqrt(2 pi) changes the density by at most 2e-10, relatively *)
Lemma npdf_constant_error : forall m s x, 0 < s ->
  Rabs (npdf_c k_sqrt2pi m s x - normal_density m s x) <= 2 / 10 ^ 10 * normal_density m s x.
Proof.
  intros m s x Hs. pose proof k_sqrt2pi_pos as KP. pose proof (normal_density_pos m s x Hs) as DP.
  rewrite npdf_c_ratio by lra.
  replace (normal_density m s x * (sqrt (2 * PI) / k_sqrt2pi) - normal_density m s x)
    with (normal_density m s x * (sqrt (2 * PI) / k_sqrt2pi - 1)) by ring.
  rewrite Rabs_mult, (Rabs_pos_eq (normal_density m s x)) by lra.
  rewrite (Rmult_comm (2 / 10 ^ 10)). apply Rmult_le_compat_l; [lra|]. exact k_sqrt2pi_ratio.
Qed.

Lemma two_sq_nz : forall s, s <> 0 -> 2 * s * s <> 0.
Proof.
  intros s H E. apply H. assert (Q : s * s = 0) by lra.
  destruct (Rmult_integral _ _ Q); assumption.
Qed.

Section Dist.
  Variable Phi : R -> R.
  Variable en : env.
  Notation ev e := (evalX Phi e en) (only parsing).

  Section Three.
    Variables x mu s : expr.
    Variables vx vm vs : R.
    Hypothesis Hx : evalX Phi x en = XR vx.
    Hypothesis Hm : evalX Phi mu en = XR vm.
    Hypothesis Hs : evalX Phi s en = XR vs.

    Lemma normalpdf_tree : vs <> 0 -> ev (normalpdf x mu s) = XR (npdf_c k_sqrt2pi vm vs vx).
    Proof.
      intros Hnz. pose proof k_sqrt2pi_pos as KP. unfold normalpdf. autorewrite with evx.
      rewrite Hx, Hm, Hs. cbn [xbin xun lift1 lift2]. rewrite D2R_2.
      assert (N1 : 2 * vs * vs <> 0) by (apply two_sq_nz; assumption).
      rewrite (Rnz_true _ N1). cbn [xun].
      assert (N2 : vs * D2R c_sqrt2pi <> 0).
      { intro E; destruct (Rmult_integral _ _ E) as [E1|E1]; [contradiction|]. unfold k_sqrt2pi in KP. rewrite E1 in KP. exact (Rlt_irrefl _ KP). }
      rewrite (Rnz_true _ N2). reflexivity.
    Qed.

    Lemma lognormalpdf_tree : 0 < vx -> vs <> 0 ->
      ev (lognormalpdf x mu s) = XR (npdf_c k_sqrt2pi vm vs (ln vx) / vx).
    Proof.
      intros Hpos Hnz. pose proof k_sqrt2pi_pos as KP. unfold lognormalpdf. autorewrite with evx.
      rewrite Hx, Hm, Hs. cbn [xun]. rewrite Rltb'_true by assumption.
      cbn [xbin xun lift1 lift2]. rewrite D2R_2, D2R_0, Rltb'_true by assumption.
      assert (N1 : 2 * vs * vs <> 0) by (apply two_sq_nz; assumption).
      rewrite (Rnz_true _ N1). cbn [xun lift2 b2R].
      assert (N2 : vx * vs * D2R c_sqrt2pi <> 0).
      { intro E; destruct (Rmult_integral _ _ E) as [E1|E1].
        - destruct (Rmult_integral _ _ E1); [lra|contradiction].
        - unfold k_sqrt2pi in KP. rewrite E1 in KP. exact (Rlt_irrefl _ KP). }
      rewrite (Rnz_true _ N2). f_equal. unfold npdf_c, k_sqrt2pi. field.
      unfold k_sqrt2pi in KP. repeat split; lra.
    Qed.

    Lemma logisticcdf_tree : vs <> 0 -> ev (logisticcdf x mu s) = XR (logistic_cdf vm vs vx).
    Proof.
      intros Hnz. unfold logisticcdf. autorewrite with evx. rewrite Hx, Hm, Hs.
      cbn [xbin xun lift1 lift2]. rewrite (Rnz_true _ Hnz). cbn [xun lift2]. rewrite D2R_1.
      assert (N : 1 + exp (- (vx - vm) / vs) <> 0) by (pose proof (exp_pos (- (vx - vm) / vs)); lra).
      rewrite (Rnz_true _ N). reflexivity.
    Qed.

    (* loglikelihoodregression(meas = x, model = mu, sigma = s) *)
    Lemma regression_tree : vs <> 0 ->
      ev (loglikelihoodregression x mu s)
      = XR (- ((vx - vm) / vs) ^ 2 / 2 - ln (vs ^ 2) / 2 - k_halflog2pi).
    Proof.
      intros Hnz. unfold loglikelihoodregression. autorewrite with evx. rewrite Hx, Hm, Hs.
      cbn [xbin lift2]. rewrite (Rnz_true _ Hnz).
      cbn [xpowc dyadic_is_int Z.leb Z.mul Z.pow Z.pow_pos Pos.iter Pos.mul Z.compare xun lift1].
      assert (P : 0 < powerRZ vs 2).
      { simpl. rewrite Rmult_1_r. destruct (Rdichotomy _ _ Hnz); nra. }
      rewrite (Rltb'_true _ _ P). cbn [xbin lift2]. rewrite D2R_2. rewrite !Rnz_true by lra.
      cbn [lift2]. reflexivity.
    Qed.

    Lemma likelihoodregression_tree : vs <> 0 ->
      ev (likelihoodregression x mu s)
      = XR (exp (- ((vx - vm) / vs) ^ 2 / 2 - ln (vs ^ 2) / 2 - k_halflog2pi)).
    Proof.
      intros Hnz. unfold likelihoodregression. rewrite ev_exp, regression_tree by assumption.
      reflexivity.
    Qed.
  End Three.

  Section Unif.
    Variables x a b : expr.
    Variables vx va vb : R.
    Hypothesis Hx : evalX Phi x en = XR vx.
    Hypothesis Ha : evalX Phi a en = XR va.
    Hypothesis Hb : evalX Phi b en = XR vb.

    Lemma uniformpdf_tree : vb <> va -> ev (uniformpdf x a b) = XR (uniform_density va vb vx).
    Proof.
      intros Hne. unfold uniformpdf. autorewrite with evx. rewrite Hx, Ha, Hb.
      cbn [xbin lift2]. rewrite D2R_0. assert (N : vb - va <> 0) by lra. rewrite (Rnz_true _ N).
      f_equal. unfold uniform_density, Rltb', Rleb'.
      destruct (Rlt_dec vx va); destruct (Rlt_dec vb vx); destruct (Rle_dec va vx);
        destruct (Rle_dec vx vb); simpl; try lra; field; lra.
    Qed.
  End Unif.

  Section Tri.
    Variables x a b c : expr.
    Variables vx va vb vc : R.
    Hypothesis Hx : evalX Phi x en = XR vx.
    Hypothesis Ha : evalX Phi a en = XR va.
    Hypothesis Hb : evalX Phi b en = XR vb.
    Hypothesis Hc : evalX Phi c en = XR vc.

    Lemma triangularpdf_tree : va < vc < vb ->
      ev (triangularpdf x a b c) = XR (triangular_density va vb vc vx).
    Proof.
      intros Hord. unfold triangularpdf. rewrite ev_multsum. cbn [map].
      autorewrite with evx. rewrite Hx, Ha, Hb, Hc.
      cbn [xbin lift2]. rewrite D2R_0, D2R_2.
      assert (N1 : (vb - va) * (vc - va) <> 0) by (apply Rmult_integral_contrapositive_currified; lra).
      assert (N2 : vb - va <> 0) by lra.
      assert (N3 : (vb - va) * (vb - vc) <> 0) by (apply Rmult_integral_contrapositive_currified; lra).
      rewrite (Rnz_true _ N1), (Rnz_true _ N2), (Rnz_true _ N3).
      unfold xsum. cbn [fold_right lift2]. f_equal.
      unfold triangular_density, Rltb', Rleb', Reqb'.
      destruct (Rlt_dec vx va); destruct (Rlt_dec vx vc); destruct (Rlt_dec vc vx);
        destruct (Rlt_dec vb vx); destruct (Rle_dec va vx); destruct (Rle_dec vx vb);
        destruct (Req_EM_T vx vc); simpl; try lra; field; lra.
    Qed.
  End Tri.
End Dist.

Lemma ln_sqrt' : forall y, 0 < y -> ln (sqrt y) = ln y / 2.
Proof.
  intros y Hy. assert (S : 0 < sqrt y) by (apply sqrt_lt_R0; assumption).
  assert (E : ln y = ln (sqrt y) + ln (sqrt y)).
  { rewrite <- ln_mult by assumption. rewrite sqrt_sqrt by lra. reflexivity. }
  lra.
Qed.

(* T17h: the regression log likelihood is the log of the normal density (up to the rounding of
   the constant 0.9189385332 ~ ln(2 pi)/2) *)
Lemma regression_is_normal_logdensity : forall y m s, 0 < s ->
  Rabs ((- ((y - m) / s) ^ 2 / 2 - ln (s ^ 2) / 2 - k_halflog2pi) - ln (normal_density m s y))
  <= 1 / 10 ^ 11.
Proof.
  intros y m s Hs. pose proof sqrt2pi_pos as SP.
  assert (E : ln (normal_density m s y) = - ln s - ln (2 * PI) / 2 - ((y - m) / s) ^ 2 / 2).
  { unfold normal_density. rewrite ln_mult; [|apply Rdiv_lt_0_compat; [lra|apply Rmult_lt_0_compat; lra]|apply exp_pos].
    rewrite ln_exp. unfold Rdiv at 1. rewrite Rmult_1_l, ln_Rinv by (apply Rmult_lt_0_compat; lra).
    rewrite ln_mult by lra. rewrite ln_sqrt' by (apply Rmult_lt_0_compat; [lra|apply PI_RGT_0]).
    field. lra. }
  rewrite E. replace (ln (s ^ 2)) with (2 * ln s).
  2:{ replace (s ^ 2) with (s * s) by ring. rewrite ln_mult by assumption. ring. }
  match goal with |- Rabs ?t <= _ => replace t with (- (k_halflog2pi - ln (2 * PI) / 2)) by (field; lra) end.
  rewrite Rabs_Ropp. exact k_halflog2pi_close.
Qed.

(* ================================================================== integrals and limits *)
(* T17g (uniform): the density integrates to one over any interval containing [a, b] *)
Lemma uniform_integrates_to_one : forall a b lo hi, a < b -> lo <= a -> b <= hi ->
  is_RInt (uniform_density a b) lo hi 1.
Proof.
  intros a b lo hi Hab Hlo Hhi.
  assert (I1 : is_RInt (uniform_density a b) lo a (scal (a - lo) 0)).
  { apply is_RInt_ext with (f := fun _ => 0); [|apply @is_RInt_const].
    intros x Hx. rewrite Rmin_left, Rmax_right in Hx by lra. unfold uniform_density.
    destruct (Rle_dec a x); [lra|reflexivity]. }
  assert (I2 : is_RInt (uniform_density a b) a b (scal (b - a) (1 / (b - a)))).
  { apply is_RInt_ext with (f := fun _ => 1 / (b - a)); [|apply @is_RInt_const].
    intros x Hx. rewrite Rmin_left, Rmax_right in Hx by lra. unfold uniform_density.
    destruct (Rle_dec a x); [|lra]. destruct (Rle_dec x b); [reflexivity|lra]. }
  assert (I3 : is_RInt (uniform_density a b) b hi (scal (hi - b) 0)).
  { apply is_RInt_ext with (f := fun _ => 0); [|apply @is_RInt_const].
    intros x Hx. rewrite Rmin_left, Rmax_right in Hx by lra. unfold uniform_density.
    destruct (Rle_dec a x); [|reflexivity]. destruct (Rle_dec x b); [lra|reflexivity]. }
  pose proof (is_RInt_Chasles _ _ _ _ _ _ I1 (is_RInt_Chasles _ _ _ _ _ _ I2 I3)) as I.
  replace 1 with (plus (scal (a - lo) 0) (plus (scal (b - a) (1 / (b - a))) (scal (hi - b) 0))); [exact I|].
  unfold plus, scal; simpl. unfold mult; simpl. field. lra.
Qed.

Lemma linear_piece_RInt : forall (k p u w : R),
  is_RInt (fun x => k * (x - p)) u w (k * (w - p) ^ 2 / 2 - k * (u - p) ^ 2 / 2).
Proof.
  intros k p u w.
  apply (is_RInt_derive (fun x => k * (x - p) ^ 2 / 2) (fun x => k * (x - p))).
  - intros x _. auto_derive; [trivial|]. field.
  - intros x _. apply (ex_derive_continuous (fun x => k * (x - p)) x). auto_derive. trivial.
Qed.

Lemma tri_piece1 : forall a b c x, a < c < b -> a < x < c ->
  2 / ((b - a) * (c - a)) * (x - a) = triangular_density a b c x.
Proof.
  intros a b c x H1 H2. unfold triangular_density.
  destruct (Rlt_dec x a); [lra|]. destruct (Rlt_dec x c); [|lra]. field. lra.
Qed.
Lemma tri_piece2 : forall a b c x, a < c < b -> c < x < b ->
  - 2 / ((b - a) * (b - c)) * (x - b) = triangular_density a b c x.
Proof.
  intros a b c x H1 H2. unfold triangular_density.
  destruct (Rlt_dec x a); [lra|]. destruct (Rlt_dec x c); [lra|].
  destruct (Req_EM_T x c); [lra|]. destruct (Rle_dec x b); [|lra]. field. lra.
Qed.

(* T17g (triangular) *)
Lemma triangular_integrates_to_one : forall a b c lo hi, a < c < b -> lo <= a -> b <= hi ->
  is_RInt (triangular_density a b c) lo hi 1.
Proof.
  intros a b c lo hi [Hac Hcb] Hlo Hhi.
  assert (I1 : is_RInt (triangular_density a b c) lo a (scal (a - lo) 0)).
  { apply is_RInt_ext with (f := fun _ => 0); [|apply @is_RInt_const].
    intros x Hx. rewrite Rmin_left, Rmax_right in Hx by lra. unfold triangular_density.
    destruct (Rlt_dec x a); [reflexivity|lra]. }
  assert (I2 : is_RInt (triangular_density a b c) a c
                 (2 / ((b - a) * (c - a)) * (c - a) ^ 2 / 2 - 2 / ((b - a) * (c - a)) * (a - a) ^ 2 / 2)).
  { apply is_RInt_ext with (f := fun x => 2 / ((b - a) * (c - a)) * (x - a)); [|apply linear_piece_RInt].
    intros x Hx. rewrite Rmin_left, Rmax_right in Hx by lra. apply tri_piece1; lra. }
  assert (I3 : is_RInt (triangular_density a b c) c b
                 (- 2 / ((b - a) * (b - c)) * (b - b) ^ 2 / 2 - - 2 / ((b - a) * (b - c)) * (c - b) ^ 2 / 2)).
  { apply is_RInt_ext with (f := fun x => - 2 / ((b - a) * (b - c)) * (x - b)); [|apply linear_piece_RInt].
    intros x Hx. rewrite Rmin_left, Rmax_right in Hx by lra. apply tri_piece2; lra. }
  assert (I4 : is_RInt (triangular_density a b c) b hi (scal (hi - b) 0)).
  { apply is_RInt_ext with (f := fun _ => 0); [|apply @is_RInt_const].
    intros x Hx. rewrite Rmin_left, Rmax_right in Hx by lra. unfold triangular_density.
    destruct (Rlt_dec x a); [lra|]. destruct (Rlt_dec x c); [lra|].
    destruct (Req_EM_T x c); [lra|]. destruct (Rle_dec x b); [lra|reflexivity]. }
  pose proof (is_RInt_Chasles _ _ _ _ _ _ I1
               (is_RInt_Chasles _ _ _ _ _ _ I2 (is_RInt_Chasles _ _ _ _ _ _ I3 I4))) as I.
  match type of I with is_RInt _ _ _ ?v => replace 1 with v; [exact I|] end.
  unfold plus, scal; simpl. unfold mult; simpl. field. lra.
Qed.

(* T17g (logistic): the CDF has derivative = the logistic density, limits 0 and 1 *)
Lemma logistic_derivative : forall m s x, s <> 0 ->
  is_derive (logistic_cdf m s) x (logistic_density m s x).
Proof.
  intros m s x Hs. pose proof (exp_pos (- (x - m) / s)) as EP.
  unfold logistic_cdf, logistic_density. auto_derive.
  - unfold Rminus, Rdiv in EP. lra.
  - unfold Rminus, Rdiv in *. field. split; lra.
Qed.

Lemma logistic_limit_p : forall m s, 0 < s -> is_lim (logistic_cdf m s) p_infty 1.
Proof.
  intros m s Hs. apply is_lim_spec. intros eps. exists (m - s * ln eps). intros y Hy.
  unfold logistic_cdf. set (e := exp (- (y - m) / s)).
  assert (EP : 0 < e) by apply exp_pos.
  assert (EL : e < eps).
  { unfold e. rewrite <- (exp_ln eps) by apply cond_pos. apply exp_increasing.
    apply Rmult_lt_reg_r with s; [assumption|]. unfold Rdiv. rewrite Rmult_assoc, Rinv_l by lra. lra. }
  replace (1 / (1 + e) - 1) with (- (e / (1 + e))) by (field; lra).
  rewrite Rabs_Ropp, Rabs_pos_eq.
  - apply Rle_lt_trans with e; [|assumption].
    apply Rmult_le_reg_r with (1 + e); [lra|]. unfold Rdiv. rewrite Rmult_assoc, Rinv_l by lra. nra.
  - apply Rlt_le, Rdiv_lt_0_compat; lra.
Qed.

Lemma logistic_limit_m : forall m s, 0 < s -> is_lim (logistic_cdf m s) m_infty 0.
Proof.
  intros m s Hs. apply is_lim_spec. intros eps. exists (m + s * ln eps). intros y Hy.
  unfold logistic_cdf. set (e := exp (- (y - m) / s)).
  assert (EP : 0 < e) by apply exp_pos.
  assert (EL : / eps < e).
  { unfold e. rewrite <- (exp_ln eps) by apply cond_pos. rewrite <- exp_Ropp. apply exp_increasing.
    apply Rmult_lt_reg_r with s; [assumption|]. unfold Rdiv. rewrite Rmult_assoc, Rinv_l by lra. lra. }
  rewrite Rminus_0_r, Rabs_pos_eq by (apply Rlt_le, Rdiv_lt_0_compat; lra).
  pose proof (cond_pos eps) as EPS.
  apply Rmult_lt_reg_r with (1 + e); [lra|]. unfold Rdiv. rewrite Rmult_assoc, Rinv_l by lra.
  assert (1 < eps * e).
  { apply Rmult_lt_reg_l with (/ eps); [apply Rinv_0_lt_compat; assumption|].
    rewrite <- Rmult_assoc, Rinv_l by lra. lra. }
  nra.
Qed.

(* ------------------------------------------------------------------ normal / lognormal (partial)
   The Gaussian integral enters as hypotheses on a function Phi: it is an antiderivative of the
   standard normal density and tends to 0 and 1 at -oo and +oo.  (Equivalent to
   int exp(-t^2/2) dt = sqrt(2 pi); not proved here.) *)
Section Gauss.
  Variable Phi : R -> R.
  Hypothesis Phi_derive : forall z, is_derive Phi z (exp (- (z ^ 2 / 2)) / sqrt (2 * PI)).
  Hypothesis Phi_p : is_lim Phi p_infty 1.
  Hypothesis Phi_m : is_lim Phi m_infty 0.

  Lemma normal_antiderivative : forall m s x, 0 < s ->
    is_derive (fun t => Phi ((t - m) / s)) x (normal_density m s x).
  Proof.
    intros m s x Hs. pose proof sqrt2pi_pos as SP.
    evar_last.
    - apply (is_derive_comp Phi (fun t => (t - m) / s)).
      + apply Phi_derive.
      + auto_derive; [trivial|reflexivity].
    - unfold normal_density, scal; simpl; unfold mult; simpl.
      match goal with |- _ * (exp ?a / _) = _ * exp ?b => replace a with b by (field; lra) end.
      field. split; lra.
  Qed.

  Lemma normal_density_continuous : forall m s x, 0 < s -> continuous (normal_density m s) x.
  Proof.
    intros m s x Hs. pose proof sqrt2pi_pos as SP.
    apply (ex_derive_continuous (normal_density m s) x). unfold normal_density. auto_derive.
    repeat split; trivial; try lra; try (apply Rgt_not_eq; nra).
  Qed.

  Lemma normal_integral : forall m s lo hi, 0 < s ->
    is_RInt (normal_density m s) lo hi (Phi ((hi - m) / s) - Phi ((lo - m) / s)).
  Proof.
    intros m s lo hi Hs.
    apply (is_RInt_derive (fun t => Phi ((t - m) / s)) (normal_density m s)).
    - intros x _. apply normal_antiderivative; assumption.
    - intros x _. apply normal_density_continuous; assumption.
  Qed.

  (* T17g (normal, partial): the integral over [lo, hi] tends to 1 *)
  Theorem normal_integrates_to_one_partial : forall m s, 0 < s ->
    forall eps : posreal, exists M, forall lo hi, lo < - M -> M < hi ->
      Rabs (RInt (normal_density m s) lo hi - 1) < eps.
  Proof.
    intros m s Hs eps. pose proof (cond_pos eps) as EP.
    apply is_lim_spec in Phi_p. apply is_lim_spec in Phi_m.
    destruct (Phi_p (mkposreal (eps / 2) ltac:(lra))) as [Mp Hp].
    destruct (Phi_m (mkposreal (eps / 2) ltac:(lra))) as [Mm Hm]. simpl in Hp, Hm.
    exists (Rmax (Rabs (m + s * Mp)) (Rabs (m + s * Mm))). intros lo hi Hlo Hhi.
    rewrite (is_RInt_unique _ _ _ _ (normal_integral m s lo hi Hs)).
    assert (A : Mp < (hi - m) / s).
    { apply Rmult_lt_reg_r with s; [assumption|]. unfold Rdiv. rewrite Rmult_assoc, Rinv_l by lra.
      pose proof (Rmax_l (Rabs (m + s * Mp)) (Rabs (m + s * Mm))). pose proof (Rle_abs (m + s * Mp)). lra. }
    assert (B : (lo - m) / s < Mm).
    { apply Rmult_lt_reg_r with s; [assumption|]. unfold Rdiv. rewrite Rmult_assoc, Rinv_l by lra.
      pose proof (Rmax_r (Rabs (m + s * Mp)) (Rabs (m + s * Mm))).
      pose proof (Rle_abs (- (m + s * Mm))). rewrite Rabs_Ropp in H0. lra. }
    specialize (Hp _ A). specialize (Hm _ B). rewrite Rminus_0_r in Hm.
    replace (Phi ((hi - m) / s) - Phi ((lo - m) / s) - 1)
      with ((Phi ((hi - m) / s) - 1) + - Phi ((lo - m) / s)) by ring.
    eapply Rle_lt_trans; [apply Rabs_triang|]. rewrite Rabs_Ropp. lra.
  Qed.

  (* lognormal: antiderivative Phi((ln x - m)/s) on x > 0 *)
  Lemma lognormal_antiderivative : forall m s x, 0 < s -> 0 < x ->
    is_derive (fun t => Phi ((ln t - m) / s)) x (lognormal_density m s x).
  Proof.
    intros m s x Hs Hx. pose proof sqrt2pi_pos as SP.
    evar_last.
    - apply (is_derive_comp Phi (fun t => (ln t - m) / s)).
      + apply Phi_derive.
      + auto_derive; [assumption|reflexivity].
    - unfold lognormal_density. destruct (Rlt_dec 0 x); [|contradiction].
      unfold scal; simpl; unfold mult; simpl.
      match goal with |- _ * (exp ?a / _) = _ * exp ?b => replace a with b by (field; lra) end.
      field. repeat split; lra.
  Qed.

  Lemma lognormal_density_continuous : forall m s x, 0 < s -> 0 < x ->
    continuous (lognormal_density m s) x.
  Proof.
    intros m s x Hs Hx. pose proof sqrt2pi_pos as SP.
    apply continuous_ext_loc with
      (g := fun x => 1 / (x * s * sqrt (2 * PI)) * exp (- ((ln x - m) ^ 2 / (2 * s ^ 2)))).
    - exists (mkposreal x Hx). intros y By.
      assert (Hy : Rabs (y - x) < x) by exact By. apply Rabs_def2 in Hy.
      unfold lognormal_density. destruct (Rlt_dec 0 y); [reflexivity|lra].
    - apply (ex_derive_continuous
               (fun x => 1 / (x * s * sqrt (2 * PI)) * exp (- ((ln x - m) ^ 2 / (2 * s ^ 2)))) x).
      auto_derive. repeat split; trivial; try lra; try (apply Rgt_not_eq; nra);
        try (apply Rgt_not_eq; apply Rmult_lt_0_compat; [apply Rmult_lt_0_compat|]; lra).
  Qed.

  Theorem lognormal_integral_partial : forall m s lo hi, 0 < s -> 0 < lo -> lo <= hi ->
    is_RInt (lognormal_density m s) lo hi (Phi ((ln hi - m) / s) - Phi ((ln lo - m) / s)).
  Proof.
    intros m s lo hi Hs Hlo Hhi.
    apply (is_RInt_derive (fun t => Phi ((ln t - m) / s)) (lognormal_density m s)).
    - intros x Hx. rewrite Rmin_left in Hx by assumption.
      apply lognormal_antiderivative; [assumption|lra].
    - intros x Hx. rewrite Rmin_left in Hx by assumption.
      apply lognormal_density_continuous; [assumption|lra].
  Qed.
End Gauss.

(* ================================================================== segmentation.py *)
Open Scope string_scope.
Definition seg_keep (ref : string) (vc : Z * string) : bool := negb (String.eqb (snd vc) ref).

(* sum of the shifts of one segmentation, given the value xval of its variable *)
Definition seg_shift (bv : string -> R) (bname : string) (s : seg_tuple) (ref : string) (xval : R) : R :=
  rsum (map (fun vc : Z * string => bv (bname ++ "_" ++ snd vc) * b2R (Reqb' xval (IZR (fst vc))))
            (filter (seg_keep ref) (sg_map s))).

Fixpoint seg_total (bv xv : string -> R) (bname : string) (segs : list seg_tuple) : R :=
  match segs with
  | [] => 0
  | s :: r => match seg_reference s with
              | Some ref => seg_shift bv bname s ref (xv (sg_var s))
              | None => 0
              end + seg_total bv xv bname r
  end.

Lemma rsum_app : forall l1 l2, rsum (l1 ++ l2) = rsum l1 + rsum l2.
Proof. induction l1; intros; simpl; [ring|]. unfold rsum in *. rewrite IHl1. ring. Qed.

Section Seg.
  Variable Phi : R -> R.
  Variable en : env.
  Variables bv xv : string -> R.
  Hypothesis HB : forall n, e_beta en n = Some (bv n).
  Hypothesis HV : forall n, e_var en n = Some (xv n).
  Variable bname : string.
  Variable fixed : bool.

  Lemma ev_seg_terms : forall s ref,
    map (fun e => evalX Phi e en) (seg_terms bname fixed s ref)
    = map XR (map (fun vc : Z * string => bv (bname ++ "_" ++ snd vc) * b2R (Reqb' (xv (sg_var s)) (IZR (fst vc))))
                  (filter (seg_keep ref) (sg_map s))).
  Proof.
    intros s ref. unfold seg_terms. fold (seg_keep ref).
    induction (filter (seg_keep ref) (sg_map s)) as [|vc l IH]; [reflexivity|].
    cbn [map]. rewrite IH. f_equal.
    autorewrite with evx. rewrite HB, HV. unfold ENumI. rewrite ev_num, D2R_ENumI. reflexivity.
  Qed.

  Lemma ev_seg_all : forall segs l,
    seg_all_terms bname fixed segs = Some l ->
    exists ws, map (fun e => evalX Phi e en) l = map XR ws /\ rsum ws = seg_total bv xv bname segs.
  Proof.
    induction segs as [|s r IH]; intros l H.
    - injection H as <-. exists []. split; reflexivity.
    - cbn [seg_all_terms] in H. destruct (seg_reference s) as [ref|] eqn:ER; [|discriminate].
      destruct (seg_all_terms bname fixed r) as [l'|] eqn:EL; [|discriminate].
      injection H as <-. destruct (IH l' eq_refl) as [ws [H1 H2]].
      eexists. split.
      + rewrite map_app, ev_seg_terms, H1, <- map_app. reflexivity.
      + rewrite rsum_app, H2. cbn [seg_total]. rewrite ER. reflexivity.
  Qed.

  (* the segmented parameter is beta_ref + the sum over the segmentations of their shifts *)
  Theorem segmented_beta_value : forall segs tree,
    segmented_beta bname fixed segs = Some tree ->
    evalX Phi tree en = XR (bv bname + seg_total bv xv bname segs).
  Proof.
    intros segs tree H. unfold segmented_beta in H.
    destruct (seg_all_terms bname fixed segs) as [l|] eqn:EL; [|discriminate].
    injection H as <-. destruct (ev_seg_all segs l EL) as [ws [H1 H2]].
    rewrite ev_multsum. cbn [map]. rewrite H1, ev_beta, HB. cbn [of_opt].
    change (XR (bv bname) :: map XR ws) with (map XR (bv bname :: ws)).
    rewrite xsum_XR. cbn [rsum fold_right]. fold (rsum ws). rewrite H2. reflexivity.
  Qed.
End Seg.

(* what one shift is, for distinct segment values: beta_k in segment k, 0 in the reference
   segment and for a value that is not a key of the mapping *)
Lemma seg_pick_zero : forall (g : Z * string -> R) p (M : list (Z * string)) vk,
  ~ In vk (map fst M) ->
  rsum (map (fun vc => g vc * b2R (Reqb' (IZR vk) (IZR (fst vc)))) (filter p M)) = 0.
Proof.
  induction M as [|[v c] M IH]; intros vk NI; [reflexivity|].
  cbn [filter]. assert (v <> vk) by (intro; apply NI; left; assumption).
  assert (NI' : ~ In vk (map fst M)) by (intro; apply NI; right; assumption).
  destruct (p (v, c)); [|apply IH; assumption].
  cbn [map rsum fold_right fst]. fold (rsum (map (fun vc => g vc * b2R (Reqb' (IZR vk) (IZR (fst vc)))) (filter p M))).
  rewrite IH by assumption. rewrite Reqb'_false by (intro E; apply eq_IZR in E; congruence).
  simpl. ring.
Qed.

Lemma seg_pick : forall (g : Z * string -> R) p (M : list (Z * string)) vk ck,
  NoDup (map fst M) -> In (vk, ck) M ->
  rsum (map (fun vc => g vc * b2R (Reqb' (IZR vk) (IZR (fst vc)))) (filter p M))
  = if p (vk, ck) then g (vk, ck) else 0.
Proof.
  induction M as [|[v c] M IH]; intros vk ck ND HI; [contradiction|].
  cbn [map fst] in ND. inversion ND as [|? ? NI ND']; subst.
  destruct HI as [E|HI].
  - injection E as -> ->. cbn [filter]. destruct (p (vk, ck)).
    + cbn [map rsum fold_right fst].
      fold (rsum (map (fun vc => g vc * b2R (Reqb' (IZR vk) (IZR (fst vc)))) (filter p M))).
      rewrite seg_pick_zero by assumption. rewrite Reqb'_true by reflexivity. simpl. ring.
    + apply seg_pick_zero; assumption.
  - assert (v <> vk).
    { intro; subst. apply NI. change vk with (fst (vk, ck)). apply in_map. assumption. }
    cbn [filter]. destruct (p (v, c)); [|apply IH; assumption].
    cbn [map rsum fold_right fst].
    fold (rsum (map (fun vc => g vc * b2R (Reqb' (IZR vk) (IZR (fst vc)))) (filter p M))).
    rewrite (IH vk ck ND' HI). rewrite Reqb'_false by (intro E; apply eq_IZR in E; congruence).
    simpl. ring.
Qed.

(* T17i *)
Theorem segmentation_value : forall Phi en bv xv bname fixed s ref vk ck,
  (forall n, e_beta en n = Some (bv n)) -> (forall n, e_var en n = Some (xv n)) ->
  NoDup (map fst (sg_map s)) -> seg_reference s = Some ref ->
  xv (sg_var s) = IZR vk -> In (vk, ck) (sg_map s) ->
  exists tree, segmented_beta bname fixed [s] = Some tree /\
    evalX Phi tree en =
    XR (if String.eqb ck ref then bv bname else bv bname + bv (bname ++ "_" ++ ck)).
Proof.
  intros Phi en bv xv bname fixed s ref vk ck HB HV ND ER EX HI.
  unfold segmented_beta. cbn [seg_all_terms]. rewrite ER.
  eexists; split; [reflexivity|].
  rewrite (segmented_beta_value Phi en bv xv HB HV bname fixed [s] _) by
    (unfold segmented_beta; cbn [seg_all_terms]; rewrite ER; reflexivity).
  f_equal. cbn [seg_total]. rewrite ER. unfold seg_shift. rewrite EX.
  rewrite (seg_pick (fun vc => bv (bname ++ "_" ++ snd vc)) (seg_keep ref) (sg_map s) vk ck ND HI).
  unfold seg_keep. cbn [snd]. destruct (String.eqb ck ref); simpl; ring.
Qed.

Theorem segmentation_value_other : forall Phi en bv xv bname fixed s ref vk,
  (forall n, e_beta en n = Some (bv n)) -> (forall n, e_var en n = Some (xv n)) ->
  seg_reference s = Some ref -> xv (sg_var s) = IZR vk -> ~ In vk (map fst (sg_map s)) ->
  exists tree, segmented_beta bname fixed [s] = Some tree /\ evalX Phi tree en = XR (bv bname).
Proof.
  intros Phi en bv xv bname fixed s ref vk HB HV ER EX NI.
  unfold segmented_beta. cbn [seg_all_terms]. rewrite ER.
  eexists; split; [reflexivity|].
  rewrite (segmented_beta_value Phi en bv xv HB HV bname fixed [s] _) by
    (unfold segmented_beta; cbn [seg_all_terms]; rewrite ER; reflexivity).
  f_equal. cbn [seg_total]. rewrite ER. unfold seg_shift. rewrite EX.
  rewrite seg_pick_zero by assumption. ring.
Qed.
Close Scope string_scope.

(* ================================================================== nests.py: correlation *)
Lemma nl_corr_entry_formula : forall mu mu_m,
  nl_corr_entry mu mu_m = 1 - (mu * mu) / (mu_m * mu_m).
Proof.
  intros mu mu_m. unfold nl_corr_entry, Reqb. destruct (Req_EM_T mu 1) as [->|]; [|reflexivity].
  f_equal. f_equal. ring.
Qed.
Lemma nl_corr_entry_mu1 : forall mu_m, nl_corr_entry 1 mu_m = 1 - 1 / (mu_m * mu_m).
Proof.
  intros mu_m. unfold nl_corr_entry, Reqb. destruct (Req_EM_T 1 1); [reflexivity|contradiction].
Qed.

Definition nl_both (i j : Z) (m : R * list Z) : bool :=
  in_Z i (snd m) && in_Z j (snd m) && negb (i =? j)%Z.

Lemma nl_fold_last : forall (entry : R -> R) i j v nests acc,
  (forall m, In m nests -> nl_both i j m = true -> entry (fst m) = v) ->
  (acc = v \/ exists m, In m nests /\ nl_both i j m = true) ->
  fold_left (fun acc (m : R * list Z) => if nl_both i j m then entry (fst m) else acc) nests acc = v.
Proof.
  induction nests as [|m r IH]; intros acc H1 H2.
  - destruct H2 as [H2|[m [[] _]]]. exact H2.
  - cbn [fold_left]. apply IH.
    + intros m' Hm'. apply H1. right; assumption.
    + destruct (nl_both i j m) eqn:E.
      * left. apply H1; [left; reflexivity|assumption].
      * destruct H2 as [H2|[m0 [[->|Hin] Hb]]]; [left; assumption|congruence|right; eauto].
Qed.

Lemma nl_fold_none : forall (entry : R -> R) i j nests acc,
  (forall m, In m nests -> nl_both i j m = false) ->
  fold_left (fun acc (m : R * list Z) => if nl_both i j m then entry (fst m) else acc) nests acc = acc.
Proof.
  induction nests as [|m r IH]; intros acc H; [reflexivity|].
  cbn [fold_left]. rewrite (H m (or_introl eq_refl)). apply IH. intros; apply H; right; assumption.
Qed.

(* T17j *)
Theorem nested_correlation_diagonal : forall entry nests i, nl_correlation entry nests i i = 1.
Proof.
  intros entry nests i. unfold nl_correlation.
  replace (if (i =? i)%Z then 1 else 0) with 1 by (rewrite Z.eqb_refl; reflexivity).
  apply (nl_fold_none entry i i nests 1). intros m _. unfold nl_both. rewrite Z.eqb_refl. cbn [negb]. apply andb_false_r.
Qed.

Theorem nested_correlation_within : forall mu nests i j mu_m alts,
  i <> j -> In (mu_m, alts) nests -> in_Z i alts = true -> in_Z j alts = true ->
  (* the nests are disjoint: any nest containing both i and j carries the same parameter *)
  (forall m, In m nests -> in_Z i (snd m) = true -> in_Z j (snd m) = true -> fst m = mu_m) ->
  nl_correlation (nl_corr_entry mu) nests i j = 1 - (mu * mu) / (mu_m * mu_m).
Proof.
  intros mu nests i j mu_m alts Hij Hin Hi Hj Hd. unfold nl_correlation.
  rewrite <- nl_corr_entry_formula.
  apply (nl_fold_last (nl_corr_entry mu) i j (nl_corr_entry mu mu_m) nests).
  - intros m Hm Hb. unfold nl_both in Hb. apply andb_prop in Hb. destruct Hb as [Hb _].
    apply andb_prop in Hb. destruct Hb as [B1 B2]. rewrite (Hd m Hm B1 B2). reflexivity.
  - right. exists (mu_m, alts). split; [assumption|]. unfold nl_both. cbn [snd]. rewrite Hi, Hj.
    destruct (Z.eqb_spec i j); [contradiction|reflexivity].
Qed.

Corollary nested_correlation_within_mu1 : forall nests i j mu_m alts,
  i <> j -> In (mu_m, alts) nests -> in_Z i alts = true -> in_Z j alts = true ->
  (forall m, In m nests -> in_Z i (snd m) = true -> in_Z j (snd m) = true -> fst m = mu_m) ->
  nl_correlation (nl_corr_entry 1) nests i j = 1 - 1 / (mu_m * mu_m).
Proof.
  intros. rewrite (nested_correlation_within 1 nests i j mu_m alts) by assumption.
  f_equal. f_equal. ring.
Qed.

Theorem nested_correlation_across : forall entry nests i j,
  i <> j -> (forall m, In m nests -> in_Z i (snd m) && in_Z j (snd m) = false) ->
  nl_correlation entry nests i j = 0.
Proof.
  intros entry nests i j Hij H. unfold nl_correlation.
  replace (if (i =? j)%Z then 1 else 0) with 0 by (destruct (Z.eqb_spec i j); [contradiction|reflexivity]).
  apply (nl_fold_none entry i j nests 0). intros m Hm. unfold nl_both. rewrite (H m Hm). reflexivity.
Qed.

(* ------------------------------------------------------------------ boxcox with a Python float l *)
Section BoxCoxFloat.
  Variable Phi : R -> R.
  Variable en : env.
  Variable x : expr.
  Variable vx : R.
  Variables c c2 c3 : dyadic.
  Hypothesis Hx : evalX Phi x en = XR vx.
  Notation ev e := (evalX Phi e en) (only parsing).

  Lemma ev_bcf_close :
    ev (EBin Times (EBin Gt (ENumD c_1em5) (ENumD c)) (EBin Lt (EUn UMinus (ENumD c_1em5)) (ENumD c)))
    = XR (b2R (Rltb' (D2R c) bc_eps) * b2R (Rltb' (- bc_eps) (D2R c))).
  Proof. autorewrite with evx. reflexivity. Qed.

  Lemma boxcox_float_regular : 0 < vx -> (D2R c <= - bc_eps \/ bc_eps <= D2R c) ->
    ev (boxcox_float x c c2 c3) = XR ((Rpower vx (D2R c) - 1) / D2R c).
  Proof.
    intros Hpos Hband. pose proof bc_eps_pos as EP.
    unfold boxcox_float. rewrite ev_elem. cbn [map fst snd].
    rewrite ev_bin, Hx, ev_ENumZ, D2R_0. cbn [xbin lift2]. rewrite Reqb'_false by lra.
    cbn [b2R]. rewrite xelem2_0.
    rewrite ev_elem. cbn [map fst snd]. rewrite ev_bcf_close.
    assert (K : b2R (Rltb' (D2R c) bc_eps) * b2R (Rltb' (- bc_eps) (D2R c)) = 0).
    { destruct Hband; [rewrite (Rltb'_false (- bc_eps) (D2R c)) by lra | rewrite (Rltb'_false (D2R c) bc_eps) by lra];
        simpl; ring. }
    rewrite K, xelem2_0.
    rewrite ev_bin, ev_bin, ev_powc, Hx, xpowc_pos, ev_num, ev_ENum, D2R_1 by assumption.
    cbn [xbin lift2]. rewrite Rnz_true by lra. reflexivity.
  Qed.

  (* the coefficients of l^2 and l^3 are the doubles Python computed for c**2 and c**3 *)
  Lemma boxcox_float_series : 0 < vx -> - bc_eps < D2R c < bc_eps ->
    ev (boxcox_float x c c2 c3)
    = XR (bc_coeff 0 vx + bc_coeff 1 vx * D2R c + bc_coeff 2 vx * D2R c2 + bc_coeff 3 vx * D2R c3).
  Proof.
    intros Hpos Hband.
    unfold boxcox_float. rewrite ev_elem. cbn [map fst snd].
    rewrite ev_bin, Hx, ev_ENumZ, D2R_0. cbn [xbin lift2]. rewrite Reqb'_false by lra.
    cbn [b2R]. rewrite xelem2_0.
    rewrite ev_elem. cbn [map fst snd]. rewrite ev_bcf_close.
    rewrite !Rltb'_true by lra. cbn [b2R]. rewrite Rmult_1_l, xelem2_1.
    unfold boxcox_series. autorewrite with evx. rewrite Hx.
    cbn [xun]. rewrite Rltb'_true by assumption.
    cbn [xpowc dyadic_is_int Z.leb Z.mul Z.pow Z.pow_pos Pos.iter Pos.mul Z.compare xbin lift2].
    rewrite D2R_2, D2R_6, D2R_24. rewrite !Rnz_true by lra. cbn [lift2]. f_equal.
    unfold bc_coeff. simpl. field.
  Qed.
End BoxCoxFloat.

(* ================================================================== statements used by Properties/C17.v *)
Lemma lognormal_tree_value : forall m s x, 0 < x -> 0 < s ->
  npdf_c k_sqrt2pi m s (ln x) / x = lognormal_density m s x * (sqrt (2 * PI) / k_sqrt2pi).
Proof.
  intros m s x Hx Hs. pose proof k_sqrt2pi_pos as KP. pose proof sqrt2pi_pos as SP.
  rewrite npdf_c_ratio by lra. unfold lognormal_density, normal_density.
  destruct (Rlt_dec 0 x); [|contradiction]. field. repeat split; lra.
Qed.

Lemma normalpdf_textbook : forall Phi en x mu s vx vm vs,
  evalX Phi x en = XR vx -> evalX Phi mu en = XR vm -> evalX Phi s en = XR vs -> 0 < vs ->
  exists r, evalX Phi (normalpdf x mu s) en = XR r /\
    r = normal_density vm vs vx * (sqrt (2 * PI) / k_sqrt2pi) /\
    Rabs (r - normal_density vm vs vx) <= 2 / 10 ^ 10 * normal_density vm vs vx.
Proof.
  intros Phi en x mu s vx vm vs Hx Hm Hs P. exists (npdf_c k_sqrt2pi vm vs vx).
  pose proof k_sqrt2pi_pos as KP.
  exact (conj (normalpdf_tree Phi en x mu s vx vm vs Hx Hm Hs (Rgt_not_eq _ _ P))
          (conj (npdf_c_ratio k_sqrt2pi vm vs vx (Rgt_not_eq _ _ P) (Rgt_not_eq _ _ KP))
                (npdf_constant_error vm vs vx P))).
Qed.

Lemma lognormalpdf_textbook : forall Phi en x mu s vx vm vs,
  evalX Phi x en = XR vx -> evalX Phi mu en = XR vm -> evalX Phi s en = XR vs ->
  0 < vx -> 0 < vs ->
  evalX Phi (lognormalpdf x mu s) en
  = XR (lognormal_density vm vs vx * (sqrt (2 * PI) / k_sqrt2pi)).
Proof.
  intros Phi en x mu s vx vm vs Hx Hm Hs Px Ps.
  rewrite (lognormalpdf_tree Phi en x mu s vx vm vs Hx Hm Hs Px (Rgt_not_eq _ _ Ps)).
  exact (f_equal XR (lognormal_tree_value vm vs vx Px Ps)).
Qed.

Lemma logistic_cdf_props : forall m s, 0 < s ->
  (forall x, is_derive (logistic_cdf m s) x (logistic_density m s x)) /\
  is_lim (logistic_cdf m s) m_infty 0 /\ is_lim (logistic_cdf m s) p_infty 1.
Proof.
  exact (fun m s P => conj (fun x => logistic_derivative m s x (Rgt_not_eq _ _ P))
                        (conj (logistic_limit_m m s P) (logistic_limit_p m s P))).
Qed.

Lemma regression_normal : forall Phi en meas model sigma vy vm vs,
  evalX Phi meas en = XR vy -> evalX Phi model en = XR vm -> evalX Phi sigma en = XR vs -> 0 < vs ->
  exists r, evalX Phi (loglikelihoodregression meas model sigma) en = XR r /\
            evalX Phi (likelihoodregression meas model sigma) en = XR (exp r) /\
            Rabs (r - ln (normal_density vm vs vy)) <= 1 / 10 ^ 11.
Proof.
  intros Phi en meas model sigma vy vm vs Hy Hm Hs P. eexists.
  exact (conj (regression_tree Phi en meas model sigma vy vm vs Hy Hm Hs (Rgt_not_eq _ _ P))
          (conj (likelihoodregression_tree Phi en meas model sigma vy vm vs Hy Hm Hs (Rgt_not_eq _ _ P))
                (regression_is_normal_logdensity vy vm vs P))).
Qed.

Lemma boxcox_continuity_summary : forall x,
  continuous (bc_value x) 0 /\ bc_value x 0 = ln x /\ is_lim (bc_value x) 0 (ln x).
Proof.
  exact (fun x => conj (boxcox_continuous_at_zero x) (conj (bc_value_zero x) (boxcox_value_limit x))).
Qed.

(* ------------------------------------------------------------------ regression, any sign of sigma
   Only sigma^2 enters the documented form: for every sigma <> 0 (a negative value is legitimate:
   sigma is usually an unbounded parameter) the tree is the normal log density with scale |sigma|. *)
Lemma regression_expr_abs : forall y m s, s <> 0 ->
  - ((y - m) / s) ^ 2 / 2 - ln (s ^ 2) / 2 - k_halflog2pi
  = - ((y - m) / Rabs s) ^ 2 / 2 - ln (Rabs s ^ 2) / 2 - k_halflog2pi.
Proof.
  intros y m s Hs. assert (A : Rabs s <> 0) by (apply Rabs_no_R0; assumption).
  assert (Q : Rabs s ^ 2 = s ^ 2) by (rewrite RPow_abs; apply Rabs_pos_eq, pow2_ge_0).
  replace (((y - m) / Rabs s) ^ 2) with ((y - m) ^ 2 / Rabs s ^ 2) by (field; assumption).
  rewrite Q. f_equal. f_equal. f_equal. f_equal. field. assumption.
Qed.

Lemma regression_normal_anysign : forall Phi en meas model sigma vy vm vs,
  evalX Phi meas en = XR vy -> evalX Phi model en = XR vm -> evalX Phi sigma en = XR vs -> vs <> 0 ->
  exists r, evalX Phi (loglikelihoodregression meas model sigma) en = XR r /\
            evalX Phi (likelihoodregression meas model sigma) en = XR (exp r) /\
            Rabs (r - ln (normal_density vm (Rabs vs) vy)) <= 1 / 10 ^ 11.
Proof.
  intros Phi en meas model sigma vy vm vs Hy Hm Hs NZ. eexists.
  split; [exact (regression_tree Phi en meas model sigma vy vm vs Hy Hm Hs NZ)|].
  split; [exact (likelihoodregression_tree Phi en meas model sigma vy vm vs Hy Hm Hs NZ)|].
  rewrite regression_expr_abs by assumption.
  apply regression_is_normal_logdensity. apply Rabs_pos_lt; assumption.
Qed.
