(* The pure-Python evaluator of a logit (LogLogit.get_value, transcribed in Gen/PyLogit.v after its source
   matched the template) returns the value of the reference semantics [xloglogit] whenever it returns at all. *)
From Coq Require Import Reals List ZArith Lra Lia.
From BV Require Import Model.PyBase Model.Expr Model.EvalX Gen.PyLogit.
Import ListNotations.
Open Scope R_scope.

Lemma R2Z_IZR_l (z : Z) : R2Z (IZR z) = Some z.
Proof.
  unfold R2Z.
  assert (H : Int_part (IZR z) = z).
  { unfold Int_part.
    assert (Hu : (z + 1)%Z = up (IZR z)).
    { apply tech_up; rewrite plus_IZR; lra. }
    rewrite <- Hu. lia. }
  rewrite H. destruct (Req_EM_T (IZR z) (IZR z)) as [_|n]; [reflexivity | exfalso; apply n; reflexivity].
Qed.

Lemma assoc_Z_map {A B} (f : A -> B) k ks (vs : list A) :
  assoc_Z k ks (map f vs) = option_map f (assoc_Z k ks vs).
Proof.
  revert vs. induction ks as [|k' ks IH]; intros [|v vs]; cbn [assoc_Z map option_map]; try reflexivity.
  destruct (k =? k')%Z; [reflexivity | apply IH].
Qed.

Lemma firstn_map_app (us avs : list R) n :
  List.length us = n -> firstn n (map XR us ++ map XR avs) = map XR us.
Proof.
  intros <-. rewrite <- (map_length XR us). rewrite firstn_app, Nat.sub_diag, firstn_all. cbn. apply app_nil_r.
Qed.

Lemma skipn_map_app (us avs : list R) n :
  List.length us = n -> skipn n (map XR us ++ map XR avs) = map XR avs.
Proof.
  intros <-. rewrite <- (map_length XR us). rewrite skipn_app, Nat.sub_diag, skipn_all. reflexivity.
Qed.

(* the loop: when it ends without KeyError, the reference denominator is a real D and
   the accumulated value is acc + exp(-v) * D *)
Lemma loop_spec v ak avs : forall uk us acc d,
  List.length us = List.length uk ->
  py_logit_loop v ak avs uk us acc = Some d ->
  exists D, logit_denominator uk (map XR us) ak (map XR avs) = XR D /\ d = acc + exp (- v) * D /\ 0 <= D.
Proof.
  induction uk as [|i uk IH]; intros [|V us] acc d L E; cbn [List.length] in L; try discriminate.
  - cbn in E. injection E as <-. exists 0. cbn. repeat split; lra.
  - cbn [py_logit_loop] in E. cbn [map logit_denominator].
    rewrite assoc_Z_map. destruct (assoc_Z i ak avs) as [a|]; [|discriminate]. cbn [option_map].
    injection L as L.
    destruct (Rnz a) eqn:Ha.
    + destruct (IH us _ d L E) as (D & HD & Hd & Hpos). rewrite HD. cbn [lift1 lift2].
      exists (exp V + D). split; [reflexivity|]. split.
      * rewrite Hd. unfold Rminus. rewrite exp_plus. ring.
      * pose proof (exp_pos V). lra.
    + destruct (IH us _ d L E) as (D & HD & Hd & Hpos). exists D. auto.
Qed.

(* an available alternative of the list contributes its own exponential *)
Lemma denominator_lower c ak avs a : forall uk us v D,
  List.length us = List.length uk ->
  assoc_Z c uk us = Some v -> assoc_Z c ak avs = Some a -> Rnz a = true ->
  logit_denominator uk (map XR us) ak (map XR avs) = XR D ->
  (forall k, In k uk -> assoc_Z k ak avs <> None) ->
  exp v <= D.
Proof.
  induction uk as [|i uk IH]; intros [|V us] v D L Hu Ha Hn HD Hall; cbn [List.length] in L; try discriminate.
  injection L as L. cbn [assoc_Z] in Hu. cbn [map logit_denominator] in HD. rewrite assoc_Z_map in HD.
  assert (Hrest : forall D', logit_denominator uk (map XR us) ak (map XR avs) = XR D' -> 0 <= D').
  { clear -L. revert us L. induction uk as [|j uk IH2]; intros [|W us] L D' H; cbn [List.length] in L; try discriminate.
    - cbn in H. injection H as <-. lra.
    - injection L as L. cbn [map logit_denominator] in H. rewrite assoc_Z_map in H.
      destruct (assoc_Z j ak avs) as [b|]; cbn [option_map] in H.
      + destruct (Rnz b).
        * destruct (logit_denominator uk (map XR us) ak (map XR avs)) as [D2| |] eqn:E2; cbn in H; try discriminate.
          injection H as <-. pose proof (IH2 us L D2 E2). pose proof (exp_pos W). lra.
        * eapply IH2; eauto.
      + eapply IH2; eauto. }
  destruct (c =? i)%Z eqn:Eci.
  - injection Hu as ->. apply Z.eqb_eq in Eci. subst i. rewrite Ha in HD. cbn [option_map] in HD. rewrite Hn in HD.
    destruct (logit_denominator uk (map XR us) ak (map XR avs)) as [D2| |] eqn:E2; cbn in HD; try discriminate.
    injection HD as <-. pose proof (Hrest D2 eq_refl). lra.
  - assert (Hall' : forall k, In k uk -> assoc_Z k ak avs <> None) by (intros k Hk; apply Hall; right; exact Hk).
    destruct (assoc_Z i ak avs) as [b|] eqn:Eb; cbn [option_map] in HD.
    + destruct (Rnz b).
      * destruct (logit_denominator uk (map XR us) ak (map XR avs)) as [D2| |] eqn:E2; cbn in HD; try discriminate.
        injection HD as <-. pose proof (IH us v D2 L Hu Ha Hn E2 Hall'). pose proof (exp_pos V). lra.
      * eapply IH; eauto.
    + exfalso. apply (Hall i); [left; reflexivity | exact Eb].
Qed.

(* a loop that ends normally found an availability for every utility *)
Lemma loop_all_found v ak avs : forall uk us acc d,
  List.length us = List.length uk ->
  py_logit_loop v ak avs uk us acc = Some d -> forall k, In k uk -> assoc_Z k ak avs <> None.
Proof.
  induction uk as [|i uk IH]; intros [|V us] acc d L E k Hk; cbn [List.length] in L; try discriminate; [destruct Hk|].
  cbn [py_logit_loop] in E. destruct (assoc_Z i ak avs) as [a|] eqn:Ea; [|discriminate].
  destruct Hk as [<-|Hk]; [rewrite Ea; discriminate|]. injection L as L. eapply IH; eauto.
Qed.

Theorem py_LogLogit_sem : forall (c : Z) (uk : list Z) (us : list R) (ak : list Z) (avs : list R) (x : xval),
  List.length us = List.length uk -> List.length avs = List.length ak ->
  py_LogLogit c uk us ak avs = Some x ->
  xloglogit uk ak (XR (IZR c) :: map XR us ++ map XR avs) = x.
Proof.
  intros c uk us ak avs x Lu La E. unfold py_LogLogit in E. unfold xloglogit.
  rewrite (firstn_map_app us avs _ Lu), (skipn_map_app us avs _ Lu), map_length, La, Nat.eqb_refl. cbn [negb].
  rewrite R2Z_IZR_l, !assoc_Z_map.
  destruct (assoc_Z c uk us) as [v|] eqn:Ev; [|discriminate].
  destruct (assoc_Z c ak avs) as [a|] eqn:Ea; [|discriminate]. cbn [option_map].
  destruct (Rnz a) eqn:Hn; [|injection E as <-; reflexivity].
  destruct (py_logit_loop v ak avs uk us 0) as [d|] eqn:El; [|discriminate]. injection E as <-.
  destruct (loop_spec v ak avs uk us 0 d Lu El) as (D & HD & Hd & _). rewrite HD.
  pose proof (denominator_lower c ak avs a uk us v D Lu Ev Ea Hn HD (loop_all_found v ak avs uk us 0 d Lu El)) as Hlow.
  pose proof (exp_pos v) as Hv.
  unfold Rltb'. destruct (Rlt_dec 0 D) as [HDpos|n]; [|exfalso; lra].
  f_equal. rewrite Hd, Rplus_0_l, ln_mult; [|apply exp_pos|exact HDpos]. rewrite ln_exp. ring.
Qed.

(* non-vacuity: two alternatives, the second unavailable, the first chosen *)
Example py_LogLogit_example :
  py_LogLogit 1 [1%Z; 2%Z] [1; 3] [2%Z; 1%Z] [0; 1] = Some (XR (- ln (0 + exp (1 - 1)))).
Proof.
  unfold py_LogLogit. cbn [assoc_Z Z.eqb Pos.eqb py_logit_loop].
  assert (H1 : Rnz 1 = true) by (unfold Rnz; destruct (Req_EM_T 1 0); [lra | reflexivity]).
  assert (H0 : Rnz 0 = false) by (unfold Rnz; destruct (Req_EM_T 0 0); [reflexivity | lra]).
  rewrite H1, H0. reflexivity.
Qed.
