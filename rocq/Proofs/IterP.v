(* C15 -- lemmas about the model of the saved-iteration file (Model/Iter.v) instantiated with the
   record [the_code] regenerated from /repo (Gen/IterSave.v). *)
From Coq Require Import ZArith List String Ascii Bool Lia.
From BV Require Import Model.PyBase Proofs.PyBaseP Model.Iter Gen.IterSave.
Import ListNotations.
Open Scope string_scope.
Open Scope list_scope.

(* ------------------------------------------------------------------ order on values *)
Lemma fge_refl f : f <> FNaN -> fge f f = true.
Proof. destruct f; simpl; try congruence. intros _. apply Z.leb_refl. Qed.

Lemma fge_trans a b c : fge a b = true -> fge b c = true -> fge a c = true.
Proof.
  destruct a, b, c; simpl; try congruence.
  rewrite !Z.leb_le. lia.
Qed.

Lemma fge_total a b : a <> FNaN -> b <> FNaN -> fge a b = false -> fge b a = true.
Proof.
  destruct a, b; simpl; try congruence.
  rewrite Z.leb_le, Z.leb_gt. lia.
Qed.

Lemma fge_not_nan_l a b : fge a b = true -> a <> FNaN.
Proof. destruct a; simpl; congruence. Qed.

(* ------------------------------------------------------------------------- strings *)
Lemma no_char_app c0 a b : no_char c0 (a ++ b)%string = no_char c0 a && no_char c0 b.
Proof. induction a as [|x a IH]; simpl; [reflexivity|]. rewrite IH. apply andb_assoc. Qed.

Lemma split_lines_line body rest :
  no_char nl body = true ->
  split_lines (body ++ String nl rest)%string = (body ++ String nl "")%string :: split_lines rest.
Proof.
  induction body as [|x body IH]; simpl; intros H.
  - reflexivity.
  - apply andb_prop in H. destruct H as [Hx Hb].
    destruct (Ascii.eqb x nl); [discriminate|]. rewrite (IH Hb). reflexivity.
Qed.

Lemma rsplit1_nosep c0 w : no_char c0 w = true -> rsplit1 c0 w = [w].
Proof.
  induction w as [|x w IH]; simpl; intros H; [reflexivity|].
  apply andb_prop in H. destruct H as [Hx Hw]. rewrite (IH Hw).
  destruct (Ascii.eqb x c0); [discriminate|reflexivity].
Qed.

Lemma rsplit1_last c0 a w :
  no_char c0 w = true -> rsplit1 c0 (a ++ String c0 w)%string = [a; w].
Proof.
  intros Hw. induction a as [|x a IH]; simpl.
  - rewrite (rsplit1_nosep _ _ Hw). rewrite Ascii.eqb_refl. reflexivity.
  - rewrite IH. reflexivity.
Qed.

Lemma split_on_nosep c0 w : no_char c0 w = true -> split_on c0 w = [w].
Proof.
  induction w as [|x w IH]; simpl; intros H; [reflexivity|].
  apply andb_prop in H. destruct H as [Hx Hw]. rewrite (IH Hw).
  destruct (Ascii.eqb x c0); [discriminate|reflexivity].
Qed.

Lemma append_tail_ne (s t : string) : t <> ""%string -> (s ++ t)%string <> s.
Proof.
  intros Ht E. apply (f_equal String.length) in E. rewrite append_length in E.
  destruct t; [congruence|simpl in E; lia].
Qed.

Lemma cat_app l1 l2 : cat (l1 ++ l2) = (cat l1 ++ cat l2)%string.
Proof.
  induction l1 as [|x l1 IH]; simpl; [reflexivity|]. rewrite IH, append_assoc. reflexivity.
Qed.

(* --------------------------------------------------------------------- dictionaries *)
Lemma dict_get_notin {V} k (l : list (string * V)) : ~ In k (map fst l) -> dict_get k l = None.
Proof.
  induction l as [|[k' v] r IH]; simpl; intros H; [reflexivity|].
  rewrite IH by tauto.
  destruct (String.eqb k k') eqn:E; [apply String.eqb_eq in E; subst; tauto|reflexivity].
Qed.

Lemma in_map_fst_combine {A B} (k : A) (l1 : list A) (l2 : list B) :
  In k (map fst (combine l1 l2)) -> In k l1.
Proof.
  intros H. apply in_map_iff in H. destruct H as ([a b] & <- & H). apply in_combine_l in H. exact H.
Qed.

Lemma apply_betas_combine {V} (names : list string) : forall (init x : list V),
  NoDup names -> List.length x = List.length names -> List.length init = List.length names ->
  apply_betas V names init (combine names x) = x.
Proof.
  unfold apply_betas.
  induction names as [|n names IH]; intros init x Hnd Hx Hi.
  - destruct x; [reflexivity|discriminate].
  - destruct x as [|v x]; [discriminate|]. destruct init as [|i init]; [discriminate|].
    inversion Hnd as [|? ? Hn Hnd']; subst.
    simpl. rewrite dict_get_notin.
    2:{ intros H. apply Hn. eapply in_map_fst_combine. exact H. }
    rewrite String.eqb_refl. f_equal.
    etransitivity; [|apply (IH init x Hnd'); simpl in *; lia].
    apply map_ext_in. intros [m w] Hin. simpl.
    assert (Hm : In m names) by (apply in_combine_l in Hin; exact Hin).
    destruct (dict_get m (combine names x)); [reflexivity|].
    destruct (String.eqb m n) eqn:E; [apply String.eqb_eq in E; subst; tauto|reflexivity].
Qed.

(* ------------------------------------------------ what the theorems need from the code *)
(* Every field of the generated record is pinned to its meaning; [the_code_ok] below is proved by
   computation on the definitions regenerated from /repo, so a semantic edit of the source
   breaks it. *)
Record code_ok (c : code) : Prop := {
  ok_name : forall m, c_file_name c m = ("__" ++ m ++ ".iter")%string;
  ok_guard : forall g s u, c_guard c g s u = g && s && negb u;
  ok_mark0 : forall b f, c_mark0 c b f = match b with None => Some f | Some _ => b end;
  ok_test : forall f b, c_test c f b = oge (Some f) b;
  ok_mark1 : forall b f, c_mark1 c b f = Some f;
  ok_steps : forall fn ls,
    c_steps c fn ls =
    (OpenTrunc (fn ++ ".tmp") :: map (WriteLine (fn ++ ".tmp")) ls ++ [Close (fn ++ ".tmp")])
      ++ [Replace (fn ++ ".tmp") fn];
  ok_line : forall n t, c_line c n t = (n ++ " = " ++ t ++ String nl "")%string;
  ok_parse : forall a w, no_char "=" w = true ->
    c_parse c (a ++ String "=" w)%string = Some (py_strip a, w);
  ok_estimate : c_estimate c = [LoadSaved; ResetBest];
  ok_quick : c_quick c = [LoadSaved; ResetBest];
  ok_susp : c_boot_suspends c = true;
  ok_rest : c_boot_restores c = true;
  ok_abort_resumes : c_abort_resumes c = true;
  ok_abort_restores : c_abort_restores c = true;
}.

Lemma the_code_ok : code_ok the_code.
Proof.
  constructor; simpl.
  - reflexivity.
  - intros [] [] []; reflexivity.
  - intros [b|] f; reflexivity.
  - reflexivity.
  - reflexivity.
  - reflexivity.
  - intros n t. unfold gen_line. rewrite !append_assoc. reflexivity.
  - intros a w Hw. unfold gen_parse. rewrite (rsplit1_last _ a w Hw). reflexivity.
  - reflexivity.
  - reflexivity.
  - reflexivity.
  - reflexivity.
  - reflexivity.
  - reflexivity.
Qed.

(* ----------------------------------------------------------------------- file system *)
Lemma upd_same d n v : upd d n v n = v.
Proof. unfold upd. rewrite String.eqb_refl. reflexivity. Qed.

Lemma upd_other d n v m : m <> n -> upd d n v m = d m.
Proof. unfold upd. intros H. destruct (String.eqb m n) eqn:E; [apply String.eqb_eq in E; congruence|reflexivity]. Qed.

Lemma atomize_app l1 l2 : atomize (l1 ++ l2) = atomize l1 ++ atomize l2.
Proof. unfold atomize. apply flat_map_app. Qed.

Lemma Forall_firstn {A} (P : A -> Prop) (l : list A) k : Forall P l -> Forall P (firstn k l).
Proof.
  revert k. induction l as [|x l IH]; intros [|k] H; simpl; try constructor.
  - inversion H; assumption.
  - apply IH. inversion H; assumption.
Qed.

(* a step that can only affect file t *)
Definition only (t : string) (a : astep) : Prop :=
  match a with AOpen n | AByte n _ | AClose n => n = t | AReplace _ _ => False end.

Section FS.
  Variable os_replace : fs -> string -> string -> fs.
  Hypothesis replace_atomic : forall d a b, os_replace d a b = os_replace_atomic d a b.
  Notation run_steps := (run_steps os_replace).
  Notation astep_run := (astep_run os_replace).

  Lemma run_steps_app d l1 l2 : run_steps d (l1 ++ l2) = run_steps (run_steps d l1) l2.
  Proof. unfold Iter.run_steps. apply fold_left_app. Qed.

  Lemma run_only t m : m <> t -> forall l d, Forall (only t) l -> run_steps d l m = d m.
  Proof.
    intros Hm. induction l as [|a l IH]; intros d H; [reflexivity|].
    inversion H as [|? ? Ha Hl]; subst. simpl. change (run_steps (astep_run d a) l m = d m).
    rewrite (IH _ Hl).
    destruct a as [n|n ch|n|x y]; simpl in *; subst.
    - apply upd_other. exact Hm.
    - destruct (d t); [apply upd_other; exact Hm|reflexivity].
    - reflexivity.
    - contradiction.
  Qed.

  Lemma run_bytes n : forall s d acc, d n = Some acc ->
    run_steps d (map (AByte n) (list_ascii_of_string s)) n = Some (acc ++ s)%string.
  Proof.
    induction s as [|ch s IH]; intros d acc H; simpl.
    - rewrite append_nil_r. exact H.
    - change (run_steps (astep_run d (AByte n ch)) (map (AByte n) (list_ascii_of_string s)) n
              = Some (acc ++ String ch s)%string).
      simpl. rewrite H.
      rewrite (IH _ (acc ++ String ch "")%string) by apply upd_same.
      rewrite append_assoc. reflexivity.
  Qed.

  Lemma run_lines t : forall ls d acc, d t = Some acc ->
    run_steps d (atomize (map (WriteLine t) ls)) t = Some (acc ++ cat ls)%string.
  Proof.
    induction ls as [|l ls IH]; intros d acc H; simpl.
    - rewrite append_nil_r. exact H.
    - change (atomize (WriteLine t l :: map (WriteLine t) ls))
        with (map (AByte t) (list_ascii_of_string l) ++ atomize (map (WriteLine t) ls)).
      rewrite run_steps_app.
      rewrite (IH _ (acc ++ l)%string) by (apply run_bytes; exact H).
      rewrite append_assoc. reflexivity.
  Qed.

  Lemma only_bytes t s : Forall (only t) (map (AByte t) (list_ascii_of_string s)).
  Proof. induction s; simpl; constructor; [reflexivity|assumption]. Qed.

  Lemma only_lines t ls : Forall (only t) (atomize (map (WriteLine t) ls)).
  Proof.
    induction ls as [|l ls IH]; [constructor|].
    change (atomize (map (WriteLine t) (l :: ls)))
      with (map (AByte t) (list_ascii_of_string l) ++ atomize (map (WriteLine t) ls)).
    apply Forall_app. split; [apply only_bytes|exact IH].
  Qed.

  (* the steps of the temp-then-replace discipline *)
  Definition pre_steps (t : string) (ls : list string) : list astep :=
    atomize (OpenTrunc t :: map (WriteLine t) ls ++ [Close t]).

  Lemma pre_only t ls : Forall (only t) (pre_steps t ls).
  Proof.
    unfold pre_steps.
    change (OpenTrunc t :: map (WriteLine t) ls ++ [Close t])
      with ([OpenTrunc t] ++ (map (WriteLine t) ls ++ [Close t])).
    rewrite !atomize_app. apply Forall_app. split; [constructor; [reflexivity|constructor]|].
    apply Forall_app. split; [apply only_lines|constructor; [reflexivity|constructor]].
  Qed.

  Lemma pre_content t ls d : run_steps d (pre_steps t ls) t = Some (cat ls).
  Proof.
    unfold pre_steps.
    change (OpenTrunc t :: map (WriteLine t) ls ++ [Close t])
      with ([OpenTrunc t] ++ (map (WriteLine t) ls ++ [Close t])).
    rewrite !atomize_app, !run_steps_app. simpl.
    change (run_steps (upd d t (Some "")) (atomize (map (WriteLine t) ls)) t = Some (cat ls)).
    rewrite (run_lines t ls _ "") by apply upd_same. reflexivity.
  Qed.

  Lemma tmp_ne fn : (fn ++ ".tmp")%string <> fn.
  Proof. apply append_tail_ne. discriminate. Qed.

  Lemma save_full fn ls d :
    run_steps d (atomize ((OpenTrunc (fn ++ ".tmp") :: map (WriteLine (fn ++ ".tmp")) ls
                           ++ [Close (fn ++ ".tmp")]) ++ [Replace (fn ++ ".tmp") fn])) fn
    = Some (cat ls).
  Proof.
    rewrite atomize_app, run_steps_app. fold (pre_steps (fn ++ ".tmp") ls).
    change (os_replace (run_steps d (pre_steps (fn ++ ".tmp") ls)) (fn ++ ".tmp")%string fn fn
            = Some (cat ls)).
    rewrite replace_atomic. unfold os_replace_atomic.
    rewrite pre_content. rewrite upd_other by (intros E; symmetry in E; revert E; apply tmp_ne).
    apply upd_same.
  Qed.

  (* crash safety of one save: after ANY number of primitive steps the final name holds the old
     content or the complete new content *)
  Lemma save_prefix fn ls d k :
    let d' := run_steps d (firstn k (atomize ((OpenTrunc (fn ++ ".tmp")
                 :: map (WriteLine (fn ++ ".tmp")) ls ++ [Close (fn ++ ".tmp")])
                 ++ [Replace (fn ++ ".tmp") fn]))) in
    d' fn = d fn \/ d' fn = Some (cat ls).
  Proof.
    intros d'. subst d'.
    rewrite atomize_app. fold (pre_steps (fn ++ ".tmp") ls).
    destruct (Nat.le_gt_cases k (List.length (pre_steps (fn ++ ".tmp") ls))) as [Hk|Hk].
    - left. rewrite firstn_app. replace (k - _)%nat with O by lia. simpl. rewrite app_nil_r.
      apply (run_only (fn ++ ".tmp")%string); [intros E; symmetry in E; revert E; apply tmp_ne|].
      apply Forall_firstn, pre_only.
    - right. rewrite firstn_all2.
      + unfold pre_steps. rewrite <- atomize_app. apply save_full.
      + assert (Hl : List.length (atomize [Replace (fn ++ ".tmp") fn]) = 1%nat) by reflexivity.
        rewrite app_length, Hl. lia.
  Qed.
End FS.

(* ================================================================== sessions *)
Section Thm.
  Variable val : Type.
  Variable show : val -> string.
  Variable read : string -> option val.
  Variable os_replace : fs -> string -> string -> fs.
  (* ASSUMPTION (POSIX rename): os.replace is one indivisible step *)
  Hypothesis replace_atomic : forall d a b, os_replace d a b = os_replace_atomic d a b.
  Variable c : code.
  Hypothesis OK : code_ok c.
  Variable cfg : config val.

  Notation step := (step val show read os_replace c cfg).
  Notation run := (run val show read os_replace c cfg).
  Notation fnm := (fname val c cfg).
  Notation content := (file_content val show c cfg).
  Notation flines := (file_lines val show c cfg).
  Notation spec_step := (spec_step val cfg).
  Notation counted := (counted val cfg).
  Notation run_steps := (run_steps os_replace).
  Notation fresh := (fresh val cfg).
  Notation len_ok := (len_ok val cfg).

  Lemma save_plan_spec s x f g :
    save_plan val show c cfg s x f g =
    if g && cf_save val cfg && negb (st_susp val s) then
      let b0 := match st_best val s with None => f | Some b => b end in
      if fge f b0 then (c_steps c fnm (flines x), Some f) else ([], Some b0)
    else ([], st_best val s).
  Proof.
    unfold save_plan. rewrite (ok_guard c OK), (ok_mark0 c OK), (ok_test c OK), (ok_mark1 c OK).
    destruct (g && cf_save val cfg && negb (st_susp val s)); [|reflexivity].
    destruct (st_best val s); reflexivity.
  Qed.

  Lemma write_lookup d x :
    run_steps d (atomize (c_steps c fnm (flines x))) fnm = Some (content x).
  Proof. rewrite (ok_steps c OK). apply save_full. exact replace_atomic. Qed.

  Lemma write_prefix d x k :
    run_steps d (firstn k (atomize (c_steps c fnm (flines x)))) fnm = d fnm \/
    run_steps d (firstn k (atomize (c_steps c fnm (flines x)))) fnm = Some (content x).
  Proof. rewrite (ok_steps c OK). apply save_prefix. exact replace_atomic. Qed.

  (* effect of the two prologues *)
  Lemma start_effect s o : o = EstimateStart \/ o = QuickStart ->
    st_fs val (step s o) = st_fs val s /\ st_best val (step s o) = None /\
    st_susp val (step s o) = st_susp val s /\ st_other val (step s o) = st_other val s.
  Proof.
    intros [-> | ->]; unfold Iter.step; [rewrite (ok_estimate c OK)|rewrite (ok_quick c OK)];
      simpl; destruct (cf_save val cfg); simpl; try destruct (load_saved _ _ _ _ _ _); simpl; auto.
  Qed.

  (* the effect of one evaluation on the marker and on the iteration file *)
  Lemma eval_effect s x f g :
    let s' := step s (Eval x f g) in
    st_susp val s' = st_susp val s /\ st_other val s' = st_other val s /\
    st_init val s' = st_init val s /\
    ( (st_fs val s' = st_fs val s /\
       ((len_ok x && g && cf_save val cfg && negb (st_susp val s) = false /\ st_best val s' = st_best val s)
        \/ (len_ok x && g && cf_save val cfg && negb (st_susp val s) = true /\
            exists b0, st_best val s' = Some b0 /\ fge f b0 = false /\
                       (st_best val s = Some b0 \/ (st_best val s = None /\ b0 = f)))))
      \/ (len_ok x && g && cf_save val cfg && negb (st_susp val s) = true /\
          st_fs val s' fnm = Some (content x) /\ st_best val s' = Some f /\
          fge f (match st_best val s with None => f | Some b => b end) = true) ).
  Proof.
    intros s'. subst s'. unfold Iter.step. destruct (len_ok x) eqn:L; simpl.
    2:{ repeat split; auto. }
    rewrite save_plan_spec.
    destruct (g && cf_save val cfg && negb (st_susp val s)) eqn:G; simpl.
    2:{ repeat split; auto. }
    destruct (fge f (match st_best val s with None => f | Some b => b end)) eqn:E; simpl.
    - repeat split; auto. right. repeat split; auto. apply write_lookup.
    - repeat split; auto. left. split; [reflexivity|]. right. split; [reflexivity|].
      destruct (st_best val s) as [b|]; [exists b|exists f]; auto.
  Qed.

  (* ---------------------------------------------------------------- T15a *)
  Definition Inv (s : state val) (sp : list (list val * fval) * bool) : Prop :=
    st_susp val s = snd sp /\ (st_other val s = true -> snd sp = true) /\
    Forall (fun p => snd p <> FNaN) (fst sp) /\
    (fst sp = [] -> st_best val s = None) /\
    (fst sp <> [] -> exists x f, best_latest val (fst sp) x f /\ st_best val s = Some f /\
                                 st_fs val s fnm = Some (content x)).

  Lemma fge_not_nan_r a b : fge a b = true -> b <> FNaN.
  Proof. destruct a, b; simpl; congruence. Qed.

  Lemma inv_step s sp o :
    cf_save val cfg = true -> f_not_nan val o -> Inv s sp -> Inv (step s o) (spec_step sp o).
  Proof.
    intros Hsave Hnn. destruct sp as [l ib]. intros (Hs & Ho & Hl & Hb0 & Hb1). simpl in *.
    destruct o as [| |x f g| | |x f g k| | |xe].
    - (* EstimateStart *)
      destruct (start_effect s EstimateStart (or_introl eq_refl)) as (_ & B & S & O).
      unfold Inv; cbn [Iter.spec_step fst snd]. rewrite B, S, O. repeat split; auto. congruence.
    - destruct (start_effect s QuickStart (or_intror eq_refl)) as (_ & B & S & O).
      unfold Inv; cbn [Iter.spec_step fst snd]. rewrite B, S, O. repeat split; auto. congruence.
    - (* Eval *)
      destruct (eval_effect s x f g) as (S & O & _ & E).
      rewrite Hsave, Hs in E. rewrite andb_true_r in E.
      replace (len_ok x && g && negb ib) with (g && negb ib && len_ok x) in E
        by (destruct (len_ok x), g, ib; reflexivity).
      unfold Iter.spec_step.
      destruct E as [(F & [(G & B) | (G & b0 & B & E & Hprev)]) | (G & F & B & E)].
      + (* not counted *)
        rewrite G. unfold Inv; cbn [fst snd]. rewrite S, O, F, B. repeat split; auto.
      + (* counted, worse than the marker: nothing written *)
        rewrite G. unfold Inv; cbn [fst snd]. rewrite S, O, F, B.
        assert (Hf : f <> FNaN).
        { destruct g; [exact Hnn|]. simpl in G. discriminate. }
        destruct Hprev as [Hp | (Hp & ->)].
        2:{ rewrite fge_refl in E by exact Hf. discriminate. }
        split; [exact Hs|]. split; [exact Ho|].
        split; [apply Forall_app; split; [exact Hl|constructor; [exact Hf|constructor]]|].
        split; [intros H; apply app_eq_nil in H; destruct H; discriminate|].
        intros _.
        destruct l as [|p l'].
        { rewrite Hb0 in Hp by reflexivity. discriminate. }
        destruct Hb1 as (x0 & f0 & (l1 & l2 & El & H1 & H2) & Hbest & Hfile); [discriminate|].
        assert (f0 = b0) by congruence. subst f0.
        exists x0, b0. split; [|split; [reflexivity|exact Hfile]].
        exists l1, (l2 ++ [(x, f)]). split.
        { rewrite El. rewrite <- app_assoc. reflexivity. }
        split; [exact H1|].
        intros p0 Hin. apply in_app_or in Hin. destruct Hin as [Hin | [<- | []]]; [apply H2; exact Hin|exact E].
      + (* counted, at least as good as the marker: written *)
        rewrite G. unfold Inv; cbn [fst snd]. rewrite S, O, B.
        assert (Hf : f <> FNaN) by (apply (fge_not_nan_l _ _ E)).
        split; [exact Hs|]. split; [exact Ho|].
        split; [apply Forall_app; split; [exact Hl|constructor; [exact Hf|constructor]]|].
        split; [intros H; apply app_eq_nil in H; destruct H; discriminate|].
        intros _. exists x, f. split; [|split; [reflexivity|exact F]].
        exists l, []. split; [reflexivity|]. split; [|intros p []].
        intros p Hin.
        destruct l as [|p1 l']; [destruct Hin|].
        destruct Hb1 as (x0 & f0 & (l1 & l2 & El & H1 & H2) & Hbest & Hfile); [discriminate|].
        rewrite Hbest in E.
        assert (Hf0 : f0 <> FNaN) by (apply (fge_not_nan_r _ _ E)).
        rewrite El in Hin. apply in_app_or in Hin. destruct Hin as [Hin | [<- | Hin]].
        * apply (fge_trans _ f0); [exact E|apply H1; exact Hin].
        * exact E.
        * apply (fge_trans _ f0); [exact E|].
          apply fge_total; [| exact Hf0 | apply H2; exact Hin].
          rewrite Forall_forall in Hl. apply Hl. rewrite El. apply in_or_app. right. right. exact Hin.
    - (* BootstrapBegin *)
      unfold Inv; simpl. rewrite (ok_susp c OK). repeat split; auto.
    - (* BootstrapEnd *)
      unfold Inv; simpl. rewrite (ok_rest c OK). simpl. repeat split; auto; try discriminate.
    - (* CrashEval *)
      unfold Inv, Iter.step; simpl. destruct (len_ok x); [destruct (save_plan _ _ _ _ _ _ _ _)|];
        simpl; repeat split; auto; try discriminate; congruence.
    - unfold Inv; simpl. repeat split; auto; try discriminate; congruence.
    - (* BootstrapAbort *)
      unfold Inv; simpl. rewrite (ok_abort_resumes c OK), (ok_abort_restores c OK). simpl.
      repeat split; auto; try discriminate.
    - (* EstimateEnd: only the starting values change *)
      unfold Inv, Iter.step; simpl. destruct (len_ok xe); simpl; repeat split; auto.
  Qed.

  Lemma inv_run h : forall s sp,
    cf_save val cfg = true -> Forall (f_not_nan val) h -> Inv s sp ->
    Inv (run s h) (fold_left spec_step h sp).
  Proof.
    induction h as [|o h IH]; intros s sp Hsave Hnn HI; [exact HI|].
    inversion Hnn; subst. simpl. apply IH; auto. apply inv_step; auto.
  Qed.

  Lemma inv_fresh d : Inv (fresh d) ([], false).
  Proof. unfold Inv; simpl. repeat split; auto; try discriminate. congruence. Qed.

  (* T15a: while iterations are saved, after ANY history (crashes and restarts included) in which
     at least one evaluation counts, the iteration file holds exactly the lines of the best
     counted point, the latest among equals, and the marker is its log likelihood. *)
  Theorem file_is_best_evaluated h d :
    cf_save val cfg = true -> Forall (f_not_nan val) h -> counted h <> [] ->
    exists x f, best_latest val (counted h) x f /\
                st_fs val (run (fresh d) h) fnm = Some (content x) /\
                st_best val (run (fresh d) h) = Some f.
  Proof.
    intros Hsave Hnn Hc.
    destruct (inv_run h _ _ Hsave Hnn (inv_fresh d)) as (_ & _ & _ & _ & H).
    destruct (H Hc) as (x & f & Hb & Hm & Hf). exists x, f. auto.
  Qed.

  (* T15a': the same from ANY earlier state of the object -- whatever marker a previous run left,
     whatever the file holds now (an older check point put back by the user, a file removed, the
     file of another name after the model was renamed: the state s0 and its file system are
     arbitrary) -- as soon as an estimation of either kind starts. *)
  Lemma inv_after_start s0 o :
    o = EstimateStart \/ o = QuickStart ->
    (st_other val s0 = true -> st_susp val s0 = true) ->
    Inv (step s0 o) ([], st_susp val s0).
  Proof.
    intros Ho H. destruct (start_effect s0 o Ho) as (_ & B & S & O).
    unfold Inv; cbn [fst snd]. rewrite B, S, O.
    split; [reflexivity|]. split; [exact H|]. split; [constructor|].
    split; [reflexivity|]. intros E. contradiction E. reflexivity.
  Qed.

  Theorem file_is_best_after_any_start s0 o h :
    o = EstimateStart \/ o = QuickStart ->
    (st_other val s0 = true -> st_susp val s0 = true) ->
    cf_save val cfg = true -> Forall (f_not_nan val) h ->
    fst (fold_left spec_step h ([], st_susp val s0)) <> [] ->
    exists x f, best_latest val (fst (fold_left spec_step h ([], st_susp val s0))) x f /\
                st_fs val (run (step s0 o) h) fnm = Some (content x) /\
                st_best val (run (step s0 o) h) = Some f.
  Proof.
    intros Ho H Hsave Hnn Hc.
    destruct (inv_run h _ _ Hsave Hnn (inv_after_start s0 o Ho H)) as (_ & _ & _ & _ & HH).
    destruct (HH Hc) as (x & f & Hb & Hm & Hf). exists x, f. auto.
  Qed.

  (* T15c: the saved point is never below the first counted evaluation of the estimation, i.e.
     below the point the estimation started from *)
  Theorem restart_not_below_start h d x1 f1 rest :
    cf_save val cfg = true -> Forall (f_not_nan val) h -> counted h = (x1, f1) :: rest ->
    exists x f, st_fs val (run (fresh d) h) fnm = Some (content x) /\ In (x, f) (counted h) /\
                fge f f1 = true.
  Proof.
    intros Hsave Hnn Hc.
    destruct (inv_run h _ _ Hsave Hnn (inv_fresh d)) as (_ & _ & Hl & _ & H).
    fold (counted h) in Hl, H. rewrite Hc in Hl, H.
    destruct H as (x & f & (l1 & l2 & El & H1 & H2) & Hm & Hf); [discriminate|].
    exists x, f. split; [exact Hf|]. rewrite Hc. split.
    - rewrite El. apply in_or_app. right. left. reflexivity.
    - destruct l1 as [|p l1]; simpl in El.
      + injection El as E1 E2. inversion E1; subst. apply fge_refl.
        inversion Hl; assumption.
      + injection El as E1 E2. subst p. apply (H1 (x1, f1)). left. reflexivity.
  Qed.

  (* ------------------------------------------------------------- crash safety *)
  Definition absent_or_complete (d0 : fs) (hx : list (list val)) (d : fs) : Prop :=
    d fnm = None \/
    exists x, len_ok x = true /\ d fnm = Some (content x) /\ (In x hx \/ d0 fnm = Some (content x)).

  Lemma aoc_mono d0 hx hx' d :
    incl hx hx' -> absent_or_complete d0 hx d -> absent_or_complete d0 hx' d.
  Proof.
    intros Hi [H | (x & L & H & [Hin | H0])]; [left; exact H|right; exists x; auto|right; exists x; auto].
  Qed.

  Lemma crash_step d0 hx s o :
    absent_or_complete d0 hx (st_fs val s) ->
    absent_or_complete d0 (hx ++ evaluated val [o]) (st_fs val (step s o)).
  Proof.
    intros H.
    assert (Hsame : forall d', d' fnm = st_fs val s fnm ->
                               absent_or_complete d0 (hx ++ evaluated val [o]) d').
    { intros d' E. apply (aoc_mono d0 hx); [apply incl_appl, incl_refl|].
      destruct H as [H | (x & L & H & Hx)]; [left; congruence|right; exists x; rewrite E; auto]. }
    destruct o as [| |x f g| | |x f g k| | |xe].
    - apply Hsame. destruct (start_effect s EstimateStart (or_introl eq_refl)) as (F & _). rewrite F. reflexivity.
    - apply Hsame. destruct (start_effect s QuickStart (or_intror eq_refl)) as (F & _). rewrite F. reflexivity.
    - destruct (eval_effect s x f g) as (_ & _ & _ & [(F & _) | (G & F & _)]).
      + apply Hsame. rewrite F. reflexivity.
      + right. exists x. split; [|split; [exact F|]].
        * destruct (len_ok x); [reflexivity|discriminate].
        * left. apply in_or_app. right. simpl. auto.
    - apply Hsame. reflexivity.
    - apply Hsame. reflexivity.
    - unfold Iter.step. destruct (len_ok x) eqn:L; [|apply Hsame; reflexivity].
      rewrite save_plan_spec.
      destruct (g && cf_save val cfg && negb (st_susp val s)); [|apply Hsame; destruct k; reflexivity].
      simpl. destruct (fge f _); [|apply Hsame; destruct k; reflexivity].
      simpl. destruct (write_prefix (st_fs val s) x k) as [E | E].
      + apply Hsame. exact E.
      + right. exists x. split; [exact L|]. split; [exact E|]. left. apply in_or_app. right. simpl. auto.
    - apply Hsame. reflexivity.
    - apply Hsame. reflexivity.
    - apply Hsame. unfold Iter.step. destruct (len_ok xe); reflexivity.
  Qed.

  Lemma evaluated_app h1 h2 : evaluated val (h1 ++ h2) = evaluated val h1 ++ evaluated val h2.
  Proof. unfold evaluated. apply flat_map_app. Qed.

  Lemma crash_run h : forall d0 hx s,
    absent_or_complete d0 hx (st_fs val s) ->
    absent_or_complete d0 (hx ++ evaluated val h) (st_fs val (run s h)).
  Proof.
    induction h as [|o h IH]; intros d0 hx s H.
    - simpl. rewrite app_nil_r. exact H.
    - replace (evaluated val (o :: h)) with (evaluated val [o] ++ evaluated val h)
        by (rewrite <- evaluated_app; reflexivity).
      rewrite app_assoc. apply (IH d0 _ (step s o)). apply crash_step. exact H.
  Qed.

  (* T15e: for EVERY history -- any evaluations, estimations, bootstraps, and the process stopped
     after any number of primitive steps (bytes) of any save, any number of times -- the iteration
     file is absent, or complete: one line per free parameter holding a point that was handed to an
     evaluation (or the complete content it had at the very beginning). *)
  Theorem crash_safe h d0 :
    (d0 fnm = None \/ exists x0, len_ok x0 = true /\ d0 fnm = Some (content x0)) ->
    let d := st_fs val (run (fresh d0) h) in
    d fnm = None \/
    exists x, len_ok x = true /\ d fnm = Some (content x) /\
              (In x (evaluated val h) \/ d0 fnm = Some (content x)).
  Proof.
    intros H0.
    apply (crash_run h d0 [] (fresh d0)).
    destruct H0 as [H0 | (x0 & L & H0)]; [left; exact H0|right; exists x0; auto].
  Qed.

  Lemma complete_iff content0 :
    complete val show c cfg content0 <-> exists x, len_ok x = true /\ content0 = content x.
  Proof.
    unfold complete, Iter.len_ok. split; intros (x & L & E); exists x; split; auto;
      [apply Nat.eqb_eq|apply Nat.eqb_eq in L]; exact L.
  Qed.

  (* one save, seen alone: old content or new content, at every interruption point *)
  Theorem save_old_or_new d x k :
    let d' := run_steps d (firstn k (atomize (c_steps c fnm (flines x)))) in
    d' fnm = d fnm \/ d' fnm = Some (content x).
  Proof. apply write_prefix. Qed.

  (* --------------------------------------------------------- bootstrap / data *)
  Theorem bootstrap_never_touches_file evs : forall s,
    st_susp val s = true -> Forall (fun o => exists x f g, o = Eval x f g) evs ->
    st_fs val (run s evs) = st_fs val s /\ st_best val (run s evs) = st_best val s.
  Proof.
    induction evs as [|o evs IH]; intros s Hs H; [auto|].
    inversion H as [|? ? (x & f & g & ->) Hr]; subst.
    change (run s (Eval x f g :: evs)) with (run (step s (Eval x f g)) evs).
    destruct (eval_effect s x f g) as (S & _ & _ & [(F & [(_ & B) | (G & _)]) | (G & _)]).
    - destruct (IH (step s (Eval x f g))) as (A1 & A2); [congruence|exact Hr|].
      split; congruence.
    - rewrite Hs, andb_false_r in G. discriminate.
    - rewrite Hs, andb_false_r in G. discriminate.
  Qed.

  Lemma begin_suspends s : st_susp val (step s BootstrapBegin) = true.
  Proof. simpl. apply (ok_susp c OK). Qed.

  (* whenever the engine holds other data than the estimation data, saving is suspended *)
  Theorem other_data_implies_suspended h : forall s,
    (st_other val s = true -> st_susp val s = true) ->
    st_other val (run s h) = true -> st_susp val (run s h) = true.
  Proof.
    induction h as [|o h IH]; intros s H; [exact H|].
    change (run s (o :: h)) with (run (step s o) h). apply IH.
    destruct o as [| |x f g| | |x f g k| | |xe].
    - destruct (start_effect s EstimateStart (or_introl eq_refl)) as (_ & _ & S & O). rewrite S, O. exact H.
    - destruct (start_effect s QuickStart (or_intror eq_refl)) as (_ & _ & S & O). rewrite S, O. exact H.
    - destruct (eval_effect s x f g) as (S & O & _). rewrite S, O. exact H.
    - intros _. apply begin_suspends.
    - simpl. rewrite (ok_rest c OK). discriminate.
    - unfold Iter.step. destruct (len_ok x); [destruct (save_plan _ _ _ _ _ _ _ _)|]; simpl; discriminate.
    - simpl. discriminate.
    - simpl. rewrite (ok_abort_restores c OK). discriminate.
    - unfold Iter.step. destruct (len_ok xe); simpl; exact H.
  Qed.

  (* the shape of a complete file: one line `name = str(value)` per free parameter, in the
     order of the names *)
  Theorem file_lines_shape x : len_ok x = true ->
    flines x = map (fun nv => (fst nv ++ " = " ++ show (snd nv) ++ String nl "")%string)
                   (combine (cf_names val cfg) x) /\
    List.length (flines x) = List.length (cf_names val cfg).
  Proof.
    intros L. apply Nat.eqb_eq in L. unfold file_lines. split.
    - apply map_ext. intros [n v]. apply (ok_line c OK).
    - rewrite map_length, combine_length. lia.
  Qed.

  Theorem file_name_injective m1 m2 : c_file_name c m1 = c_file_name c m2 -> m1 = m2.
  Proof.
    rewrite !(ok_name c OK). intros H. apply append_cancel_l in H. apply append_cancel_r in H. exact H.
  Qed.
End Thm.

(* ================================================================== reading back *)
Section RoundTrip.
  Variable val : Type.
  Variable show : val -> string.
  Variable read : string -> option val.
  Variable os_replace : fs -> string -> string -> fs.
  Hypothesis replace_atomic : forall d a b, os_replace d a b = os_replace_atomic d a b.
  Variable c : code.
  Hypothesis OK : code_ok c.
  (* ASSUMPTIONS on Python's float <-> str: float(str(v)) == v bit for bit; str(v) contains no
     '=' and no line break, and no white space at its ends *)
  Hypothesis read_show : forall v, read (show v) = Some v.
  Hypothesis show_strip : forall v, py_strip (" " ++ show v ++ String nl "")%string = show v.
  Hypothesis show_noeq : forall v, no_char "=" (show v) = true.
  Hypothesis show_nonl : forall v, no_char nl (show v) = true.

  (* a parameter name that survives the format: no line break, no white space at its ends
     (it MAY contain '=') *)
  Definition name_ok (n : string) : Prop := no_char nl n = true /\ py_strip (n ++ " ")%string = n.

  Lemma load_lines : forall l : list (string * val),
    Forall (fun nv => name_ok (fst nv)) l ->
    load_file val read c (cat (map (fun nv => c_line c (fst nv) (show (snd nv))) l)) = Some l.
  Proof.
    induction l as [|[n v] l IH]; intros H; [reflexivity|].
    inversion H as [|? ? [Hn1 Hn2] Hl]; subst. simpl in Hn1, Hn2.
    specialize (IH Hl). unfold load_file in *.
    cbn [map cat fold_right fst snd]. fold (cat (map (fun nv => c_line c (fst nv) (show (snd nv))) l)).
    set (R := cat (map (fun nv => c_line c (fst nv) (show (snd nv))) l)) in *.
    rewrite (ok_line c OK).
    replace ((n ++ " = " ++ show v ++ String nl "") ++ R)%string
      with ((n ++ " = " ++ show v) ++ String nl R)%string
      by (rewrite !append_assoc; reflexivity).
    rewrite split_lines_line.
    2:{ rewrite no_char_app, Hn1. simpl. apply show_nonl. }
    cbn [parse_lines].
    replace ((n ++ " = " ++ show v) ++ String nl "")%string
      with ((n ++ " ") ++ String "=" (" " ++ show v ++ String nl ""))%string
      by (rewrite !append_assoc; reflexivity).
    rewrite (ok_parse c OK).
    2:{ simpl. rewrite no_char_app, show_noeq. reflexivity. }
    rewrite Hn2. unfold py_float. rewrite show_strip, read_show, IH. reflexivity.
  Qed.

  Variable cfg : config val.
  Notation step := (step val show read os_replace c cfg).
  Notation run := (run val show read os_replace c cfg).
  Notation fnm := (fname val c cfg).
  Notation content := (file_content val show c cfg).
  Notation len_ok := (len_ok val cfg).

  Hypothesis names_ok : Forall name_ok (cf_names val cfg).
  Hypothesis names_distinct : NoDup (cf_names val cfg).

  Lemma Forall_combine_fst {A B} (P : A -> Prop) (l1 : list A) : forall (l2 : list B),
    Forall P l1 -> Forall (fun p => P (fst p)) (combine l1 l2).
  Proof.
    induction l1 as [|a l1 IH]; intros [|b l2] H; simpl; try constructor.
    - inversion H; assumption.
    - apply IH. inversion H; assumption.
  Qed.

  (* T15b: what is written reads back to exactly the same names and values *)
  Theorem roundtrip_bits x :
    load_file val read c (content x) = Some (combine (cf_names val cfg) x).
  Proof.
    unfold file_content, file_lines. apply load_lines. apply Forall_combine_fst. exact names_ok.
  Qed.

  (* T15d: an estimation (either kind) of the same model starts from the saved values *)
  Theorem restart_uses_file s x o :
    o = EstimateStart \/ o = QuickStart ->
    cf_save val cfg = true -> len_ok x = true ->
    List.length (st_init val s) = List.length (cf_names val cfg) ->
    st_fs val s fnm = Some (content x) ->
    st_init val (step s o) = x.
  Proof.
    intros Ho Hsave L Hi Hf. apply Nat.eqb_eq in L.
    assert (E : load_saved val read c cfg (st_fs val s) (st_init val s) = Some x).
    { unfold load_saved. rewrite Hf, roundtrip_bits. f_equal.
      apply apply_betas_combine; auto. }
    destruct Ho as [-> | ->]; unfold Iter.step; [rewrite (ok_estimate c OK)|rewrite (ok_quick c OK)];
      simpl; rewrite Hsave, E; reflexivity.
  Qed.

  Theorem restart_without_file s o :
    o = EstimateStart \/ o = QuickStart -> st_fs val s fnm = None ->
    st_init val (step s o) = st_init val s.
  Proof.
    intros Ho Hf.
    assert (E : load_saved val read c cfg (st_fs val s) (st_init val s) = Some (st_init val s)).
    { unfold load_saved. rewrite Hf. reflexivity. }
    destruct Ho as [-> | ->]; unfold Iter.step; [rewrite (ok_estimate c OK)|rewrite (ok_quick c OK)];
      simpl; destruct (cf_save val cfg); simpl; try rewrite E; reflexivity.
  Qed.

  (* T15e': the whole story.  Whatever happened before -- any history, stopped anywhere -- a new
     process that estimates the same model succeeds in reading the file and starts either from
     its own default values (no file) or from a point that was really evaluated (or that the
     complete file held at the very beginning). *)
  Theorem restart_after_any_history h d0 o :
    o = EstimateStart \/ o = QuickStart ->
    cf_save val cfg = true ->
    List.length (cf_init0 val cfg) = List.length (cf_names val cfg) ->
    (d0 fnm = None \/ exists x0, len_ok x0 = true /\ d0 fnm = Some (content x0)) ->
    let s := step (run (fresh val cfg d0) h) Kill in
    (st_fs val s fnm = None /\ st_init val (step s o) = cf_init0 val cfg) \/
    (exists x, len_ok x = true /\ st_fs val s fnm = Some (content x) /\
               load_saved val read c cfg (st_fs val s) (st_init val s) = Some x /\
               st_init val (step s o) = x /\
               (In x (evaluated val h) \/ d0 fnm = Some (content x))).
  Proof.
    intros Ho Hsave Hi H0 s.
    destruct (crash_safe val show read os_replace replace_atomic c OK cfg h d0 H0) as [Ha | (x & L & Hf & Hx)].
    - left. split; [exact Ha|]. rewrite restart_without_file; auto.
    - right. exists x. split; [exact L|]. split; [exact Hf|]. split; [|split; [|exact Hx]].
      + unfold load_saved. change (st_fs val s) with (st_fs val (run (fresh val cfg d0) h)).
        rewrite Hf, roundtrip_bits. f_equal. apply apply_betas_combine; auto.
        apply Nat.eqb_eq in L. exact L.
      + apply restart_uses_file; auto.
  Qed.
End RoundTrip.

(* ============================================ concrete instance, witnesses, refutations *)
(* values as decimal text; os.replace atomic *)
Notation tstep := (step string show_txt read_txt os_replace_atomic).
Notation trun := (run string show_txt read_txt os_replace_atomic).
Notation tfresh := (fresh string).
Notation tcontent := (file_content string show_txt).

Definition cfg2 : config string :=
  {| cf_names := ["b1"; "b2"]%string; cf_model := "m"%string; cf_save := true;
     cf_init0 := ["0.25"; "-0.5"]%string |}.

(* variants of the generated code: one field replaced *)
Definition with_steps (c : code) (st : string -> list string -> list fsop) : code :=
  {| c_file_name := c_file_name c; c_guard := c_guard c; c_mark0 := c_mark0 c; c_test := c_test c;
     c_mark1 := c_mark1 c; c_steps := st; c_line := c_line c; c_parse := c_parse c;
     c_estimate := c_estimate c; c_quick := c_quick c;
     c_boot_suspends := c_boot_suspends c; c_boot_restores := c_boot_restores c;
     c_abort_resumes := c_abort_resumes c; c_abort_restores := c_abort_restores c |}.
Definition with_mark1 (c : code) (m : option fval -> fval -> option fval) : code :=
  {| c_file_name := c_file_name c; c_guard := c_guard c; c_mark0 := c_mark0 c; c_test := c_test c;
     c_mark1 := m; c_steps := c_steps c; c_line := c_line c; c_parse := c_parse c;
     c_estimate := c_estimate c; c_quick := c_quick c;
     c_boot_suspends := c_boot_suspends c; c_boot_restores := c_boot_restores c;
     c_abort_resumes := c_abort_resumes c; c_abort_restores := c_abort_restores c |}.
Definition with_parse (c : code) (p : string -> option (string * string)) : code :=
  {| c_file_name := c_file_name c; c_guard := c_guard c; c_mark0 := c_mark0 c; c_test := c_test c;
     c_mark1 := c_mark1 c; c_steps := c_steps c; c_line := c_line c; c_parse := p;
     c_estimate := c_estimate c; c_quick := c_quick c;
     c_boot_suspends := c_boot_suspends c; c_boot_restores := c_boot_restores c;
     c_abort_resumes := c_abort_resumes c; c_abort_restores := c_abort_restores c |}.
Definition with_quick (c : code) (q : list startop) : code :=
  {| c_file_name := c_file_name c; c_guard := c_guard c; c_mark0 := c_mark0 c; c_test := c_test c;
     c_mark1 := c_mark1 c; c_steps := c_steps c; c_line := c_line c; c_parse := c_parse c;
     c_estimate := c_estimate c; c_quick := q;
     c_boot_suspends := c_boot_suspends c; c_boot_restores := c_boot_restores c;
     c_abort_resumes := c_abort_resumes c; c_abort_restores := c_abort_restores c |}.
Definition with_abort (c : code) (su re : bool) : code :=
  {| c_file_name := c_file_name c; c_guard := c_guard c; c_mark0 := c_mark0 c; c_test := c_test c;
     c_mark1 := c_mark1 c; c_steps := c_steps c; c_line := c_line c; c_parse := c_parse c;
     c_estimate := c_estimate c; c_quick := c_quick c;
     c_boot_suspends := c_boot_suspends c; c_boot_restores := c_boot_restores c;
     c_abort_resumes := su; c_abort_restores := re |}.
Definition with_boot (c : code) (su re : bool) : code :=
  {| c_file_name := c_file_name c; c_guard := c_guard c; c_mark0 := c_mark0 c; c_test := c_test c;
     c_mark1 := c_mark1 c; c_steps := c_steps c; c_line := c_line c; c_parse := c_parse c;
     c_estimate := c_estimate c; c_quick := c_quick c;
     c_boot_suspends := su; c_boot_restores := re;
     c_abort_resumes := c_abort_resumes c; c_abort_restores := c_abort_restores c |}.

Definition old_file : fs := upd empty_fs "__m.iter" (Some (tcontent the_code cfg2 ["1.5"; "2.5"]%string)).

(* non-vacuity of T15a / T15c: improving, worsening, equal and non-finite evaluations *)
Definition h_demo : list (op string) :=
  [EstimateStart;
   Eval ["0.0"; "0.0"]%string (FFin (-2400)) true;
   Eval ["0.5"; "0.5"]%string (FFin (-1225)) true;
   Eval ["0.25"; "0.25"]%string (FFin (-1756)) true;
   Eval ["nan"; "0.0"]%string FNaN false;
   Eval ["1.5"; "0.5"]%string (FFin (-1225)) true;
   BootstrapBegin; Eval ["1.0"; "2.0"]%string (FFin 0) true; BootstrapEnd].

Lemma demo_file :
  st_fs string (trun the_code cfg2 (tfresh cfg2 empty_fs) h_demo) "__m.iter"%string
  = Some ("b1 = 1.5" ++ String nl ("b2 = 0.5" ++ String nl ""))%string
  /\ st_fs string (trun the_code cfg2 (tfresh cfg2 empty_fs) h_demo) "__m.iter.tmp"%string = None
  /\ counted string cfg2 h_demo <> [].
Proof. vm_compute. repeat split; discriminate. Qed.

(* non-vacuity of T15e: the process is stopped after 13 primitive steps of the second save *)
Lemma demo_crash :
  let d := st_fs string (trun the_code cfg2 (tfresh cfg2 old_file)
              [EstimateStart; Eval ["0.5"; "0.5"]%string (FFin (-1225)) true;
               CrashEval ["0.75"; "0.5"]%string (FFin (-1000)) true 13]) in
  d "__m.iter"%string = Some ("b1 = 0.5" ++ String nl ("b2 = 0.5" ++ String nl ""))%string /\
  d "__m.iter.tmp"%string = Some ("b1 = 0.75" ++ String nl "b2")%string.
Proof. vm_compute. split; reflexivity. Qed.

(* --- the write discipline is what carries T15e: truncate-and-write-in-place refutes it. *)
Definition inplace_code : code := with_steps the_code inplace_steps.

Lemma inplace_code_lines n t : c_line inplace_code n t = (n ++ " = " ++ t ++ String nl "")%string.
Proof. apply (ok_line the_code the_code_ok). Qed.

(* witness: 2-parameter model, a complete file on disk, the process stopped right after the first
   line of the next save.  The file is then neither the old one nor the new one, it is not
   complete, and a restart begins at (b1 of the new point, b2 of the default): a point that was
   never evaluated.  Two bytes later ("b2" without '=') the restart dies in the parser. *)
Theorem crash_safe_inplace_refuted :
  exists (d0 : fs) (x : list string) (f : fval) (k : nat),
    complete string show_txt inplace_code cfg2
      (match d0 (fname string inplace_code cfg2) with Some s => s | None => ""%string end) /\
    let s := trun inplace_code cfg2 (tfresh cfg2 d0) [CrashEval x f true k] in
    exists content0, st_fs string s (fname string inplace_code cfg2) = Some content0 /\
      ~ complete string show_txt inplace_code cfg2 content0 /\
      Some content0 <> d0 (fname string inplace_code cfg2) /\
      content0 <> tcontent inplace_code cfg2 x /\
      load_saved string read_txt inplace_code cfg2 (st_fs string s) (st_init string s)
        = Some ["0.5"; "-0.5"]%string /\
      load_saved string read_txt inplace_code cfg2
        (st_fs string (trun inplace_code cfg2 (tfresh cfg2 d0) [CrashEval x f true (k + 2)]))
        (cf_init0 string cfg2) = None.
Proof.
  exists old_file, ["0.5"; "0.75"]%string, (FFin 5), 10%nat.
  split.
  { exists ["1.5"; "2.5"]%string. split; reflexivity. }
  exists ("b1 = 0.5" ++ String nl "")%string.
  split; [vm_compute; reflexivity|].
  split.
  { intros H. assert (OKi : forall n t, c_line inplace_code n t = (n ++ " = " ++ t ++ String nl "")%string)
      by apply inplace_code_lines.
    destruct H as (x & L & E). destruct x as [|v1 [|v2 [|v3 x]]]; try discriminate.
    apply (f_equal String.length) in E. unfold file_content, file_lines in E. simpl in E.
    unfold show_txt, gen_line in E. simpl in E. rewrite !append_length in E. simpl in E.
    rewrite ?append_length in E. simpl in E. lia. }
  split; [vm_compute; discriminate|].
  split; [vm_compute; discriminate|].
  split; vm_compute; reflexivity.
Qed.

(* --- the marker update is what carries T15a (the unrepaired code never updated it) *)
Theorem marker_not_updated_refuted :
  let c0 := with_mark1 the_code (fun b _ => b) in
  let h := [Eval ["0.0"; "0.0"]%string (FFin (-2400)) true;
            Eval ["0.5"; "0.5"]%string (FFin (-1225)) true;
            Eval ["0.25"; "0.25"]%string (FFin (-1756)) true] in
  st_fs string (trun c0 cfg2 (tfresh cfg2 empty_fs) h) (fname string c0 cfg2)
    = Some (tcontent c0 cfg2 ["0.25"; "0.25"]%string) /\
  In (["0.5"; "0.5"]%string, FFin (-1225)) (counted string cfg2 h) /\
  fge (FFin (-1756)) (FFin (-1225)) = false.
Proof. vm_compute. repeat split; auto. Qed.

(* --- split("=") instead of rsplit("=", 1): a name containing '=' cannot be read back *)
Theorem split_parser_refuted :
  let c0 := with_parse the_code (fun line =>
              match nth_error (split_on "=" line) 0, nth_error (split_on "=" line) 1 with
              | Some a, Some b => Some (py_strip a, b) | _, _ => None end) in
  let cfg := {| cf_names := ["a=b"; "b2"]%string; cf_model := "m"%string; cf_save := true;
                cf_init0 := ["0.25"; "-0.5"]%string |} in
  load_file string read_txt c0 (tcontent c0 cfg ["0.5"; "0.5"]%string)
    <> Some (combine (cf_names string cfg) ["0.5"; "0.5"]%string) /\
  load_file string read_txt the_code (tcontent the_code cfg ["0.5"; "0.5"]%string)
    = Some (combine (cf_names string cfg) ["0.5"; "0.5"]%string).
Proof. vm_compute. split; [discriminate|reflexivity]. Qed.

(* --- quick_estimate without the prologue: does not start from the saved values and
       overwrites a better saved point with its own start *)
Theorem quick_without_prologue_refuted :
  let c0 := with_quick the_code [] in
  let s := tstep c0 cfg2 (tfresh cfg2 old_file) QuickStart in
  st_init string s = ["0.25"; "-0.5"]%string /\
  st_fs string (tstep c0 cfg2 s (Eval ["0.25"; "-0.5"]%string (FFin (-3350)) true)) "__m.iter"%string
    = Some (tcontent c0 cfg2 ["0.25"; "-0.5"]%string) /\
  st_init string (tstep the_code cfg2 (tfresh cfg2 old_file) QuickStart) = ["1.5"; "2.5"]%string.
Proof. vm_compute. repeat split; reflexivity. Qed.

(* --- bootstrap without suspension / without putting the estimation data back *)
Theorem bootstrap_not_suspended_refuted :
  let c0 := with_boot the_code false true in
  st_fs string (trun c0 cfg2 (tfresh cfg2 old_file)
     [EstimateStart; Eval ["1.0"; "2.0"]%string (FFin 0) true; BootstrapBegin;
      Eval ["0.9"; "2.1"]%string (FFin 7) true]) "__m.iter"%string
  = Some (tcontent c0 cfg2 ["0.9"; "2.1"]%string).
Proof. vm_compute. reflexivity. Qed.

Theorem bootstrap_data_not_restored_refuted :
  let c0 := with_boot the_code true false in
  let s := trun c0 cfg2 (tfresh cfg2 old_file) [EstimateStart; BootstrapBegin; BootstrapEnd; QuickStart] in
  st_other string s = true /\ st_susp string s = false /\
  st_fs string (tstep c0 cfg2 s (Eval ["0.9"; "2.1"]%string (FFin 7) true)) "__m.iter"%string
  = Some (tcontent c0 cfg2 ["0.9"; "2.1"]%string).
Proof. vm_compute. repeat split; reflexivity. Qed.

(* --- the estimation data put back AFTER the loop instead of in its `finally` clause: a loop left
       by an exception (Ctrl-C, an error on a resample) leaves saving enabled on resampled data *)
Theorem abort_data_not_restored_refuted :
  let c0 := with_abort the_code true false in
  let h := [EstimateStart; BootstrapBegin; Eval ["0.9"; "2.0"]%string (FFin 3) true; BootstrapAbort] in
  let s := trun c0 cfg2 (tfresh cfg2 old_file) h in
  st_other string s = true /\ st_susp string s = false /\
  st_fs string (tstep c0 cfg2 s (Eval ["0.9"; "2.1"]%string (FFin 7) true)) "__m.iter"%string
  = Some (tcontent c0 cfg2 ["0.9"; "2.1"]%string) /\
  st_other string (trun the_code cfg2 (tfresh cfg2 old_file) h) = false /\
  st_susp string (trun the_code cfg2 (tfresh cfg2 old_file) h) = false.
Proof. vm_compute. repeat split; reflexivity. Qed.
