(* The executable interval extension [PhiI_series] (Model/PhiI.v) of the standard normal CDF
   encloses the concrete function [Phi_def] x = 1/2 + RInt npdf 0 x (Model/PhiDef.v).

   Mathematics (no Gaussian integral is needed):
     1. S(x) = x * T(x^2) with T the power series of coefficients 1/(2k+1)!! (infinite radius,
        d'Alembert) satisfies S' = 1 + x S  (termwise differentiation, [is_derive_PSeries], and
        an identity between coefficient sequences: [phiT_ode]).
     2. Phi_def' = npdf (fundamental theorem, [is_derive_RInt]) and npdf' t = -t npdf t, hence
        x |-> Phi_def x - npdf x * S x has zero derivative; with the mean value theorem
        ([MVT_gen]) it is constant = 1/2:  [Phi_def_series].
     3. For x^2 <= 64 and N = 220 the terms decay at least geometrically (ratio <= 1/2) beyond
        N, so |S(x) - sum_{k<=N} t_k| <= |t_N|  ([phiS_tail]); the executable loop [phi_terms]
        encloses the partial sum and t_N ([phi_terms_c]).  => [PhiI_main_correct].
     4. For r <= -8: Phi_def is increasing and t |-> Phi_def t - npdf t / 8 is decreasing on
        (-oo, -8], so Phi_def(-8) - npdf(8)/8 <= Phi_def r <= Phi_def(-8); both ends are within
        2^-50 of 0 by evaluating the PROVED enclosure at the point -8 ([num1_sign], [num2_sign],
        vm_compute on closed interval terms).  For r >= 8: Phi_def r = 1 - Phi_def (-r) because
        S is odd and npdf even.
   Main result: [PhiI_series_correct]. *)
From Coq Require Import Reals ZArith Lra Lia.
From Coquelicot Require Import Coquelicot.
From Interval Require Import Xreal Specific_bigint Specific_ops Float_full Interval Basic.
From BV Require Import Model.Expr Model.EvalI Model.PhiI Model.PhiDef Proofs.EvalIP.
Open Scope R_scope.

(* ------------------------------------------------------------------ the power series phiT *)
(* coefficients a_k = 1/(2k+1)!! *)
Fixpoint dfact_inv (k : nat) : R :=
  match k with O => 1 | S k' => dfact_inv k' / (2 * INR k' + 3) end.

Lemma dfact_inv_pos k : 0 < dfact_inv k.
Proof.
  induction k as [|k IH]; cbn [dfact_inv]; [lra|].
  apply Rdiv_lt_0_compat; [exact IH|]. pose proof (pos_INR k). lra.
Qed.

Lemma dfact_inv_ratio_lim : is_lim_seq (fun n => Rabs (dfact_inv (S n) / dfact_inv n)) 0.
Proof.
  apply is_lim_seq_le_le with (u := fun _ => 0) (w := fun n => / (INR n + 1)).
  - intros n. cbn [dfact_inv]. pose proof (dfact_inv_pos n) as Hp. pose proof (pos_INR n) as Hn.
    replace (dfact_inv n / (2 * INR n + 3) / dfact_inv n) with (/ (2 * INR n + 3)) by (field; lra).
    assert (0 < / (2 * INR n + 3)) by (apply Rinv_0_lt_compat; lra).
    rewrite Rabs_pos_eq by lra. split; [lra|].
    apply Rinv_le_contravar; lra.
  - apply is_lim_seq_const.
  - replace (Finite 0) with (Rbar_inv p_infty) by reflexivity.
    apply is_lim_seq_inv; [|discriminate].
    apply is_lim_seq_ext with (u := fun n => INR (S n)).
    + intros n. rewrite S_INR. reflexivity.
    + apply (is_lim_seq_incr_1 INR). apply is_lim_seq_INR.
Qed.

Lemma dfact_inv_cv : CV_radius dfact_inv = p_infty.
Proof.
  apply CV_radius_infinite_DAlembert.
  - intros n. pose proof (dfact_inv_pos n). lra.
  - exact dfact_inv_ratio_lim.
Qed.

Lemma dfact_inv_ex y : ex_pseries dfact_inv y.
Proof. apply CV_radius_inside. rewrite dfact_inv_cv. exact I. Qed.

Lemma dfact_inv_derive_ex y : ex_pseries (PS_derive dfact_inv) y.
Proof. apply CV_radius_inside. rewrite CV_radius_derive, dfact_inv_cv. exact I. Qed.

Definition phiT (y : R) : R := PSeries dfact_inv y.
Definition phiT' (y : R) : R := PSeries (PS_derive dfact_inv) y.

Lemma phiT_derive y : is_derive phiT y (phiT' y).
Proof. apply is_derive_PSeries. rewrite dfact_inv_cv. exact I. Qed.

(* the ODE at coefficient level *)
Lemma phiT_ode y : phiT y + 2 * (y * phiT' y) = 1 + y * phiT y.
Proof.
  unfold phiT, phiT'.
  rewrite <- (PSeries_incr_1 (PS_derive dfact_inv)), <- PSeries_scal.
  rewrite <- PSeries_plus;
    [| apply dfact_inv_ex | apply ex_pseries_scal; [apply Rmult_comm | apply ex_pseries_incr_1, dfact_inv_derive_ex]].
  set (d := PS_plus dfact_inv (PS_scal 2 (PS_incr_1 (PS_derive dfact_inv)))).
  assert (Hd : ex_pseries d y).
  { apply ex_pseries_plus; [apply dfact_inv_ex|].
    apply ex_pseries_scal; [apply Rmult_comm | apply ex_pseries_incr_1, dfact_inv_derive_ex]. }
  rewrite (PSeries_decr_1 d y Hd).
  f_equal.
  - unfold d, PS_plus, PS_scal, PS_incr_1. cbn. unfold plus, scal, mult, zero; cbn. unfold mult; cbn. lra.
  - f_equal. apply PSeries_ext. intros n.
    unfold d, PS_decr_1, PS_plus, PS_scal, PS_incr_1, PS_derive. cbn [dfact_inv].
    unfold plus, scal, mult; cbn. unfold mult; cbn.
    pose proof (pos_INR n). pose proof (dfact_inv_pos n).
    replace (match n with 0%nat => 1 | S _ => INR n + 1 end) with (INR n + 1)
      by (destruct n; cbn [INR]; lra).
    field. lra.
Qed.

(* ------------------------------------------------------------------ S and the density *)
Definition phiS (x : R) : R := x * phiT (x * x).

Lemma phiS_derive x : is_derive phiS x (1 + x * phiS x).
Proof.
  unfold phiS. auto_derive.
  - exists (phiT' (x * x)). apply phiT_derive.
  - change (fun x0 : R => phiT x0) with phiT. rewrite (is_derive_unique _ _ _ (phiT_derive (x * x))).
    pose proof (phiT_ode (x * x)). nra.
Qed.

Lemma sqrt2pi_pos : 0 < sqrt (2 * PI).
Proof. apply sqrt_lt_R0. pose proof PI_RGT_0. lra. Qed.

Lemma npdf_pos t : 0 < npdf t.
Proof. unfold npdf. apply Rdiv_lt_0_compat; [apply exp_pos | apply sqrt2pi_pos]. Qed.

Lemma npdf_derive t : is_derive npdf t (- t * npdf t).
Proof.
  unfold npdf. auto_derive.
  - exact I.
  - pose proof sqrt2pi_pos. unfold Rdiv. field. lra.
Qed.

(* ------------------------------------------------------------------ Phi_def = 1/2 + npdf * S *)
Lemma npdf_continuous t : continuous npdf t.
Proof. apply (ex_derive_continuous (V := R_NormedModule) npdf t). exists (- t * npdf t). apply npdf_derive. Qed.

Lemma npdf_ex_RInt a b : ex_RInt npdf a b.
Proof. apply (ex_RInt_continuous (V := R_CompleteNormedModule) npdf a b). intros z _. apply npdf_continuous. Qed.

Lemma Phi_def_derive x : is_derive Phi_def x (npdf x).
Proof.
  unfold Phi_def.
  evar_last.
  - apply (is_derive_plus (fun _ => 1 / 2) (RInt npdf 0)).
    + apply is_derive_const.
    + apply (is_derive_RInt npdf (RInt npdf 0) 0 x).
      * exists (mkposreal 1 Rlt_0_1). intros y _. apply (RInt_correct (V := R_CompleteNormedModule) npdf 0 y), npdf_ex_RInt.
      * apply npdf_continuous.
  - unfold plus, zero; cbn. lra.
Qed.

Lemma Phi_def_0 : Phi_def 0 = 1 / 2.
Proof. unfold Phi_def. rewrite RInt_point. unfold zero; cbn. lra. Qed.

(* a function whose derivative has a sign is monotone; zero derivative => constant *)
Lemma derive_sign (f df : R -> R) (a b : R) :
  a <= b -> (forall x, a <= x <= b -> is_derive f x (df x)) ->
  exists c, a <= c <= b /\ f b - f a = df c * (b - a).
Proof.
  intros Hab Hd.
  pose proof (MVT_gen f a b df) as H. cbv zeta in H.
  rewrite Rmin_left, Rmax_right in H by lra.
  apply H.
  - intros x Hx. apply Hd. lra.
  - intros x Hx. apply continuity_pt_filterlim. apply (ex_derive_continuous f x).
    exists (df x). apply Hd, Hx.
Qed.

Lemma derive_zero_const (f : R -> R) :
  (forall x, is_derive f x 0) -> forall x, f x = f 0.
Proof.
  intros Hd x.
  destruct (Rle_dec 0 x) as [H|H].
  - destruct (derive_sign f (fun _ => 0) 0 x H (fun y _ => Hd y)) as (c & _ & E). lra.
  - destruct (derive_sign f (fun _ => 0) x 0 ltac:(lra) (fun y _ => Hd y)) as (c & _ & E). lra.
Qed.

Theorem Phi_def_series x : Phi_def x = 1 / 2 + npdf x * phiS x.
Proof.
  pose (H := fun x => Phi_def x - npdf x * phiS x).
  assert (Hd : forall x, is_derive H x 0).
  { intros y. unfold H. evar_last.
    - apply (is_derive_minus Phi_def (fun x => npdf x * phiS x)).
      + apply Phi_def_derive.
      + apply (is_derive_mult npdf phiS).
        * apply npdf_derive.
        * apply phiS_derive.
        * intros a b; apply Rmult_comm.
    - unfold minus, plus, opp, mult; cbn. ring. }
  pose proof (derive_zero_const H Hd x) as E. unfold H in E.
  rewrite Phi_def_0 in E. unfold phiS at 2 in E. lra.
Qed.

Lemma phiS_odd x : phiS (- x) = - phiS x.
Proof. unfold phiS. replace (- x * - x) with (x * x) by ring. ring. Qed.

Lemma npdf_even x : npdf (- x) = npdf x.
Proof. unfold npdf. replace (- x * - x) with (x * x) by ring. reflexivity. Qed.

Lemma Phi_def_sym x : Phi_def x = 1 - Phi_def (- x).
Proof. rewrite !Phi_def_series, phiS_odd, npdf_even. lra. Qed.

(* ------------------------------------------------------------------ truncation *)
(* terms of phiT at y, and of phiS at x *)
Definition phi_u (y : R) (k : nat) : R := dfact_inv k * y ^ k.

Lemma phi_u_S y k : phi_u y (S k) = phi_u y k * y / (2 * INR k + 3).
Proof. unfold phi_u. cbn [dfact_inv pow]. pose proof (pos_INR k). field. lra. Qed.

Lemma phi_u_nonneg y k : 0 <= y -> 0 <= phi_u y k.
Proof.
  intros Hy. unfold phi_u. apply Rmult_le_pos; [pose proof (dfact_inv_pos k); lra | apply pow_le, Hy].
Qed.

Lemma phi_u_ex_series y : ex_series (phi_u y).
Proof. apply (proj1 (ex_pseries_R dfact_inv y)). apply dfact_inv_ex. Qed.

(* geometric decay once 2k+3 >= 2y *)
Lemma phi_u_decay y N j : 0 <= y -> 2 * y <= 2 * INR N + 3 ->
  phi_u y (N + j) <= phi_u y N * (1 / 2) ^ j.
Proof.
  intros Hy HN. induction j as [|j IH].
  - rewrite Nat.add_0_r. cbn [pow]. lra.
  - rewrite Nat.add_succ_r, phi_u_S. cbn [pow].
    pose proof (phi_u_nonneg y (N + j) Hy) as Hp.
    pose proof (pos_INR j) as Hj. pose proof (pos_INR N) as HN0. rewrite plus_INR.
    assert (Hr : 0 <= y / (2 * (INR N + INR j) + 3) <= 1 / 2).
    { split.
      - apply Rle_mult_inv_pos; [exact Hy | lra].
      - apply Rle_div_l; [lra|]. lra. }
    replace (phi_u y (N + j) * y / (2 * (INR N + INR j) + 3))
      with (phi_u y (N + j) * (y / (2 * (INR N + INR j) + 3))) by (field; lra).
    nra.
Qed.

Lemma half_series : Series (fun j => (1 / 2) ^ j) = 2.
Proof. rewrite Series_geom; [lra|]. rewrite Rabs_pos_eq; lra. Qed.

Lemma phiT_tail y N : 0 <= y -> 2 * y <= 2 * INR N + 3 ->
  0 <= phiT y - sum_f_R0 (phi_u y) N <= phi_u y N.
Proof.
  intros Hy HN.
  unfold phiT, PSeries. change (fun k => dfact_inv k * y ^ k) with (phi_u y).
  rewrite (Series_incr_n (phi_u y) (S N)) by (try lia; apply phi_u_ex_series).
  cbn [pred].
  set (tl := Series (fun k => phi_u y (S N + k))).
  assert (Hg : ex_series (fun j => phi_u y N * (1 / 2 * (1 / 2) ^ j))).
  { apply (ex_series_scal_l (K := R_AbsRing) (V := R_NormedModule) (phi_u y N)
             (fun j => 1 / 2 * (1 / 2) ^ j)).
    apply (ex_series_scal_l (K := R_AbsRing) (V := R_NormedModule) (1 / 2)
             (fun j => (1 / 2) ^ j)).
    apply ex_series_geom. rewrite Rabs_pos_eq; lra. }
  assert (Hle : forall j, 0 <= phi_u y (S N + j) <= phi_u y N * (1 / 2 * (1 / 2) ^ j)).
  { intros j. split; [apply phi_u_nonneg, Hy|].
    replace (S N + j)%nat with (N + S j)%nat by lia.
    pose proof (phi_u_decay y N (S j) Hy HN) as H. cbn [pow] in H. exact H. }
  assert (H1 : tl <= phi_u y N).
  { unfold tl.
    apply Rle_trans with (Series (fun j => phi_u y N * (1 / 2 * (1 / 2) ^ j))).
    - apply Series_le; [exact Hle | exact Hg].
    - rewrite Series_scal_l, Series_scal_l. change (Series (pow (1 / 2))) with (Series (fun j => (1 / 2) ^ j)). rewrite half_series. lra. }
  assert (H0 : 0 <= tl).
  { unfold tl. replace 0 with (Series (fun _ : nat => 0)).
    - apply Series_le.
      + intros j. split; [lra | apply phi_u_nonneg, Hy].
      + apply (proj1 (ex_series_incr_n (phi_u y) (S N))), phi_u_ex_series.
    - transitivity (0 * Series (fun _ : nat => 0)); [|ring].
      rewrite <- Series_scal_l. apply Series_ext. intros; ring. }
  lra.
Qed.

(* terms and partial sums of phiS *)
Definition phi_tm (x : R) (k : nat) : R := x * phi_u (x * x) k.

Lemma phi_tm_0 x : phi_tm x 0 = x.
Proof. unfold phi_tm, phi_u. cbn. ring. Qed.

Lemma phi_tm_S x k : phi_tm x (S k) = phi_tm x k * (x * x) / (2 * INR k + 3).
Proof. unfold phi_tm. rewrite phi_u_S. pose proof (pos_INR k). field. lra. Qed.

Lemma phi_tm_sum x N : sum_f_R0 (phi_tm x) N = x * sum_f_R0 (phi_u (x * x)) N.
Proof. induction N as [|N IH]; cbn [sum_f_R0]; [reflexivity|]. rewrite IH. unfold phi_tm. ring. Qed.

Lemma phiS_tail x N : 2 * (x * x) <= 2 * INR N + 3 ->
  Rabs (phiS x - sum_f_R0 (phi_tm x) N) <= Rabs (phi_tm x N).
Proof.
  intros HN.
  assert (Hy : 0 <= x * x) by nra.
  pose proof (phiT_tail (x * x) N Hy HN) as Ht.
  rewrite phi_tm_sum. unfold phiS, phi_tm.
  replace (x * phiT (x * x) - x * sum_f_R0 (phi_u (x * x)) N)
    with (x * (phiT (x * x) - sum_f_R0 (phi_u (x * x)) N)) by ring.
  rewrite !Rabs_mult.
  apply Rmult_le_compat_l; [apply Rabs_pos|].
  pose proof (phi_u_nonneg (x * x) N Hy).
  rewrite !Rabs_pos_eq; lra.
Qed.

(* ------------------------------------------------------------------ the interval code, |x| <= 8 *)
#[local] Opaque I.add I.sub I.mul I.div I.exp I.power_int I.fromZ I.abs I.neg I.sqr I.sqrt I.pi
       I.join I.sign_strict.

Lemma sqr_c x a : cont x a -> cont (I.sqr prec x) (a * a).
Proof. intros H; exact (I.sqr_correct prec x (Xreal a) H). Qed.

Lemma sqrt_c x a : cont x a -> cont (I.sqrt prec x) (sqrt a).
Proof. intros H; exact (I.sqrt_correct prec x (Xreal a) H). Qed.

Lemma pi_c : cont (I.pi prec) PI.
Proof. exact (I.pi_correct prec). Qed.

(* a symmetric hull: everything between -b and b *)
Lemma hull_c lo hi a b z : cont lo a -> cont hi b -> a <= z <= b -> cont (I.join lo hi) z.
Proof.
  intros Ha Hb Hz.
  apply (contains_connected (I.convert (I.join lo hi)) a b).
  - apply I.join_correct. left. exact Ha.
  - apply I.join_correct. right. exact Hb.
  - exact Hz.
Qed.

Lemma npdfI_c x2 r : cont x2 (r * r) -> cont (npdfI x2) (npdf r).
Proof.
  intros H. unfold npdfI, npdf.
  replace (- (r * r) / 2) with (- (r * r / 2)) by lra.
  apply div_c.
  - pose proof sqrt2pi_pos. lra.
  - apply exp_c, neg_c, div_c; [lra | exact H | apply (fromZ_c 2)].
  - apply sqrt_c, mul_c; [apply (fromZ_c 2) | apply pi_c].
Qed.

Lemma phi_terms_c r x2 : cont x2 (r * r) ->
  forall n k t acc, cont t (phi_tm r k) -> cont acc (sum_f_R0 (phi_tm r) k) ->
  cont (fst (phi_terms n (Z.of_nat k) t x2 acc)) (sum_f_R0 (phi_tm r) (k + n)) /\
  cont (snd (phi_terms n (Z.of_nat k) t x2 acc)) (phi_tm r (k + n)).
Proof.
  intros Hx2 n. induction n as [|n IH]; intros k t acc Ht Hacc.
  - rewrite Nat.add_0_r. cbn [phi_terms fst snd]. split; assumption.
  - cbn [phi_terms].
    replace (Z.of_nat k + 1)%Z with (Z.of_nat (S k)) by lia.
    replace (k + S n)%nat with (S k + n)%nat by lia.
    assert (Ht' : cont (I.div prec (I.mul prec t x2) (I.fromZ prec (2 * Z.of_nat k + 3))) (phi_tm r (S k))).
    { rewrite phi_tm_S.
      replace (2 * INR k + 3) with (IZR (2 * Z.of_nat k + 3))
        by (rewrite plus_IZR, mult_IZR, <- INR_IZR_INZ; reflexivity).
      apply div_c.
      - apply not_0_IZR. lia.
      - apply mul_c; assumption.
      - apply fromZ_c. }
    apply IH.
    + exact Ht'.
    + cbn [sum_f_R0]. apply add_c; assumption.
Qed.

Theorem PhiI_main_correct x r : cont x r -> Rabs r <= 8 -> cont (PhiI_main x) (Phi_def r).
Proof.
  intros Hx Hr. unfold PhiI_main.
  pose proof (sqr_c x r Hx) as Hx2.
  assert (H0 : cont x (phi_tm r 0)) by (rewrite phi_tm_0; exact Hx).
  pose proof (phi_terms_c r (I.sqr prec x) Hx2 220 0 x x H0 H0) as [Hs Ht].
  change (Z.of_nat 0) with 0%Z in Hs, Ht. cbn [Nat.add] in Hs, Ht.
  destruct (phi_terms 220 0 x (I.sqr prec x) x) as [s tN]. cbn [fst snd] in Hs, Ht.
  rewrite Phi_def_series.
  apply add_c.
  - apply div_c; [lra | apply (fromZ_c 1) | apply (fromZ_c 2)].
  - apply mul_c; [apply npdfI_c, Hx2|].
    replace (phiS r) with (sum_f_R0 (phi_tm r) 220 + (phiS r - sum_f_R0 (phi_tm r) 220)) by ring.
    apply add_c; [exact Hs|].
    assert (Hb : cont (I.mul prec (I.fromZ prec 2) (I.abs tN)) (2 * Rabs (phi_tm r 220))).
    { apply mul_c; [apply (fromZ_c 2) | apply abs_c, Ht]. }
    apply (hull_c _ _ (- (2 * Rabs (phi_tm r 220))) (2 * Rabs (phi_tm r 220))).
    + apply neg_c, Hb.
    + exact Hb.
    + assert (Hq : 2 * (r * r) <= 2 * INR 220 + 3).
      {         assert (r * r <= 64).
        { replace (r * r) with (Rabs r * Rabs r) by (rewrite <- Rabs_mult; apply Rabs_pos_eq; nra).
          pose proof (Rabs_pos r). nra. }
        replace (INR 220) with 220 by (rewrite INR_IZR_INZ; reflexivity). lra. }
      pose proof (phiS_tail r 220 Hq) as Htl.
      pose proof (Rabs_pos (phi_tm r 220)).
      apply Rabs_le_between in Htl. lra.
Qed.

(* ------------------------------------------------------------------ |x| > 8 and the theorem *)
(* ---- beyond |x| > 8 *)
Lemma Phi_def_mono a b : a <= b -> Phi_def a <= Phi_def b.
Proof.
  intros Hab.
  destruct (derive_sign Phi_def npdf a b Hab (fun x _ => Phi_def_derive x)) as (c & _ & E).
  pose proof (npdf_pos c). nra.
Qed.

Lemma Phi_def_far_low r : r <= -8 -> Phi_def (-8) - npdf (-8) / 8 <= Phi_def r.
Proof.
  intros Hr.
  pose (h := fun t => Phi_def t - / 8 * npdf t).
  assert (Hd : forall t, r <= t <= -8 -> is_derive h t (npdf t * (1 + t / 8))).
  { intros t _. unfold h. evar_last.
    - apply (is_derive_minus Phi_def (fun t => / 8 * npdf t)).
      + apply Phi_def_derive.
      + apply (is_derive_scal npdf t (/ 8)). apply npdf_derive.
    - unfold minus, plus, opp, scal, mult; cbn. unfold mult; cbn. field. }
  destruct (derive_sign h _ r (-8) Hr Hd) as (c & Hc & E). unfold h in E.
  pose proof (npdf_pos c). pose proof (npdf_pos r).
  assert (H1 : npdf c * (1 + c / 8) <= 0).
  { replace (npdf c * (1 + c / 8)) with (- (npdf c * (- (1 + c / 8)))) by ring.
    apply Ropp_le_cancel. rewrite Ropp_involutive, Ropp_0.
    apply Rmult_le_pos; lra. }
  assert (H2 : 0 <= - (npdf c * (1 + c / 8)) * (-8 - r)) by (apply Rmult_le_pos; lra).
  lra.
Qed.

Definition i_m8 : I.type := I.fromZ prec (-8).

Lemma tiny_c : cont i_tiny (powerRZ 2 (-50)).
Proof. unfold i_tiny. apply power_int_c; [right; lra | apply (fromZ_c 2)]. Qed.

Lemma Phi_m8_c : cont (PhiI_main i_m8) (Phi_def (-8)).
Proof.
  apply PhiI_main_correct; [apply (fromZ_c (-8))|].
  rewrite Rabs_left; lra.
Qed.

Lemma num1_sign : isign (I.sub prec i_tiny (PhiI_main i_m8)) = SPos.
Proof. vm_compute. reflexivity. Qed.

Lemma num2_sign :
  isign (I.add prec (I.sub prec (PhiI_main i_m8)
                       (I.div prec (npdfI (I.sqr prec i_m8)) (I.fromZ prec 8))) i_tiny) = SPos.
Proof. vm_compute. reflexivity. Qed.

Lemma Phi_m8_upper : Phi_def (-8) < powerRZ 2 (-50).
Proof.
  pose proof (isign_spec _ _ (sub_c _ _ _ _ tiny_c Phi_m8_c)) as H.
  rewrite num1_sign in H. cbn [sgn_ok] in H. lra.
Qed.

Lemma Phi_m8_lower : - powerRZ 2 (-50) < Phi_def (-8) - npdf (-8) / 8.
Proof.
  assert (Hd : cont (I.div prec (npdfI (I.sqr prec i_m8)) (I.fromZ prec 8)) (npdf (-8) / 8)).
  { apply div_c; [lra | | apply (fromZ_c 8)].
    apply npdfI_c, sqr_c, (fromZ_c (-8)). }
  pose proof (isign_spec _ _ (add_c _ _ _ _ (sub_c _ _ _ _ Phi_m8_c Hd) tiny_c)) as H.
  rewrite num2_sign in H. cbn [sgn_ok] in H. lra.
Qed.

Lemma Phi_def_far r : r <= -8 -> - powerRZ 2 (-50) <= Phi_def r <= powerRZ 2 (-50).
Proof.
  intros Hr.
  pose proof (Phi_def_far_low r Hr). pose proof (Phi_def_mono r (-8) Hr).
  pose proof Phi_m8_upper. pose proof Phi_m8_lower. lra.
Qed.

Lemma nai_c r : cont I.nai r.
Proof. unfold cont. rewrite I.nai_correct. exact I. Qed.

Theorem PhiI_series_correct : forall i r,
  contains (I.convert i) (Xreal r) -> contains (I.convert (PhiI_series i)) (Xreal (Phi_def r)).
Proof.
  intros i r Hi. change (cont i r) in Hi. change (cont (PhiI_series i) (Phi_def r)).
  unfold PhiI_series.
  assert (H8 : cont i_eight 8) by apply (fromZ_c 8).
  pose proof (isign_spec _ _ (sub_c _ _ _ _ H8 (abs_c _ _ Hi))) as Hs.
  destruct (isign (I.sub prec i_eight (I.abs i))); cbn [sgn_ok] in Hs.
  - pose proof (isign_spec _ _ Hi) as Hx.
    destruct (isign i); cbn [sgn_ok] in Hx.
    + rewrite Rabs_left in Hs by exact Hx.
      pose proof (Phi_def_far r ltac:(lra)) as Hf.
      apply (hull_c _ _ (- powerRZ 2 (-50)) (powerRZ 2 (-50))).
      * apply neg_c, tiny_c.
      * apply tiny_c.
      * exact Hf.
    + exact (nai_c _).
    + rewrite Rabs_pos_eq in Hs by lra.
      pose proof (Phi_def_far (- r) ltac:(lra)) as Hf.
      rewrite (Phi_def_sym r).
      apply (hull_c _ _ (1 - powerRZ 2 (-50)) (1 + powerRZ 2 (-50))).
      * apply sub_c; [apply (fromZ_c 1) | apply tiny_c].
      * apply add_c; [apply (fromZ_c 1) | apply tiny_c].
      * lra.
    + exact (nai_c _).
  - apply PhiI_main_correct; [exact Hi|]. lra.
  - apply PhiI_main_correct; [exact Hi|]. lra.
  - exact (nai_c _).
Qed.

(* non-vacuity: the proved enclosure is informative -- at the point 0 it pins Phi_def 0 = 1/2 to 2^-80 *)
Lemma PhiI_series_at_0 : in_tol (PhiI_series (I.fromZ prec 0)) (1, -1)%Z (-80) = true.
Proof. vm_compute. reflexivity. Qed.
