(* Proofs about saving / re-loading estimation results: the statistics of a re-loaded results
   object are those of the saved one, because _calculate_stats is a function of attributes it
   never assigns (the attribute sets are GENERATED from the source, Gen/Results.v). *)
From Coq Require Import List String Bool Lia.
From BV Require Import Model.PyBase Model.Pickle Gen.Results.

Lemma str_mem_In a l : str_mem a l = true <-> In a l.
Proof.
  unfold str_mem. rewrite existsb_exists. split.
  - intros (y & Hy & E). apply String.eqb_eq in E. subst. exact Hy.
  - intros H. exists a. split; [exact H|apply String.eqb_refl].
Qed.

Lemma str_mem_false a l : str_mem a l = false <-> ~ In a l.
Proof. rewrite <- str_mem_In. destruct (str_mem a l); split; congruence. Qed.

Section RoundTrip.
  Variable V : Type.
  Variables ins outs : list string.
  Variable name_attr : string.
  Hypothesis frame : forall a, In a ins -> ~ In a outs.     (* inputs are never assigned *)
  Hypothesis name_not_in : ~ In name_attr ins.
  Hypothesis name_not_out : ~ In name_attr outs.
  Variable derive : list (option V) -> string -> option V.
  Variable cleared : list string.
  Variable cleared_value : string -> option V.
  Variable Bytes : Type.
  Variables (dumps : obj V -> Bytes) (loads : Bytes -> obj V).
  (* ASSUMED (external): pickle.load(pickle.dump(x)) has the same attributes with the same values *)
  Hypothesis loads_dumps : forall o a, loads (dumps o) a = o a.

  Let calc := calculate_stats ins outs derive cleared cleared_value.

  Lemma snapshot_ext (o1 o2 : obj V) :
    (forall a, In a ins -> o1 a = o2 a) -> snapshot ins o1 = snapshot ins o2.
  Proof. intros H. unfold snapshot. apply map_ext_in. exact H. Qed.

  Lemma calc_inputs o a : In a ins -> calc o a = o a.
  Proof.
    intros Ha. unfold calc, calculate_stats.
    apply frame in Ha. apply str_mem_false in Ha. rewrite Ha. reflexivity.
  Qed.

  (* the statistics are a function of the input attributes only *)
  Theorem stats_function_of_inputs o1 o2 a :
    (forall x, In x ins -> o1 x = o2 x) -> In a outs ->
    derive (snapshot ins o1) a <> None -> calc o1 a = calc o2 a.
  Proof.
    intros Hin Ha Hd. unfold calc, calculate_stats.
    apply str_mem_In in Ha. rewrite Ha.
    rewrite <- (snapshot_ext o1 o2 Hin).
    destruct (derive (snapshot ins o1) a); [reflexivity|contradiction].
  Qed.

  (* T14e.  raw --bioResults--> saved --write_pickle(name n)--> bytes --bioResults(pickle_file)-->
     loaded: every attribute of the re-loaded record (estimates, every statistic and table) equals
     the attribute of the record that was written (whose only change is the pickle file name). *)
  Theorem pickle_roundtrip (raw : obj V) (n : V) (a : string) :
    let saved := results_of_raw ins outs derive cleared cleared_value raw in
    let '(data', bytes) := write_pickle Bytes dumps name_attr saved n in
    results_of_pickle ins outs derive cleared cleared_value Bytes loads bytes a = data' a.
  Proof.
    cbn zeta. unfold write_pickle, results_of_pickle, results_of_raw. cbn beta iota zeta.
    change (calculate_stats ins outs derive cleared cleared_value) with calc.
    set (saved := calc raw). set (data' := set_attr saved name_attr n).
    assert (Hsnap : snapshot ins (loads (dumps data')) = snapshot ins raw).
    { apply snapshot_ext. intros x Hx. rewrite loads_dumps. unfold data', set_attr.
      destruct (String.eqb x name_attr) eqn:E.
      - apply String.eqb_eq in E. subst x. contradiction.
      - apply calc_inputs. exact Hx. }
    unfold calc at 1. unfold calculate_stats. rewrite Hsnap.
    destruct (str_mem a outs) eqn:Ea; [|apply loads_dumps].
    destruct (derive (snapshot ins raw) a) as [v|] eqn:Ed.
    2:{ destruct (str_mem a cleared) eqn:Ec; [|apply loads_dumps].
        unfold data', set_attr. destruct (String.eqb a name_attr) eqn:E.
        - apply String.eqb_eq in E. subst a. apply str_mem_In in Ea. contradiction.
        - unfold saved, calc, calculate_stats. rewrite Ea, Ed, Ec. reflexivity. }
    unfold data', set_attr.
    destruct (String.eqb a name_attr) eqn:E.
    - apply String.eqb_eq in E. subst a. apply str_mem_In in Ea. contradiction.
    - unfold saved, calc, calculate_stats. rewrite Ea, Ed. reflexivity.
  Qed.
End RoundTrip.

(* the frame conditions, decided on the attribute lists generated from the source *)
Lemma stats_frame : forall a, In a stats_inputs -> ~ In a stats_outputs.
Proof.
  assert (H : forallb (fun a => negb (str_mem a stats_outputs)) stats_inputs = true) by (vm_compute; reflexivity).
  rewrite forallb_forall in H. intros a Ha Hout. specialize (H a Ha).
  apply str_mem_In in Hout. rewrite Hout in H. discriminate.
Qed.

Lemma pickle_name_not_in : ~ In pickle_name_attr stats_inputs.
Proof. apply str_mem_false. vm_compute. reflexivity. Qed.

Lemma pickle_name_not_out : ~ In pickle_name_attr stats_outputs.
Proof. apply str_mem_false. vm_compute. reflexivity. Qed.

(* what _clear_stats resets is derived: every cleared attribute is one that _calculate_stats itself
   assigns, none is an input (decided on the generated lists) *)
Lemma cleared_are_outputs : forall a, In a stats_cleared -> In a stats_outputs /\ ~ In a stats_inputs.
Proof.
  assert (H : forallb (fun a => str_mem a stats_outputs && negb (str_mem a stats_inputs)) stats_cleared = true)
    by (vm_compute; reflexivity).
  rewrite forallb_forall in H. intros a Ha. specialize (H a Ha).
  apply andb_true_iff in H. destruct H as [H1 H2]. split.
  - apply str_mem_In. exact H1.
  - apply str_mem_false. destruct (str_mem a stats_inputs); [discriminate|reflexivity].
Qed.

(* T14e instantiated with what the source reads and assigns *)
Theorem pickle_roundtrip_results (V Bytes : Type) (derive : list (option V) -> string -> option V)
    (cleared_value : string -> option V)
    (dumps : obj V -> Bytes) (loads : Bytes -> obj V) :
  (forall o a, loads (dumps o) a = o a) ->
  forall (raw : obj V) (n : V) (a : string),
    let saved := results_of_raw stats_inputs stats_outputs derive stats_cleared cleared_value raw in
    let '(data', bytes) := write_pickle Bytes dumps pickle_name_attr saved n in
    results_of_pickle stats_inputs stats_outputs derive stats_cleared cleared_value Bytes loads bytes a = data' a.
Proof.
  intros Hld. apply pickle_roundtrip; auto using stats_frame, pickle_name_not_in, pickle_name_not_out.
Qed.
