(* Basic lemmas for the choice-model builders: finite sums of reals, evaluation of the node
   shapes the builders produce, Python values, dictionaries. *)
From Coq Require Import Reals Lra Lia List ZArith Bool.
From BV Require Import Model.EvalX Model.BuildersChoice.
Open Scope R_scope.

(* ------------------------------------------------------------------ finite sums *)
Lemma Rsum_ext {A} (f g : A -> R) l : (forall x, In x l -> f x = g x) -> Rsum f l = Rsum g l.
Proof.
  induction l as [|a l IH]; simpl; intros H; [reflexivity|].
  rewrite (H a) by now left. rewrite IH; [reflexivity|]. intros; apply H; now right.
Qed.

Lemma Rsum_nonneg {A} (f : A -> R) l : (forall x, In x l -> 0 <= f x) -> 0 <= Rsum f l.
Proof.
  induction l as [|a l IH]; simpl; intros H; [lra|].
  assert (0 <= f a) by (apply H; now left). assert (0 <= Rsum f l) by (apply IH; intros; apply H; now right). lra.
Qed.

Lemma Rsum_ge_term {A} (f : A -> R) l x :
  (forall y, In y l -> 0 <= f y) -> In x l -> f x <= Rsum f l.
Proof.
  induction l as [|a l IH]; simpl; intros H Hx; [tauto|].
  assert (0 <= f a) by (apply H; now left).
  assert (0 <= Rsum f l) by (apply Rsum_nonneg; intros; apply H; now right).
  destruct Hx as [->|Hx]; [lra|].
  assert (f x <= Rsum f l) by (apply IH; auto). lra.
Qed.

Lemma Rsum_pos {A} (f : A -> R) l x :
  (forall y, In y l -> 0 <= f y) -> In x l -> 0 < f x -> 0 < Rsum f l.
Proof. intros H Hx Hp. pose proof (Rsum_ge_term f l x H Hx). lra. Qed.

Lemma Rsum_scal {A} (f : A -> R) c l : Rsum (fun x => c * f x) l = c * Rsum f l.
Proof. induction l as [|a l IH]; simpl; [ring|]. rewrite IH. ring. Qed.

Lemma Rsum_plus {A} (f g : A -> R) l : Rsum (fun x => f x + g x) l = Rsum f l + Rsum g l.
Proof. induction l as [|a l IH]; simpl; [ring|]. rewrite IH. ring. Qed.

Lemma Rsum_div {A} (f : A -> R) d l : Rsum (fun x => f x / d) l = Rsum f l / d.
Proof. unfold Rdiv. induction l as [|a l IH]; simpl; [ring|]. rewrite IH. ring. Qed.

Lemma Rsum_map {A B} (h : A -> B) (f : B -> R) l : Rsum f (map h l) = Rsum (fun x => f (h x)) l.
Proof. induction l as [|a l IH]; simpl; congruence. Qed.

Lemma Rsum_app {A} (f : A -> R) l1 l2 : Rsum f (l1 ++ l2) = Rsum f l1 + Rsum f l2.
Proof. induction l1 as [|a l IH]; simpl; [ring|]. rewrite IH. ring. Qed.

Lemma Rsum_zero {A} (f : A -> R) l : (forall x, In x l -> f x = 0) -> Rsum f l = 0.
Proof.
  induction l as [|a l IH]; simpl; intros H; [reflexivity|].
  rewrite (H a) by now left. rewrite IH; [ring|]. intros; apply H; now right.
Qed.

Lemma Rsum_le {A} (f g : A -> R) l : (forall x, In x l -> f x <= g x) -> Rsum f l <= Rsum g l.
Proof.
  induction l as [|a l IH]; simpl; intros H; [lra|].
  assert (f a <= g a) by (apply H; now left).
  assert (Rsum f l <= Rsum g l) by (apply IH; intros; apply H; now right). lra.
Qed.

Lemma Rsum_flat_map {A B} (h : A -> list B) (f : B -> R) l :
  Rsum f (flat_map h l) = Rsum (fun x => Rsum f (h x)) l.
Proof. induction l as [|a l IH]; simpl; [reflexivity|]. rewrite Rsum_app, IH. reflexivity. Qed.

(* ------------------------------------------------------------------ booleans on reals *)
Lemma Rnz_true r : Rnz r = true <-> r <> 0.
Proof. unfold Rnz. destruct (Req_EM_T r 0); split; intros; congruence. Qed.
Lemma Rnz_false r : Rnz r = false <-> r = 0.
Proof. unfold Rnz. destruct (Req_EM_T r 0); split; intros; congruence. Qed.
Lemma Rnz_0 : Rnz 0 = false. Proof. now apply Rnz_false. Qed.
Lemma Rnz_1 : Rnz 1 = true. Proof. apply Rnz_true; lra. Qed.
Lemma Rltb'_true a b : a < b -> Rltb' a b = true.
Proof. unfold Rltb'. destruct (Rlt_dec a b); tauto. Qed.
Lemma Rltb'_false a b : ~ a < b -> Rltb' a b = false.
Proof. unfold Rltb'. destruct (Rlt_dec a b); tauto. Qed.
Lemma Reqb'_true a b : a = b -> Reqb' a b = true.
Proof. unfold Reqb'. destruct (Req_EM_T a b); tauto. Qed.
Lemma Reqb'_false a b : a <> b -> Reqb' a b = false.
Proof. unfold Reqb'. destruct (Req_EM_T a b); tauto. Qed.

Lemma D2R_zero : D2R d_zero = 0. Proof. unfold D2R, d_zero; simpl; ring. Qed.
Lemma D2R_one : D2R d_one = 1. Proof. unfold D2R, d_one; simpl; ring. Qed.

Lemma Int_part_IZR z : Int_part (IZR z) = z.
Proof.
  destruct (base_Int_part (IZR z)) as [H1 H2].
  apply le_IZR in H1.
  assert (H3 : IZR (z - 1) < IZR (Int_part (IZR z))) by (rewrite minus_IZR; lra).
  apply lt_IZR in H3. lia.
Qed.

Lemma R2Z_IZR z : R2Z (IZR z) = Some z.
Proof.
  unfold R2Z. rewrite Int_part_IZR. destruct (Req_EM_T (IZR z) (IZR z)); congruence.
Qed.

(* ------------------------------------------------------------------ powers *)
Lemma IZR_pow2 e : (0 <= e)%Z -> IZR (2 ^ e) = powerRZ 2 e.
Proof.
  intros He. rewrite <- (Z2Nat.id e He) at 2. rewrite <- pow_powerRZ.
  rewrite <- (Z2Nat.id e He) at 1. rewrite <- pow_IZR. reflexivity.
Qed.

Lemma dyadic_is_int_D2R c n : dyadic_is_int c = Some n -> D2R c = IZR n.
Proof.
  destruct c as [m e]. unfold dyadic_is_int, D2R. simpl fst; simpl snd.
  destruct (Z.leb_spec 0 e) as [He|He].
  - intros [= <-]. rewrite mult_IZR, IZR_pow2 by assumption. reflexivity.
  - destruct (Z.eqb_spec (m mod 2 ^ (- e)) 0) as [Hm|Hm]; [|discriminate].
    intros [= <-].
    assert (Hp : (0 < 2 ^ (- e))%Z) by (apply Z.pow_pos_nonneg; lia).
    assert (Hd : m = (2 ^ (- e) * (m / 2 ^ (- e)))%Z).
    { rewrite (Z.div_mod m (2 ^ (- e))) at 1 by lia. lia. }
    rewrite Hd at 1. rewrite mult_IZR, IZR_pow2 by lia.
    assert (Hq : powerRZ 2 e = / powerRZ 2 (- e)).
    { rewrite <- powerRZ_neg'. f_equal. lia. }
    rewrite Hq. field. apply powerRZ_NOR. lra.
Qed.

Lemma xpowc_pos c x : 0 < x -> xpowc c (XR x) = XR (Rpower x (D2R c)).
Proof.
  intros Hx. unfold xpowc. destruct (dyadic_is_int c) as [n|] eqn:E.
  - rewrite (dyadic_is_int_D2R _ _ E). rewrite <- powerRZ_Rpower by assumption.
    destruct (0 <=? n)%Z; [reflexivity|].
    assert (Hn : Rnz x = true) by (apply Rnz_true; lra). rewrite Hn. reflexivity.
  - rewrite Rltb'_true by assumption. reflexivity.
Qed.

(* ------------------------------------------------------------------ dictionaries *)
Lemma memZ_In k l : memZ k l = true <-> In k l.
Proof.
  unfold memZ. rewrite existsb_exists. split.
  - intros (x & Hx & E). apply Z.eqb_eq in E. now subst.
  - intros H. exists k. split; [assumption|apply Z.eqb_refl].
Qed.
Lemma memZ_false k l : memZ k l = false <-> ~ In k l.
Proof. rewrite <- memZ_In. destruct (memZ k l); split; intros; congruence. Qed.

Lemma subsetZ_incl a b : subsetZ a b = true <-> incl a b.
Proof.
  unfold subsetZ, incl. rewrite forallb_forall. split; intros H x Hx.
  - apply memZ_In. now apply H.
  - apply memZ_In. now apply H.
Qed.

Lemma nodupZ_NoDup l : nodupZ l = true <-> NoDup l.
Proof.
  induction l as [|x l IH]; simpl.
  - split; [constructor|reflexivity].
  - rewrite andb_true_iff, negb_true_iff, memZ_false, IH. split.
    + intros [H1 H2]. now constructor.
    + intros H. inversion H; subst. tauto.
Qed.

Lemma keys_dmap {A B} (f : A -> B) (d : dict A) : keys (dmap f d) = keys d.
Proof. unfold keys, dmap. rewrite map_map. reflexivity. Qed.

Lemma get_In {A} (d : dict A) k v : get d k = Some v -> In (k, v) d.
Proof.
  induction d as [|[k' v'] d IH]; simpl; [discriminate|].
  destruct (Z.eqb_spec k k') as [->|Hk]; [intros [= ->]; now left|intros H; right; auto].
Qed.

Lemma get_keys {A} (d : dict A) k : In k (keys d) -> exists v, get d k = Some v.
Proof.
  induction d as [|[k' v'] d IH]; simpl; [tauto|].
  destruct (Z.eqb_spec k k') as [->|Hk]; [intros _; eauto|].
  intros [E|H]; [congruence|auto].
Qed.

Lemma get_keys_In {A} (d : dict A) k : In k (keys d) -> exists v, get d k = Some v /\ In (k, v) d.
Proof. intros H. destruct (get_keys d k H) as [v Hv]. exists v. split; [assumption|now apply get_In]. Qed.

Lemma get_None {A} (d : dict A) k : ~ In k (keys d) -> get d k = None.
Proof.
  induction d as [|[k' v'] d IH]; simpl; [reflexivity|]. intros H.
  destruct (Z.eqb_spec k k') as [->|Hk]; [tauto|]. apply IH. tauto.
Qed.

Lemma In_get_nodup {A} (d : dict A) k v : NoDup (keys d) -> In (k, v) d -> get d k = Some v.
Proof.
  induction d as [|[k' v'] d IH]; simpl; [tauto|]. intros Hn H.
  inversion Hn as [|? ? Hnotin Hn']; subst.
  destruct (Z.eqb_spec k k') as [->|Hk].
  - destruct H as [[= ->]|H]; [reflexivity|]. exfalso. apply Hnotin.
    change k' with (fst (k', v)). now apply in_map.
  - destruct H as [[= -> ->]|H]; [congruence|auto].
Qed.

Lemma get_dmap {A B} (f : A -> B) (d : dict A) k : get (dmap f d) k = option_map f (get d k).
Proof.
  induction d as [|[k' v'] d IH]; simpl; [reflexivity|].
  destruct (k =? k')%Z; [reflexivity|assumption].
Qed.

Lemma In_keys {A} (d : dict A) k v : In (k, v) d -> In k (keys d).
Proof. intros H. change k with (fst (k, v)). now apply in_map. Qed.

Lemma In_dmap {A B} (f : A -> B) (d : dict A) k w :
  In (k, w) (dmap f d) -> exists v, In (k, v) d /\ w = f v.
Proof.
  unfold dmap. rewrite in_map_iff. intros ([k' v] & [= <- <-] & H). eauto.
Qed.

(* ------------------------------------------------------------------ evaluation *)
Section Eval.
  Variable Phi : R -> R.
  Variable en : env.
  Notation ev e := (evalX Phi e en).

  Lemma ev_num d : ev (ENumD d) = XR (D2R d).
  Proof. reflexivity. Qed.

  Lemma ev_multsum {A} (f : A -> expr) (g : A -> R) l :
    (forall x, In x l -> ev (f x) = XR (g x)) -> ev (EMultSum (map f l)) = XR (Rsum g l).
  Proof.
    intros H. simpl. rewrite map_map. unfold xsum.
    induction l as [|a l IH]; simpl; [reflexivity|].
    rewrite IH by (intros; apply H; now right). rewrite (H a) by now left. reflexivity.
  Qed.

  Lemma ev_multsum_list l (g : expr -> R) :
    (forall x, In x l -> ev x = XR (g x)) -> ev (EMultSum l) = XR (Rsum g l).
  Proof. intros H. rewrite <- (map_id l) at 1. now apply ev_multsum. Qed.

  Lemma ev_condsum {A} (c t : A -> expr) (cv tv : A -> R) l :
    (forall x, In x l -> ev (c x) = XR (cv x)) ->
    (forall x, In x l -> cv x <> 0 -> ev (t x) = XR (tv x)) ->
    ev (ECondSum (map (fun x => (c x, t x)) l))
    = XR (Rsum (fun x => if Rnz (cv x) then tv x else 0) l).
  Proof.
    intros Hc Ht. simpl.
    induction l as [|a l IH]; simpl; [reflexivity|].
    rewrite (Hc a) by now left.
    simpl in IH. rewrite IH; [|intros; apply Hc; now right|intros; apply Ht; [now right|assumption]].
    destruct (Rnz (cv a)) eqn:E.
    - rewrite (Ht a); [reflexivity|now left|now apply Rnz_true].
    - simpl. f_equal. ring.
  Qed.

  (* ---------------- Python values *)
  Definition pvX (p : pv) : xval := ev (to_e p).

  Lemma pvX_PN d : pvX (PN d) = XR (D2R d). Proof. reflexivity. Qed.

  Lemma ev_bin op a b : ev (EBin op a b) = xbin op (ev a) (ev b).
  Proof. reflexivity. Qed.
  Lemma ev_un_exp a : ev (EUn Exp a) = xun Phi Exp (ev a). Proof. reflexivity. Qed.
  Lemma ev_un_log a : ev (EUn Log a) = xun Phi Log (ev a). Proof. reflexivity. Qed.
  Lemma ev_un_logzero a : ev (EUn Logzero a) = xun Phi Logzero (ev a). Proof. reflexivity. Qed.
  Lemma ev_un_uminus a : ev (EUn UMinus a) = xun Phi UMinus (ev a). Proof. reflexivity. Qed.
  Lemma ev_un_ncdf a : ev (EUn NormalCdf a) = xun Phi NormalCdf (ev a). Proof. reflexivity. Qed.
  Lemma ev_powc a c : ev (EPowC a c) = xpowc c (ev a). Proof. reflexivity. Qed.

  Ltac pv2 a b Ha Hb :=
    unfold pvX in *; destruct a, b; cbn [padd psub pmul pdiv to_e] in *;
    rewrite ?ev_bin, ?Ha, ?Hb.

  Lemma pvX_padd_PE a e x y : pvX a = XR x -> ev e = XR y -> pvX (padd a (PE e)) = XR (x + y).
  Proof. intros Ha Hb. unfold pvX in *; destruct a; cbn [padd to_e] in *; rewrite ev_bin, Ha, Hb; reflexivity. Qed.
  Lemma pvX_pmul_PE a e x y : pvX a = XR x -> ev e = XR y -> pvX (pmul a (PE e)) = XR (x * y).
  Proof. intros Ha Hb. unfold pvX in *; destruct a; cbn [pmul to_e] in *; rewrite ev_bin, Ha, Hb; reflexivity. Qed.
  Lemma pvX_padd_PE_l e b x y : ev e = XR x -> pvX b = XR y -> pvX (padd (PE e) b) = XR (x + y).
  Proof. intros Ha Hb. unfold pvX in *; destruct b; cbn [padd to_e] in *; rewrite ev_bin, Ha, Hb; reflexivity. Qed.

  (* definedness: arithmetic on two real-valued Python values gives a real-valued one *)
  Lemma pvX_padd_def a b x y : pvX a = XR x -> pvX b = XR y -> exists z, pvX (padd a b) = XR z.
  Proof. intros Ha Hb. pv2 a b Ha Hb; simpl; eauto. Qed.
  Lemma pvX_psub_def a b x y : pvX a = XR x -> pvX b = XR y -> exists z, pvX (psub a b) = XR z.
  Proof. intros Ha Hb. pv2 a b Ha Hb; simpl; eauto. Qed.
  Lemma pvX_pmul_def a b x y : pvX a = XR x -> pvX b = XR y -> exists z, pvX (pmul a b) = XR z.
  Proof. intros Ha Hb. pv2 a b Ha Hb; simpl; eauto. Qed.
  Lemma pvX_pdiv_def a b x y : pvX a = XR x -> pvX b = XR y -> y <> 0 -> exists z, pvX (pdiv a b) = XR z.
  Proof.
    intros Ha Hb Hy. apply Rnz_true in Hy. pv2 a b Ha Hb; simpl; rewrite ?Hy; eauto.
  Qed.

  (* exact values when one operand is an Expression *)
  Lemma pvX_psub_PE_l e b x y : ev e = XR x -> pvX b = XR y -> pvX (psub (PE e) b) = XR (x - y).
  Proof. intros Ha Hb. unfold pvX in *; destruct b; cbn [psub to_e] in *; rewrite ev_bin, Ha, Hb; reflexivity. Qed.
  Lemma pvX_psub_PE_r a e x y : pvX a = XR x -> ev e = XR y -> pvX (psub a (PE e)) = XR (x - y).
  Proof. intros Ha Hb. unfold pvX in *; destruct a; cbn [psub to_e] in *; rewrite ev_bin, Ha, Hb; reflexivity. Qed.
  Lemma pvX_pdiv_PE_l e b x y : ev e = XR x -> pvX b = XR y -> y <> 0 -> pvX (pdiv (PE e) b) = XR (x / y).
  Proof.
    intros Ha Hb Hy. apply Rnz_true in Hy.
    unfold pvX in *; destruct b; cbn [pdiv to_e] in *; rewrite ev_bin, Ha, Hb; simpl; rewrite Hy; reflexivity.
  Qed.
  Lemma pvX_pdiv_PE_r a e x y : pvX a = XR x -> ev e = XR y -> y <> 0 -> pvX (pdiv a (PE e)) = XR (x / y).
  Proof.
    intros Ha Hb Hy. apply Rnz_true in Hy.
    unfold pvX in *; destruct a; cbn [pdiv to_e] in *; rewrite ev_bin, Ha, Hb; simpl; rewrite Hy; reflexivity.
  Qed.

  (* Expression ** value, positive base *)
  Lemma ev_epow a b x y : ev a = XR x -> 0 < x -> pvX b = XR y -> ev (epow a b) = XR (Rpower x y).
  Proof.
    unfold pvX. intros Ha Hx Hb. destruct b as [d|e].
    - simpl in *. rewrite Ha, xpowc_pos by assumption. congruence.
    - assert (Hgen : ev (EBin Power a e) = XR (Rpower x y)).
      { simpl. simpl in Hb. rewrite Ha, Hb. simpl. rewrite Rltb'_true by assumption. reflexivity. }
      destruct e as [h k]. destruct h; try exact Hgen.
      destruct k; try exact Hgen.
      simpl in *. rewrite Ha, xpowc_pos by assumption. congruence.
  Qed.

  (* `x != Numeric(0)` *)
  Lemma ev_pne0 a x : pvX a = XR x -> ev (pne0 a) = XR (b2R (Rnz x)).
  Proof.
    unfold pvX. destruct a as [d|e]; simpl; intros H.
    - injection H as <-. unfold D2R at 1. simpl. rewrite Rmult_0_l.
      f_equal. f_equal. unfold Reqb', Rnz.
      destruct (Req_EM_T 0 (D2R d)), (Req_EM_T (D2R d) 0); try reflexivity; exfalso; congruence.
    - rewrite H. simpl. f_equal. f_equal. unfold D2R. simpl. rewrite Rmult_0_l.
      unfold Reqb', Rnz. destruct (Req_EM_T x 0); reflexivity.
  Qed.

  Lemma Rnz_b2R_Rnz x : Rnz (b2R (Rnz x)) = Rnz x.
  Proof. destruct (Rnz x); simpl; [apply Rnz_1|apply Rnz_0]. Qed.
End Eval.
