(* Proofs about the GENERATED model of filenames.get_new_file_name (Gen/Files.v). *)
From Coq Require Import ZArith List String Ascii Bool Lia FinFun.
From BV Require Import Model.PyBase Model.FsOps Proofs.PyBaseP Proofs.FsOpsP Gen.Files.
Open Scope Z_scope.

(* The k-th candidate name: name.ext, name~00.ext, name~01.ext, ... *)
Definition cand (name ext : string) (k : nat) : string :=
  match k with
  | O => (name ++ "." ++ ext)%string
  | S j => (name ++ "~" ++ fmt02d (Z.of_nat j) ++ "." ++ ext)%string
  end.

Lemma cand_inj name ext i j : cand name ext i = cand name ext j -> i = j.
Proof.
  destruct i as [|i], j as [|j]; simpl; intros H.
  - reflexivity.
  - apply append_cancel_l in H. discriminate.
  - apply append_cancel_l in H. discriminate.
  - apply append_cancel_l in H. injection H as H.
    apply append_cancel_r in H. apply fmt02d_inj in H; lia.
Qed.

Definition st (name ext : string) (k : nat) : string * string * Z :=
  (cand name ext k, cand name ext k, Z.of_nat k).

Section Loop.
  Variables (fs : list string) (name ext : string).

  Let cond := fun (x : string * string * Z) => let '(file_name, the_file, number) := x in is_file fs the_file.
  Let step := fun (x : string * string * Z) => let '(file_name, the_file, number) := x in
    let file_name := (name ++ "~" ++ fmt02d number ++ "." ++ ext)%string in
    let the_file := py_path file_name in
    let number := (number + 1) in ((file_name, the_file, number), true).

  Lemma step_st k : step (st name ext k) = (st name ext (S k), true).
  Proof.
    unfold step, st, py_path. cbn [cand]. rewrite Nat2Z.inj_succ. reflexivity.
  Qed.

  (* m further candidates exist, the next one does not: the loop stops there. *)
  Lemma loop_runs : forall m k fuel,
    (m <= fuel)%nat ->
    (forall j, (k <= j < k + m)%nat -> In (cand name ext j) fs) ->
    ~ In (cand name ext (k + m)) fs ->
    while_brk fuel cond step (st name ext k) = Some (st name ext (k + m)).
  Proof.
    induction m as [|m IH]; intros k fuel Hf Hin Hout.
    - replace (k + 0)%nat with k in * by lia.
      destruct fuel; simpl; unfold cond, st at 1;
        apply is_file_false in Hout; rewrite Hout; reflexivity.
    - destruct fuel as [|fuel]; [lia|].
      cbn [while_brk].
      assert (Hc : cond (st name ext k) = true).
      { unfold cond, st. apply is_file_In. apply Hin. lia. }
      rewrite Hc, step_st.
      replace (k + S m)%nat with (S k + m)%nat in * by lia.
      apply IH; [lia| |exact Hout].
      intros j Hj. apply Hin. lia.
  Qed.
End Loop.

(* Pigeonhole, generic (Proofs/FsOpsP.v: least_free_gen): among the first |fs|+1 candidates one is
   not in the directory; take the least. *)
Lemma least_free fs name ext :
  exists m, (m <= List.length fs)%nat /\ ~ In (cand name ext m) fs /\
            forall j, (j < m)%nat -> In (cand name ext j) fs.
Proof. apply least_free_gen. intros i j. apply cand_inj. Qed.

(* T14a: for every directory content, base name and extension, get_new_file_name terminates
   within |fs|+1 iterations and returns a name that is not in the directory; the name is the
   least free candidate of the sequence name.ext, name~00.ext, name~01.ext, ... *)
Theorem get_new_file_name_fresh fs name ext :
  exists m n, (m <= List.length fs)%nat /\
    (forall fuel, (List.length fs <= fuel)%nat -> get_new_file_name fs fuel name ext = Some n) /\
    n = cand name ext m /\ ~ In n fs /\ (forall j, (j < m)%nat -> In (cand name ext j) fs).
Proof.
  destruct (least_free fs name ext) as (m & Hm & Hout & Hin).
  exists m, (cand name ext m). split; [exact Hm|]. split; [|auto].
  intros fuel Hfuel. unfold get_new_file_name.
  change (name ++ "."%string ++ ext)%string with (cand name ext 0).
  pose proof (loop_runs fs name ext m 0 fuel) as L.
  unfold st in L. cbn [Z.of_nat] in L.
  replace ((name ++ ".") ++ ext)%string with (cand name ext 0)
    by (simpl; rewrite append_assoc; reflexivity).
  unfold py_path in *. rewrite L; [reflexivity|lia| |exact Hout].
  intros j Hj. apply Hin. lia.
Qed.

(* ------------------------------------------------------------------------------------ *)
(* Histories of output generation in one directory.
   A directory = association list name -> content (Model/FsOps.v).  [fs_write] is
   open(name,'w'): it REPLACES the content of an existing name (so nothing below is true by
   construction of the file-system model); every writer of results / reports / data dumps
   obtains its name from get_new_file_name first (checked on the source on every run by the
   writer scan of lib/props/C14.py). *)
(* one output operation: (base name, extension, content) *)
Definition write_fresh (d : dir) (op : string * string * string) : option dir :=
  let '(base, ext, content) := op in
  match get_new_file_name (names d) (List.length (names d)) base ext with
  | Some n => Some (fs_write d n content)
  | None => None
  end.

Fixpoint run_history (d : dir) (ops : list (string * string * string)) : option dir :=
  match ops with
  | [] => Some d
  | op :: r => match write_fresh d op with Some d' => run_history d' r | None => None end
  end.

Lemma write_fresh_total d op : exists d', write_fresh d op = Some d'.
Proof.
  destruct op as [[base ext] content]. unfold write_fresh.
  destruct (get_new_file_name_fresh (names d) base ext) as (m & n & _ & Hrun & _).
  rewrite Hrun by lia. eauto.
Qed.

Lemma write_fresh_preserves d op d' n0 c0 :
  write_fresh d op = Some d' -> lookup d n0 = Some c0 -> lookup d' n0 = Some c0.
Proof.
  destruct op as [[base ext] content]. unfold write_fresh.
  destruct (get_new_file_name_fresh (names d) base ext) as (m & n & _ & Hrun & _ & Hfresh & _).
  rewrite Hrun by lia. intros [= <-] Hl.
  rewrite lookup_fs_write_other; [exact Hl|].
  intros ->. apply Hfresh. eapply lookup_In. exact Hl.
Qed.

(* T14b: every history of output generation runs to completion, and every file that existed
   at any earlier moment (decoys included) still has its content at the end. *)
Theorem history_never_overwrites : forall ops d,
  exists d', run_history d ops = Some d' /\
             forall n c, lookup d n = Some c -> lookup d' n = Some c.
Proof.
  induction ops as [|op ops IH]; intros d; simpl.
  - eauto.
  - destruct (write_fresh_total d op) as (d1 & H1). rewrite H1.
    destruct (IH d1) as (d' & Hr & Hp). exists d'. split; [exact Hr|].
    intros n c Hl. apply Hp. eapply write_fresh_preserves; eauto.
Qed.

(* and each operation's own content is what is found under the new name right after it *)
Theorem written_content_readable d base ext content :
  exists n d', write_fresh d (base, ext, content) = Some d' /\ ~ In n (names d) /\
               lookup d' n = Some content.
Proof.
  unfold write_fresh.
  destruct (get_new_file_name_fresh (names d) base ext) as (m & n & _ & Hrun & _ & Hfresh & _).
  exists n, (fs_write d n content). rewrite Hrun by lia.
  split; [reflexivity|]. split; [exact Hfresh|apply lookup_fs_write_same].
Qed.
