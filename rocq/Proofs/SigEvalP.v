(* Evaluation by class index = evaluation by name  (T01b, T01d; continues Proofs/SigP.v).

   The engine never sees a name: a literal of the resolved tree [resolve t e] carries the class
   index c (written [idx_name c]) and its value is the c-th entry of the vector of its class
   (free parameters, FIXED parameters, row, draws, integration variables).  [evalX] reads free and
   fixed parameters through the single lookup [e_beta], but their class indices overlap (both
   start at 0), so the resolved tree cannot be evaluated honestly by [evalX] with one parameter
   lookup.  CHOICE MADE: [evalX2] below is [evalX] with ONE line changed -- a Beta flagged fixed
   is read from a separate lookup [fx] -- and [evalX2_evalX] shows that it is [evalX] when the two
   lookups coincide.  The index environment [env_idx t en] / [fixed_idx t en] gives to the index
   string [idx_name c] the value [en] gives to the c-th name of the class: this is exactly the
   content of the vectors of Model/IdMgr.v ([vector vals (t_free t)], ...).

   Main results
     evalX2_evalX                     evalX2 is a conservative generalisation of evalX
     indexed_eval_is_named_eval (T01b) logit_wf e -> resolve t e = Some r ->
                                       evalIdx Phi t r en = evalX Phi e en
     signature_logit_wf               a formula that has a signature satisfies logit_wf
     engine_value_is_named_value      T01a + T01b: the tree the engine decodes has the named value
     resolve_mono                     a formula resolvable in a table is resolvable in a larger one
     side_by_side_irrelevant (T01d)   preparing e with other formulas changes the table, not the value
     condsum_shared_value_refuted     the value-level witness of the ConditionalSum defect
     indexed_eval_needs_logit_wf      T01b is false without logit_wf (ill-formed arity only)

   Print Assumptions: Coq's classical reals only (evalX is over R). *)
From Coq Require Import Lia Lra.
From BV Require Import Model.PyBase Model.Sig Model.EvalX.
From BV Require Import Proofs.PyBaseP Proofs.IdMgrP Proofs.SigP.
Open Scope Z_scope.

(* ================================================================== evalX2 *)
Section Eval2.
  Variable Phi : R -> R.

  (* evalX with the fixed parameters read from their own lookup [fx] *)
  Fixpoint evalX2 (e : expr) (en : env) (fx : lookup) {struct e} : xval :=
    match e with
    | Node h kids =>
        let vs := map (fun k => evalX2 k en fx) kids in
        match h, vs with
        | HNum d, [] => XR (D2R d)
        | HBeta n false, [] => of_opt (e_beta en n)
        | HBeta n true, [] => of_opt (fx n)
        | HVar n, [] => of_opt (e_var en n)
        | HDraws n _, [] => of_opt (e_draw en n)
        | HRV n, [] => of_opt (e_rv en n)
        | HBin op, [a; b] => xbin op a b
        | HUn MonteCarlo, [_] =>
            match kids with
            | [k] => xmean (map (fun d => evalX2 k (with_draw en d) fx) (e_draws en))
            | _ => XNaN
            end
        | HUn PanelTraj, [_] =>
            match kids with
            | [k] => match e_rows en with
                     | [] => XNaN
                     | rows => xprod (map (fun r => evalX2 k (with_row en r) fx) rows)
                     end
            | _ => XNaN
            end
        | HUn op, [a] => xun Phi op a
        | HPowC c, [a] => xpowc c a
        | HBelongs s, [a] => xbelongs s a
        | HMultSum, _ => xsum vs
        | HCondSum, _ => xcondsum vs
        | HElem keys, _ => xelem keys vs
        | HLinUtil, _ => xlinutil vs
        | HLogLogit uk ak, _ => xloglogit uk ak vs
        | _, _ => XNaN
        end
    end.

  Lemma evalX2_unfold h kids en fx :
    evalX2 (Node h kids) en fx =
    let vs := map (fun k => evalX2 k en fx) kids in
    match h, vs with
    | HNum d, [] => XR (D2R d)
    | HBeta n false, [] => of_opt (e_beta en n)
    | HBeta n true, [] => of_opt (fx n)
    | HVar n, [] => of_opt (e_var en n)
    | HDraws n _, [] => of_opt (e_draw en n)
    | HRV n, [] => of_opt (e_rv en n)
    | HBin op, [a; b] => xbin op a b
    | HUn MonteCarlo, [_] =>
        match kids with
        | [k] => xmean (map (fun d => evalX2 k (with_draw en d) fx) (e_draws en))
        | _ => XNaN
        end
    | HUn PanelTraj, [_] =>
        match kids with
        | [k] => match e_rows en with
                 | [] => XNaN
                 | rows => xprod (map (fun r => evalX2 k (with_row en r) fx) rows)
                 end
        | _ => XNaN
        end
    | HUn op, [a] => xun Phi op a
    | HPowC c, [a] => xpowc c a
    | HBelongs s, [a] => xbelongs s a
    | HMultSum, _ => xsum vs
    | HCondSum, _ => xcondsum vs
    | HElem keys, _ => xelem keys vs
    | HLinUtil, _ => xlinutil vs
    | HLogLogit uk ak, _ => xloglogit uk ak vs
    | _, _ => XNaN
    end.
  Proof. reflexivity. Qed.

  (* evalX2 is evalX when the fixed parameters are looked up where evalX looks them up *)
  Theorem evalX2_evalX e : forall en, evalX2 e en (e_beta en) = evalX Phi e en.
  Proof.
    induction e as [h kids IH] using expr_rose_ind. intros en.
    rewrite evalX2_unfold, evalX_unfold. cbv zeta.
    assert (Hvs : map (fun k => evalX2 k en (e_beta en)) kids = map (fun k => evalX Phi k en) kids).
    { apply map_ext_in. intros k Hk. rewrite Forall_forall in IH. apply IH; assumption. }
    rewrite Hvs.
    destruct h; try reflexivity.
    - destruct fixed; reflexivity.
    - destruct kids as [|a [|b kids]]; cbn [map]; try (destruct op; reflexivity).
      inversion IH as [|? ? Ha _]; subst.
      destruct op; try reflexivity.
      + f_equal. apply map_ext. intros d. exact (Ha (with_draw en d)).
      + assert (Hm : forall rows, map (fun r => evalX2 a (with_row en r) (e_beta en)) rows
                                  = map (fun r => evalX Phi a (with_row en r)) rows).
        { intros rows. apply map_ext. intros r. exact (Ha (with_row en r)). }
        destruct (e_rows en) as [|r0 rows]; [reflexivity|].
        specialize (Hm (r0 :: rows)). cbn [map] in Hm |- *. rewrite Hm. reflexivity.
  Qed.
End Eval2.

(* ================================================================== the index environment *)
(* the value of the index string "c" = the value of the c-th name of the class *)
Definition idx_look (names : list string) (look : lookup) : lookup :=
  fun m => match parse_Z m with
           | Some c => if c <? 0 then None
                       else match nth_error names (Z.to_nat c) with
                            | Some n => look n
                            | None => None
                            end
           | None => None
           end.

Definition env_idx (t : idtable) (en : env) : env :=
  mkEnv (idx_look (t_free t) (e_beta en))
        (idx_look (t_vars t) (e_var en))
        (idx_look (t_draws t) (e_draw en))
        (idx_look (t_rv t) (e_rv en))
        (map (idx_look (t_draws t)) (e_draws en))
        (map (idx_look (t_vars t)) (e_rows en)).

Definition fixed_idx (t : idtable) (en : env) : lookup := idx_look (t_fixed t) (e_beta en).

(* what the engine computes on the index-resolved tree r *)
Definition evalIdx (Phi : R -> R) (t : idtable) (r : expr) (en : env) : xval :=
  evalX2 Phi r (env_idx t en) (fixed_idx t en).

Lemma idx_look_spec names look n c :
  index_of n names = Some c -> idx_look names look (idx_name c) = look n.
Proof.
  intros H. unfold idx_look, idx_name. rewrite parse_string_of_Z.
  pose proof (index_of_range _ _ _ H) as Hr.
  replace (c <? 0) with false by lia.
  rewrite (index_of_Some_nth' _ _ _ H). reflexivity.
Qed.

(* the index lookup reads the vector of IdMgr: entry c of [vector look names] *)
Lemma idx_look_vector names (look : lookup) c : 0 <= c ->
  idx_look names look (idx_name c) =
  match nth_error (vector look names) (Z.to_nat c) with Some v => v | None => None end.
Proof.
  intros Hc. unfold idx_look, idx_name, vector. rewrite parse_string_of_Z.
  replace (c <? 0) with false by lia. rewrite nth_error_map.
  destruct (nth_error names (Z.to_nat c)); reflexivity.
Qed.

Lemma ids_of_class t k n u c : ids_of t k n = Some (u, c) -> index_of n (class_list t k) = Some c.
Proof.
  unfold ids_of. destruct (index_of n (all_names t)); [|discriminate].
  destruct (index_of n (class_list t k)); [|discriminate]. congruence.
Qed.

(* ================================================================== pure lemmas on the logit *)
Lemma assoc_find {A} k keys (vals : list A) : assoc_Z k keys vals = find_key k keys vals.
Proof. reflexivity. Qed.   (* the two fixpoints are the same term *)

Lemma find_key_map {A B} (f : A -> B) k keys vals :
  find_key k keys (map f vals) = option_map f (find_key k keys vals).
Proof.
  revert vals; induction keys as [|a keys IH]; intros [|v vals]; cbn; try reflexivity.
  destruct (k =? a); [reflexivity | apply IH].
Qed.

Lemma pick_all_map {A B} (f : A -> B) uk ak vals :
  pick_all uk ak (map f vals) = option_map (map f) (pick_all uk ak vals).
Proof.
  induction uk as [|k uk IH]; cbn [pick_all]; [reflexivity|].
  rewrite find_key_map, IH.
  destruct (find_key k ak vals); cbn; [|reflexivity].
  destruct (pick_all uk ak vals); reflexivity.
Qed.

Lemma pick_all_length {A} uk ak (vals vs : list A) :
  pick_all uk ak vals = Some vs -> List.length vs = List.length uk.
Proof.
  revert vs; induction uk as [|k uk IH]; intros vs; cbn [pick_all].
  - intros [= <-]. reflexivity.
  - destruct (find_key k ak vals); [|discriminate].
    destruct (pick_all uk ak vals) as [r|]; [|discriminate].
    intros [= <-]. cbn. rewrite (IH r eq_refl). reflexivity.
Qed.

Lemma pick_all_assoc {A} uk ak (vals vs : list A) :
  pick_all uk ak vals = Some vs ->
  forall k, In k uk -> assoc_Z k uk vs = assoc_Z k ak vals.
Proof.
  revert vs; induction uk as [|k0 uk IH]; intros vs; cbn [pick_all]; [intros _ k []|].
  destruct (find_key k0 ak vals) as [v|] eqn:Ek; [|discriminate].
  destruct (pick_all uk ak vals) as [r|]; [|discriminate].
  intros [= <-] k Hk. cbn [assoc_Z].
  destruct (Z.eqb_spec k k0) as [->|Hne].
  - rewrite assoc_find. symmetry. exact Ek.
  - apply IH; [reflexivity|]. destruct Hk as [E|Hk]; [congruence | exact Hk].
Qed.

Lemma assoc_Z_Some_In {A} k keys (vals : list A) v : assoc_Z k keys vals = Some v -> In k keys.
Proof.
  revert vals; induction keys as [|a keys IH]; intros [|x vals]; cbn; try discriminate.
  destruct (Z.eqb_spec k a) as [->|Hne]; [left; reflexivity|]. intros H. right. eapply IH; eauto.
Qed.

Lemma logit_denominator_canon uk ak (avs avs' : list xval) :
  (forall k, In k uk -> assoc_Z k uk avs' = assoc_Z k ak avs) ->
  forall uk1 us1, incl uk1 uk ->
  logit_denominator uk1 us1 uk avs' = logit_denominator uk1 us1 ak avs.
Proof.
  intros H. induction uk1 as [|k uk1 IH]; intros [|u us1] Hi; cbn [logit_denominator]; try reflexivity.
  rewrite (H k (Hi k (or_introl eq_refl))).
  rewrite (IH us1 (fun x Hx => Hi x (or_intror Hx))). reflexivity.
Qed.

Lemma firstn_app_exact {A} (l1 l2 : list A) n : List.length l1 = n -> firstn n (l1 ++ l2) = l1.
Proof.
  intros <-. induction l1 as [|x l1 IH]; cbn; [destruct l2; reflexivity | rewrite IH; reflexivity].
Qed.

Lemma skipn_app_exact {A} (l1 l2 : list A) n : List.length l1 = n -> skipn n (l1 ++ l2) = l2.
Proof. intros <-. induction l1 as [|x l1 IH]; cbn; [reflexivity | exact IH]. Qed.

(* the engine's logit (availabilities reordered to follow the utilities) has the value of the
   Python logit (availabilities looked up by key) *)
Lemma xloglogit_canon uk ak c vrest vavs' :
  List.length vrest = (List.length uk + List.length ak)%nat ->
  pick_all uk ak (skipn (List.length uk) vrest) = Some vavs' ->
  xloglogit uk uk (c :: firstn (List.length uk) vrest ++ vavs') = xloglogit uk ak (c :: vrest).
Proof.
  intros Hlen Hp. unfold xloglogit. destruct c as [x| |]; try reflexivity.
  assert (L1 : List.length (firstn (List.length uk) vrest) = List.length uk)
    by (rewrite firstn_length; lia).
  assert (L2 : List.length (skipn (List.length uk) vrest) = List.length ak)
    by (rewrite skipn_length; lia).
  rewrite (firstn_app_exact _ _ _ L1), (skipn_app_exact _ _ _ L1).
  rewrite (pick_all_length _ _ _ _ Hp), L2, !Nat.eqb_refl. cbn [negb].
  destruct (R2Z x) as [z|]; [|reflexivity].
  pose proof (pick_all_assoc _ _ _ _ Hp) as Ha.
  rewrite (logit_denominator_canon uk ak _ _ Ha uk _ (incl_refl uk)).
  destruct (assoc_Z z uk (firstn (List.length uk) vrest)) as [vc|] eqn:Ez.
  - rewrite (Ha z (assoc_Z_Some_In _ _ _ _ Ez)). reflexivity.
  - destruct (assoc_Z z uk vavs') as [[]|]; destruct (assoc_Z z ak _) as [[]|]; reflexivity.
Qed.

(* ================================================================== T01b *)
(* arity of the logit nodes: choice, one utility per utility key, one availability per
   availability key (Python's LogLogit always satisfies it; get_signature checks it) *)
Definition logit_wf (e : expr) : Prop :=
  forall uk ak ks, In (Node (HLogLogit uk ak) ks) (subterms e) ->
  List.length ks = S (List.length uk + List.length ak).

Lemma logit_wf_kid h kids k : logit_wf (Node h kids) -> In k kids -> logit_wf k.
Proof.
  intros H Hk uk ak ks Hin. apply H. right. apply in_flat_map. exists k. split; assumption.
Qed.

Lemma subterms_self e : In e (subterms e).
Proof. destruct e; left; reflexivity. Qed.

Section T01b.
  Variable Phi : R -> R.
  Variable t : idtable.

  Lemma env_idx_with_draw en d :
    with_draw (env_idx t en) (idx_look (t_draws t) d) = env_idx t (with_draw en d).
  Proof. reflexivity. Qed.
  Lemma env_idx_with_row en r :
    with_row (env_idx t en) (idx_look (t_vars t) r) = env_idx t (with_row en r).
  Proof. reflexivity. Qed.

  Definition node_val (e : expr) : Prop :=
    forall r en, logit_wf e -> resolve t e = Some r -> evalIdx Phi t r en = evalX Phi e en.

  Lemma kids_vals kids rs en :
    Forall node_val kids -> (forall k, In k kids -> logit_wf k) ->
    Forall2 (fun k r => resolve t k = Some r) kids rs ->
    map (fun r => evalX2 Phi r (env_idx t en) (fixed_idx t en)) rs = map (fun k => evalX Phi k en) kids.
  Proof.
    intros IH Hwf HF. induction HF as [|k r kids rs Hk _ IHF]; [reflexivity|].
    inversion IH as [|? ? Hk' IH']; subst. cbn [map]. f_equal.
    - apply Hk'; [apply Hwf; left; reflexivity | exact Hk].
    - apply IHF; [exact IH' | intros k' Hk''; apply Hwf; right; exact Hk''].
  Qed.

  Ltac shape Hgen Hres :=
    match type of Hres with
    | canon_logit ?hh _ = Some _ =>
        let H := fresh in
        assert (H : forall uk ak, hh <> HLogLogit uk ak) by (intros; discriminate);
        rewrite (Hgen hh H Hres); clear H
    end.

  (* T01b indexed_eval_is_named_eval *)
  Theorem indexed_eval_is_named_eval e : node_val e.
  Proof.
    induction e as [h kids IH] using expr_rose_ind. intros r en Hwf Hres.
    rewrite resolve_node in Hres.
    destruct (resolve_head t h) as [h'|] eqn:Eh; [|discriminate].
    destruct (res_list t kids) as [rs|] eqn:Ers; [|discriminate].
    apply res_list_Forall2 in Ers.
    assert (Hkwf : forall k, In k kids -> logit_wf k) by (intros k Hk; exact (logit_wf_kid _ _ _ Hwf Hk)).
    assert (Hvs : forall en, map (fun r => evalX2 Phi r (env_idx t en) (fixed_idx t en)) rs
                             = map (fun k => evalX Phi k en) kids)
      by (intros en0; apply kids_vals; assumption).
    unfold evalIdx.
    (* every head but the logit keeps its shape *)
    assert (Hgen : forall hh, (forall uk ak, hh <> HLogLogit uk ak) ->
              canon_logit hh rs = Some r -> r = Node hh rs).
    { intros hh Hn Hc. destruct hh; cbn in Hc; try congruence; exfalso; eapply Hn; reflexivity. }
    destruct h; cbn [resolve_head] in Eh.
    - (* HNum *) injection Eh as <-. shape Hgen Hres.
      rewrite evalX2_unfold, evalX_unfold. cbv zeta. rewrite ?Hvs. reflexivity.
    - (* HBeta *)
      destruct (ids_of t (if fixed then KFixedBeta else KFreeBeta) name) as [[u c]|] eqn:Ei; [|discriminate].
      apply ids_of_class in Ei. injection Eh as <-.
      destruct fixed; cbn [lit_head] in Hres;
        shape Hgen Hres; rewrite evalX2_unfold, evalX_unfold; cbv zeta; rewrite Hvs;
        destruct kids; cbn [map]; try reflexivity.
      + unfold fixed_idx. rewrite (idx_look_spec _ _ _ _ Ei). reflexivity.
      + cbn [env_idx e_beta]. rewrite (idx_look_spec _ _ _ _ Ei). reflexivity.
    - (* HVar *)
      destruct (ids_of t KVar name) as [[u c]|] eqn:Ei; [|discriminate].
      apply ids_of_class in Ei. injection Eh as <-. cbn [lit_head] in Hres.
      shape Hgen Hres; rewrite evalX2_unfold, evalX_unfold; cbv zeta; rewrite Hvs.
      destruct kids; cbn [map]; try reflexivity.
      cbn [env_idx e_var]. rewrite (idx_look_spec _ _ _ _ Ei). reflexivity.
    - (* HDraws *)
      destruct (ids_of t KDraws name) as [[u c]|] eqn:Ei; [|discriminate].
      apply ids_of_class in Ei. injection Eh as <-. cbn [lit_head] in Hres.
      shape Hgen Hres; rewrite evalX2_unfold, evalX_unfold; cbv zeta; rewrite Hvs.
      destruct kids; cbn [map]; try reflexivity.
      cbn [env_idx e_draw]. rewrite (idx_look_spec _ _ _ _ Ei). reflexivity.
    - (* HRV *)
      destruct (ids_of t KRV name) as [[u c]|] eqn:Ei; [|discriminate].
      apply ids_of_class in Ei. injection Eh as <-. cbn [lit_head] in Hres.
      shape Hgen Hres; rewrite evalX2_unfold, evalX_unfold; cbv zeta; rewrite Hvs.
      destruct kids; cbn [map]; try reflexivity.
      cbn [env_idx e_rv]. rewrite (idx_look_spec _ _ _ _ Ei). reflexivity.
    - (* HBin *) injection Eh as <-. shape Hgen Hres.
      rewrite evalX2_unfold, evalX_unfold. cbv zeta. rewrite ?Hvs. reflexivity.
    - (* HUn *) injection Eh as <-. shape Hgen Hres.
      rewrite evalX2_unfold, evalX_unfold. cbv zeta. rewrite Hvs.
      destruct kids as [|a [|b kids]]; cbn [map]; try (destruct op; reflexivity).
      inversion Ers as [|? ra ? rs' Ha Hrs']; subst. inversion Hrs'; subst.
      inversion IH as [|? ? IHa _]; subst.
      pose proof (Hkwf a (or_introl eq_refl)) as Hwa.
      destruct op; try reflexivity.
      + (* MonteCarlo *) cbn [env_idx e_draws]. rewrite map_map. f_equal. apply map_ext. intros d.
        rewrite env_idx_with_draw. exact (IHa ra (with_draw en d) Hwa Ha).
      + (* PanelTraj *) cbn [env_idx e_rows].
        assert (Hm : forall rows,
                   map (fun r => evalX2 Phi ra (with_row (env_idx t en) r) (fixed_idx t en))
                       (map (idx_look (t_vars t)) rows)
                   = map (fun r => evalX Phi a (with_row en r)) rows).
        { intros rows. rewrite map_map. apply map_ext. intros r0.
          rewrite env_idx_with_row. exact (IHa ra (with_row en r0) Hwa Ha). }
        destruct (e_rows en) as [|r0 rows]; [reflexivity|].
        specialize (Hm (r0 :: rows)). cbn [map] in Hm |- *. rewrite Hm. reflexivity.
    - (* HPowC *) injection Eh as <-. shape Hgen Hres.
      rewrite evalX2_unfold, evalX_unfold. cbv zeta. rewrite ?Hvs. reflexivity.
    - (* HDerive *)
      destruct (index_of name (all_names t)) as [u|]; [|discriminate]. injection Eh as <-.
      shape Hgen Hres.
      rewrite evalX2_unfold, evalX_unfold. cbv zeta. rewrite ?Hvs. reflexivity.
    - (* HIntegrate *)
      destruct (index_of name (t_rv t)) as [u|]; [|discriminate]. injection Eh as <-.
      shape Hgen Hres.
      rewrite evalX2_unfold, evalX_unfold. cbv zeta. rewrite ?Hvs. reflexivity.
    - (* HBelongs *) injection Eh as <-. shape Hgen Hres.
      rewrite evalX2_unfold, evalX_unfold. cbv zeta. rewrite ?Hvs. reflexivity.
    - (* HMultSum *) injection Eh as <-. shape Hgen Hres.
      rewrite evalX2_unfold, evalX_unfold. cbv zeta. rewrite ?Hvs. reflexivity.
    - (* HCondSum *) injection Eh as <-. shape Hgen Hres.
      rewrite evalX2_unfold, evalX_unfold. cbv zeta. rewrite ?Hvs. reflexivity.
    - (* HElem *) injection Eh as <-. shape Hgen Hres.
      rewrite evalX2_unfold, evalX_unfold. cbv zeta. rewrite ?Hvs. reflexivity.
    - (* HLinUtil *) injection Eh as <-. shape Hgen Hres.
      rewrite evalX2_unfold, evalX_unfold. cbv zeta. rewrite ?Hvs. reflexivity.
    - (* HLogLogit *) injection Eh as <-.
      pose proof (Hwf ukeys akeys kids (or_introl eq_refl)) as Hlen.
      destruct kids as [|choice rest]; [discriminate|].
      inversion Ers as [|? rc ? rrest Hc Hrest]; subst.
      cbn [canon_logit] in Hres.
      destruct (pick_all ukeys akeys (skipn (List.length ukeys) rrest)) as [avs'|] eqn:Ep; [|discriminate].
      injection Hres as <-.
      rewrite evalX2_unfold, evalX_unfold. cbv zeta.
      specialize (Hvs en). cbn [map] in Hvs |- *. injection Hvs as Hv1 Hv2.
      rewrite map_app, <- firstn_map, Hv1, Hv2.
      apply xloglogit_canon.
      + rewrite map_length. cbn in Hlen. lia.
      + rewrite <- Hv2, skipn_map, pick_all_map, Ep. reflexivity.
  Qed.
End T01b.

(* ================================================================== with the signature *)
Lemma Forall2_In_left {A B} (P : A -> B -> Prop) l l' x :
  Forall2 P l l' -> In x l -> exists y, P x y.
Proof. induction 1 as [|a b l l' Hab _ IH]; intros Hin; [destruct Hin|]. destruct Hin as [<-|H]; eauto. Qed.

Lemma signature_logit_wf t l : forall ls, signature t l = Some ls -> logit_wf (erase l).
Proof.
  induction l as [i h ks IH] using lexpr_ind_strong. intros ls Hs.
  rewrite signature_node in Hs.
  destruct (sig_list t ks) as [pk|] eqn:Epk; [|discriminate].
  destruct (own_line t (LNode i h ks)) as [own|] eqn:Eown; [|discriminate].
  apply sig_list_Forall2 in Epk.
  intros uk ak ks' Hin. cbn [erase subterms] in Hin. destruct Hin as [E|Hin].
  - injection E as -> <-. cbn [own_line] in Eown.
    destruct ks as [|choice rest]; [discriminate|].
    destruct (negb (Nat.eqb (List.length (firstn (List.length uk) rest)) (List.length uk))
              || negb (Nat.eqb (List.length (skipn (List.length uk) rest)) (List.length ak))) eqn:El;
      [discriminate|].
    apply orb_false_elim in El. destruct El as [E1 E2].
    apply negb_false_iff, Nat.eqb_eq in E1, E2.
    rewrite firstn_length in E1. rewrite skipn_length in E2.
    cbn [map List.length]. rewrite map_length. lia.
  - apply in_flat_map in Hin. destruct Hin as (x & Hx & Hin).
    apply in_map_iff in Hx. destruct Hx as (k & <- & Hk).
    rewrite Forall_forall in IH.
    destruct (Forall2_In_left _ _ _ _ Epk Hk) as (lsk & Hsk).
    exact (IH k Hk lsk Hsk uk ak ks' Hin).
Qed.

(* T01a + T01b: what the engine evaluates (by position in its vectors) on the tree it decodes from
   the signature of an object graph is the mathematical value of the formula (by name) *)
Theorem engine_value_is_named_value Phi t l ls en :
  wf_dag l -> cond_ids_distinct l -> signature t l = Some ls ->
  exists r, decode ls = Some r /\ evalIdx Phi t r en = evalX Phi (erase l) en.
Proof.
  intros Hw Hc Hs. destruct (decode_signature t l ls Hw Hc Hs) as (r & Hr & Hd).
  exists r. split; [exact Hd|].
  apply indexed_eval_is_named_eval; [exact (signature_logit_wf t l ls Hs) | exact Hr].
Qed.

(* T01c at the level of values *)
Corollary sharing_value_irrelevant Phi t l1 l2 ls1 ls2 en :
  erase l1 = erase l2 ->
  wf_dag l1 -> cond_ids_distinct l1 -> wf_dag l2 -> cond_ids_distinct l2 ->
  signature t l1 = Some ls1 -> signature t l2 = Some ls2 ->
  exists r1 r2, decode ls1 = Some r1 /\ decode ls2 = Some r2 /\
                evalIdx Phi t r1 en = evalIdx Phi t r2 en.
Proof.
  intros He W1 C1 W2 C2 S1 S2.
  destruct (engine_value_is_named_value Phi t l1 ls1 en W1 C1 S1) as (r1 & D1 & V1).
  destruct (engine_value_is_named_value Phi t l2 ls2 en W2 C2 S2) as (r2 & D2 & V2).
  exists r1, r2. repeat split; try assumption. rewrite V1, V2, He. reflexivity.
Qed.

(* ================================================================== T01d *)
Definition table_sub (t0 t1 : idtable) : Prop :=
  forall k n, In n (class_list t0 k) -> In n (class_list t1 k).

Lemma all_names_class t n : In n (all_names t) <-> exists k, In n (class_list t k).
Proof.
  unfold all_names. rewrite !in_app_iff. split.
  - intros [H|[H|[H|[H|H]]]];
      [exists KFreeBeta | exists KFixedBeta | exists KRV | exists KDraws | exists KVar]; exact H.
  - intros [[] H]; cbn [class_list] in H; tauto.
Qed.

Lemma index_of_mono n l l' : (In n l -> In n l') -> forall c, index_of n l = Some c ->
  exists c', index_of n l' = Some c'.
Proof. intros H c Hc. apply index_of_In. apply H. apply index_of_In. eauto. Qed.

Lemma ids_of_mono t0 t1 k n p : table_sub t0 t1 -> ids_of t0 k n = Some p -> exists p', ids_of t1 k n = Some p'.
Proof.
  intros Hs. unfold ids_of.
  destruct (index_of n (all_names t0)) as [u|] eqn:Eu; [|discriminate].
  destruct (index_of n (class_list t0 k)) as [c|] eqn:Ec; [|discriminate]. intros _.
  destruct (index_of_mono n _ (class_list t1 k) (Hs k n) c Ec) as [c' ->].
  destruct (index_of_mono n (all_names t0) (all_names t1)) with (c := u) as [u' ->]; [|exact Eu|eauto].
  rewrite !all_names_class. intros [k' Hk']. exists k'. apply Hs. exact Hk'.
Qed.

Definition is_logit (h : head) : Prop := exists uk ak, h = HLogLogit uk ak.

Lemma resolve_head_mono t0 t1 h h0 : table_sub t0 t1 -> resolve_head t0 h = Some h0 ->
  exists h1, resolve_head t1 h = Some h1 /\
             ((h0 = h /\ h1 = h) \/ (~ is_logit h0 /\ ~ is_logit h1)).
Proof.
  intros Hs. destruct h; cbn [resolve_head].
  1, 6, 7, 8, 11, 12, 13, 14, 15, 16: intros [= <-]; eexists; split; [reflexivity | left; split; reflexivity].
  - destruct (ids_of t0 _ name) as [[u c]|] eqn:E; [|discriminate]. intros [= <-].
    destruct (ids_of_mono _ _ _ _ _ Hs E) as [[u' c'] ->]. eexists; split; [reflexivity|].
    right. split; intros (uk & ak & Hx); destruct fixed; discriminate.
  - destruct (ids_of t0 _ name) as [[u c]|] eqn:E; [|discriminate]. intros [= <-].
    destruct (ids_of_mono _ _ _ _ _ Hs E) as [[u' c'] ->]. eexists; split; [reflexivity|].
    right. split; intros (uk & ak & Hx); discriminate.
  - destruct (ids_of t0 _ name) as [[u c]|] eqn:E; [|discriminate]. intros [= <-].
    destruct (ids_of_mono _ _ _ _ _ Hs E) as [[u' c'] ->]. eexists; split; [reflexivity|].
    right. split; intros (uk & ak & Hx); discriminate.
  - destruct (ids_of t0 _ name) as [[u c]|] eqn:E; [|discriminate]. intros [= <-].
    destruct (ids_of_mono _ _ _ _ _ Hs E) as [[u' c'] ->]. eexists; split; [reflexivity|].
    right. split; intros (uk & ak & Hx); discriminate.
  - destruct (index_of name (all_names t0)) as [u|] eqn:E; [|discriminate]. intros [= <-].
    destruct (index_of_mono name (all_names t0) (all_names t1)) with (c := u) as [u' ->]; [|exact E|].
    + rewrite !all_names_class. intros [k' Hk']. exists k'. apply Hs. exact Hk'.
    + eexists; split; [reflexivity|]. right. split; intros (uk & ak & Hx); discriminate.
  - destruct (index_of name (t_rv t0)) as [u|] eqn:E; [|discriminate]. intros [= <-].
    destruct (index_of_mono name (t_rv t0) (t_rv t1) (Hs KRV name) u E) as [u' ->].
    eexists; split; [reflexivity|]. right. split; intros (uk & ak & Hx); discriminate.
Qed.

Lemma pick_all_some_len {A B} uk ak (vals : list A) (vals' : list B) vs :
  List.length vals = List.length vals' -> pick_all uk ak vals = Some vs ->
  exists vs', pick_all uk ak vals' = Some vs'.
Proof.
  intros Hl. revert vs; induction uk as [|k uk IH]; intros vs; cbn [pick_all]; [eauto|].
  destruct (find_key k ak vals) as [v|] eqn:Ek; [|discriminate].
  destruct (pick_all uk ak vals) as [r|]; [|discriminate]. intros _.
  destruct (find_key_some_len k ak vals vals' v Hl Ek) as [v' ->].
  destruct (IH r eq_refl) as [r' ->]. eauto.
Qed.

Lemma canon_logit_mono h0 h1 h (rs0 rs1 : list expr) r0 :
  ((h0 = h /\ h1 = h) \/ (~ is_logit h0 /\ ~ is_logit h1)) ->
  List.length rs0 = List.length rs1 ->
  canon_logit h0 rs0 = Some r0 -> exists r1, canon_logit h1 rs1 = Some r1.
Proof.
  intros [[-> ->]|[N0 N1]] Hl.
  - destruct h; cbn [canon_logit]; try (intros _; eauto; fail).
    destruct rs0 as [|c0 rest0], rs1 as [|c1 rest1]; try discriminate; [intros _; eauto|].
    destruct (pick_all ukeys akeys (skipn (List.length ukeys) rest0)) as [a0|] eqn:E; [|discriminate].
    intros _. cbn in Hl.
    destruct (pick_all_some_len ukeys akeys (skipn (List.length ukeys) rest0) (skipn (List.length ukeys) rest1) a0) as [a1 ->];
      [rewrite !skipn_length; lia | exact E | eauto].
  - intros _. destruct h1; cbn [canon_logit]; eauto.
    exfalso. apply N1. unfold is_logit. eauto.
Qed.

(* a formula that can be resolved in a table can be resolved in every larger table *)
Theorem resolve_mono t0 t1 e : table_sub t0 t1 ->
  forall r0, resolve t0 e = Some r0 -> exists r1, resolve t1 e = Some r1.
Proof.
  intros Hs. induction e as [h kids IH] using expr_rose_ind. intros r0.
  rewrite !resolve_node.
  destruct (resolve_head t0 h) as [h0|] eqn:Eh; [|discriminate].
  destruct (res_list t0 kids) as [rs0|] eqn:Ers; [|discriminate].
  destruct (resolve_head_mono t0 t1 h h0 Hs Eh) as (h1 & -> & Hsh).
  apply res_list_Forall2 in Ers.
  assert (Hrs : exists rs1, res_list t1 kids = Some rs1 /\ List.length rs0 = List.length rs1).
  { clear -IH Ers. induction Ers as [|k r kids rs0 Hk _ IHF].
    - exists []. split; reflexivity.
    - inversion IH as [|? ? Hk' IH']; subst.
      destruct (Hk' r Hk) as [r1 Hr1]. destruct (IHF IH') as (rs1 & Hrs1 & Hl).
      exists (r1 :: rs1). split; [|cbn; congruence].
      cbn [res_list]. fold (res_list t1 kids). rewrite Hr1, Hrs1. reflexivity. }
  destruct Hrs as (rs1 & -> & Hl).
  apply canon_logit_mono with (h := h); assumption.
Qed.

Lemma prepare_incl_sub fs fs' cols t0 t1 :
  incl fs fs' -> prepare fs cols = Some t0 -> prepare fs' cols = Some t1 -> table_sub t0 t1.
Proof.
  intros Hi H0 H1. apply prepare_Some in H0, H1. destruct H0 as [-> _], H1 as [-> _].
  intros k n. destruct k; cbn [class_list t_free t_fixed t_rv t_draws t_vars]; try exact (fun H => H);
    rewrite !collect_In; intros (f & Hf & Hn); exists f; (split; [apply Hi; exact Hf | exact Hn]).
Qed.

(* T01d side_by_side_irrelevant: preparing the formulas fs together with any other formulas
   (fs' contains fs) changes the id table -- hence the indices written in the resolved tree and
   the layout of the vectors -- but every formula that could be evaluated before can still be,
   and its value is the same: the named value *)
Theorem side_by_side_irrelevant Phi fs fs' cols t0 t1 e r0 en :
  incl fs fs' -> prepare fs cols = Some t0 -> prepare fs' cols = Some t1 ->
  logit_wf e -> resolve t0 e = Some r0 ->
  exists r1, resolve t1 e = Some r1 /\
             evalIdx Phi t1 r1 en = evalIdx Phi t0 r0 en /\
             evalIdx Phi t0 r0 en = evalX Phi e en.
Proof.
  intros Hi H0 H1 Hwf Hr0.
  destruct (resolve_mono t0 t1 e (prepare_incl_sub _ _ _ _ _ Hi H0 H1) r0 Hr0) as [r1 Hr1].
  exists r1. split; [exact Hr1|].
  rewrite (indexed_eval_is_named_eval Phi t1 e r1 en Hwf Hr1).
  rewrite (indexed_eval_is_named_eval Phi t0 e r0 en Hwf Hr0). split; reflexivity.
Qed.

(* the instance of the task statement: e alone versus e with others *)
Corollary side_by_side_irrelevant_cons Phi e others cols t0 t1 r0 en :
  prepare [e] cols = Some t0 -> prepare (e :: others) cols = Some t1 ->
  logit_wf e -> resolve t0 e = Some r0 ->
  exists r1, resolve t1 e = Some r1 /\ evalIdx Phi t1 r1 en = evalIdx Phi t0 r0 en.
Proof.
  intros H0 H1 Hwf Hr0.
  destruct (side_by_side_irrelevant Phi [e] (e :: others) cols t0 t1 e r0 en) as (r1 & A & B & _);
    try assumption.
  - intros x [<-|[]]. left; reflexivity.
  - eauto.
Qed.

(* non-vacuity: the other formula brings a parameter that sorts BEFORE the one of e, so the index
   of e's parameter changes from 0 to 1 *)
Example side_by_side_example :
  let e := EBin Times (EBeta "b" false) (EVar "x") in
  let o := EBeta "a" false in
  exists t0 t1 r0 r1,
    prepare [e] ["x"%string] = Some t0 /\ prepare [e; o] ["x"%string] = Some t1 /\
    resolve t0 e = Some r0 /\ resolve t1 e = Some r1 /\
    r0 = EBin Times (EBeta "0" false) (EVar "0") /\ r1 = EBin Times (EBeta "1" false) (EVar "0").
Proof. vm_compute. do 4 eexists. repeat split. Qed.

(* ================================================================== the defect, at value level *)
(* ConditionalSum [(c, 2); (c, 3)] with c the same true condition object: the formula is worth 5,
   the tree held by the engine is worth 3 *)
Theorem condsum_shared_value_refuted Phi en :
  exists t l ls r, wf_dag l /\ signature t l = Some ls /\ decode ls = Some r /\
    evalX Phi (erase l) en = XR 5 /\ evalIdx Phi t r en = XR 3.
Proof.
  exists empty_table, shared_cond_example.
  eexists.
  exists (Node HCondSum [ENumZ 1; ENumZ 3]).
  split; [exact shared_cond_example_wf|].
  split; [vm_compute; reflexivity|]. split; [vm_compute; reflexivity|].
  assert (H1 : D2R (1, 0) = 1%R) by (unfold D2R; cbn; lra).
  assert (H2 : D2R (2, 0) = 2%R) by (unfold D2R; cbn; lra).
  assert (H3 : D2R (3, 0) = 3%R) by (unfold D2R; cbn; lra).
  assert (Hnz : Rnz 1 = true) by (unfold Rnz; destruct (Req_EM_T 1 0); [lra | reflexivity]).
  split.
  - cbn [shared_cond_example erase map]. rewrite evalX_unfold. cbv zeta. cbn [map].
    rewrite !evalX_unfold. cbv zeta. cbn [map xcondsum lift2]. rewrite H1, H2, H3, Hnz.
    cbn [lift2 xcondsum]. rewrite ?Hnz. cbn [lift2]. f_equal. lra.
  - unfold evalIdx, ENumZ. rewrite evalX2_unfold. cbv zeta. cbn [map].
    rewrite !evalX2_unfold. cbv zeta. cbn [map xcondsum lift2]. rewrite H1, H3, Hnz.
    cbn [lift2]. f_equal. lra.
Qed.

(* ================================================================== logit_wf is needed *)
Lemma R2Z_IZR (z : Z) : R2Z (IZR z) = Some z.
Proof.
  unfold R2Z. assert (E : Int_part (IZR z) = z).
  { unfold Int_part. assert (up (IZR z) = z + 1); [|lia].
    symmetry. apply tech_up; rewrite plus_IZR; lra. }
  rewrite E. destruct (Req_EM_T (IZR z) (IZR z)); [reflexivity | contradiction].
Qed.

(* a LogLogit node with two availability keys but a single availability child (Python cannot build
   it, get_signature refuses it): [resolve] accepts it and the canonical tree has a value while the
   formula has none.  So T01b needs [logit_wf] (which [signature_logit_wf] provides). *)
Theorem indexed_eval_needs_logit_wf Phi en :
  exists t e r, resolve t e = Some r /\ evalX Phi e en = XNaN /\ evalIdx Phi t r en <> XNaN.
Proof.
  exists empty_table, (Node (HLogLogit [1] [1; 2]) [ENumZ 1; ENumZ 0; ENumZ 1]).
  eexists. split; [vm_compute; reflexivity|].
  assert (H1 : D2R (1, 0) = IZR 1) by (unfold D2R; cbn; lra).
  split.
  - rewrite evalX_unfold. cbv zeta. unfold ENumZ. cbn [map]. rewrite !evalX_unfold. reflexivity.
  - unfold evalIdx, ENumZ. rewrite evalX2_unfold. cbv zeta. cbn [map]. rewrite !evalX2_unfold.
    cbv zeta. cbn [map]. unfold xloglogit. cbn [firstn skipn List.length Nat.eqb negb].
    rewrite H1, R2Z_IZR. cbn [assoc_Z Z.eqb Pos.eqb logit_denominator lift1 lift2].
    assert (Hnz : Rnz 1 = true) by (unfold Rnz; destruct (Req_EM_T 1 0); [lra | reflexivity]).
    rewrite Hnz. unfold Rltb'.
    destruct (Rlt_dec 0 (exp (D2R (0, 0)) + 0)) as [_|Hn]; [discriminate|].
    exfalso. apply Hn. pose proof (exp_pos (D2R (0, 0))). lra.
Qed.

(* ------------------------------------------------------------------ assumptions *)
Print Assumptions evalX2_evalX.
Print Assumptions indexed_eval_is_named_eval.
Print Assumptions engine_value_is_named_value.
Print Assumptions resolve_mono.
Print Assumptions side_by_side_irrelevant.
Print Assumptions condsum_shared_value_refuted.
Print Assumptions indexed_eval_needs_logit_wf.
