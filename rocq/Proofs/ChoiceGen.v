(* The generating function of the nested logit (get_mev_generating_for_nested) and the published
   terms ln dG/dy_i (get_mev_for_nested) are consistent: with y = e^V,
   d/dV_i G(e^V) = e^{V_i} * e^{ln G_i}, for every available alternative i, including the
   alternatives outside every nest. *)
From Coq Require Import Reals Lra Lia List ZArith Bool.
From Coquelicot Require Import Coquelicot.
From BV Require Import Model.EvalX Model.BuildersChoice
  Proofs.ChoiceBase Proofs.ChoiceLogit Proofs.ChoiceNested Proofs.ChoiceCnl.
Open Scope R_scope.

(* ------------------------------------------------------------------ calculus *)
Lemma is_derive_Rpower_f (S : R -> R) S' x p :
  is_derive S x S' -> 0 < S x ->
  is_derive (fun t => Rpower (S t) p) x (p * Rpower (S x) (p - 1) * S').
Proof.
  intros HS Hpos. unfold Rpower.
  auto_derive.
  - split; [exists S'; exact HS|]. split; [exact Hpos|exact I].
  - replace (Derive (fun x0 : R => S x0) x) with S' by (symmetry; apply is_derive_unique; exact HS).
    replace ((p - 1) * ln (S x)) with (p * ln (S x) + - ln (S x)) by ring.
    rewrite exp_plus, exp_Ropp, exp_ln by assumption. field. lra.
Qed.

Lemma is_derive_Rsum {A} (f : A -> R -> R) (f' : A -> R) l x :
  (forall a, In a l -> is_derive (f a) x (f' a)) ->
  is_derive (fun t => Rsum (fun a => f a t) l) x (Rsum f' l).
Proof.
  induction l as [|a l IH]; simpl; intros H.
  - auto_derive; [exact I|reflexivity].
  - change (is_derive (fun t => plus (f a t) (Rsum (fun a0 => f a0 t) l)) x (plus (f' a) (Rsum f' l))).
    apply (is_derive_plus (f a) (fun t => Rsum (fun a0 => f a0 t) l)).
    + apply H. now left.
    + apply IH. intros; apply H; now right.
Qed.

Lemma Rsum_pick (l : list Z) i (v : Z -> R) :
  NoDup l -> In i l -> Rsum (fun j => if (j =? i)%Z then v j else 0) l = v i.
Proof.
  induction l as [|a l IH]; simpl; [tauto|]. intros Hn Hi. inversion Hn as [|? ? Hna Hn']; subst.
  destruct (Z.eqb_spec a i) as [->|Hne].
  - rewrite Rsum_zero; [ring|]. intros j Hj. destruct (Z.eqb_spec j i) as [->|]; [tauto|reflexivity].
  - rewrite IH; [ring|assumption|]. destruct Hi; [congruence|assumption].
Qed.

Lemma Rsum_pick_none (l : list Z) i (v : Z -> R) :
  ~ In i l -> Rsum (fun j => if (j =? i)%Z then v j else 0) l = 0.
Proof.
  intros Hi. apply Rsum_zero. intros j Hj. destruct (Z.eqb_spec j i) as [->|]; [tauto|reflexivity].
Qed.

(* the utilities as a function of the value t of V_i *)
Definition uvt (uval : Z -> R) (i : Z) (t : R) (k : Z) : R := if (k =? i)%Z then t else uval k.

(* closed form of G *)
Definition Gfun (aval uval : Z -> R) (muf : nnest -> R) (nests : list nnest) (order : list Z) : R :=
  Rsum (fun m => Rpower (nsum aval uval (muf m) (nn_alts m)) (1 / muf m)) nests
  + Rsum (fun i => b2R (Rnz (aval i)) * exp (uval i)) order.

Lemma permZ_spec a b : permZ a b = true -> NoDup a /\ (forall x, In x a <-> In x b).
Proof.
  unfold permZ. intros H. repeat (apply andb_true_iff in H as [H ?]).
  split.
  - now apply nodupZ_NoDup.
  - intros x. split; intros Hx; [eapply subsetZ_incl; eauto|eapply subsetZ_incl; eauto].
Qed.

Lemma gen_inv util av a order G :
  get_mev_generating_for_nested util av a order = Ok G ->
  exists n,
    nl_make util a = Ok n /\
    nl_guard util av n (zd_plain (map nn_param (nl_list n))) = Ok tt /\
    permZ order (nl_alone n) = true /\
    incl (nl_alone n) (keys util) /\
    (match av with None => True | Some a => incl (nl_alone n) (keys a) end) /\
    G = EMultSum (map (fun m => epow (nest_sum util av m) (pdiv p_one (nn_param m))) (nl_list n)
                  ++ map (gen_alone_term util av) order).
Proof.
  unfold get_mev_generating_for_nested. intros E.
  apply bind_Ok in E as (n & En & E). apply bind_Ok in E as ([] & Eg & E).
  destruct (permZ order (nl_alone n)) eqn:Ep; [|discriminate].
  destruct (subsetZ (nl_alone n) (keys util)) eqn:E1; [|discriminate].
  destruct (match av with None => true | Some a0 => _ end) eqn:E2; [|discriminate].
  destruct (negb _); [|discriminate]. injection E as <-.
  exists n. repeat split; try assumption.
  - now apply subsetZ_incl.
  - destruct av; [now apply subsetZ_incl|exact I].
Qed.

Lemma dict_on_get util f D i g :
  dict_on util f = Ok D -> get D i = Some g -> f i = Ok g.
Proof.
  unfold dict_on. intros E. apply mapM_inv in E.
  induction E as [|[k v] [k' h] util D E0 E IH]; simpl; [discriminate|].
  simpl in E0. destruct (f k) as [g0|] eqn:Ef; simpl in E0; [|discriminate].
  injection E0 as <- <-. destruct (Z.eqb_spec i k) as [->|Hne]; [intros [= <-]; assumption|exact IH].
Qed.

Lemma get_mev_for_nested_inv util av a D :
  get_mev_for_nested util av a = Ok D ->
  exists n, nl_make util a = Ok n /\
            nl_guard util av n (zd_plain (map nn_param (nl_list n))) = Ok tt /\
            dict_on util (nl_log_gi util av n) = Ok D.
Proof.
  unfold get_mev_for_nested. intros E.
  apply bind_Ok in E as (n & En & E). apply bind_Ok in E as ([] & Eg & E). eauto.
Qed.

Section Gen.
  Variable Phi : R -> R.
  Variable en : env.
  Notation ev e := (evalX Phi e en).
  Notation pvx p := (pvX Phi en p).
  Variable U : dict expr.
  Variable av : avail.
  Variables aval uval : Z -> R.
  Let pU := pe_dict U.

  Hypothesis Hav : av_ok Phi en av aval.
  Hypothesis HU : forall k e, In (k, e) U -> ev e = XR (uval k).

  Lemma HUw : forall k e, In (k, e) U -> aval k <> 0 -> ev e = XR (uval k).
  Proof. intros; now apply HU. Qed.

  Lemma cG_exact mu_m mu : nl_exact mu_m -> pvx mu_m = XR mu -> mu <> 0 -> pvx (pdiv p_one mu_m) = XR (1 / mu).
  Proof.
    intros He H Hz. destruct mu_m as [d|e].
    - destruct He as (_ & E2 & _). unfold pvX in *. simpl in *. injection H as <-.
      unfold p_one, pdiv. simpl. now rewrite E2.
    - exact (pvX_pdiv_PE_r Phi en p_one e 1 mu (pvx_one Phi en) H Hz).
  Qed.

  Lemma ev_gen_alone_term i :
    In i (keys U) -> (match av with None => True | Some a => In i (keys a) end) ->
    ev (gen_alone_term pU av i) = XR (b2R (Rnz (aval i)) * exp (uval i)).
  Proof.
    intros Hi Hcov. unfold gen_alone_term.
    destruct (getd_pU_all Phi en U uval HU i Hi) as (e & He & Hev). fold pU in He. rewrite He.
    cbn [to_e]. destruct av as [a|].
    - destruct (get_keys_In a i Hcov) as (p & Hg & Hin). unfold getd. rewrite Hg.
      rewrite ev_bin, ev_un_exp, Hev, (ev_pne0 Phi en p (aval i) (Hav i p Hin)). reflexivity.
    - rewrite ev_un_exp, Hev. pose proof (Hav i) as H1. simpl in H1. rewrite H1, Rnz_1. simpl. f_equal. ring.
  Qed.

  Lemma ev_gen a order G (muf : nnest -> R) :
    get_mev_generating_for_nested pU av a order = Ok G ->
    (forall m, In m (nn_arg_nests a) ->
       pvx (nn_param m) = XR (muf m) /\ muf m <> 0 /\ nl_exact (nn_param m) /\
       exists j, In j (nn_alts m) /\ aval j <> 0) ->
    exists n, nl_make pU a = Ok n /\
      ev G = XR (Gfun aval uval muf (nl_list n) order).
  Proof.
    intros E Hn. destruct (gen_inv _ _ _ _ _ E) as (n & En & Eg & Ep & Hal & Hala & ->).
    exists n. split; [assumption|].
    rewrite <- (nl_make_list _ _ _ En) in Hn.
    destruct (nl_guard_inv _ _ _ _ Eg) as (_ & Hinc & Hcov). unfold pU in Hinc, Hal. rewrite keys_pU in Hinc, Hal.
    destruct (permZ_spec _ _ Ep) as [_ Hperm].
    change (ev (EMultSum ?l)) with (xsum (map (fun e => ev e) l)). rewrite map_app. unfold Gfun.
    apply xsum_app_R.
    - change (xsum (map (fun e => ev e) ?l)) with (ev (EMultSum l)).
      apply (ev_multsum Phi en _ (fun m => Rpower (nsum aval uval (muf m) (nn_alts m)) (1 / muf m))).
      intros m Hm. destruct (Hn m Hm) as (Hmu & Hnz & Hex & j & Hj & Haj).
      assert (Hincm : incl (nn_alts m) (keys U)).
      { intros k Hk. apply Hinc. now apply (in_concat_alts _ m). }
      assert (Hcovm : match av with None => True | Some a => incl (nn_alts m) (keys a) end).
      { destruct av; [|exact I]. intros k Hk. apply Hcov. now apply (in_concat_alts _ m). }
      apply (ev_epow Phi en _ _ _ _ (ev_nest_sum Phi en U av aval uval Hav HUw m (muf m) Hmu Hincm Hcovm)).
      + now apply (nsum_pos aval uval (muf m) (nn_alts m) j).
      + now apply cG_exact.
    - change (xsum (map (fun e => ev e) ?l)) with (ev (EMultSum l)).
      apply (ev_multsum Phi en _ (fun i => b2R (Rnz (aval i)) * exp (uval i))).
      intros i Hi. apply Hperm in Hi. apply ev_gen_alone_term; [now apply Hal|].
      destruct av; [now apply Hala|exact I].
  Qed.
End Gen.

Section GenDerive.
  Variable Phi : R -> R.

  Lemma is_derive_nsum aval uval i mu alts x :
    is_derive (fun t => nsum aval (uvt uval i t) mu alts) x
      (Rsum (fun j => if (j =? i)%Z then (if Rnz (aval j) then mu * exp (mu * x) else 0) else 0) alts).
  Proof.
    unfold nsum. apply is_derive_Rsum. intros j _. unfold uvt.
    destruct (Z.eqb_spec j i) as [->|Hne]; destruct (Rnz (aval _)).
    - auto_derive; [exact I|ring].
    - auto_derive; [exact I|reflexivity].
    - auto_derive; [exact I|reflexivity].
    - auto_derive; [exact I|reflexivity].
  Qed.

  Lemma is_derive_Gfun aval uval muf nests order i x :
    (forall m, In m nests -> exists j, In j (nn_alts m) /\ aval j <> 0) ->
    is_derive (fun t => Gfun aval (uvt uval i t) muf nests order) x
      (Rsum (fun m => 1 / muf m * Rpower (nsum aval (uvt uval i x) (muf m) (nn_alts m)) (1 / muf m - 1)
                      * Rsum (fun j => if (j =? i)%Z then (if Rnz (aval j) then muf m * exp (muf m * x) else 0) else 0)
                             (nn_alts m)) nests
       + Rsum (fun j => if (j =? i)%Z then b2R (Rnz (aval j)) * exp x else 0) order).
  Proof.
    intros Hne. unfold Gfun.
    match goal with |- is_derive _ _ (?a + ?b) => change (a + b) with (plus a b) end.
    apply (is_derive_plus (fun t => Rsum (fun m => Rpower (nsum aval (uvt uval i t) (muf m) (nn_alts m)) (1 / muf m)) nests)
                          (fun t => Rsum (fun j => b2R (Rnz (aval j)) * exp (uvt uval i t j)) order)).
    - apply is_derive_Rsum. intros m Hm. apply is_derive_Rpower_f; [apply is_derive_nsum|].
      destruct (Hne m Hm) as (j & Hj & Ha). now apply (nsum_pos aval _ (muf m) (nn_alts m) j).
    - apply is_derive_Rsum. intros j _. unfold uvt. destruct (Z.eqb_spec j i) as [->|Hn].
      + auto_derive; [exact I|ring].
      + auto_derive; [exact I|ring].
  Qed.

  Lemma uvt_self uval i k : uvt uval i (uval i) k = uval k.
  Proof. unfold uvt. destruct (Z.eqb_spec k i) as [->|]; reflexivity. Qed.

  (* only the nest that contains i contributes to the derivative *)
  Lemma nests_single (l : list nnest) (F : nnest -> R) i m0 :
    pairwise_disjoint (map nn_alts l) = true ->
    find (fun m => memZ i (nn_alts m)) l = Some m0 ->
    (forall m, ~ In i (nn_alts m) -> F m = 0) ->
    Rsum F l = F m0.
  Proof.
    induction l as [|m l IH]; simpl; [discriminate|]. intros Hd Hf HF.
    apply andb_true_iff in Hd as [Hd1 Hd2].
    destruct (memZ i (nn_alts m)) eqn:Em.
    - injection Hf as <-. apply memZ_In in Em.
      rewrite Rsum_zero; [ring|]. intros m' Hm'. apply HF.
      rewrite forallb_forall in Hd1.
      assert (Hdis : disjointZ (nn_alts m) (nn_alts m') = true) by (apply Hd1; now apply in_map).
      now apply (disjointZ_spec _ _ i Hdis).
    - rewrite (HF m) by now apply memZ_false. rewrite (IH Hd2 Hf HF). ring.
  Qed.

  (* T06e *)
  Theorem generating_function_consistent
      (U : dict expr) (av : avail) (a : nn_arg) (order : list Z) (enf : R -> env)
      (aval uval : Z -> R) (muf : nnest -> R) (i : Z) (G : expr) (D : dict pv) (g : pv) (gi : R) :
    (forall t, av_ok Phi (enf t) av aval) ->
    (forall t k e, In (k, e) U -> evalX Phi e (enf t) = XR (uvt uval i t k)) ->
    (forall t m, In m (nn_arg_nests a) ->
       pvX Phi (enf t) (nn_param m) = XR (muf m) /\ muf m <> 0 /\ nl_exact (nn_param m) /\
       exists j, In j (nn_alts m) /\ aval j <> 0) ->
    In i (keys U) -> aval i <> 0 ->
    get_mev_generating_for_nested (pe_dict U) av a order = Ok G ->
    get_mev_for_nested (pe_dict U) av a = Ok D ->
    get D i = Some g ->
    pvX Phi (enf (uval i)) g = XR gi ->
    is_derive (fun t => xR (evalX Phi G (enf t))) (uval i) (exp (uval i) * exp gi).
  Proof.
    intros Hav HU Hn Hi Ha EG ED Eg Hgi.
    (* the value of G along the family of environments *)
    assert (HG : forall t, exists n, nl_make (pe_dict U) a = Ok n /\
                   evalX Phi G (enf t) = XR (Gfun aval (uvt uval i t) muf (nl_list n) order)).
    { intros t. apply (ev_gen Phi (enf t) U av aval (uvt uval i t) (Hav t) (HU t) a order G muf EG (Hn t)). }
    destruct (gen_inv _ _ _ _ _ EG) as (n & En & Egd & Ep & _ & _ & _).
    destruct (permZ_spec _ _ Ep) as [Hndo Hperm].
    apply (is_derive_ext (fun t => Gfun aval (uvt uval i t) muf (nl_list n) order)).
    { intros t. destruct (HG t) as (n' & En' & ->). assert (n' = n) by congruence. subst. reflexivity. }
    pose proof (nl_make_list _ _ _ En) as Hl.
    assert (Hne : forall m, In m (nl_list n) -> exists j, In j (nn_alts m) /\ aval j <> 0).
    { intros m Hm. rewrite Hl in Hm. destruct (Hn 0 m Hm) as (_ & _ & _ & H). exact H. }
    pose proof (is_derive_Gfun aval uval muf (nl_list n) order i (uval i) Hne) as HD.
    (* the published ln G_i *)
    destruct (get_mev_for_nested_inv _ _ _ _ ED) as (n' & En' & Egd' & EDD).
    assert (n' = n) by congruence. subst n'.
    pose proof (dict_on_get _ _ _ _ _ EDD Eg) as Hlg.
    set (x := uval i) in *.
    assert (Hok : nests_ok Phi (enf x) (nl_list n)).
    { intros m Hm. rewrite Hl in Hm. destruct (Hn x m Hm) as (H1 & H2 & _). eauto. }
    assert (HUx : forall k e, In (k, e) U -> aval k <> 0 -> evalX Phi e (enf x) = XR (uvt uval i x k))
      by (intros; now apply HU).
    pose proof (nl_log_gi_value Phi (enf x) U av aval (uvt uval i x) (Hav x) HUx n _ i g Egd Hok Hi Ha Hlg) as Hgv.
    rewrite Hgi in Hgv. injection Hgv as ->.
    destruct (nl_guard_inv _ _ _ _ Egd) as (Hpart & _ & _).
    destruct (check_partition_inv _ Hpart) as (Hnd0 & Hial & Hpd).
    assert (Hnd : forall m, In m (nn_arg_nests a) -> NoDup (nn_alts m)) by (rewrite <- Hl; exact Hnd0).
    eapply is_derive_ext_loc; [apply filter_forall; intros; reflexivity|].
    match goal with HD : is_derive _ _ ?d |- is_derive _ _ ?d' => replace d' with d; [exact HD|] end.
    unfold gnl. unfold find_nest in *.
    destruct (find (fun m => memZ i (nn_alts m)) (nl_list n)) as [m0|] eqn:Ef.
    - (* i belongs to the nest m0 *)
      pose proof Ef as Ef'. apply find_some in Ef' as [Hm0 Him0]. apply memZ_In in Him0.
      pose proof Hm0 as Hm0'. rewrite Hl in Hm0'.
      destruct (Hn x m0 Hm0') as (Hmu & Hnz & Hex & _).
      assert (Hnot_alone : ~ In i order).
      { intros Hio. apply Hperm in Hio. rewrite forallb_forall in Hial.
        assert (Hd : disjointZ (nn_alts m0) (nl_alone n) = true) by (apply Hial; now apply in_map).
        exact (disjointZ_spec _ _ i Hd Him0 Hio). }
      rewrite (Rsum_pick_none order i (fun j => b2R (Rnz (aval j)) * exp x) Hnot_alone).
      rewrite (nests_single (nl_list n) _ i m0 Hpd Ef).
      + rewrite (Rsum_ext _ (fun j => if (j =? i)%Z then muf m0 * exp (muf m0 * x) else 0)).
        * rewrite (Rsum_pick (nn_alts m0) i (fun _ => muf m0 * exp (muf m0 * x)) (Hnd m0 Hm0') Him0).
          rewrite (c1_exact Phi (enf x) _ (muf m0) Hex Hmu), (c2_exact Phi (enf x) _ (muf m0) Hex Hmu Hnz).
          assert (Hmu' : muR Phi (enf x) (nn_param m0) = muf m0) by (unfold muR; now rewrite Hmu).
          rewrite Hmu'.
          assert (Hx : uvt uval i x i = x) by (unfold uvt; now rewrite Z.eqb_refl). rewrite Hx.
          rewrite <- !exp_plus. unfold Rpower.
          replace (x + ((muf m0 - 1) * x + (1 / muf m0 - 1) * ln (nsum aval (uvt uval i x) (muf m0) (nn_alts m0))))
            with ((1 / muf m0 - 1) * ln (nsum aval (uvt uval i x) (muf m0) (nn_alts m0)) + muf m0 * x) by ring.
          rewrite exp_plus. field. assumption.
        * intros j _. destruct (Z.eqb_spec j i) as [->|]; [|reflexivity].
          apply Rnz_true in Ha. now rewrite Ha.
      + intros m Hnotin. rewrite Rsum_pick_none by assumption. ring.
    - (* i is outside every nest *)
      assert (Hial' : In i order).
      { apply Hperm. unfold nl_log_gi, find_nest in Hlg. rewrite Ef in Hlg.
        destruct (memZ i (nl_alone n)) eqn:Em; [now apply memZ_In|discriminate]. }
      rewrite (Rsum_zero _ (nl_list n)).
      + rewrite (Rsum_pick order i (fun j => b2R (Rnz (aval j)) * exp x) Hndo Hial').
        apply Rnz_true in Ha. rewrite Ha. simpl.
        rewrite exp_0. ring.
      + intros m Hm. rewrite Rsum_pick_none; [ring|].
        pose proof (find_none _ _ Ef m Hm) as Hf. simpl in Hf. now apply memZ_false.
  Qed.
End GenDerive.
