(* Nested logit (nested.py): closed forms of the trees built by get_mev_for_nested(_mu),
   lognested / nested (_mev_mu); distribution laws, shift invariance, reductions. *)
From Coq Require Import Reals Lra Lia List ZArith Bool.
From BV Require Import Model.EvalX Model.BuildersChoice Model.PyBase Proofs.ChoiceBase Proofs.ChoiceLogit.
Open Scope R_scope.

(* sum over the available alternatives of a nest of exp(mu * V_j) *)
Definition nsum (aval uval : Z -> R) (mu : R) (alts : list Z) : R :=
  Rsum (fun j => if Rnz (aval j) then exp (mu * uval j) else 0) alts.

Lemma nsum_pos aval uval mu alts i : In i alts -> aval i <> 0 -> 0 < nsum aval uval mu alts.
Proof.
  intros Hi Ha. unfold nsum. apply (Rsum_pos _ alts i); [|assumption|].
  - intros y _. destruct (Rnz (aval y)); [left; apply exp_pos|lra].
  - apply Rnz_true in Ha. rewrite Ha. apply exp_pos.
Qed.

Lemma nsum_shift aval uval mu alts c :
  nsum aval (fun k => uval k + c) mu alts = exp (mu * c) * nsum aval uval mu alts.
Proof.
  unfold nsum. rewrite <- Rsum_scal. apply Rsum_ext. intros j _.
  destruct (Rnz (aval j)); [|ring]. rewrite <- exp_plus. f_equal. ring.
Qed.

(* ------------------------------------------------------------------ inversion of the builders *)
Lemma bind_Ok {A B} (r : res A) (f : A -> res B) b :
  bind r f = Ok b -> exists a, r = Ok a /\ f a = Ok b.
Proof. destruct r; simpl; [eauto|discriminate]. Qed.

Lemma nl_make_list util a n : nl_make util a = Ok n -> nl_list n = nn_arg_nests a.
Proof.
  destruct a; simpl; intros H; apply bind_Ok in H as (al & _ & [= <-]); reflexivity.
Qed.

Lemma nl_guard_inv util av n zd :
  nl_guard util av n zd = Ok tt ->
  check_partition n = true /\
  incl (List.concat (map nn_alts (nl_list n))) (keys util) /\
  (match av with None => True | Some a => incl (List.concat (map nn_alts (nl_list n))) (keys a) end).
Proof.
  unfold nl_guard.
  destruct (check_partition n); [|discriminate].
  destruct (forallb _ (nl_list n)); [|discriminate].
  destruct (subsetZ _ (keys util)) eqn:E1; [|discriminate].
  destruct (match av with None => true | Some a => _ end) eqn:E2; [|discriminate].
  intros _. split; [reflexivity|]. split; [now apply subsetZ_incl|].
  destruct av; [now apply subsetZ_incl|exact I].
Qed.

(* what check_partition guarantees (since the repair of check_intersection: also that every
   nest lists each alternative once) *)
Lemma check_partition_inv n :
  check_partition n = true ->
  (forall m, In m (nl_list n) -> NoDup (nn_alts m)) /\
  forallb (fun a => disjointZ a (nl_alone n)) (map nn_alts (nl_list n)) = true /\
  pairwise_disjoint (map nn_alts (nl_list n)) = true.
Proof.
  unfold check_partition, check_intersection. intros H.
  apply andb_true_iff in H as [_ H]. apply andb_true_iff in H as [Hnd H].
  apply andb_true_iff in H as [H1 H2]. split; [|split; assumption].
  intros m Hm. apply nodupZ_NoDup. rewrite forallb_forall in Hnd. apply Hnd. now apply in_map.
Qed.

Lemma lognested_inv util av a ch t :
  lognested util av a ch = Ok t ->
  exists n H,
    nl_make util a = Ok n /\
    nl_guard util av n (zd_plain (map nn_param (nl_list n))) = Ok tt /\
    mev_h util (nl_log_gi util av n) = Ok H /\
    forall ch', lognested util av a ch' = Ok (loglogit_e H av ch') /\
                nested util av a ch' = Ok (EUn Exp (loglogit_e H av ch')).
Proof.
  unfold lognested at 1. intros E.
  apply bind_Ok in E as (n & En & E). apply bind_Ok in E as ([] & Eg & E).
  unfold logmev_f in E. apply bind_Ok in E as (H & EH & _).
  exists n, H. repeat split; try assumption;
    unfold nested, lognested; rewrite En; simpl; rewrite Eg; simpl;
    unfold logmev_f; rewrite EH; reflexivity.
Qed.

Lemma lognested_mu_inv util av a ch mu t :
  lognested_mev_mu util av a ch mu = Ok t ->
  exists n H,
    nl_make util a = Ok n /\
    nl_guard util av n (zd_nl_mu mu (map nn_param (nl_list n))) = Ok tt /\
    mev_h util (nl_log_gi_mu util av n mu) = Ok H /\
    forall ch', lognested_mev_mu util av a ch' mu = Ok (loglogit_e H av ch') /\
                nested_mev_mu util av a ch' mu = Ok (EUn Exp (loglogit_e H av ch')).
Proof.
  unfold lognested_mev_mu at 1. intros E.
  apply bind_Ok in E as (n & En & E). apply bind_Ok in E as ([] & Eg & E).
  destruct (subsetZ (nl_alone n) (keys util)) eqn:Es; [|discriminate].
  unfold logmev_f in E. apply bind_Ok in E as (H & EH & _).
  exists n, H. repeat split; try assumption;
    unfold nested_mev_mu, lognested_mev_mu; rewrite En; simpl; rewrite Eg; simpl; rewrite Es;
    unfold logmev_f; rewrite EH; reflexivity.
Qed.

(* every nested-logit builder that returns Ok was given nests that list each alternative once *)
Lemma nl_guard_nodup util av n zd :
  nl_guard util av n zd = Ok tt -> forall m, In m (nl_list n) -> NoDup (nn_alts m).
Proof. intros H. destruct (nl_guard_inv _ _ _ _ H) as (Hp & _). apply (check_partition_inv _ Hp). Qed.

Lemma lognested_ok_nodup util av a ch l :
  lognested util av a ch = Ok l -> forall m, In m (nn_arg_nests a) -> NoDup (nn_alts m).
Proof.
  intros E. destruct (lognested_inv _ _ _ _ _ E) as (n & H & En & Eg & _).
  rewrite <- (nl_make_list _ _ _ En). exact (nl_guard_nodup _ _ _ _ Eg).
Qed.

Lemma lognested_mu_ok_nodup util av a ch mu l :
  lognested_mev_mu util av a ch mu = Ok l -> forall m, In m (nn_arg_nests a) -> NoDup (nn_alts m).
Proof.
  intros E. destruct (lognested_mu_inv _ _ _ _ _ _ E) as (n & H & En & Eg & _).
  rewrite <- (nl_make_list _ _ _ En). exact (nl_guard_nodup _ _ _ _ Eg).
Qed.

Lemma find_nest_some n i m : find_nest n i = Some m -> In m (nl_list n) /\ In i (nn_alts m).
Proof.
  unfold find_nest. intros H. apply find_some in H as [H1 H2]. split; [assumption|now apply memZ_In].
Qed.

Lemma in_concat_alts (l : list nnest) m i : In m l -> In i (nn_alts m) -> In i (List.concat (map nn_alts l)).
Proof. intros Hm Hi. apply in_concat. exists (nn_alts m). split; [now apply in_map|assumption]. Qed.

Lemma pmul_PE_r a e : pmul a (PE e) = PE (EBin Times (to_e a) e).
Proof. destruct a; reflexivity. Qed.
Lemma padd_PE_r a e : padd a (PE e) = PE (EBin Plus (to_e a) e).
Proof. destruct a; reflexivity. Qed.

Section Nested.
  Variable Phi : R -> R.
  Variable en : env.
  Notation ev e := (evalX Phi e en).
  Notation pvx p := (pvX Phi en p).
  Variable U : dict expr.
  Variable av : avail.
  Variables aval uval : Z -> R.
  Let pU := pe_dict U.

  Hypothesis Hav : av_ok Phi en av aval.
  Hypothesis HU : forall k e, In (k, e) U -> aval k <> 0 -> ev e = XR (uval k).

  Lemma getd_pU k : In k (keys U) -> exists e, getd p_zero pU k = PE e /\ In (k, e) U.
  Proof.
    intros Hk. destruct (get_keys_In U k Hk) as (e & Hg & Hin). exists e. split; [|assumption].
    unfold getd, pU, pe_dict. rewrite get_dmap, Hg. reflexivity.
  Qed.

  Lemma keys_pU : keys pU = keys U.
  Proof. apply keys_dmap. Qed.

  Lemma In_pU k p : In (k, p) pU -> exists e, p = PE e /\ In (k, e) U.
  Proof. intros H. apply In_dmap in H as (e & He & ->). eauto. Qed.

  (* the term exp(mu_m * V_j) *)
  Lemma ev_nest_term mu_m mu j :
    pvx mu_m = XR mu -> In j (keys U) -> aval j <> 0 ->
    ev (EUn Exp (to_e (pmul mu_m (getd p_zero pU j)))) = XR (exp (mu * uval j)).
  Proof.
    intros Hmu Hj Ha. destruct (getd_pU j Hj) as (e & -> & Hin).
    rewrite ev_un_exp. change (ev (to_e (pmul mu_m (PE e)))) with (pvx (pmul mu_m (PE e))).
    rewrite (pvX_pmul_PE Phi en mu_m e mu (uval j) Hmu (HU j e Hin Ha)). reflexivity.
  Qed.

  Lemma ev_nest_sum m mu :
    pvx (nn_param m) = XR mu ->
    incl (nn_alts m) (keys U) ->
    (match av with None => True | Some a => incl (nn_alts m) (keys a) end) ->
    ev (nest_sum pU av m) = XR (nsum aval uval mu (nn_alts m)).
  Proof.
    intros Hmu Hinc Hcov. unfold nest_sum, nsum. destruct av as [a|].
    - rewrite (ev_condsum Phi en (fun i => pne0 (getd p_zero a i))
                 (fun i => EUn Exp (to_e (pmul (nn_param m) (getd p_zero pU i))))
                 (fun i => b2R (Rnz (aval i))) (fun j => exp (mu * uval j))).
      + f_equal. apply Rsum_ext. intros j _. now rewrite Rnz_b2R_Rnz.
      + intros j Hj. destruct (get_keys_In a j (Hcov j Hj)) as (p & Hg & Hin).
        unfold getd. rewrite Hg. apply ev_pne0. now apply (Hav j p).
      + intros j Hj Hc. apply ev_nest_term; [assumption|now apply Hinc|].
        destruct (Rnz (aval j)) eqn:E; [now apply Rnz_true|simpl in Hc; tauto].
    - rewrite (ev_multsum Phi en _ (fun j => exp (mu * uval j))).
      + f_equal. apply Rsum_ext. intros j _. simpl in Hav. rewrite (Hav j), Rnz_1. reflexivity.
      + intros j Hj. apply ev_nest_term; [assumption|now apply Hinc|]. simpl in Hav. rewrite (Hav j). lra.
  Qed.

  (* values of the coefficients (whatever Python computed) *)
  Definition muR (p : pv) : R := xR (pvx p).
  Definition c1_of (mu_m : pv) : R := xR (pvx (psub mu_m p_one)).
  Definition c2_of (mu_m : pv) : R := xR (pvx (psub (pdiv p_one mu_m) p_one)).
  Definition c2mu_of (mu mu_m : pv) : R := xR (pvx (psub (pdiv mu mu_m) p_one)).
  Definition cm1_of (mu : pv) : R := xR (pvx (psub mu p_one)).

  Lemma pvx_one : pvx p_one = XR 1.
  Proof. unfold pvX, p_one. simpl. now rewrite D2R_one. Qed.

  Lemma c1_def mu_m mu : pvx mu_m = XR mu -> pvx (psub mu_m p_one) = XR (c1_of mu_m).
  Proof.
    intros H. destruct (pvX_psub_def Phi en mu_m p_one mu 1 H pvx_one) as [z Hz].
    unfold c1_of. now rewrite Hz.
  Qed.
  Lemma c2_def mu_m mu : pvx mu_m = XR mu -> mu <> 0 -> pvx (psub (pdiv p_one mu_m) p_one) = XR (c2_of mu_m).
  Proof.
    intros H Hz. destruct (pvX_pdiv_def Phi en p_one mu_m 1 mu pvx_one H Hz) as [q Hq].
    destruct (pvX_psub_def Phi en _ p_one q 1 Hq pvx_one) as [z Hz'].
    unfold c2_of. now rewrite Hz'.
  Qed.
  Lemma c2mu_def mu mu_m x y : pvx mu = XR x -> pvx mu_m = XR y -> y <> 0 ->
    pvx (psub (pdiv mu mu_m) p_one) = XR (c2mu_of mu mu_m).
  Proof.
    intros H1 H2 Hz. destruct (pvX_pdiv_def Phi en mu mu_m x y H1 H2 Hz) as [q Hq].
    destruct (pvX_psub_def Phi en _ p_one q 1 Hq pvx_one) as [z Hz'].
    unfold c2mu_of. now rewrite Hz'.
  Qed.
  Lemma cm1_def mu x : pvx mu = XR x -> pvx (psub mu p_one) = XR (cm1_of mu).
  Proof.
    intros H. destruct (pvX_psub_def Phi en mu p_one x 1 H pvx_one) as [z Hz].
    unfold cm1_of. now rewrite Hz.
  Qed.

  Lemma c1_exact mu_m mu : nl_exact mu_m -> pvx mu_m = XR mu -> c1_of mu_m = mu - 1.
  Proof.
    intros He H. unfold c1_of. destruct mu_m as [d|e].
    - destruct He as (E1 & _). unfold pvX in *. simpl in *. injection H as <-.
      unfold p_one, psub. simpl. now rewrite E1.
    - rewrite (pvX_psub_PE_l Phi en e p_one mu 1 H pvx_one). reflexivity.
  Qed.
  Lemma c2_exact mu_m mu : nl_exact mu_m -> pvx mu_m = XR mu -> mu <> 0 -> c2_of mu_m = 1 / mu - 1.
  Proof.
    intros He H Hz. unfold c2_of. destruct mu_m as [d|e].
    - destruct He as (_ & _ & E3 & _). unfold pvX in *. simpl in *. injection H as <-.
      unfold p_one, psub, pdiv. simpl. now rewrite E3.
    - assert (Hq : ev (EBin Divide (ENumD d_one) e) = XR (1 / mu))
        by exact (pvX_pdiv_PE_r Phi en p_one e 1 mu pvx_one H Hz).
      change (psub (pdiv p_one (PE e)) p_one) with (psub (PE (EBin Divide (ENumD d_one) e)) p_one).
      rewrite (pvX_psub_PE_l Phi en _ p_one (1 / mu) 1 Hq pvx_one). reflexivity.
  Qed.

  (* ---------------- the values h_i = V_i + ln G_i *)
  Definition hnl (n : nl_nests) (i : Z) : R :=
    match find_nest n i with
    | Some m => uval i + (c1_of (nn_param m) * uval i
                          + c2_of (nn_param m) * ln (nsum aval uval (muR (nn_param m)) (nn_alts m)))
    | None => uval i + 0
    end.

  Definition nests_ok (l : list nnest) : Prop :=
    forall m, In m l -> exists mu, pvx (nn_param m) = XR mu /\ mu <> 0.

  (* ln G_i *)
  Definition gnl (n : nl_nests) (i : Z) : R :=
    match find_nest n i with
    | Some m => c1_of (nn_param m) * uval i
                + c2_of (nn_param m) * ln (nsum aval uval (muR (nn_param m)) (nn_alts m))
    | None => 0
    end.

  Lemma hnl_gnl n i : hnl n i = uval i + gnl n i.
  Proof. unfold hnl, gnl. destruct (find_nest n i); reflexivity. Qed.

  Lemma nl_log_gi_value n zd k g :
    nl_guard pU av n zd = Ok tt ->
    nests_ok (nl_list n) ->
    In k (keys U) -> aval k <> 0 ->
    nl_log_gi pU av n k = Ok g -> pvx g = XR (gnl n k).
  Proof.
    intros Hg Hok Hk Ha Hgk.
    destruct (nl_guard_inv _ _ _ _ Hg) as (_ & Hinc & Hcov). rewrite keys_pU in Hinc.
    unfold nl_log_gi in Hgk. unfold gnl. destruct (find_nest n k) as [m|] eqn:Ef.
    - injection Hgk as <-. destruct (find_nest_some _ _ _ Ef) as [Hm Hkm].
      destruct (Hok m Hm) as (mu & Hmu & Hnz).
      assert (Hincm : incl (nn_alts m) (keys U)).
      { intros j Hj. apply Hinc. now apply (in_concat_alts _ m). }
      assert (Hcovm : match av with None => True | Some a => incl (nn_alts m) (keys a) end).
      { destruct av; [|exact I]. intros j Hj. apply Hcov. now apply (in_concat_alts _ m). }
      pose proof (ev_nest_sum m mu Hmu Hincm Hcovm) as Hs.
      pose proof (nsum_pos aval uval mu (nn_alts m) k Hkm Ha) as Hpos.
      destruct (getd_pU k Hk) as (e' & -> & Hke').
      assert (Hlog : ev (EUn Log (nest_sum pU av m)) = XR (ln (nsum aval uval mu (nn_alts m)))).
      { rewrite ev_un_log, Hs. simpl. now rewrite Rltb'_true. }
      assert (Hmu' : muR (nn_param m) = mu) by (unfold muR; now rewrite Hmu).
      rewrite Hmu'.
      set (t1 := pmul (psub (nn_param m) p_one) (PE e')).
      set (t2 := pmul (psub (pdiv p_one (nn_param m)) p_one) (PE (EUn Log (nest_sum pU av m)))).
      assert (H1 : pvx t1 = XR (c1_of (nn_param m) * uval k)).
      { apply pvX_pmul_PE; [now apply (c1_def _ mu)|now apply (HU k e')]. }
      assert (H2 : pvx t2 = XR (c2_of (nn_param m) * ln (nsum aval uval mu (nn_alts m)))).
      { apply pvX_pmul_PE; [now apply (c2_def _ mu)|assumption]. }
      unfold t2 in *. rewrite pmul_PE_r in *. apply pvX_padd_PE; [assumption|exact H2].
    - destruct (memZ k (nl_alone n)); [|discriminate]. injection Hgk as <-.
      unfold pvX. simpl. now rewrite D2R_zero.
  Qed.

  Lemma nl_H_values n zd H :
    nl_guard pU av n zd = Ok tt ->
    nests_ok (nl_list n) ->
    mev_h pU (nl_log_gi pU av n) = Ok H ->
    forall k h, In (k, h) H -> aval k <> 0 -> pvx h = XR (hnl n k).
  Proof.
    intros Hg Hok EH k h Hin Ha.
    destruct (mev_h_inv _ _ _ EH) as [_ Hi]. destruct (Hi k h Hin) as (v & g & Hv & Hgk & ->).
    apply In_pU in Hv as (e & -> & Hke). pose proof (HU k e Hke Ha) as Hev.
    rewrite hnl_gnl. apply pvX_padd_PE_l; [assumption|].
    apply (nl_log_gi_value n zd k g Hg Hok (In_keys U k e Hke) Ha Hgk).
  Qed.

  Lemma lognested_value a ch0 t0 :
    av_covers av (keys U) -> nests_ok (nn_arg_nests a) ->
    lognested pU av a ch0 = Ok t0 ->
    exists n zd, nl_make pU a = Ok n /\ nl_guard pU av n zd = Ok tt /\
      forall i ch, In i (keys U) -> pvx ch = XR (IZR i) ->
        exists l, lognested pU av a ch = Ok l /\ nested pU av a ch = Ok (EUn Exp l) /\
          ev l = (if Rnz (aval i) then XR (hnl n i - ln (den aval (hnl n) (keys U))) else XmInf) /\
          ev (EUn Exp l) = XR (logit_p aval (hnl n) (keys U) i).
  Proof.
    intros Hcov Hok E. destruct (lognested_inv _ _ _ _ _ E) as (n & H & En & Eg & EH & Hall).
    exists n, (zd_plain (map nn_param (nl_list n))). split; [assumption|]. split; [assumption|].
    intros i ch Hi Hch. destruct (Hall ch) as [E1 E2].
    exists (loglogit_e H av ch). split; [assumption|]. split; [assumption|].
    rewrite <- (nl_make_list _ _ _ En) in Hok.
    pose proof (nl_H_values n _ H Eg Hok EH) as HH.
    rewrite <- keys_pU in Hcov, Hi |- *.
    destruct (logmev_f_value Phi en pU (nl_log_gi pU av n) av aval (hnl n) H EH Hav Hcov HH i ch Hi Hch)
      as (_ & V1 & V2).
    split; assumption.
  Qed.
End Nested.

Lemma nl_make_keys util util' a : keys util = keys util' -> nl_make util a = nl_make util' a.
Proof. intros H. destruct a; simpl; rewrite ?H; reflexivity. Qed.

Section NestedThms.
  Variable Phi : R -> R.
  Variable en : env.
  Notation ev e := (evalX Phi e en).
  Notation pvx p := (pvX Phi en p).

  (* T05e (+ T05b, T05c, T05h for the nested logit) *)
  Theorem nested_proper (U : dict expr) (av : avail) (a : nn_arg) (aval uval : Z -> R) :
    av_ok Phi en av aval -> av_covers av (keys U) ->
    (forall k e, In (k, e) U -> aval k <> 0 -> ev e = XR (uval k)) ->
    nests_ok Phi en (nn_arg_nests a) ->
    (exists k, In k (keys U) /\ aval k <> 0) ->
    (exists ch0 t0, lognested (pe_dict U) av a ch0 = Ok t0) ->
    exists p,
      (forall i ch, In i (keys U) -> pvx ch = XR (IZR i) ->
         exists l, lognested (pe_dict U) av a ch = Ok l /\
                   nested (pe_dict U) av a ch = Ok (EUn Exp l) /\
                   ev (EUn Exp l) = XR (p i) /\
                   ev l = (if Rnz (aval i) then XR (ln (p i)) else XmInf)) /\
      is_distribution (keys U) aval p.
  Proof.
    intros Hav Hcov HU Hok Hex (ch0 & t0 & E).
    destruct (lognested_value Phi en U av aval uval Hav HU a ch0 t0 Hcov Hok E) as (n & zd & En & Eg & Hall).
    exists (logit_p aval (hnl Phi en aval uval n) (keys U)). split; [|now apply logit_distribution].
    intros i ch Hi Hch. destruct (Hall i ch Hi Hch) as (l & E1 & E2 & V1 & V2).
    exists l. repeat split; try assumption. rewrite V1.
    destruct (Rnz (aval i)) eqn:Ea; [|reflexivity].
    rewrite ln_logit_p by (try apply Rnz_true; assumption). reflexivity.
  Qed.

  Definition nests_exact (l : list nnest) : Prop := forall m, In m l -> nl_exact (nn_param m).

  Lemma hnl_shift aval uval n c i :
    nests_ok Phi en (nl_list n) -> nests_exact (nl_list n) -> aval i <> 0 ->
    hnl Phi en aval (fun k => uval k + c) n i = hnl Phi en aval uval n i + c.
  Proof.
    intros Hok Hex Ha. unfold hnl. destruct (find_nest n i) as [m|] eqn:Ef; [|ring].
    destruct (find_nest_some _ _ _ Ef) as [Hm Him].
    destruct (Hok m Hm) as (mu & Hmu & Hnz).
    rewrite (c1_exact Phi en _ mu (Hex m Hm) Hmu), (c2_exact Phi en _ mu (Hex m Hm) Hmu Hnz).
    assert (Hmu' : muR Phi en (nn_param m) = mu) by (unfold muR; now rewrite Hmu). rewrite Hmu'.
    rewrite nsum_shift.
    pose proof (nsum_pos aval uval mu (nn_alts m) i Him Ha) as Hpos.
    rewrite ln_mult by (try apply exp_pos; assumption). rewrite ln_exp. field. assumption.
  Qed.

  (* T05g for the nested logit *)
  Theorem nested_shift_invariant (U U' : dict expr) (av : avail) (a : nn_arg) (aval uval : Z -> R) (c : R) :
    av_ok Phi en av aval -> av_covers av (keys U) -> keys U' = keys U ->
    (forall k e, In (k, e) U -> aval k <> 0 -> ev e = XR (uval k)) ->
    (forall k e, In (k, e) U' -> aval k <> 0 -> ev e = XR (uval k + c)) ->
    nests_ok Phi en (nn_arg_nests a) -> nests_exact (nn_arg_nests a) ->
    forall i ch l l', In i (keys U) -> pvx ch = XR (IZR i) ->
      lognested (pe_dict U) av a ch = Ok l -> lognested (pe_dict U') av a ch = Ok l' ->
      ev l' = ev l /\ ev (EUn Exp l') = ev (EUn Exp l).
  Proof.
    intros Hav Hcov Hk HU HU' Hok Hex i ch l l' Hi Hch E E'.
    destruct (lognested_value Phi en U av aval uval Hav HU a ch l Hcov Hok E) as (n & zd & En & Eg & Hall).
    assert (Hcov' : av_covers av (keys U')) by now rewrite Hk.
    destruct (lognested_value Phi en U' av aval (fun k => uval k + c) Hav HU' a ch l' Hcov' Hok E')
      as (n' & zd' & En' & Eg' & Hall').
    assert (n' = n).
    { rewrite (nl_make_keys (pe_dict U') (pe_dict U)) in En' by (unfold pe_dict; now rewrite !keys_dmap).
      congruence. }
    subst n'.
    destruct (Hall i ch Hi Hch) as (l1 & F1 & _ & V1 & V2).
    rewrite <- Hk in Hi. destruct (Hall' i ch Hi Hch) as (l2 & F2 & _ & W1 & W2). rewrite Hk in *.
    assert (l1 = l) by congruence. assert (l2 = l') by congruence. subst l1 l2.
    pose proof (nl_make_list _ _ _ En) as Hl. rewrite <- Hl in Hok, Hex.
    assert (Hs : forall k, In k (keys U) -> aval k <> 0 ->
                 hnl Phi en aval (fun k0 => uval k0 + c) n k = hnl Phi en aval uval n k + c).
    { intros k _ Ha. now apply hnl_shift. }
    rewrite V1, V2, W1, W2. split.
    - destruct (Rnz (aval i)) eqn:Ea; [|reflexivity]. f_equal.
      apply Rnz_true in Ea. exact (loglogit_shift aval _ _ (keys U) c i Hs Hi Ea).
    - f_equal. exact (logit_p_shift aval _ _ (keys U) c i Hs Hi).
  Qed.

  (* T06a: all nest parameters equal to one => the nested logit is the logit *)
  Theorem nested_mu1_is_logit (U : dict expr) (av : avail) (a : nn_arg) (aval uval : Z -> R) :
    av_ok Phi en av aval -> av_covers av (keys U) ->
    (forall k e, In (k, e) U -> aval k <> 0 -> ev e = XR (uval k)) ->
    (forall m, In m (nn_arg_nests a) -> pvx (nn_param m) = XR 1 /\ nl_exact (nn_param m)) ->
    forall i ch l, In i (keys U) -> pvx ch = XR (IZR i) ->
      lognested (pe_dict U) av a ch = Ok l ->
      ev l = ev (loglogit_e (pe_dict U) av ch) /\
      ev (EUn Exp l) = ev (EUn Exp (loglogit_e (pe_dict U) av ch)).
  Proof.
    intros Hav Hcov HU H1 i ch l Hi Hch E.
    assert (Hok : nests_ok Phi en (nn_arg_nests a)).
    { intros m Hm. exists 1. split; [apply (H1 m Hm)|lra]. }
    destruct (lognested_value Phi en U av aval uval Hav HU a ch l Hcov Hok E) as (n & zd & En & Eg & Hall).
    destruct (Hall i ch Hi Hch) as (l1 & F1 & _ & V1 & V2).
    assert (l1 = l) by congruence. subst l1.
    pose proof (nl_make_list _ _ _ En) as Hl.
    assert (Hs : forall k, In k (keys U) -> aval k <> 0 -> hnl Phi en aval uval n k = uval k + 0).
    { intros k _ Ha. unfold hnl. destruct (find_nest n k) as [m|] eqn:Ef; [|reflexivity].
      destruct (find_nest_some _ _ _ Ef) as [Hm _]. rewrite Hl in Hm. destruct (H1 m Hm) as [Hmu Hex].
      rewrite (c1_exact Phi en _ 1 Hex Hmu), (c2_exact Phi en _ 1 Hex Hmu) by lra.
      replace (1 / 1 - 1) with 0 by field. ring. }
    assert (HpU : forall k p, In (k, p) (pe_dict U) -> aval k <> 0 -> pvx p = XR (uval k)).
    { intros k p Hin Ha. apply In_dmap in Hin as (e & He & ->). now apply (HU k e). }
    assert (Hkeys : keys (pe_dict U) = keys U) by apply keys_dmap.
    rewrite V1, V2.
    rewrite (ev_logit_e Phi en aval uval (pe_dict U) av ch i), (ev_loglogit_e Phi en aval uval (pe_dict U) av ch i);
      rewrite ?Hkeys; try assumption.
    split.
    - destruct (Rnz (aval i)) eqn:Ea; [|reflexivity]. f_equal.
      apply Rnz_true in Ea. exact (loglogit_shift aval _ _ (keys U) 0 i Hs Hi Ea).
    - f_equal. exact (logit_p_shift aval _ _ (keys U) 0 i Hs Hi).
  Qed.
End NestedThms.

(* ------------------------------------------------------------------ explicit scale mu *)
Section NestedMu.
  Variable Phi : R -> R.
  Variable en : env.
  Notation ev e := (evalX Phi e en).
  Notation pvx p := (pvX Phi en p).
  Variable U : dict expr.
  Variable av : avail.
  Variables aval uval : Z -> R.
  Let pU := pe_dict U.
  Variable mu : pv.
  Variable muv : R.

  Hypothesis Hav : av_ok Phi en av aval.
  Hypothesis HU : forall k e, In (k, e) U -> aval k <> 0 -> ev e = XR (uval k).
  Hypothesis Hmu : pvx mu = XR muv.
  Hypothesis Hmupos : 0 < muv.

  Definition hnl_mu (n : nl_nests) (i : Z) : R :=
    match find_nest n i with
    | Some m => uval i + ((ln muv + c1_of Phi en (nn_param m) * uval i)
                          + c2mu_of Phi en mu (nn_param m)
                            * ln (nsum aval uval (muR Phi en (nn_param m)) (nn_alts m)))
    | None => uval i + (ln muv + cm1_of Phi en mu * uval i)
    end.

  Lemma ev_log_mu : ev (EUn Log (to_e mu)) = XR (ln muv).
  Proof. rewrite ev_un_log. unfold pvX in Hmu. rewrite Hmu. simpl. now rewrite Rltb'_true. Qed.

  Lemma nl_H_values_mu n zd H :
    nl_guard pU av n zd = Ok tt ->
    nests_ok Phi en (nl_list n) ->
    mev_h pU (nl_log_gi_mu pU av n mu) = Ok H ->
    forall k h, In (k, h) H -> aval k <> 0 -> pvx h = XR (hnl_mu n k).
  Proof.
    intros Hg Hok EH k h Hin Ha.
    destruct (nl_guard_inv _ _ _ _ Hg) as (_ & Hinc & Hcov). unfold pU in Hinc. rewrite keys_pU in Hinc.
    destruct (mev_h_inv _ _ _ EH) as [_ Hi]. destruct (Hi k h Hin) as (v & g & Hv & Hgk & ->).
    apply In_pU in Hv as (e & -> & Hke). pose proof (HU k e Hke Ha) as Hev.
    destruct (getd_pU U k (In_keys U k e Hke)) as (e' & Eg' & Hke').
    unfold nl_log_gi_mu in Hgk. fold pU in Eg'. rewrite Eg' in Hgk.
    unfold hnl_mu. destruct (find_nest n k) as [m|] eqn:Ef.
    - injection Hgk as <-. destruct (find_nest_some _ _ _ Ef) as [Hm Hkm].
      destruct (Hok m Hm) as (mm & Hmm & Hnz).
      assert (Hincm : incl (nn_alts m) (keys U)).
      { intros j Hj. apply Hinc. now apply (in_concat_alts _ m). }
      assert (Hcovm : match av with None => True | Some a => incl (nn_alts m) (keys a) end).
      { destruct av; [|exact I]. intros j Hj. apply Hcov. now apply (in_concat_alts _ m). }
      pose proof (ev_nest_sum Phi en U av aval uval Hav HU m mm Hmm Hincm Hcovm) as Hs.
      pose proof (nsum_pos aval uval mm (nn_alts m) k Hkm Ha) as Hpos.
      assert (Hlog : ev (EUn Log (nest_sum pU av m)) = XR (ln (nsum aval uval mm (nn_alts m)))).
      { rewrite ev_un_log. unfold pU. rewrite Hs. simpl. now rewrite Rltb'_true. }
      assert (Hmm' : muR Phi en (nn_param m) = mm) by (unfold muR; now rewrite Hmm).
      rewrite Hmm'. rewrite ?pmul_PE_r, ?padd_PE_r.
      pose proof (c1_def Phi en _ mm Hmm) as C1.
      pose proof (c2mu_def Phi en mu _ muv mm Hmu Hmm Hnz) as C2.
      unfold pvX in *. cbn [to_e].
      rewrite !ev_bin, ev_log_mu, Hlog, Hev, (HU k e' Hke' Ha), C1, C2. reflexivity.
    - destruct (memZ k (nl_alone n)); [|discriminate]. injection Hgk as <-.
      rewrite ?pmul_PE_r, ?padd_PE_r.
      pose proof (cm1_def Phi en _ muv Hmu) as C1.
      unfold pvX in *. cbn [to_e].
      rewrite !ev_bin, ev_log_mu, Hev, (HU k e' Hke' Ha), C1. reflexivity.
  Qed.

  Lemma lognested_mu_value a ch0 t0 :
    av_covers av (keys U) -> nests_ok Phi en (nn_arg_nests a) ->
    lognested_mev_mu pU av a ch0 mu = Ok t0 ->
    exists n zd, nl_make pU a = Ok n /\ nl_guard pU av n zd = Ok tt /\
      forall i ch, In i (keys U) -> pvx ch = XR (IZR i) ->
        exists l, lognested_mev_mu pU av a ch mu = Ok l /\ nested_mev_mu pU av a ch mu = Ok (EUn Exp l) /\
          ev l = (if Rnz (aval i) then XR (hnl_mu n i - ln (den aval (hnl_mu n) (keys U))) else XmInf) /\
          ev (EUn Exp l) = XR (logit_p aval (hnl_mu n) (keys U) i).
  Proof.
    intros Hcov Hok E. destruct (lognested_mu_inv _ _ _ _ _ _ E) as (n & H & En & Eg & EH & Hall).
    exists n, (zd_nl_mu mu (map nn_param (nl_list n))). split; [assumption|]. split; [assumption|].
    intros i ch Hi Hch. destruct (Hall ch) as [E1 E2].
    exists (loglogit_e H av ch). split; [assumption|]. split; [assumption|].
    rewrite <- (nl_make_list _ _ _ En) in Hok.
    pose proof (nl_H_values_mu n _ H Eg Hok EH) as HH.
    assert (Hk : keys pU = keys U) by apply keys_dmap.
    rewrite <- Hk in Hcov, Hi |- *.
    destruct (logmev_f_value Phi en pU (nl_log_gi_mu pU av n mu) av aval (hnl_mu n) H EH Hav Hcov HH i ch Hi Hch)
      as (_ & V1 & V2).
    split; assumption.
  Qed.
End NestedMu.

Section NestedMuThms.
  Variable Phi : R -> R.
  Variable en : env.
  Notation ev e := (evalX Phi e en).
  Notation pvx p := (pvX Phi en p).

  (* T05e for nested_mev_mu / lognested_mev_mu *)
  Theorem nested_mu_proper (U : dict expr) (av : avail) (a : nn_arg) (mu : pv) (muv : R) (aval uval : Z -> R) :
    av_ok Phi en av aval -> av_covers av (keys U) ->
    (forall k e, In (k, e) U -> aval k <> 0 -> ev e = XR (uval k)) ->
    pvx mu = XR muv -> 0 < muv ->
    nests_ok Phi en (nn_arg_nests a) ->
    (exists k, In k (keys U) /\ aval k <> 0) ->
    (exists ch0 t0, lognested_mev_mu (pe_dict U) av a ch0 mu = Ok t0) ->
    exists p,
      (forall i ch, In i (keys U) -> pvx ch = XR (IZR i) ->
         exists l, lognested_mev_mu (pe_dict U) av a ch mu = Ok l /\
                   nested_mev_mu (pe_dict U) av a ch mu = Ok (EUn Exp l) /\
                   ev (EUn Exp l) = XR (p i) /\
                   ev l = (if Rnz (aval i) then XR (ln (p i)) else XmInf)) /\
      is_distribution (keys U) aval p.
  Proof.
    intros Hav Hcov HU Hmu Hpos Hok Hex (ch0 & t0 & E).
    destruct (lognested_mu_value Phi en U av aval uval mu muv Hav HU Hmu Hpos a ch0 t0 Hcov Hok E)
      as (n & zd & En & Eg & Hall).
    exists (logit_p aval (hnl_mu Phi en aval uval mu muv n) (keys U)). split; [|now apply logit_distribution].
    intros i ch Hi Hch. destruct (Hall i ch Hi Hch) as (l & E1 & E2 & V1 & V2).
    exists l. repeat split; try assumption. rewrite V1.
    destruct (Rnz (aval i)) eqn:Ea; [|reflexivity].
    rewrite ln_logit_p by (try apply Rnz_true; assumption). reflexivity.
  Qed.

  Lemma c2mu_exact mu mu_m x y :
    mu_exact mu mu_m -> pvx mu = XR x -> pvx mu_m = XR y -> y <> 0 ->
    c2mu_of Phi en mu mu_m = x / y - 1.
  Proof.
    intros He Hx Hy Hz. unfold c2mu_of.
    assert (P1 : pvX Phi en p_one = XR 1) by apply pvx_one.
    destruct mu as [a|e], mu_m as [d|e'].
    - destruct He as [E1 _]. unfold pvX in *. simpl in *. injection Hx as <-. injection Hy as <-.
      unfold psub, pdiv, p_one. simpl. now rewrite E1.
    - assert (Hq : ev (EBin Divide (ENumD a) e') = XR (x / y))
        by exact (pvX_pdiv_PE_r Phi en (PN a) e' x y Hx Hy Hz).
      change (psub (pdiv (PN a) (PE e')) p_one) with (psub (PE (EBin Divide (ENumD a) e')) p_one).
      rewrite (pvX_psub_PE_l Phi en _ p_one (x / y) 1 Hq P1). reflexivity.
    - assert (Hq : ev (EBin Divide e (ENumD d)) = XR (x / y))
        by exact (pvX_pdiv_PE_l Phi en e (PN d) x y Hx Hy Hz).
      change (psub (pdiv (PE e) (PN d)) p_one) with (psub (PE (EBin Divide e (ENumD d))) p_one).
      rewrite (pvX_psub_PE_l Phi en _ p_one (x / y) 1 Hq P1). reflexivity.
    - assert (Hq : ev (EBin Divide e e') = XR (x / y))
        by exact (pvX_pdiv_PE_l Phi en e (PE e') x y Hx Hy Hz).
      change (psub (pdiv (PE e) (PE e')) p_one) with (psub (PE (EBin Divide e e')) p_one).
      rewrite (pvX_psub_PE_l Phi en _ p_one (x / y) 1 Hq P1). reflexivity.
  Qed.

  Lemma cm1_exact mu x : mu1_exact mu -> pvx mu = XR x -> cm1_of Phi en mu = x - 1.
  Proof.
    intros He H. unfold cm1_of. destruct mu as [d|e].
    - unfold pvX in *. simpl in *. injection H as <-. unfold p_one, psub. simpl. now rewrite He.
    - rewrite (pvX_psub_PE_l Phi en e p_one x 1 H (pvx_one Phi en)). reflexivity.
  Qed.

  Definition mus_exact (mu : pv) (l : list nnest) : Prop :=
    mu1_exact mu /\ forall m, In m l -> mu_exact mu (nn_param m).

  Lemma hnl_mu_shift aval uval mu muv n c i :
    pvx mu = XR muv ->
    nests_ok Phi en (nl_list n) -> nests_exact (nl_list n) -> mus_exact mu (nl_list n) -> aval i <> 0 ->
    hnl_mu Phi en aval (fun k => uval k + c) mu muv n i = hnl_mu Phi en aval uval mu muv n i + muv * c.
  Proof.
    intros Hmu Hok Hex [Hm1 Hme] Ha. unfold hnl_mu. destruct (find_nest n i) as [m|] eqn:Ef.
    - destruct (find_nest_some _ _ _ Ef) as [Hm Him].
      destruct (Hok m Hm) as (mm & Hmm & Hnz).
      rewrite (c1_exact Phi en _ mm (Hex m Hm) Hmm), (c2mu_exact mu _ muv mm (Hme m Hm) Hmu Hmm Hnz).
      assert (Hmm' : muR Phi en (nn_param m) = mm) by (unfold muR; now rewrite Hmm). rewrite Hmm'.
      rewrite nsum_shift.
      pose proof (nsum_pos aval uval mm (nn_alts m) i Him Ha) as Hpos.
      rewrite ln_mult by (try apply exp_pos; assumption). rewrite ln_exp. field. assumption.
    - rewrite (cm1_exact mu muv Hm1 Hmu). ring.
  Qed.

  (* T05g for the nested logit with explicit scale *)
  Theorem nested_mu_shift_invariant (U U' : dict expr) (av : avail) (a : nn_arg) (mu : pv) (muv : R)
      (aval uval : Z -> R) (c : R) :
    av_ok Phi en av aval -> av_covers av (keys U) -> keys U' = keys U ->
    (forall k e, In (k, e) U -> aval k <> 0 -> ev e = XR (uval k)) ->
    (forall k e, In (k, e) U' -> aval k <> 0 -> ev e = XR (uval k + c)) ->
    pvx mu = XR muv -> 0 < muv ->
    nests_ok Phi en (nn_arg_nests a) -> nests_exact (nn_arg_nests a) -> mus_exact mu (nn_arg_nests a) ->
    forall i ch l l', In i (keys U) -> pvx ch = XR (IZR i) ->
      lognested_mev_mu (pe_dict U) av a ch mu = Ok l -> lognested_mev_mu (pe_dict U') av a ch mu = Ok l' ->
      ev l' = ev l /\ ev (EUn Exp l') = ev (EUn Exp l).
  Proof.
    intros Hav Hcov Hk HU HU' Hmu Hpos Hok Hex Hmx i ch l l' Hi Hch E E'.
    destruct (lognested_mu_value Phi en U av aval uval mu muv Hav HU Hmu Hpos a ch l Hcov Hok E)
      as (n & zd & En & Eg & Hall).
    assert (Hcov' : av_covers av (keys U')) by now rewrite Hk.
    destruct (lognested_mu_value Phi en U' av aval (fun k => uval k + c) mu muv Hav HU' Hmu Hpos a ch l' Hcov' Hok E')
      as (n' & zd' & En' & Eg' & Hall').
    assert (n' = n).
    { rewrite (nl_make_keys (pe_dict U') (pe_dict U)) in En' by (unfold pe_dict; now rewrite !keys_dmap).
      congruence. }
    subst n'.
    destruct (Hall i ch Hi Hch) as (l1 & F1 & _ & V1 & V2).
    rewrite <- Hk in Hi. destruct (Hall' i ch Hi Hch) as (l2 & F2 & _ & W1 & W2). rewrite Hk in *.
    assert (l1 = l) by congruence. assert (l2 = l') by congruence. subst l1 l2.
    pose proof (nl_make_list _ _ _ En) as Hl. rewrite <- Hl in Hok, Hex, Hmx.
    assert (Hs : forall k, In k (keys U) -> aval k <> 0 ->
                 hnl_mu Phi en aval (fun k0 => uval k0 + c) mu muv n k
                 = hnl_mu Phi en aval uval mu muv n k + muv * c).
    { intros k _ Ha. now apply hnl_mu_shift. }
    rewrite V1, V2, W1, W2. split.
    - destruct (Rnz (aval i)) eqn:Ea; [|reflexivity]. f_equal.
      apply Rnz_true in Ea. exact (loglogit_shift aval _ _ (keys U) (muv * c) i Hs Hi Ea).
    - f_equal. exact (logit_p_shift aval _ _ (keys U) (muv * c) i Hs Hi).
  Qed.

  (* T06c (nested): the builders with an explicit scale mu = 1 equal the unscaled ones *)
  Theorem nested_mu_one (U : dict expr) (av : avail) (a : nn_arg) (mu : pv) (aval uval : Z -> R) :
    av_ok Phi en av aval -> av_covers av (keys U) ->
    (forall k e, In (k, e) U -> aval k <> 0 -> ev e = XR (uval k)) ->
    pvx mu = XR 1 ->
    nests_ok Phi en (nn_arg_nests a) -> nests_exact (nn_arg_nests a) -> mus_exact mu (nn_arg_nests a) ->
    forall i ch l l', In i (keys U) -> pvx ch = XR (IZR i) ->
      lognested_mev_mu (pe_dict U) av a ch mu = Ok l -> lognested (pe_dict U) av a ch = Ok l' ->
      ev l = ev l' /\ ev (EUn Exp l) = ev (EUn Exp l').
  Proof.
    intros Hav Hcov HU Hmu Hok Hex Hmx i ch l l' Hi Hch E E'.
    assert (Hpos : 0 < 1) by lra.
    destruct (lognested_mu_value Phi en U av aval uval mu 1 Hav HU Hmu Hpos a ch l Hcov Hok E)
      as (n & zd & En & Eg & Hall).
    destruct (lognested_value Phi en U av aval uval Hav HU a ch l' Hcov Hok E') as (n' & zd' & En' & Eg' & Hall').
    assert (n' = n) by congruence. subst n'.
    destruct (Hall i ch Hi Hch) as (l1 & F1 & _ & V1 & V2).
    destruct (Hall' i ch Hi Hch) as (l2 & F2 & _ & W1 & W2).
    assert (l1 = l) by congruence. assert (l2 = l') by congruence. subst l1 l2.
    pose proof (nl_make_list _ _ _ En) as Hl. rewrite <- Hl in Hok, Hex, Hmx.
    destruct Hmx as [Hm1 Hme].
    assert (Hs : forall k, In k (keys U) -> aval k <> 0 ->
                 hnl_mu Phi en aval uval mu 1 n k = hnl Phi en aval uval n k + 0).
    { intros k _ Ha. unfold hnl_mu, hnl. destruct (find_nest n k) as [m|] eqn:Ef.
      - destruct (find_nest_some _ _ _ Ef) as [Hm Him].
        destruct (Hok m Hm) as (mm & Hmm & Hnz).
        rewrite (c2mu_exact mu _ 1 mm (Hme m Hm) Hmu Hmm Hnz), (c2_exact Phi en _ mm (Hex m Hm) Hmm Hnz).
        rewrite ln_1. ring.
      - rewrite (cm1_exact mu 1 Hm1 Hmu), ln_1. ring. }
    rewrite V1, V2, W1, W2. split.
    - destruct (Rnz (aval i)) eqn:Ea; [|reflexivity]. f_equal.
      apply Rnz_true in Ea. exact (loglogit_shift aval _ _ (keys U) 0 i Hs Hi Ea).
    - f_equal. exact (logit_p_shift aval _ _ (keys U) 0 i Hs Hi).
  Qed.
End NestedMuThms.

(* exactness holds for the literal 1.0 *)
Lemma nl_exact_one : nl_exact (PN d_one).
Proof.
  unfold nl_exact.
  replace (fl_sub d_one d_one) with d_zero by (vm_compute; reflexivity).
  replace (fl_div d_one d_one) with d_one by (vm_compute; reflexivity).
  replace (fl_sub d_one d_one) with d_zero by (vm_compute; reflexivity).
  replace (fl_div d_zero d_one) with d_zero by (vm_compute; reflexivity).
  rewrite D2R_one, D2R_zero. repeat split; field.
Qed.
