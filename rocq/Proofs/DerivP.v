(* Correctness of the symbolic derivative [D] of Model/Deriv.v (Coquelicot).

   Main results
     D_correct      under [dom], x |-> value of e at the point with w := x is differentiable at x0
                    and its derivative is the value of the tree [D w e];
     D_value        ... and that tree has a real value;
     dom_D          the derivative tree is again inside the fragment (so D can be iterated);
     dom_open       [dom] holds on a neighbourhood of the point;
     hess_correct   the (i, j) tree of [hess] is the derivative of the i-th gradient entry;
     hess_is_second_derivative_mixed / _diag   ... hence the second partial derivative of the value;
     hess_symmetric the values of D w' (D w e) and D w (D w' e) are equal (by induction on the tree, with
                    the semantic derivation rules tv_plus, tv_times, ... -- no appeal to Schwarz' theorem);
     aggregate_gradient / aggregate_hessian, scaling_linear, Phi_exists.

   The only thing assumed is the Section hypothesis [Phi_derive] on the normal CDF. *)
From Coq Require Import Reals ZArith List String Bool Lra Lia.
From Coquelicot Require Import Coquelicot.
From BV Require Import Model.Expr Model.EvalX Model.Deriv.
Import ListNotations.
Open Scope R_scope.

(* ------------------------------------------------------------------ strong induction on expr *)
Lemma expr_ind_strong' (P : expr -> Prop) :
  (forall h kids, Forall P kids -> P (Node h kids)) -> forall e, P e.
Proof.
  intros H. fix IH 1. intros [h kids]. apply H.
  induction kids as [|k kids IHk]; constructor; [apply IH | exact IHk].
Qed.

(* ------------------------------------------------------------------ small facts on the decisions *)
Lemma Rltb'_true a b : a < b -> Rltb' a b = true.
Proof. intros H. unfold Rltb'. destruct (Rlt_dec a b); [reflexivity | contradiction]. Qed.
Lemma Rnz_true r : r <> 0 -> Rnz r = true.
Proof. intros H. unfold Rnz. destruct (Req_EM_T r 0); [contradiction | reflexivity]. Qed.
Lemma Rnz_true_inv r : Rnz r = true -> r <> 0.
Proof. unfold Rnz. destruct (Req_EM_T r 0); [discriminate | auto]. Qed.
Lemma Rnz_false_inv r : Rnz r = false -> r = 0.
Proof. unfold Rnz. destruct (Req_EM_T r 0); [auto | discriminate]. Qed.
Lemma Rltb'_true_inv a b : Rltb' a b = true -> a < b.
Proof. unfold Rltb'. destruct (Rlt_dec a b); [auto | discriminate]. Qed.

Lemma R2Z_IZR' z : R2Z (IZR z) = Some z.
Proof.
  unfold R2Z.
  assert (E : Int_part (IZR z) = z).
  { unfold Int_part.
    assert (Hu : (z + 1)%Z = up (IZR z)).
    { apply tech_up; rewrite plus_IZR; lra. }
    rewrite <- Hu. lia. }
  rewrite E. destruct (Req_EM_T (IZR z) (IZR z)) as [_|n]; [reflexivity | exfalso; apply n; reflexivity].
Qed.

Lemma R2Z_Some r z : R2Z r = Some z -> r = IZR z.
Proof.
  unfold R2Z. destruct (Req_EM_T r (IZR (Int_part r))) as [E|]; [|discriminate].
  intros H. injection H as <-. exact E.
Qed.

(* ------------------------------------------------------------------ dyadic exponents *)
Lemma IZR_pow2 e : (0 <= e)%Z -> IZR (2 ^ e) = powerRZ 2 e.
Proof.
  intros He. rewrite <- (Z2Nat.id e He). generalize (Z.to_nat e). intros k.
  rewrite <- pow_IZR, <- pow_powerRZ. reflexivity.
Qed.

Lemma dyadic_is_int_D2R c n : dyadic_is_int c = Some n -> D2R c = IZR n.
Proof.
  destruct c as [m e]. unfold dyadic_is_int, D2R. cbn [fst snd].
  destruct (Z.leb_spec 0 e) as [He|He].
  - intros H. injection H as <-. rewrite mult_IZR, IZR_pow2 by exact He. reflexivity.
  - destruct (Z.eqb_spec (m mod 2 ^ (- e)) 0) as [Hm|]; [|discriminate].
    intros H. injection H as <-.
    assert (Hp : (0 < 2 ^ (- e))%Z) by (apply Z.pow_pos_nonneg; lia).
    assert (Hm' : m = (2 ^ (- e) * (m / 2 ^ (- e)))%Z).
    { rewrite (Z.div_mod m (2 ^ (- e))) at 1 by lia. lia. }
    set (q := (m / 2 ^ (- e))%Z) in *. rewrite Hm' at 1. rewrite mult_IZR.
    rewrite IZR_pow2 by lia.
    replace e with (- (- e))%Z at 2 by lia.
    rewrite (powerRZ_neg 2 (- e)) by lra. rewrite powerRZ_inv by lra.
    field. apply powerRZ_NOR. lra.
Qed.

Lemma dy_pred_D2R c : D2R (dy_pred c) = D2R c - 1.
Proof.
  destruct c as [m e]. unfold dy_pred, D2R.
  destruct (Z.leb_spec 0 e) as [He|He]; cbn [fst snd].
  - rewrite minus_IZR, mult_IZR, IZR_pow2 by exact He. cbn [powerRZ]. ring.
  - rewrite minus_IZR, IZR_pow2 by lia.
    rewrite Rmult_minus_distr_r. f_equal.
    rewrite <- powerRZ_add by lra. replace (- e + e)%Z with 0%Z by lia. reflexivity.
Qed.

Lemma dy_pred_int c :
  dyadic_is_int (dy_pred c) = option_map (fun n => (n - 1)%Z) (dyadic_is_int c).
Proof.
  destruct c as [m e]. unfold dy_pred, dyadic_is_int.
  destruct (Z.leb_spec 0 e) as [He|He].
  - cbn [option_map]. change (0 <=? 0)%Z with true. cbv iota. f_equal. rewrite Z.pow_0_r. lia.
  - destruct (Z.leb_spec 0 e) as [He'|_]; [lia|].
    assert (Hp : (0 < 2 ^ (- e))%Z) by (apply Z.pow_pos_nonneg; lia).
    replace (m - 2 ^ (- e))%Z with (m + (-1) * 2 ^ (- e))%Z by lia.
    rewrite Z_mod_plus_full.
    destruct (Z.eqb_spec (m mod 2 ^ (- e)) 0); cbn [option_map]; [|reflexivity].
    f_equal. rewrite Z_div_plus_full by lia. lia.
Qed.

(* ------------------------------------------------------------------ unfolding evalX *)
Section Unfold.
  Variable Phi : R -> R.
  Notation ev := (evalX Phi).

  Lemma evalX_eq' h kids en :
    ev (Node h kids) en =
    let vs := map (fun k => ev k en) kids in
    match h, vs with
    | HNum d, [] => XR (D2R d)
    | HBeta n _, [] => of_opt (e_beta en n)
    | HVar n, [] => of_opt (e_var en n)
    | HDraws n _, [] => of_opt (e_draw en n)
    | HRV n, [] => of_opt (e_rv en n)
    | HBin op, [a; b] => xbin op a b
    | HUn MonteCarlo, [_] =>
        match kids with
        | [k] => xmean (map (fun d => ev k (with_draw en d)) (e_draws en))
        | _ => XNaN
        end
    | HUn PanelTraj, [_] =>
        match kids with
        | [k] => match e_rows en with
                 | [] => XNaN
                 | rows => xprod (map (fun r => ev k (with_row en r)) rows)
                 end
        | _ => XNaN
        end
    | HUn op, [a] => xun Phi op a
    | HPowC c, [a] => xpowc c a
    | HBelongs s, [a] => xbelongs s a
    | HMultSum, _ => xsum vs
    | HCondSum, _ => xcondsum vs
    | HElem keys, _ => xelem keys vs
    | HLinUtil, _ => xlinutil vs
    | HLogLogit uk ak, _ => xloglogit uk ak vs
    | _, _ => XNaN
    end.
  Proof. reflexivity. Qed.

  Lemma ev_num d en : ev (Node (HNum d) []) en = XR (D2R d).
  Proof. reflexivity. Qed.
  Lemma ev_numZ z en : ev (Node (HNum (z, 0%Z)) []) en = XR (IZR z).
  Proof. rewrite ev_num. unfold D2R. cbn [fst snd powerRZ]. f_equal. ring. Qed.
  Lemma ev_bin op a b en : ev (Node (HBin op) [a; b]) en = xbin op (ev a en) (ev b en).
  Proof. reflexivity. Qed.
  Lemma ev_uminus a en : ev (Node (HUn UMinus) [a]) en = lift1 Ropp (ev a en).
  Proof. reflexivity. Qed.
  Lemma ev_exp a en : ev (Node (HUn Exp) [a]) en = xun Phi Exp (ev a en).
  Proof. reflexivity. Qed.
  Lemma ev_log a en : ev (Node (HUn Log) [a]) en = xun Phi Log (ev a en).
  Proof. reflexivity. Qed.
  Lemma ev_sin a en : ev (Node (HUn Sin) [a]) en = lift1 sin (ev a en).
  Proof. reflexivity. Qed.
  Lemma ev_cos a en : ev (Node (HUn Cos) [a]) en = lift1 cos (ev a en).
  Proof. reflexivity. Qed.
  Lemma ev_ncdf a en : ev (Node (HUn NormalCdf) [a]) en = lift1 Phi (ev a en).
  Proof. reflexivity. Qed.
  Lemma ev_powc a c en : ev (Node (HPowC c) [a]) en = xpowc c (ev a en).
  Proof. reflexivity. Qed.
  Lemma ev_multsum l en : ev (Node HMultSum l) en = xsum (map (fun k => ev k en) l).
  Proof. rewrite evalX_eq'. reflexivity. Qed.
  Lemma ev_linutil l en : ev (Node HLinUtil l) en = xlinutil (map (fun k => ev k en) l).
  Proof. rewrite evalX_eq'. reflexivity. Qed.
  Lemma ev_condsum l en : ev (Node HCondSum l) en = xcondsum (map (fun k => ev k en) l).
  Proof. rewrite evalX_eq'. reflexivity. Qed.
  Lemma ev_elem keys l en : ev (Node (HElem keys) l) en = xelem keys (map (fun k => ev k en) l).
  Proof. rewrite evalX_eq'. reflexivity. Qed.
  Lemma ev_loglogit uk ak l en :
    ev (Node (HLogLogit uk ak) l) en = xloglogit uk ak (map (fun k => ev k en) l).
  Proof. rewrite evalX_eq'. reflexivity. Qed.

  (* ---------------------------------------------------------------- a leaf that is not mentioned does not matter *)
  Lemma upd_with_draw en w x d : with_draw (upd en w x) d = upd (with_draw en d) w x.
  Proof. destruct w; reflexivity. Qed.
  Lemma upd_draws en w x : e_draws (upd en w x) = e_draws en.
  Proof. destruct w; reflexivity. Qed.
  Lemma upd_rows en w x : e_rows (upd en w x) = e_rows en.
  Proof. destruct w; reflexivity. Qed.

  Lemma existsb_false_in {A} (f : A -> bool) l a : existsb f l = false -> In a l -> f a = false.
  Proof.
    intros H Hin. destruct (f a) eqn:E; [|reflexivity].
    assert (existsb f l = true) by (apply existsb_exists; exists a; auto). congruence.
  Qed.

  Lemma set_name_other b x l n : String.eqb n b = false -> set_name b x l n = l n.
  Proof. intros H. unfold set_name. rewrite H. reflexivity. Qed.
  Lemma set_name_same b x l : set_name b x l b = Some x.
  Proof. unfold set_name. rewrite String.eqb_refl. reflexivity. Qed.

  (* under PanelTraj the row is replaced: a variable set in the outer row is not seen; for the
     other two kinds the update commutes *)
  Lemma evalX_upd_nomention w x : forall e en,
    mentions w e = false -> ev e (upd en w x) = ev e en.
  Proof.
    induction e as [h kids IH] using expr_ind_strong'. intros en Hm.
    cbn [mentions] in Hm. apply orb_false_iff in Hm as [Hh Hk].
    rewrite Forall_forall in IH.
    assert (Hkid : forall k en', In k kids -> ev k (upd en' w x) = ev k en').
    { intros k en' Hin. apply IH; [exact Hin|]. exact (existsb_false_in _ _ _ Hk Hin). }
    assert (Hvs : map (fun k => ev k (upd en w x)) kids = map (fun k => ev k en) kids).
    { apply map_ext_in. intros k Hin. apply Hkid, Hin. }
    rewrite !evalX_eq'. cbv zeta. rewrite Hvs.
    destruct h; try reflexivity.
    - (* HBeta *)
      destruct kids; [|reflexivity]. cbn [map].
      destruct w; cbn [is_wrt] in Hh; try reflexivity.
      cbn [upd e_beta]. rewrite set_name_other by exact Hh. reflexivity.
    - (* HVar *)
      destruct kids; [|reflexivity]. cbn [map].
      destruct w; cbn [is_wrt] in Hh; try reflexivity.
      cbn [upd e_var]. rewrite set_name_other by exact Hh. reflexivity.
    - (* HDraws *) destruct kids; [|reflexivity]. destruct w; reflexivity.
    - (* HRV *)
      destruct kids; [|reflexivity]. cbn [map].
      destruct w; cbn [is_wrt] in Hh; try reflexivity.
      cbn [upd e_rv]. rewrite set_name_other by exact Hh. reflexivity.
    - (* HUn *)
      destruct op; try reflexivity.
      + (* MonteCarlo *)
        destruct kids as [|k [|k2 kids]]; try reflexivity. cbn [map].
        rewrite upd_draws. f_equal. apply map_ext. intros d.
        rewrite upd_with_draw. apply Hkid. left; reflexivity.
      + (* PanelTraj *)
        destruct kids as [|k [|k2 kids]]; try reflexivity. cbn [map].
        rewrite upd_rows.
        assert (Hr : forall r, ev k (with_row (upd en w x) r) = ev k (with_row en r)).
        { intros r. destruct w.
          - change (with_row (upd en (WBeta n) x) r) with (upd (with_row en r) (WBeta n) x).
            apply Hkid. left; reflexivity.
          - reflexivity.
          - change (with_row (upd en (WRV n) x) r) with (upd (with_row en r) (WRV n) x).
            apply Hkid. left; reflexivity. }
        destruct (e_rows en) as [|r0 rows]; [reflexivity|].
        f_equal. f_equal; [apply Hr | apply map_ext; exact Hr].
  Qed.

  Lemma upd_beta_same en w x n f : is_wrt w (HBeta n f) = true -> e_beta (upd en w x) n = Some x.
  Proof.
    destruct w as [b|b|b]; cbn [is_wrt]; try discriminate. intros E. apply String.eqb_eq in E.
    subst n. cbn [upd e_beta]. apply set_name_same.
  Qed.
  Lemma upd_var_same en w x n : is_wrt w (HVar n) = true -> e_var (upd en w x) n = Some x.
  Proof.
    destruct w as [b|b|b]; cbn [is_wrt]; try discriminate. intros E. apply String.eqb_eq in E.
    subst n. cbn [upd e_var]. apply set_name_same.
  Qed.
  Lemma upd_rv_same en w x n : is_wrt w (HRV n) = true -> e_rv (upd en w x) n = Some x.
  Proof.
    destruct w as [b|b|b]; cbn [is_wrt]; try discriminate. intros E. apply String.eqb_eq in E.
    subst n. cbn [upd e_rv]. apply set_name_same.
  Qed.

  Lemma pfree_nomention ws w e : In w ws -> pfree ws e = true -> mentions w e = false.
  Proof.
    intros Hin H. unfold pfree in H. rewrite forallb_forall in H.
    specialize (H w Hin). apply negb_true_iff in H. exact H.
  Qed.

  Lemma D_eq w h kids :
    D w (Node h kids) =
    if mentions w (Node h kids) then dnode w h kids (map (D w) kids) else zero.
  Proof. reflexivity. Qed.

  Lemma D_nomention w e : mentions w e = false -> D w e = zero.
  Proof. destruct e as [h kids]. intros H. rewrite D_eq, H. reflexivity. Qed.
End Unfold.

(* ------------------------------------------------------------------ calculus helpers *)
Lemma locally_pos (f : R -> R) (x0 d : R) :
  is_derive f x0 d -> 0 < f x0 -> locally x0 (fun x => 0 < f x).
Proof.
  intros Hd Hp.
  assert (Hc : continuous f x0).
  { apply (ex_derive_continuous (K:=R_AbsRing) (V:=R_NormedModule) f x0). exists d; exact Hd. }
  apply (Hc (fun y => 0 < y)). apply (open_gt 0 (f x0) Hp).
Qed.

Lemma locally_neq0 (f : R -> R) (x0 d : R) :
  is_derive f x0 d -> f x0 <> 0 -> locally x0 (fun x => f x <> 0).
Proof.
  intros Hd Hp.
  assert (Hc : continuous f x0).
  { apply (ex_derive_continuous (K:=R_AbsRing) (V:=R_NormedModule) f x0). exists d; exact Hd. }
  apply (Hc (fun y => y <> 0)). apply (open_neq 0 (f x0) Hp).
Qed.

Lemma is_derive_Rpower_c (S : R -> R) (S' x p : R) :
  is_derive S x S' -> 0 < S x ->
  is_derive (fun t => Rpower (S t) p) x (p * Rpower (S x) (p - 1) * S').
Proof.
  intros HS Hpos. unfold Rpower.
  auto_derive.
  - split; [exists S'; exact HS|]. split; [exact Hpos|exact I].
  - replace (Derive (fun x0 : R => S x0) x) with S' by (symmetry; apply is_derive_unique; exact HS).
    replace ((p - 1) * ln (S x)) with (p * ln (S x) + - ln (S x)) by ring.
    rewrite exp_plus, exp_Ropp, exp_ln by assumption. field. lra.
Qed.

Lemma is_derive_powerRZ_c (S : R -> R) (S' x : R) n :
  is_derive S x S' -> ((0 <= n)%Z \/ S x <> 0) ->
  is_derive (fun t => powerRZ (S t) n) x (IZR n * powerRZ (S x) (n - 1) * S').
Proof.
  intros HS Hn.
  assert (HD : Derive (fun x0 : R => S x0) x = S') by (apply is_derive_unique; exact HS).
  destruct n as [|p|p].
  - cbn [powerRZ]. auto_derive; [exact I | ring].
  - cbn [powerRZ]. auto_derive; [exists S'; exact HS|]. rewrite HD.
    destruct (Pos2Nat.is_succ p) as [j Hj].
    replace (Z.pos p - 1)%Z with (Z.of_nat j) by lia.
    rewrite <- pow_powerRZ. rewrite Hj. cbn [Init.Nat.pred].
    replace (IZR (Z.pos p)) with (INR (Datatypes.S j)) by (rewrite INR_IZR_INZ; f_equal; lia).
    ring.
  - assert (Hx : S x <> 0) by (destruct Hn as [Hn|Hn]; [lia | exact Hn]).
    destruct (Pos2Nat.is_succ p) as [j Hj].
    replace (Z.neg p - 1)%Z with (Z.neg (p + 1)) by lia.
    cbn [powerRZ]. replace (Pos.to_nat (p + 1)) with (Datatypes.S (Datatypes.S j)) by lia.
    auto_derive.
    + split; [exists S'; exact HS|]. split; [apply pow_nonzero; exact Hx | exact I].
    + rewrite HD, Hj. cbn [Init.Nat.pred].
      replace (IZR (Z.neg p)) with (- INR (Datatypes.S j))
        by (rewrite INR_IZR_INZ, <- opp_IZR; f_equal; lia).
      assert (Hj' : S x ^ j <> 0) by (apply pow_nonzero; exact Hx).
      cbn [pow]. field. split; assumption.
Qed.

(* ------------------------------------------------------------------ list helpers *)
Lemma Forall_mp {A} (P Q : A -> Prop) l :
  Forall (fun a => P a -> Q a) l -> Forall P l -> Forall Q l.
Proof. induction 1; intros H'; inversion H'; subst; constructor; auto. Qed.

Lemma assoc_Z_map {A B} (g : A -> B) k keys (l : list A) :
  assoc_Z k keys (map g l) = option_map g (assoc_Z k keys l).
Proof.
  revert l. induction keys as [|k' keys IH]; intros [|a l]; cbn [assoc_Z map option_map]; try reflexivity.
  destruct (k =? k')%Z; [reflexivity | apply IH].
Qed.

Lemma assoc_Z_In {A} k keys (l : list A) a : assoc_Z k keys l = Some a -> In a l.
Proof.
  revert l. induction keys as [|k' keys IH]; intros [|a' l]; cbn [assoc_Z]; try discriminate.
  destruct (k =? k')%Z.
  - intros H; injection H as <-. left; reflexivity.
  - intros H. right. apply IH, H.
Qed.

Lemma assoc_Z_combine {A} k keys (l : list A) a :
  assoc_Z k keys l = Some a -> In (k, a) (combine keys l).
Proof.
  revert l. induction keys as [|k' keys IH]; intros [|a' l]; cbn [assoc_Z combine]; try discriminate.
  destruct (Z.eqb_spec k k') as [->|].
  - intros H; injection H as <-. left; reflexivity.
  - intros H. right. apply IH, H.
Qed.

Lemma xsum_cons a l : xsum (a :: l) = lift2 Rplus a (xsum l).
Proof. reflexivity. Qed.

(* ------------------------------------------------------------------ the main induction *)
Section Correct.
  Variable Phi : R -> R.
  Hypothesis Phi_derive : forall x, is_derive Phi x (D2R inv_sqrt_2pi * exp (- (x * x / 2))).
  Variable ws : list wrt.
  Variable w : wrt.
  Hypothesis Hw : In w ws.
  Variable en : env.
  Variable x0 : R.
  Notation ev := (evalX Phi).
  Notation en0 := (upd en w x0).
  Ltac nf := unfold normal_density, zero, one, two, EBin, EUn, EPowC, ENumZ in *.

  (* e is, around x0, a real-valued differentiable function of the value of w, and the tree
     [D w e] evaluates to its derivative *)
  Definition good (e : expr) : Prop :=
    exists (f : R -> R) (d : R),
      locally x0 (fun x => ev e (upd en w x) = XR (f x)) /\
      is_derive f x0 d /\
      ev (D w e) en0 = XR d.

  Lemma ev_const e x : mentions w e = false -> ev e (upd en w x) = ev e en0.
  Proof. intros H. rewrite !(evalX_upd_nomention Phi) by exact H. reflexivity. Qed.

  Lemma good_const e r : mentions w e = false -> ev e en0 = XR r -> good e.
  Proof.
    intros Hm Hv. exists (fun _ => r), 0. split; [|split].
    - apply filter_forall. intros x. rewrite ev_const by exact Hm. exact Hv.
    - apply @is_derive_const.
    - rewrite D_nomention by exact Hm. unfold zero, ENumZ. rewrite ev_numZ. reflexivity.
  Qed.

  Lemma good_of_struct h kids :
    (exists (f : R -> R) (d : R),
        locally x0 (fun x => ev (Node h kids) (upd en w x) = XR (f x)) /\
        is_derive f x0 d /\
        ev (dnode w h kids (map (D w) kids)) en0 = XR d) ->
    good (Node h kids).
  Proof.
    intros (f & d & L & Hd & V).
    destruct (mentions w (Node h kids)) eqn:E.
    - exists f, d. rewrite D_eq, E. auto.
    - apply (good_const _ (f x0)); [exact E|]. exact (locally_singleton _ _ L).
  Qed.

  Lemma good_val e : good e -> exists r, ev e en0 = XR r.
  Proof. intros (f & d & L & _ & _). exists (f x0). exact (locally_singleton _ _ L). Qed.

  (* ---------------------------------------------------------------- leaves *)
  Lemma good_beta n fx r : e_beta en0 n = Some r -> good (Node (HBeta n fx) []).
  Proof.
    intros Hr. destruct (is_wrt w (HBeta n fx)) eqn:E.
    - apply good_of_struct. exists (fun x => x), 1. split; [|split].
      + apply filter_forall. intros x. rewrite evalX_eq'. cbn [map].
        rewrite (upd_beta_same _ _ _ _ fx E). reflexivity.
      + apply @is_derive_id.
      + cbn [dnode map]. nf. rewrite E. unfold one, ENumZ. apply ev_numZ.
    - apply (good_const _ r); [|rewrite evalX_eq'; cbn [map]; rewrite Hr; reflexivity].
      cbn [mentions existsb]. rewrite E. reflexivity.
  Qed.

  Lemma good_var n r : e_var en0 n = Some r -> good (Node (HVar n) []).
  Proof.
    intros Hr. destruct (is_wrt w (HVar n)) eqn:E.
    - apply good_of_struct. exists (fun x => x), 1. split; [|split].
      + apply filter_forall. intros x. rewrite evalX_eq'. cbn [map].
        rewrite (upd_var_same _ _ _ _ E). reflexivity.
      + apply @is_derive_id.
      + cbn [dnode map]. nf. rewrite E. unfold one, ENumZ. apply ev_numZ.
    - apply (good_const _ r); [|rewrite evalX_eq'; cbn [map]; rewrite Hr; reflexivity].
      cbn [mentions existsb]. rewrite E. reflexivity.
  Qed.

  Lemma good_rv n r : e_rv en0 n = Some r -> good (Node (HRV n) []).
  Proof.
    intros Hr. destruct (is_wrt w (HRV n)) eqn:E.
    - apply good_of_struct. exists (fun x => x), 1. split; [|split].
      + apply filter_forall. intros x. rewrite evalX_eq'. cbn [map].
        rewrite (upd_rv_same _ _ _ _ E). reflexivity.
      + apply @is_derive_id.
      + cbn [dnode map]. nf. rewrite E. unfold one, ENumZ. apply ev_numZ.
    - apply (good_const _ r); [|rewrite evalX_eq'; cbn [map]; rewrite Hr; reflexivity].
      cbn [mentions existsb]. rewrite E. reflexivity.
  Qed.

  (* ---------------------------------------------------------------- scalar operators *)
  (* unpack a [good] hypothesis, with the value at the point *)
  Ltac unpack H f d :=
    let L := fresh "L" f in let Dv := fresh "D" f in let V := fresh "V" f in let E0 := fresh "E" f in
    destruct H as (f & d & L & Dv & V);
    pose proof (locally_singleton _ _ L) as E0; cbv beta in E0.

  Ltac evs :=
    repeat (progress rewrite ?ev_bin, ?ev_numZ, ?ev_num, ?ev_uminus, ?ev_exp, ?ev_log, ?ev_sin, ?ev_cos,
                     ?ev_ncdf, ?ev_powc).

  Ltac dun H f d :=
    replace (Derive (fun y : R => f y) x0) with d by (symmetry; apply is_derive_unique; exact H).

  Lemma good_plus a c : good a -> good c -> good (EBin Plus a c).
  Proof.
    intros Ha Hc. unpack Ha fa da. unpack Hc fc dc.
    nf. apply good_of_struct. exists (fun x => fa x + fc x), (da + dc). split; [|split].
    - generalize (filter_and _ _ Lfa Lfc). apply filter_imp. intros x [E1 E2].
      rewrite ev_bin, E1, E2. reflexivity.
    - apply @is_derive_plus; assumption.
    - cbn [dnode map]. nf. rewrite ev_bin, Vfa, Vfc. reflexivity.
  Qed.

  Lemma good_minus a c : good a -> good c -> good (EBin Minus a c).
  Proof.
    intros Ha Hc. unpack Ha fa da. unpack Hc fc dc.
    nf. apply good_of_struct. exists (fun x => fa x - fc x), (da - dc). split; [|split].
    - generalize (filter_and _ _ Lfa Lfc). apply filter_imp. intros x [E1 E2].
      rewrite ev_bin, E1, E2. reflexivity.
    - apply @is_derive_minus; assumption.
    - cbn [dnode map]. nf. rewrite ev_bin, Vfa, Vfc. reflexivity.
  Qed.

  Lemma good_times a c : good a -> good c -> good (EBin Times a c).
  Proof.
    intros Ha Hc. unpack Ha fa da. unpack Hc fc dc.
    nf. apply good_of_struct. exists (fun x => fa x * fc x), (da * fc x0 + fa x0 * dc). split; [|split].
    - generalize (filter_and _ _ Lfa Lfc). apply filter_imp. intros x [E1 E2].
      rewrite ev_bin, E1, E2. reflexivity.
    - auto_derive.
      + split; [exists da; exact Dfa|]. split; [exists dc; exact Dfc|exact I].
      + dun Dfa fa da. dun Dfc fc dc. ring.
    - cbn [dnode map]. nf. rewrite !ev_bin, Vfa, Vfc, Efa, Efc. reflexivity.
  Qed.

  Lemma good_divide a c v : good a -> good c -> ev c en0 = XR v -> v <> 0 -> good (EBin Divide a c).
  Proof.
    intros Ha Hc Hv Hnz. unpack Ha fa da. unpack Hc fc dc.
    assert (fc x0 = v) by congruence. subst v.
    nf. apply good_of_struct.
    exists (fun x => fa x / fc x), ((da * fc x0 - fa x0 * dc) / (fc x0 * fc x0)). split; [|split].
    - generalize (filter_and _ _ (filter_and _ _ Lfa Lfc) (locally_neq0 _ _ _ Dfc Hnz)).
      apply filter_imp. intros x [[E1 E2] E3].
      rewrite ev_bin, E1, E2. cbn [xbin]. rewrite Rnz_true by exact E3. reflexivity.
    - auto_derive.
      + split; [exists da; exact Dfa|]. split; [exists dc; exact Dfc|]. split; [exact Hnz|exact I].
      + dun Dfa fa da. dun Dfc fc dc. field. exact Hnz.
    - cbn [dnode map]. nf. rewrite !ev_bin, Vfa, Vfc, Efa, Efc. cbn [xbin lift2].
      rewrite Rnz_true; [reflexivity|]. apply Rmult_integral_contrapositive; split; exact Hnz.
  Qed.

  Lemma good_power a c v : good a -> good c -> ev a en0 = XR v -> 0 < v -> good (EBin Power a c).
  Proof.
    intros Ha Hc Hv Hpos. unpack Ha fa da. unpack Hc fc dc.
    assert (fa x0 = v) by congruence. subst v.
    nf. apply good_of_struct.
    exists (fun x => Rpower (fa x) (fc x)),
           (Rpower (fa x0) (fc x0) * (dc * ln (fa x0) + fc x0 * da / fa x0)). split; [|split].
    - generalize (filter_and _ _ (filter_and _ _ Lfa Lfc) (locally_pos _ _ _ Dfa Hpos)).
      apply filter_imp. intros x [[E1 E2] E3].
      rewrite ev_bin, E1, E2. cbn [xbin]. rewrite Rltb'_true by exact E3. reflexivity.
    - unfold Rpower. auto_derive.
      + split; [exists dc; exact Dfc|]. split; [exists da; exact Dfa|]. split; [exact Hpos|exact I].
      + dun Dfa fa da. dun Dfc fc dc. field. lra.
    - cbn [dnode map]. nf. evs. rewrite Vfa, Vfc, Efa, Efc. cbn [xbin lift2 xun].
      rewrite !Rltb'_true by exact Hpos. cbn [lift2]. rewrite Rnz_true by lra. reflexivity.
  Qed.

  Lemma good_uminus a : good a -> good (EUn UMinus a).
  Proof.
    intros Ha. unpack Ha fa da.
    nf. apply good_of_struct. exists (fun x => - fa x), (- da). split; [|split].
    - generalize Lfa. apply filter_imp. intros x E1. rewrite ev_uminus, E1. reflexivity.
    - apply @is_derive_opp; assumption.
    - cbn [dnode map]. nf. rewrite ev_uminus, Vfa. reflexivity.
  Qed.

  Lemma good_exp a : good a -> good (EUn Exp a).
  Proof.
    intros Ha. unpack Ha fa da.
    nf. apply good_of_struct. exists (fun x => exp (fa x)), (exp (fa x0) * da). split; [|split].
    - generalize Lfa. apply filter_imp. intros x E1. rewrite ev_exp, E1. reflexivity.
    - auto_derive; [exists da; exact Dfa|]. dun Dfa fa da. ring.
    - cbn [dnode map]. nf. rewrite ev_bin, ev_exp, Vfa, Efa. reflexivity.
  Qed.

  Lemma good_log a v : good a -> ev a en0 = XR v -> 0 < v -> good (EUn Log a).
  Proof.
    intros Ha Hv Hpos. unpack Ha fa da.
    assert (fa x0 = v) by congruence. subst v.
    nf. apply good_of_struct. exists (fun x => ln (fa x)), (da / fa x0). split; [|split].
    - generalize (filter_and _ _ Lfa (locally_pos _ _ _ Dfa Hpos)). apply filter_imp.
      intros x [E1 E2]. rewrite ev_log, E1. cbn [xun]. rewrite Rltb'_true by exact E2. reflexivity.
    - auto_derive; [split; [exists da; exact Dfa|split; [exact Hpos|exact I]]|].
      dun Dfa fa da. field. lra.
    - cbn [dnode map]. nf. rewrite ev_bin, Vfa, Efa. cbn [xbin]. rewrite Rnz_true by lra. reflexivity.
  Qed.

  Lemma good_sin a : good a -> good (EUn Sin a).
  Proof.
    intros Ha. unpack Ha fa da.
    nf. apply good_of_struct. exists (fun x => sin (fa x)), (cos (fa x0) * da). split; [|split].
    - generalize Lfa. apply filter_imp. intros x E1. rewrite ev_sin, E1. reflexivity.
    - auto_derive; [exists da; exact Dfa|]. dun Dfa fa da. ring.
    - cbn [dnode map]. nf. rewrite ev_bin, ev_cos, Vfa, Efa. reflexivity.
  Qed.

  Lemma good_cos a : good a -> good (EUn Cos a).
  Proof.
    intros Ha. unpack Ha fa da.
    nf. apply good_of_struct. exists (fun x => cos (fa x)), (- (sin (fa x0) * da)). split; [|split].
    - generalize Lfa. apply filter_imp. intros x E1. rewrite ev_cos, E1. reflexivity.
    - auto_derive; [exists da; exact Dfa|]. dun Dfa fa da. ring.
    - cbn [dnode map]. nf. rewrite ev_uminus, ev_bin, ev_sin, Vfa, Efa. reflexivity.
  Qed.

  Lemma good_normalcdf a : good a -> good (EUn NormalCdf a).
  Proof.
    intros Ha. unpack Ha fa da.
    nf. apply good_of_struct.
    exists (fun x => Phi (fa x)), (D2R inv_sqrt_2pi * exp (- (fa x0 * fa x0 / 2)) * da). split; [|split].
    - generalize Lfa. apply filter_imp. intros x E1. rewrite ev_ncdf, E1. reflexivity.
    - replace (D2R inv_sqrt_2pi * exp (- (fa x0 * fa x0 / 2)) * da)
        with (scal da (D2R inv_sqrt_2pi * exp (- (fa x0 * fa x0 / 2))))
        by (unfold scal; cbn; unfold mult; cbn; ring).
      apply (is_derive_comp Phi fa x0); [apply Phi_derive | exact Dfa].
    - cbn [dnode map]. nf.       evs. rewrite Vfa, Efa.
      cbn [xbin lift2 lift1 xun]. rewrite Rnz_true by lra. reflexivity.
  Qed.

  Lemma good_powc a c v : good a -> ev a en0 = XR v -> powc_ok c v -> good (EPowC a c).
  Proof.
    intros Ha Hv Hok. unpack Ha fa da.
    assert (fa x0 = v) by congruence. subst v.
    nf. apply good_of_struct. unfold powc_ok in Hok.
    destruct (dyadic_is_int c) as [n|] eqn:Ec.
    - (* integer exponent *)
      exists (fun x => powerRZ (fa x) n), (IZR n * powerRZ (fa x0) (n - 1) * da). split; [|split].
      + destruct (Z.leb_spec 0 n) as [Hn|Hn].
        * generalize Lfa. apply filter_imp. intros x E1. rewrite ev_powc, E1. unfold xpowc.
          rewrite Ec. destruct (Z.leb_spec 0 n); [reflexivity | lia].
        * assert (Hx : fa x0 <> 0) by (destruct Hok; [lia | assumption]).
          generalize (filter_and _ _ Lfa (locally_neq0 _ _ _ Dfa Hx)). apply filter_imp.
          intros x [E1 E2]. rewrite ev_powc, E1. unfold xpowc. rewrite Ec.
          destruct (Z.leb_spec 0 n); [lia|]. rewrite Rnz_true by exact E2. reflexivity.
      + apply is_derive_powerRZ_c; assumption.
      + cbn [dnode map]. nf. rewrite Ec.
        destruct (Z.eq_dec n 0) as [->|Hn0].
        * rewrite ev_numZ. f_equal. cbn. ring.
        * assert (Hd : ev (Node (HBin Times) [Node (HBin Times) [Node (HNum c) []; Node (HPowC (dy_pred c)) [a]]; D w a]) en0
                       = XR (IZR n * powerRZ (fa x0) (n - 1) * da)).
          { evs. rewrite Vfa, Efa. unfold xpowc.
            rewrite dy_pred_int, Ec. cbn [option_map].
            rewrite (dyadic_is_int_D2R _ _ Ec).
            destruct (Z.leb_spec 0 (n - 1)) as [H1|H1]; [reflexivity|].
            assert (Hx : fa x0 <> 0) by (destruct Hok; [lia | assumption]).
            rewrite Rnz_true by exact Hx. reflexivity. }
          destruct n; [congruence | exact Hd | exact Hd].
    - (* non-integer exponent: positive argument *)
      exists (fun x => Rpower (fa x) (D2R c)), (D2R c * Rpower (fa x0) (D2R c - 1) * da).
      split; [|split].
      + generalize (filter_and _ _ Lfa (locally_pos _ _ _ Dfa Hok)). apply filter_imp.
        intros x [E1 E2]. rewrite ev_powc, E1. unfold xpowc. rewrite Ec.
        rewrite Rltb'_true by exact E2. reflexivity.
      + apply is_derive_Rpower_c; assumption.
      + cbn [dnode map]. nf. rewrite Ec.
        evs. rewrite Vfa, Efa. unfold xpowc.
        rewrite dy_pred_int, Ec. cbn [option_map]. rewrite Rltb'_true by exact Hok.
        rewrite dy_pred_D2R. reflexivity.
  Qed.

  (* ---------------------------------------------------------------- n-ary operators *)
  Notation evx x := (fun k => ev k (upd en w x)).
  Notation ev0 := (fun k => ev k en0).

  Lemma good_sum l :
    Forall good l ->
    exists (F : R -> R) (dF : R),
      locally x0 (fun x => xsum (map (evx x) l) = XR (F x)) /\
      is_derive F x0 dF /\
      xsum (map (fun k => ev (D w k) en0) l) = XR dF.
  Proof.
    induction 1 as [|a l Ha Hl (F & dF & LF & DF & VF)].
    - exists (fun _ => 0), 0. split; [|split].
      + apply filter_forall. reflexivity.
      + apply @is_derive_const.
      + reflexivity.
    - unpack Ha fa da.
      exists (fun x => fa x + F x), (da + dF). split; [|split].
      + generalize (filter_and _ _ Lfa LF). apply filter_imp. intros x [E1 E2].
        cbn [map]. rewrite xsum_cons, E1, E2. reflexivity.
      + apply @is_derive_plus; assumption.
      + cbn [map]. rewrite xsum_cons, Vfa, VF. reflexivity.
  Qed.

  Lemma good_multsum l : Forall good l -> good (Node HMultSum l).
  Proof.
    intros H. destruct (good_sum l H) as (F & dF & LF & DF & VF).
    apply good_of_struct. exists F, dF. split; [|split]; [|exact DF|].
    - generalize LF. apply filter_imp. intros x E. rewrite ev_multsum. exact E.
    - cbn [dnode]. rewrite ev_multsum, map_map. exact VF.
  Qed.

  Lemma dlin_flatten ps :
    dlin (flatten_pairs ps) (map (D w) (flatten_pairs ps)) =
    map (fun p => EBin Plus (EBin Times (D w (fst p)) (snd p)) (EBin Times (fst p) (D w (snd p)))) ps.
  Proof.
    induction ps as [|[b v] ps IH]; [reflexivity|].
    cbn [flatten_pairs map dlin fst snd]. rewrite IH. reflexivity.
  Qed.

  Lemma good_linutil ps :
    Forall (fun p => good (fst p) /\ good (snd p)) ps -> good (ELinUtil ps).
  Proof.
    intros H. unfold ELinUtil. apply good_of_struct.
    cbn [dnode]. rewrite dlin_flatten. 
    induction H as [|[b v] ps [Hb Hv] Hl (F & dF & LF & DF & VF)].
    - exists (fun _ => 0), 0. split; [|split].
      + apply filter_forall. reflexivity.
      + apply @is_derive_const.
      + reflexivity.
    - cbn [fst snd] in Hb, Hv. unpack Hb fb db. unpack Hv fv dv.
      exists (fun x => fb x * fv x + F x), (db * fv x0 + fb x0 * dv + dF). split; [|split].
      + generalize (filter_and _ _ (filter_and _ _ Lfb Lfv) LF). apply filter_imp.
        intros x [[E1 E2] E3]. rewrite ev_linutil in *. cbn [flatten_pairs map xlinutil].
        rewrite E1, E2, E3. reflexivity.
      + auto_derive.
        * split; [exists db; exact Dfb|]. split; [exists dv; exact Dfv|]. split; [exists dF; exact DF|exact I].
        * dun Dfb fb db. dun Dfv fv dv. dun DF F dF. ring.
      + rewrite ev_multsum in *. cbn [map fst snd]. rewrite xsum_cons, VF. nf. evs.
        rewrite Vfb, Vfv, Efb, Efv. reflexivity.
  Qed.

  Lemma dcond_flatten ps :
    dcond (flatten_pairs ps) (map (D w) (flatten_pairs ps)) =
    flatten_pairs (map (fun p => (fst p, D w (snd p))) ps).
  Proof.
    induction ps as [|[c t] ps IH]; [reflexivity|].
    cbn [flatten_pairs map dcond fst snd]. rewrite IH. reflexivity.
  Qed.

  Lemma good_condsum ps :
    Forall (fun p => mentions w (fst p) = false /\
                     exists v, ev (fst p) en0 = XR v /\ (v <> 0 -> good (snd p))) ps ->
    good (ECondSum ps).
  Proof.
    intros H. unfold ECondSum. apply good_of_struct.
    cbn [dnode]. rewrite dcond_flatten.
    induction H as [|[c t] ps (Hc & v & Hv & Ht) Hl (F & dF & LF & DF & VF)].
    - exists (fun _ => 0), 0. split; [|split].
      + apply filter_forall. reflexivity.
      + apply @is_derive_const.
      + reflexivity.
    - cbn [fst snd] in Hc, Hv, Ht. rewrite ev_condsum in VF.
      destruct (Rnz v) eqn:Ev.
      + apply Rnz_true_inv in Ev. specialize (Ht Ev). unpack Ht ft dt.
        exists (fun x => ft x + F x), (dt + dF). split; [|split].
        * generalize (filter_and _ _ Lft LF). apply filter_imp.
          intros x [E1 E2]. rewrite ev_condsum in *. cbn [flatten_pairs map xcondsum].
          rewrite (ev_const c x Hc), Hv, Rnz_true by exact Ev. rewrite E1, E2. reflexivity.
        * apply @is_derive_plus; assumption.
        * rewrite ev_condsum. cbn [map flatten_pairs fst snd xcondsum].
          rewrite Hv, Rnz_true by exact Ev. rewrite Vft, VF. reflexivity.
      + exists F, dF. split; [|split]; [|exact DF|].
        * generalize LF. apply filter_imp.
          intros x E2. rewrite ev_condsum in *. cbn [flatten_pairs map xcondsum].
          rewrite (ev_const c x Hc), Hv, Ev. exact E2.
        * rewrite ev_condsum. cbn [map flatten_pairs fst snd xcondsum].
          rewrite Hv, Ev. exact VF.
  Qed.

  Lemma good_elem keys key entries z sel :
    mentions w key = false -> ev key en0 = XR (IZR z) ->
    assoc_Z z keys entries = Some sel -> good sel ->
    good (Node (HElem keys) (key :: entries)).
  Proof.
    intros Hk Hv Hsel Hs. unpack Hs fs ds.
    apply good_of_struct. exists fs, ds. split; [|split]; [|exact Dfs|].
    - generalize Lfs. apply filter_imp. intros x E.
      rewrite ev_elem. cbn [map xelem]. rewrite (ev_const key x Hk), Hv, R2Z_IZR'.
      rewrite assoc_Z_map, Hsel. cbn [option_map]. rewrite E. reflexivity.
    - cbn [dnode map]. rewrite ev_elem. cbn [map xelem]. rewrite Hv, R2Z_IZR'.
      rewrite map_map, assoc_Z_map, Hsel. cbn [option_map]. rewrite Vfs. reflexivity.
  Qed.

  (* ---------------------------------------------------------------- LogLogit *)
  Lemma firstn_len_app {A} (l1 l2 : list A) n : List.length l1 = n -> firstn n (l1 ++ l2) = l1.
  Proof.
    intros <-. induction l1 as [|a l1 IH]; cbn [List.length firstn app].
    - destruct l2; reflexivity.
    - rewrite IH. reflexivity.
  Qed.
  Lemma skipn_len_app {A} (l1 l2 : list A) n : List.length l1 = n -> skipn n (l1 ++ l2) = l2.
  Proof. intros <-. induction l1 as [|a l1 IH]; cbn [List.length skipn app]; auto. Qed.

  Lemma good_logit_den ak avs : forall uk us,
    List.length us = List.length uk ->
    (forall k u a v, In (k, u) (combine uk us) -> assoc_Z k ak avs = Some a ->
                     ev a en0 = XR v -> v <> 0 -> good u) ->
    forall d, logit_denominator uk (map ev0 us) ak (map ev0 avs) = XR d ->
    exists (F : R -> R) (dF : R),
      locally x0 (fun x => logit_denominator uk (map (evx x) us) ak (map ev0 avs) = XR (F x)) /\
      F x0 = d /\
      is_derive F x0 dF /\
      xcondsum (map ev0 (logit_num_kids uk us (map (D w) us) ak avs)) = XR dF /\
      xcondsum (map ev0 (logit_den_kids uk us ak avs)) = XR d.
  Proof.
    induction uk as [|k ks IH]; intros [|u r] Hlen Hg d Hd; try discriminate.
    - cbn in Hd. injection Hd as <-.
      exists (fun _ => 0), 0. split; [|split; [|split; [|split]]]; try reflexivity.
      + apply filter_forall. reflexivity.
      + apply @is_derive_const.
    - assert (Hg' : forall k' u' a v, In (k', u') (combine ks r) -> assoc_Z k' ak avs = Some a ->
                                      ev a en0 = XR v -> v <> 0 -> good u').
      { intros k' u' a v Hin. apply Hg. right. exact Hin. }
      assert (Hlen' : List.length r = List.length ks) by (cbn in Hlen; lia).
      cbn [map logit_denominator logit_num_kids logit_den_kids] in *.
      rewrite assoc_Z_map in Hd.
      destruct (assoc_Z k ak avs) as [a|] eqn:Ea; cbn [option_map] in Hd.
      + destruct (ev a en0) as [v| |] eqn:Eva; try discriminate.
        destruct (Rnz v) eqn:Ev.
        * apply Rnz_true_inv in Ev.
          assert (Hu : good u) by (apply (Hg k u a v); auto; left; reflexivity).
          unpack Hu fu du. rewrite Efu in Hd.
          destruct (logit_denominator ks (map ev0 r) ak (map ev0 avs)) as [d'| |] eqn:Ed';
            cbn [lift1 lift2] in Hd; try discriminate.
          injection Hd as <-.
          destruct (IH r Hlen' Hg' d' Ed') as (F & dF & LF & F0 & DF & VN & VD).
          exists (fun x => exp (fu x) + F x), (exp (fu x0) * du + dF).
          split; [|split; [|split; [|split]]].
          -- generalize (filter_and _ _ Lfu LF). apply filter_imp. intros x [E1 E2].
             rewrite assoc_Z_map, Ea. cbn [option_map]. rewrite Eva, Rnz_true by exact Ev.
             rewrite E1, E2. reflexivity.
          -- cbv beta. rewrite F0. reflexivity.
          -- auto_derive.
             ++ split; [exists du; exact Dfu|]. split; [exists dF; exact DF|exact I].
             ++ dun Dfu fu du. dun DF F dF. ring.
          -- cbn [map xcondsum]. rewrite Eva, Rnz_true by exact Ev. rewrite VN. nf. evs.
             rewrite Vfu, Efu. reflexivity.
          -- cbn [map xcondsum]. rewrite Eva, Rnz_true by exact Ev. rewrite VD. nf. evs.
             rewrite Efu. reflexivity.
        * destruct (IH r Hlen' Hg' d Hd) as (F & dF & LF & F0 & DF & VN & VD).
          exists F, dF. split; [|split; [|split; [|split]]]; auto.
          -- generalize LF. apply filter_imp. intros x E2.
             rewrite assoc_Z_map, Ea. cbn [option_map]. rewrite Eva, Ev. exact E2.
          -- cbn [map xcondsum]. rewrite Eva, Ev. exact VN.
          -- cbn [map xcondsum]. rewrite Eva, Ev. exact VD.
      + destruct (IH r Hlen' Hg' d Hd) as (F & dF & LF & F0 & DF & VN & VD).
        exists F, dF. split; [|split; [|split; [|split]]]; auto.
        generalize LF. apply filter_imp. intros x E2.
        rewrite assoc_Z_map, Ea. cbn [option_map]. exact E2.
  Qed.

  Lemma good_loglogit uk ak choice us avs r :
    mentions w choice = false ->
    (forall a, In a avs -> mentions w a = false) ->
    List.length us = List.length uk ->
    ev (Node (HLogLogit uk ak) (choice :: us ++ avs)) en0 = XR r ->
    (forall k u a v, In (k, u) (combine uk us) -> assoc_Z k ak avs = Some a ->
                     ev a en0 = XR v -> v <> 0 -> good u) ->
    good (Node (HLogLogit uk ak) (choice :: us ++ avs)).
  Proof.
    intros Hch Havs Hlen Hr Hg.
    rewrite ev_loglogit in Hr. cbn [map xloglogit] in Hr.
    destruct (ev choice en0) as [c| |] eqn:Ec; try discriminate.
    rewrite map_app in Hr.
    rewrite firstn_len_app, skipn_len_app in Hr by (rewrite map_length; exact Hlen).
    destruct (negb (List.length (map ev0 avs) =? List.length ak)%nat) eqn:Eneg; try discriminate.
    destruct (R2Z c) as [z|] eqn:Ez; try discriminate.
    destruct (assoc_Z z ak (map ev0 avs)) as [[a| |]|] eqn:Eaz; try discriminate.
    destruct (assoc_Z z uk (map ev0 us)) as [vc|] eqn:Euz; try discriminate.
    destruct (Rnz a) eqn:Ea; try discriminate.
    destruct vc as [v| |]; try discriminate.
    destruct (logit_denominator uk (map ev0 us) ak (map ev0 avs)) as [d| |] eqn:Ed; try discriminate.
    destruct (Rltb' 0 d) eqn:Epos; try discriminate.
    apply Rltb'_true_inv in Epos. apply Rnz_true_inv in Ea.
    (* the chosen alternative *)
    pose proof Euz as Euz'. rewrite assoc_Z_map in Euz'.
    destruct (assoc_Z z uk us) as [uc|] eqn:Euc; cbn [option_map] in Euz'; try discriminate.
    injection Euz' as Evc.
    pose proof Eaz as Eaz'. rewrite assoc_Z_map in Eaz'.
    destruct (assoc_Z z ak avs) as [ac|] eqn:Eac; cbn [option_map] in Eaz'; try discriminate.
    injection Eaz' as Eva.
    assert (Huc : good uc) by (apply (Hg z uc ac a); auto; apply assoc_Z_combine; exact Euc).
    unpack Huc fc dc.
    destruct (good_logit_den ak avs uk us Hlen Hg d Ed) as (F & dF & LF & F0 & DF & VN & VD).
    assert (Hpos : 0 < F x0) by (rewrite F0; exact Epos).
    assert (Havs' : forall x, map (evx x) avs = map ev0 avs).
    { intros x. apply map_ext_in. intros a' Hin. apply ev_const, Havs, Hin. }
    apply good_of_struct. exists (fun x => fc x - ln (F x)), (dc - dF / F x0). split; [|split].
    - generalize (filter_and _ _ (filter_and _ _ Lfc LF) (locally_pos _ _ _ DF Hpos)).
      apply filter_imp. intros x [[E1 E2] E3].
      rewrite ev_loglogit. cbn [map xloglogit]. rewrite (ev_const choice x Hch), Ec.
      rewrite map_app.
      rewrite firstn_len_app, skipn_len_app by (rewrite map_length; exact Hlen).
      rewrite Havs', Eneg, Ez, Eaz.
      rewrite assoc_Z_map, Euc. cbn [option_map]. rewrite Rnz_true by exact Ea.
      rewrite E1, E2, Rltb'_true by exact E3. reflexivity.
    - auto_derive.
      + split; [exists dc; exact Dfc|]. split; [exists dF; exact DF|]. split; [exact Hpos|exact I].
      + dun Dfc fc dc. dun DF F dF. field. lra.
    - cbn [dnode dloglogit map]. rewrite map_app.
      rewrite !firstn_len_app, skipn_len_app by (rewrite ?map_length; exact Hlen).
      nf. evs. rewrite ev_elem, !ev_condsum, VN, VD.
      cbn [map xelem]. rewrite Ec, Ez, map_map, assoc_Z_map, Euc. cbn [option_map].
      rewrite Vfc. cbn [xbin lift2]. rewrite Rnz_true by lra. rewrite F0. reflexivity.
  Qed.

  (* ---------------------------------------------------------------- the induction *)
  Lemma Forall_pairs_flatten (P : expr -> Prop) ps :
    Forall P (flatten_pairs ps) <-> Forall (fun p => P (fst p) /\ P (snd p)) ps.
  Proof.
    induction ps as [|[a b] ps IH]; cbn [flatten_pairs]; split; intros H; try constructor.
    - inversion H as [|? ? Ha H']; subst. inversion H' as [|? ? Hb H'']; subst. cbn [fst snd]. auto.
    - inversion H as [|? ? Ha H']; subst. inversion H' as [|? ? Hb H'']; subst. apply IH. exact H''.
    - inversion H as [|? ? [Ha Hb] H']; subst. exact Ha.
    - inversion H as [|? ? [Ha Hb] H']; subst. constructor; [exact Hb | apply IH; exact H'].
  Qed.

  Theorem D_good : forall e, dom Phi ws en0 e -> good e.
  Proof.
    induction e as [h kids IH] using expr_ind_strong'. intros Hdom.
    rewrite Forall_forall in IH.
    inversion Hdom; subst.
    - (* parameter-free *)
      match goal with H : pfree _ _ = true, H' : evalX _ _ _ = XR ?r |- _ =>
        apply (good_const _ r); [exact (pfree_nomention ws w _ Hw H) | exact H'] end.
    - eapply good_beta; eassumption.
    - eapply good_var; eassumption.
    - eapply good_rv; eassumption.
    - apply good_plus; apply IH; cbn [In]; auto.
    - apply good_minus; apply IH; cbn [In]; auto.
    - apply good_times; apply IH; cbn [In]; auto.
    - eapply good_divide; try eassumption; apply IH; cbn [In]; auto.
    - eapply good_power; try eassumption; apply IH; cbn [In]; auto.
    - apply good_uminus; apply IH; cbn [In]; auto.
    - apply good_exp; apply IH; cbn [In]; auto.
    - eapply good_log; try eassumption; apply IH; cbn [In]; auto.
    - apply good_sin; apply IH; cbn [In]; auto.
    - apply good_cos; apply IH; cbn [In]; auto.
    - apply good_normalcdf; apply IH; cbn [In]; auto.
    - eapply good_powc; try eassumption; apply IH; cbn [In]; auto.
    - (* MultSum *)
      apply good_multsum. rewrite Forall_forall. intros k Hin. apply IH; [exact Hin|].
      match goal with H : Forall _ kids |- _ => rewrite Forall_forall in H; apply H; exact Hin end.
    - (* LinUtil *)
      apply good_linutil. apply Forall_pairs_flatten.
      match goal with H : Forall _ ps |- _ => apply (Forall_pairs_flatten (dom Phi ws en0)) in H;
        rewrite Forall_forall in H |- *; intros k Hin; apply IH; [exact Hin | apply H; exact Hin] end.
    - (* CondSum *)
      apply good_condsum.
      match goal with H : Forall _ ps |- _ => rename H into Hps end.
      assert (Hin : forall p, In p ps -> In (snd p) (flatten_pairs ps)).
      { clear. induction ps as [|[a b] ps IHp]; cbn [In flatten_pairs]; [tauto|].
        intros p [<-|Hp]; cbn [snd]; [auto | right; right; apply IHp, Hp]. }
      rewrite Forall_forall in Hps |- *. intros p Hp.
      destruct (Hps p Hp) as (Hc & v & Hv & Ht).
      split; [exact (pfree_nomention ws w _ Hw Hc)|].
      exists v. split; [exact Hv|]. intros Hnz. apply IH; [apply Hin, Hp | apply Ht, Hnz].
    - (* Elem *)
      match goal with H : assoc_Z _ _ _ = Some ?s |- _ =>
        eapply good_elem; [eapply pfree_nomention; eassumption | eassumption | exact H |] end.
      apply IH; [|assumption]. right. eapply assoc_Z_In; eassumption.
    - (* LogLogit *)
      match goal with H : forallb (pfree ws) avs = true |- _ => rename H into Havs end.
      rewrite forallb_forall in Havs.
      eapply good_loglogit; try eassumption.
      + eapply pfree_nomention; eassumption.
      + intros a Ha. eapply pfree_nomention; [exact Hw | apply Havs, Ha].
      + intros k u a v Hin Ha Hv Hnz. apply IH.
        * right. apply in_or_app. left. exact (in_combine_r _ _ _ _ Hin).
        * match goal with H : forall k u a v, In (k, u) _ -> _ |- _ => eapply H; eassumption end.
  Qed.

  (* T02a *)
  Theorem D_correct e :
    dom Phi ws en0 e ->
    is_derive (fun x => valR (ev e (upd en w x))) x0 (valR (ev (D w e) en0)).
  Proof.
    intros Hd. destruct (D_good e Hd) as (f & d & L & Df & V).
    rewrite V. cbn [valR].
    apply (is_derive_ext_loc f); [|exact Df].
    generalize L. apply filter_imp. intros x E. rewrite E. reflexivity.
  Qed.

  Theorem D_value e : dom Phi ws en0 e -> exists d, ev (D w e) en0 = XR d.
  Proof. intros Hd. destruct (D_good e Hd) as (f & d & _ & _ & V). exists d. exact V. Qed.

  Theorem dom_value e : dom Phi ws en0 e -> exists r, ev e en0 = XR r.
  Proof. intros Hd. exact (good_val e (D_good e Hd)). Qed.

  (* ---------------------------------------------------------------- the derivative tree stays in the fragment *)
  Lemma mentions_num w' d : mentions w' (Node (HNum d) []) = false.
  Proof. destruct w'; reflexivity. Qed.

  Lemma pfree_num d : pfree ws (Node (HNum d) []) = true.
  Proof. unfold pfree. apply forallb_forall. intros w' _. rewrite mentions_num. reflexivity. Qed.

  Lemma dom_num d : dom Phi ws en0 (Node (HNum d) []).
  Proof. apply (dom_pfree _ _ _ _ (D2R d)); [apply pfree_num | reflexivity]. Qed.

  Lemma dom_zero : dom Phi ws en0 zero.  Proof. apply dom_num. Qed.
  Lemma dom_one : dom Phi ws en0 one.  Proof. apply dom_num. Qed.

  Fixpoint logit_den_pairs (uk : list Z) (us : list expr) (ak : list Z) (avs : list expr)
    : list (expr * expr) :=
    match uk, us with
    | k :: ks, u :: r =>
        match assoc_Z k ak avs with
        | Some a => (a, EUn Exp u) :: logit_den_pairs ks r ak avs
        | None => logit_den_pairs ks r ak avs
        end
    | _, _ => []
    end.

  Fixpoint logit_num_pairs (uk : list Z) (us dus : list expr) (ak : list Z) (avs : list expr)
    : list (expr * expr) :=
    match uk, us, dus with
    | k :: ks, u :: r, du :: dr =>
        match assoc_Z k ak avs with
        | Some a => (a, EBin Times (EUn Exp u) du) :: logit_num_pairs ks r dr ak avs
        | None => logit_num_pairs ks r dr ak avs
        end
    | _, _, _ => []
    end.

  Lemma logit_den_kids_pairs ak avs : forall uk us,
    logit_den_kids uk us ak avs = flatten_pairs (logit_den_pairs uk us ak avs).
  Proof.
    induction uk as [|k ks IH]; intros [|u r]; try reflexivity.
    cbn [logit_den_kids logit_den_pairs]. destruct (assoc_Z k ak avs); cbn [flatten_pairs]; rewrite IH; reflexivity.
  Qed.

  Lemma logit_num_kids_pairs ak avs : forall uk us dus,
    logit_num_kids uk us dus ak avs = flatten_pairs (logit_num_pairs uk us dus ak avs).
  Proof.
    induction uk as [|k ks IH]; intros [|u r] [|du dr]; try reflexivity.
    cbn [logit_num_kids logit_num_pairs]. destruct (assoc_Z k ak avs); cbn [flatten_pairs]; rewrite IH; reflexivity.
  Qed.

  Definition cond_ok (p : expr * expr) : Prop :=
    pfree ws (fst p) = true /\
    exists v, ev (fst p) en0 = XR v /\ (v <> 0 -> dom Phi ws en0 (snd p)).

  Lemma logit_pairs_dom ak avs :
    (forall a, In a avs -> pfree ws a = true) ->
    forall uk us,
    List.length us = List.length uk ->
    (forall k u a v, In (k, u) (combine uk us) -> assoc_Z k ak avs = Some a ->
                     ev a en0 = XR v -> v <> 0 ->
                     dom Phi ws en0 u /\ dom Phi ws en0 (D w u)) ->
    forall d, logit_denominator uk (map ev0 us) ak (map ev0 avs) = XR d ->
    Forall cond_ok (logit_num_pairs uk us (map (D w) us) ak avs) /\
    Forall cond_ok (logit_den_pairs uk us ak avs).
  Proof.
    intros Hav. induction uk as [|k ks IH]; intros [|u r] Hlen Hg d Hd; try discriminate.
    - split; constructor.
    - assert (Hg' : forall k' u' a v, In (k', u') (combine ks r) -> assoc_Z k' ak avs = Some a ->
                                      ev a en0 = XR v -> v <> 0 ->
                                      dom Phi ws en0 u' /\ dom Phi ws en0 (D w u')).
      { intros k' u' a v Hin. apply Hg. right. exact Hin. }
      assert (Hlen' : List.length r = List.length ks) by (cbn in Hlen; lia).
      cbn [map logit_denominator logit_num_pairs logit_den_pairs] in *.
      rewrite assoc_Z_map in Hd.
      destruct (assoc_Z k ak avs) as [a|] eqn:Ea; cbn [option_map] in Hd.
      + destruct (ev a en0) as [v| |] eqn:Eva; try discriminate.
        assert (Hpa : pfree ws a = true) by (apply Hav; eapply assoc_Z_In; exact Ea).
        assert (Htail : exists d', logit_denominator ks (map ev0 r) ak (map ev0 avs) = XR d').
        { destruct (Rnz v); [|eauto].
          destruct (logit_denominator ks (map ev0 r) ak (map ev0 avs)) as [d'| |]; [eauto | |];
            destruct (lift1 exp (ev u en0)); discriminate. }
        destruct Htail as (d' & Ed').
        destruct (IH r Hlen' Hg' d' Ed') as [IN ID].
        split; constructor; auto.
        * split; [exact Hpa|]. exists v. split; [exact Eva|]. intros Hnz.
          destruct (Hg k u a v) as [Hu Hdu]; auto; [left; reflexivity|].
          apply dom_times; [apply dom_exp; exact Hu | exact Hdu].
        * split; [exact Hpa|]. exists v. split; [exact Eva|]. intros Hnz.
          destruct (Hg k u a v) as [Hu Hdu]; auto; [left; reflexivity|].
          apply dom_exp; exact Hu.
      + exact (IH r Hlen' Hg' d Hd).
  Qed.

  Lemma loglogit_inv uk ak choice us avs r :
    List.length us = List.length uk ->
    ev (Node (HLogLogit uk ak) (choice :: us ++ avs)) en0 = XR r ->
    exists z a v d uc ac,
      ev choice en0 = XR (IZR z) /\ assoc_Z z uk us = Some uc /\ ev uc en0 = XR v /\
      assoc_Z z ak avs = Some ac /\ ev ac en0 = XR a /\ a <> 0 /\
      logit_denominator uk (map ev0 us) ak (map ev0 avs) = XR d /\ 0 < d.
  Proof.
    intros Hlen Hr.
    rewrite ev_loglogit in Hr. cbn [map xloglogit] in Hr.
    destruct (ev choice en0) as [c| |] eqn:Ec; try discriminate.
    rewrite map_app in Hr.
    rewrite firstn_len_app, skipn_len_app in Hr by (rewrite map_length; exact Hlen).
    destruct (negb (List.length (map ev0 avs) =? List.length ak)%nat) eqn:Eneg; try discriminate.
    destruct (R2Z c) as [z|] eqn:Ez; try discriminate.
    destruct (assoc_Z z ak (map ev0 avs)) as [[a| |]|] eqn:Eaz; try discriminate.
    destruct (assoc_Z z uk (map ev0 us)) as [vc|] eqn:Euz; try discriminate.
    destruct (Rnz a) eqn:Ea; try discriminate.
    destruct vc as [v| |]; try discriminate.
    destruct (logit_denominator uk (map ev0 us) ak (map ev0 avs)) as [d| |] eqn:Ed; try discriminate.
    destruct (Rltb' 0 d) eqn:Epos; try discriminate.
    apply Rltb'_true_inv in Epos. apply Rnz_true_inv in Ea.
    rewrite assoc_Z_map in Euz.
    destruct (assoc_Z z uk us) as [uc|] eqn:Euc; cbn [option_map] in Euz; try discriminate.
    injection Euz as Evc.
    rewrite assoc_Z_map in Eaz.
    destruct (assoc_Z z ak avs) as [ac|] eqn:Eac; cbn [option_map] in Eaz; try discriminate.
    injection Eaz as Eva.
    apply R2Z_Some in Ez. subst c.
    exists z, a, v, d, uc, ac. repeat split; auto.
  Qed.

  Theorem dom_D : forall e, dom Phi ws en0 e -> dom Phi ws en0 (D w e).
  Proof.
    induction e as [h kids IH] using expr_ind_strong'. intros Hdom.
    rewrite Forall_forall in IH.
    destruct (mentions w (Node h kids)) eqn:Em; [|rewrite D_nomention by exact Em; apply dom_zero].
    rewrite D_eq, Em.
    inversion Hdom; subst.
    - (* parameter-free: impossible *)
      match goal with H : pfree _ _ = true |- _ =>
        rewrite (pfree_nomention ws w _ Hw H) in Em; discriminate end.
    - cbn [dnode]. destruct (is_wrt w (HBeta n f)); [apply dom_one | apply dom_zero].
    - cbn [dnode]. destruct (is_wrt w (HVar n)); [apply dom_one | apply dom_zero].
    - cbn [dnode]. destruct (is_wrt w (HRV n)); [apply dom_one | apply dom_zero].
    - (* plus *) cbn [dnode map]. apply dom_plus; apply IH; cbn [In]; auto.
    - cbn [dnode map]. apply dom_minus; apply IH; cbn [In]; auto.
    - (* times *)
      cbn [dnode map]. apply dom_plus; apply dom_times; auto; apply IH; cbn [In]; auto.
    - (* divide *)
      cbn [dnode map]. apply (dom_divide _ _ _ _ _ (v * v)).
      + apply dom_minus; apply dom_times; auto; apply IH; cbn [In]; auto.
      + apply dom_times; assumption.
      + nf. evs. match goal with H : evalX _ y _ = XR v |- _ => rewrite H end. reflexivity.
      + apply Rmult_integral_contrapositive; split; assumption.
    - (* power *)
      cbn [dnode map]. apply dom_times.
      + eapply dom_power; eassumption.
      + apply dom_plus.
        * apply dom_times; [apply IH; cbn [In]; auto | eapply dom_log; eassumption].
        * eapply (dom_divide _ _ _ _ _ v); auto; [|lra].
          apply dom_times; [assumption | apply IH; cbn [In]; auto].
    - cbn [dnode map]. apply dom_uminus; apply IH; cbn [In]; auto.
    - cbn [dnode map]. apply dom_times; [apply dom_exp; assumption | apply IH; cbn [In]; auto].
    - cbn [dnode map]. apply (dom_divide _ _ _ _ _ v); auto; [apply IH; cbn [In]; auto | lra].
    - cbn [dnode map]. apply dom_times; [apply dom_cos; assumption | apply IH; cbn [In]; auto].
    - cbn [dnode map]. apply dom_uminus, dom_times; [apply dom_sin; assumption | apply IH; cbn [In]; auto].
    - (* normal cdf *)
      cbn [dnode map]. apply dom_times; [|apply IH; cbn [In]; auto].
      unfold normal_density. apply dom_times; [apply dom_num|].
      apply dom_exp, dom_uminus. apply (dom_divide _ _ _ _ _ 2).
      + apply dom_times; assumption.
      + apply dom_num.
      + unfold two, ENumZ. apply ev_numZ.
      + lra.
    - (* powc *)
      cbn [dnode map].
      assert (Hgen : dom Phi ws en0
                (EBin Times (EBin Times (Node (HNum c) []) (EPowC x (dy_pred c))) (D w x))
              \/ dyadic_is_int c = Some 0%Z).
      { match goal with H : powc_ok c v |- _ => rename H into Hok end. unfold powc_ok in Hok.
        destruct (dyadic_is_int c) as [n|] eqn:Ec.
        - destruct (Z.eq_dec n 0) as [->|Hn0]; [right; reflexivity|]. left.
          apply dom_times; [|apply IH; cbn [In]; auto].
          apply dom_times; [apply dom_num|].
          eapply dom_powc; [eassumption | eassumption |].
          unfold powc_ok. rewrite dy_pred_int, Ec. cbn [option_map].
          destruct Hok; [left; lia | right; assumption].
        - left. apply dom_times; [|apply IH; cbn [In]; auto].
          apply dom_times; [apply dom_num|].
          eapply dom_powc; [eassumption | eassumption |].
          unfold powc_ok. rewrite dy_pred_int, Ec. cbn [option_map]. exact Hok. }
      destruct Hgen as [Hgen|E0]; [|rewrite E0; apply dom_zero].
      destruct (dyadic_is_int c) as [[|p|p]|]; [apply dom_zero | exact Hgen ..].
    - (* MultSum *)
      cbn [dnode]. apply dom_multsum. rewrite Forall_forall. intros k Hin.
      apply in_map_iff in Hin. destruct Hin as (k0 & <- & Hin0). apply IH; [exact Hin0|].
      match goal with H : Forall _ kids |- _ => rewrite Forall_forall in H; apply H; exact Hin0 end.
    - (* LinUtil *)
      cbn [dnode]. rewrite dlin_flatten. apply dom_multsum.
      match goal with H : Forall _ ps |- _ => rename H into Hps end.
      pose proof (proj2 (Forall_pairs_flatten (dom Phi ws en0) ps) Hps) as Hfl.
      rewrite Forall_forall in Hps, Hfl |- *. intros k Hin.
      apply in_map_iff in Hin. destruct Hin as ([b v] & <- & Hin0). cbn [fst snd].
      destruct (Hps _ Hin0) as [Hb Hv]. cbn [fst snd] in Hb, Hv.
      assert (Hinb : In b (flatten_pairs ps) /\ In v (flatten_pairs ps)).
      { clear - Hin0. induction ps as [|[a c] ps IHp]; cbn [In flatten_pairs] in *; [tauto|].
        destruct Hin0 as [E|Hp]; [injection E as -> ->; auto | destruct (IHp Hp); auto]. }
      apply dom_plus; apply dom_times; auto; apply IH; tauto.
    - (* CondSum *)
      cbn [dnode]. rewrite dcond_flatten.
      apply (dom_condsum _ _ _ (map (fun p => (fst p, D w (snd p))) ps)).
      match goal with H : Forall _ ps |- _ => rename H into Hps end.
      assert (Hin : forall p, In p ps -> In (snd p) (flatten_pairs ps)).
      { clear. induction ps as [|[a b] ps IHp]; cbn [In flatten_pairs]; [tauto|].
        intros p [<-|Hp]; cbn [snd]; [auto | right; right; apply IHp, Hp]. }
      rewrite Forall_forall in Hps |- *. intros p Hp.
      apply in_map_iff in Hp. destruct Hp as (p0 & <- & Hp0). cbn [fst snd].
      destruct (Hps p0 Hp0) as (Hc & v & Hv & Ht).
      split; [exact Hc|]. exists v. split; [exact Hv|]. intros Hnz.
      apply IH; [apply Hin, Hp0 | apply Ht, Hnz].
    - (* Elem *)
      cbn [dnode map]. apply (dom_elem _ _ _ keys key (map (D w) entries) z (D w sel)); auto.
      + rewrite assoc_Z_map. match goal with H : assoc_Z _ _ _ = Some _ |- _ => rewrite H end. reflexivity.
      + apply IH; [|assumption]. right. eapply assoc_Z_In; eassumption.
    - (* LogLogit *)
      match goal with H : forallb (pfree ws) avs = true |- _ => rename H into Havs end.
      match goal with H : List.length us = _ |- _ => rename H into Hlen end.
      match goal with H : evalX _ _ _ = XR r |- _ => rename H into Hr end.
      match goal with H : forall k u a v, In (k, u) _ -> _ |- _ => rename H into Hdu end.
      rewrite forallb_forall in Havs.
      destruct (loglogit_inv _ _ _ _ _ _ Hlen Hr)
        as (z & a & v & d & uc & ac & Ec & Euc & Evc & Eac & Eva & Hnz & Ed & Hpos).
      assert (Hg : forall k u a v, In (k, u) (combine uk us) -> assoc_Z k ak avs = Some a ->
                     ev a en0 = XR v -> v <> 0 -> dom Phi ws en0 u /\ dom Phi ws en0 (D w u)).
      { intros k u a' v' Hin Ha Hv Hn. assert (Hu : dom Phi ws en0 u) by (eapply Hdu; eassumption).
        split; [exact Hu|]. apply IH; [|exact Hu].
        right. apply in_or_app. left. exact (in_combine_r _ _ _ _ Hin). }
      destruct (logit_pairs_dom ak avs Havs uk us Hlen Hg d Ed) as [HN HD].
      assert (Hgood : forall k u a v, In (k, u) (combine uk us) -> assoc_Z k ak avs = Some a ->
                     ev a en0 = XR v -> v <> 0 -> good u).
      { intros k u a' v' Hin Ha Hv Hn. apply D_good. eapply Hdu; eassumption. }
      destruct (good_logit_den ak avs uk us Hlen Hgood d Ed) as (F & dF & _ & _ & _ & VN & VD).
      cbn [dnode dloglogit map]. rewrite map_app.
      rewrite !firstn_len_app, skipn_len_app by (rewrite ?map_length; exact Hlen).
      apply dom_minus.
      + eapply (dom_elem _ _ _ uk choice (map (D w) us) z (D w uc)); auto.
        * rewrite assoc_Z_map, Euc. reflexivity.
        * apply (Hg z uc ac a); auto. apply assoc_Z_combine. exact Euc.
      + apply (dom_divide _ _ _ _ _ d).
        * rewrite logit_num_kids_pairs. apply dom_condsum. exact HN.
        * rewrite logit_den_kids_pairs. apply dom_condsum. exact HD.
        * rewrite ev_condsum. exact VD.
        * lra.
  Qed.

  (* ---------------------------------------------------------------- [dom] is an open condition *)
  Notation domx x := (dom Phi ws (upd en w x)).

  Lemma locally_Forall {A} (P : R -> A -> Prop) (l : list A) :
    (forall a, In a l -> locally x0 (fun x => P x a)) -> locally x0 (fun x => Forall (P x) l).
  Proof.
    induction l as [|a l IH]; intros H.
    - apply filter_forall. intros x. constructor.
    - assert (Ha : locally x0 (fun x => P x a)) by (apply H; left; reflexivity).
      assert (Hl : locally x0 (fun x => Forall (P x) l)) by (apply IH; intros; apply H; right; assumption).
      generalize (filter_and _ _ Ha Hl). apply filter_imp. intros x [H1 H2]. constructor; assumption.
  Qed.

  Lemma lookup_upd_beta n r : e_beta en0 n = Some r -> forall x, exists r', e_beta (upd en w x) n = Some r'.
  Proof.
    destruct w as [b|b|b]; cbn [upd e_beta]; eauto.
    unfold set_name. destruct (String.eqb n b); eauto.
  Qed.
  Lemma lookup_upd_var n r : e_var en0 n = Some r -> forall x, exists r', e_var (upd en w x) n = Some r'.
  Proof.
    destruct w as [b|b|b]; cbn [upd e_var]; eauto.
    unfold set_name. destruct (String.eqb n b); eauto.
  Qed.
  Lemma lookup_upd_rv n r : e_rv en0 n = Some r -> forall x, exists r', e_rv (upd en w x) n = Some r'.
  Proof.
    destruct w as [b|b|b]; cbn [upd e_rv]; eauto.
    unfold set_name. destruct (String.eqb n b); eauto.
  Qed.

  Lemma pfree_const e x : pfree ws e = true -> ev e (upd en w x) = ev e en0.
  Proof. intros H. apply ev_const. exact (pfree_nomention ws w _ Hw H). Qed.

  (* value of a [dom] sub-tree near x0: a function continuous at x0 *)
  Lemma dom_local e : dom Phi ws en0 e ->
    exists (f : R -> R) (d : R), locally x0 (fun x => ev e (upd en w x) = XR (f x)) /\
                                 is_derive f x0 d /\ ev e en0 = XR (f x0).
  Proof.
    intros H. destruct (D_good e H) as (f & d & L & Df & _). exists f, d.
    split; [exact L|]. split; [exact Df|]. exact (locally_singleton _ _ L).
  Qed.

  Theorem dom_open : forall e, dom Phi ws en0 e -> locally x0 (fun x => domx x e).
  Proof.
    induction e as [h kids IH] using expr_ind_strong'. intros Hdom.
    rewrite Forall_forall in IH.
    pose proof (dom_local _ Hdom) as (fe & de & Le & Dfe & Ee).
    inversion Hdom; subst.
    - (* parameter-free *)
      apply filter_forall. intros x.
      match goal with H : pfree _ _ = true, H' : evalX _ _ _ = XR ?r |- _ =>
        apply (dom_pfree _ _ _ _ r); [exact H | rewrite pfree_const by exact H; exact H'] end.
    - apply filter_forall. intros x.
      match goal with H : e_beta _ _ = Some _ |- _ => destruct (lookup_upd_beta _ _ H x) as (r' & Hr') end.
      eapply dom_beta; exact Hr'.
    - apply filter_forall. intros x.
      match goal with H : e_var _ _ = Some _ |- _ => destruct (lookup_upd_var _ _ H x) as (r' & Hr') end.
      eapply dom_var; exact Hr'.
    - apply filter_forall. intros x.
      match goal with H : e_rv _ _ = Some _ |- _ => destruct (lookup_upd_rv _ _ H x) as (r' & Hr') end.
      eapply dom_rv; exact Hr'.
    - (* plus *)
      assert (Hx : locally x0 (fun t => domx t x)) by (apply IH; cbn [In]; auto).
      assert (Hy : locally x0 (fun t => domx t y)) by (apply IH; cbn [In]; auto).
      generalize (filter_and _ _ Hx Hy). apply filter_imp. intros t [Q1 Q2]. apply dom_plus; assumption.
    - assert (Hx : locally x0 (fun t => domx t x)) by (apply IH; cbn [In]; auto).
      assert (Hy : locally x0 (fun t => domx t y)) by (apply IH; cbn [In]; auto).
      generalize (filter_and _ _ Hx Hy). apply filter_imp. intros t [Q1 Q2]. apply dom_minus; assumption.
    - assert (Hx : locally x0 (fun t => domx t x)) by (apply IH; cbn [In]; auto).
      assert (Hy : locally x0 (fun t => domx t y)) by (apply IH; cbn [In]; auto).
      generalize (filter_and _ _ Hx Hy). apply filter_imp. intros t [Q1 Q2]. apply dom_times; assumption.
    - (* divide *)
      assert (Hx : locally x0 (fun t => domx t x)) by (apply IH; cbn [In]; auto).
      assert (Hy : locally x0 (fun t => domx t y)) by (apply IH; cbn [In]; auto).
      match goal with H : dom Phi ws en0 y |- _ => destruct (dom_local _ H) as (fy & dy & Ly & Dfy & Ey) end.
      assert (Hnz : fy x0 <> 0) by congruence.
      generalize (filter_and _ _ (filter_and _ _ Hx Hy) (filter_and _ _ Ly (locally_neq0 _ _ _ Dfy Hnz))).
      apply filter_imp. intros t [[Q1 Q2] [Q3 Q4]]. eapply dom_divide; eassumption.
    - (* power *)
      assert (Hx : locally x0 (fun t => domx t x)) by (apply IH; cbn [In]; auto).
      assert (Hy : locally x0 (fun t => domx t y)) by (apply IH; cbn [In]; auto).
      match goal with H : dom Phi ws en0 x |- _ => destruct (dom_local _ H) as (fx & dx & Lx & Dfx & Ex) end.
      assert (Hpos : 0 < fx x0) by (replace (fx x0) with v by congruence; assumption).
      generalize (filter_and _ _ (filter_and _ _ Hx Hy) (filter_and _ _ Lx (locally_pos _ _ _ Dfx Hpos))).
      apply filter_imp. intros t [[Q1 Q2] [Q3 Q4]]. eapply dom_power; eassumption.
    - assert (Hx : locally x0 (fun t => domx t x)) by (apply IH; cbn [In]; auto).
      generalize Hx. apply filter_imp. intros t Q1. apply dom_uminus; assumption.
    - assert (Hx : locally x0 (fun t => domx t x)) by (apply IH; cbn [In]; auto).
      generalize Hx. apply filter_imp. intros t Q1. apply dom_exp; assumption.
    - (* log *)
      assert (Hx : locally x0 (fun t => domx t x)) by (apply IH; cbn [In]; auto).
      match goal with H : dom Phi ws en0 x |- _ => destruct (dom_local _ H) as (fx & dx & Lx & Dfx & Ex) end.
      assert (Hpos : 0 < fx x0) by (replace (fx x0) with v by congruence; assumption).
      generalize (filter_and _ _ Hx (filter_and _ _ Lx (locally_pos _ _ _ Dfx Hpos))).
      apply filter_imp. intros t [Q1 [Q3 Q4]]. eapply dom_log; eassumption.
    - assert (Hx : locally x0 (fun t => domx t x)) by (apply IH; cbn [In]; auto).
      generalize Hx. apply filter_imp. intros t Q1. apply dom_sin; assumption.
    - assert (Hx : locally x0 (fun t => domx t x)) by (apply IH; cbn [In]; auto).
      generalize Hx. apply filter_imp. intros t Q1. apply dom_cos; assumption.
    - assert (Hx : locally x0 (fun t => domx t x)) by (apply IH; cbn [In]; auto).
      generalize Hx. apply filter_imp. intros t Q1. apply dom_normalcdf; assumption.
    - (* powc *)
      assert (Hx : locally x0 (fun t => domx t x)) by (apply IH; cbn [In]; auto).
      match goal with H : dom Phi ws en0 x |- _ => destruct (dom_local _ H) as (fx & dx & Lx & Dfx & Ex) end.
      assert (Ev : fx x0 = v) by congruence.
      match goal with H : powc_ok c v |- _ => rename H into Hok end.
      assert (Hok' : locally x0 (fun t => powc_ok c (fx t))).
      { unfold powc_ok in *. destruct (dyadic_is_int c) as [n|].
        - destruct Hok as [Hn|Hnz].
          + apply filter_forall. intros t. left. exact Hn.
          + rewrite <- Ev in Hnz. generalize (locally_neq0 _ _ _ Dfx Hnz). apply filter_imp. intros t Ht. right. exact Ht.
        - rewrite <- Ev in Hok. exact (locally_pos _ _ _ Dfx Hok). }
      generalize (filter_and _ _ Hx (filter_and _ _ Lx Hok')).
      apply filter_imp. intros t [Q1 [Q3 Q4]]. eapply dom_powc; eassumption.
    - (* MultSum *)
      match goal with H : Forall _ kids |- _ => rename H into Hk; rewrite Forall_forall in Hk end.
      generalize (locally_Forall (fun t k => domx t k) kids (fun k Hin => IH k Hin (Hk k Hin))).
      apply filter_imp. intros t Ht. apply dom_multsum. exact Ht.
    - (* LinUtil *)
      match goal with H : Forall _ ps |- _ => rename H into Hps end.
      pose proof (proj2 (Forall_pairs_flatten (dom Phi ws en0) ps) Hps) as Hfl.
      rewrite Forall_forall in Hfl.
      generalize (locally_Forall (fun t k => domx t k) (flatten_pairs ps) (fun k Hin => IH k Hin (Hfl k Hin))).
      apply filter_imp. intros t Ht. apply dom_linutil.
      apply (Forall_pairs_flatten (dom Phi ws (upd en w t))). exact Ht.
    - (* CondSum *)
      match goal with H : Forall _ ps |- _ => rename H into Hps; rewrite Forall_forall in Hps end.
      assert (Hin : forall p, In p ps -> In (snd p) (flatten_pairs ps)).
      { clear. induction ps as [|[a b] ps IHp]; cbn [In flatten_pairs]; [tauto|].
        intros p [<-|Hp]; cbn [snd]; [auto | right; right; apply IHp, Hp]. }
      assert (HP : forall p, In p ps -> locally x0 (fun t =>
                   pfree ws (fst p) = true /\
                   exists v, ev (fst p) (upd en w t) = XR v /\ (v <> 0 -> domx t (snd p)))).
      { intros p Hp. destruct (Hps p Hp) as (Hc & v & Hv & Ht).
        destruct (Req_EM_T v 0) as [Hz|Hnz].
        - apply filter_forall. intros t. split; [exact Hc|]. exists v.
          split; [rewrite pfree_const by exact Hc; exact Hv | intros; contradiction].
        - generalize (IH (snd p) (Hin p Hp) (Ht Hnz)). apply filter_imp. intros t Hd.
          split; [exact Hc|]. exists v. split; [rewrite pfree_const by exact Hc; exact Hv | intros _; exact Hd]. }
      generalize (locally_Forall _ ps HP). apply filter_imp. intros t Ht. apply dom_condsum. exact Ht.
    - (* Elem *)
      assert (Hs : locally x0 (fun t => domx t sel)).
      { apply IH; [|assumption]. right. eapply assoc_Z_In; eassumption. }
      generalize Hs. apply filter_imp. intros t Ht.
      eapply dom_elem; try eassumption. rewrite pfree_const by assumption. assumption.
    - (* LogLogit *)
      match goal with H : forallb (pfree ws) avs = true |- _ => rename H into Havs end.
      match goal with H : forall k u a v, In (k, u) _ -> _ |- _ => rename H into Hdu end.
      pose proof Havs as Havs'. rewrite forallb_forall in Havs'.
      assert (HU : locally x0 (fun t => Forall (fun ku =>
                     forall a v, assoc_Z (fst ku) ak avs = Some a -> ev a en0 = XR v -> v <> 0 ->
                                 domx t (snd ku)) (combine uk us))).
      { apply locally_Forall. intros [k u] Hin. cbn [fst snd].
        destruct (assoc_Z k ak avs) as [a|] eqn:Ea;
          [|apply filter_forall; intros t a v Hf; discriminate].
        destruct (ev a en0) as [v| |] eqn:Eva;
          try (apply filter_forall; intros t a' v' Hf Hv; injection Hf as <-; rewrite Eva in Hv; discriminate).
        destruct (Req_EM_T v 0) as [Hz|Hnz].
        - apply filter_forall. intros t a' v' Hf Hv Hn. injection Hf as <-. rewrite Eva in Hv.
          injection Hv as <-. contradiction.
        - assert (Hd : dom Phi ws en0 u) by (eapply Hdu; eassumption).
          assert (Hl : locally x0 (fun t => domx t u)).
          { apply IH; [|exact Hd]. right. apply in_or_app. left. exact (in_combine_r _ _ _ _ Hin). }
          generalize Hl. apply filter_imp. intros t Ht a' v' _ _ _. exact Ht. }
      generalize (filter_and _ _ Le HU). apply filter_imp. intros t [Ht HUt].
      eapply dom_loglogit; try eassumption.
      intros k u a v Hin Ha Hv Hnz. rewrite Forall_forall in HUt.
      apply (HUt (k, u) Hin a v Ha); [|exact Hnz].
      rewrite <- Hv. symmetry. apply pfree_const. apply Havs'. eapply assoc_Z_In; exact Ha.
  Qed.
End Correct.

(* ------------------------------------------------------------------ statements at a point of the parameter space *)
Lemma set_name_self b x (l : lookup) : l b = Some x -> set_name b x l = l.
Proof.
  intros H. apply FunctionalExtensionality.functional_extensionality. intros n.
  unfold set_name. destruct (String.eqb_spec n b) as [->|]; [symmetry; exact H | reflexivity].
Qed.

Lemma upd_self en w x : wrt_val en w = Some x -> upd en w x = en.
Proof.
  destruct en as [eb evr ed erv eds ers], w; cbn [wrt_val upd e_beta e_var e_rv e_draw e_draws e_rows]; intros H;
    rewrite set_name_self by exact H; reflexivity.
Qed.

Lemma set_name_twice b x y (l : lookup) : set_name b x (set_name b y l) = set_name b x l.
Proof.
  apply FunctionalExtensionality.functional_extensionality. intros n.
  unfold set_name. destruct (String.eqb n b); reflexivity.
Qed.

Lemma upd_twice en w x y : upd (upd en w y) w x = upd en w x.
Proof. destruct w; cbn [upd e_beta e_var e_rv e_draw e_draws e_rows]; rewrite set_name_twice; reflexivity. Qed.

Lemma wrt_eqb_eq a b : wrt_eqb a b = true <-> a = b.
Proof.
  destruct a, b; cbn [wrt_eqb]; split; intros H; try discriminate;
    try (apply String.eqb_eq in H; subst; reflexivity);
    try (injection H as <-; apply String.eqb_refl).
Qed.

Lemma wrt_val_upd_same en w x : wrt_val (upd en w x) w = Some x.
Proof. destruct w; cbn [wrt_val upd e_beta e_var e_rv]; apply set_name_same. Qed.

Lemma wrt_val_upd_other en w w' x : wrt_eqb w w' = false -> wrt_val (upd en w' x) w = wrt_val en w.
Proof.
  destruct w, w'; cbn [wrt_eqb wrt_val upd e_beta e_var e_rv]; intros H; try reflexivity;
    apply set_name_other; exact H.
Qed.

Section AtPoint.
  Variable Phi : R -> R.
  Hypothesis Phi_derive : forall x, is_derive Phi x (D2R inv_sqrt_2pi * exp (- (x * x / 2))).
  Variable ws : list wrt.
  Variable en : env.
  Notation ev := (evalX Phi).

  (* T02a at the point en: the value of [D w e] is the partial derivative with respect to w *)
  Theorem D_correct_at w x0 e :
    In w ws -> wrt_val en w = Some x0 -> dom Phi ws en e ->
    is_derive (fun x => valR (ev e (upd en w x))) x0 (valR (ev (D w e) en)).
  Proof.
    intros Hw Hv Hd. pose proof (D_correct Phi Phi_derive ws w Hw en x0 e) as H.
    rewrite (upd_self en w x0 Hv) in H. exact (H Hd).
  Qed.

  Theorem D_value_at w x0 e :
    In w ws -> wrt_val en w = Some x0 -> dom Phi ws en e -> exists d, ev (D w e) en = XR d.
  Proof.
    intros Hw Hv Hd. pose proof (D_value Phi Phi_derive ws w Hw en x0 e) as H.
    rewrite (upd_self en w x0 Hv) in H. exact (H Hd).
  Qed.

  Theorem dom_D_at w x0 e :
    In w ws -> wrt_val en w = Some x0 -> dom Phi ws en e -> dom Phi ws en (D w e).
  Proof.
    intros Hw Hv Hd. pose proof (dom_D Phi Phi_derive ws w Hw en x0 e) as H.
    rewrite (upd_self en w x0 Hv) in H. exact (H Hd).
  Qed.

  (* the (w, w') Hessian tree is the derivative with respect to w' of the w-th gradient tree *)
  Theorem hess_correct w w' x0 x0' e :
    In w ws -> In w' ws -> wrt_val en w = Some x0 -> wrt_val en w' = Some x0' -> dom Phi ws en e ->
    is_derive (fun x => valR (ev (D w e) (upd en w' x))) x0' (valR (ev (D w' (D w e)) en)).
  Proof.
    intros Hw Hw' Hv Hv' Hd.
    apply (D_correct_at w' x0' (D w e) Hw' Hv'). exact (dom_D_at w x0 e Hw Hv Hd).
  Qed.

  (* T02b: it is the second partial derivative of the value.  Mixed entry (w <> w'): *)
  Theorem hess_is_second_derivative_mixed w w' x0 x0' e :
    In w ws -> In w' ws -> wrt_eqb w w' = false ->
    wrt_val en w = Some x0 -> wrt_val en w' = Some x0' -> dom Phi ws en e ->
    is_derive (fun x' => Derive (fun x => valR (ev e (upd (upd en w' x') w x))) x0) x0'
              (valR (ev (D w' (D w e)) en)).
  Proof.
    intros Hw Hw' Hne Hv Hv' Hd.
    apply (is_derive_ext_loc (fun x' => valR (ev (D w e) (upd en w' x')))).
    - assert (Hd0 : dom Phi ws (upd en w' x0') e) by (rewrite (upd_self en w' x0' Hv'); exact Hd).
      generalize (dom_open Phi Phi_derive ws w' Hw' en x0' e Hd0). apply filter_imp. intros x' Hx'.
      symmetry. apply is_derive_unique.
      assert (Hvx : wrt_val (upd en w' x') w = Some x0) by (rewrite wrt_val_upd_other by exact Hne; exact Hv).
      pose proof (D_correct Phi Phi_derive ws w Hw (upd en w' x') x0 e) as HD.
      rewrite (upd_self _ w x0 Hvx) in HD. exact (HD Hx').
    - exact (hess_correct w w' x0 x0' e Hw Hw' Hv Hv' Hd).
  Qed.

  (* diagonal entry *)
  Theorem hess_is_second_derivative_diag w x0 e :
    In w ws -> wrt_val en w = Some x0 -> dom Phi ws en e ->
    is_derive (fun x' => Derive (fun x => valR (ev e (upd en w x))) x') x0
              (valR (ev (D w (D w e)) en)).
  Proof.
    intros Hw Hv Hd.
    apply (is_derive_ext_loc (fun x' => valR (ev (D w e) (upd en w x')))).
    - assert (Hd0 : dom Phi ws (upd en w x0) e) by (rewrite (upd_self en w x0 Hv); exact Hd).
      generalize (dom_open Phi Phi_derive ws w Hw en x0 e Hd0). apply filter_imp. intros x' Hx'.
      symmetry. apply is_derive_unique.
      exact (D_correct Phi Phi_derive ws w Hw en x' e Hx').
    - exact (hess_correct w w x0 x0 e Hw Hw Hv Hv Hd).
  Qed.

  (* T02d (first half): entry i of the gradient / (i, j) of the Hessian belongs to the i-th
     (and j-th) name of the list *)
  Theorem grad_nth names e i :
    (i < List.length names)%nat ->
    nth i (grad names e) zero = D (WBeta (nth i names EmptyString)) e.
  Proof.
    intros Hi. unfold grad.
    rewrite (nth_indep _ zero (D (WBeta EmptyString) e)) by (rewrite map_length; exact Hi).
    exact (map_nth (fun b => D (WBeta b) e) names EmptyString i).
  Qed.

  Theorem hess_nth names e i j :
    (i < List.length names)%nat -> (j < List.length names)%nat ->
    nth j (nth i (hess names e) []) zero =
    D (WBeta (nth j names EmptyString)) (D (WBeta (nth i names EmptyString)) e).
  Proof.
    intros Hi Hj. unfold hess.
    set (row := fun b => map (fun b' => D (WBeta b') (D (WBeta b) e)) names).
    rewrite (nth_indep _ [] (row EmptyString)) by (rewrite map_length; exact Hi).
    rewrite (map_nth row names EmptyString i). unfold row.
    set (cell := fun b' => D (WBeta b') (D (WBeta (nth i names EmptyString)) e)).
    rewrite (nth_indep _ zero (cell EmptyString)) by (rewrite map_length; exact Hj).
    exact (map_nth cell names EmptyString j).
  Qed.
End AtPoint.

(* ------------------------------------------------------------------ the derivative tree mentions only what the tree mentions *)
Definition ment_any (u : wrt) (l : list expr) : bool := existsb (mentions u) l.

Lemma mentions_node u h kids : mentions u (Node h kids) = is_wrt u h || ment_any u kids.
Proof. reflexivity. Qed.

Lemma is_wrt_num u d : is_wrt u (HNum d) = false.  Proof. destruct u; reflexivity. Qed.
Lemma is_wrt_bin u o : is_wrt u (HBin o) = false.  Proof. destruct u; reflexivity. Qed.
Lemma is_wrt_un u o : is_wrt u (HUn o) = false.  Proof. destruct u; reflexivity. Qed.
Lemma is_wrt_powc u c : is_wrt u (HPowC c) = false.  Proof. destruct u; reflexivity. Qed.
Lemma is_wrt_multsum u : is_wrt u HMultSum = false.  Proof. destruct u; reflexivity. Qed.
Lemma is_wrt_condsum u : is_wrt u HCondSum = false.  Proof. destruct u; reflexivity. Qed.
Lemma is_wrt_elem u k : is_wrt u (HElem k) = false.  Proof. destruct u; reflexivity. Qed.

Ltac mnorm :=
  unfold normal_density, EBin, EUn, EPowC in *;
  repeat (progress (rewrite ?mentions_node, ?is_wrt_bin, ?is_wrt_un, ?is_wrt_num, ?is_wrt_powc, ?is_wrt_elem,
                            ?is_wrt_condsum, ?is_wrt_multsum; cbn [ment_any existsb orb]));
  rewrite ?orb_false_r.

Lemma ment_any_cons u a l : ment_any u (a :: l) = mentions u a || ment_any u l.
Proof. reflexivity. Qed.
Lemma ment_any_nil u : ment_any u [] = false.
Proof. reflexivity. Qed.

Lemma ment_any_app u a b : ment_any u (a ++ b) = ment_any u a || ment_any u b.
Proof. apply existsb_app. Qed.

Lemma ment_any_in u l k : In k l -> mentions u k = true -> ment_any u l = true.
Proof. intros Hin Hm. apply existsb_exists. exists k. auto. Qed.

Lemma ment_any_firstn u n l : ment_any u (firstn n l) = true -> ment_any u l = true.
Proof.
  intros H. apply existsb_exists in H. destruct H as (k & Hin & Hm).
  apply (ment_any_in u l k); [|exact Hm]. rewrite <- (firstn_skipn n l). apply in_or_app. left; exact Hin.
Qed.
Lemma ment_any_skipn u n l : ment_any u (skipn n l) = true -> ment_any u l = true.
Proof.
  intros H. apply existsb_exists in H. destruct H as (k & Hin & Hm).
  apply (ment_any_in u l k); [|exact Hm]. rewrite <- (firstn_skipn n l). apply in_or_app. right; exact Hin.
Qed.

Lemma ment_dlin u : forall kids dk,
  ment_any u (dlin kids dk) = true -> ment_any u kids = true \/ ment_any u dk = true.
Proof.
  fix IH 1. intros [|b [|v r]] dk; cbn [dlin ment_any existsb]; try discriminate.
  destruct dk as [|db [|dv dr]]; cbn [dlin ment_any existsb]; try discriminate.
  unfold EBin. repeat (rewrite ?mentions_node, ?is_wrt_bin; cbn [ment_any existsb orb]).
  rewrite !orb_false_r.
  intros H. apply orb_true_iff in H. destruct H as [H|H].
  - destruct (mentions u db), (mentions u v), (mentions u b), (mentions u dv); cbn in *; try discriminate; auto.
  - destruct (IH r dr H) as [H'|H']; [left | right]; unfold ment_any in H'; rewrite H'; rewrite !orb_true_r; reflexivity.
Qed.

Lemma ment_dcond u : forall kids dk,
  ment_any u (dcond kids dk) = true -> ment_any u kids = true \/ ment_any u dk = true.
Proof.
  fix IH 1. intros [|c [|t r]] dk; cbn [dcond ment_any existsb]; try discriminate.
  destruct dk as [|dc [|dt dr]]; cbn [dcond ment_any existsb]; try discriminate.
  intros H. apply orb_true_iff in H. destruct H as [H|H]; [left; rewrite H; reflexivity|].
  apply orb_true_iff in H. destruct H as [H|H]; [right; rewrite H; rewrite orb_true_r; reflexivity|].
  destruct (IH r dr H) as [H'|H']; [left | right]; unfold ment_any in *; rewrite H'; rewrite !orb_true_r; reflexivity.
Qed.

Lemma ment_assoc u k ak (avs : list expr) a : assoc_Z k ak avs = Some a -> mentions u a = true -> ment_any u avs = true.
Proof. intros H Hm. apply (ment_any_in u avs a); [eapply assoc_Z_In; exact H | exact Hm]. Qed.

Lemma ment_logit_den u ak avs : forall uk us,
  ment_any u (logit_den_kids uk us ak avs) = true -> ment_any u us = true \/ ment_any u avs = true.
Proof.
  induction uk as [|k ks IH]; intros [|x r]; cbn [logit_den_kids]; try discriminate.
  destruct (assoc_Z k ak avs) as [a|] eqn:Ea.
  - intros H. change (ment_any u (a :: EUn Exp x :: logit_den_kids ks r ak avs))
      with (mentions u a || (mentions u (EUn Exp x) || ment_any u (logit_den_kids ks r ak avs))) in H.
    change (ment_any u (x :: r)) with (mentions u x || ment_any u r).
    unfold EUn in H. rewrite mentions_node, is_wrt_un in H. cbn [ment_any existsb orb] in H. rewrite orb_false_r in H.
    apply orb_true_iff in H. destruct H as [H|H]; [right; exact (ment_assoc u k ak avs a Ea H)|].
    apply orb_true_iff in H. destruct H as [H|H]; [left; rewrite H; reflexivity|].
    destruct (IH r H) as [H'|H']; [left | right; exact H']. rewrite H'. apply orb_true_r.
  - intros H. change (ment_any u (x :: r)) with (mentions u x || ment_any u r).
    destruct (IH r H) as [H'|H']; [left | right; exact H']. rewrite H'. apply orb_true_r.
Qed.

Lemma ment_logit_num u ak avs : forall uk us dus,
  ment_any u (logit_num_kids uk us dus ak avs) = true ->
  ment_any u us = true \/ ment_any u dus = true \/ ment_any u avs = true.
Proof.
  induction uk as [|k ks IH]; intros [|x r] [|dx dr]; cbn [logit_num_kids]; try discriminate.
  destruct (assoc_Z k ak avs) as [a|] eqn:Ea.
  - intros H. change (ment_any u (a :: EBin Times (EUn Exp x) dx :: logit_num_kids ks r dr ak avs))
      with (mentions u a || (mentions u (EBin Times (EUn Exp x) dx) || ment_any u (logit_num_kids ks r dr ak avs))) in H.
    change (ment_any u (x :: r)) with (mentions u x || ment_any u r).
    change (ment_any u (dx :: dr)) with (mentions u dx || ment_any u dr).
    unfold EBin, EUn in H. rewrite !mentions_node, is_wrt_bin in H. cbn [ment_any existsb orb] in H.
    rewrite mentions_node, is_wrt_un in H. cbn [ment_any existsb orb] in H. rewrite !orb_false_r in H.
    apply orb_true_iff in H. destruct H as [H|H]; [right; right; exact (ment_assoc u k ak avs a Ea H)|].
    apply orb_true_iff in H. destruct H as [H|H].
    + apply orb_true_iff in H. destruct H as [H|H]; [left | right; left]; rewrite H; reflexivity.
    + destruct (IH r dr H) as [H'|[H'|H']]; [left | right; left | right; right; exact H']; rewrite H'; apply orb_true_r.
  - intros H. change (ment_any u (x :: r)) with (mentions u x || ment_any u r).
    change (ment_any u (dx :: dr)) with (mentions u dx || ment_any u dr).
    destruct (IH r dr H) as [H'|[H'|H']]; [left | right; left | right; right; exact H']; rewrite H'; apply orb_true_r.
Qed.

Lemma ment_dnode u v h kids dk :
  mentions u (dnode v h kids dk) = true -> ment_any u kids = true \/ ment_any u dk = true.
Proof.
  assert (Z0 : mentions u zero = false) by (destruct u; reflexivity).
  assert (Z1 : mentions u one = false) by (destruct u; reflexivity).
  assert (Z2 : mentions u two = false) by (destruct u; reflexivity).
  destruct h as [d|n f|n|n t|n|op|op|exponent|n|n|s| | |keys| |uk ak]; cbn [dnode]; try (rewrite Z0; discriminate).
  - (* HBeta *) destruct kids; [destruct (is_wrt v _); rewrite ?Z0, ?Z1; discriminate | rewrite Z0; discriminate].
  - destruct kids; [destruct (is_wrt v _); rewrite ?Z0, ?Z1; discriminate | rewrite Z0; discriminate].
  - destruct kids; [destruct (is_wrt v _); rewrite ?Z0, ?Z1; discriminate | rewrite Z0; discriminate].
  - (* HBin *)
    destruct op; try (rewrite Z0; discriminate);
      destruct kids as [|x [|y [|? ?]]]; try (rewrite Z0; discriminate);
      destruct dk as [|dx [|dy [|? ?]]]; try (rewrite Z0; discriminate);
      unfold EBin, EUn;
      repeat (progress (rewrite ?mentions_node, ?is_wrt_bin, ?is_wrt_un; cbn [ment_any existsb orb]));
      destruct (mentions u x), (mentions u y), (mentions u dx), (mentions u dy); cbn; auto.
  - (* HUn *)
    destruct op; try (rewrite Z0; discriminate);
      destruct kids as [|x [|? ?]]; try (rewrite Z0; discriminate);
      destruct dk as [|dx [|? ?]]; try (rewrite Z0; discriminate);
      unfold normal_density, two, ENumZ, EBin, EUn;
      repeat (progress (rewrite ?mentions_node, ?is_wrt_bin, ?is_wrt_un, ?is_wrt_num; cbn [ment_any existsb orb]));
      destruct (mentions u x), (mentions u dx); cbn; auto.
  - (* HPowC *)
    destruct kids as [|x [|? ?]]; try (rewrite Z0; discriminate).
    destruct dk as [|dx [|? ?]]; try (rewrite Z0; discriminate).
    assert (Hg : mentions u (EBin Times (EBin Times (Node (HNum exponent) []) (EPowC x (dy_pred exponent))) dx) = true ->
                 ment_any u [x] = true \/ ment_any u [dx] = true).
    { unfold EBin, EPowC.
      repeat (progress (rewrite ?mentions_node, ?is_wrt_bin, ?is_wrt_powc, ?is_wrt_num; cbn [ment_any existsb orb])).
      destruct (mentions u x), (mentions u dx); cbn; auto. }
    destruct (dyadic_is_int exponent) as [[|p|p]|]; [rewrite Z0; discriminate | exact Hg ..].
  - (* HMultSum *) rewrite mentions_node, is_wrt_multsum. cbn [orb]. auto.
  - (* HCondSum *) rewrite mentions_node, is_wrt_condsum. cbn [orb]. apply ment_dcond.
  - (* HElem *)
    destruct kids as [|key entries]; [rewrite Z0; discriminate|].
    destruct dk as [|dkey dentries]; [rewrite Z0; discriminate|].
    rewrite mentions_node, is_wrt_elem. cbn [ment_any existsb orb].
    intros H. apply orb_true_iff in H. destruct H as [H|H]; [left | right]; rewrite H; rewrite ?orb_true_r; reflexivity.
  - (* HLinUtil *) rewrite mentions_node, is_wrt_multsum. cbn [orb]. apply ment_dlin.
  - (* HLogLogit *)
    unfold dloglogit.
    destruct kids as [|choice rest]; [rewrite Z0; discriminate|].
    destruct dk as [|dchoice drest]; [rewrite Z0; discriminate|].
    unfold EBin.
    repeat (progress (rewrite ?mentions_node, ?is_wrt_bin, ?is_wrt_elem, ?is_wrt_condsum, ?ment_any_cons, ?ment_any_nil, ?orb_false_r; cbn [orb])).
    intros H. apply orb_true_iff in H. destruct H as [H|H].
    + apply orb_true_iff in H. destruct H as [H|H]; [left; rewrite H; reflexivity|].
      right. apply ment_any_firstn in H. rewrite H. apply orb_true_r.
    + apply orb_true_iff in H. destruct H as [H|H].
      * destruct (ment_logit_num _ _ _ _ _ _ H) as [H'|[H'|H']].
        -- left. apply ment_any_firstn in H'. rewrite H'. apply orb_true_r.
        -- right. apply ment_any_firstn in H'. rewrite H'. apply orb_true_r.
        -- left. apply ment_any_skipn in H'. rewrite H'. apply orb_true_r.
      * destruct (ment_logit_den _ _ _ _ _ H) as [H'|H'].
        -- left. apply ment_any_firstn in H'. rewrite H'. apply orb_true_r.
        -- left. apply ment_any_skipn in H'. rewrite H'. apply orb_true_r.
Qed.

Theorem mentions_D u v : forall e, mentions u (D v e) = true -> mentions u e = true.
Proof.
  induction e as [h kids IH] using expr_ind_strong'. rewrite D_eq.
  destruct (mentions v (Node h kids)); [|destruct u; discriminate].
  intros H. apply ment_dnode in H. rewrite mentions_node.
  destruct H as [H|H]; [rewrite H; apply orb_true_r|].
  unfold ment_any in H. apply existsb_exists in H. destruct H as (dk & Hin & Hm).
  apply in_map_iff in Hin. destruct Hin as (k & <- & Hk).
  rewrite Forall_forall in IH. rewrite (ment_any_in u kids k Hk (IH k Hk Hm)). apply orb_true_r.
Qed.

(* ------------------------------------------------------------------ semantic derivation rules *)
Definition sumR (l : list R) : R := fold_right Rplus 0 l.

Lemma kids_nomention v h kids k : mentions v (Node h kids) = false -> In k kids -> mentions v k = false.
Proof.
  rewrite mentions_node. intros H Hin. apply orb_false_iff in H. destruct H as [_ H].
  exact (existsb_false_in _ _ _ H Hin).
Qed.

Section Sym.
  Variable Phi : R -> R.
  Hypothesis Phi_derive : forall x, is_derive Phi x (D2R inv_sqrt_2pi * exp (- (x * x / 2))).
  Variable ws : list wrt.
  Variable en : env.
  Notation ev := (evalX Phi).
  Notation domE := (dom Phi ws en).

  Ltac nf := unfold normal_density, zero, one, two, EBin, EUn, EPowC, ENumZ in *.
  Ltac evs :=
    repeat (progress rewrite ?ev_bin, ?ev_numZ, ?ev_num, ?ev_uminus, ?ev_exp, ?ev_log, ?ev_sin, ?ev_cos,
                     ?ev_ncdf, ?ev_powc).

  (* t has the real value r and its v-derivative tree has the real value d *)
  Definition tval (v : wrt) (t : expr) (r d : R) : Prop := ev t en = XR r /\ ev (D v t) en = XR d.

  Definition okv (v : wrt) : Prop := In v ws /\ exists x, wrt_val en v = Some x.

  Lemma tv_dom v t : okv v -> domE t -> exists r d, tval v t r d.
  Proof.
    intros [Hin (x & Hx)] Hd.
    destruct (D_value_at Phi Phi_derive ws en v x t Hin Hx Hd) as (d & Ed).
    pose proof (dom_value Phi Phi_derive ws v Hin en x t) as Hv. rewrite (upd_self en v x Hx) in Hv.
    destruct (Hv Hd) as (r & Er). exists r, d. split; assumption.
  Qed.

  Lemma tv_fun v t r d r' d' : tval v t r d -> tval v t r' d' -> r = r' /\ d = d'.
  Proof. intros [A B] [A' B']. rewrite A in A'. rewrite B in B'. injection A' as <-. injection B' as <-. auto. Qed.

  Lemma ev_zero : ev zero en = XR 0.
  Proof. unfold zero, ENumZ. rewrite ev_numZ. reflexivity. Qed.

  (* a kid of a node that does not mention v has derivative value 0 *)
  Lemma kid_zero v h kids k r d :
    mentions v (Node h kids) = false -> In k kids -> tval v k r d -> d = 0.
  Proof.
    intros E Hin [_ Dk]. rewrite (D_nomention v k (kids_nomention v h kids k E Hin)) in Dk.
    rewrite ev_zero in Dk. injection Dk as <-. reflexivity.
  Qed.

  Lemma tv_num v c : tval v (Node (HNum c) []) (D2R c) 0.
  Proof.
    split; [reflexivity|]. rewrite D_nomention by (destruct v; reflexivity). apply ev_zero.
  Qed.

  Lemma tv_numZ v z : tval v (ENumZ z) (IZR z) 0.
  Proof.
    split; [unfold ENumZ; apply ev_numZ|]. rewrite D_nomention by (destruct v; reflexivity). apply ev_zero.
  Qed.

  (* the common shape of the proofs: value by evaluation; derivative by cases on [mentions] *)
  Ltac rule2 Ha Hb :=
    let Ea := fresh "Ea" in let Da := fresh "Da" in let Eb := fresh "Eb" in let Db := fresh "Db" in
    pose proof Ha as [Ea Da]; pose proof Hb as [Eb Db].

  Lemma tv_plus v a b ra da rb db :
    tval v a ra da -> tval v b rb db -> tval v (EBin Plus a b) (ra + rb) (da + db).
  Proof.
    intros Ha Hb. rule2 Ha Hb. split; [nf; evs; rewrite Ea, Eb; reflexivity|].
    unfold EBin. rewrite D_eq. destruct (mentions v _) eqn:E.
    - cbn [dnode map]. nf. evs. rewrite Da, Db. reflexivity.
    - rewrite (kid_zero v _ _ a ra da E) by (cbn; auto).
      rewrite (kid_zero v _ _ b rb db E) by (cbn; auto). rewrite ev_zero. f_equal. ring.
  Qed.

  Lemma tv_minus v a b ra da rb db :
    tval v a ra da -> tval v b rb db -> tval v (EBin Minus a b) (ra - rb) (da - db).
  Proof.
    intros Ha Hb. rule2 Ha Hb. split; [nf; evs; rewrite Ea, Eb; reflexivity|].
    unfold EBin. rewrite D_eq. destruct (mentions v _) eqn:E.
    - cbn [dnode map]. nf. evs. rewrite Da, Db. reflexivity.
    - rewrite (kid_zero v _ _ a ra da E) by (cbn; auto).
      rewrite (kid_zero v _ _ b rb db E) by (cbn; auto). rewrite ev_zero. f_equal. ring.
  Qed.

  Lemma tv_times v a b ra da rb db :
    tval v a ra da -> tval v b rb db -> tval v (EBin Times a b) (ra * rb) (da * rb + ra * db).
  Proof.
    intros Ha Hb. rule2 Ha Hb. split; [nf; evs; rewrite Ea, Eb; reflexivity|].
    unfold EBin. rewrite D_eq. destruct (mentions v _) eqn:E.
    - cbn [dnode map]. nf. evs. rewrite Da, Db, Ea, Eb. reflexivity.
    - rewrite (kid_zero v _ _ a ra da E) by (cbn; auto).
      rewrite (kid_zero v _ _ b rb db E) by (cbn; auto). rewrite ev_zero. f_equal. ring.
  Qed.

  Lemma tv_divide v a b ra da rb db :
    rb <> 0 -> tval v a ra da -> tval v b rb db ->
    tval v (EBin Divide a b) (ra / rb) ((da * rb - ra * db) / (rb * rb)).
  Proof.
    intros Hnz Ha Hb. rule2 Ha Hb.
    split; [nf; evs; rewrite Ea, Eb; cbn [xbin]; rewrite Rnz_true by exact Hnz; reflexivity|].
    unfold EBin. rewrite D_eq. destruct (mentions v _) eqn:E.
    - cbn [dnode map]. nf. evs. rewrite Da, Db, Ea, Eb. cbn [xbin lift2].
      rewrite Rnz_true; [reflexivity|]. apply Rmult_integral_contrapositive; split; exact Hnz.
    - rewrite (kid_zero v _ _ a ra da E) by (cbn; auto).
      rewrite (kid_zero v _ _ b rb db E) by (cbn; auto). rewrite ev_zero. f_equal. field. exact Hnz.
  Qed.

  Lemma tv_power v a b ra da rb db :
    0 < ra -> tval v a ra da -> tval v b rb db ->
    tval v (EBin Power a b) (Rpower ra rb) (Rpower ra rb * (db * ln ra + rb * da / ra)).
  Proof.
    intros Hpos Ha Hb. rule2 Ha Hb.
    split; [nf; evs; rewrite Ea, Eb; cbn [xbin]; rewrite Rltb'_true by exact Hpos; reflexivity|].
    unfold EBin. rewrite D_eq. destruct (mentions v _) eqn:E.
    - cbn [dnode map]. nf. evs. rewrite Da, Db, Ea, Eb. cbn [xbin lift2 xun].
      rewrite !Rltb'_true by exact Hpos. cbn [lift2]. rewrite Rnz_true by lra. reflexivity.
    - rewrite (kid_zero v _ _ a ra da E) by (cbn; auto).
      rewrite (kid_zero v _ _ b rb db E) by (cbn; auto). rewrite ev_zero. f_equal. field. lra.
  Qed.

  Lemma tv_uminus v a ra da : tval v a ra da -> tval v (EUn UMinus a) (- ra) (- da).
  Proof.
    intros [Ea Da]. split; [nf; evs; rewrite Ea; reflexivity|].
    unfold EUn. rewrite D_eq. destruct (mentions v _) eqn:E.
    - cbn [dnode map]. nf. evs. rewrite Da. reflexivity.
    - rewrite (kid_zero v _ _ a ra da E) by (cbn; auto || split; assumption). rewrite ev_zero. f_equal. ring.
  Qed.

  Lemma tv_exp v a ra da : tval v a ra da -> tval v (EUn Exp a) (exp ra) (exp ra * da).
  Proof.
    intros [Ea Da]. split; [nf; evs; rewrite Ea; reflexivity|].
    unfold EUn. rewrite D_eq. destruct (mentions v _) eqn:E.
    - cbn [dnode map]. nf. evs. rewrite Da, Ea. reflexivity.
    - rewrite (kid_zero v _ _ a ra da E) by (cbn; auto || split; assumption). rewrite ev_zero. f_equal. ring.
  Qed.

  Lemma tv_log v a ra da : 0 < ra -> tval v a ra da -> tval v (EUn Log a) (ln ra) (da / ra).
  Proof.
    intros Hpos [Ea Da]. split; [nf; evs; rewrite Ea; cbn [xun]; rewrite Rltb'_true by exact Hpos; reflexivity|].
    unfold EUn. rewrite D_eq. destruct (mentions v _) eqn:E.
    - cbn [dnode map]. nf. evs. rewrite Da, Ea. cbn [xbin]. rewrite Rnz_true by lra. reflexivity.
    - rewrite (kid_zero v _ _ a ra da E) by (cbn; auto || split; assumption). rewrite ev_zero. f_equal. field. lra.
  Qed.

  Lemma tv_sin v a ra da : tval v a ra da -> tval v (EUn Sin a) (sin ra) (cos ra * da).
  Proof.
    intros [Ea Da]. split; [nf; evs; rewrite Ea; reflexivity|].
    unfold EUn. rewrite D_eq. destruct (mentions v _) eqn:E.
    - cbn [dnode map]. nf. evs. rewrite Da, Ea. reflexivity.
    - rewrite (kid_zero v _ _ a ra da E) by (cbn; auto || split; assumption). rewrite ev_zero. f_equal. ring.
  Qed.

  Lemma tv_cos v a ra da : tval v a ra da -> tval v (EUn Cos a) (cos ra) (- (sin ra * da)).
  Proof.
    intros [Ea Da]. split; [nf; evs; rewrite Ea; reflexivity|].
    unfold EUn. rewrite D_eq. destruct (mentions v _) eqn:E.
    - cbn [dnode map]. nf. evs. rewrite Da, Ea. reflexivity.
    - rewrite (kid_zero v _ _ a ra da E) by (cbn; auto || split; assumption). rewrite ev_zero. f_equal. ring.
  Qed.

  (* ---------------------------------------------------------------- x ** c *)
  Definition powv (c : dyadic) (x : R) : R :=
    match dyadic_is_int c with Some n => powerRZ x n | None => Rpower x (D2R c) end.
  Definition dpowv (c : dyadic) (x : R) : R :=
    match dyadic_is_int c with
    | Some 0%Z => 0
    | Some n => IZR n * powerRZ x (n - 1)
    | None => D2R c * Rpower x (D2R c - 1)
    end.

  Lemma xpowc_ok c x : powc_ok c x -> xpowc c (XR x) = XR (powv c x).
  Proof.
    unfold powc_ok, xpowc, powv. destruct (dyadic_is_int c) as [n|].
    - intros H. destruct (Z.leb_spec 0 n); [reflexivity|].
      destruct H as [H|H]; [lia|]. rewrite Rnz_true by exact H. reflexivity.
    - intros H. rewrite Rltb'_true by exact H. reflexivity.
  Qed.

  Lemma powc_ok_pred c x : powc_ok c x -> dyadic_is_int c <> Some 0%Z -> powc_ok (dy_pred c) x.
  Proof.
    unfold powc_ok. rewrite dy_pred_int. destruct (dyadic_is_int c) as [n|]; cbn [option_map]; [|auto].
    intros [H|H] Hn; [left | right; exact H]. assert (n <> 0)%Z by congruence. lia.
  Qed.

  Lemma tv_powc v a c ra da :
    powc_ok c ra -> tval v a ra da -> tval v (EPowC a c) (powv c ra) (dpowv c ra * da).
  Proof.
    intros Hok [Ea Da]. split; [nf; evs; rewrite Ea; apply xpowc_ok; exact Hok|].
    unfold EPowC. rewrite D_eq. destruct (mentions v _) eqn:E.
    - cbn [dnode map].
      assert (Hgen : dyadic_is_int c <> Some 0%Z ->
                     ev (EBin Times (EBin Times (Node (HNum c) []) (EPowC a (dy_pred c))) (D v a)) en
                     = XR (D2R c * powv (dy_pred c) ra * da)).
      { intros Hn. nf. evs. rewrite Ea, Da, (xpowc_ok _ _ (powc_ok_pred c ra Hok Hn)). reflexivity. }
      unfold dpowv, powv in *. rewrite dy_pred_int in Hgen. rewrite dy_pred_D2R in Hgen.
      destruct (dyadic_is_int c) as [n|] eqn:Ec; cbn [option_map] in Hgen.
      + destruct (Z.eq_dec n 0) as [->|Hn].
        * rewrite ev_zero. f_equal. ring.
        * rewrite (dyadic_is_int_D2R c n Ec) in Hgen.
          destruct n; [congruence | apply Hgen; congruence | apply Hgen; congruence].
      + apply Hgen. congruence.
    - rewrite (kid_zero v _ _ a ra da E) by (cbn; auto || split; assumption). rewrite ev_zero. f_equal. ring.
  Qed.

  (* ---------------------------------------------------------------- n-ary operators *)
  Definition val_at (t : expr) : R := valR (ev t en).
  Definition dval_at (v : wrt) (t : expr) : R := valR (ev (D v t) en).

  Lemma tv_val v t r d : tval v t r d -> val_at t = r /\ dval_at v t = d.
  Proof. intros [A B]. unfold val_at, dval_at. rewrite A, B. auto. Qed.

  Lemma tv_vd v t r d : tval v t r d -> tval v t (val_at t) (dval_at v t).
  Proof. intros H. destruct (tv_val v t r d H) as [-> ->]. exact H. Qed.

  Lemma dval_nomention v t : mentions v t = false -> dval_at v t = 0.
  Proof. intros H. unfold dval_at. rewrite D_nomention by exact H. rewrite ev_zero. reflexivity. Qed.

  Lemma xsum_reals {A} (l : list A) (g : A -> xval) (f : A -> R) :
    (forall k, In k l -> g k = XR (f k)) -> xsum (map g l) = XR (sumR (map f l)).
  Proof.
    induction l as [|a l IH]; intros H; [reflexivity|].
    cbn [map]. rewrite xsum_cons, (H a (or_introl eq_refl)), IH by (intros k Hk; apply H; right; exact Hk).
    reflexivity.
  Qed.

  Lemma sumR_zero {A} (l : list A) (f : A -> R) : (forall k, In k l -> f k = 0) -> sumR (map f l) = 0.
  Proof.
    induction l as [|a l IH]; intros H; [reflexivity|]. cbn [map sumR fold_right].
    rewrite (H a (or_introl eq_refl)). fold (sumR (map f l)). rewrite IH by (intros k Hk; apply H; right; exact Hk). ring.
  Qed.

  Lemma tv_multsum v kids :
    (forall k, In k kids -> exists r d, tval v k r d) ->
    tval v (Node HMultSum kids) (sumR (map val_at kids)) (sumR (map (dval_at v) kids)).
  Proof.
    intros H.
    assert (Hk : forall k, In k kids -> tval v k (val_at k) (dval_at v k)).
    { intros k Hin. destruct (H k Hin) as (r & d & Ht). exact (tv_vd v k r d Ht). }
    split.
    - rewrite ev_multsum. apply xsum_reals. intros k Hin. exact (proj1 (Hk k Hin)).
    - rewrite D_eq. destruct (mentions v _) eqn:E.
      + cbn [dnode]. rewrite ev_multsum, map_map.
        apply xsum_reals. intros k Hin. exact (proj2 (Hk k Hin)).
      + rewrite ev_zero. f_equal. symmetry. apply sumR_zero. intros k Hin.
        apply dval_nomention. exact (kids_nomention v _ _ k E Hin).
  Qed.

  (* ConditionalSum: the terms whose condition holds *)
  Definition csum (g : expr -> R) (ps : list (expr * expr)) : R :=
    sumR (map (fun p => if Rnz (val_at (fst p)) then g (snd p) else 0) ps).

  Definition cond_real (v : wrt) (p : expr * expr) : Prop :=
    exists c, ev (fst p) en = XR c /\ (c <> 0 -> exists r d, tval v (snd p) r d).

  Lemma map_flatten {B} (h : expr -> B) ps :
    map h (flatten_pairs ps) = flat_map (fun p => [h (fst p); h (snd p)]) ps.
  Proof. induction ps as [|[a b] ps IH]; cbn [flatten_pairs map flat_map app fst snd]; [reflexivity | rewrite IH; reflexivity]. Qed.

  Lemma xcondsum_pairs (ps : list (expr * expr)) (g : expr -> xval) (f : expr -> R) :
    (forall p, In p ps -> exists c, ev (fst p) en = XR c /\ (c <> 0 -> g (snd p) = XR (f (snd p)))) ->
    xcondsum (flat_map (fun p => [ev (fst p) en; g (snd p)]) ps) = XR (csum f ps).
  Proof.
    unfold csum. induction ps as [|p ps IH]; intros H; [reflexivity|].
    cbn [flat_map app xcondsum map sumR fold_right].
    destruct (H p (or_introl eq_refl)) as (c & Ec & Hc).
    rewrite IH by (intros q Hq; apply H; right; exact Hq).
    assert (Hv : val_at (fst p) = c) by (unfold val_at; rewrite Ec; reflexivity).
    rewrite Hv, Ec. fold (sumR (map (fun p0 : expr * expr => if Rnz (val_at (fst p0)) then f (snd p0) else 0) ps)).
    destruct (Rnz c) eqn:En.
    - rewrite (Hc (Rnz_true_inv c En)). reflexivity.
    - f_equal. ring.
  Qed.

  Lemma tv_condsum v ps :
    (forall p, In p ps -> cond_real v p) ->
    tval v (ECondSum ps) (csum val_at ps) (csum (dval_at v) ps).
  Proof.
    intros H. unfold ECondSum. split.
    - rewrite ev_condsum, map_flatten. apply (xcondsum_pairs ps (fun t => ev t en) val_at). intros p Hp.
      destruct (H p Hp) as (c & Ec & Hc). exists c. split; [exact Ec|]. intros Hn.
      destruct (Hc Hn) as (r & d & Ht). exact (proj1 (tv_vd v _ r d Ht)).
    - rewrite D_eq. destruct (mentions v _) eqn:E.
      + cbn [dnode]. rewrite dcond_flatten, ev_condsum, map_flatten.
        rewrite flat_map_concat_map, map_map, <- flat_map_concat_map. cbn [fst snd].
        apply (xcondsum_pairs ps (fun t => ev (D v t) en) (dval_at v)). intros p Hp.
        destruct (H p Hp) as (c & Ec & Hc). exists c. split; [exact Ec|]. intros Hn.
        destruct (Hc Hn) as (r & d & Ht). exact (proj2 (tv_vd v _ r d Ht)).
      + rewrite ev_zero. f_equal. symmetry. unfold csum. apply sumR_zero. intros p Hp.
        destruct (Rnz (val_at (fst p))); [|reflexivity].
        apply dval_nomention. apply (kids_nomention v _ _ _ E).
        clear - Hp. induction ps as [|[a b] ps IH]; cbn [In flatten_pairs] in *; [tauto|].
        destruct Hp as [<-|Hp]; cbn [snd]; auto.
  Qed.

  Lemma tv_elem v keys key entries z sel r d :
    ev key en = XR (IZR z) -> assoc_Z z keys entries = Some sel -> tval v sel r d ->
    tval v (Node (HElem keys) (key :: entries)) r d.
  Proof.
    intros Hk Hs [Es Ds]. split.
    - rewrite ev_elem. cbn [map xelem]. rewrite Hk, R2Z_IZR', assoc_Z_map, Hs. cbn [option_map]. rewrite Es. reflexivity.
    - rewrite D_eq. destruct (mentions v _) eqn:E.
      + cbn [dnode map]. rewrite ev_elem. cbn [map xelem]. rewrite Hk, R2Z_IZR', map_map, assoc_Z_map, Hs.
        cbn [option_map]. rewrite Ds. reflexivity.
      + rewrite ev_zero. f_equal. symmetry.
        apply (kid_zero v _ _ sel r d E); [right; eapply assoc_Z_In; exact Hs | split; assumption].
  Qed.

  (* ---------------------------------------------------------------- symmetry of the Hessian trees *)
  Variables w w' : wrt.
  Hypothesis Hw : okv w.
  Hypothesis Hw' : okv w'.

  Lemma dom_D' v t : okv v -> domE t -> domE (D v t).
  Proof. intros [Hin (x & Hx)] Hd. exact (dom_D_at Phi Phi_derive ws en v x t Hin Hx Hd). Qed.

  Lemma kidT k : domE k ->
    tval w k (val_at k) (dval_at w k) /\ tval w' k (val_at k) (dval_at w' k) /\
    tval w' (D w k) (dval_at w k) (dval_at w' (D w k)) /\ tval w (D w' k) (dval_at w' k) (dval_at w (D w' k)).
  Proof.
    intros Hd.
    destruct (tv_dom w k Hw Hd) as (r1 & d1 & T1). destruct (tv_dom w' k Hw' Hd) as (r2 & d2 & T2).
    destruct (tv_dom w' (D w k) Hw' (dom_D' w k Hw Hd)) as (r3 & d3 & T3).
    destruct (tv_dom w (D w' k) Hw (dom_D' w' k Hw' Hd)) as (r4 & d4 & T4).
    repeat split; try (eapply proj1, tv_vd; eassumption); try (eapply proj2, tv_vd; eassumption).
  Qed.

  Lemma not_mentioned_D u v t : mentions u t = false -> mentions u (D v t) = false.
  Proof.
    intros H. destruct (mentions u (D v t)) eqn:E; [|reflexivity].
    rewrite (mentions_D u v t E) in H. discriminate.
  Qed.


  (* ---------------------------------------------------------------- LogLogit: the availability skeleton *)
  Fixpoint skel (uk : list Z) (us : list expr) (ak : list Z) (avs : list expr) : list (expr * expr) :=
    match uk, us with
    | k :: ks, u :: r =>
        match assoc_Z k ak avs with
        | Some a => (a, u) :: skel ks r ak avs
        | None => skel ks r ak avs
        end
    | _, _ => []
    end.

  Definition phi_num (v : wrt) (q : expr * expr) : expr * expr :=
    (fst q, EBin Times (EUn Exp (snd q)) (D v (snd q))).
  Definition psi_den (q : expr * expr) : expr * expr := (fst q, EUn Exp (snd q)).

  Lemma num_pairs_skel v ak avs : forall uk us,
    logit_num_pairs uk us (map (D v) us) ak avs = map (phi_num v) (skel uk us ak avs).
  Proof.
    induction uk as [|k ks IH]; intros [|u r]; try reflexivity.
    cbn [map logit_num_pairs skel]. destruct (assoc_Z k ak avs); cbn [map]; rewrite IH; reflexivity.
  Qed.

  Lemma den_pairs_skel ak avs : forall uk us,
    logit_den_pairs uk us ak avs = map psi_den (skel uk us ak avs).
  Proof.
    induction uk as [|k ks IH]; intros [|u r]; try reflexivity.
    cbn [logit_den_pairs skel]. destruct (assoc_Z k ak avs); cbn [map]; rewrite IH; reflexivity.
  Qed.

  Lemma skel_in ak avs q : forall uk us,
    In q (skel uk us ak avs) -> exists k, In (k, snd q) (combine uk us) /\ assoc_Z k ak avs = Some (fst q).
  Proof.
    induction uk as [|k ks IH]; intros [|u r]; cbn [skel combine In]; try tauto.
    destruct (assoc_Z k ak avs) as [a|] eqn:Ea.
    - intros [<-|Hq]; [exists k; cbn [fst snd]; auto|].
      destruct (IH r Hq) as (k' & Hin & Ha). exists k'. auto.
    - intros Hq. destruct (IH r Hq) as (k' & Hin & Ha). exists k'. auto.
  Qed.

  (* a real denominator: every availability that is looked up is a real number, and the
     denominator is the sum of exp(V) over the available alternatives *)
  Lemma den_real ak avs : forall uk us d,
    logit_denominator uk (map (fun k => ev k en) us) ak (map (fun k => ev k en) avs) = XR d ->
    (forall q, In q (skel uk us ak avs) -> exists c, ev (fst q) en = XR c) /\
    ((forall q, In q (skel uk us ak avs) -> val_at (fst q) <> 0 -> exists r, ev (snd q) en = XR r) ->
     d = sumR (map (fun q => if Rnz (val_at (fst q)) then exp (val_at (snd q)) else 0) (skel uk us ak avs))).
  Proof.
    induction uk as [|k ks IH]; intros [|u r] d Hd; try discriminate.
    - cbn in Hd. injection Hd as <-. split; [intros q []|reflexivity].
    - cbn [map logit_denominator skel] in *. rewrite assoc_Z_map in Hd.
      destruct (assoc_Z k ak avs) as [a|] eqn:Ea; cbn [option_map] in Hd; [|exact (IH r d Hd)].
      destruct (ev a en) as [c| |] eqn:Eca; try discriminate.
      assert (Hva : val_at a = c) by (unfold val_at; rewrite Eca; reflexivity).
      destruct (Rnz c) eqn:En.
      + destruct (logit_denominator ks (map (fun k0 => ev k0 en) r) ak (map (fun k0 => ev k0 en) avs)) as [d'| |] eqn:Ed';
          try (destruct (lift1 exp (ev u en)); discriminate).
        destruct (IH r d' Ed') as [I1 I2]. split.
        * intros q [<-|Hq]; [exists c; exact Eca | exact (I1 q Hq)].
        * intros Hr. cbn [map sumR fold_right fst snd]. rewrite Hva, En.
          destruct (Hr (a, u) (or_introl eq_refl)) as (ru & Eru); [cbn [fst]; rewrite Hva; exact (Rnz_true_inv c En)|].
          cbn [snd] in Eru. rewrite Eru in Hd. cbn [lift1 lift2] in Hd. injection Hd as <-.
          assert (Hvu : val_at u = ru) by (unfold val_at; rewrite Eru; reflexivity).
          rewrite (I2 (fun q Hq => Hr q (or_intror Hq))), Hvu. reflexivity.
      + destruct (IH r d Hd) as [I1 I2]. split.
        * intros q [<-|Hq]; [exists c; exact Eca | exact (I1 q Hq)].
        * intros Hr. cbn [map sumR fold_right fst snd]. rewrite Hva, En.
          rewrite (I2 (fun q Hq => Hr q (or_intror Hq))). unfold sumR. ring.
  Qed.

  Lemma csum_map g (phi : expr * expr -> expr * expr) sk :
    (forall q, fst (phi q) = fst q) ->
    csum g (map phi sk) = sumR (map (fun q => if Rnz (val_at (fst q)) then g (snd (phi q)) else 0) sk).
  Proof.
    intros Hf. unfold csum. rewrite map_map. f_equal. apply map_ext. intros q. rewrite Hf. reflexivity.
  Qed.

  Lemma sumR_ext {A} (f g : A -> R) l : (forall q, In q l -> f q = g q) -> sumR (map f l) = sumR (map g l).
  Proof. intros H. f_equal. apply map_ext_in. exact H. Qed.

  Ltac fin L Rr := rewrite (proj2 (tv_val _ _ _ _ L)), (proj2 (tv_val _ _ _ _ Rr)).

  Theorem hess_sym_dval : forall e, domE e -> dval_at w' (D w e) = dval_at w (D w' e).
  Proof.
    induction e as [h kids IH] using expr_ind_strong'. intros Hdom.
    rewrite Forall_forall in IH.
    destruct (mentions w (Node h kids)) eqn:Ew.
    2:{ rewrite (D_nomention w _ Ew). rewrite (dval_nomention w' zero) by (destruct w'; reflexivity).
        symmetry. apply dval_nomention. apply not_mentioned_D. exact Ew. }
    destruct (mentions w' (Node h kids)) eqn:Ew'.
    2:{ rewrite (D_nomention w' _ Ew'). rewrite (dval_nomention w zero) by (destruct w; reflexivity).
        apply dval_nomention. apply not_mentioned_D. exact Ew'. }
    rewrite (D_eq w), Ew, (D_eq w'), Ew'.
    inversion Hdom; subst.
    - (* parameter-free *)
      exfalso. match goal with H : pfree _ _ = true |- _ =>
        rewrite (pfree_nomention ws w _ (proj1 Hw) H) in Ew; discriminate end.
    - (* HBeta *) cbn [dnode].
      destruct (is_wrt w (HBeta n f)), (is_wrt w' (HBeta n f));
        rewrite !dval_nomention by (destruct w, w'; reflexivity); reflexivity.
    - cbn [dnode].
      destruct (is_wrt w (HVar n)), (is_wrt w' (HVar n));
        rewrite !dval_nomention by (destruct w, w'; reflexivity); reflexivity.
    - cbn [dnode].
      destruct (is_wrt w (HRV n)), (is_wrt w' (HRV n));
        rewrite !dval_nomention by (destruct w, w'; reflexivity); reflexivity.
    - (* plus *)
      destruct (kidT x) as (Tx & Tx' & TDx & TDx'); [assumption|].
      destruct (kidT y) as (Ty & Ty' & TDy & TDy'); [assumption|].
      cbn [dnode map].
      pose proof (tv_plus w' _ _ _ _ _ _ TDx TDy) as L. pose proof (tv_plus w _ _ _ _ _ _ TDx' TDy') as Rr.
      fin L Rr. rewrite (IH x), (IH y) by (cbn [In]; auto). reflexivity.
    - (* minus *)
      destruct (kidT x) as (Tx & Tx' & TDx & TDx'); [assumption|].
      destruct (kidT y) as (Ty & Ty' & TDy & TDy'); [assumption|].
      cbn [dnode map].
      pose proof (tv_minus w' _ _ _ _ _ _ TDx TDy) as L. pose proof (tv_minus w _ _ _ _ _ _ TDx' TDy') as Rr.
      fin L Rr. rewrite (IH x), (IH y) by (cbn [In]; auto). reflexivity.
    - (* times *)
      destruct (kidT x) as (Tx & Tx' & TDx & TDx'); [assumption|].
      destruct (kidT y) as (Ty & Ty' & TDy & TDy'); [assumption|].
      cbn [dnode map].
      pose proof (tv_plus w' _ _ _ _ _ _ (tv_times w' _ _ _ _ _ _ TDx Ty') (tv_times w' _ _ _ _ _ _ Tx' TDy)) as L.
      pose proof (tv_plus w _ _ _ _ _ _ (tv_times w _ _ _ _ _ _ TDx' Ty) (tv_times w _ _ _ _ _ _ Tx TDy')) as Rr.
      fin L Rr. rewrite (IH x), (IH y) by (cbn [In]; auto). ring.
    - (* divide *)
      destruct (kidT x) as (Tx & Tx' & TDx & TDx'); [assumption|].
      destruct (kidT y) as (Ty & Ty' & TDy & TDy'); [assumption|].
      assert (Hy : val_at y <> 0).
      { unfold val_at. match goal with H : evalX _ y _ = XR v |- _ => rewrite H end. assumption. }
      assert (Hyy : val_at y * val_at y <> 0) by (apply Rmult_integral_contrapositive; split; exact Hy).
      cbn [dnode map].
      pose proof (tv_divide w' _ _ _ _ _ _ Hyy
                    (tv_minus w' _ _ _ _ _ _ (tv_times w' _ _ _ _ _ _ TDx Ty') (tv_times w' _ _ _ _ _ _ Tx' TDy))
                    (tv_times w' _ _ _ _ _ _ Ty' Ty')) as L.
      pose proof (tv_divide w _ _ _ _ _ _ Hyy
                    (tv_minus w _ _ _ _ _ _ (tv_times w _ _ _ _ _ _ TDx' Ty) (tv_times w _ _ _ _ _ _ Tx TDy'))
                    (tv_times w _ _ _ _ _ _ Ty Ty)) as Rr.
      fin L Rr. rewrite (IH x), (IH y) by (cbn [In]; auto). field. exact Hy.
    - (* power *)
      destruct (kidT x) as (Tx & Tx' & TDx & TDx'); [assumption|].
      destruct (kidT y) as (Ty & Ty' & TDy & TDy'); [assumption|].
      assert (Hx : 0 < val_at x).
      { unfold val_at. match goal with H : evalX _ x _ = XR v |- _ => rewrite H end. assumption. }
      assert (Hx0 : val_at x <> 0) by lra.
      cbn [dnode map].
      pose proof (tv_times w' _ _ _ _ _ _ (tv_power w' _ _ _ _ _ _ Hx Tx' Ty')
                    (tv_plus w' _ _ _ _ _ _ (tv_times w' _ _ _ _ _ _ TDy (tv_log w' _ _ _ Hx Tx'))
                                             (tv_divide w' _ _ _ _ _ _ Hx0 (tv_times w' _ _ _ _ _ _ Ty' TDx) Tx'))) as L.
      pose proof (tv_times w _ _ _ _ _ _ (tv_power w _ _ _ _ _ _ Hx Tx Ty)
                    (tv_plus w _ _ _ _ _ _ (tv_times w _ _ _ _ _ _ TDy' (tv_log w _ _ _ Hx Tx))
                                            (tv_divide w _ _ _ _ _ _ Hx0 (tv_times w _ _ _ _ _ _ Ty TDx') Tx))) as Rr.
      fin L Rr. rewrite (IH x), (IH y) by (cbn [In]; auto). field. exact Hx0.
    - (* uminus *)
      destruct (kidT x) as (Tx & Tx' & TDx & TDx'); [assumption|].
      cbn [dnode map].
      pose proof (tv_uminus w' _ _ _ TDx) as L. pose proof (tv_uminus w _ _ _ TDx') as Rr.
      fin L Rr. rewrite (IH x) by (cbn [In]; auto). reflexivity.
    - (* exp *)
      destruct (kidT x) as (Tx & Tx' & TDx & TDx'); [assumption|].
      cbn [dnode map].
      pose proof (tv_times w' _ _ _ _ _ _ (tv_exp w' _ _ _ Tx') TDx) as L.
      pose proof (tv_times w _ _ _ _ _ _ (tv_exp w _ _ _ Tx) TDx') as Rr.
      fin L Rr. rewrite (IH x) by (cbn [In]; auto). ring.
    - (* log *)
      destruct (kidT x) as (Tx & Tx' & TDx & TDx'); [assumption|].
      assert (Hx : val_at x <> 0).
      { unfold val_at. match goal with H : evalX _ x _ = XR v |- _ => rewrite H end. cbn [valR]. lra. }
      cbn [dnode map].
      pose proof (tv_divide w' _ _ _ _ _ _ Hx TDx Tx') as L. pose proof (tv_divide w _ _ _ _ _ _ Hx TDx' Tx) as Rr.
      fin L Rr. rewrite (IH x) by (cbn [In]; auto). field. exact Hx.
    - (* sin *)
      destruct (kidT x) as (Tx & Tx' & TDx & TDx'); [assumption|].
      cbn [dnode map].
      pose proof (tv_times w' _ _ _ _ _ _ (tv_cos w' _ _ _ Tx') TDx) as L.
      pose proof (tv_times w _ _ _ _ _ _ (tv_cos w _ _ _ Tx) TDx') as Rr.
      fin L Rr. rewrite (IH x) by (cbn [In]; auto). ring.
    - (* cos *)
      destruct (kidT x) as (Tx & Tx' & TDx & TDx'); [assumption|].
      cbn [dnode map].
      pose proof (tv_uminus w' _ _ _ (tv_times w' _ _ _ _ _ _ (tv_sin w' _ _ _ Tx') TDx)) as L.
      pose proof (tv_uminus w _ _ _ (tv_times w _ _ _ _ _ _ (tv_sin w _ _ _ Tx) TDx')) as Rr.
      fin L Rr. rewrite (IH x) by (cbn [In]; auto). ring.
    - (* normal cdf *)
      destruct (kidT x) as (Tx & Tx' & TDx & TDx'); [assumption|].
      assert (H2 : IZR 2 <> 0) by (apply not_0_IZR; lia).
      cbn [dnode map]. unfold normal_density, two.
      pose proof (tv_times w' _ _ _ _ _ _
                    (tv_times w' _ _ _ _ _ _ (tv_num w' inv_sqrt_2pi)
                       (tv_exp w' _ _ _ (tv_uminus w' _ _ _ (tv_divide w' _ _ _ _ _ _ H2 (tv_times w' _ _ _ _ _ _ Tx' Tx') (tv_numZ w' 2)))))
                    TDx) as L.
      pose proof (tv_times w _ _ _ _ _ _
                    (tv_times w _ _ _ _ _ _ (tv_num w inv_sqrt_2pi)
                       (tv_exp w _ _ _ (tv_uminus w _ _ _ (tv_divide w _ _ _ _ _ _ H2 (tv_times w _ _ _ _ _ _ Tx Tx) (tv_numZ w 2)))))
                    TDx') as Rr.
      fin L Rr. rewrite (IH x) by (cbn [In]; auto). field.
    - (* powc *)
      destruct (kidT x) as (Tx & Tx' & TDx & TDx'); [assumption|].
      match goal with H : powc_ok c v |- _ => rename H into Hok end.
      assert (Hv : val_at x = v).
      { unfold val_at. match goal with H : evalX _ x _ = XR v |- _ => rewrite H end. reflexivity. }
      rewrite <- Hv in Hok.
      cbn [dnode map].
      destruct (dyadic_is_int c) as [[|p|p]|] eqn:Ec;
        try (rewrite !dval_nomention by (destruct w, w'; reflexivity); reflexivity).
      + assert (Hn : dyadic_is_int c <> Some 0%Z) by congruence.
        pose proof (tv_times w' _ _ _ _ _ _ (tv_times w' _ _ _ _ _ _ (tv_num w' c) (tv_powc w' _ _ _ _ (powc_ok_pred c _ Hok Hn) Tx')) TDx) as L.
        pose proof (tv_times w _ _ _ _ _ _ (tv_times w _ _ _ _ _ _ (tv_num w c) (tv_powc w _ _ _ _ (powc_ok_pred c _ Hok Hn) Tx)) TDx') as Rr.
        fin L Rr. rewrite (IH x) by (cbn [In]; auto). ring.
      + assert (Hn : dyadic_is_int c <> Some 0%Z) by congruence.
        pose proof (tv_times w' _ _ _ _ _ _ (tv_times w' _ _ _ _ _ _ (tv_num w' c) (tv_powc w' _ _ _ _ (powc_ok_pred c _ Hok Hn) Tx')) TDx) as L.
        pose proof (tv_times w _ _ _ _ _ _ (tv_times w _ _ _ _ _ _ (tv_num w c) (tv_powc w _ _ _ _ (powc_ok_pred c _ Hok Hn) Tx)) TDx') as Rr.
        fin L Rr. rewrite (IH x) by (cbn [In]; auto). ring.
      + assert (Hn : dyadic_is_int c <> Some 0%Z) by congruence.
        pose proof (tv_times w' _ _ _ _ _ _ (tv_times w' _ _ _ _ _ _ (tv_num w' c) (tv_powc w' _ _ _ _ (powc_ok_pred c _ Hok Hn) Tx')) TDx) as L.
        pose proof (tv_times w _ _ _ _ _ _ (tv_times w _ _ _ _ _ _ (tv_num w c) (tv_powc w _ _ _ _ (powc_ok_pred c _ Hok Hn) Tx)) TDx') as Rr.
        fin L Rr. rewrite (IH x) by (cbn [In]; auto). ring.
    - (* MultSum *)
      match goal with H : Forall _ kids |- _ => rename H into Hk; rewrite Forall_forall in Hk end.
      cbn [dnode].
      assert (L : tval w' (Node HMultSum (map (D w) kids)) (sumR (map val_at (map (D w) kids))) (sumR (map (dval_at w') (map (D w) kids)))).
      { apply tv_multsum. intros t Ht. apply in_map_iff in Ht. destruct Ht as (k & <- & Hin).
        destruct (kidT k (Hk k Hin)) as (_ & _ & TD & _). eauto. }
      assert (Rr : tval w (Node HMultSum (map (D w') kids)) (sumR (map val_at (map (D w') kids))) (sumR (map (dval_at w) (map (D w') kids)))).
      { apply tv_multsum. intros t Ht. apply in_map_iff in Ht. destruct Ht as (k & <- & Hin).
        destruct (kidT k (Hk k Hin)) as (_ & _ & _ & TD). eauto. }
      fin L Rr. rewrite !map_map. f_equal. apply map_ext_in. intros k Hin. apply IH; auto.
    - (* LinUtil *)
      match goal with H : Forall _ ps |- _ => rename H into Hps; rewrite Forall_forall in Hps end.
      cbn [dnode]. rewrite !dlin_flatten.
      set (F := fun v (p : expr * expr) => EBin Plus (EBin Times (D v (fst p)) (snd p)) (EBin Times (fst p) (D v (snd p)))).
      change (dval_at w' (Node HMultSum (map (F w) ps)) = dval_at w (Node HMultSum (map (F w') ps))).
      assert (Hin : forall p, In p ps -> In (fst p) (flatten_pairs ps) /\ In (snd p) (flatten_pairs ps)).
      { clear. induction ps as [|[a b] ps IHp]; cbn [In flatten_pairs]; [tauto|].
        intros p [<-|Hp]; cbn [fst snd]; [auto | destruct (IHp p Hp); auto]. }
      assert (Tp : forall p, In p ps ->
                 tval w' (F w p) (dval_at w (fst p) * val_at (snd p) + val_at (fst p) * dval_at w (snd p))
                      ((dval_at w' (D w (fst p)) * val_at (snd p) + dval_at w (fst p) * dval_at w' (snd p)) +
                       (dval_at w' (fst p) * dval_at w (snd p) + val_at (fst p) * dval_at w' (D w (snd p)))) /\
                 tval w (F w' p) (dval_at w' (fst p) * val_at (snd p) + val_at (fst p) * dval_at w' (snd p))
                      ((dval_at w (D w' (fst p)) * val_at (snd p) + dval_at w' (fst p) * dval_at w (snd p)) +
                       (dval_at w (fst p) * dval_at w' (snd p) + val_at (fst p) * dval_at w (D w' (snd p))))).
      { intros p Hp. destruct (Hps p Hp) as [Hb Hv].
        destruct (kidT (fst p) Hb) as (Tb & Tb' & TDb & TDb'). destruct (kidT (snd p) Hv) as (Tv & Tv' & TDv & TDv').
        split; unfold F.
        - exact (tv_plus w' _ _ _ _ _ _ (tv_times w' _ _ _ _ _ _ TDb Tv') (tv_times w' _ _ _ _ _ _ Tb' TDv)).
        - exact (tv_plus w _ _ _ _ _ _ (tv_times w _ _ _ _ _ _ TDb' Tv) (tv_times w _ _ _ _ _ _ Tb TDv')). }
      assert (L : tval w' (Node HMultSum (map (F w) ps)) (sumR (map val_at (map (F w) ps))) (sumR (map (dval_at w') (map (F w) ps)))).
      { apply tv_multsum. intros t Ht. apply in_map_iff in Ht. destruct Ht as (p & <- & Hp). destruct (Tp p Hp) as [X _]. eauto. }
      assert (Rr : tval w (Node HMultSum (map (F w') ps)) (sumR (map val_at (map (F w') ps))) (sumR (map (dval_at w) (map (F w') ps)))).
      { apply tv_multsum. intros t Ht. apply in_map_iff in Ht. destruct Ht as (p & <- & Hp). destruct (Tp p Hp) as [_ X]. eauto. }
      fin L Rr. rewrite !map_map. apply sumR_ext. intros p Hp. destruct (Tp p Hp) as [X Y].
      rewrite (proj2 (tv_val _ _ _ _ X)), (proj2 (tv_val _ _ _ _ Y)).
      destruct (Hin p Hp) as [I1 I2]. destruct (Hps p Hp) as [Hb Hv].
      rewrite (IH (fst p) I1 Hb), (IH (snd p) I2 Hv). ring.
    - (* CondSum *)
      match goal with H : Forall _ ps |- _ => rename H into Hps; rewrite Forall_forall in Hps end.
      cbn [dnode]. rewrite !dcond_flatten.
      set (G := fun v (p : expr * expr) => (fst p, D v (snd p))).
      change (dval_at w' (ECondSum (map (G w) ps)) = dval_at w (ECondSum (map (G w') ps))).
      assert (Hin : forall p, In p ps -> In (snd p) (flatten_pairs ps)).
      { clear. induction ps as [|[a b] ps IHp]; cbn [In flatten_pairs]; [tauto|].
        intros p [<-|Hp]; cbn [snd]; [auto | right; right; apply IHp, Hp]. }
      assert (L : tval w' (ECondSum (map (G w) ps)) (csum val_at (map (G w) ps)) (csum (dval_at w') (map (G w) ps))).
      { apply tv_condsum. intros q Hq. apply in_map_iff in Hq. destruct Hq as (p & <- & Hp).
        destruct (Hps p Hp) as (_ & c & Ec & Hc). exists c. split; [exact Ec|]. intros Hn.
        destruct (kidT (snd p) (Hc Hn)) as (_ & _ & TD & _). unfold G. cbn [snd]. eauto. }
      assert (Rr : tval w (ECondSum (map (G w') ps)) (csum val_at (map (G w') ps)) (csum (dval_at w) (map (G w') ps))).
      { apply tv_condsum. intros q Hq. apply in_map_iff in Hq. destruct Hq as (p & <- & Hp).
        destruct (Hps p Hp) as (_ & c & Ec & Hc). exists c. split; [exact Ec|]. intros Hn.
        destruct (kidT (snd p) (Hc Hn)) as (_ & _ & _ & TD). unfold G. cbn [snd]. eauto. }
      fin L Rr. rewrite !csum_map by reflexivity. apply sumR_ext. intros p Hp.
      destruct (Rnz (val_at (fst p))) eqn:En; [|reflexivity].
      destruct (Hps p Hp) as (_ & c & Ec & Hc). unfold G. cbn [snd].
      apply IH; [exact (Hin p Hp)|]. apply Hc. unfold val_at in En. rewrite Ec in En. exact (Rnz_true_inv c En).
    - (* Elem *)
      match goal with H : assoc_Z _ _ _ = Some sel |- _ => rename H into Hsel end.
      match goal with H : dom Phi ws en sel |- _ => rename H into Hds end.
      match goal with H : evalX _ key _ = XR _ |- _ => rename H into Hkey end.
      destruct (kidT sel Hds) as (_ & _ & TD & TD').
      cbn [dnode map].
      pose proof (tv_elem w' keys key (map (D w) entries) z (D w sel) _ _ Hkey
                    (eq_trans (assoc_Z_map (D w) z keys entries) (f_equal (option_map (D w)) Hsel)) TD) as L.
      pose proof (tv_elem w keys key (map (D w') entries) z (D w' sel) _ _ Hkey
                    (eq_trans (assoc_Z_map (D w') z keys entries) (f_equal (option_map (D w')) Hsel)) TD') as Rr.
      fin L Rr. apply IH; [right; eapply assoc_Z_In; exact Hsel | exact Hds].
    - (* LogLogit *)
      match goal with H : forallb (pfree ws) avs = true |- _ => rename H into Havs end.
      match goal with H : List.length us = _ |- _ => rename H into Hlen end.
      match goal with H : evalX _ _ _ = XR r |- _ => rename H into Hr end.
      match goal with H : forall k u a v, In (k, u) _ -> _ |- _ => rename H into Hdu end.
      pose proof Hw as [Hwin (x0 & Hx0)].
      pose proof (loglogit_inv Phi w en x0 uk ak choice us avs r Hlen) as Inv.
      rewrite (upd_self en w x0 Hx0) in Inv.
      destruct (Inv Hr) as (z & a & v & d & uc & ac & Ec & Euc & Evc & Eac & Eva & Hnz & Ed & Hpos).
      set (sk := skel uk us ak avs).
      destruct (den_real ak avs uk us d Ed) as [Hcr Hden]. fold sk in Hcr, Hden.
      assert (Hsk : forall q, In q sk -> exists c, ev (fst q) en = XR c /\ (c <> 0 -> domE (snd q))).
      { intros q Hq. destruct (Hcr q Hq) as (c & Ecq). exists c. split; [exact Ecq|]. intros Hc.
        destruct (skel_in ak avs q uk us Hq) as (k & Hink & Hak). exact (Hdu k (snd q) (fst q) c Hink Hak Ecq Hc). }
      assert (Hval : forall (q : expr * expr) c, ev (fst q) en = XR c -> val_at (fst q) = c) by (intros q c E; unfold val_at; rewrite E; reflexivity).
      assert (HDen : csum val_at (map psi_den sk) = d).
      { rewrite csum_map by reflexivity. rewrite Hden.
        - apply sumR_ext. intros q Hq. destruct (Rnz (val_at (fst q))) eqn:En; [|reflexivity].
          destruct (Hsk q Hq) as (c & Ecq & Hc). rewrite (Hval q c Ecq) in En.
          destruct (kidT (snd q) (Hc (Rnz_true_inv c En))) as (Tu & _).
          unfold psi_den. cbn [snd]. exact (proj1 (tv_val _ _ _ _ (tv_exp w _ _ _ Tu))).
        - intros q Hq Hn. destruct (Hsk q Hq) as (c & Ecq & Hc). rewrite (Hval q c Ecq) in Hn.
          destruct (kidT (snd q) (Hc Hn)) as ((Eu & _) & _). eauto. }
      assert (HDen0 : csum val_at (map psi_den sk) <> 0) by (rewrite HDen; lra).
      (* the pieces of the two trees *)
      assert (TN : forall v1 v2, (v1 = w /\ v2 = w') \/ (v1 = w' /\ v2 = w) ->
                   tval v2 (ECondSum (map (phi_num v1) sk)) (csum val_at (map (phi_num v1) sk)) (csum (dval_at v2) (map (phi_num v1) sk))).
      { intros v1 v2 Hv. apply tv_condsum. intros q' Hq'. apply in_map_iff in Hq'. destruct Hq' as (q & <- & Hq).
        destruct (Hsk q Hq) as (c & Ecq & Hc). exists c. split; [exact Ecq|]. intros Hn.
        destruct (kidT (snd q) (Hc Hn)) as (Tu & Tu' & TDu & TDu'). unfold phi_num. cbn [snd].
        destruct Hv as [[-> ->]|[-> ->]].
        - eexists. eexists. exact (tv_times w' _ _ _ _ _ _ (tv_exp w' _ _ _ Tu') TDu).
        - eexists. eexists. exact (tv_times w _ _ _ _ _ _ (tv_exp w _ _ _ Tu) TDu'). }
      assert (TD : forall v2, v2 = w \/ v2 = w' ->
                   tval v2 (ECondSum (map psi_den sk)) (csum val_at (map psi_den sk)) (csum (dval_at v2) (map psi_den sk))).
      { intros v2 Hv. apply tv_condsum. intros q' Hq'. apply in_map_iff in Hq'. destruct Hq' as (q & <- & Hq).
        destruct (Hsk q Hq) as (c & Ecq & Hc). exists c. split; [exact Ecq|]. intros Hn.
        destruct (kidT (snd q) (Hc Hn)) as (Tu & Tu' & _). unfold psi_den. cbn [snd].
        destruct Hv as [->| ->]; eexists; eexists; [exact (tv_exp w _ _ _ Tu) | exact (tv_exp w' _ _ _ Tu')]. }
      assert (Hduc : domE uc) by (apply (Hdu z uc ac a); auto; apply assoc_Z_combine; exact Euc).
      destruct (kidT uc Hduc) as (_ & _ & TDc & TDc').
      cbn [dnode dloglogit map]. rewrite !map_app.
      rewrite !firstn_len_app, !skipn_len_app by (rewrite ?map_length; exact Hlen).
      rewrite !logit_num_kids_pairs, !logit_den_kids_pairs, !num_pairs_skel, !den_pairs_skel. fold sk.
      change (Node HCondSum (flatten_pairs (map (phi_num w) sk))) with (ECondSum (map (phi_num w) sk)).
      change (Node HCondSum (flatten_pairs (map (phi_num w') sk))) with (ECondSum (map (phi_num w') sk)).
      change (Node HCondSum (flatten_pairs (map psi_den sk))) with (ECondSum (map psi_den sk)).
      pose proof (tv_minus w' _ _ _ _ _ _
                    (tv_elem w' uk choice (map (D w) us) z (D w uc) _ _ Ec
                       (eq_trans (assoc_Z_map (D w) z uk us) (f_equal (option_map (D w)) Euc)) TDc)
                    (tv_divide w' _ _ _ _ _ _ HDen0 (TN w w' (or_introl (conj eq_refl eq_refl))) (TD w' (or_intror eq_refl)))) as L.
      pose proof (tv_minus w _ _ _ _ _ _
                    (tv_elem w uk choice (map (D w') us) z (D w' uc) _ _ Ec
                       (eq_trans (assoc_Z_map (D w') z uk us) (f_equal (option_map (D w')) Euc)) TDc')
                    (tv_divide w _ _ _ _ _ _ HDen0 (TN w' w (or_intror (conj eq_refl eq_refl))) (TD w (or_introl eq_refl)))) as Rr.
      fin L Rr.
      assert (S1 : csum (dval_at w') (map (phi_num w) sk) = csum (dval_at w) (map (phi_num w') sk)).
      { rewrite !csum_map by reflexivity. apply sumR_ext. intros q Hq.
        destruct (Rnz (val_at (fst q))) eqn:En; [|reflexivity].
        destruct (Hsk q Hq) as (c & Ecq & Hc). rewrite (Hval q c Ecq) in En.
        pose proof (Hc (Rnz_true_inv c En)) as Hdq.
        destruct (kidT (snd q) Hdq) as (Tu & Tu' & TDu & TDu'). unfold phi_num. cbn [snd].
        rewrite (proj2 (tv_val _ _ _ _ (tv_times w' _ _ _ _ _ _ (tv_exp w' _ _ _ Tu') TDu))).
        rewrite (proj2 (tv_val _ _ _ _ (tv_times w _ _ _ _ _ _ (tv_exp w _ _ _ Tu) TDu'))).
        destruct (skel_in ak avs q uk us Hq) as (k & Hink & _).
        rewrite (IH (snd q)); [ring | right; apply in_or_app; left; exact (in_combine_r _ _ _ _ Hink) | exact Hdq]. }
      assert (S2 : forall v1, v1 = w \/ v1 = w' -> csum val_at (map (phi_num v1) sk) = csum (dval_at v1) (map psi_den sk)).
      { intros v1 Hv. rewrite !csum_map by reflexivity. apply sumR_ext. intros q Hq.
        destruct (Rnz (val_at (fst q))) eqn:En; [|reflexivity].
        destruct (Hsk q Hq) as (c & Ecq & Hc). rewrite (Hval q c Ecq) in En.
        destruct (kidT (snd q) (Hc (Rnz_true_inv c En))) as (Tu & Tu' & TDu & TDu'). unfold phi_num, psi_den. cbn [snd].
        destruct Hv as [->| ->].
        - rewrite (proj1 (tv_val _ _ _ _ (tv_times w' _ _ _ _ _ _ (tv_exp w' _ _ _ Tu') TDu))).
          rewrite (proj2 (tv_val _ _ _ _ (tv_exp w _ _ _ Tu))). reflexivity.
        - rewrite (proj1 (tv_val _ _ _ _ (tv_times w _ _ _ _ _ _ (tv_exp w _ _ _ Tu) TDu'))).
          rewrite (proj2 (tv_val _ _ _ _ (tv_exp w' _ _ _ Tu'))). reflexivity. }
      rewrite S1, (S2 w (or_introl eq_refl)), (S2 w' (or_intror eq_refl)).
      rewrite (IH uc); [field; exact HDen0 | right; apply in_or_app; left; eapply assoc_Z_In; exact Euc | exact Hduc].
  Qed.

  (* T02c *)
  Theorem hess_symmetric e : domE e -> ev (D w' (D w e)) en = ev (D w (D w' e)) en.
  Proof.
    intros Hd.
    destruct (tv_dom w' (D w e) Hw' (dom_D' w e Hw Hd)) as (r1 & d1 & T1).
    destruct (tv_dom w (D w' e) Hw (dom_D' w' e Hw' Hd)) as (r2 & d2 & T2).
    rewrite (proj2 T1), (proj2 T2). f_equal.
    rewrite <- (proj2 (tv_val _ _ _ _ T1)), <- (proj2 (tv_val _ _ _ _ T2)). apply hess_sym_dval. exact Hd.
  Qed.
End Sym.

(* T02c in the form used by Properties/C02.v *)
Theorem hess_symmetric_at (Phi : R -> R) :
  (forall x, is_derive Phi x (D2R inv_sqrt_2pi * exp (- (x * x / 2)))) ->
  forall (ws : list wrt) (en : env) (w w' : wrt) (x0 x0' : R) (e : expr),
    In w ws -> In w' ws -> wrt_val en w = Some x0 -> wrt_val en w' = Some x0' -> dom Phi ws en e ->
    evalX Phi (D w' (D w e)) en = evalX Phi (D w (D w' e)) en.
Proof.
  intros HP ws en w w' x0 x0' e Hw Hw' Hv Hv' Hd.
  apply (hess_symmetric Phi HP ws en w w'); [split; eauto | split; eauto | exact Hd].
Qed.

(* ------------------------------------------------------------------ aggregation and scaling *)
From BV Require Import Model.Pack.

Lemma is_derive_rsum {A} (f : A -> R -> R) (f' : A -> R) (l : list A) (x : R) :
  (forall a, In a l -> is_derive (f a) x (f' a)) ->
  is_derive (fun t => rsum (map (fun a => f a t) l)) x (rsum (map f' l)).
Proof.
  induction l as [|a l IH]; cbn [map rsum fold_right]; intros H.
  - apply @is_derive_const.
  - apply (is_derive_plus (f a) (fun t => rsum (map (fun a0 => f a0 t) l)) x (f' a) (rsum (map f' l))).
    + apply H. left; reflexivity.
    + apply IH. intros a0 Ha. apply H. right; exact Ha.
Qed.

Section Aggregate.
  Variable Phi : R -> R.
  Hypothesis Phi_derive : forall x, is_derive Phi x (D2R inv_sqrt_2pi * exp (- (x * x / 2))).
  Notation ev := (evalX Phi).

  (* T02e: the sum over the observations of the per-observation derivative values is the
     derivative of the aggregated value (sum over the observations), for the gradient ... *)
  Theorem aggregate_gradient ws w x0 e (rows : list env) :
    In w ws ->
    (forall r, In r rows -> wrt_val r w = Some x0 /\ dom Phi ws r e) ->
    is_derive (fun x => rsum (map (fun r => valR (ev e (upd r w x))) rows)) x0
              (rsum (map (fun r => valR (ev (D w e) r)) rows)).
  Proof.
    intros Hw Hr. apply (is_derive_rsum (fun r x => valR (ev e (upd r w x))) (fun r => valR (ev (D w e) r))).
    intros r Hin. destruct (Hr r Hin) as [Hv Hd].
    exact (D_correct_at Phi Phi_derive ws r w x0 e Hw Hv Hd).
  Qed.

  (* ... and for the Hessian *)
  Theorem aggregate_hessian ws w w' x0 x0' e (rows : list env) :
    In w ws -> In w' ws ->
    (forall r, In r rows -> wrt_val r w = Some x0 /\ wrt_val r w' = Some x0' /\ dom Phi ws r e) ->
    is_derive (fun x => rsum (map (fun r => valR (ev (D w e) (upd r w' x))) rows)) x0'
              (rsum (map (fun r => valR (ev (D w' (D w e)) r)) rows)).
  Proof.
    intros Hw Hw' Hr.
    apply (is_derive_rsum (fun r x => valR (ev (D w e) (upd r w' x))) (fun r => valR (ev (D w' (D w e)) r))).
    intros r Hin. destruct (Hr r Hin) as (Hv & Hv' & Hd).
    exact (hess_correct Phi Phi_derive ws r w w' x0 x0' e Hw Hw' Hv Hv' Hd).
  Qed.
End Aggregate.

(* T02g: scaling by 1/N commutes with differentiation *)
Theorem scaling_linear (f : R -> R) (x0 d N : R) :
  is_derive f x0 d -> is_derive (fun x => f x / N) x0 (d / N).
Proof.
  intros H. unfold Rdiv.
  apply (is_derive_ext (fun x => scal (/ N) (f x))).
  - intros t. unfold scal; cbn; unfold mult; cbn. ring.
  - replace (d * / N) with (scal (/ N) d) by (unfold scal; cbn; unfold mult; cbn; ring).
    apply @is_derive_scal. exact H.
Qed.

(* ------------------------------------------------------------------ non-vacuity of the hypothesis on Phi *)
Lemma Phi_exists : exists Phi : R -> R,
  forall x, is_derive Phi x (D2R inv_sqrt_2pi * exp (- (x * x / 2))).
Proof.
  set (f := fun t : R => D2R inv_sqrt_2pi * exp (- (t * t / 2))).
  assert (Hc : forall z, continuous f z).
  { intros z. apply (ex_derive_continuous (K:=R_AbsRing) (V:=R_NormedModule) f z).
    unfold f. auto_derive. exact I. }
  exists (fun b => RInt f 0 b). intros x.
  apply (is_derive_RInt f (fun b => RInt f 0 b) 0 x).
  - apply filter_forall. intros b. apply (@RInt_correct R_CompleteNormedModule).
    apply (@ex_RInt_continuous R_CompleteNormedModule). intros z _. apply Hc.
  - apply Hc.
Qed.
