(* Correctness of the symbolic derivative [D] of Model/Deriv.v (Coquelicot).

   Main results
     D_correct      under [dom], x |-> value of e at the point with w := x is differentiable at x0
                    and its derivative is the value of the tree [D w e];
     D_value        ... and that tree has a real value;
     dom_D          the derivative tree is again inside the fragment (so D can be iterated);
     hess_correct   the (i, j) tree of [hess] is the derivative of the i-th gradient entry.

   The only thing assumed is the Section hypothesis [Phi_derive] on the normal CDF. *)
From Coq Require Import Reals ZArith List String Bool Lra Lia.
From Coquelicot Require Import Coquelicot.
From BV Require Import Model.Expr Model.EvalX Model.Deriv.
Import ListNotations.
Open Scope R_scope.

(* ------------------------------------------------------------------ strong induction on expr *)
Lemma expr_ind_strong' (P : expr -> Prop) :
  (forall h kids, Forall P kids -> P (Node h kids)) -> forall e, P e.
Proof.
  intros H. fix IH 1. intros [h kids]. apply H.
  induction kids as [|k kids IHk]; constructor; [apply IH | exact IHk].
Qed.

(* ------------------------------------------------------------------ small facts on the decisions *)
Lemma Rltb'_true a b : a < b -> Rltb' a b = true.
Proof. intros H. unfold Rltb'. destruct (Rlt_dec a b); [reflexivity | contradiction]. Qed.
Lemma Rnz_true r : r <> 0 -> Rnz r = true.
Proof. intros H. unfold Rnz. destruct (Req_EM_T r 0); [contradiction | reflexivity]. Qed.
Lemma Rnz_true_inv r : Rnz r = true -> r <> 0.
Proof. unfold Rnz. destruct (Req_EM_T r 0); [discriminate | auto]. Qed.
Lemma Rnz_false_inv r : Rnz r = false -> r = 0.
Proof. unfold Rnz. destruct (Req_EM_T r 0); [auto | discriminate]. Qed.
Lemma Rltb'_true_inv a b : Rltb' a b = true -> a < b.
Proof. unfold Rltb'. destruct (Rlt_dec a b); [auto | discriminate]. Qed.

Lemma R2Z_IZR' z : R2Z (IZR z) = Some z.
Proof.
  unfold R2Z.
  assert (E : Int_part (IZR z) = z).
  { unfold Int_part.
    assert (Hu : (z + 1)%Z = up (IZR z)).
    { apply tech_up; rewrite plus_IZR; lra. }
    rewrite <- Hu. lia. }
  rewrite E. destruct (Req_EM_T (IZR z) (IZR z)) as [_|n]; [reflexivity | exfalso; apply n; reflexivity].
Qed.

Lemma R2Z_Some r z : R2Z r = Some z -> r = IZR z.
Proof.
  unfold R2Z. destruct (Req_EM_T r (IZR (Int_part r))) as [E|]; [|discriminate].
  intros H. injection H as <-. exact E.
Qed.

(* ------------------------------------------------------------------ dyadic exponents *)
Lemma IZR_pow2 e : (0 <= e)%Z -> IZR (2 ^ e) = powerRZ 2 e.
Proof.
  intros He. rewrite <- (Z2Nat.id e He). generalize (Z.to_nat e). intros k.
  rewrite <- pow_IZR, <- pow_powerRZ. reflexivity.
Qed.

Lemma dyadic_is_int_D2R c n : dyadic_is_int c = Some n -> D2R c = IZR n.
Proof.
  destruct c as [m e]. unfold dyadic_is_int, D2R. cbn [fst snd].
  destruct (Z.leb_spec 0 e) as [He|He].
  - intros H. injection H as <-. rewrite mult_IZR, IZR_pow2 by exact He. reflexivity.
  - destruct (Z.eqb_spec (m mod 2 ^ (- e)) 0) as [Hm|]; [|discriminate].
    intros H. injection H as <-.
    assert (Hp : (0 < 2 ^ (- e))%Z) by (apply Z.pow_pos_nonneg; lia).
    assert (Hm' : m = (2 ^ (- e) * (m / 2 ^ (- e)))%Z).
    { rewrite (Z.div_mod m (2 ^ (- e))) at 1 by lia. lia. }
    set (q := (m / 2 ^ (- e))%Z) in *. rewrite Hm' at 1. rewrite mult_IZR.
    rewrite IZR_pow2 by lia.
    replace e with (- (- e))%Z at 2 by lia.
    rewrite (powerRZ_neg 2 (- e)) by lra. rewrite powerRZ_inv by lra.
    field. apply powerRZ_NOR. lra.
Qed.

Lemma dy_pred_D2R c : D2R (dy_pred c) = D2R c - 1.
Proof.
  destruct c as [m e]. unfold dy_pred, D2R.
  destruct (Z.leb_spec 0 e) as [He|He]; cbn [fst snd].
  - rewrite minus_IZR, mult_IZR, IZR_pow2 by exact He. cbn [powerRZ]. ring.
  - rewrite minus_IZR, IZR_pow2 by lia.
    rewrite Rmult_minus_distr_r. f_equal.
    rewrite <- powerRZ_add by lra. replace (- e + e)%Z with 0%Z by lia. reflexivity.
Qed.

Lemma dy_pred_int c :
  dyadic_is_int (dy_pred c) = option_map (fun n => (n - 1)%Z) (dyadic_is_int c).
Proof.
  destruct c as [m e]. unfold dy_pred, dyadic_is_int.
  destruct (Z.leb_spec 0 e) as [He|He].
  - cbn [option_map]. change (0 <=? 0)%Z with true. cbv iota. f_equal. rewrite Z.pow_0_r. lia.
  - destruct (Z.leb_spec 0 e) as [He'|_]; [lia|].
    assert (Hp : (0 < 2 ^ (- e))%Z) by (apply Z.pow_pos_nonneg; lia).
    replace (m - 2 ^ (- e))%Z with (m + (-1) * 2 ^ (- e))%Z by lia.
    rewrite Z_mod_plus_full.
    destruct (Z.eqb_spec (m mod 2 ^ (- e)) 0); cbn [option_map]; [|reflexivity].
    f_equal. rewrite Z_div_plus_full by lia. lia.
Qed.

(* ------------------------------------------------------------------ unfolding evalX *)
Section Unfold.
  Variable Phi : R -> R.
  Notation ev := (evalX Phi).

  Lemma evalX_eq' h kids en :
    ev (Node h kids) en =
    let vs := map (fun k => ev k en) kids in
    match h, vs with
    | HNum d, [] => XR (D2R d)
    | HBeta n _, [] => of_opt (e_beta en n)
    | HVar n, [] => of_opt (e_var en n)
    | HDraws n _, [] => of_opt (e_draw en n)
    | HRV n, [] => of_opt (e_rv en n)
    | HBin op, [a; b] => xbin op a b
    | HUn MonteCarlo, [_] =>
        match kids with
        | [k] => xmean (map (fun d => ev k (with_draw en d)) (e_draws en))
        | _ => XNaN
        end
    | HUn PanelTraj, [_] =>
        match kids with
        | [k] => match e_rows en with
                 | [] => XNaN
                 | rows => xprod (map (fun r => ev k (with_row en r)) rows)
                 end
        | _ => XNaN
        end
    | HUn op, [a] => xun Phi op a
    | HPowC c, [a] => xpowc c a
    | HBelongs s, [a] => xbelongs s a
    | HMultSum, _ => xsum vs
    | HCondSum, _ => xcondsum vs
    | HElem keys, _ => xelem keys vs
    | HLinUtil, _ => xlinutil vs
    | HLogLogit uk ak, _ => xloglogit uk ak vs
    | _, _ => XNaN
    end.
  Proof. reflexivity. Qed.

  Lemma ev_num d en : ev (Node (HNum d) []) en = XR (D2R d).
  Proof. reflexivity. Qed.
  Lemma ev_numZ z en : ev (ENumZ z) en = XR (IZR z).
  Proof. unfold ENumZ. rewrite ev_num. unfold D2R. cbn [fst snd powerRZ]. f_equal. ring. Qed.
  Lemma ev_bin op a b en : ev (EBin op a b) en = xbin op (ev a en) (ev b en).
  Proof. reflexivity. Qed.
  Lemma ev_uminus a en : ev (EUn UMinus a) en = lift1 Ropp (ev a en).
  Proof. reflexivity. Qed.
  Lemma ev_exp a en : ev (EUn Exp a) en = xun Phi Exp (ev a en).
  Proof. reflexivity. Qed.
  Lemma ev_log a en : ev (EUn Log a) en = xun Phi Log (ev a en).
  Proof. reflexivity. Qed.
  Lemma ev_sin a en : ev (EUn Sin a) en = lift1 sin (ev a en).
  Proof. reflexivity. Qed.
  Lemma ev_cos a en : ev (EUn Cos a) en = lift1 cos (ev a en).
  Proof. reflexivity. Qed.
  Lemma ev_ncdf a en : ev (EUn NormalCdf a) en = lift1 Phi (ev a en).
  Proof. reflexivity. Qed.
  Lemma ev_powc a c en : ev (EPowC a c) en = xpowc c (ev a en).
  Proof. reflexivity. Qed.
  Lemma ev_multsum l en : ev (Node HMultSum l) en = xsum (map (fun k => ev k en) l).
  Proof. rewrite evalX_eq'. reflexivity. Qed.
  Lemma ev_linutil l en : ev (Node HLinUtil l) en = xlinutil (map (fun k => ev k en) l).
  Proof. rewrite evalX_eq'. reflexivity. Qed.
  Lemma ev_condsum l en : ev (Node HCondSum l) en = xcondsum (map (fun k => ev k en) l).
  Proof. rewrite evalX_eq'. reflexivity. Qed.
  Lemma ev_elem keys l en : ev (Node (HElem keys) l) en = xelem keys (map (fun k => ev k en) l).
  Proof. rewrite evalX_eq'. reflexivity. Qed.
  Lemma ev_loglogit uk ak l en :
    ev (Node (HLogLogit uk ak) l) en = xloglogit uk ak (map (fun k => ev k en) l).
  Proof. rewrite evalX_eq'. reflexivity. Qed.

  (* ---------------------------------------------------------------- a leaf that is not mentioned does not matter *)
  Lemma upd_with_draw en w x d : with_draw (upd en w x) d = upd (with_draw en d) w x.
  Proof. destruct w; reflexivity. Qed.
  Lemma upd_draws en w x : e_draws (upd en w x) = e_draws en.
  Proof. destruct w; reflexivity. Qed.
  Lemma upd_rows en w x : e_rows (upd en w x) = e_rows en.
  Proof. destruct w; reflexivity. Qed.

  Lemma existsb_false_in {A} (f : A -> bool) l a : existsb f l = false -> In a l -> f a = false.
  Proof.
    intros H Hin. destruct (f a) eqn:E; [|reflexivity].
    assert (existsb f l = true) by (apply existsb_exists; exists a; auto). congruence.
  Qed.

  Lemma set_name_other b x l n : String.eqb n b = false -> set_name b x l n = l n.
  Proof. intros H. unfold set_name. rewrite H. reflexivity. Qed.
  Lemma set_name_same b x l : set_name b x l b = Some x.
  Proof. unfold set_name. rewrite String.eqb_refl. reflexivity. Qed.

  (* under PanelTraj the row is replaced: a variable set in the outer row is not seen; for the
     other two kinds the update commutes *)
  Lemma evalX_upd_nomention w x : forall e en,
    mentions w e = false -> ev e (upd en w x) = ev e en.
  Proof.
    induction e as [h kids IH] using expr_ind_strong'. intros en Hm.
    cbn [mentions] in Hm. apply orb_false_iff in Hm as [Hh Hk].
    rewrite Forall_forall in IH.
    assert (Hkid : forall k en', In k kids -> ev k (upd en' w x) = ev k en').
    { intros k en' Hin. apply IH; [exact Hin|]. exact (existsb_false_in _ _ _ Hk Hin). }
    assert (Hvs : map (fun k => ev k (upd en w x)) kids = map (fun k => ev k en) kids).
    { apply map_ext_in. intros k Hin. apply Hkid, Hin. }
    rewrite !evalX_eq'. cbv zeta. rewrite Hvs.
    destruct h; try reflexivity.
    - (* HBeta *)
      destruct kids; [|reflexivity]. cbn [map].
      destruct w; cbn [is_wrt] in Hh; try reflexivity.
      cbn [upd e_beta]. rewrite set_name_other by exact Hh. reflexivity.
    - (* HVar *)
      destruct kids; [|reflexivity]. cbn [map].
      destruct w; cbn [is_wrt] in Hh; try reflexivity.
      cbn [upd e_var]. rewrite set_name_other by exact Hh. reflexivity.
    - (* HDraws *) destruct kids; [|reflexivity]. destruct w; reflexivity.
    - (* HRV *)
      destruct kids; [|reflexivity]. cbn [map].
      destruct w; cbn [is_wrt] in Hh; try reflexivity.
      cbn [upd e_rv]. rewrite set_name_other by exact Hh. reflexivity.
    - (* HUn *)
      destruct op; try reflexivity.
      + (* MonteCarlo *)
        destruct kids as [|k [|k2 kids]]; try reflexivity. cbn [map].
        rewrite upd_draws. f_equal. apply map_ext. intros d.
        rewrite upd_with_draw. apply Hkid. left; reflexivity.
      + (* PanelTraj *)
        destruct kids as [|k [|k2 kids]]; try reflexivity. cbn [map].
        rewrite upd_rows.
        assert (Hr : forall r, ev k (with_row (upd en w x) r) = ev k (with_row en r)).
        { intros r. destruct w.
          - change (with_row (upd en (WBeta n) x) r) with (upd (with_row en r) (WBeta n) x).
            apply Hkid. left; reflexivity.
          - reflexivity.
          - change (with_row (upd en (WRV n) x) r) with (upd (with_row en r) (WRV n) x).
            apply Hkid. left; reflexivity. }
        destruct (e_rows en) as [|r0 rows]; [reflexivity|].
        f_equal. f_equal; [apply Hr | apply map_ext; exact Hr].
  Qed.

  Lemma pfree_nomention ws w e : In w ws -> pfree ws e = true -> mentions w e = false.
  Proof.
    intros Hin H. unfold pfree in H. rewrite forallb_forall in H.
    specialize (H w Hin). apply negb_true_iff in H. exact H.
  Qed.

  Lemma D_eq w h kids :
    D w (Node h kids) =
    if mentions w (Node h kids) then dnode w h kids (map (D w) kids) else zero.
  Proof. reflexivity. Qed.

  Lemma D_nomention w e : mentions w e = false -> D w e = zero.
  Proof. destruct e as [h kids]. intros H. rewrite D_eq, H. reflexivity. Qed.
End Unfold.

(* ------------------------------------------------------------------ calculus helpers *)
Lemma locally_pos (f : R -> R) x0 d : is_derive f x0 d -> 0 < f x0 -> locally x0 (fun x => 0 < f x).
Proof.
  intros Hd Hp.
  assert (Hc : continuous f x0) by (apply ex_derive_continuous; exists d; exact Hd).
  apply (Hc (fun y => 0 < y)). apply (open_gt 0 (f x0) Hp).
Qed.

Lemma locally_neq0 (f : R -> R) x0 d : is_derive f x0 d -> f x0 <> 0 -> locally x0 (fun x => f x <> 0).
Proof.
  intros Hd Hp.
  assert (Hc : continuous f x0) by (apply ex_derive_continuous; exists d; exact Hd).
  apply (Hc (fun y => y <> 0)). apply (open_neq 0 (f x0) Hp).
Qed.

Lemma is_derive_Rpower_c (S : R -> R) S' x p :
  is_derive S x S' -> 0 < S x ->
  is_derive (fun t => Rpower (S t) p) x (p * Rpower (S x) (p - 1) * S').
Proof.
  intros HS Hpos. unfold Rpower.
  auto_derive.
  - split; [exists S'; exact HS|]. split; [exact Hpos|exact I].
  - replace (Derive (fun x0 : R => S x0) x) with S' by (symmetry; apply is_derive_unique; exact HS).
    replace ((p - 1) * ln (S x)) with (p * ln (S x) + - ln (S x)) by ring.
    rewrite exp_plus, exp_Ropp, exp_ln by assumption. field. lra.
Qed.

Lemma is_derive_powerRZ_c (S : R -> R) S' x n :
  is_derive S x S' -> ((0 <= n)%Z \/ S x <> 0) ->
  is_derive (fun t => powerRZ (S t) n) x (IZR n * powerRZ (S x) (n - 1) * S').
Proof.
  intros HS Hn.
  replace (IZR n * powerRZ (S x) (n - 1) * S') with (scal S' (IZR n * powerRZ (S x) (n - 1)))
    by (unfold scal; cbn; unfold mult; cbn; ring).
  apply (is_derive_comp (fun y => powerRZ y n) S x); [|exact HS].
  apply is_derive_powerRZ. exact Hn.
Qed.
