(* Cross-nested logit (cnl.py): closed forms of the trees built by get_mev_for_cross_nested(_mu),
   logcnl / cnl / logcnlmu / cnlmu; distribution laws, shift invariance, reductions. *)
From Coq Require Import Reals Lra Lia List ZArith Bool.
From BV Require Import Model.EvalX Model.BuildersChoice
  Proofs.ChoiceBase Proofs.ChoiceLogit Proofs.ChoiceNested.
Open Scope R_scope.

(* sum over the alternatives (j, alpha_j) of a nest of av_j * alpha_j^p * exp(mu * V_j) *)
Definition bsum (aval uval : Z -> R) (p mu : R) (al : list (Z * R)) : R :=
  Rsum (fun ja => aval (fst ja) * Rpower (snd ja) p * exp (mu * uval (fst ja))) al.

Lemma bsum_nonneg aval uval p mu al : (forall k, 0 <= aval k) -> 0 <= bsum aval uval p mu al.
Proof.
  intros Hn. apply Rsum_nonneg. intros [j a] _. simpl.
  apply Rmult_le_pos; [apply Rmult_le_pos; [apply Hn|left; apply exp_pos]|left; apply exp_pos].
Qed.

Lemma bsum_pos aval uval p mu al i a :
  (forall k, 0 <= aval k) -> In (i, a) al -> aval i <> 0 -> 0 < bsum aval uval p mu al.
Proof.
  intros Hn Hin Ha. unfold bsum. apply (Rsum_pos _ al (i, a)); [|assumption|].
  - intros [j b] _. simpl.
    apply Rmult_le_pos; [apply Rmult_le_pos; [apply Hn|left; apply exp_pos]|left; apply exp_pos].
  - simpl. pose proof (Hn i). apply Rmult_lt_0_compat; [apply Rmult_lt_0_compat; [lra|apply exp_pos]|apply exp_pos].
Qed.

Lemma bsum_shift aval uval p mu al c :
  bsum aval (fun k => uval k + c) p mu al = exp (mu * c) * bsum aval uval p mu al.
Proof.
  unfold bsum. rewrite <- Rsum_scal. apply Rsum_ext. intros [j a] _. simpl.
  replace (mu * (uval j + c)) with (mu * c + mu * uval j) by ring. rewrite exp_plus. ring.
Qed.

Lemma Rpower_exp a z : Rpower (exp a) z = exp (z * a).
Proof. unfold Rpower. now rewrite ln_exp. Qed.

Lemma xsum_app_R (l1 l2 : list xval) a b :
  xsum l1 = XR a -> xsum l2 = XR b -> xsum (l1 ++ l2) = XR (a + b).
Proof.
  revert a. unfold xsum. induction l1 as [|x l1 IH]; simpl; intros a H1 H2.
  - injection H1 as <-. rewrite H2. f_equal. ring.
  - destruct x as [r| |]; simpl in H1; try discriminate.
    destruct (fold_right (lift2 Rplus) (XR 0) l1) as [s| |] eqn:E; simpl in H1; try discriminate.
    injection H1 as <-. rewrite (IH s eq_refl H2). simpl. f_equal. ring.
Qed.

(* ------------------------------------------------------------------ inversion of the builders *)
Lemma cn_make_list util a n : cn_make util a = Ok n -> cn_list n = cn_arg_nests a.
Proof.
  destruct a; simpl; intros H; apply bind_Ok in H as (al & _ & [= <-]); reflexivity.
Qed.

Lemma cn_make_keys util util' a : keys util = keys util' -> cn_make util a = cn_make util' a.
Proof. intros H. destruct a; simpl; rewrite ?H; reflexivity. Qed.

Lemma cn_guard_inv util av n zd :
  cn_guard util av n zd = Ok tt ->
  incl (List.concat (map (fun m => keys (cn_alpha m)) (cn_list n))) (keys util) /\
  (match av with None => True
   | Some a => incl (List.concat (map (fun m => keys (cn_alpha m)) (cn_list n))) (keys a) end).
Proof.
  unfold cn_guard.
  destruct (check_validity n); [|discriminate].
  destruct (forallb _ (cn_list n)); [|discriminate].
  destruct (subsetZ _ (keys util)) eqn:E1; [|discriminate].
  destruct (match av with None => true | Some a => _ end) eqn:E2; [|discriminate].
  intros _. split; [now apply subsetZ_incl|].
  destruct av; [now apply subsetZ_incl|exact I].
Qed.

Lemma logcnl_inv util av a ch t :
  logcnl util av a ch = Ok t ->
  exists n H,
    cn_make util a = Ok n /\
    cn_guard util av n (zd_plain (map cn_param (cn_list n))) = Ok tt /\
    mev_h util (cn_log_gi util av n) = Ok H /\
    forall ch', logcnl util av a ch' = Ok (loglogit_e H av ch') /\
                cnl util av a ch' = Ok (EUn Exp (loglogit_e H av ch')).
Proof.
  unfold logcnl at 1. intros E.
  apply bind_Ok in E as (n & En & E). apply bind_Ok in E as ([] & Eg & E).
  unfold logmev_f in E. apply bind_Ok in E as (H & EH & _).
  exists n, H. repeat split; try assumption;
    unfold cnl, logcnl; rewrite En; simpl; rewrite Eg; simpl;
    unfold logmev_f; rewrite EH; reflexivity.
Qed.

Lemma in_concat_alpha (l : list cnest) m i :
  In m l -> In i (keys (cn_alpha m)) -> In i (List.concat (map (fun m => keys (cn_alpha m)) l)).
Proof.
  intros Hm Hi. apply in_concat. exists (keys (cn_alpha m)). split; [|assumption].
  apply (in_map (fun m => keys (cn_alpha m))). assumption.
Qed.

Section Cnl.
  Variable Phi : R -> R.
  Variable en : env.
  Notation ev e := (evalX Phi e en).
  Notation pvx p := (pvX Phi en p).
  Variable U : dict expr.
  Variable av : avail.
  Variables aval uval : Z -> R.
  Let pU := pe_dict U.

  Hypothesis Hav : av_ok Phi en av aval.
  Hypothesis Hnn : forall k, 0 <= aval k.
  (* cnl.py multiplies by the availabilities: every utility is read *)
  Hypothesis HU : forall k e, In (k, e) U -> ev e = XR (uval k).

  Definition alR (p : pv) : R := xR (pvx p).
  Definition alphasR (m : cnest) : list (Z * R) := map (fun jp => (fst jp, alR (snd jp))) (cn_alpha m).
  Definition em_of (mu_m : pv) : R := xR (pvx (pdiv (psub p_one mu_m) mu_m)).

  Definition cnest_ok (m : cnest) : Prop :=
    (exists mu, pvx (cn_param m) = XR mu /\ mu <> 0) /\
    (forall j p, In (j, p) (cn_alpha m) -> exists a, pvx p = XR a /\ 0 < a).
  Definition cnests_ok (l : list cnest) : Prop := forall m, In m l -> cnest_ok m.

  Lemma em_def mu_m mu : pvx mu_m = XR mu -> mu <> 0 -> pvx (pdiv (psub p_one mu_m) mu_m) = XR (em_of mu_m).
  Proof.
    intros H Hz. destruct (pvX_psub_def Phi en p_one mu_m 1 mu (pvx_one Phi en) H) as [q Hq].
    destruct (pvX_pdiv_def Phi en _ mu_m q mu Hq H Hz) as [z Hz'].
    unfold em_of. now rewrite Hz'.
  Qed.

  Lemma em_exact mu_m mu : nl_exact mu_m -> pvx mu_m = XR mu -> mu <> 0 -> em_of mu_m = (1 - mu) / mu.
  Proof.
    intros He H Hz. unfold em_of. destruct mu_m as [d|e].
    - destruct He as (_ & _ & _ & E4). unfold pvX in *. simpl in *. injection H as <-.
      unfold p_one, psub, pdiv. simpl. now rewrite E4.
    - assert (Hq : ev (EBin Minus (ENumD d_one) e) = XR (1 - mu))
        by exact (pvX_psub_PE_r Phi en p_one e 1 mu (pvx_one Phi en) H).
      change (pdiv (psub p_one (PE e)) (PE e)) with (pdiv (PE (EBin Minus (ENumD d_one) e)) (PE e)).
      rewrite (pvX_pdiv_PE_l Phi en _ (PE e) (1 - mu) mu Hq H Hz). reflexivity.
  Qed.

  Lemma getd_pU_all k : In k (keys U) -> exists e, getd p_zero pU k = PE e /\ ev e = XR (uval k).
  Proof.
    intros Hk. destruct (getd_pU U k Hk) as (e & He & Hin). exists e. split; [exact He|now apply (HU k e)].
  Qed.

  (* one term of biosum, with exponent [pw] on alpha *)
  Lemma ev_bio_term (pw mu_m : pv) pwv mu j (a : expr) al :
    pvx pw = XR pwv -> pvx mu_m = XR mu -> ev a = XR al -> 0 < al ->
    In j (keys U) -> (match av with None => True | Some a => In j (keys a) end) ->
    ev (let pwe := epow a pw in
        let ex := EUn Exp (to_e (pmul mu_m (getd p_zero pU j))) in
        match av with
        | None => EBin Times pwe ex
        | Some av => EBin Times (to_e (pmul (getd p_zero av j) (PE pwe))) ex
        end)
    = XR (aval j * Rpower al pwv * exp (mu * uval j)).
  Proof.
    intros Hpw Hmu Ha Hpos Hj Hcov. cbv zeta.
    destruct (getd_pU_all j Hj) as (e & -> & He).
    assert (Hex : ev (EUn Exp (to_e (pmul mu_m (PE e)))) = XR (exp (mu * uval j))).
    { rewrite ev_un_exp. change (ev (to_e (pmul mu_m (PE e)))) with (pvx (pmul mu_m (PE e))).
      rewrite (pvX_pmul_PE Phi en mu_m e mu (uval j) Hmu He). reflexivity. }
    pose proof (ev_epow Phi en a pw al pwv Ha Hpos Hpw) as Hp.
    destruct av as [a0|].
    - destruct (get_keys_In a0 j Hcov) as (p & Hg & Hin). unfold getd. rewrite Hg.
      rewrite pmul_PE_r. cbn [to_e]. rewrite !ev_bin, Hp, Hex.
      pose proof (Hav j p Hin) as Hp0. rewrite Hp0. reflexivity.
    - rewrite ev_bin, Hp, Hex. pose proof (Hav j) as Hp0. simpl in Hp0. rewrite Hp0. simpl. f_equal. ring.
  Qed.

  Lemma ev_cn_biosum m mu :
    cnest_ok m -> pvx (cn_param m) = XR mu ->
    incl (keys (cn_alpha m)) (keys U) ->
    (match av with None => True | Some a => incl (keys (cn_alpha m)) (keys a) end) ->
    ev (cn_biosum pU av m) = XR (bsum aval uval mu mu (alphasR m)).
  Proof.
    intros [_ Hal] Hmu Hinc Hcov. unfold cn_biosum, cn_alpha_e, dmap, alphasR, bsum.
    rewrite map_map, Rsum_map.
    apply (ev_multsum Phi en _ (fun jp => aval (fst jp) * Rpower (alR (snd jp)) mu * exp (mu * uval (fst jp)))).
    intros [j p] Hin. cbn [fst snd].
    destruct (Hal j p Hin) as (a & Hp & Hpos).
    assert (Hjk : In j (keys (cn_alpha m))) by now apply (In_keys _ j p).
    assert (HalR : alR p = a) by (unfold alR; now rewrite Hp). rewrite HalR.
    apply (ev_bio_term (cn_param m) (cn_param m) mu mu j (to_e p) a); try assumption.
    - now apply Hinc.
    - destruct av; [now apply Hcov|exact I].
  Qed.

  (* value of one term of G_i *)
  Definition cterm (m : cnest) (i : Z) (al : R) : R :=
    Rpower al (muR Phi en (cn_param m)) * exp (c1_of Phi en (cn_param m) * uval i)
    * Rpower (bsum aval uval (muR Phi en (cn_param m)) (muR Phi en (cn_param m)) (alphasR m))
             (em_of (cn_param m)).

  Lemma ev_cn_term m i p a :
    cnest_ok m -> In (i, p) (cn_alpha m) -> pvx p = XR a -> 0 < a -> aval i <> 0 ->
    incl (keys (cn_alpha m)) (keys U) ->
    (match av with None => True | Some a => incl (keys (cn_alpha m)) (keys a) end) ->
    ev (cn_term pU av m i (to_e p)) = XR (cterm m i a).
  Proof.
    intros Hok Hin Hp Hpos Ha Hinc Hcov. pose proof Hok as [(mu & Hmu & Hnz) Hal].
    unfold cn_term, cterm.
    assert (Hmu' : muR Phi en (cn_param m) = mu) by (unfold muR; now rewrite Hmu). rewrite Hmu'.
    assert (Hik : In i (keys U)) by (apply Hinc; now apply (In_keys _ i p)).
    destruct (getd_pU_all i Hik) as (e & -> & He).
    pose proof (ev_cn_biosum m mu Hok Hmu Hinc Hcov) as HB.
    assert (HBpos : 0 < bsum aval uval mu mu (alphasR m)).
    { apply (bsum_pos aval uval mu mu (alphasR m) i (alR p)); [assumption| |assumption].
      unfold alphasR. apply (in_map (fun jp => (fst jp, alR (snd jp))) _ (i, p)). assumption. }
    rewrite !ev_bin.
    rewrite (ev_epow Phi en (to_e p) (cn_param m) a mu Hp Hpos Hmu).
    rewrite (ev_epow Phi en _ _ _ (em_of (cn_param m)) HB HBpos (em_def _ mu Hmu Hnz)).
    rewrite ev_un_exp. change (ev (to_e (pmul ?x (PE e)))) with (pvx (pmul x (PE e))).
    rewrite (pvX_pmul_PE Phi en _ e _ (uval i) (c1_def Phi en _ mu Hmu) He). reflexivity.
  Qed.

  Definition Gsum (l : list cnest) (i : Z) : R :=
    Rsum (fun m => match get (cn_alpha m) i with
                   | Some p => cterm m i (alR p)
                   | None => 0
                   end) l.

  Lemma cterm_pos m i a : 0 < cterm m i a.
  Proof.
    unfold cterm. apply Rmult_lt_0_compat; [apply Rmult_lt_0_compat|]; try apply exp_pos.
  Qed.

  Lemma Gsum_pos l i m p : In m l -> get (cn_alpha m) i = Some p -> 0 < Gsum l i.
  Proof.
    intros Hm Hg. unfold Gsum. apply (Rsum_pos _ l m); [|assumption|].
    - intros m' _. destruct (get (cn_alpha m') i); [left; apply cterm_pos|lra].
    - rewrite Hg. apply cterm_pos.
  Qed.

  Lemma ev_gi_terms (l : list cnest) i :
    cnests_ok l -> aval i <> 0 ->
    incl (List.concat (map (fun m => keys (cn_alpha m)) l)) (keys U) ->
    (match av with None => True
     | Some a => incl (List.concat (map (fun m => keys (cn_alpha m)) l)) (keys a) end) ->
    xsum (map (fun e => ev e)
            (flat_map (fun m => match get (cn_alpha_e m) i with
                                | Some a => [cn_term pU av m i a]
                                | None => []
                                end) l))
    = XR (Gsum l i).
  Proof.
    intros Hok Ha. induction l as [|m l IH]; intros Hinc Hcov; [reflexivity|].
    simpl flat_map. rewrite map_app. unfold Gsum. simpl Rsum.
    assert (Hincm : incl (keys (cn_alpha m)) (keys U)).
    { intros j Hj. apply Hinc. simpl. apply in_or_app. now left. }
    assert (Hcovm : match av with None => True | Some a => incl (keys (cn_alpha m)) (keys a) end).
    { destruct av; [|exact I]. intros j Hj. apply Hcov. simpl. apply in_or_app. now left. }
    apply xsum_app_R.
    - unfold cn_alpha_e. rewrite get_dmap. destruct (get (cn_alpha m) i) as [p|] eqn:Eg;
        cbn [option_map map]; unfold xsum; cbn [fold_right]; [|reflexivity].
      pose proof (get_In _ _ _ Eg) as Hin.
      destruct (Hok m (or_introl eq_refl)) as [Hm Hal]. destruct (Hal i p Hin) as (a & Hp & Hpos).
      rewrite (ev_cn_term m i p a (Hok m (or_introl eq_refl)) Hin Hp Hpos Ha Hincm Hcovm).
      assert (HalR : alR p = a) by (unfold alR; now rewrite Hp). rewrite HalR. simpl. f_equal. ring.
    - apply IH.
      + intros m' Hm'. apply Hok. now right.
      + intros j Hj. apply Hinc. simpl. apply in_or_app. now right.
      + destruct av; [|exact I]. intros j Hj. apply Hcov. simpl. apply in_or_app. now right.
  Qed.

  (* ---------------- the values h_i = V_i + ln G_i *)
  Definition hcn (n : cn_nests) (i : Z) : R :=
    if memZ i (cn_alone n) then uval i + 0 else uval i + ln (Gsum (cn_list n) i).

  Lemma cn_gi_terms_nonempty n i g :
    cn_gi_terms pU av n i = g -> g <> [] ->
    exists m p, In m (cn_list n) /\ get (cn_alpha m) i = Some p.
  Proof.
    unfold cn_gi_terms. intros <-. induction (cn_list n) as [|m l IH]; simpl; [tauto|].
    unfold cn_alpha_e at 1. rewrite get_dmap.
    destruct (get (cn_alpha m) i) as [p|] eqn:Eg; simpl.
    - intros _. exists m, p. split; [now left|assumption].
    - intros H. destruct (IH H) as (m' & p & Hm & Hp). exists m', p. split; [now right|assumption].
  Qed.

  Lemma cn_H_values n zd H :
    cn_guard pU av n zd = Ok tt ->
    cnests_ok (cn_list n) ->
    mev_h pU (cn_log_gi pU av n) = Ok H ->
    forall k h, In (k, h) H -> aval k <> 0 -> pvx h = XR (hcn n k).
  Proof.
    intros Hg Hok EH k h Hin Ha.
    destruct (cn_guard_inv _ _ _ _ Hg) as (Hinc & Hcov). unfold pU in Hinc. rewrite keys_pU in Hinc.
    destruct (mev_h_inv _ _ _ EH) as [_ Hi]. destruct (Hi k h Hin) as (v & g & Hv & Hgk & ->).
    apply In_pU in Hv as (e & -> & Hke). pose proof (HU k e Hke) as Hev.
    unfold cn_log_gi in Hgk. unfold hcn. destruct (memZ k (cn_alone n)).
    - injection Hgk as <-. unfold padd, p_zero. cbn [to_e]. unfold pvX. cbn [to_e].
      rewrite ev_bin, Hev. simpl. now rewrite D2R_zero.
    - destruct (cn_gi_terms pU av n k) as [|t ts] eqn:Et; [discriminate|].
      injection Hgk as <-. rewrite padd_PE_r. unfold pvX. cbn [to_e].
      rewrite ev_bin, Hev, ev_un_logzero.
      destruct (cn_gi_terms_nonempty n k (t :: ts) Et) as (m & p & Hm & Hp); [discriminate|].
      pose proof (Gsum_pos (cn_list n) k m p Hm Hp) as Hpos.
      assert (Hs : ev (EMultSum (t :: ts)) = XR (Gsum (cn_list n) k)).
      { rewrite <- Et. unfold cn_gi_terms.
        change (ev (EMultSum ?l)) with (xsum (map (fun e => ev e) l)).
        now apply ev_gi_terms. }
      rewrite Hs. simpl.
      assert (Hnz : Rnz (Gsum (cn_list n) k) = true) by (apply Rnz_true; lra).
      rewrite Hnz, Rltb'_true by assumption. reflexivity.
  Qed.

  Lemma logcnl_value a ch0 t0 :
    av_covers av (keys U) -> cnests_ok (cn_arg_nests a) ->
    logcnl pU av a ch0 = Ok t0 ->
    exists n zd, cn_make pU a = Ok n /\ cn_guard pU av n zd = Ok tt /\
      forall i ch, In i (keys U) -> pvx ch = XR (IZR i) ->
        exists l, logcnl pU av a ch = Ok l /\ cnl pU av a ch = Ok (EUn Exp l) /\
          ev l = (if Rnz (aval i) then XR (hcn n i - ln (den aval (hcn n) (keys U))) else XmInf) /\
          ev (EUn Exp l) = XR (logit_p aval (hcn n) (keys U) i).
  Proof.
    intros Hcov Hok E. destruct (logcnl_inv _ _ _ _ _ E) as (n & H & En & Eg & EH & Hall).
    exists n, (zd_plain (map cn_param (cn_list n))). split; [assumption|]. split; [assumption|].
    intros i ch Hi Hch. destruct (Hall ch) as [E1 E2].
    exists (loglogit_e H av ch). split; [assumption|]. split; [assumption|].
    rewrite <- (cn_make_list _ _ _ En) in Hok.
    pose proof (cn_H_values n _ H Eg Hok EH) as HH.
    assert (Hk : keys pU = keys U) by apply keys_dmap.
    rewrite <- Hk in Hcov, Hi |- *.
    destruct (logmev_f_value Phi en pU (cn_log_gi pU av n) av aval (hcn n) H EH Hav Hcov HH i ch Hi Hch)
      as (_ & V1 & V2).
    split; assumption.
  Qed.
End Cnl.

Section CnlThms.
  Variable Phi : R -> R.
  Variable en : env.
  Notation ev e := (evalX Phi e en).
  Notation pvx p := (pvX Phi en p).

  (* T05f (+ T05b, T05c, T05h for the cross-nested logit) *)
  Theorem cnl_proper (U : dict expr) (av : avail) (a : cn_arg) (aval uval : Z -> R) :
    av_ok Phi en av aval -> av_covers av (keys U) -> (forall k, 0 <= aval k) ->
    (forall k e, In (k, e) U -> ev e = XR (uval k)) ->
    cnests_ok Phi en (cn_arg_nests a) ->
    (exists k, In k (keys U) /\ aval k <> 0) ->
    (exists ch0 t0, logcnl (pe_dict U) av a ch0 = Ok t0) ->
    exists p,
      (forall i ch, In i (keys U) -> pvx ch = XR (IZR i) ->
         exists l, logcnl (pe_dict U) av a ch = Ok l /\
                   cnl (pe_dict U) av a ch = Ok (EUn Exp l) /\
                   ev (EUn Exp l) = XR (p i) /\
                   ev l = (if Rnz (aval i) then XR (ln (p i)) else XmInf)) /\
      is_distribution (keys U) aval p.
  Proof.
    intros Hav Hcov Hnn HU Hok Hex (ch0 & t0 & E).
    destruct (logcnl_value Phi en U av aval uval Hav Hnn HU a ch0 t0 Hcov Hok E) as (n & zd & En & Eg & Hall).
    exists (logit_p aval (hcn Phi en aval uval n) (keys U)). split; [|now apply logit_distribution].
    intros i ch Hi Hch. destruct (Hall i ch Hi Hch) as (l & E1 & E2 & V1 & V2).
    exists l. repeat split; try assumption. rewrite V1.
    destruct (Rnz (aval i)) eqn:Ea; [|reflexivity].
    rewrite ln_logit_p by (try apply Rnz_true; assumption). reflexivity.
  Qed.

  Definition cnests_exact (l : list cnest) : Prop := forall m, In m l -> nl_exact (cn_param m).

  Lemma cterm_shift aval uval c m i p :
    (forall k, 0 <= aval k) -> cnest_ok Phi en m -> nl_exact (cn_param m) ->
    In (i, p) (cn_alpha m) -> aval i <> 0 ->
    forall a, cterm Phi en aval (fun k => uval k + c) m i a = cterm Phi en aval uval m i a.
  Proof.
    intros Hnn [(mu & Hmu & Hnz) Hal] Hex Hin Ha a. unfold cterm.
    assert (Hmu' : muR Phi en (cn_param m) = mu) by (unfold muR; now rewrite Hmu). rewrite Hmu'.
    rewrite bsum_shift.
    assert (HB : 0 < bsum aval uval mu mu (alphasR Phi en m)).
    { apply (bsum_pos aval uval mu mu _ i (alR Phi en p)); [assumption| |assumption].
      unfold alphasR. apply (in_map (fun jp => (fst jp, alR Phi en (snd jp))) _ (i, p)). assumption. }
    rewrite <- Rpower_mult_distr by (try apply exp_pos; assumption).
    rewrite Rpower_exp.
    rewrite (c1_exact Phi en _ mu Hex Hmu), (em_exact Phi en _ mu Hex Hmu Hnz).
    replace ((mu - 1) * (uval i + c)) with ((mu - 1) * uval i + (mu - 1) * c) by ring.
    rewrite exp_plus.
    replace ((1 - mu) / mu * (mu * c)) with (- ((mu - 1) * c)) by (field; assumption).
    rewrite exp_Ropp. pose proof (exp_pos ((mu - 1) * c)). field. lra.
  Qed.

  Lemma hcn_shift aval uval n c i :
    (forall k, 0 <= aval k) ->
    cnests_ok Phi en (cn_list n) -> cnests_exact (cn_list n) -> aval i <> 0 ->
    hcn Phi en aval (fun k => uval k + c) n i = hcn Phi en aval uval n i + c.
  Proof.
    intros Hnn Hok Hex Ha. unfold hcn. destruct (memZ i (cn_alone n)); [ring|].
    assert (HG : Gsum Phi en aval (fun k => uval k + c) (cn_list n) i = Gsum Phi en aval uval (cn_list n) i).
    { unfold Gsum. apply Rsum_ext. intros m Hm.
      destruct (get (cn_alpha m) i) as [p|] eqn:Eg; [|reflexivity].
      apply (cterm_shift aval uval c m i p); auto. now apply get_In. }
    rewrite HG. ring.
  Qed.

  (* T05g for the cross-nested logit *)
  Theorem cnl_shift_invariant (U U' : dict expr) (av : avail) (a : cn_arg) (aval uval : Z -> R) (c : R) :
    av_ok Phi en av aval -> av_covers av (keys U) -> (forall k, 0 <= aval k) -> keys U' = keys U ->
    (forall k e, In (k, e) U -> ev e = XR (uval k)) ->
    (forall k e, In (k, e) U' -> ev e = XR (uval k + c)) ->
    cnests_ok Phi en (cn_arg_nests a) -> cnests_exact (cn_arg_nests a) ->
    forall i ch l l', In i (keys U) -> pvx ch = XR (IZR i) ->
      logcnl (pe_dict U) av a ch = Ok l -> logcnl (pe_dict U') av a ch = Ok l' ->
      ev l' = ev l /\ ev (EUn Exp l') = ev (EUn Exp l).
  Proof.
    intros Hav Hcov Hnn Hk HU HU' Hok Hex i ch l l' Hi Hch E E'.
    destruct (logcnl_value Phi en U av aval uval Hav Hnn HU a ch l Hcov Hok E) as (n & zd & En & Eg & Hall).
    assert (Hcov' : av_covers av (keys U')) by now rewrite Hk.
    destruct (logcnl_value Phi en U' av aval (fun k => uval k + c) Hav Hnn HU' a ch l' Hcov' Hok E')
      as (n' & zd' & En' & Eg' & Hall').
    assert (n' = n).
    { rewrite (cn_make_keys (pe_dict U') (pe_dict U)) in En' by (unfold pe_dict; now rewrite !keys_dmap).
      congruence. }
    subst n'.
    destruct (Hall i ch Hi Hch) as (l1 & F1 & _ & V1 & V2).
    rewrite <- Hk in Hi. destruct (Hall' i ch Hi Hch) as (l2 & F2 & _ & W1 & W2). rewrite Hk in *.
    assert (l1 = l) by congruence. assert (l2 = l') by congruence. subst l1 l2.
    pose proof (cn_make_list _ _ _ En) as Hl. rewrite <- Hl in Hok, Hex.
    assert (Hs : forall k, In k (keys U) -> aval k <> 0 ->
                 hcn Phi en aval (fun k0 => uval k0 + c) n k = hcn Phi en aval uval n k + c).
    { intros k _ Ha. now apply hcn_shift. }
    rewrite V1, V2, W1, W2. split.
    - destruct (Rnz (aval i)) eqn:Ea; [|reflexivity]. f_equal.
      apply Rnz_true in Ea. exact (loglogit_shift aval _ _ (keys U) c i Hs Hi Ea).
    - f_equal. exact (logit_p_shift aval _ _ (keys U) c i Hs Hi).
  Qed.
End CnlThms.

(* ------------------------------------------------------------------ T06b: degenerate cnl = nested *)
Lemma cn_induced_nests a : nn_arg_nests (cn_induced a) = map cn_induced_nest (cn_arg_nests a).
Proof. destruct a; simpl; [|reflexivity]. rewrite !map_map. reflexivity. Qed.

Lemma cn_induced_make util a n :
  cn_make util a = Ok n ->
  exists n', nl_make util (cn_induced a) = Ok n' /\
             nl_list n' = map cn_induced_nest (cn_list n) /\ nl_alone n' = cn_alone n.
Proof.
  destruct a as [l|cs ns]; simpl; intros H; apply bind_Ok in H as (al & Hal & [= <-]).
  - rewrite !map_map in *. simpl in *. rewrite Hal. simpl. eexists. split; [reflexivity|].
    simpl. split; [|reflexivity]. rewrite !map_map. reflexivity.
  - rewrite map_map. simpl. rewrite Hal. simpl. eexists. split; [reflexivity|]. split; reflexivity.
Qed.

Lemma find_map {A B} (f : A -> B) (P : B -> bool) l :
  find P (map f l) = option_map f (find (fun x => P (f x)) l).
Proof. induction l as [|a l IH]; simpl; [reflexivity|]. destruct (P (f a)); [reflexivity|assumption]. Qed.

Lemma disjointZ_spec a b x : disjointZ a b = true -> In x a -> ~ In x b.
Proof.
  unfold disjointZ. rewrite forallb_forall. intros H Hx Hb. specialize (H x Hx).
  apply negb_true_iff in H. apply memZ_false in H. tauto.
Qed.

Section Degenerate.
  Variable Phi : R -> R.
  Variable en : env.
  Notation ev e := (evalX Phi e en).
  Notation pvx p := (pvX Phi en p).
  Variables aval uval : Z -> R.
  Hypothesis H01 : forall k, aval k = 0 \/ aval k = 1.

  Lemma bsum_ones m mu :
    (forall j p, In (j, p) (cn_alpha m) -> pvx p = XR 1) ->
    bsum aval uval mu mu (alphasR Phi en m) = nsum aval uval mu (keys (cn_alpha m)).
  Proof.
    intros H1. unfold bsum, nsum, alphasR, keys. rewrite !Rsum_map. apply Rsum_ext.
    intros [j p] Hin. cbn [fst snd].
    assert (Hp : alR Phi en p = 1) by (unfold alR; now rewrite (H1 j p Hin)). rewrite Hp.
    assert (HR : Rpower 1 mu = 1) by (unfold Rpower; rewrite ln_1, Rmult_0_r; apply exp_0). rewrite HR.
    destruct (H01 j) as [E|E]; rewrite E.
    - rewrite Rnz_0. ring.
    - rewrite Rnz_1. ring.
  Qed.

  (* G_i has exactly one term when the nests are pairwise disjoint *)
  Lemma Gsum_single (l : list cnest) i m0 :
    pairwise_disjoint (map (fun m => keys (cn_alpha m)) l) = true ->
    find (fun m => memZ i (keys (cn_alpha m))) l = Some m0 ->
    exists p0, get (cn_alpha m0) i = Some p0 /\
               Gsum Phi en aval uval l i = cterm Phi en aval uval m0 i (alR Phi en p0).
  Proof.
    induction l as [|m l IH]; simpl; [discriminate|]. intros Hd Hf.
    apply andb_true_iff in Hd as [Hd1 Hd2].
    destruct (memZ i (keys (cn_alpha m))) eqn:Em.
    - injection Hf as <-. apply memZ_In in Em. destruct (get_keys _ _ Em) as [p0 Hp0].
      exists p0. split; [assumption|]. unfold Gsum. simpl. rewrite Hp0.
      rewrite Rsum_zero; [ring|]. intros m' Hm'.
      rewrite forallb_forall in Hd1.
      assert (Hdis : disjointZ (keys (cn_alpha m)) (keys (cn_alpha m')) = true).
      { apply Hd1. apply (in_map (fun m => keys (cn_alpha m))). assumption. }
      rewrite (get_None (cn_alpha m') i); [reflexivity|]. now apply (disjointZ_spec _ _ i Hdis).
    - destruct (IH Hd2 Hf) as (p0 & Hp0 & HG). exists p0. split; [assumption|].
      unfold Gsum in *. simpl. rewrite (get_None (cn_alpha m) i) by now apply memZ_false. rewrite HG. ring.
  Qed.

  Lemma ln_cterm_one m i mu :
    pvx (cn_param m) = XR mu -> mu <> 0 -> nl_exact (cn_param m) ->
    0 < bsum aval uval mu mu (alphasR Phi en m) ->
    ln (cterm Phi en aval uval m i 1)
    = c1_of Phi en (cn_param m) * uval i
      + c2_of Phi en (cn_param m) * ln (bsum aval uval mu mu (alphasR Phi en m)).
  Proof.
    intros Hmu Hnz Hex HB. unfold cterm.
    assert (Hmu' : muR Phi en (cn_param m) = mu) by (unfold muR; now rewrite Hmu). rewrite Hmu'.
    assert (HR : Rpower 1 mu = 1) by (unfold Rpower; rewrite ln_1, Rmult_0_r; apply exp_0). rewrite HR.
    rewrite Rmult_1_l.
    rewrite ln_mult by (try apply exp_pos). rewrite ln_exp.
    unfold Rpower at 1. rewrite ln_exp.
    rewrite (em_exact Phi en _ mu Hex Hmu Hnz), (c2_exact Phi en _ mu Hex Hmu Hnz). field. assumption.
  Qed.
End Degenerate.

Section DegenerateThm.
  Variable Phi : R -> R.
  Variable en : env.
  Notation ev e := (evalX Phi e en).
  Notation pvx p := (pvX Phi en p).

  Theorem cnl_degenerate_is_nested (U : dict expr) (av : avail) (a : cn_arg) (aval uval : Z -> R) :
    av_ok Phi en av aval -> av_covers av (keys U) ->
    (forall k, aval k = 0 \/ aval k = 1) ->
    (forall k e, In (k, e) U -> ev e = XR (uval k)) ->
    (forall m, In m (cn_arg_nests a) ->
       (exists mu, pvx (cn_param m) = XR mu /\ mu <> 0) /\ nl_exact (cn_param m) /\
       (forall j p, In (j, p) (cn_alpha m) -> pvx p = XR 1)) ->
    forall i ch l l', In i (keys U) -> pvx ch = XR (IZR i) ->
      logcnl (pe_dict U) av a ch = Ok l -> lognested (pe_dict U) av (cn_induced a) ch = Ok l' ->
      ev l = ev l' /\ ev (EUn Exp l) = ev (EUn Exp l').
  Proof.
    intros Hav Hcov H01 HU Hn i ch l l' Hi Hch E E'.
    assert (Hnn : forall k, 0 <= aval k) by (intros k; destruct (H01 k) as [->| ->]; lra).
    assert (Hok : cnests_ok Phi en (cn_arg_nests a)).
    { intros m Hm. destruct (Hn m Hm) as (Hmu & _ & H1). split; [assumption|].
      intros j p Hin. exists 1. split; [now apply (H1 j p)|lra]. }
    assert (Hok' : nests_ok Phi en (nn_arg_nests (cn_induced a))).
    { rewrite cn_induced_nests. intros m' Hm'. apply in_map_iff in Hm' as (m & <- & Hm).
      destruct (Hn m Hm) as (Hmu & _). exact Hmu. }
    assert (HUw : forall k e, In (k, e) U -> aval k <> 0 -> ev e = XR (uval k)) by (intros; now apply HU).
    destruct (logcnl_value Phi en U av aval uval Hav Hnn HU a ch l Hcov Hok E) as (n & zd & En & Eg & Hall).
    destruct (lognested_value Phi en U av aval uval Hav HUw (cn_induced a) ch l' Hcov Hok' E')
      as (n' & zd' & En' & Eg' & Hall').
    destruct (cn_induced_make _ _ _ En) as (n'' & En'' & Hl' & Hal').
    assert (n'' = n') by congruence. subst n''.
    destruct (Hall i ch Hi Hch) as (l1 & F1 & _ & V1 & V2).
    destruct (Hall' i ch Hi Hch) as (l2 & F2 & _ & W1 & W2).
    assert (l1 = l) by congruence. assert (l2 = l') by congruence. subst l1 l2.
    pose proof (cn_make_list _ _ _ En) as Hl.
    destruct (nl_guard_inv _ _ _ _ Eg') as (Hpart & _ & _).
    destruct (check_partition_inv _ Hpart) as (_ & Hial & Hpd).
    rewrite Hl', map_map in Hpd, Hial. simpl in Hpd, Hial. rewrite Hal' in Hial.
    (* lognested succeeded: every alternative of U is alone or in a nest *)
    destruct (lognested_inv _ _ _ _ _ E') as (n3 & H3 & En3 & _ & EH3 & _).
    assert (n3 = n') by congruence. subst n3.
    assert (Hs : forall k, In k (keys U) -> aval k <> 0 ->
                 hcn Phi en aval uval n k = hnl Phi en aval uval n' k + 0).
    { intros k Hk Ha. unfold hcn, hnl, find_nest. rewrite Hl', find_map. simpl.
      destruct (memZ k (cn_alone n)) eqn:Eal.
      - (* alone: in no nest *)
        destruct (find (fun x => memZ k (keys (cn_alpha x))) (cn_list n)) as [m0|] eqn:Ef; simpl; [|ring].
        exfalso. apply find_some in Ef as [Hm0 Hk0]. apply memZ_In in Hk0, Eal.
        rewrite forallb_forall in Hial.
        assert (Hd : disjointZ (keys (cn_alpha m0)) (cn_alone n) = true).
        { apply Hial. apply (in_map (fun m => keys (cn_alpha m))). assumption. }
        exact (disjointZ_spec _ _ k Hd Hk0 Eal).
      - destruct (find (fun x => memZ k (keys (cn_alpha x))) (cn_list n)) as [m0|] eqn:Ef; simpl.
        + destruct (Gsum_single Phi en aval uval (cn_list n) k m0 Hpd Ef) as (p0 & Hp0 & HG).
          rewrite HG. apply find_some in Ef as [Hm0 Hk0]. rewrite Hl in Hm0.
          destruct (Hn m0 Hm0) as ((mu & Hmu & Hnz) & Hex & H1).
          assert (Hp1 : alR Phi en p0 = 1) by (unfold alR; rewrite (H1 k p0 (get_In _ _ _ Hp0)); reflexivity).
          rewrite Hp1.
          assert (HB : 0 < bsum aval uval mu mu (alphasR Phi en m0)).
          { apply (bsum_pos aval uval mu mu _ k (alR Phi en p0)); [assumption| |assumption].
            unfold alphasR. apply (in_map (fun jp => (fst jp, alR Phi en (snd jp))) _ (k, p0)).
            now apply get_In. }
          rewrite (ln_cterm_one Phi en aval uval m0 k mu Hmu Hnz Hex HB).
          assert (Hmu' : muR Phi en (cn_param m0) = mu) by (unfold muR; now rewrite Hmu).
          rewrite Hmu', (bsum_ones Phi en aval uval H01 m0 mu H1). ring.
        + (* neither alone nor in a nest: lognested would have raised KeyError *)
          exfalso. destruct (mev_h_inv _ _ _ EH3) as [Hk3 Hin3].
          assert (Hk' : In k (keys H3)).
          { rewrite Hk3. unfold pe_dict. now rewrite keys_dmap. }
          destruct (get_keys_In H3 k Hk') as (h & _ & Hkh).
          destruct (Hin3 k h Hkh) as (v & g & _ & Hg & _).
          unfold nl_log_gi, find_nest in Hg. rewrite Hl', find_map in Hg.
          cbn [cn_induced_nest nn_alts] in Hg. rewrite Ef in Hg. cbn [option_map] in Hg.
          rewrite Hal', Eal in Hg. discriminate. }
    rewrite V1, V2, W1, W2. split.
    - destruct (Rnz (aval i)) eqn:Ea; [|reflexivity]. f_equal.
      apply Rnz_true in Ea. exact (loglogit_shift aval _ _ (keys U) 0 i Hs Hi Ea).
    - f_equal. exact (logit_p_shift aval _ _ (keys U) 0 i Hs Hi).
  Qed.
End DegenerateThm.

(* ------------------------------------------------------------------ explicit scale mu *)
Lemma logcnlmu_inv util av a ch mu t :
  logcnlmu util av a ch mu = Ok t ->
  exists n H,
    cn_make util a = Ok n /\
    cn_guard util av n (zd_cn_mu mu (map cn_param (cn_list n))) = Ok tt /\
    mev_h util (cn_log_gi_mu util av mu n) = Ok H /\
    forall ch', logcnlmu util av a ch' mu = Ok (loglogit_e H av ch') /\
                cnlmu util av a ch' mu = Ok (EUn Exp (loglogit_e H av ch')).
Proof.
  unfold logcnlmu at 1. intros E.
  apply bind_Ok in E as (n & En & E). apply bind_Ok in E as ([] & Eg & E).
  destruct (subsetZ (cn_alone n) (keys util)) eqn:Es; [|discriminate].
  unfold logmev_f in E. apply bind_Ok in E as (H & EH & _).
  exists n, H. repeat split; try assumption;
    unfold cnlmu, logcnlmu; rewrite En; simpl; rewrite Eg; simpl; rewrite Es;
    unfold logmev_f; rewrite EH; reflexivity.
Qed.

Section CnlMu.
  Variable Phi : R -> R.
  Variable en : env.
  Notation ev e := (evalX Phi e en).
  Notation pvx p := (pvX Phi en p).
  Variable U : dict expr.
  Variable av : avail.
  Variables aval uval : Z -> R.
  Let pU := pe_dict U.
  Variable mu : pv.
  Variable muv : R.

  Hypothesis Hav : av_ok Phi en av aval.
  Hypothesis Hnn : forall k, 0 <= aval k.
  Hypothesis HU : forall k e, In (k, e) U -> ev e = XR (uval k).
  Hypothesis Hmu : pvx mu = XR muv.
  Hypothesis Hmupos : 0 < muv.

  Definition pa_of (mu_m : pv) : R := xR (pvx (pdiv mu_m mu)).

  Lemma pa_def mu_m mm : pvx mu_m = XR mm -> pvx (pdiv mu_m mu) = XR (pa_of mu_m).
  Proof.
    intros H. assert (Hz : muv <> 0) by lra.
    destruct (pvX_pdiv_def Phi en mu_m mu mm muv H Hmu Hz) as [z Hz']. unfold pa_of. now rewrite Hz'.
  Qed.

  Lemma ev_cn_biosum_mu m mm :
    cnest_ok Phi en m -> pvx (cn_param m) = XR mm ->
    incl (keys (cn_alpha m)) (keys U) ->
    (match av with None => True | Some a => incl (keys (cn_alpha m)) (keys a) end) ->
    ev (cn_biosum_mu pU av mu m) = XR (bsum aval uval (pa_of (cn_param m)) mm (alphasR Phi en m)).
  Proof.
    intros [_ Hal] Hmm Hinc Hcov. unfold cn_biosum_mu, cn_alpha_e, dmap, alphasR, bsum.
    rewrite map_map, Rsum_map.
    apply (ev_multsum Phi en _ (fun jp => aval (fst jp) * Rpower (alR Phi en (snd jp)) (pa_of (cn_param m))
                                          * exp (mm * uval (fst jp)))).
    intros [j p] Hin. cbn [fst snd].
    destruct (Hal j p Hin) as (a & Hp & Hpos).
    assert (Hjk : In j (keys (cn_alpha m))) by now apply (In_keys _ j p).
    assert (HalR : alR Phi en p = a) by (unfold alR; now rewrite Hp). rewrite HalR.
    apply (ev_bio_term Phi en U av aval uval Hav HU (pdiv (cn_param m) mu) (cn_param m) _ mm j (to_e p) a);
      try assumption.
    - now apply (pa_def _ mm).
    - now apply Hinc.
    - destruct av; [now apply Hcov|exact I].
  Qed.

  Definition cterm_mu (m : cnest) (i : Z) (al : R) : R :=
    Rpower al (pa_of (cn_param m)) * exp (c1_of Phi en (cn_param m) * uval i)
    * Rpower (bsum aval uval (pa_of (cn_param m)) (muR Phi en (cn_param m)) (alphasR Phi en m))
             (c2mu_of Phi en mu (cn_param m)).

  Lemma ev_cn_term_mu m i p a :
    cnest_ok Phi en m -> In (i, p) (cn_alpha m) -> pvx p = XR a -> 0 < a -> aval i <> 0 ->
    incl (keys (cn_alpha m)) (keys U) ->
    (match av with None => True | Some a => incl (keys (cn_alpha m)) (keys a) end) ->
    ev (cn_term_mu pU av mu m i (to_e p)) = XR (cterm_mu m i a).
  Proof.
    intros Hok Hin Hp Hpos Ha Hinc Hcov. pose proof Hok as [(mm & Hmm & Hnz) Hal].
    unfold cn_term_mu, cterm_mu.
    assert (Hmm' : muR Phi en (cn_param m) = mm) by (unfold muR; now rewrite Hmm). rewrite Hmm'.
    assert (Hik : In i (keys U)) by (apply Hinc; now apply (In_keys _ i p)).
    destruct (getd_pU_all Phi en U uval HU i Hik) as (e & He' & He). fold pU in He'. rewrite He'.
    pose proof (ev_cn_biosum_mu m mm Hok Hmm Hinc Hcov) as HB.
    assert (HBpos : 0 < bsum aval uval (pa_of (cn_param m)) mm (alphasR Phi en m)).
    { apply (bsum_pos aval uval _ mm (alphasR Phi en m) i (alR Phi en p)); [assumption| |assumption].
      unfold alphasR. apply (in_map (fun jp => (fst jp, alR Phi en (snd jp))) _ (i, p)). assumption. }
    rewrite !ev_bin.
    rewrite (ev_epow Phi en (to_e p) _ a _ Hp Hpos (pa_def _ mm Hmm)).
    rewrite (ev_epow Phi en _ _ _ _ HB HBpos (c2mu_def Phi en mu _ muv mm Hmu Hmm Hnz)).
    rewrite ev_un_exp. change (ev (to_e (pmul ?x (PE e)))) with (pvx (pmul x (PE e))).
    rewrite (pvX_pmul_PE Phi en _ e _ (uval i) (c1_def Phi en _ mm Hmm) He). reflexivity.
  Qed.

  Definition Gsum_mu (l : list cnest) (i : Z) : R :=
    Rsum (fun m => match get (cn_alpha m) i with
                   | Some p => cterm_mu m i (alR Phi en p)
                   | None => 0
                   end) l.

  Lemma cterm_mu_pos m i a : 0 < cterm_mu m i a.
  Proof.
    unfold cterm_mu. apply Rmult_lt_0_compat; [apply Rmult_lt_0_compat|]; try apply exp_pos.
  Qed.

  Lemma Gsum_mu_pos l i m p : In m l -> get (cn_alpha m) i = Some p -> 0 < Gsum_mu l i.
  Proof.
    intros Hm Hg. unfold Gsum_mu. apply (Rsum_pos _ l m); [|assumption|].
    - intros m' _. destruct (get (cn_alpha m') i); [left; apply cterm_mu_pos|lra].
    - rewrite Hg. apply cterm_mu_pos.
  Qed.

  Lemma ev_gi_terms_mu (l : list cnest) i :
    cnests_ok Phi en l -> aval i <> 0 ->
    incl (List.concat (map (fun m => keys (cn_alpha m)) l)) (keys U) ->
    (match av with None => True
     | Some a => incl (List.concat (map (fun m => keys (cn_alpha m)) l)) (keys a) end) ->
    xsum (map (fun e => ev e)
            (flat_map (fun m => match get (cn_alpha_e m) i with
                                | Some a => [cn_term_mu pU av mu m i a]
                                | None => []
                                end) l))
    = XR (Gsum_mu l i).
  Proof.
    intros Hok Ha. induction l as [|m l IH]; intros Hinc Hcov; [reflexivity|].
    simpl flat_map. rewrite map_app. unfold Gsum_mu. simpl Rsum.
    assert (Hincm : incl (keys (cn_alpha m)) (keys U)).
    { intros j Hj. apply Hinc. simpl. apply in_or_app. now left. }
    assert (Hcovm : match av with None => True | Some a => incl (keys (cn_alpha m)) (keys a) end).
    { destruct av; [|exact I]. intros j Hj. apply Hcov. simpl. apply in_or_app. now left. }
    apply xsum_app_R.
    - unfold cn_alpha_e. rewrite get_dmap. destruct (get (cn_alpha m) i) as [p|] eqn:Eg;
        cbn [option_map map]; unfold xsum; cbn [fold_right]; [|reflexivity].
      pose proof (get_In _ _ _ Eg) as Hin.
      destruct (Hok m (or_introl eq_refl)) as [Hm Hal]. destruct (Hal i p Hin) as (a & Hp & Hpos).
      rewrite (ev_cn_term_mu m i p a (Hok m (or_introl eq_refl)) Hin Hp Hpos Ha Hincm Hcovm).
      assert (HalR : alR Phi en p = a) by (unfold alR; now rewrite Hp). rewrite HalR. simpl. f_equal. ring.
    - apply IH.
      + intros m' Hm'. apply Hok. now right.
      + intros j Hj. apply Hinc. simpl. apply in_or_app. now right.
      + destruct av; [|exact I]. intros j Hj. apply Hcov. simpl. apply in_or_app. now right.
  Qed.

  Definition hcn_mu (n : cn_nests) (i : Z) : R :=
    if memZ i (cn_alone n) then uval i + (ln muv + cm1_of Phi en mu * uval i)
    else uval i + ln (muv * Gsum_mu (cn_list n) i).

  Lemma cn_gi_terms_mu_nonempty n i g :
    cn_gi_terms_mu pU av mu n i = g -> g <> [] ->
    exists m p, In m (cn_list n) /\ get (cn_alpha m) i = Some p.
  Proof.
    unfold cn_gi_terms_mu. intros <-. induction (cn_list n) as [|m l IH]; simpl; [tauto|].
    unfold cn_alpha_e at 1. rewrite get_dmap.
    destruct (get (cn_alpha m) i) as [p|] eqn:Eg; simpl.
    - intros _. exists m, p. split; [now left|assumption].
    - intros H. destruct (IH H) as (m' & p & Hm & Hp). exists m', p. split; [now right|assumption].
  Qed.

  Lemma cn_H_values_mu n zd H :
    cn_guard pU av n zd = Ok tt ->
    cnests_ok Phi en (cn_list n) ->
    mev_h pU (cn_log_gi_mu pU av mu n) = Ok H ->
    forall k h, In (k, h) H -> aval k <> 0 -> pvx h = XR (hcn_mu n k).
  Proof.
    intros Hg Hok EH k h Hin Ha.
    destruct (cn_guard_inv _ _ _ _ Hg) as (Hinc & Hcov). unfold pU in Hinc. rewrite keys_pU in Hinc.
    destruct (mev_h_inv _ _ _ EH) as [_ Hi]. destruct (Hi k h Hin) as (v & g & Hv & Hgk & ->).
    apply In_pU in Hv as (e & -> & Hke). pose proof (HU k e Hke) as Hev.
    destruct (getd_pU_all Phi en U uval HU k (In_keys U k e Hke)) as (e' & Eg' & Hev').
    fold pU in Eg'.
    unfold cn_log_gi_mu in Hgk. rewrite Eg' in Hgk. unfold hcn_mu. destruct (memZ k (cn_alone n)).
    - injection Hgk as <-. rewrite ?pmul_PE_r, ?padd_PE_r.
      pose proof (cm1_def Phi en _ muv Hmu) as C1.
      unfold pvX in *. cbn [to_e].
      rewrite !ev_bin, (ev_log_mu Phi en mu muv Hmu Hmupos), Hev, Hev', C1. reflexivity.
    - destruct (cn_gi_terms_mu pU av mu n k) as [|t ts] eqn:Et; [discriminate|].
      injection Hgk as <-. rewrite ?pmul_PE_r, ?padd_PE_r. unfold pvX in *. cbn [to_e].
      rewrite ev_bin, Hev, ev_un_log, ev_bin, Hmu.
      destruct (cn_gi_terms_mu_nonempty n k (t :: ts) Et) as (m & p & Hm & Hp); [discriminate|].
      pose proof (Gsum_mu_pos (cn_list n) k m p Hm Hp) as Hpos.
      assert (Hs : ev (EMultSum (t :: ts)) = XR (Gsum_mu (cn_list n) k)).
      { rewrite <- Et. unfold cn_gi_terms_mu.
        change (ev (EMultSum ?l)) with (xsum (map (fun e => ev e) l)).
        now apply ev_gi_terms_mu. }
      rewrite Hs. simpl.
      rewrite Rltb'_true by (apply Rmult_lt_0_compat; assumption). reflexivity.
  Qed.

  Lemma logcnlmu_value a ch0 t0 :
    av_covers av (keys U) -> cnests_ok Phi en (cn_arg_nests a) ->
    logcnlmu pU av a ch0 mu = Ok t0 ->
    exists n zd, cn_make pU a = Ok n /\ cn_guard pU av n zd = Ok tt /\
      forall i ch, In i (keys U) -> pvx ch = XR (IZR i) ->
        exists l, logcnlmu pU av a ch mu = Ok l /\ cnlmu pU av a ch mu = Ok (EUn Exp l) /\
          ev l = (if Rnz (aval i) then XR (hcn_mu n i - ln (den aval (hcn_mu n) (keys U))) else XmInf) /\
          ev (EUn Exp l) = XR (logit_p aval (hcn_mu n) (keys U) i).
  Proof.
    intros Hcov Hok E. destruct (logcnlmu_inv _ _ _ _ _ _ E) as (n & H & En & Eg & EH & Hall).
    exists n, (zd_cn_mu mu (map cn_param (cn_list n))). split; [assumption|]. split; [assumption|].
    intros i ch Hi Hch. destruct (Hall ch) as [E1 E2].
    exists (loglogit_e H av ch). split; [assumption|]. split; [assumption|].
    rewrite <- (cn_make_list _ _ _ En) in Hok.
    pose proof (cn_H_values_mu n _ H Eg Hok EH) as HH.
    assert (Hk : keys pU = keys U) by apply keys_dmap.
    rewrite <- Hk in Hcov, Hi |- *.
    destruct (logmev_f_value Phi en pU (cn_log_gi_mu pU av mu n) av aval (hcn_mu n) H EH Hav Hcov HH i ch Hi Hch)
      as (_ & V1 & V2).
    split; assumption.
  Qed.
End CnlMu.

Section CnlMuThms.
  Variable Phi : R -> R.
  Variable en : env.
  Notation ev e := (evalX Phi e en).
  Notation pvx p := (pvX Phi en p).

  (* T05f for cnlmu / logcnlmu *)
  Theorem cnlmu_proper (U : dict expr) (av : avail) (a : cn_arg) (mu : pv) (muv : R) (aval uval : Z -> R) :
    av_ok Phi en av aval -> av_covers av (keys U) -> (forall k, 0 <= aval k) ->
    (forall k e, In (k, e) U -> ev e = XR (uval k)) ->
    pvx mu = XR muv -> 0 < muv ->
    cnests_ok Phi en (cn_arg_nests a) ->
    (exists k, In k (keys U) /\ aval k <> 0) ->
    (exists ch0 t0, logcnlmu (pe_dict U) av a ch0 mu = Ok t0) ->
    exists p,
      (forall i ch, In i (keys U) -> pvx ch = XR (IZR i) ->
         exists l, logcnlmu (pe_dict U) av a ch mu = Ok l /\
                   cnlmu (pe_dict U) av a ch mu = Ok (EUn Exp l) /\
                   ev (EUn Exp l) = XR (p i) /\
                   ev l = (if Rnz (aval i) then XR (ln (p i)) else XmInf)) /\
      is_distribution (keys U) aval p.
  Proof.
    intros Hav Hcov Hnn HU Hmu Hpos Hok Hex (ch0 & t0 & E).
    destruct (logcnlmu_value Phi en U av aval uval mu muv Hav Hnn HU Hmu Hpos a ch0 t0 Hcov Hok E)
      as (n & zd & En & Eg & Hall).
    exists (logit_p aval (hcn_mu Phi en aval uval mu muv n) (keys U)). split; [|now apply logit_distribution].
    intros i ch Hi Hch. destruct (Hall i ch Hi Hch) as (l & E1 & E2 & V1 & V2).
    exists l. repeat split; try assumption. rewrite V1.
    destruct (Rnz (aval i)) eqn:Ea; [|reflexivity].
    rewrite ln_logit_p by (try apply Rnz_true; assumption). reflexivity.
  Qed.

  Lemma pa_exact mu mu_m x y :
    mu_exact mu mu_m -> pvx mu = XR x -> pvx mu_m = XR y -> x <> 0 -> pa_of Phi en mu mu_m = y / x.
  Proof.
    intros He Hx Hy Hz. unfold pa_of. destruct mu as [a|e], mu_m as [d|e'].
    - destruct He as [_ E2]. unfold pvX in *. simpl in *. injection Hx as <-. injection Hy as <-.
      unfold pdiv. simpl. now rewrite E2.
    - rewrite (pvX_pdiv_PE_l Phi en e' (PN a) y x Hy Hx Hz). reflexivity.
    - rewrite (pvX_pdiv_PE_r Phi en (PN d) e y x Hy Hx Hz). reflexivity.
    - rewrite (pvX_pdiv_PE_l Phi en e' (PE e) y x Hy Hx Hz). reflexivity.
  Qed.

  Definition cmus_exact (mu : pv) (l : list cnest) : Prop :=
    mu1_exact mu /\ forall m, In m l -> mu_exact mu (cn_param m).

  (* T06c (cross-nested): explicit scale mu = 1 *)
  Theorem cnlmu_one (U : dict expr) (av : avail) (a : cn_arg) (mu : pv) (aval uval : Z -> R) :
    av_ok Phi en av aval -> av_covers av (keys U) -> (forall k, 0 <= aval k) ->
    (forall k e, In (k, e) U -> ev e = XR (uval k)) ->
    pvx mu = XR 1 ->
    cnests_ok Phi en (cn_arg_nests a) -> cnests_exact (cn_arg_nests a) -> cmus_exact mu (cn_arg_nests a) ->
    forall i ch l l', In i (keys U) -> pvx ch = XR (IZR i) ->
      logcnlmu (pe_dict U) av a ch mu = Ok l -> logcnl (pe_dict U) av a ch = Ok l' ->
      ev l = ev l' /\ ev (EUn Exp l) = ev (EUn Exp l').
  Proof.
    intros Hav Hcov Hnn HU Hmu Hok Hex Hmx i ch l l' Hi Hch E E'.
    assert (Hpos : 0 < 1) by lra.
    destruct (logcnlmu_value Phi en U av aval uval mu 1 Hav Hnn HU Hmu Hpos a ch l Hcov Hok E)
      as (n & zd & En & Eg & Hall).
    destruct (logcnl_value Phi en U av aval uval Hav Hnn HU a ch l' Hcov Hok E') as (n' & zd' & En' & Eg' & Hall').
    assert (n' = n) by congruence. subst n'.
    destruct (Hall i ch Hi Hch) as (l1 & F1 & _ & V1 & V2).
    destruct (Hall' i ch Hi Hch) as (l2 & F2 & _ & W1 & W2).
    assert (l1 = l) by congruence. assert (l2 = l') by congruence. subst l1 l2.
    pose proof (cn_make_list _ _ _ En) as Hl. rewrite <- Hl in Hok, Hex, Hmx.
    destruct Hmx as [Hm1 Hme].
    assert (Hs : forall k, In k (keys U) -> aval k <> 0 ->
                 hcn_mu Phi en aval uval mu 1 n k = hcn Phi en aval uval n k + 0).
    { intros k _ Ha. unfold hcn_mu, hcn. destruct (memZ k (cn_alone n)).
      - rewrite (cm1_exact Phi en mu 1 Hm1 Hmu), ln_1. ring.
      - assert (HG : Gsum_mu Phi en aval uval mu (cn_list n) k = Gsum Phi en aval uval (cn_list n) k).
        { unfold Gsum_mu, Gsum. apply Rsum_ext. intros m Hm.
          destruct (get (cn_alpha m) k) as [p|]; [|reflexivity].
          destruct (Hok m Hm) as [(mm & Hmm & Hnz) _].
          unfold cterm_mu, cterm.
          assert (H10 : (1:R) <> 0) by lra.
          rewrite (pa_exact mu _ 1 mm (Hme m Hm) Hmu Hmm H10).
          rewrite (c2mu_exact Phi en mu _ 1 mm (Hme m Hm) Hmu Hmm Hnz).
          rewrite (em_exact Phi en _ mm (Hex m Hm) Hmm Hnz).
          assert (Hmm' : muR Phi en (cn_param m) = mm) by (unfold muR; now rewrite Hmm). rewrite Hmm'.
          replace (mm / 1) with mm by field. replace (1 / mm - 1) with ((1 - mm) / mm) by (field; assumption).
          reflexivity. }
        rewrite HG, Rmult_1_l. ring. }
    rewrite V1, V2, W1, W2. split.
    - destruct (Rnz (aval i)) eqn:Ea; [|reflexivity]. f_equal.
      apply Rnz_true in Ea. exact (loglogit_shift aval _ _ (keys U) 0 i Hs Hi Ea).
    - f_equal. exact (logit_p_shift aval _ _ (keys U) 0 i Hs Hi).
  Qed.

  Lemma cterm_mu_shift aval uval mu muv c m i p :
    (forall k, 0 <= aval k) -> pvx mu = XR muv -> 0 < muv ->
    cnest_ok Phi en m -> nl_exact (cn_param m) -> mu_exact mu (cn_param m) ->
    In (i, p) (cn_alpha m) -> aval i <> 0 ->
    forall a, cterm_mu Phi en aval (fun k => uval k + c) mu m i a
              = exp ((muv - 1) * c) * cterm_mu Phi en aval uval mu m i a.
  Proof.
    intros Hnn Hmu Hpos [(mm & Hmm & Hnz) Hal] Hex Hme Hin Ha a. unfold cterm_mu.
    assert (Hmm' : muR Phi en (cn_param m) = mm) by (unfold muR; now rewrite Hmm). rewrite Hmm'.
    rewrite bsum_shift.
    assert (HB : 0 < bsum aval uval (pa_of Phi en mu (cn_param m)) mm (alphasR Phi en m)).
    { apply (bsum_pos aval uval _ mm _ i (alR Phi en p)); [assumption| |assumption].
      unfold alphasR. apply (in_map (fun jp => (fst jp, alR Phi en (snd jp))) _ (i, p)). assumption. }
    rewrite <- Rpower_mult_distr by (try apply exp_pos; assumption).
    rewrite Rpower_exp.
    rewrite (c1_exact Phi en _ mm Hex Hmm), (c2mu_exact Phi en mu _ muv mm Hme Hmu Hmm Hnz).
    replace ((mm - 1) * (uval i + c)) with ((mm - 1) * uval i + (mm - 1) * c) by ring.
    rewrite exp_plus.
    replace ((muv / mm - 1) * (mm * c)) with ((muv - 1) * c + - ((mm - 1) * c)) by (field; assumption).
    rewrite exp_plus, exp_Ropp. pose proof (exp_pos ((mm - 1) * c)). field. lra.
  Qed.

  Lemma hcn_mu_shift aval uval mu muv n c i :
    (forall k, 0 <= aval k) -> pvx mu = XR muv -> 0 < muv ->
    cnests_ok Phi en (cn_list n) -> cnests_exact (cn_list n) -> cmus_exact mu (cn_list n) ->
    aval i <> 0 ->
    (memZ i (cn_alone n) = false -> exists m p, In m (cn_list n) /\ get (cn_alpha m) i = Some p) ->
    hcn_mu Phi en aval (fun k => uval k + c) mu muv n i = hcn_mu Phi en aval uval mu muv n i + muv * c.
  Proof.
    intros Hnn Hmu Hpos Hok Hex [Hm1 Hme] Ha Hne. unfold hcn_mu. destruct (memZ i (cn_alone n)) eqn:Eal.
    - rewrite (cm1_exact Phi en mu muv Hm1 Hmu). ring.
    - assert (HG : Gsum_mu Phi en aval (fun k => uval k + c) mu (cn_list n) i
                   = exp ((muv - 1) * c) * Gsum_mu Phi en aval uval mu (cn_list n) i).
      { unfold Gsum_mu. rewrite <- Rsum_scal. apply Rsum_ext. intros m Hm.
        destruct (get (cn_alpha m) i) as [p|] eqn:Eg; [|ring].
        apply (cterm_mu_shift aval uval mu muv c m i p); auto. now apply get_In. }
      rewrite HG. destruct (Hne eq_refl) as (m & p & Hm & Hp).
      pose proof (Gsum_mu_pos Phi en aval uval mu (cn_list n) i m p Hm Hp) as HGp.
      replace (muv * (exp ((muv - 1) * c) * Gsum_mu Phi en aval uval mu (cn_list n) i))
        with (exp ((muv - 1) * c) * (muv * Gsum_mu Phi en aval uval mu (cn_list n) i)) by ring.
      rewrite ln_mult by (try apply exp_pos; apply Rmult_lt_0_compat; assumption).
      rewrite ln_exp. ring.
  Qed.

  (* T05g for the cross-nested logit with explicit scale *)
  Theorem cnlmu_shift_invariant (U U' : dict expr) (av : avail) (a : cn_arg) (mu : pv) (muv : R)
      (aval uval : Z -> R) (c : R) :
    av_ok Phi en av aval -> av_covers av (keys U) -> (forall k, 0 <= aval k) -> keys U' = keys U ->
    (forall k e, In (k, e) U -> ev e = XR (uval k)) ->
    (forall k e, In (k, e) U' -> ev e = XR (uval k + c)) ->
    pvx mu = XR muv -> 0 < muv ->
    cnests_ok Phi en (cn_arg_nests a) -> cnests_exact (cn_arg_nests a) -> cmus_exact mu (cn_arg_nests a) ->
    forall i ch l l', In i (keys U) -> pvx ch = XR (IZR i) ->
      logcnlmu (pe_dict U) av a ch mu = Ok l -> logcnlmu (pe_dict U') av a ch mu = Ok l' ->
      ev l' = ev l /\ ev (EUn Exp l') = ev (EUn Exp l).
  Proof.
    intros Hav Hcov Hnn Hk HU HU' Hmu Hpos Hok Hex Hmx i ch l l' Hi Hch E E'.
    destruct (logcnlmu_value Phi en U av aval uval mu muv Hav Hnn HU Hmu Hpos a ch l Hcov Hok E)
      as (n & zd & En & Eg & Hall).
    assert (Hcov' : av_covers av (keys U')) by now rewrite Hk.
    destruct (logcnlmu_value Phi en U' av aval (fun k => uval k + c) mu muv Hav Hnn HU' Hmu Hpos a ch l' Hcov' Hok E')
      as (n' & zd' & En' & Eg' & Hall').
    assert (n' = n).
    { rewrite (cn_make_keys (pe_dict U') (pe_dict U)) in En' by (unfold pe_dict; now rewrite !keys_dmap).
      congruence. }
    subst n'.
    destruct (Hall i ch Hi Hch) as (l1 & F1 & _ & V1 & V2).
    rewrite <- Hk in Hi. destruct (Hall' i ch Hi Hch) as (l2 & F2 & _ & W1 & W2). rewrite Hk in *.
    assert (l1 = l) by congruence. assert (l2 = l') by congruence. subst l1 l2.
    pose proof (cn_make_list _ _ _ En) as Hl. rewrite <- Hl in Hok, Hex, Hmx.
    (* the builder succeeded: every alternative is alone or has a term *)
    destruct (logcnlmu_inv _ _ _ _ _ _ E) as (n3 & H3 & En3 & _ & EH3 & _).
    assert (n3 = n) by congruence. subst n3.
    assert (Hne : forall k, In k (keys U) -> memZ k (cn_alone n) = false ->
                  exists m p, In m (cn_list n) /\ get (cn_alpha m) k = Some p).
    { intros k Hkk Eal. destruct (mev_h_inv _ _ _ EH3) as [Hk3 Hin3].
      assert (Hk' : In k (keys H3)) by (rewrite Hk3; unfold pe_dict; now rewrite keys_dmap).
      destruct (get_keys_In H3 k Hk') as (h & _ & Hkh).
      destruct (Hin3 k h Hkh) as (v & g & _ & Hg & _).
      unfold cn_log_gi_mu in Hg. rewrite Eal in Hg.
      destruct (cn_gi_terms_mu (pe_dict U) av mu n k) as [|t ts] eqn:Et; [discriminate|].
      apply (cn_gi_terms_mu_nonempty U av mu n k (t :: ts) Et). discriminate. }
    assert (Hs : forall k, In k (keys U) -> aval k <> 0 ->
                 hcn_mu Phi en aval (fun k0 => uval k0 + c) mu muv n k
                 = hcn_mu Phi en aval uval mu muv n k + muv * c).
    { intros k Hkk Ha. apply hcn_mu_shift; auto. }
    rewrite V1, V2, W1, W2. split.
    - destruct (Rnz (aval i)) eqn:Ea; [|reflexivity]. f_equal.
      apply Rnz_true in Ea. exact (loglogit_shift aval _ _ (keys U) (muv * c) i Hs Hi Ea).
    - f_equal. exact (logit_p_shift aval _ _ (keys U) (muv * c) i Hs Hi).
  Qed.
End CnlMuThms.
