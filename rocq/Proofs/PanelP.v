(* C09 -- proofs about the panel bookkeeping model (Model/Panel.v). *)
From Coq Require Import ZArith List Bool Lia ZifyBool Sorted Permutation Reals.
From BV Require Import Model.Panel.
Import ListNotations.
Open Scope Z_scope.

(* ================================================================= sorting *)
Section Sort.
  Context {A : Type} (key : A -> Z).

  Lemma insert_by_perm x l : Permutation (x :: l) (insert_by key x l).
  Proof.
    induction l as [|y tl IH]; simpl; [reflexivity|].
    destruct (key x <=? key y); [reflexivity|].
    eapply perm_trans; [apply perm_swap|]. constructor. exact IH.
  Qed.

  Lemma sort_by_perm l : Permutation l (sort_by key l).
  Proof.
    induction l as [|x tl IH]; simpl; [constructor|].
    eapply perm_trans; [|apply insert_by_perm]. constructor. exact IH.
  Qed.

  Lemma insert_by_sorted x l :
    StronglySorted Z.le (map key l) -> StronglySorted Z.le (map key (insert_by key x l)).
  Proof.
    induction l as [|y tl IH]; simpl; intros H.
    - repeat constructor.
    - inversion H as [|? ? Hs Hf]; subst.
      destruct (key x <=? key y) eqn:E.
      + simpl. constructor; [exact H|]. constructor; [lia|].
        eapply Forall_impl; [|exact Hf]. simpl. intros; lia.
      + simpl. constructor; [apply IH; exact Hs|].
        eapply Permutation_Forall.
        * apply Permutation_map. apply insert_by_perm.
        * simpl. constructor; [lia|exact Hf].
  Qed.

  Lemma sort_by_sorted l : StronglySorted Z.le (map key (sort_by key l)).
  Proof.
    induction l as [|x tl IH]; simpl; [constructor|]. apply insert_by_sorted. exact IH.
  Qed.
End Sort.

Lemma ss_perm_eq : forall l l' : list Z,
  StronglySorted Z.le l -> StronglySorted Z.le l' -> Permutation l l' -> l = l'.
Proof.
  induction l as [|a l IH]; intros l' H H' P.
  - apply Permutation_nil in P. subst. reflexivity.
  - destruct l' as [|b l'].
    + apply Permutation_sym, Permutation_nil in P. discriminate.
    + inversion H as [|? ? Hs Hf]; subst. inversion H' as [|? ? Hs' Hf']; subst.
      assert (Hab : a = b).
      { assert (I1 : In b (a :: l)) by (eapply Permutation_in; [apply Permutation_sym; exact P|left; reflexivity]).
        assert (I2 : In a (b :: l')) by (eapply Permutation_in; [exact P|left; reflexivity]).
        rewrite Forall_forall in Hf, Hf'.
        destruct I1 as [->|I1]; [reflexivity|]. destruct I2 as [->|I2]; [reflexivity|].
        specialize (Hf _ I1). specialize (Hf' _ I2). lia. }
      subst b. f_equal. apply IH; [exact Hs|exact Hs'|]. eapply Permutation_cons_inv. exact P.
Qed.

Lemma sort_ids_sorted ids : StronglySorted Z.le (sort_ids ids).
Proof. unfold sort_ids. pose proof (sort_by_sorted (fun z : Z => z) ids) as H. rewrite map_id in H. exact H. Qed.

Lemma sort_ids_perm ids : Permutation ids (sort_ids ids).
Proof. apply sort_by_perm. Qed.

(* the sorted identifier column does not depend on the (unstable) sorting algorithm *)
Lemma sorted_ids_unique ids s : Permutation ids s -> StronglySorted Z.le s -> s = sort_ids ids.
Proof.
  intros P H. apply ss_perm_eq; [exact H|apply sort_ids_sorted|].
  eapply perm_trans; [apply Permutation_sym; exact P|apply sort_ids_perm].
Qed.

Lemma sorted_version_ids {A} (t st : list (Z * A)) :
  sorted_version t st -> map fst st = sort_ids (ids_of t).
Proof.
  intros [P H]. apply sorted_ids_unique; [|exact H]. unfold ids_of. apply Permutation_map. exact P.
Qed.

Lemma sorted_table_version {A} (t : list (Z * A)) : sorted_version t (sorted_table t).
Proof. split; [apply sort_by_perm|apply sort_by_sorted]. Qed.

(* ================================================================= count_number_of_groups *)
(* the number of maximal runs of equal consecutive values *)
Fixpoint changes (prev : Z) (l : list Z) : nat :=
  match l with
  | [] => O
  | x :: tl => Nat.add (if x =? prev then O else 1%nat) (changes x tl)
  end.
Definition runs (l : list Z) : nat := match l with [] => O | x :: tl => S (changes x tl) end.

Lemma count_true_changes : forall tl x, count_true (neq_next (x :: tl)) = changes x tl.
Proof.
  induction tl as [|y tl IH]; intros x; [reflexivity|].
  change (neq_next (x :: y :: tl)) with (negb (y =? x) :: neq_next (y :: tl)).
  cbn [changes]. rewrite <- IH. unfold count_true. cbn [filter].
  destruct (y =? x); reflexivity.
Qed.

Lemma count_groups_runs ids : count_groups ids = runs ids.
Proof.
  destruct ids as [|x tl]; [reflexivity|].
  unfold count_groups, runs. rewrite count_true_changes. reflexivity.
Qed.

Lemma runs_cons2 x y tl : runs (x :: y :: tl) = Nat.add (if y =? x then O else 1%nat) (runs (y :: tl)).
Proof. simpl. destruct (y =? x); lia. Qed.

(* ---- number of distinct values *)
Definition distinct (l : list Z) : nat := List.length (nodup Z.eq_dec l).

Lemma distinct_cons x l :
  distinct (x :: l) = if in_dec Z.eq_dec x l then distinct l else S (distinct l).
Proof. unfold distinct. simpl. destruct (in_dec Z.eq_dec x l); reflexivity. Qed.

Lemma distinct_perm l l' : Permutation l l' -> distinct l = distinct l'.
Proof.
  intros P. unfold distinct. apply Permutation_length. apply NoDup_Permutation; try apply NoDup_nodup.
  intros x. rewrite !nodup_In. split; apply Permutation_in; [exact P|apply Permutation_sym; exact P].
Qed.

Lemma runs_sorted l : StronglySorted Z.le l -> runs l = distinct l.
Proof.
  induction l as [|x tl IH]; intros H; [reflexivity|].
  inversion H as [|? ? Hs Hf]; subst. specialize (IH Hs).
  destruct tl as [|y tl']; [reflexivity|].
  rewrite runs_cons2, distinct_cons, IH.
  rewrite Forall_forall in Hf.
  destruct (Z.eqb_spec y x) as [->|Hne].
  - destruct (in_dec Z.eq_dec x (x :: tl')) as [_|n]; [reflexivity|exfalso; apply n; left; reflexivity].
  - destruct (in_dec Z.eq_dec x (y :: tl')) as [i|_]; [|reflexivity].
    exfalso. inversion Hs as [|? ? Hs' Hf']; subst. rewrite Forall_forall in Hf'.
    assert (x <= y) by (apply Hf; left; reflexivity).
    destruct i as [i|i]; [lia|]. specialize (Hf' _ i). lia.
Qed.

(* ---- contiguity, recursive form *)
Fixpoint contig (l : list Z) : Prop :=
  match l with
  | [] => True
  | x :: tl => (In x tl -> hd_error tl = Some x) /\ contig tl
  end.

Lemma distinct_runs : forall l,
  (distinct l <= runs l)%nat /\ (runs l = distinct l <-> contig l).
Proof.
  induction l as [|x tl IH]; [unfold distinct; simpl; split; [lia|tauto]|].
  destruct tl as [|y tl'].
  - unfold distinct; simpl. split; [lia|]. split; [intros _; split; [intros []|exact I]|reflexivity].
  - destruct IH as [IHle IHeq].
    rewrite runs_cons2, distinct_cons.
    cbn [contig] in *. cbn [hd_error].
    destruct (Z.eqb_spec y x) as [->|Hne].
    + destruct (in_dec Z.eq_dec x (x :: tl')) as [_|n]; [|exfalso; apply n; left; reflexivity].
      split; [lia|]. rewrite Nat.add_0_l. rewrite IHeq. split; [intros H; split; [reflexivity|exact H]|intros [_ H]; exact H].
    + destruct (in_dec Z.eq_dec x (y :: tl')) as [i|n].
      * split; [lia|]. split; [lia|]. intros [H _]. specialize (H i). congruence.
      * split; [lia|]. split.
        -- intros H. split; [intros i; contradiction|]. apply IHeq. lia.
        -- intros [_ H]. apply IHeq in H. lia.
Qed.

Lemma contig_tail x tl : contiguous (x :: tl) -> contiguous tl.
Proof.
  intros H i j k Hijk Hk E. apply (H (S i) (S j) (S k)); simpl; try lia; try exact E.
Qed.

Lemma contig_contiguous l : contig l <-> contiguous l.
Proof.
  induction l as [|x tl IH].
  - split; [intros _ i j k _ Hk; simpl in Hk; lia|intros _; exact I].
  - cbn [contig]. split.
    + intros [Hhd Hc]. apply IH in Hc. intros i j k Hijk Hk E.
      destruct i as [|i].
      * (* the first element reappears at k: the head of the tail is x, and tl is contiguous *)
        destruct j as [|j]; [lia|]. destruct k as [|k]; [lia|]. cbn [nth] in *. simpl in Hk.
        assert (Hin : In x tl) by (rewrite E; apply nth_In; lia).
        specialize (Hhd Hin). destruct tl as [|y tl']; [discriminate|]. injection Hhd as ->.
        destruct j as [|j]; [reflexivity|].
        apply (Hc O (S j) k); [lia|lia|]. cbn [nth]. exact E.
      * destruct j as [|j]; [lia|]. destruct k as [|k]; [lia|]. cbn [nth] in *. simpl in Hk.
        apply (Hc i j k); [lia|lia|exact E].
    + intros H. split; [|apply IH; eapply contig_tail; exact H].
      intros Hin. destruct tl as [|y tl']; [destruct Hin|]. cbn [hd_error]. f_equal.
      destruct (In_nth _ _ 0 Hin) as (k & Hk & Ek).
      destruct k as [|k]; [exact Ek|].
      specialize (H O 1%nat (S (S k))). cbn [nth] in H. cbn [nth] in Ek.
      apply H; [lia|simpl in *; lia|]. symmetry. exact Ek.
Qed.

(* T09a *)
Theorem contiguity_check_exact : forall ids, panel_ok ids = true <-> contiguous ids.
Proof.
  intros ids. unfold panel_ok. rewrite Nat.eqb_eq, !count_groups_runs.
  rewrite (runs_sorted _ (sort_ids_sorted ids)), <- (distinct_perm _ _ (sort_ids_perm ids)).
  rewrite <- contig_contiguous. apply distinct_runs.
Qed.

(* ================================================================= a sorted table splits around an identifier *)
Lemma filter_none {A} (p : A -> bool) l : Forall (fun x => p x = false) l -> filter p l = [].
Proof. induction 1 as [|x l H _ IH]; simpl; [reflexivity|]. rewrite H. exact IH. Qed.

Lemma filter_all {A} (p : A -> bool) l : Forall (fun x => p x = true) l -> filter p l = l.
Proof. induction 1 as [|x l H _ IH]; simpl; [reflexivity|]. rewrite H, IH. reflexivity. Qed.

Section Split.
  Context {A : Type} (key : A -> Z).
  Definition flt (i : Z) := filter (fun r : A => key r <? i).
  Definition feq (i : Z) := filter (fun r : A => key r =? i).
  Definition fgt (i : Z) := filter (fun r : A => i <? key r).

  Lemma sorted_split3 i l :
    StronglySorted Z.le (map key l) -> l = flt i l ++ feq i l ++ fgt i l.
  Proof.
    induction l as [|x tl IH]; intros H; [reflexivity|].
    simpl in H. inversion H as [|? ? Hs Hf]; subst. specialize (IH Hs).
    rewrite Forall_map in Hf.
    unfold flt, feq, fgt in *. cbn [filter].
    destruct (Z.ltb_spec (key x) i) as [Hlt|Hge].
    - replace (key x =? i) with false by lia. replace (i <? key x) with false by lia.
      simpl. f_equal. exact IH.
    - assert (E1 : filter (fun r : A => key r <? i) tl = []).
      { apply filter_none. eapply Forall_impl; [|exact Hf]. simpl. intros; lia. }
      rewrite E1 in *. destruct (Z.eqb_spec (key x) i) as [He|Hne].
      + replace (i <? key x) with false by lia. simpl. f_equal. exact IH.
      + replace (i <? key x) with true by lia.
        assert (E2 : filter (fun r : A => key r =? i) tl = []).
        { apply filter_none. eapply Forall_impl; [|exact Hf]. simpl. intros; lia. }
        rewrite E2 in *. simpl. f_equal. exact IH.
  Qed.

  Lemma map_filter_key (p : Z -> bool) l :
    map key (filter (fun r => p (key r)) l) = filter p (map key l).
  Proof. induction l as [|x tl IH]; simpl; [reflexivity|]. destruct (p (key x)); simpl; rewrite IH; reflexivity. Qed.
End Split.

(* counts of identifiers below / equal to i in a column *)
Definition c_lt (i : Z) (s : list Z) : nat := List.length (filter (fun x => x <? i) s).
Definition c_eq (i : Z) (s : list Z) : nat := List.length (filter (fun x => x =? i) s).

Lemma ids_split3 i s : StronglySorted Z.le s ->
  s = filter (fun x => x <? i) s ++ filter (fun x => x =? i) s ++ filter (fun x => i <? x) s.
Proof. intros H. apply (sorted_split3 (fun z : Z => z)). rewrite map_id. exact H. Qed.

Lemma c_eq_pos i s : In i s -> (1 <= c_eq i s)%nat.
Proof.
  intros H. unfold c_eq.
  assert (In i (filter (fun x => x =? i) s)) by (apply filter_In; split; [exact H|lia]).
  destruct (filter (fun x => x =? i) s); [contradiction|simpl; lia].
Qed.

(* ---- positions *)
Lemma positions_from_app : forall l1 l2 k i,
  positions_from k i (l1 ++ l2) = positions_from k i l1 ++ positions_from (k + List.length l1) i l2.
Proof.
  induction l1 as [|x tl IH]; intros l2 k i; simpl.
  - rewrite Nat.add_0_r. reflexivity.
  - rewrite IH. replace (S k + List.length tl)%nat with (k + S (List.length tl))%nat by lia.
    destruct (x =? i); reflexivity.
Qed.

Lemma positions_from_none : forall l k i, Forall (fun x => x <> i) l -> positions_from k i l = [].
Proof.
  induction l as [|x tl IH]; intros k i H; [reflexivity|]. inversion H; subst. simpl.
  replace (x =? i) with false by lia. apply IH. assumption.
Qed.

Lemma positions_from_all : forall l k i, Forall (fun x => x = i) l -> positions_from k i l = seq k (List.length l).
Proof.
  induction l as [|x tl IH]; intros k i H; [reflexivity|]. inversion H; subst. simpl.
  rewrite Z.eqb_refl. f_equal. apply IH. assumption.
Qed.

Lemma lmin_seq : forall c a, lmin (seq a (S c)) = a.
Proof.
  induction c as [|c IH]; intros a; [reflexivity|].
  change (seq a (S (S c))) with (a :: seq (S a) (S c)).
  change (lmin (a :: seq (S a) (S c))) with (Nat.min a (lmin (seq (S a) (S c)))) .
  rewrite IH. lia.
Qed.

Lemma lmax_seq : forall c a, lmax (seq a (S c)) = (a + c)%nat.
Proof.
  induction c as [|c IH]; intros a; [simpl; lia|].
  change (seq a (S (S c))) with (a :: seq (S a) (S c)).
  change (lmax (a :: seq (S a) (S c))) with (Nat.max a (lmax (seq (S a) (S c)))) .
  rewrite IH. lia.
Qed.

Lemma Forall_filter {A} (p : A -> bool) l : Forall (fun x => p x = true) (filter p l).
Proof. apply Forall_forall. intros x H. apply filter_In in H. tauto. Qed.

(* the entry of the map, in closed form: first = #rows with a smaller id, last = first + #rows of i - 1 *)
Lemma entry_counts s i : StronglySorted Z.le s -> In i s ->
  entry s i = (i, c_lt i s, (c_lt i s + c_eq i s - 1)%nat).
Proof.
  intros Hs Hin. unfold entry.
  pose proof (c_eq_pos i s Hin) as Hpos.
  assert (E : positions i s = seq (c_lt i s) (c_eq i s)).
  { unfold positions. transitivity (positions_from 0 i
      (filter (fun x => x <? i) s ++ filter (fun x => x =? i) s ++ filter (fun x => i <? x) s)).
    - f_equal. apply ids_split3. exact Hs.
    - rewrite !positions_from_app.
      rewrite (positions_from_none (filter (fun x => x <? i) s))
        by (eapply Forall_impl; [|apply Forall_filter]; simpl; intros; lia).
      rewrite (positions_from_none (filter (fun x => i <? x) s))
        by (eapply Forall_impl; [|apply Forall_filter]; simpl; intros; lia).
      rewrite (positions_from_all (filter (fun x => x =? i) s))
        by (eapply Forall_impl; [|apply Forall_filter]; simpl; intros; lia).
      rewrite app_nil_r. reflexivity. }
  rewrite E. destruct (c_eq i s) as [|c]; [lia|].
  rewrite lmin_seq, lmax_seq. replace (c_lt i s + S c - 1)%nat with (c_lt i s + c)%nat by lia. reflexivity.
Qed.

(* which rows carry identifier i in the sorted column *)
Lemma block_rows s i : StronglySorted Z.le s -> In i s ->
  forall r, (r < List.length s)%nat ->
    ((c_lt i s <= r <= c_lt i s + c_eq i s - 1)%nat <-> nth r s 0 = i).
Proof.
  intros Hs Hin r Hr.
  pose proof (c_eq_pos i s Hin) as Hpos.
  pose proof (ids_split3 i s Hs) as E.
  unfold c_lt, c_eq in *.
  set (L := filter (fun x => x <? i) s) in *.
  set (Mi := filter (fun x => x =? i) s) in *.
  set (G := filter (fun x => i <? x) s) in *.
  assert (HL : forall x, In x L -> x < i) by (intros x H; apply filter_In in H; lia).
  assert (HM : forall x, In x Mi -> x = i) by (intros x H; apply filter_In in H; lia).
  assert (HG : forall x, In x G -> i < x) by (intros x H; apply filter_In in H; lia).
  assert (Hlen : List.length s = (List.length L + List.length Mi + List.length G)%nat).
  { rewrite E at 1. rewrite !app_length. lia. }
  rewrite E.
  destruct (Nat.lt_ge_cases r (List.length L)) as [H1|H1].
  - rewrite app_nth1 by exact H1. specialize (HL (nth r L 0) (nth_In _ _ H1)). split; intros; lia.
  - rewrite app_nth2 by exact H1.
    destruct (Nat.lt_ge_cases (r - List.length L) (List.length Mi)) as [H2|H2].
    + rewrite app_nth1 by exact H2. specialize (HM _ (nth_In _ 0 H2)). split; intros; lia.
    + rewrite app_nth2 by exact H2.
      assert (H3 : (r - List.length L - List.length Mi < List.length G)%nat) by lia.
      specialize (HG _ (nth_In _ 0 H3)). split; intros; lia.
Qed.

(* ---- unique() *)
Lemma uniq_In x l : In x (uniq l) <-> In x l.
Proof.
  induction l as [|y tl IH]; simpl; [tauto|]. split.
  - intros [->|H]; [left; reflexivity|]. apply in_remove in H. right. apply IH. tauto.
  - intros [->|H]; [left; reflexivity|]. destruct (Z.eq_dec y x) as [->|n]; [left; reflexivity|].
    right. apply in_in_remove; [congruence|apply IH; exact H].
Qed.

Lemma ss_remove (R : Z -> Z -> Prop) y l : StronglySorted R l -> StronglySorted R (remove Z.eq_dec y l).
Proof.
  induction 1 as [|x l Hs IH Hf]; simpl; [constructor|].
  destruct (Z.eq_dec y x); [exact IH|]. constructor; [exact IH|].
  rewrite Forall_forall in *. intros z Hz. apply in_remove in Hz. apply Hf. tauto.
Qed.

Lemma uniq_sorted l : StronglySorted Z.le l -> StronglySorted Z.lt (uniq l).
Proof.
  induction 1 as [|x l Hs IH Hf]; simpl; [constructor|].
  constructor; [apply ss_remove; exact IH|].
  rewrite Forall_forall in *. intros z Hz. apply in_remove in Hz. destruct Hz as [Hz Hne].
  apply (proj1 (uniq_In _ _)) in Hz. specialize (Hf _ Hz). lia.
Qed.

Lemma ss_lt_NoDup l : StronglySorted Z.lt l -> NoDup l.
Proof.
  induction 1 as [|x l Hs IH Hf]; constructor; [|exact IH].
  intros Hin. rewrite Forall_forall in Hf. specialize (Hf _ Hin). lia.
Qed.

Lemma uniq_length_sorted l : StronglySorted Z.le l -> List.length (uniq l) = distinct l.
Proof.
  intros H. unfold distinct. apply Permutation_length. apply NoDup_Permutation.
  - apply ss_lt_NoDup, uniq_sorted, H.
  - apply NoDup_nodup.
  - intros x. rewrite uniq_In, nodup_In. tauto.
Qed.

(* ---- tiling *)
Lemma filter_length_or (p q r : Z -> bool) s :
  (forall x, In x s -> p x = q x || r x) -> (forall x, In x s -> q x && r x = false) ->
  List.length (filter p s) = (List.length (filter q s) + List.length (filter r s))%nat.
Proof.
  induction s as [|x tl IH]; intros H1 H2; [reflexivity|]. simpl.
  rewrite (H1 x (or_introl eq_refl)). specialize (H2 x (or_introl eq_refl)) as H2x.
  assert (IH' := IH (fun y Hy => H1 y (or_intror Hy)) (fun y Hy => H2 y (or_intror Hy))).
  destruct (q x), (r x); simpl in *; try discriminate; lia.
Qed.

Lemma tiles_from s : StronglySorted Z.le s ->
  forall u i, StronglySorted Z.lt (i :: u) -> (forall x, In x (i :: u) -> In x s) ->
    (forall x, In x s -> i <= x -> In x (i :: u)) ->
    tiles (c_lt i s) (map (entry s) (i :: u)) (List.length s).
Proof.
  intros Hs. induction u as [|j u IH]; intros i Hu Hsub Hall.
  - cbn [map tiles]. rewrite (entry_counts s i Hs (Hsub i (or_introl eq_refl))).
    unfold b_first, b_last. cbn [fst snd].
    pose proof (c_eq_pos i s (Hsub i (or_introl eq_refl))) as Hpos.
    split; [reflexivity|]. split; [lia|].
    assert (E : List.length (filter (fun _ : Z => true) s) = (c_lt i s + c_eq i s)%nat).
    { apply filter_length_or.
      - intros x Hx. destruct (Z.ltb_spec x i) as [|Hge]; [reflexivity|]. simpl.
        destruct (Hall x Hx Hge) as [<-|[]]. symmetry. apply Z.eqb_refl.
      - intros x _. lia. }
    rewrite filter_all in E by (apply Forall_forall; reflexivity). lia.
  - change (map (entry s) (i :: j :: u)) with (entry s i :: map (entry s) (j :: u)). cbn [tiles].
    rewrite (entry_counts s i Hs (Hsub i (or_introl eq_refl))).
    unfold b_first, b_last. cbn [fst snd].
    pose proof (c_eq_pos i s (Hsub i (or_introl eq_refl))) as Hpos.
    split; [reflexivity|]. split; [lia|].
    inversion Hu as [|? ? Hu' Hf]; subst. rewrite Forall_forall in Hf.
    assert (Hij : i < j) by (apply Hf; left; reflexivity).
    assert (E : c_lt j s = (c_lt i s + c_eq i s)%nat).
    { apply filter_length_or.
      - intros x Hx. destruct (Z.ltb_spec x i) as [|Hge]; [simpl; lia|]. simpl.
        destruct (Hall x Hx Hge) as [<-|Hx'].
        + rewrite Z.eqb_refl. lia.
        + assert (j <= x).
          { destruct Hx' as [<-|Hx']; [lia|]. inversion Hu' as [|? ? _ Hf']; subst.
            rewrite Forall_forall in Hf'. specialize (Hf' _ Hx'). lia. }
          lia.
      - intros x _. lia. }
    replace (S (c_lt i s + c_eq i s - 1)) with (c_lt j s) by lia.
    apply IH.
    + exact Hu'.
    + intros x Hx. apply Hsub. right. exact Hx.
    + intros x Hx Hjx. destruct (Hall x Hx ltac:(lia)) as [<-|H]; [lia|exact H].
Qed.

Lemma build_map_unfold ids : build_map ids = map (entry (sort_ids ids)) (uniq (sort_ids ids)).
Proof. reflexivity. Qed.

Lemma map_tiles_sorted s : StronglySorted Z.le s ->
  tiles 0 (map (entry s) (uniq s)) (List.length s).
Proof.
  intros Hs. destruct s as [|x tl]; [reflexivity|].
  assert (H0 : c_lt x (x :: tl) = O).
  { unfold c_lt. rewrite filter_none; [reflexivity|].
    inversion Hs as [|? ? _ Hf]; subst.
    constructor; [lia|]. eapply Forall_impl; [|exact Hf]. simpl. intros; lia. }
  rewrite <- H0.
  change (uniq (x :: tl)) with (x :: remove Z.eq_dec x (uniq tl)).
  apply tiles_from.
  - exact Hs.
  - change (StronglySorted Z.lt (uniq (x :: tl))). apply uniq_sorted. exact Hs.
  - intros y Hy. change (In y (uniq (x :: tl))) in Hy. apply (proj1 (uniq_In _ _)) in Hy. exact Hy.
  - intros y Hy _. change (In y (uniq (x :: tl))). apply uniq_In. exact Hy.
Qed.

Lemma build_map_tiles ids : tiles 0 (build_map ids) (List.length ids).
Proof.
  rewrite build_map_unfold. rewrite (Permutation_length (sort_ids_perm ids)).
  apply map_tiles_sorted. apply sort_ids_sorted.
Qed.

(* ================================================================= T09b: the map partitions the rows *)
Lemma b_id_entry s i : b_id (entry s i) = i.
Proof. reflexivity. Qed.

Lemma map_ids s u : map b_id (map (entry s) u) = u.
Proof. rewrite map_map. erewrite map_ext; [apply map_id|]. intros; apply b_id_entry. Qed.

Lemma c_lt_eq_le i s : StronglySorted Z.le s -> (c_lt i s + c_eq i s <= List.length s)%nat.
Proof.
  intros H. pose proof (ids_split3 i s H) as E. apply (f_equal (@List.length Z)) in E.
  rewrite !app_length in E. unfold c_lt, c_eq. lia.
Qed.

Lemma in_build_map ids e : In e (build_map ids) ->
  exists i, In i (sort_ids ids) /\ e = entry (sort_ids ids) i.
Proof.
  rewrite build_map_unfold. intros H. apply in_map_iff in H. destruct H as (i & <- & Hi).
  exists i. split; [apply (proj1 (uniq_In _ _)); exact Hi|reflexivity].
Qed.

Theorem map_partitions_rows : forall ids,
  let s := sort_ids ids in
  let m := build_map ids in
  let n := List.length ids in
  (* the individuals of the map are the distinct identifiers of the column, in ascending order *)
  StronglySorted Z.lt (map b_id m) /\
  (forall i, In i (map b_id m) <-> In i ids) /\
  (* each block is a non-empty range of rows of the table, and holds exactly the rows of its individual *)
  (forall e, In e m ->
      (b_first e <= b_last e < n)%nat /\
      forall r, (r < n)%nat -> ((b_first e <= r <= b_last e)%nat <-> nth r s 0 = b_id e)) /\
  (* every row belongs to exactly one block: the blocks are pairwise disjoint and cover [0,n) *)
  (forall r, (r < n)%nat ->
      exists e, In e m /\ (b_first e <= r <= b_last e)%nat /\
                forall e', In e' m -> (b_first e' <= r <= b_last e')%nat -> e' = e) /\
  (* they are laid end to end from row 0 to row n-1 *)
  tiles 0 m n.
Proof.
  intros ids s m n.
  pose proof (sort_ids_sorted ids) as Hs. fold s in Hs.
  assert (Hn : List.length s = n) by (symmetry; apply Permutation_length, sort_ids_perm).
  assert (Hblock : forall e, In e m ->
      (b_first e <= b_last e < n)%nat /\
      forall r, (r < n)%nat -> ((b_first e <= r <= b_last e)%nat <-> nth r s 0 = b_id e)).
  { intros e He. apply in_build_map in He. destruct He as (i & Hi & ->). fold s in Hi |- *.
    rewrite (entry_counts s i Hs Hi). unfold b_first, b_last, b_id. cbn [fst snd].
    pose proof (c_eq_pos i s Hi). pose proof (c_lt_eq_le i s Hs).
    split; [lia|]. intros r Hr. apply block_rows; [exact Hs|exact Hi|lia]. }
  split; [|split; [|split; [exact Hblock|split]]].
  - unfold m. rewrite build_map_unfold, map_ids. apply uniq_sorted. exact Hs.
  - intros i. unfold m. rewrite build_map_unfold, map_ids, uniq_In. fold s.
    split; apply Permutation_in; [apply Permutation_sym|]; apply sort_ids_perm.
  - intros r Hr.
    assert (Hi : In (nth r s 0) s) by (apply nth_In; lia).
    assert (He : In (entry s (nth r s 0)) m).
    { unfold m. rewrite build_map_unfold. fold s. apply in_map. apply uniq_In. exact Hi. }
    exists (entry s (nth r s 0)). split; [exact He|]. split.
    + apply (proj2 (Hblock _ He)); [exact Hr|reflexivity].
    + intros e' He' Hr'. pose proof (proj1 (proj2 (Hblock _ He') r Hr) Hr') as E.
      apply in_build_map in He'. destruct He' as (i' & _ & ->). fold s in E |- *.
      rewrite b_id_entry in E. rewrite E. reflexivity.
  - apply build_map_tiles.
Qed.

(* sample size = number of blocks = number of distinct identifiers (= the number of groups counted by
   panel() when the column is accepted) *)
Theorem sample_size_is_number_of_individuals : forall ids,
  sample_size ids = List.length (build_map ids) /\
  sample_size ids = distinct ids /\
  draws_rows ids = distinct ids /\
  (panel_ok ids = true -> sample_size ids = count_groups ids).
Proof.
  intros ids.
  assert (E : sample_size ids = distinct ids).
  { unfold sample_size. rewrite build_map_unfold, map_length.
    rewrite uniq_length_sorted by apply sort_ids_sorted.
    symmetry. apply distinct_perm, sort_ids_perm. }
  split; [reflexivity|]. split; [exact E|]. split; [exact E|].
  intros H. rewrite E. unfold panel_ok in H. apply Nat.eqb_eq in H. rewrite H.
  rewrite count_groups_runs, (runs_sorted _ (sort_ids_sorted ids)).
  apply distinct_perm, sort_ids_perm.
Qed.

(* ================================================================= values *)
Lemma filter_perm {A} (p : A -> bool) l l' : Permutation l l' -> Permutation (filter p l) (filter p l').
Proof.
  induction 1 as [|x l l' _ IH|x y l|l l' l'' _ IH1 _ IH2]; simpl.
  - constructor.
  - destruct (p x); [constructor|]; exact IH.
  - destruct (p x), (p y); try reflexivity. apply perm_swap.
  - eapply perm_trans; eassumption.
Qed.

Lemma fold_perm {M} (op : M -> M -> M) (e : M) :
  (forall a b, op a b = op b a) -> (forall a b c, op a (op b c) = op (op a b) c) ->
  forall l l', Permutation l l' -> fold_right op e l = fold_right op e l'.
Proof.
  intros comm assoc. induction 1 as [|x l l' _ IH|x y l|l l' l'' _ IH1 _ IH2]; simpl.
  - reflexivity.
  - rewrite IH. reflexivity.
  - rewrite !assoc. rewrite (comm y x). reflexivity.
  - rewrite IH1. exact IH2.
Qed.

Section Values.
  Context {M : Type}.
  Variables (one zero : M) (mul add : M -> M -> M) (divn : M -> nat -> M).
  Hypothesis mul_comm : forall a b, mul a b = mul b a.
  Hypothesis mul_assoc : forall a b c, mul a (mul b c) = mul (mul a b) c.
  Context {A : Type}.
  Notation row := (Z * A)%type.

  (* the rows of the table carrying identifier i *)
  Definition rows_of (i : Z) (t : list row) : list row := filter (fun r => fst r =? i) t.

  (* in a sorted table, the rows first..last of the entry of i are exactly the rows carrying i *)
  Lemma rows_block (st : list row) i :
    StronglySorted Z.le (map fst st) -> In i (map fst st) ->
    rows_between (b_first (entry (map fst st) i)) (b_last (entry (map fst st) i)) st = rows_of i st.
  Proof.
    intros Hs Hi. rewrite (entry_counts _ i Hs Hi). unfold b_first, b_last. cbn [fst snd].
    pose proof (c_eq_pos i _ Hi) as Hpos.
    assert (EL : c_lt i (map fst st) = List.length (flt fst i st)).
    { unfold c_lt, flt. rewrite <- (map_filter_key fst (fun x => x <? i)). apply map_length. }
    assert (EM : c_eq i (map fst st) = List.length (feq fst i st)).
    { unfold c_eq, feq. rewrite <- (map_filter_key fst (fun x => x =? i)). apply map_length. }
    unfold rows_between.
    replace (S (c_lt i (map fst st) + c_eq i (map fst st) - 1) - c_lt i (map fst st))%nat
      with (c_eq i (map fst st)) by lia.
    rewrite EL, EM.
    transitivity (firstn (List.length (feq fst i st))
                    (skipn (List.length (flt fst i st)) (flt fst i st ++ feq fst i st ++ fgt fst i st))).
    - do 2 f_equal. apply sorted_split3. exact Hs.
    - rewrite skipn_app, skipn_all, Nat.sub_diag. cbn [skipn app].
      rewrite firstn_app, firstn_all, Nat.sub_diag. cbn [firstn]. apply app_nil_r.
  Qed.

  (* T09c *)
  Theorem trajectory_is_product : forall (f : row -> M) (t st : list row),
    sorted_version t st ->
    forall e, In e (build_map (ids_of t)) ->
      traj one mul f st (b_first e) (b_last e) = prod_list one mul (map f (rows_of (b_id e) t)).
  Proof.
    intros f t st Hv e He.
    pose proof (sorted_version_ids t st Hv) as Es. destruct Hv as [P Hs].
    apply in_build_map in He. destruct He as (i & Hi & ->). rewrite <- Es in *.
    unfold traj. rewrite rows_block by assumption. rewrite b_id_entry.
    apply fold_perm; [exact mul_comm|exact mul_assoc|].
    apply Permutation_map. unfold rows_of. apply filter_perm. apply Permutation_sym. exact P.
  Qed.

  Lemma build_map_perm (t t' : list row) : Permutation t t' -> build_map (ids_of t) = build_map (ids_of t').
  Proof.
    intros P. rewrite !build_map_unfold.
    assert (E : sort_ids (ids_of t) = sort_ids (ids_of t')).
    { apply sorted_ids_unique; [|apply sort_ids_sorted].
      eapply perm_trans; [|apply sort_ids_perm]. unfold ids_of. apply Permutation_map.
      apply Permutation_sym. exact P. }
    rewrite E. reflexivity.
  Qed.

  Lemma rows_of_prod_perm (f : row -> M) i (t t' : list row) : Permutation t t' ->
    prod_list one mul (map f (rows_of i t)) = prod_list one mul (map f (rows_of i t')).
  Proof.
    intros P. apply fold_perm; [exact mul_comm|exact mul_assoc|].
    apply Permutation_map, filter_perm, P.
  Qed.

  (* T09d: any reordering of the table (individuals exchanged, rows exchanged inside individuals) leaves the
     map, every individual's value and the total unchanged -- whatever the unstable sort did. *)
  Theorem order_independent : forall (f : row -> M) (h : M -> M) (t t' st st' : list row),
    Permutation t t' -> sorted_version t st -> sorted_version t' st' ->
    build_map (ids_of t) = build_map (ids_of t') /\
    panel_values one mul f st (build_map (ids_of t)) = panel_values one mul f st' (build_map (ids_of t')) /\
    total zero add h (panel_values one mul f st (build_map (ids_of t)))
      = total zero add h (panel_values one mul f st' (build_map (ids_of t'))).
  Proof.
    intros f h t t' st st' P Hv Hv'.
    pose proof (build_map_perm t t' P) as Em.
    assert (Ev : panel_values one mul f st (build_map (ids_of t))
                 = panel_values one mul f st' (build_map (ids_of t'))).
    { rewrite <- Em. unfold panel_values. apply map_ext_in. intros e He. f_equal.
      rewrite (trajectory_is_product f t st Hv e He).
      rewrite Em in He. rewrite (trajectory_is_product f t' st' Hv' e He).
      apply rows_of_prod_perm. exact P. }
    split; [exact Em|]. split; [exact Ev|]. rewrite Ev. reflexivity.
  Qed.

  (* ---- Monte-Carlo inside: draws of the individual, the same draw for every row of the block *)
  Theorem draws_per_individual : forall (R : nat) (dr : nat -> M) (g : row -> M -> M) (t st : list row),
    sorted_version t st ->
    forall e, In e (build_map (ids_of t)) ->
      mc one zero mul add divn R dr g st (b_first e) (b_last e)
      = divn (sum_list zero add
                (map (fun k => prod_list one mul (map (fun r => g r (dr k)) (rows_of (b_id e) t))) (seq 0 R))) R.
  Proof.
    intros R dr g t st Hv e He. unfold mc. do 2 f_equal. apply map_ext. intros k.
    apply (trajectory_is_product (fun r => g r (dr k)) t st Hv e He).
  Qed.

  Lemma combine_seq_nth {B} : forall (m : list B) a k e,
    nth_error m k = Some e -> nth_error (combine (seq a (List.length m)) m) k = Some ((a + k)%nat, e).
  Proof.
    induction m as [|x tl IH]; intros a k e H; [destruct k; discriminate|].
    destruct k as [|k]; simpl in *.
    - injection H as ->. rewrite Nat.add_0_r. reflexivity.
    - rewrite (IH (S a) k e H). do 2 f_equal. lia.
  Qed.

  (* the individual at position idx of the map reads row idx of the draws table *)
  Theorem draws_row_of_individual : forall R (draws : nat -> nat -> M) (g : row -> M -> M) (st : list row) m idx e,
    nth_error m idx = Some e ->
    nth_error (panel_mc_values one zero mul add divn R draws g st m) idx
    = Some (b_id e, mc one zero mul add divn R (draws idx) g st (b_first e) (b_last e)).
  Proof.
    intros R draws g st m idx e H. unfold panel_mc_values.
    erewrite map_nth_error; [|apply combine_seq_nth; exact H]. reflexivity.
  Qed.

  Theorem mc_order_independent : forall R (draws : nat -> nat -> M) (g : row -> M -> M) (t t' st st' : list row),
    Permutation t t' -> sorted_version t st -> sorted_version t' st' ->
    panel_mc_values one zero mul add divn R draws g st (build_map (ids_of t))
    = panel_mc_values one zero mul add divn R draws g st' (build_map (ids_of t')).
  Proof.
    intros R draws g t t' st st' P Hv Hv'.
    rewrite <- (build_map_perm t t' P). unfold panel_mc_values. apply map_ext_in.
    intros [idx e] Hin. apply in_combine_r in Hin. f_equal.
    rewrite (draws_per_individual R (draws idx) g t st Hv e Hin).
    rewrite (build_map_perm t t' P) in Hin.
    rewrite (draws_per_individual R (draws idx) g t' st' Hv' e Hin).
    do 2 f_equal. apply map_ext. intros k. apply rows_of_prod_perm. exact P.
  Qed.

  (* ---- individuals renamed (hence appearing in another order in the map): every individual keeps its
     value, and the total is unchanged. *)
  Hypothesis add_comm : forall a b, add a b = add b a.
  Hypothesis add_assoc : forall a b c, add a (add b c) = add (add a b) c.

  Definition relabel (rho : Z -> Z) (t : list row) : list row := map (fun r => (rho (fst r), snd r)) t.
  Definition value_of (f : A -> M) (i : Z) (t : list row) : M :=
    prod_list one mul (map (fun r => f (snd r)) (rows_of i t)).

  Lemma rows_of_relabel rho : (forall a b, rho a = rho b -> a = b) ->
    forall i t, rows_of (rho i) (relabel rho t) = relabel rho (rows_of i t).
  Proof.
    intros inj i t. induction t as [|r tl IH]; [reflexivity|]. unfold rows_of, relabel in *. cbn [map filter fst].
    assert (E : (rho (fst r) =? rho i) = (fst r =? i)).
    { destruct (Z.eqb_spec (fst r) i) as [->|n]; [apply Z.eqb_refl|].
      apply Z.eqb_neq. intros H. apply n, inj, H. }
    rewrite E. destruct (fst r =? i); cbn [map]; rewrite IH; reflexivity.
  Qed.

  Lemma value_relabel rho f : (forall a b, rho a = rho b -> a = b) ->
    forall i t, value_of f (rho i) (relabel rho t) = value_of f i t.
  Proof.
    intros inj i t. unfold value_of. rewrite rows_of_relabel by exact inj.
    unfold relabel. rewrite map_map. reflexivity.
  Qed.

  Lemma panel_values_snd (f : A -> M) t st : sorted_version t st ->
    map snd (panel_values one mul (fun r => f (snd r)) st (build_map (ids_of t)))
    = map (fun i => value_of f i t) (uniq (sort_ids (ids_of t))).
  Proof.
    intros Hv. unfold panel_values. rewrite map_map. cbn [snd].
    transitivity (map (fun e => value_of f (b_id e) t) (build_map (ids_of t))).
    - apply map_ext_in. intros e He. apply (trajectory_is_product (fun r => f (snd r)) t st Hv e He).
    - rewrite build_map_unfold, map_map. apply map_ext. intros i. rewrite b_id_entry. reflexivity.
  Qed.

  Theorem relabel_independent : forall (rho : Z -> Z) (f : A -> M) (h : M -> M) (t st st' : list row),
    (forall a b, rho a = rho b -> a = b) ->
    sorted_version t st -> sorted_version (relabel rho t) st' ->
    (forall i, value_of f (rho i) (relabel rho t) = value_of f i t) /\
    Permutation (map snd (panel_values one mul (fun r => f (snd r)) st (build_map (ids_of t))))
                (map snd (panel_values one mul (fun r => f (snd r)) st' (build_map (ids_of (relabel rho t))))) /\
    total zero add h (panel_values one mul (fun r => f (snd r)) st (build_map (ids_of t)))
    = total zero add h (panel_values one mul (fun r => f (snd r)) st' (build_map (ids_of (relabel rho t)))).
  Proof.
    intros rho f h t st st' inj Hv Hv'.
    assert (HP : Permutation (map snd (panel_values one mul (fun r => f (snd r)) st (build_map (ids_of t))))
                (map snd (panel_values one mul (fun r => f (snd r)) st' (build_map (ids_of (relabel rho t)))))).
    { rewrite (panel_values_snd f t st Hv), (panel_values_snd f _ st' Hv').
      transitivity (map (fun j => value_of f j (relabel rho t)) (map rho (uniq (sort_ids (ids_of t))))).
      - rewrite map_map. erewrite map_ext; [reflexivity|]. intros i. symmetry. apply value_relabel, inj.
      - apply Permutation_map. apply NoDup_Permutation.
        + apply FinFun.Injective_map_NoDup; [exact inj|]. apply ss_lt_NoDup, uniq_sorted, sort_ids_sorted.
        + apply ss_lt_NoDup, uniq_sorted, sort_ids_sorted.
        + intros x. rewrite uniq_In, in_map_iff.
          assert (Ei : ids_of (relabel rho t) = map rho (ids_of t)).
          { unfold ids_of, relabel. rewrite !map_map. reflexivity. }
          split.
          * intros (i & <- & Hi). apply (proj1 (uniq_In _ _)) in Hi.
            eapply Permutation_in; [apply sort_ids_perm|]. rewrite Ei. apply in_map.
            eapply Permutation_in; [apply Permutation_sym, sort_ids_perm|exact Hi].
          * intros Hx. eapply Permutation_in in Hx; [|apply Permutation_sym, sort_ids_perm].
            rewrite Ei in Hx. apply in_map_iff in Hx. destruct Hx as (i & <- & Hi).
            exists i. split; [reflexivity|]. apply uniq_In.
            eapply Permutation_in; [apply sort_ids_perm|exact Hi]. }
    split; [intros i; apply value_relabel, inj|]. split; [exact HP|].
    unfold total. rewrite <- !(map_map snd h).
    apply fold_perm; [exact add_comm|exact add_assoc|]. apply Permutation_map. exact HP.
  Qed.
End Values.

(* ================================================================= histories of one Database object *)
Lemma build_map_ids_perm ids ids' : Permutation ids ids' -> build_map ids = build_map ids'.
Proof.
  intros P. rewrite !build_map_unfold.
  assert (E : sort_ids ids = sort_ids ids').
  { apply sorted_ids_unique; [|apply sort_ids_sorted].
    eapply perm_trans; [apply Permutation_sym; exact P|apply sort_ids_perm]. }
  rewrite E. reflexivity.
Qed.

Section HistoryP.
  Context {A : Type}.
  Notation pstate := (@pstate A).

  Lemma rebuild_spec (s : pstate) c : st_col s = Some c ->
    st_col (rebuild s) = Some c /\
    Permutation (st_table s) (st_table (rebuild s)) /\
    StronglySorted Z.le (col_ids c (st_table (rebuild s))) /\
    st_map (rebuild s) = build_map (col_ids c (st_table s)) /\
    st_map (rebuild s) = build_map (col_ids c (st_table (rebuild s))).
  Proof.
    intros E. unfold rebuild. rewrite E. cbn [st_col st_table st_map].
    split; [reflexivity|]. split; [apply sort_by_perm|]. split; [apply sort_by_sorted|].
    split; [reflexivity|]. apply build_map_ids_perm. unfold col_ids. apply Permutation_map, sort_by_perm.
  Qed.

  (* Whatever happened before (declarations, refused declarations, direct edits of the table, removals,
     earlier evaluations): an evaluation uses the map of the CURRENT table on the CURRENT column, a
     sorted permutation of the current table, and one series of draws per individual of that table. *)
  Theorem evaluation_uses_current_table : forall (s0 : pstate) ops c,
    let s := fst (run_ops s0 ops) in
    st_col s = Some c ->
    let s2 := prepare_eval s in
    st_col s2 = Some c /\
    Permutation (st_table s) (st_table s2) /\
    StronglySorted Z.le (col_ids c (st_table s2)) /\
    st_map s2 = build_map (col_ids c (st_table s)) /\
    st_map s2 = build_map (col_ids c (st_table s2)) /\
    st_draws s2 = distinct (col_ids c (st_table s)).
  Proof.
    intros s0 ops c s E s2. destruct (rebuild_spec s c E) as (H1 & H2 & H3 & H4 & H5).
    unfold s2, prepare_eval, gen_draws. cbn [st_col st_table st_map st_draws].
    repeat split; try assumption.
    rewrite H1, H4. apply sample_size_is_number_of_individuals.
  Qed.

  (* a declaration is accepted exactly on contiguous columns; accepted: the column becomes the panel column
     and the map is that of the column; refused: nothing changes *)
  Theorem declaration_exact : forall (s : pstate) c,
    (contiguous (col_ids c (st_table s)) ->
       st_col (step s (OpPanel c)) = Some c /\
       st_map (step s (OpPanel c)) = build_map (col_ids c (st_table s)) /\
       Permutation (st_table s) (st_table (step s (OpPanel c)))) /\
    (~ contiguous (col_ids c (st_table s)) -> step s (OpPanel c) = s).
  Proof.
    intros s c. cbn [step]. unfold panel_accepts. split; intros H.
    - apply contiguity_check_exact in H. rewrite H.
      destruct (rebuild_spec (mk_pstate (st_table s) (Some c) (st_map s) (st_draws s)) c eq_refl)
        as (H1 & H2 & _ & H4 & _).
      cbn [st_table] in *. repeat split; assumption.
    - destruct (panel_ok (col_ids c (st_table s))) eqn:E; [|reflexivity].
      exfalso. apply H. apply contiguity_check_exact. exact E.
  Qed.

  (* a direct edit leaves the stored map stale, the next evaluation does not use it *)
  Theorem edit_then_evaluate : forall (s : pstate) t c,
    st_col s = Some c ->
    st_map (step s (OpEdit t)) = st_map s /\
    st_map (prepare_eval (step s (OpEdit t))) = build_map (col_ids c t) /\
    st_draws (prepare_eval (step s (OpEdit t))) = distinct (col_ids c t).
  Proof.
    intros s t c E. split; [reflexivity|].
    pose proof (evaluation_uses_current_table s [OpEdit t] c) as H. cbn [run_ops fst] in H.
    specialize (H E). cbn zeta in H. destruct H as (_ & _ & _ & H4 & _ & H6).
    split; [exact H4|exact H6].
  Qed.
End HistoryP.

(* ================================================================= one BIOGEME object and its engine *)
Section ObjectP.
  Context {A : Type}.

  Lemma send_ok c (db : list (@hrow A)) : engine_ok c (snd (send c db)).
  Proof.
    unfold send, engine_ok. cbn [snd e_table e_map]. split; [apply sort_by_sorted|].
    apply build_map_ids_perm. unfold col_ids. apply Permutation_map, sort_by_perm.
  Qed.

  Lemma fold_engine_ok c : forall ops (s : list (@hrow A) * engine),
    engine_ok c (snd s) -> engine_ok c (snd (fold_left (bstep c) ops s)).
  Proof.
    induction ops as [|o tl IH]; intros s H; [exact H|].
    cbn [fold_left]. apply IH. destruct o; cbn [bstep snd]; [exact H|exact H|apply send_ok].
  Qed.

  Definition from_tables (db : list (@hrow A)) (l : list (@bop A)) (t : list (@hrow A)) : Prop :=
    t = db \/ In (BChange t) l.

  Lemma from_tables_app db l o t : from_tables db l t -> from_tables db (l ++ [o]) t.
  Proof. intros [H|H]; [left; exact H|right; apply in_or_app; left; exact H]. Qed.

  Lemma fold_engine_source c db : forall ops pre (s : list (@hrow A) * engine),
    (exists te, from_tables db pre te /\ Permutation te (e_table (snd s))) ->
    (exists td, from_tables db pre td /\ Permutation td (fst s)) ->
    exists t, from_tables db (pre ++ ops) t /\ Permutation t (e_table (snd (fold_left (bstep c) ops s))).
  Proof.
    induction ops as [|o tl IH]; intros pre s He Hd.
    - rewrite app_nil_r. exact He.
    - cbn [fold_left]. replace (pre ++ o :: tl) with ((pre ++ [o]) ++ tl) by (rewrite <- app_assoc; reflexivity).
      destruct He as (te & Fe & Pe). destruct Hd as (td & Fd & Pd).
      apply IH; destruct o as [t| |]; cbn [bstep fst snd].
      + exists te. split; [apply from_tables_app; exact Fe|exact Pe].
      + exists te. split; [apply from_tables_app; exact Fe|exact Pe].
      + exists td. split; [apply from_tables_app; exact Fd|].
        unfold send. cbn [snd e_table]. eapply perm_trans; [exact Pd|apply sort_by_perm].
      + exists t. split; [right; apply in_or_app; right; left; reflexivity|reflexivity].
      + exists td. split; [apply from_tables_app; exact Fd|].
        eapply perm_trans; [exact Pd|apply sort_by_perm].
      + exists td. split; [apply from_tables_app; exact Fd|].
        unfold send. cbn [fst]. eapply perm_trans; [exact Pd|apply sort_by_perm].
  Qed.

  (* Whatever the table of the database became after the construction, and in whatever order likelihoods and
     simulations are asked: the engine holds ONE table, sorted, together with the map of exactly that table;
     that table is a reordering of the table of the construction or of one of the later tables of the
     database -- never old rows with a new map. *)
  Theorem object_engine_consistent : forall c (db : list (@hrow A)) ops,
    engine_ok c (snd (run_object c db ops)) /\
    exists t, (t = db \/ In (BChange t) ops) /\ Permutation t (e_table (snd (run_object c db ops))).
  Proof.
    intros c db ops. unfold run_object. split.
    - apply fold_engine_ok, send_ok.
    - apply (fold_engine_source c db ops [] (send c db)).
      + exists db. split; [left; reflexivity|]. unfold send. cbn [snd e_table]. apply sort_by_perm.
      + exists db. split; [left; reflexivity|]. unfold send. cbn [fst]. apply sort_by_perm.
  Qed.
End ObjectP.
