(* C07 -- lemmas about the estimation model (Model/Estim.v) instantiated with the definitions generated from
   the source (Gen/NegLike.v), and the mathematics of first-order optimality on a box. *)
From Coq Require Import Reals List String Bool Lra Lia.
From BV Require Import Model.PyBase Model.Estim Gen.NegLike.
Open Scope R_scope.

(* ------------------------------------------------------------------ the objective handed to the optimiser:
   FunctionToMinimize.set_variables(x); f() / f_g() / f_g_h()  with the generated _f/_f_g/_f_g_h *)
Definition negative_likelihood
    (like : vec -> bool -> option R -> R)
    (like_derivatives : vec -> bool -> bool -> bool -> option R -> function_output) : objective :=
  mkObj (fun x => py_f like (Some x)) (fun x => py_f_g like_derivatives (Some x))
        (fun x => py_f_g_h like_derivatives (Some x)).

(* ================================================================== T07a  sign flip (generated code) *)
Lemma py_f_spec : forall like x, py_f like (Some x) = Some (- like x false None).
Proof. reflexivity. Qed.

Lemma py_f_g_spec : forall ld x,
  py_f_g ld (Some x) =
  Some (mkFD (- fo_function (ld x false false false None)) (vopp (fo_gradient (ld x false false false None))) None).
Proof. reflexivity. Qed.

Lemma py_f_g_h_spec : forall ld x,
  py_f_g_h ld (Some x) =
  Some (mkFD (- fo_function (ld x false true false None)) (vopp (fo_gradient (ld x false true false None)))
             (Some (mopp (fo_hessian (ld x false true false None))))).
Proof. reflexivity. Qed.

Lemma py_unset : forall like ld, py_f like None = None /\ py_f_g ld None = None /\ py_f_g_h ld None = None.
Proof. intros; repeat split; reflexivity. Qed.

Section Flip.
  Variable L : vec -> R.
  Variable gradL : vec -> vec.
  Variables hessL bhhhL junk_h junk_b : vec -> mat.
  Variable N : R.
  Let like := calculate_likelihood L N.
  Let ld := calculate_likelihood_and_derivatives L gradL hessL bhhhL junk_h junk_b N.
  Let obj := negative_likelihood like ld.

  Lemma sign_flip : forall x,
    obj_f obj x = Some (- L x) /\
    obj_f_g obj x = Some (mkFD (- L x) (vopp (gradL x)) None) /\
    obj_f_g_h obj x = Some (mkFD (- L x) (vopp (gradL x)) (Some (mopp (hessL x)))).
  Proof. intros; repeat split; reflexivity. Qed.

  (* a minimiser of the objective over any set is a maximiser of L over that set, and conversely *)
  Lemma argmin_is_argmax : forall (S : vec -> Prop) x,
    (forall y, S y -> forall fx fy, obj_f obj x = Some fx -> obj_f obj y = Some fy -> fx <= fy) <->
    (forall y, S y -> L y <= L x).
  Proof.
    intros S x; split.
    - intros H y Sy. specialize (H y Sy (- L x) (- L y) eq_refl eq_refl). lra.
    - intros H y Sy fx fy E1 E2. cbn in E1, E2. injection E1 as <-. injection E2 as <-.
      specialize (H y Sy). lra.
  Qed.
End Flip.

Lemma vopp_zero_iff : forall g, Forall (fun v => v = 0) (vopp g) <-> Forall (fun v => v = 0) g.
Proof.
  induction g as [|a g IH]; cbn; split; intros H; try constructor; inversion H; subst; try lra;
    apply IH; assumption.
Qed.

Lemma kkt1_min_opp : forall b x g, kkt1_min b x (- g) <-> kkt1 b x g.
Proof.
  intros b x g; unfold kkt1_min, kkt1; split; intros [H | [[H1 H2] | [H1 H2]]];
    [left; lra | right; left; split; [assumption | lra] | right; right; split; [assumption | lra]
    | left; lra | right; left; split; [assumption | lra] | right; right; split; [assumption | lra]].
Qed.

(* first-order optimality for  min (-L)  with the gradient the optimiser sees  =  first-order optimality for max L *)
Lemma kkt_min_vopp : forall bs x g, kkt_min bs x (vopp g) <-> kkt bs x g.
Proof.
  induction bs as [|b bs IH]; intros [|xi x] [|gi g]; cbn; try tauto.
  rewrite kkt1_min_opp, IH. tauto.
Qed.

(* ================================================================== first-order optimality on a box *)
Lemma kkt_dot_nonpos : forall bs x g y, kkt bs x g -> in_box bs y -> dot g (vsub y x) <= 0.
Proof.
  induction bs as [|b bs IH]; intros [|xi x] [|gi g] y K B; cbn in K; try contradiction;
    inversion B; subst; cbn; try lra.
  destruct K as [K1 K].
  match goal with H : Forall2 _ bs _ |- _ => specialize (IH x g _ K H) end.
  match goal with H : in_bound b _ |- _ => destruct H as [Hl Hu] end.
  assert (gi * (y0 - xi) <= 0); [| lra].
  destruct K1 as [-> | [[E Hg] | [E Hg]]].
  - lra.
  - rewrite E in Hl. cbn in Hl. assert (0 <= y0 - xi) by lra. nra.
  - rewrite E in Hu. cbn in Hu. assert (y0 - xi <= 0) by lra. nra.
Qed.

(* T07f *)
Lemma concave_kkt : forall (L : vec -> R) (gradL : vec -> vec) bs x,
  (forall y, in_box bs y -> L y <= L x + dot (gradL x) (vsub y x)) ->
  kkt bs x (gradL x) ->
  forall y, in_box bs y -> L y <= L x.
Proof.
  intros L gradL bs x C K y By. specialize (C y By).
  pose proof (kkt_dot_nonpos bs x (gradL x) y K By). lra.
Qed.

Lemma kkt_points_agree : forall (L : vec -> R) (gradL : vec -> vec) bs x1 x2,
  (forall x y, in_box bs x -> in_box bs y -> L y <= L x + dot (gradL x) (vsub y x)) ->
  in_box bs x1 -> in_box bs x2 -> kkt bs x1 (gradL x1) -> kkt bs x2 (gradL x2) ->
  L x1 = L x2.
Proof.
  intros L gradL bs x1 x2 C B1 B2 K1 K2.
  pose proof (concave_kkt L gradL bs x1 (fun y By => C x1 y B1 By) K1 x2 B2).
  pose proof (concave_kkt L gradL bs x2 (fun y By => C x2 y B2 By) K2 x1 B1).
  lra.
Qed.

(* quantitative version: what a gradient that is only small buys *)
Lemma kkt_eps_dot : forall eps bs x g y, 0 <= eps -> kkt_eps eps bs x g -> in_box bs y ->
  dot g (vsub y x) <= eps * norm1 (vsub y x).
Proof.
  intros eps; induction bs as [|b bs IH]; intros [|xi x] [|gi g] y He K B; cbn in K; try contradiction;
    inversion B; subst; cbn; try lra.
  destruct K as [K1 K].
  match goal with H : Forall2 _ bs _ |- _ => specialize (IH x g _ He K H) end.
  match goal with H : in_bound b _ |- _ => destruct H as [Hl Hu] end.
  assert (gi * (y0 - xi) <= eps * Rabs (y0 - xi)); [| lra].
  pose proof (Rabs_pos (y0 - xi)) as Hp.
  destruct K1 as [Hg | [[E Hg] | [E Hg]]].
  - apply Rle_trans with (Rabs (gi * (y0 - xi))); [apply Rle_abs |].
    rewrite Rabs_mult. nra.
  - rewrite E in Hl. cbn in Hl. assert (0 <= y0 - xi) by lra. nra.
  - rewrite E in Hu. cbn in Hu. assert (y0 - xi <= 0) by lra. nra.
Qed.

Lemma concave_kkt_eps : forall (L : vec -> R) (gradL : vec -> vec) eps bs x, 0 <= eps ->
  (forall y, in_box bs y -> L y <= L x + dot (gradL x) (vsub y x)) ->
  kkt_eps eps bs x (gradL x) ->
  forall y, in_box bs y -> L y <= L x + eps * norm1 (vsub y x).
Proof.
  intros L gradL eps bs x He C K y By. specialize (C y By).
  pose proof (kkt_eps_dot eps bs x (gradL x) y He K By). lra.
Qed.

Lemma norm1_vsub_sym : forall a b, norm1 (vsub a b) = norm1 (vsub b a).
Proof.
  induction a as [|x a IH]; intros [|y b]; cbn; try reflexivity.
  rewrite IH. f_equal. rewrite <- Rabs_Ropp. f_equal. lra.
Qed.

Lemma kkt_eps_points_agree : forall (L : vec -> R) (gradL : vec -> vec) eps bs x1 x2, 0 <= eps ->
  (forall x y, in_box bs x -> in_box bs y -> L y <= L x + dot (gradL x) (vsub y x)) ->
  in_box bs x1 -> in_box bs x2 -> kkt_eps eps bs x1 (gradL x1) -> kkt_eps eps bs x2 (gradL x2) ->
  Rabs (L x1 - L x2) <= eps * norm1 (vsub x1 x2).
Proof.
  intros L gradL eps bs x1 x2 He C B1 B2 K1 K2.
  pose proof (concave_kkt_eps L gradL eps bs x1 He (fun y By => C x1 y B1 By) K1 x2 B2) as H1.
  pose proof (concave_kkt_eps L gradL eps bs x2 He (fun y By => C x2 y B2 By) K2 x1 B1) as H2.
  rewrite (norm1_vsub_sym x2 x1) in H1.
  apply Rabs_le. lra.
Qed.

(* the projected gradient P(x + g) - x is zero exactly at the first-order points *)
Lemma projgrad_zero_iff_kkt1 : forall b x g, in_bound b x -> (projgrad1 b x g = 0 <-> kkt1 b x g).
Proof.
  intros [[l|] [u|]] x g [Hl Hu]; cbn in Hl, Hu; unfold projgrad1, clip, kkt1; cbn; split.
  - intros H. unfold Rmin, Rmax in H.
    destruct (Rle_dec l (x + g)); destruct (Rle_dec u _).
    + right; right; split; [f_equal; lra | lra].
    + left; lra.
    + right; left; split; [f_equal; lra | lra].
    + right; left; split; [f_equal; lra | lra].
  - intros [-> | [[E Hg] | [E Hg]]]; unfold Rmin, Rmax.
    + destruct (Rle_dec l (x + 0)); destruct (Rle_dec u _); lra.
    + injection E as ->. destruct (Rle_dec x (x + g)); destruct (Rle_dec u _); lra.
    + injection E as ->. destruct (Rle_dec l (x + g)); destruct (Rle_dec x _); lra.
  - intros H. unfold Rmax in H. destruct (Rle_dec l (x + g)).
    + left; lra.
    + right; left; split; [f_equal; lra | lra].
  - intros [-> | [[E Hg] | [E Hg]]]; unfold Rmax.
    + destruct (Rle_dec l (x + 0)); lra.
    + injection E as ->. destruct (Rle_dec x (x + g)); lra.
    + discriminate.
  - intros H. unfold Rmin in H. destruct (Rle_dec u (x + g)).
    + right; right; split; [f_equal; lra | lra].
    + left; lra.
  - intros [-> | [[E Hg] | [E Hg]]]; unfold Rmin.
    + destruct (Rle_dec u (x + 0)); lra.
    + discriminate.
    + injection E as ->. destruct (Rle_dec x (x + g)); lra.
  - intros H. left; lra.
  - intros [-> | [[E Hg] | [E Hg]]]; try discriminate. lra.
Qed.

(* ================================================================== the estimate model, instantiated *)
Definition all_algorithm_names : list string := "automatic"%string :: map fst algorithms.

Definition fwd (a : string) : bool := forwards_bounds algorithms wrappers algorithm_name a.
Definition routine (a : string) : option (string * bool) := routine_of algorithms wrappers algorithm_name a.

(* decided on the generated tables *)
Lemma routines_table :
  map (fun a => (a, routine a)) all_algorithm_names =
  [("automatic", Some ("biogeme_optimization.simple_bounds.simple_bounds_newton_algorithm", true));
   ("scipy", Some ("scipy.optimize.minimize", true));
   ("LS-newton", Some ("biogeme_optimization.linesearch.newton_line_search", false));
   ("TR-newton", Some ("biogeme_optimization.trust_region.newton_trust_region", false));
   ("LS-BFGS", Some ("biogeme_optimization.linesearch.bfgs_line_search", false));
   ("TR-BFGS", Some ("biogeme_optimization.trust_region.bfgs_trust_region", false));
   ("simple_bounds", Some ("biogeme_optimization.simple_bounds.simple_bounds_newton_algorithm", true));
   ("simple_bounds_newton", Some ("biogeme_optimization.simple_bounds.simple_bounds_newton_algorithm", true));
   ("simple_bounds_BFGS", Some ("biogeme_optimization.simple_bounds.simple_bounds_newton_algorithm", true))]%string.
Proof. vm_compute. reflexivity. Qed.

Lemma algorithms_forwarding_bounds :
  filter fwd all_algorithm_names =
  ["automatic"; "scipy"; "simple_bounds"; "simple_bounds_newton"; "simple_bounds_BFGS"]%string.
Proof. vm_compute. reflexivity. Qed.

Lemma algorithms_dropping_bounds :
  filter (fun a => negb (fwd a)) all_algorithm_names = ["LS-newton"; "TR-newton"; "LS-BFGS"; "TR-BFGS"]%string.
Proof. vm_compute. reflexivity. Qed.

Lemma unknown_algorithm_refused : forall a, ~ In a all_algorithm_names -> routine a = None.
Proof.
  intros a H. unfold routine, routine_of.
  assert (E : algorithm_name a = a).
  { unfold algorithm_name. destruct (String.eqb_spec a "automatic"); [|reflexivity].
    subst. exfalso. apply H. left. reflexivity. }
  rewrite E.
  assert (forall l : list (string * string), ~ In a (map fst l) -> assoc a l = None) as A.
  { induction l as [|[k v] l IH]; cbn; intros Hn; [reflexivity|].
    destruct (String.eqb_spec a k); [subst; exfalso; apply Hn; left; reflexivity | apply IH; tauto]. }
  rewrite A; [reflexivity|]. intros I. apply H. right. exact I.
Qed.

(* the statements of the main path of estimate(), as modelled by Estim.estimate *)
Lemma estimate_skeleton_ok :
  estimate_skeleton =
  ["self._set_function_parameters()";
   "self._set_algorithm_parameters()";
   "if self.save_iterations: self._load_saved_iteration()";
   "self.calculate_init_likelihood()";
   "output = self.optimize(np.array(self.id_manager.free_betas_values))";
   "xstar, optimization_messages, convergence = output";
   "self.convergence = convergence";
   "f_g_h_b: BiogemeFunctionOutput = self.calculate_likelihood_and_derivatives(xstar, scaled=False, hessian=True, bhhh=True)";
   "if run_bootstrap: <bootstrap block>";
   "raw_results = res.RawResults(self, xstar, f_g_h_b, bootstrap=self.bootstrap_results)";
   "r = res.bioResults(raw_results, identification_threshold=self.identification_threshold)";
   "estimated_betas = r.get_beta_values()";
   "self.change_init_values(estimated_betas)";
   "return r"]%string.
Proof. reflexivity. Qed.

(* RawResults stores what it is given *)
Lemma raw_results_fields_ok :
  forallb (fun kv => match assoc (fst kv) raw_results_fields with
                     | Some v => String.eqb v (snd kv) | None => false end)
    [("betaValues", "beta_values"); ("betaNames", "the_model.id_manager.free_betas.names");
     ("initLogLike", "the_model.initLogLike"); ("logLike", "f_g_h_b.function"); ("g", "f_g_h_b.gradient");
     ("H", "f_g_h_b.hessian"); ("bhhh", "f_g_h_b.bhhh"); ("convergence", "the_model.convergence")]%string = true.
Proof. vm_compute. reflexivity. Qed.

Section Est.
  Variable L : vec -> R.
  Variable gradL : vec -> vec.
  Variables hessL bhhhL junk_h junk_b : vec -> mat.
  Variable N : R.
  Variable P : Type.
  Variable ext : string -> P -> objective -> vec -> option (list bound) -> opt_result.

  Definition est := estimate L gradL hessL bhhhL junk_h junk_b N negative_likelihood algorithms wrappers
                             algorithm_name P ext.
  Definition the_objective : objective :=
    negative_likelihood (calculate_likelihood L N)
                        (calculate_likelihood_and_derivatives L gradL hessL bhhhL junk_h junk_b N).

  (* what estimate returns, spelled out *)
  Lemma estimate_unfold : forall alg p si saved s r s',
    est alg p si saved s = Some (r, s') ->
    let s1 := load_saved si saved s in
    let i := st_idm s1 in
    exists rt fb,
      routine alg = Some (rt, fb) /\
      let out := ext rt p the_objective (free_values i) (if fb then Some (free_bounds i) else None) in
      r = mkRaw (free_names i) (solution out) (free_bounds i) (L (free_values i))
                (L (solution out)) (gradL (solution out)) (hessL (solution out)) (bhhhL (solution out))
                (convergence out) /\
      s' = mkState (map (change_init_formula (combine (free_names i) (solution out))) (st_formulas s1))
                   (mkIdm (free_names i) (overlay (free_names i) (free_values i) (combine (free_names i) (solution out)))
                          (free_bounds i)).
  Proof.
    intros alg p si saved s r s' E. unfold est, estimate, optimize in E. cbn zeta in E.
    fold (routine alg) in E.
    destruct (routine alg) as [[rt fb]|] eqn:R; [|discriminate].
    exists rt, fb. split; [reflexivity|]. cbn zeta. cbn in E. injection E as <- <-. split; reflexivity.
  Qed.

  (* T07b *)
  Lemma reported_is_recomputed : forall alg p si saved s r s',
    est alg p si saved s = Some (r, s') ->
    r_logLike r = L (r_betaValues r) /\ r_g r = gradL (r_betaValues r) /\
    r_H r = hessL (r_betaValues r) /\ r_bhhh r = bhhhL (r_betaValues r) /\
    r_initLogLike r = L (free_values (st_idm (load_saved si saved s))) /\
    r_betaNames r = free_names (st_idm (load_saved si saved s)) /\
    r_bounds r = free_bounds (st_idm (load_saved si saved s)).
  Proof.
    intros alg p si saved s r s' E. apply estimate_unfold in E. cbn zeta in E.
    destruct E as (rt & fb & _ & -> & _). cbn. repeat split; reflexivity.
  Qed.

  (* T07c: under the oracle hypothesis "descent method" *)
  Lemma final_ge_init : forall alg p si saved s r s',
    (forall rt o x0 b fs f0, obj_f o (solution (ext rt p o x0 b)) = Some fs -> obj_f o x0 = Some f0 -> fs <= f0) ->
    est alg p si saved s = Some (r, s') ->
    r_initLogLike r <= r_logLike r.
  Proof.
    intros alg p si saved s r s' D E. apply estimate_unfold in E. cbn zeta in E.
    destruct E as (rt & fb & _ & -> & _). cbn.
    set (i := st_idm (load_saved si saved s)).
    specialize (D rt the_objective (free_values i) (if fb then Some (free_bounds i) else None)
                  (- L (solution (ext rt p the_objective (free_values i) (if fb then Some (free_bounds i) else None))))
                  (- L (free_values i)) eq_refl eq_refl).
    lra.
  Qed.

  (* T07d: under the oracle hypothesis "the routine returns a point of the box it is handed" *)
  Lemma bounds_respected : forall alg p si saved s r s',
    (forall rt, let i := st_idm (load_saved si saved s) in
                in_box (free_bounds i) (solution (ext rt p the_objective (free_values i) (Some (free_bounds i))))) ->
    fwd alg = true ->
    est alg p si saved s = Some (r, s') ->
    in_box (r_bounds r) (r_betaValues r).
  Proof.
    intros alg p si saved s r s' F W E. apply estimate_unfold in E. cbn zeta in E, F.
    destruct E as (rt & fb & R & -> & _). cbn.
    unfold fwd, forwards_bounds in W. fold (routine alg) in W. rewrite R in W. subst fb. apply F.
  Qed.

  (* T07e: write-back *)
  Lemma assoc_combine_nth : forall (names : list string) (vals : vec) k,
    NoDup names -> (k < List.length names)%nat -> List.length vals = List.length names ->
    assoc (nth k names ""%string) (combine names vals) = Some (nth k vals 0).
  Proof.
    induction names as [|n names IH]; intros [|v vals] k ND Hk HL; cbn in *; try lia.
    inversion ND; subst.
    destruct k as [|k].
    - rewrite String.eqb_refl. reflexivity.
    - destruct (String.eqb_spec (nth k names ""%string) n) as [E|_].
      + exfalso. match goal with H : ~ In n names |- _ => apply H end. rewrite <- E. apply nth_In. lia.
      + apply IH; [assumption | lia | lia].
  Qed.

  Lemma assoc_combine_none : forall (names : list string) (vals : vec) n,
    ~ In n names -> assoc n (combine names vals) = None.
  Proof.
    induction names as [|m names IH]; intros [|v vals] n H; cbn; try reflexivity.
    destruct (String.eqb_spec n m); [subst; exfalso; apply H; left; reflexivity|].
    apply IH. intros I. apply H. right. exact I.
  Qed.

  Lemma change_init_beta_spec : forall d b,
    let b' := change_init_beta d b in
    b_name b' = b_name b /\ b_lb b' = b_lb b /\ b_ub b' = b_ub b /\ b_fixed b' = b_fixed b /\
    b_init b' = match assoc (b_name b) d with Some v => v | None => b_init b end.
  Proof.
    intros d b. unfold change_init_beta. destruct (assoc (b_name b) d) as [v|]; cbn.
    - destruct (Req_EM_T v (b_init b)) as [->|]; cbn; repeat split; reflexivity.
    - repeat split; reflexivity.
  Qed.

  Lemma overlay_skip : forall ns vs n (x : R) d, ~ In n ns -> overlay ns vs ((n, x) :: d) = overlay ns vs d.
  Proof.
    induction ns as [|m ns IH]; intros [|v vs] n x d H; cbn; try reflexivity.
    destruct (String.eqb_spec m n) as [E|_]; [exfalso; apply H; left; exact E|].
    f_equal. apply IH. intros I. apply H. right. exact I.
  Qed.

  Lemma overlay_combine : forall ns vs xs, NoDup ns -> List.length vs = List.length ns -> List.length xs = List.length ns ->
    overlay ns vs (combine ns xs) = xs.
  Proof.
    induction ns as [|n ns IH]; intros [|v vs] [|x xs] ND H1 H2; cbn in *; try lia; try reflexivity.
    inversion ND; subst. rewrite String.eqb_refl. f_equal.
    rewrite overlay_skip by assumption. apply IH; [assumption | lia | lia].
  Qed.

  Lemma writeback : forall alg p si saved s r s',
    est alg p si saved s = Some (r, s') ->
    NoDup (r_betaNames r) -> List.length (r_betaValues r) = List.length (r_betaNames r) ->
    List.length (free_values (st_idm (load_saved si saved s))) = List.length (r_betaNames r) ->
    free_names (st_idm s') = r_betaNames r /\ free_values (st_idm s') = r_betaValues r /\
    free_bounds (st_idm s') = r_bounds r /\
    Forall2 (Forall2 (fun b b' =>
        b_name b' = b_name b /\ b_lb b' = b_lb b /\ b_ub b' = b_ub b /\ b_fixed b' = b_fixed b /\
        (forall k, (k < List.length (r_betaNames r))%nat -> b_name b = nth k (r_betaNames r) ""%string ->
                   b_init b' = nth k (r_betaValues r) 0) /\
        (~ In (b_name b) (r_betaNames r) -> b' = b)))
      (st_formulas (load_saved si saved s)) (st_formulas s').
  Proof.
    intros alg p si saved s r s' E ND HL HV. apply estimate_unfold in E. cbn zeta in E.
    destruct E as (rt & fb & _ & -> & ->). cbn in *. split; [reflexivity|].
    split; [apply overlay_combine; assumption|]. split; [reflexivity|].
    set (d := combine _ _).
    induction (st_formulas (load_saved si saved s)) as [|f fs IHf]; cbn; constructor; [|exact IHf].
    induction f as [|b f IHb]; cbn; constructor; [|exact IHb].
    pose proof (change_init_beta_spec d b) as (H1 & H2 & H3 & H4 & H5). cbn zeta in *.
    repeat split; try assumption.
    - intros k Hk En. rewrite H5, En. unfold d. rewrite assoc_combine_nth; auto.
    - intros Hn. unfold change_init_beta. fold d. unfold d. rewrite assoc_combine_none; auto.
  Qed.
End Est.

(* the clause "whenever the algorithm supports bounds" is necessary: for each of the four algorithms whose
   wrapper drops the bounds there is a routine honouring its contract (it stays in the box it is handed) for
   which estimate() returns a point outside the declared bounds *)
Lemma bounds_dropped_refuted : forall alg, In alg ["LS-newton"; "TR-newton"; "LS-BFGS"; "TR-BFGS"]%string ->
  exists (ext : string -> unit -> objective -> vec -> option (list bound) -> opt_result) s r s',
    (forall rt o x0 bs, in_box bs x0 -> in_box bs (solution (ext rt tt o x0 (Some bs)))) /\
    in_box (free_bounds (st_idm s)) (free_values (st_idm s)) /\
    est (fun _ => 0) (fun _ => []) (fun _ => []) (fun _ => []) (fun _ => []) (fun _ => []) 1 unit ext
        alg tt false None s = Some (r, s') /\
    ~ in_box (r_bounds r) (r_betaValues r).
Proof.
  intros alg H.
  exists (fun _ _ _ x0 b => match b with Some _ => mkOpt x0 true | None => mkOpt [5] true end).
  exists (mkState [] (mkIdm ["b"%string] [0] [(None, Some 1)])).
  cbn in H.
  assert (forall a, a = "LS-newton"%string \/ a = "TR-newton"%string \/ a = "LS-BFGS"%string \/ a = "TR-BFGS"%string ->
                    routine a <> None /\ fwd a = false) as T.
  { intros a [-> | [-> | [-> | ->]]]; vm_compute; split; congruence. }
  assert (alg = "LS-newton"%string \/ alg = "TR-newton"%string \/ alg = "LS-BFGS"%string \/ alg = "TR-BFGS"%string) as HA
    by (destruct H as [<- | [<- | [<- | [<- | []]]]]; tauto).
  destruct (T alg HA) as [Rn Fw].
  unfold est, estimate, optimize. cbn zeta. fold (routine alg).
  destruct (routine alg) as [[rt fb]|] eqn:R; [|congruence].
  unfold fwd, forwards_bounds in Fw. fold (routine alg) in Fw. rewrite R in Fw. subst fb.
  eexists. eexists. split; [|split; [|split; [reflexivity|]]].
  - intros; assumption.
  - cbn. constructor; [|constructor]. split; cbn; [exact I | lra].
  - cbn. intros B. inversion B; subst. match goal with H : in_bound _ 5 |- _ => destruct H as [_ Hu] end.
    cbn in Hu. lra.
Qed.

(* ================================================================== option plumbing, on the generated tables *)
Fixpoint set_key (k v : string) (d : list (string * string)) : list (string * string) :=
  match d with
  | [] => [(k, v)]
  | (k', v') :: r => if String.eqb k k' then (k, v) :: r else (k', v') :: set_key k v r
  end.

(* the chain of wrappers down to the one calling an external routine: that wrapper's option list, and the
   entries of `parameters` overridden on the way (outermost first) *)
Fixpoint chain (fuel : nat) (w : string) : option (list (string * string * string) * list (string * string)) :=
  match fuel with
  | O => None
  | S f =>
      match assoc w wrappers with
      | None => None
      | Some i =>
          if w_external i then
            match assoc w wrapper_options with Some o => Some (o, []) | None => None end
          else
            match assoc w wrapper_overrides, chain f (w_callee i) with
            | Some ov, Some (o, ov') => Some (o, (ov ++ ov')%list)
            | _, _ => None
            end
      end
  end.

Definition token_of (settings : list (string * string)) (s : psrc) : string :=
  match s with
  | PAttr a => match assoc a settings with Some t => t | None => ("?" ++ a)%string end
  | PConst t => t
  end.

(* the keyword arguments the external routine receives for algorithm `alg`, as tokens: a value of `settings`
   (the BIOGEME properties), a literal of the source, or the wrapper's default *)
Definition expected_call (alg : string) (is_model_complex : bool) (settings : list (string * string))
  : option (string * bool * list (string * string)) :=
  match routine alg, assoc (algorithm_name alg) algorithms with
  | Some (rt, fb), Some w =>
      match chain (S (List.length wrappers)) w with
      | None => None
      | Some (opts, overrides) =>
          let params0 := match set_algorithm_parameters alg is_model_complex with
                         | Some ps => map (fun kv => (fst kv, token_of settings (snd kv))) ps
                         | None => []
                         end in
          let params := fold_left (fun d kv => set_key (fst kv) (snd kv) d) overrides params0 in
          Some (rt, fb,
                map (fun o => let '(kw, key, dflt) := o in
                              (kw, match assoc key params with Some t => t | None => dflt end)) opts)
      end
  | _, _ => None
  end.

Definition marker_settings : list (string * string) :=
  map (fun a => (a, ("<" ++ a ++ ">")%string))
      ["second_derivatives"; "tolerance"; "max_iterations"; "infeasible_cg"; "initial_radius"; "steptol";
       "enlarging_factor"; "dogleg"]%string.

(* where each keyword of each routine comes from (symbolic run of the generated tables) *)
Lemma option_plumbing_table :
  map (fun a => (a, option_map snd (expected_call a false marker_settings))) all_algorithm_names =
  [("automatic", Some [("proportion_analytical_hessian", "1/1"); ("first_radius", "<initial_radius>");
                       ("conjugate_gradient_tol", "expr:np.finfo(np.float64).eps ** 0.3333");
                       ("maxiter", "<max_iterations>"); ("eta1", "3602879701896397/36028797018963968");
                       ("eta2", "8106479329266893/9007199254740992"); ("enlarging_factor", "<enlarging_factor>")]);
   ("scipy", Some [("options", "expr:{'ftol': np.finfo(np.float64).eps, 'gtol': absgtol}")]);
   ("LS-newton", Some [("maxiter", "<max_iterations>")]);
   ("TR-newton", Some [("use_dogleg", "<dogleg>"); ("maxiter", "<max_iterations>"); ("initial_radius", "<initial_radius>")]);
   ("LS-BFGS", Some [("init_bfgs", "None"); ("maxiter", "<max_iterations>")]);
   ("TR-BFGS", Some [("init_bfgs", "None"); ("use_dogleg", "<dogleg>"); ("maxiter", "<max_iterations>");
                     ("initial_radius", "<initial_radius>")]);
   ("simple_bounds", Some [("proportion_analytical_hessian", "<second_derivatives>"); ("first_radius", "<initial_radius>");
                           ("conjugate_gradient_tol", "expr:np.finfo(np.float64).eps ** 0.3333");
                           ("maxiter", "<max_iterations>"); ("eta1", "3602879701896397/36028797018963968");
                           ("eta2", "8106479329266893/9007199254740992"); ("enlarging_factor", "<enlarging_factor>")]);
   ("simple_bounds_newton", Some [("proportion_analytical_hessian", "1/1"); ("first_radius", "<initial_radius>");
                                  ("conjugate_gradient_tol", "expr:np.finfo(np.float64).eps ** 0.3333");
                                  ("maxiter", "<max_iterations>"); ("eta1", "3602879701896397/36028797018963968");
                                  ("eta2", "8106479329266893/9007199254740992"); ("enlarging_factor", "<enlarging_factor>")]);
   ("simple_bounds_BFGS", Some [("proportion_analytical_hessian", "0/1"); ("first_radius", "<initial_radius>");
                                ("conjugate_gradient_tol", "expr:np.finfo(np.float64).eps ** 0.3333");
                                ("maxiter", "<max_iterations>"); ("eta1", "3602879701896397/36028797018963968");
                                ("eta2", "8106479329266893/9007199254740992"); ("enlarging_factor", "<enlarging_factor>")])]%string.
Proof. vm_compute. reflexivity. Qed.

Lemma automatic_complex_uses_bfgs :
  option_map (fun c => assoc "proportion_analytical_hessian"%string (snd c)) (expected_call "automatic" true marker_settings)
  = Some (Some "0/1"%string).
Proof. vm_compute. reflexivity. Qed.

(* every option _set_algorithm_parameters prepares for an algorithm is read by the wrapper that finally calls the
   routine -- except infeasibleConjugateGradient (parameter infeasible_cg), which no wrapper reads *)
Definition option_read (alg key : string) : bool :=
  match assoc (algorithm_name alg) algorithms with
  | Some w => match chain (S (List.length wrappers)) w with
              | Some (opts, _) => existsb (fun o => String.eqb (snd (fst o)) key) opts
              | None => false end
  | None => false
  end.

Lemma options_consumed :
  forallb (fun a => forallb (fun cx =>
     match set_algorithm_parameters a cx with
     | Some ps => forallb (fun kv => String.eqb (fst kv) "infeasibleConjugateGradient" || option_read a (fst kv)) ps
     | None => true end) [true; false]) all_algorithm_names = true.
Proof. vm_compute. reflexivity. Qed.

Lemma infeasible_cg_never_read :
  existsb (fun a => option_read a "infeasibleConjugateGradient") all_algorithm_names = false.
Proof. vm_compute. reflexivity. Qed.

(* tolerance and steptol of section [SimpleBounds] reach FunctionToMinimize(epsilon=, steptol=) *)
Lemma function_parameters_reach_base :
  map (fun kw => (fst kw, option_map (token_of marker_settings) (assoc (snd kw) function_parameters)))
      function_parameters_plumbing
  = [("epsilon", Some "<tolerance>"); ("steptol", Some "<steptol>")]%string.
Proof. vm_compute. reflexivity. Qed.

(* and the sections of biogeme.toml these parameters live in *)
Lemma option_sections :
  map (fun a => (a, assoc a parameter_sections))
      ["optimization_algorithm"; "save_iterations"; "second_derivatives"; "tolerance"; "max_iterations";
       "infeasible_cg"; "initial_radius"; "steptol"; "enlarging_factor"; "dogleg"]%string
  = [("optimization_algorithm", Some "Estimation"); ("save_iterations", Some "Estimation");
     ("second_derivatives", Some "SimpleBounds"); ("tolerance", Some "SimpleBounds");
     ("max_iterations", Some "SimpleBounds"); ("infeasible_cg", Some "SimpleBounds");
     ("initial_radius", Some "SimpleBounds"); ("steptol", Some "SimpleBounds");
     ("enlarging_factor", Some "SimpleBounds"); ("dogleg", Some "TrustRegion")]%string.
Proof. vm_compute. reflexivity. Qed.

(* the starting point after `if self.save_iterations: self._load_saved_iteration()`: the k-th free parameter starts at the
   value the restart file gives to its name, otherwise at its declared start; without the option, or when the file cannot
   be read, nothing changes *)
Lemma overlay_nth : forall names vals d k,
  (k < List.length names)%nat -> List.length vals = List.length names ->
  nth k (overlay names vals d) 0 =
  match assoc (nth k names ""%string) d with Some w => w | None => nth k vals 0 end.
Proof.
  induction names as [|n names IH]; intros [|v vals] d k Hk HL; cbn in *; try lia.
  destruct k as [|k]; [reflexivity|]. apply IH; lia.
Qed.

Lemma restart_start : forall si saved s k,
  let i := st_idm s in
  (k < List.length (free_names i))%nat -> List.length (free_values i) = List.length (free_names i) ->
  nth k (free_values (st_idm (load_saved si saved s))) 0 =
  match (if si then saved else None) with
  | Some d => match assoc (nth k (free_names i) ""%string) d with Some w => w | None => nth k (free_values i) 0 end
  | None => nth k (free_values i) 0
  end.
Proof.
  intros si saved s k i Hk HL. unfold load_saved.
  destruct si; [|reflexivity]. destruct saved as [d|]; [|reflexivity].
  cbn. apply overlay_nth; assumption.
Qed.

(* ================================================================== bootstrap: the results are those of the estimation itself *)
Lemma fold_optimize_effect_inert : forall writes outs c,
  existsb (String.eqb "self.convergence") writes = false -> fold_left (optimize_effect writes) outs c = c.
Proof.
  intros writes outs c H. induction outs as [|o outs IH]; cbn; [reflexivity|].
  unfold optimize_effect at 2. rewrite H. exact IH.
Qed.

Lemma optimize_records_nothing : optimize_attribute_stores = [].
Proof. reflexivity. Qed.

Section Boot.
  Variable L : vec -> R.
  Variable gradL : vec -> vec.
  Variables hessL bhhhL junk_h junk_b : vec -> mat.
  Variable N : R.
  Variable P : Type.
  Variable ext : string -> P -> objective -> vec -> option (list bound) -> opt_result.

  Definition est_boot := estimate_bootstrap L gradL hessL bhhhL junk_h junk_b N negative_likelihood algorithms wrappers
                                            algorithm_name P ext.

  (* with optimize() as it is in the source (it assigns no attribute), whatever the re-estimations return: *)
  Lemma bootstrap_keeps_main : forall alg p si saved samples s r boots s',
    est_boot optimize_attribute_stores alg p si saved samples s = Some (r, boots, s') ->
    est L gradL hessL bhhhL junk_h junk_b N P ext alg p si saved s = Some (r, s') /\
    exists rt fb, routine alg = Some (rt, fb) /\
      boots = map (fun o => solution (ext rt p o (r_betaValues r) (if fb then Some (r_bounds r) else None))) samples.
  Proof.
    intros alg p si saved samples s r boots s' E. unfold est_boot, estimate_bootstrap in E. fold (routine alg) in E.
    unfold est.
    destruct (estimate L gradL hessL bhhhL junk_h junk_b N negative_likelihood algorithms wrappers algorithm_name P ext
                       alg p si saved s) as [[r0 s0]|]; [|discriminate].
    destruct (routine alg) as [[rt fb]|] eqn:R; [|discriminate].
    rewrite fold_optimize_effect_inert in E by reflexivity.
    assert (set_convergence r0 (r_convergence r0) = r0) as S0 by (destruct r0; reflexivity).
    rewrite S0, map_map in E. injection E as <- <- <-. split; [reflexivity|]. exists rt, fb. split; reflexivity.
  Qed.
End Boot.

(* if optimize() recorded the convergence status itself, the reported status would be the one of the last re-estimation *)
Lemma bootstrap_overwrites_refuted :
  exists (ext : string -> unit -> objective -> vec -> option (list bound) -> opt_result) s sample r boots s' r0 s0,
    est (fun _ => 0) (fun _ => []) (fun _ => []) (fun _ => []) (fun _ => []) (fun _ => []) 1 unit ext
        "simple_bounds" tt false None s = Some (r0, s0) /\
    est_boot (fun _ => 0) (fun _ => []) (fun _ => []) (fun _ => []) (fun _ => []) (fun _ => []) 1 unit ext
        ["self.convergence"%string] "simple_bounds" tt false None [sample] s = Some (r, boots, s') /\
    r_convergence r0 = false /\ r_convergence r = true.
Proof.
  exists (fun _ _ _ x0 _ => match x0 with
                            | [a] => if Req_EM_T a 0 then mkOpt [1/2] false else mkOpt [1/2] true
                            | _ => mkOpt [] false end).
  exists (mkState [] (mkIdm ["b"%string] [0] [(None, None)])).
  exists (mkObj (fun _ => None) (fun _ => None) (fun _ => None)).
  unfold est_boot, estimate_bootstrap, est, estimate, optimize. cbn zeta.
  replace (routine_of algorithms wrappers algorithm_name "simple_bounds")
    with (Some ("biogeme_optimization.simple_bounds.simple_bounds_newton_algorithm"%string, true)) by (vm_compute; reflexivity).
  cbn. destruct (Req_EM_T 0 0) as [_|E]; [|exfalso; apply E; reflexivity]. cbn.
  destruct (Req_EM_T (1/2) 0) as [E|_]; [lra|]. cbn.
  repeat eexists.
Qed.

(* ================================================================== the arrays of second derivatives *)
Lemma evals_fresh_preserves : forall ms st a, (a < List.length st)%nat -> read (evals true st ms) a = read st a.
Proof.
  induction ms as [|m ms IH]; intros st a H; [reflexivity|].
  change (evals true st (m :: ms)) with (evals true (st ++ [m])%list ms).
  rewrite IH by (rewrite app_length; lia).
  unfold read. apply app_nth1. exact H.
Qed.

Lemma stored_result_stable : forall st m ms,
  read (evals true (fst (eval_into true st m)) ms) (snd (eval_into true st m)) = m.
Proof.
  intros st m ms. change (eval_into true st m) with ((st ++ [m])%list, List.length st). cbn [fst snd].
  rewrite evals_fresh_preserves by (rewrite app_length; cbn; lia).
  unfold read. rewrite app_nth2 by lia. rewrite Nat.sub_diag. reflexivity.
Qed.

Lemma shared_buffer_refuted : exists st m ms,
  read (evals false (fst (eval_into false st m)) ms) (snd (eval_into false st m)) <> m.
Proof.
  exists [], [[1]], [[[2]]]. cbn. intros H. injection H as H. lra.
Qed.

(* with the allocation found in the source on this run *)
Lemma generated_buffers_stable : forall st m ms,
  read (evals derivative_buffers_fresh (fst (eval_into derivative_buffers_fresh st m)) ms)
       (snd (eval_into derivative_buffers_fresh st m)) = m.
Proof. exact stored_result_stable. Qed.

Lemma bootstrap_skeleton_ok :
  bootstrap_skeleton = ["for b in range(self.bootstrap_samples):"; "x_br, _, _ = self.optimize(xstar)";
                        "self.bootstrap_results[b] = x_br"]%string.
Proof. reflexivity. Qed.

(* ================================================================== the engine holds the estimation data after a bootstrap run, faulty or not *)
Lemma engine_restored : forall (D : Type) (e : D) rs, fst (bootstrap_engine true e rs) = e.
Proof. intros D e rs. induction rs as [|[d [|]] rs IH]; cbn; auto. Qed.

Lemma engine_restored_generated : forall (D : Type) (e : D) rs, fst (bootstrap_engine bootstrap_restores_in_finally e rs) = e.
Proof. exact engine_restored. Qed.

Lemma engine_not_restored_refuted : exists (e : nat) rs, fst (bootstrap_engine false e rs) <> e.
Proof. exists 0%nat, [(1%nat, Fault)]. cbn. discriminate. Qed.

Lemma bootstrap_finally_ok :
  bootstrap_finally =
  ["self._saving_suspended = False";
   "if self.database.is_panel(): self.theC.setDataMap(self.database.individualMap) else: self.theC.setData(self.database.data)"]%string.
Proof. reflexivity. Qed.

(* ================================================================== objects used by the non-vacuity examples of Properties/C07.v *)
Definition ex_ext : string -> unit -> objective -> vec -> option (list bound) -> opt_result :=
  fun _ _ _ _ _ => mkOpt [1/2] true.
Definition ex_state : state :=
  mkState [[mkBeta "b" 0 None (Some 1) false; mkBeta "fix" 3 None None true; mkBeta "b" 0 None (Some 1) false]]
          (mkIdm ["b"%string] [0] [(None, Some 1)]).
