(* C08 -- proofs about the GENERATED definitions of Gen/Stats.v (translated on every run from
   /repo/src/biogeme/results.py and tools/likelihood_ratio.py) and about the small matrix model. *)
From Coq Require Import Reals ZArith List String Bool Lia Lra.
From BV Require Import Model.PyBase Proofs.PyBaseP Model.Stats Gen.Stats.
Open Scope R_scope.

(* ------------------------------------------------------------------ booleans on R *)
Lemma Reqb_true a b : Reqb a b = true <-> a = b.
Proof. unfold Reqb. destruct (Req_EM_T a b); split; congruence. Qed.
Lemma Reqb_false a b : Reqb a b = false <-> a <> b.
Proof. unfold Reqb. destruct (Req_EM_T a b); split; congruence. Qed.
Lemma Rltb_true a b : Rltb a b = true <-> a < b.
Proof. unfold Rltb. destruct (Rlt_dec a b); split; intros; try congruence; lra. Qed.
Lemma Rltb_false a b : Rltb a b = false <-> b <= a.
Proof. unfold Rltb. destruct (Rlt_dec a b); split; intros; try congruence; lra. Qed.
Lemma Rleb_true a b : Rleb a b = true <-> a <= b.
Proof. unfold Rleb. destruct (Rle_dec a b); split; intros; try congruence; lra. Qed.
Lemma Rleb_false a b : Rleb a b = false <-> b < a.
Proof. unfold Rleb. destruct (Rle_dec a b); split; intros; try congruence; lra. Qed.
Lemma Rgtb_true a b : Rgtb a b = true <-> a > b.
Proof. unfold Rgtb. rewrite Rltb_true. lra. Qed.
Lemma Rgtb_false a b : Rgtb a b = false <-> a <= b.
Proof. unfold Rgtb. rewrite Rltb_false. lra. Qed.

(* ------------------------------------------------------------------ T08a: scalar statistics *)
Lemma scalars_spec : forall (Lnull L0 : option R) (L : R) (K N : Z),
  (forall l, Lnull = Some l -> l <> 0) -> (forall l, L0 = Some l -> l <> 0) ->
  calculate_stats_scalars Lnull L0 L K N =
    (option_map (fun l => spec_LR l L) Lnull,
     option_map (fun l => spec_LR l L) L0,
     option_map (fun l => spec_rho2 l L) L0,
     option_map (fun l => spec_rho2 l L) Lnull,
     option_map (fun l => spec_rhobar2 l L K) L0,
     option_map (fun l => spec_rhobar2 l L K) Lnull,
     spec_AIC L K, spec_BIC L K N).
Proof.
  intros Lnull L0 L K N Hn H0.
  unfold calculate_stats_scalars, spec_LR, spec_rho2, spec_rhobar2, spec_AIC, spec_BIC, nan_to_num.
  destruct Lnull as [lnull|], L0 as [l0|]; simpl;
    repeat match goal with
    | |- context [Reqb ?x 0] =>
        let E := fresh in
        assert (E : Reqb x 0 = false) by (apply Reqb_false; auto); rewrite E; clear E
    end; simpl; repeat f_equal; ring.
Qed.

(* the same, one statistic at a time, in the form of the property text *)
Lemma scalars_formulas : forall lnull l0 L K N, lnull <> 0 -> l0 <> 0 ->
  calculate_stats_scalars (Some lnull) (Some l0) L K N =
    (Some (-2 * (lnull - L)), Some (-2 * (l0 - L)), Some (1 - L / l0), Some (1 - L / lnull),
     Some (1 - (L - IZR K) / l0), Some (1 - (L - IZR K) / lnull),
     2 * IZR K - 2 * L, -2 * L + IZR K * ln (IZR N)).
Proof.
  intros. rewrite scalars_spec; [reflexivity| |]; intros l E; injection E as <-; assumption.
Qed.

(* ------------------------------------------------------------------ T08b: t and p per family *)
Section Families.
  Variables (fmax : R) (Phi : R -> R).

  Lemma calc_p_value_spec t : calc_p_value Phi t = spec_p Phi t.
  Proof. reflexivity. Qed.

  Lemma set_std_err_spec value se : se <> 0 ->
    set_std_err fmax Phi value se = (se, value / se, 2 * (1 - Phi (Rabs (value / se)))).
  Proof.
    intros H. unfold set_std_err, calc_p_value, nan_to_num.
    replace (Reqb se (IZR 0)) with false by (symmetry; apply Reqb_false; exact H). reflexivity.
  Qed.

  Lemma set_robust_std_err_spec value se : se <> 0 ->
    set_robust_std_err fmax Phi value se = (se, value / se, 2 * (1 - Phi (Rabs (value / se)))).
  Proof.
    intros H. unfold set_robust_std_err, calc_p_value, nan_to_num.
    replace (Reqb se (IZR 0)) with false by (symmetry; apply Reqb_false; exact H). reflexivity.
  Qed.

  (* regression guard: before the repair the p-value was computed from the ROBUST t statistic; the
     generated definition then takes the old robust_tTest as an extra argument and this statement
     no longer typechecks / holds. *)
  Lemma set_bootstrap_std_err_spec value se : se <> 0 ->
    set_bootstrap_std_err fmax Phi value se = (se, value / se, 2 * (1 - Phi (Rabs (value / se)))).
  Proof.
    intros H. unfold set_bootstrap_std_err, calc_p_value, nan_to_num.
    replace (Reqb se (IZR 0)) with false by (symmetry; apply Reqb_false; exact H). reflexivity.
  Qed.

  (* in every family and for every std_err (zero included) the p-value is the p-value of THAT family's t *)
  Lemma family_p_of_own_t value se :
    (let '(_, t, p) := set_std_err fmax Phi value se in p = spec_p Phi t) /\
    (let '(_, t, p) := set_robust_std_err fmax Phi value se in p = spec_p Phi t) /\
    (let '(_, t, p) := set_bootstrap_std_err fmax Phi value se in p = spec_p Phi t).
  Proof. repeat split. Qed.

  Lemma set_std_err_zero value :
    set_std_err fmax Phi value 0 = (0, fmax, spec_p Phi fmax) /\
    set_robust_std_err fmax Phi value 0 = (0, fmax, spec_p Phi fmax) /\
    set_bootstrap_std_err fmax Phi value 0 = (0, fmax, spec_p Phi fmax).
  Proof.
    unfold set_std_err, set_robust_std_err, set_bootstrap_std_err, calc_p_value, spec_p.
    replace (Reqb 0 (IZR 0)) with true by (symmetry; apply Reqb_true; reflexivity). repeat split.
  Qed.

  (* the standard error handed to each setter is the square root of the diagonal of that family's matrix *)
  Lemma se_arg_spec (m : matrix) (i : Z) : 0 <= m i i ->
    se_arg_set_std_err fmax m i = sqrt (m i i) /\
    se_arg_set_robust_std_err fmax m i = sqrt (m i i) /\
    se_arg_set_bootstrap_std_err fmax m i = sqrt (m i i).
  Proof.
    intros H. unfold se_arg_set_std_err, se_arg_set_robust_std_err, se_arg_set_bootstrap_std_err, mget. simpl.
    replace (Rltb (m i i) (IZR 0)) with false by (symmetry; apply Rltb_false; exact H). repeat split.
  Qed.

  (* ---------------------------------------------------------------- T08c: pairwise tests *)
  Lemma calculate_test_spec (b : vector) (m : matrix) (i j : Z) :
    0 < m i i + m j j - 2 * m i j ->
    calculate_test fmax b i j m = (b i - b j) / sqrt (m i i + m j j - 2 * m i j).
  Proof.
    intros H. unfold calculate_test, mget, vget. simpl.
    replace (Rleb (m i i + m j j - 2 * m i j) (IZR 0)) with false by (symmetry; apply Rleb_false; exact H).
    reflexivity.
  Qed.

  Lemma calculate_test_degenerate (b : vector) (m : matrix) (i j : Z) :
    m i i + m j j - 2 * m i j <= 0 -> calculate_test fmax b i j m = fmax.
  Proof.
    intros H. unfold calculate_test, mget, vget. simpl.
    replace (Rleb (m i i + m j j - 2 * m i j) (IZR 0)) with true by (symmetry; apply Rleb_true; exact H).
    reflexivity.
  Qed.

  (* ---------------------------------------------------------------- is_bound_active *)
  Lemma is_bound_active_spec value lb ub thr : 0 <= thr ->
    exists b, is_bound_active value lb ub thr = Some b /\
      (b = true <-> (exists l, lb = Some l /\ Rabs (value - l) <= thr) \/
                    (exists u, ub = Some u /\ Rabs (value - u) <= thr)).
  Proof.
    intros H. unfold is_bound_active.
    replace (Rltb thr (IZR 0)) with false by (symmetry; apply Rltb_false; exact H).
    destruct lb as [l|], ub as [u|].
    - destruct (Rleb (Rabs (value - l)) thr) eqn:E1.
      + exists true. split; [reflexivity|]. split; [|reflexivity]. intros _. left. exists l. split; [reflexivity|].
        apply Rleb_true. exact E1.
      + destruct (Rleb (Rabs (value - u)) thr) eqn:E2.
        * exists true. split; [reflexivity|]. split; [|reflexivity]. intros _. right. exists u. split; [reflexivity|].
          apply Rleb_true. exact E2.
        * exists false. split; [reflexivity|]. split; [discriminate|].
          apply Rleb_false in E1. apply Rleb_false in E2.
          intros [(x & Ex & Hx)|(x & Ex & Hx)]; injection Ex as <-; lra.
    - destruct (Rleb (Rabs (value - l)) thr) eqn:E1.
      + exists true. split; [reflexivity|]. split; [|reflexivity]. intros _. left. exists l. split; [reflexivity|].
        apply Rleb_true. exact E1.
      + exists false. split; [reflexivity|]. split; [discriminate|].
        apply Rleb_false in E1.
        intros [(x & Ex & Hx)|(x & Ex & Hx)]; [injection Ex as <-; lra | discriminate].
    - destruct (Rleb (Rabs (value - u)) thr) eqn:E2.
      + exists true. split; [reflexivity|]. split; [|reflexivity]. intros _. right. exists u. split; [reflexivity|].
        apply Rleb_true. exact E2.
      + exists false. split; [reflexivity|]. split; [discriminate|].
        apply Rleb_false in E2.
        intros [(x & Ex & Hx)|(x & Ex & Hx)]; [discriminate | injection Ex as <-; lra].
    - exists false. split; [reflexivity|]. split; [discriminate|].
      intros [(x & Ex & _)|(x & Ex & _)]; discriminate.
  Qed.

  Lemma is_bound_active_negative value lb ub thr : thr < 0 -> is_bound_active value lb ub thr = None.
  Proof.
    intros H. unfold is_bound_active.
    replace (Rltb thr (IZR 0)) with true by (symmetry; apply Rltb_true; exact H). reflexivity.
  Qed.
End Families.

Lemma family_wiring_spec :
  family_wiring = [("set_std_err", "varCovar"); ("set_robust_std_err", "robust_varCovar");
                   ("set_bootstrap_std_err", "bootstrap_varCovar")]%string.
Proof. reflexivity. Qed.

(* ------------------------------------------------------------------ T08e: range and monotonicity of p *)
Section PhiHyp.
  Variable Phi : R -> R.
  Hypothesis Phi_mono : forall x y, x <= y -> Phi x <= Phi y.
  Hypothesis Phi_le_1 : forall x, Phi x <= 1.
  Hypothesis Phi_0 : Phi 0 = 1 / 2.

  Lemma p_range t : 0 <= calc_p_value Phi t <= 1.
  Proof.
    unfold calc_p_value.
    pose proof (Phi_le_1 (Rabs t)). pose proof (Phi_mono 0 (Rabs t) (Rabs_pos t)). lra.
  Qed.

  Lemma p_decreasing t1 t2 : Rabs t1 <= Rabs t2 -> calc_p_value Phi t2 <= calc_p_value Phi t1.
  Proof. intros H. unfold calc_p_value. pose proof (Phi_mono _ _ H). lra. Qed.

  Lemma p_even t : calc_p_value Phi (- t) = calc_p_value Phi t.
  Proof. unfold calc_p_value. rewrite Rabs_Ropp. reflexivity. Qed.
End PhiHyp.

(* a function satisfying the three hypotheses (non-vacuity): the clamped ramp *)
Definition Phi_ramp (x : R) : R := Rmax 0 (Rmin 1 ((x + 1) / 2)).
Lemma Phi_ramp_ok :
  (forall x y, x <= y -> Phi_ramp x <= Phi_ramp y) /\ (forall x, Phi_ramp x <= 1) /\ Phi_ramp 0 = 1 / 2.
Proof.
  unfold Phi_ramp, Rmax, Rmin. repeat split; intros; repeat destruct (Rle_dec _ _); lra.
Qed.

(* ------------------------------------------------------------------ finite sums *)
Lemma rsum_ext n f g : (forall k, (k < n)%nat -> f k = g k) -> rsum n f = rsum n g.
Proof.
  induction n as [|n IH]; intros H; simpl; [reflexivity|].
  rewrite IH by (intros; apply H; lia). rewrite H by lia. reflexivity.
Qed.

Lemma rsum_plus n f g : rsum n (fun k => f k + g k) = rsum n f + rsum n g.
Proof. induction n as [|n IH]; simpl; [ring|]. rewrite IH. ring. Qed.

Lemma rsum_minus n f g : rsum n (fun k => f k - g k) = rsum n f - rsum n g.
Proof. induction n as [|n IH]; simpl; [ring|]. rewrite IH. ring. Qed.

Lemma rsum_opp n f : rsum n (fun k => - f k) = - rsum n f.
Proof. induction n as [|n IH]; simpl; [ring|]. rewrite IH. ring. Qed.

Lemma rsum_scal_l n c f : rsum n (fun k => c * f k) = c * rsum n f.
Proof. induction n as [|n IH]; simpl; [ring|]. rewrite IH. ring. Qed.

Lemma rsum_scal_r n c f : rsum n (fun k => f k * c) = rsum n f * c.
Proof. induction n as [|n IH]; simpl; [ring|]. rewrite IH. ring. Qed.

Lemma rsum_zero n : rsum n (fun _ => 0) = 0.
Proof. induction n as [|n IH]; simpl; [reflexivity|]. rewrite IH. ring. Qed.

Lemma rsum_swap n m (f : nat -> nat -> R) :
  rsum n (fun i => rsum m (fun j => f i j)) = rsum m (fun j => rsum n (fun i => f i j)).
Proof.
  induction n as [|n IH]; simpl.
  - rewrite rsum_zero. reflexivity.
  - rewrite IH. rewrite <- rsum_plus. reflexivity.
Qed.

Lemma rsum_delta n i f : (i < n)%nat ->
  rsum n (fun k => (if Nat.eqb k i then 1 else 0) * f k) = f i.
Proof.
  induction n as [|n IH]; intros H; [lia|]. simpl.
  destruct (Nat.eq_dec i n) as [->|Hne].
  - rewrite Nat.eqb_refl.
    rewrite (rsum_ext n _ (fun _ => 0)).
    + rewrite rsum_zero. ring.
    + intros k Hk. replace (Nat.eqb k n) with false by (symmetry; apply Nat.eqb_neq; lia). ring.
  - rewrite IH by lia. replace (Nat.eqb n i) with false by (symmetry; apply Nat.eqb_neq; lia). ring.
Qed.

(* ------------------------------------------------------------------ matrices *)
Definition dot (n : nat) (x y : nvec) : R := rsum n (fun i => x i * y i).

Lemma quad_dot n A x : quad n A x = dot n x (mvec n A x).
Proof.
  unfold quad, dot, mvec. apply rsum_ext. intros i _.
  rewrite <- rsum_scal_l. apply rsum_ext. intros j _. ring.
Qed.

Lemma dot_ext n x x' y y' :
  (forall i, (i < n)%nat -> x i = x' i) -> (forall i, (i < n)%nat -> y i = y' i) -> dot n x y = dot n x' y'.
Proof. intros Hx Hy. unfold dot. apply rsum_ext. intros i Hi. rewrite Hx, Hy by assumption. reflexivity. Qed.

Lemma mvec_ext n A A' x x' :
  meq n A A' -> (forall i, (i < n)%nat -> x i = x' i) ->
  forall i, (i < n)%nat -> mvec n A x i = mvec n A' x' i.
Proof.
  intros HA Hx i Hi. unfold mvec. apply rsum_ext. intros k Hk. rewrite HA, Hx by assumption. reflexivity.
Qed.

(* <x, A y> = <A^T x, y> *)
Lemma dot_adjoint n A x y : dot n x (mvec n A y) = dot n (mvec n (mtrans A) x) y.
Proof.
  unfold dot, mvec, mtrans.
  rewrite (rsum_ext n _ (fun i => rsum n (fun k => x i * A i k * y k))).
  2:{ intros i _. rewrite <- rsum_scal_l. apply rsum_ext. intros k _. ring. }
  rewrite rsum_swap. apply rsum_ext. intros k _.
  rewrite <- rsum_scal_r. apply rsum_ext. intros i _. ring.
Qed.

Lemma mvec_mmul n A B x i : mvec n (mmul n A B) x i = mvec n A (mvec n B x) i.
Proof.
  unfold mvec, mmul.
  rewrite (rsum_ext n _ (fun k => rsum n (fun l => A i l * B l k * x k))).
  2:{ intros k _. rewrite <- rsum_scal_r. reflexivity. }
  rewrite rsum_swap. apply rsum_ext. intros l _.
  rewrite <- rsum_scal_l. apply rsum_ext. intros k _. ring.
Qed.

Lemma mmul_ext n A A' B B' : meq n A A' -> meq n B B' -> meq n (mmul n A B) (mmul n A' B').
Proof.
  intros HA HB i j Hi Hj. unfold mmul. apply rsum_ext. intros k Hk. rewrite HA, HB by assumption. reflexivity.
Qed.

Lemma mmul_opp_l n A B i j : mmul n (mopp A) B i j = - mmul n A B i j.
Proof. unfold mmul, mopp. rewrite <- rsum_opp. apply rsum_ext. intros. ring. Qed.

Lemma mmul_opp_r n A B i j : mmul n A (mopp B) i j = - mmul n A B i j.
Proof. unfold mmul, mopp. rewrite <- rsum_opp. apply rsum_ext. intros. ring. Qed.

Lemma mmul_ext_all n A A' B B' : (forall i j, A i j = A' i j) -> (forall i j, B i j = B' i j) ->
  forall i j, mmul n A B i j = mmul n A' B' i j.
Proof. intros HA HB i j. unfold mmul. apply rsum_ext. intros k _. rewrite HA, HB. reflexivity. Qed.

(* ------------------------------------------------------------------ T08d: the sandwich V.B.V *)
Section Sandwich.
  Variable n : nat.
  Variables V B : nmat.
  Hypothesis V_sym : msym n V.
  Hypothesis B_psd : mpsd n B.

  Let S := robust_varCovar_of n V B.   (* generated: V.dot(B.dot(V)) *)

  Lemma sandwich_quad x : quad n S x = quad n B (mvec n V x).
  Proof.
    unfold S, robust_varCovar_of. rewrite !quad_dot.
    rewrite (dot_ext n x x (mvec n (mmul n V (mmul n B V)) x) (mvec n V (mvec n B (mvec n V x)))).
    2:{ reflexivity. }
    2:{ intros i Hi. rewrite mvec_mmul. apply mvec_ext; [intros a b _ _; reflexivity| |exact Hi].
        intros k _. apply mvec_mmul. }
    rewrite dot_adjoint. apply dot_ext; [|reflexivity].
    intros i Hi. apply mvec_ext; [|reflexivity|exact Hi].
    intros a b Ha Hb. unfold mtrans. symmetry. apply V_sym; assumption.
  Qed.

  Lemma sandwich_sym : msym n S.
  Proof.
    destruct B_psd as [B_sym _].
    intros i j Hi Hj. unfold S, robust_varCovar_of, mmul.
    rewrite (rsum_ext n _ (fun k => rsum n (fun l => V i k * B k l * V l j))).
    2:{ intros k _. rewrite <- rsum_scal_l. apply rsum_ext. intros l _. ring. }
    rewrite (rsum_ext n (fun k => V j k * _) (fun k => rsum n (fun l => V j k * B k l * V l i))).
    2:{ intros k _. rewrite <- rsum_scal_l. apply rsum_ext. intros l _. ring. }
    rewrite rsum_swap. apply rsum_ext. intros l Hl. apply rsum_ext. intros k Hk.
    rewrite (V_sym i k), (V_sym l j), (B_sym k l) by assumption. ring.
  Qed.

  Lemma sandwich_psd : mpsd n S.
  Proof.
    split; [exact sandwich_sym|]. intros x. rewrite sandwich_quad. apply B_psd.
  Qed.
End Sandwich.

(* quadratic form at e_i - e_j: the radicand of the pairwise test *)
Lemma quad_ediff n (M : nmat) i j : (i < n)%nat -> (j < n)%nat ->
  quad n M (ediff i j) = M i i + M j j - M i j - M j i.
Proof.
  intros Hi Hj. rewrite quad_dot. unfold dot.
  assert (Hm : forall k, mvec n M (ediff i j) k = M k i - M k j).
  { intros k. unfold mvec, ediff.
    rewrite (rsum_ext n _ (fun l => (if Nat.eqb l i then 1 else 0) * M k l - (if Nat.eqb l j then 1 else 0) * M k l)).
    2:{ intros l _. ring. }
    rewrite rsum_minus, !rsum_delta by assumption. reflexivity. }
  rewrite (rsum_ext n _ (fun k => (if Nat.eqb k i then 1 else 0) * (M k i - M k j)
                                  - (if Nat.eqb k j then 1 else 0) * (M k i - M k j))).
  2:{ intros k _. rewrite Hm. unfold ediff. ring. }
  rewrite rsum_minus, !rsum_delta by assumption. ring.
Qed.

Lemma psd_radicand_nonneg n M i j : mpsd n M -> (i < n)%nat -> (j < n)%nat ->
  0 <= M i i + M j j - 2 * M i j.
Proof.
  intros [Hs Hq] Hi Hj. pose proof (Hq (ediff i j)) as H.
  rewrite quad_ediff in H by assumption. rewrite (Hs j i) in H by assumption. lra.
Qed.

(* Z-indexed view of a small matrix, as _calculate_test reads it *)
Definition matrix_of_nmat (A : nmat) : matrix := fun i j => A (Z.to_nat i) (Z.to_nat j).

Lemma robust_radicand_nonneg n V B i j : msym n V -> mpsd n B -> (i < n)%nat -> (j < n)%nat ->
  let S := robust_varCovar_of n V B in 0 <= S i i + S j j - 2 * S i j.
Proof. intros HV HB Hi Hj S. apply (psd_radicand_nonneg n); [apply sandwich_psd; assumption|assumption|assumption]. Qed.

(* hence the robust pairwise test is either the defining formula or the degenerate-case constant, never
   the square root of a negative number *)
Lemma robust_pairwise_defined fmax (b : vector) n V B (i j : Z) :
  msym n V -> mpsd n B -> (0 <= i < Z.of_nat n)%Z -> (0 <= j < Z.of_nat n)%Z ->
  let m := matrix_of_nmat (robust_varCovar_of n V B) in
  let r := m i i + m j j - 2 * m i j in
  0 <= r /\ (0 < r -> calculate_test fmax b i j m = (b i - b j) / sqrt r)
         /\ (r = 0 -> calculate_test fmax b i j m = fmax).
Proof.
  intros HV HB Hi Hj m r.
  assert (Hr : 0 <= r).
  { unfold r, m, matrix_of_nmat. apply robust_radicand_nonneg; try assumption; lia. }
  split; [exact Hr|]. split.
  - intros Hp. apply calculate_test_spec. exact Hp.
  - intros Hz. apply calculate_test_degenerate. fold r. lra.
Qed.

(* ------------------------------------------------------------------ V = pseudo-inverse of -H *)
Section Pinv.
  Variable n : nat.
  Variable pinv : nmat -> nmat.
  Hypothesis pinv_penrose : forall A, penrose n A (pinv A).

  Lemma varCovar_is_pinv_of_minus_H H : penrose n (mopp H) (varCovar_of pinv H).
  Proof.
    unfold varCovar_of, nan_to_num_m.
    destruct (pinv_penrose H) as (P1 & P2 & P3 & P4). set (P := pinv H) in *.
    repeat split.
    - intros i j Hi Hj. rewrite mmul_opp_l.
      rewrite (mmul_ext_all n H H (mmul n (mopp P) (mopp H)) (mmul n P H)); [|reflexivity|].
      2:{ intros a b. rewrite mmul_opp_l, mmul_opp_r. ring. }
      unfold mopp. rewrite P1 by assumption. reflexivity.
    - intros i j Hi Hj. rewrite mmul_opp_l.
      rewrite (mmul_ext_all n P P (mmul n (mopp H) (mopp P)) (mmul n H P)); [|reflexivity|].
      2:{ intros a b. rewrite mmul_opp_l, mmul_opp_r. ring. }
      unfold mopp. rewrite P2 by assumption. reflexivity.
    - intros i j Hi Hj. rewrite !mmul_opp_l, !mmul_opp_r. rewrite (P3 i j) by assumption. reflexivity.
    - intros i j Hi Hj. rewrite !mmul_opp_l, !mmul_opp_r. rewrite (P4 i j) by assumption. reflexivity.
  Qed.
End Pinv.

(* non-vacuity of the hypothesis: a 1 x 1 pseudo-inverse (reciprocal, or 0 for the zero matrix) *)
Definition pinv1 (A : nmat) : nmat := fun _ _ => if Req_EM_T (A O O) 0 then 0 else / A O O.
Lemma pinv1_penrose A : penrose 1 A (pinv1 A).
Proof.
  unfold penrose, meq, msym, mmul, pinv1. simpl.
  repeat split; intros i j Hi Hj; assert (i = O) by lia; assert (j = O) by lia; subst; try reflexivity;
    destruct (Req_EM_T (A O O) 0) as [e|ne]; try rewrite e; try ring; field; exact ne.
Qed.

(* ------------------------------------------------------------------ T08f: rows of the compiled table *)
Open Scope string_scope.

Lemma append_neq_self (a s : string) : s <> "" -> (a ++ s)%string <> a.
Proof.
  intros Hs E. apply (f_equal String.length) in E. rewrite append_length in E.
  destruct s; [congruence|]. simpl in E. lia.
Qed.

Lemma eqb_append_self (a s : string) : s <> "" -> String.eqb (a ++ s) a = false /\ String.eqb a (a ++ s) = false.
Proof.
  intros Hs. split; apply String.eqb_neq; [|intros E; symmetry in E; revert E]; apply append_neq_self; exact Hs.
Qed.

Lemma eqb_append_diff (a s t : string) : s <> t -> String.eqb (a ++ s) (a ++ t) = false.
Proof. intros H. apply String.eqb_neq. intros E. apply append_cancel_l in E. contradiction. Qed.

Lemma compile_rows_std : forall t name,
  lookup_last (compile_rows true t name) (name ++ " (std)") = Some F_robust_stdErr.
Proof.
  intros t name. unfold compile_rows. destruct t; simpl;
    rewrite ?String.eqb_refl, ?(eqb_append_diff name " (std)" " (ttest)") by discriminate;
    reflexivity.
Qed.

Lemma compile_rows_ttest : forall s name,
  lookup_last (compile_rows s true name) (name ++ " (ttest)") = Some F_robust_tTest.
Proof.
  intros s name. unfold compile_rows. destruct s; simpl; rewrite ?String.eqb_refl; reflexivity.
Qed.

Lemma compile_rows_value : forall s t name, lookup_last (compile_rows s t name) name = Some F_value.
Proof.
  intros s t name. unfold compile_rows.
  destruct (eqb_append_self name " (std)") as [_ E1]; [discriminate|].
  destruct (eqb_append_self name " (ttest)") as [_ E2]; [discriminate|].
  destruct s, t; simpl; rewrite ?E1, ?E2, ?String.eqb_refl; reflexivity.
Qed.

(* nothing else is written for this parameter *)
Lemma compile_rows_labels : forall s t name lbl f, In (lbl, f) (compile_rows s t name) ->
  (lbl = name /\ f = F_value) \/ (lbl = name ++ " (std)" /\ f = F_robust_stdErr /\ s = true)
  \/ (lbl = name ++ " (ttest)" /\ f = F_robust_tTest /\ t = true).
Proof.
  intros s t name lbl f. unfold compile_rows. destruct s, t; simpl; intros H;
    repeat (destruct H as [H|H]; [injection H as <- <-; tauto|]); contradiction.
Qed.
Close Scope string_scope.

(* ------------------------------------------------------------------ T08g: likelihood-ratio test *)
Section LRTest.
  Variable chi2_ppf : R -> Z -> R.
  Variable fmt_1f : R -> string.

  Lemma lr_test_spec : forall L1 K1 L2 K2 alpha msg stat thr,
    likelihood_ratio_test chi2_ppf fmt_1f (L1, K1) (L2, K2) alpha = Some (msg, stat, thr) ->
    exists Lu Ku Lr Kr,
      (((Lu, Ku, Lr, Kr) = (L1, K1, L2, K2) /\ L1 > L2 /\ (K2 <= K1)%Z) \/
       ((Lu, Ku, Lr, Kr) = (L2, K2, L1, K1) /\ L1 <= L2 /\ (K1 < K2)%Z)) /\
      Lr <= Lu /\ (Kr <= Ku)%Z /\
      stat = -2 * (Lr - Lu) /\ 0 <= stat /\
      thr = chi2_ppf (1 - alpha) (Ku - Kr)%Z.
  Proof.
    intros L1 K1 L2 K2 alpha msg stat thr. unfold likelihood_ratio_test.
    destruct (Rgtb L1 L2) eqn:EL.
    - apply Rgtb_true in EL. destruct (K1 <? K2)%Z eqn:EK; [discriminate|]. apply Z.ltb_ge in EK.
      intros H. injection H as _ <- <-.
      exists L1, K1, L2, K2. repeat split; try lra; try lia. left. repeat split; try lra; lia.
    - apply Rgtb_false in EL. destruct (K1 >=? K2)%Z eqn:EK; [discriminate|].
      rewrite Z.geb_leb in EK. apply Z.leb_gt in EK.
      intros H. injection H as _ <- <-.
      exists L2, K2, L1, K1. repeat split; try lra; try lia. right. repeat split; try lra; lia.
  Qed.

  Lemma lr_test_refused : forall L1 K1 L2 K2 alpha,
    likelihood_ratio_test chi2_ppf fmt_1f (L1, K1) (L2, K2) alpha = None <->
    (L1 > L2 /\ (K1 < K2)%Z) \/ (L1 <= L2 /\ (K2 <= K1)%Z).
  Proof.
    intros L1 K1 L2 K2 alpha. unfold likelihood_ratio_test.
    destruct (Rgtb L1 L2) eqn:EL.
    - apply Rgtb_true in EL. destruct (K1 <? K2)%Z eqn:EK.
      + apply Z.ltb_lt in EK. split; [intros _; left; split; [lra|lia]|reflexivity].
      + apply Z.ltb_ge in EK. split; [discriminate|]. intros [[_ H]|[H _]]; [lia|lra].
    - apply Rgtb_false in EL. destruct (K1 >=? K2)%Z eqn:EK.
      + rewrite Z.geb_leb in EK. apply Z.leb_le in EK. split; [intros _; right; split; [lra|lia]|reflexivity].
      + rewrite Z.geb_leb in EK. apply Z.leb_gt in EK. split; [discriminate|]. intros [[H _]|[_ H]]; [lra|lia].
  Qed.

  Lemma lr_test_message : forall L1 K1 L2 K2 alpha msg stat thr,
    likelihood_ratio_test chi2_ppf fmt_1f (L1, K1) (L2, K2) alpha = Some (msg, stat, thr) ->
    msg = ((if Rleb stat thr then "H0 cannot be rejected at level " else "H0 can be rejected at level ")
           ++ fmt_1f (100 * alpha) ++ "%")%string.
  Proof.
    intros L1 K1 L2 K2 alpha msg stat thr. unfold likelihood_ratio_test.
    destruct (Rgtb L1 L2); [destruct (K1 <? K2)%Z|destruct (K1 >=? K2)%Z]; try discriminate;
      intros H; injection H as <- <- <-; match goal with |- context [Rleb ?a ?b] => destruct (Rleb a b) end; reflexivity.
  Qed.

  (* bioResults.likelihood_ratio_test passes the OTHER model first; the roles are then assigned by the
     likelihood order above, so the call is symmetric up to the refusal conditions *)
  Lemma results_lr_test_spec : forall selfL otherL selfK otherK alpha,
    results_likelihood_ratio_test chi2_ppf fmt_1f selfL otherL selfK otherK tt alpha =
    likelihood_ratio_test chi2_ppf fmt_1f (otherL, otherK) (selfL, selfK) alpha.
  Proof. reflexivity. Qed.
End LRTest.

(* ------------------------------------------------------------------ T08i: histories of one raw-results object *)
(* with the attribute list GENERATED from bioResults._clear_stats: after one processing, whatever the object
   carried before, a derived attribute is present iff the matrix of its family is held now *)
Lemma process_spec : forall (st : dstate) (step : bool * bool) (a : attr),
  In a derived_attrs -> process clear_stats_attrs step st a = held_now step a.
Proof.
  intros st [h b] a Ha. unfold derived_attrs, classical_attrs, robust_attrs, bootstrap_attrs, table_attrs in Ha.
  simpl in Ha.
  repeat (destruct Ha as [<- | Ha]; [destruct h, b; reflexivity|]). contradiction.
Qed.

Lemma run_history_spec : forall (hist : list (bool * bool)) (st : dstate) (step : bool * bool) (a : attr),
  In a derived_attrs -> run_history clear_stats_attrs (hist ++ [step]) st a = held_now step a.
Proof.
  intros hist st step a Ha. unfold run_history. rewrite fold_left_app. simpl. apply process_spec. exact Ha.
Qed.

(* without the clearing step the statement is false: a removed Hessian leaves the old figures (the defect
   repaired in /repo by a9d0370) *)
Lemma no_clear_refuted : exists st step a, In a derived_attrs /\ process [] step st a <> held_now step a.
Proof.
  exists (fun _ => true), (false, false), (A_beta F_robust_stdErr). split; [simpl; tauto|]. discriminate.
Qed.
