(* Proofs about the GENERATED model of tools/files.py:create_backup (Gen/Backup.v). *)
From Coq Require Import ZArith List String Ascii Bool Lia.
From BV Require Import Model.PyBase Model.FsOps Proofs.PyBaseP Proofs.FsOpsP Gen.Backup.
Open Scope Z_scope.

(* The k-th backup candidate (k = 1, 2, ...): base_k.ext *)
Definition bcand (base ext : string) (k : nat) : string :=
  (base ++ "_" ++ string_of_Z (Z.of_nat k) ++ ext)%string.

Lemma bcand_inj base ext i j : bcand base ext i = bcand base ext j -> i = j.
Proof.
  unfold bcand. intros H. apply append_cancel_l in H. injection H as H.
  apply append_cancel_r in H. apply string_of_Z_inj in H. lia.
Qed.

Section Loop.
  Variables (fs : list string) (base ext : string).

  Let cond := fun (x : string * Z) => let '(new_name, counter) := x in true.
  Let step := fun (x : string * Z) => let '(new_name, counter) := x in
    let new_name := (base ++ "_" ++ string_of_Z counter ++ ext)%string in
    if negb (path_exists fs new_name) then ((new_name, counter), false)
    else (let counter := (counter + 1) in ((new_name, counter), true)).

  (* candidates k .. k+m-1 exist, candidate k+m does not: the loop stops there, whatever
     (dead) name the state carried on entry *)
  Lemma backup_loop_runs : forall m k fuel x0,
    (m < fuel)%nat ->
    (forall j, (k <= j < k + m)%nat -> In (bcand base ext j) fs) ->
    ~ In (bcand base ext (k + m)) fs ->
    while_brk fuel cond step (x0, Z.of_nat k) =
      Some (bcand base ext (k + m), Z.of_nat (k + m)%nat).
  Proof.
    induction m as [|m IH]; intros k fuel x0 Hf Hin Hout.
    - replace (k + 0)%nat with k in * by lia.
      destruct fuel as [|fuel]; [lia|].
      cbn [while_brk]. unfold cond at 1. unfold step at 1.
      change (base ++ "_" ++ string_of_Z (Z.of_nat k) ++ ext)%string with (bcand base ext k).
      apply path_exists_false in Hout. rewrite Hout. reflexivity.
    - destruct fuel as [|fuel]; [lia|].
      cbn [while_brk]. unfold cond at 1. unfold step at 1.
      change (base ++ "_" ++ string_of_Z (Z.of_nat k) ++ ext)%string with (bcand base ext k).
      assert (Hc : path_exists fs (bcand base ext k) = true).
      { apply path_exists_In. apply Hin. lia. }
      rewrite Hc. cbn [negb].
      replace (Z.of_nat k + 1) with (Z.of_nat (S k)) by lia.
      replace (k + S m)%nat with (S k + m)%nat in * by lia.
      apply IH; [lia| |exact Hout].
      intros j Hj. apply Hin. lia.
  Qed.
End Loop.

(* least free backup index among 1 .. |fs|+1 *)
Lemma backup_least_free fs base ext :
  exists k, (1 <= k <= S (List.length fs))%nat /\ ~ In (bcand base ext k) fs /\
            forall j, (1 <= j < k)%nat -> In (bcand base ext j) fs.
Proof.
  destruct (least_free_gen (fun i => bcand base ext (S i)) fs) as (m & Hm & Hout & Hin).
  { intros i j H. apply bcand_inj in H. lia. }
  exists (S m). split; [lia|]. split; [exact Hout|].
  intros j Hj. destruct j as [|j]; [lia|]. apply Hin. lia.
Qed.

(* create_backup on the names of directory d, when the file exists: name computation *)
Lemma create_backup_name fs filename rename :
  In filename fs ->
  exists k n, (1 <= k <= S (List.length fs))%nat /\
    n = bcand (fst (splitext filename)) (snd (splitext filename)) k /\
    ~ In n fs /\
    (forall j, (1 <= j < k)%nat -> In (bcand (fst (splitext filename)) (snd (splitext filename)) j) fs) /\
    forall fuel, (S (List.length fs) <= fuel)%nat ->
      create_backup fs fuel filename rename =
        Some (Some ((if rename then FsRename filename n else FsCopy filename n), n)).
Proof.
  intros Hex.
  destruct (backup_least_free fs (fst (splitext filename)) (snd (splitext filename)))
    as (k & Hk & Hout & Hin).
  exists k, (bcand (fst (splitext filename)) (snd (splitext filename)) k).
  split; [exact Hk|]. split; [reflexivity|]. split; [exact Hout|]. split; [exact Hin|].
  intros fuel Hfuel. unfold create_backup.
  destruct (splitext filename) as [base ext] eqn:Es. cbn [fst snd] in *.
  apply path_exists_In in Hex. rewrite Hex.
  pose proof (backup_loop_runs fs base ext (k - 1) 1 fuel ""%string) as L.
  replace (1 + (k - 1))%nat with k in L by lia.
  change (Z.of_nat 1) with 1 in L.
  cbv zeta in L. cbv zeta.
  rewrite L; [destruct rename; reflexivity|lia| |exact Hout].
  intros j Hj. apply Hin. lia.
Qed.

(* T14c.  create_backup, as translated from the source, on a directory d:
   - if the file does not exist nothing is requested;
   - if it exists with content c, the backup name n is the least free candidate
     base_1.ext, base_2.ext, ... (so it does not exist), and after the requested effect
     (os.rename or shutil.copy) n holds c, every other file is untouched, and the original is
     gone (rename) or intact (copy). *)
Theorem create_backup_spec (d : dir) (filename : string) (rename : bool) (c : string) :
  lookup d filename = Some c ->
  exists k n eff,
    (1 <= k <= S (List.length d))%nat /\
    n = bcand (fst (splitext filename)) (snd (splitext filename)) k /\
    (fst (splitext filename) ++ snd (splitext filename))%string = filename /\
    eff = (if rename then FsRename filename n else FsCopy filename n) /\
    (forall fuel, (S (List.length d) <= fuel)%nat ->
       create_backup (names d) fuel filename rename = Some (Some (eff, n))) /\
    ~ In n (names d) /\
    (forall j, (1 <= j < k)%nat ->
       In (bcand (fst (splitext filename)) (snd (splitext filename)) j) (names d)) /\
    lookup (apply_effect d eff) n = Some c /\
    (forall n0, n0 <> filename -> n0 <> n -> lookup (apply_effect d eff) n0 = lookup d n0) /\
    lookup (apply_effect d eff) filename = (if rename then None else Some c).
Proof.
  intros Hl.
  assert (Hex : In filename (names d)) by (eapply lookup_In; eauto).
  destruct (create_backup_name (names d) filename rename Hex) as (k & n & Hk & Hn & Hout & Hin & Hrun).
  unfold names in Hk, Hrun. rewrite map_length in Hk, Hrun.
  exists k, n, (if rename then FsRename filename n else FsCopy filename n).
  split; [exact Hk|]. split; [exact Hn|]. split; [apply splitext_join|].
  split; [reflexivity|]. split; [exact Hrun|]. split; [exact Hout|]. split; [exact Hin|].
  assert (Hne : n <> filename) by (intros ->; apply Hout; exact Hex).
  destruct rename; cbn [apply_effect]; rewrite Hl.
  - split; [apply lookup_fs_write_same|]. split.
    + intros n0 H1 H2. rewrite lookup_fs_write_other by exact H2.
      apply lookup_fs_remove_other. exact H1.
    + rewrite lookup_fs_write_other by congruence. apply lookup_fs_remove_same.
  - split; [apply lookup_fs_write_same|]. split.
    + intros n0 H1 H2. apply lookup_fs_write_other. exact H2.
    + rewrite lookup_fs_write_other by congruence. exact Hl.
Qed.

Theorem create_backup_absent (d : dir) (filename : string) (rename : bool) (fuel : nat) :
  lookup d filename = None -> create_backup (names d) fuel filename rename = Some None.
Proof.
  intros Hl. apply lookup_None in Hl. apply path_exists_false in Hl.
  unfold create_backup. destruct (splitext filename). rewrite Hl. reflexivity.
Qed.
