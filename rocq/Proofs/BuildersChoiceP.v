(* Entry point of the proofs about the choice-model builders (Model/BuildersChoice.v):
   re-exports Proofs/Choice*.v and adds the statements that are true by construction
   (log-probability builders, legacy syntax) and the model of the Nests validation. *)
From Coq Require Import Reals Lra Lia List ZArith Bool String.
From BV Require Export Model.EvalX Model.BuildersChoice
  Proofs.ChoiceBase Proofs.ChoiceLogit Proofs.ChoiceNested Proofs.ChoiceCnl Proofs.ChoiceGen
  Proofs.ChoiceOrdered.
Open Scope R_scope.

(* ------------------------------------------------------------------ T05h, syntactic part *)
(* every probability builder returns exp(the tree of its log-probability builder) *)
Lemma bind_Ok_iff {A B} (r : res A) (f : A -> res B) b :
  bind r f = Ok b <-> exists a, r = Ok a /\ f a = Ok b.
Proof.
  split; [apply bind_Ok|]. intros (a & -> & H). exact H.
Qed.

Theorem prob_is_exp_of_log :
  (forall util av ch t, logit util av ch = Ok t <-> exists l, loglogit util av ch = Ok l /\ t = EUn Exp l) /\
  (forall util g av ch t, mev util g av ch = Ok t <-> exists l, logmev util g av ch = Ok l /\ t = EUn Exp l) /\
  (forall util av a ch t, nested util av a ch = Ok t <-> exists l, lognested util av a ch = Ok l /\ t = EUn Exp l) /\
  (forall util av a ch mu t, nested_mev_mu util av a ch mu = Ok t
                             <-> exists l, lognested_mev_mu util av a ch mu = Ok l /\ t = EUn Exp l) /\
  (forall util av a ch t, cnl util av a ch = Ok t <-> exists l, logcnl util av a ch = Ok l /\ t = EUn Exp l) /\
  (forall util av a ch mu t, cnlmu util av a ch mu = Ok t
                             <-> exists l, logcnlmu util av a ch mu = Ok l /\ t = EUn Exp l).
Proof.
  repeat split.
  - unfold logit, loglogit. intros [= <-]. eauto.
  - unfold logit, loglogit. intros (l & [= <-] & ->). reflexivity.
  - unfold mev. intros H. apply bind_Ok in H as (l & Hl & [= <-]). eauto.
  - unfold mev. intros (l & -> & ->). reflexivity.
  - unfold nested. intros H. apply bind_Ok in H as (l & Hl & [= <-]). eauto.
  - unfold nested. intros (l & -> & ->). reflexivity.
  - unfold nested_mev_mu. intros H. apply bind_Ok in H as (l & Hl & [= <-]). eauto.
  - unfold nested_mev_mu. intros (l & -> & ->). reflexivity.
  - unfold cnl. intros H. apply bind_Ok in H as (l & Hl & [= <-]). eauto.
  - unfold cnl. intros (l & -> & ->). reflexivity.
  - unfold cnlmu. intros H. apply bind_Ok in H as (l & Hl & [= <-]). eauto.
  - unfold cnlmu. intros (l & -> & ->). reflexivity.
Qed.

Lemma mev_es_is_exp_of_log util g av c ch t :
  mev_endogenous_sampling util g av c ch = Ok t
  <-> exists l, logmev_endogenous_sampling util g av c ch = Ok l /\ t = EUn Exp l.
Proof.
  unfold mev_endogenous_sampling. split.
  - intros H. apply bind_Ok in H as (l & Hl & [= <-]). eauto.
  - intros (l & -> & ->). reflexivity.
Qed.

(* ... hence its value is exp of the log-probability: 0 when the latter is -inf *)
Lemma ev_exp_of_log Phi en l :
  evalX Phi (EUn Exp l) en
  = match evalX Phi l en with XR x => XR (exp x) | XmInf => XR 0 | XNaN => XNaN end.
Proof. reflexivity. Qed.

(* ------------------------------------------------------------------ T06d: legacy tuple syntax *)
Theorem legacy_syntax_nested util av l :
  let objs := NNObj (keys util) (map nn_from_tuple l) in
  (forall ch, lognested util av (NNLegacy l) ch = lognested util av objs ch) /\
  (forall ch, nested util av (NNLegacy l) ch = nested util av objs ch) /\
  (forall ch mu, lognested_mev_mu util av (NNLegacy l) ch mu = lognested_mev_mu util av objs ch mu) /\
  (forall ch mu, nested_mev_mu util av (NNLegacy l) ch mu = nested_mev_mu util av objs ch mu) /\
  get_mev_for_nested util av (NNLegacy l) = get_mev_for_nested util av objs /\
  (forall mu, get_mev_for_nested_mu util av (NNLegacy l) mu = get_mev_for_nested_mu util av objs mu) /\
  (forall o, get_mev_generating_for_nested util av (NNLegacy l) o = get_mev_generating_for_nested util av objs o).
Proof. repeat split. Qed.

Theorem legacy_syntax_cnl util av l :
  let objs := CNObj (keys util) (map cn_from_tuple l) in
  (forall ch, logcnl util av (CNLegacy l) ch = logcnl util av objs ch) /\
  (forall ch, cnl util av (CNLegacy l) ch = cnl util av objs ch) /\
  (forall ch mu, logcnlmu util av (CNLegacy l) ch mu = logcnlmu util av objs ch mu) /\
  (forall ch mu, cnlmu util av (CNLegacy l) ch mu = cnlmu util av objs ch mu) /\
  get_mev_for_cross_nested util av (CNLegacy l) = get_mev_for_cross_nested util av objs /\
  (forall mu, get_mev_for_cross_nested_mu util av (CNLegacy l) mu = get_mev_for_cross_nested_mu util av objs mu).
Proof. repeat split. Qed.

(* the legacy tuples equal nest objects whatever names the objects carry *)
Lemma map_snd_combine {A B} (a : list A) (b : list B) :
  List.length a = List.length b -> map snd (combine a b) = b.
Proof.
  revert b. induction a as [|x a IH]; intros [|y b]; simpl; intros H; try discriminate; [reflexivity|].
  f_equal. apply IH. congruence.
Qed.

Theorem legacy_syntax_named_nested util av l (names : list (option string)) :
  List.length names = List.length l ->
  let objs := NNObjNamed (keys util) (combine names (map nn_from_tuple l)) in
  (forall ch, lognested util av (NNLegacy l) ch = lognested util av objs ch) /\
  (forall ch, nested util av (NNLegacy l) ch = nested util av objs ch) /\
  (forall ch mu, lognested_mev_mu util av (NNLegacy l) ch mu = lognested_mev_mu util av objs ch mu) /\
  (forall ch mu, nested_mev_mu util av (NNLegacy l) ch mu = nested_mev_mu util av objs ch mu) /\
  get_mev_for_nested util av (NNLegacy l) = get_mev_for_nested util av objs /\
  (forall mu, get_mev_for_nested_mu util av (NNLegacy l) mu = get_mev_for_nested_mu util av objs mu) /\
  (forall o, get_mev_generating_for_nested util av (NNLegacy l) o = get_mev_generating_for_nested util av objs o).
Proof.
  intros H. unfold NNObjNamed. rewrite map_snd_combine by (now rewrite map_length).
  apply legacy_syntax_nested.
Qed.

Theorem legacy_syntax_named_cnl util av l (names : list (option string)) :
  List.length names = List.length l ->
  let objs := CNObjNamed (keys util) (combine names (map cn_from_tuple l)) in
  (forall ch, logcnl util av (CNLegacy l) ch = logcnl util av objs ch) /\
  (forall ch, cnl util av (CNLegacy l) ch = cnl util av objs ch) /\
  (forall ch mu, logcnlmu util av (CNLegacy l) ch mu = logcnlmu util av objs ch mu) /\
  (forall ch mu, cnlmu util av (CNLegacy l) ch mu = cnlmu util av objs ch mu) /\
  get_mev_for_cross_nested util av (CNLegacy l) = get_mev_for_cross_nested util av objs /\
  (forall mu, get_mev_for_cross_nested_mu util av (CNLegacy l) mu = get_mev_for_cross_nested_mu util av objs mu).
Proof.
  intros H. unfold CNObjNamed. rewrite map_snd_combine by (now rewrite map_length).
  apply legacy_syntax_cnl.
Qed.

(* ------------------------------------------------------------------ Nests validation *)
Lemma In_dedup x l : In x (dedup l) <-> In x l.
Proof.
  induction l as [|a l IH]; simpl; [tauto|]. rewrite filter_In, IH.
  destruct (Z.eqb_spec x a) as [->|Hne]; simpl; [tauto|]. split.
  - intros [H|[H _]]; auto.
  - intros [H|H]; [congruence|auto].
Qed.

(* once Nests.__init__ succeeded, check_union cannot fail: the validity check of the
   cross-nested nests (check_validity) is vacuous, and check_partition reduces to
   check_intersection *)
Theorem check_union_always cs alts al : nests_init cs alts = Ok al -> check_union cs alts al = true.
Proof.
  unfold nests_init. destruct (subsetZ (List.concat alts) cs) eqn:E; [|discriminate]. intros [= <-].
  unfold check_union, set_eqZ. apply andb_true_iff. split; apply subsetZ_incl; intros x Hx.
  - apply in_app_or in Hx as [Hx|Hx].
    + apply subsetZ_incl in E. now apply E.
    + apply filter_In in Hx as [Hx _]. now apply In_dedup.
  - apply in_or_app. destruct (memZ x (List.concat alts)) eqn:Em.
    + left. now apply memZ_In.
    + right. apply filter_In. split; [now apply In_dedup|]. now rewrite Em.
Qed.

(* the alternatives alone are exactly those of the choice set that are in no nest *)
Theorem alone_spec cs alts al x :
  nests_init cs alts = Ok al -> (In x al <-> In x cs /\ ~ In x (List.concat alts)).
Proof.
  unfold nests_init. destruct (subsetZ (List.concat alts) cs); [|discriminate]. intros [= <-].
  rewrite filter_In, In_dedup, negb_true_iff, memZ_false. tauto.
Qed.

(* check_partition accepted => every nest lists each alternative once, the nests are pairwise
   disjoint and disjoint from alone *)
Theorem check_partition_spec n :
  check_partition n = true ->
  (forall m, In m (nl_list n) -> NoDup (nn_alts m)) /\
  pairwise_disjoint (map nn_alts (nl_list n)) = true /\
  (forall m x, In m (nl_list n) -> In x (nn_alts m) -> ~ In x (nl_alone n)).
Proof.
  intros H. destruct (check_partition_inv _ H) as (Hnd & H1 & H2). split; [assumption|]. split; [assumption|].
  intros m x Hm Hx. rewrite forallb_forall in H1.
  assert (Hd : disjointZ (nn_alts m) (nl_alone n) = true) by (apply H1; now apply in_map).
  now apply (disjointZ_spec _ _ x Hd).
Qed.

(* a nest that repeats an alternative is refused (BiogemeError) by every nested-logit builder *)
Theorem repeated_alternative_refused util av a :
  (exists m, In m (nn_arg_nests a) /\ ~ NoDup (nn_alts m)) ->
  (forall ch, lognested util av a ch = Err 1%Z /\ nested util av a ch = Err 1%Z) /\
  (forall ch mu, lognested_mev_mu util av a ch mu = Err 1%Z /\ nested_mev_mu util av a ch mu = Err 1%Z) /\
  get_mev_for_nested util av a = Err 1%Z /\
  (forall mu, get_mev_for_nested_mu util av a mu = Err 1%Z) /\
  (forall o, get_mev_generating_for_nested util av a o = Err 1%Z).
Proof.
  intros (m & Hm & Hdup).
  assert (Hmk : (exists n, nl_make util a = Ok n /\ check_partition n = false) \/ nl_make util a = Err 1%Z).
  { destruct (nl_make util a) as [n|k] eqn:En.
    - left. exists n. split; [reflexivity|].
      destruct (check_partition n) eqn:Ep; [|reflexivity]. exfalso.
      destruct (check_partition_inv _ Ep) as (Hnd & _). apply Hdup, Hnd.
      now rewrite (nl_make_list _ _ _ En).
    - right. destruct a; simpl in En; unfold nests_init in En;
        match type of En with context [subsetZ ?x ?y] => destruct (subsetZ x y) end; simpl in En; congruence. }
  assert (Hg : forall n zd, check_partition n = false -> nl_guard util av n zd = Err 1%Z).
  { intros n zd Hp. unfold nl_guard. now rewrite Hp. }
  destruct Hmk as [(n & En & Hp)|En];
    repeat split; intros;
    unfold nested, lognested, nested_mev_mu, lognested_mev_mu, get_mev_for_nested, get_mev_for_nested_mu,
      get_mev_generating_for_nested; rewrite En; simpl; rewrite ?(Hg n _ Hp); reflexivity.
Qed.

(* ------------------------------------------------------------------ ordered logit / probit *)
Theorem ordered_logit_proper Phi en x xv tau_name fixed tv (dv : Z -> R) vals D :
  evalX Phi x en = XR xv -> e_beta en tau_name = Some tv ->
  (2 <= List.length vals)%nat -> NoDup vals ->
  (forall it, In it (init (tl vals)) -> e_beta en (diff_name tau_name it) = Some (dv it)) ->
  ordered_logit x vals (EBeta tau_name fixed) = Ok D ->
  exists ps,
    keys D = vals /\
    Forall2 (fun kv p => evalX Phi (snd kv) en = XR p) D ps /\
    Rlsum ps = 1 /\
    ((forall it, In it (init (tl vals)) -> 0 <= dv it) -> Forall in_unit ps).
Proof.
  intros Hx Hb Hlen Hnd Hd E.
  destruct (ordered_proper Phi en logisticcdf logisticF (logisticcdf_sem Phi en) x xv Hx tau_name dv
              vals (EBeta tau_name fixed) fixed tv D eq_refl Hb Hlen Hnd Hd E) as (ps & H1 & H2 & H3 & H4).
  exists ps. repeat split; try assumption.
  intros Hpos. apply H4; [assumption|exact logisticF_mono|exact logisticF_range].
Qed.

Theorem ordered_probit_proper Phi en x xv tau_name fixed tv (dv : Z -> R) vals D :
  evalX Phi x en = XR xv -> e_beta en tau_name = Some tv ->
  (2 <= List.length vals)%nat -> NoDup vals ->
  (forall it, In it (init (tl vals)) -> e_beta en (diff_name tau_name it) = Some (dv it)) ->
  ordered_probit x vals (EBeta tau_name fixed) = Ok D ->
  exists ps,
    keys D = vals /\
    Forall2 (fun kv p => evalX Phi (snd kv) en = XR p) D ps /\
    Rlsum ps = 1 /\
    ((forall it, In it (init (tl vals)) -> 0 <= dv it) ->
     (forall a b, a <= b -> Phi a <= Phi b) -> (forall a, 0 <= Phi a <= 1) -> Forall in_unit ps).
Proof.
  intros Hx Hb Hlen Hnd Hd E.
  exact (ordered_proper Phi en normalcdf Phi (normalcdf_sem Phi en) x xv Hx tau_name dv
           vals (EBeta tau_name fixed) fixed tv D eq_refl Hb Hlen Hnd Hd E).
Qed.
