(* Lemmas about the Python-runtime primitives of Model/PyBase.v *)
From Coq Require Import ZArith List String Ascii Bool Lia.
From Coq Require Import DecimalString DecimalZ DecimalPos Decimal.
From BV Require Import Model.PyBase.
Open Scope Z_scope.

(* ---------------------------------------------------------------- strings *)
Lemma append_nil_r (s : string) : (s ++ "")%string = s.
Proof. induction s as [|c s IH]; simpl; congruence. Qed.

Lemma append_assoc (a b c : string) : ((a ++ b) ++ c = a ++ (b ++ c))%string.
Proof. induction a as [|x a IH]; simpl; congruence. Qed.

Lemma append_length (a b : string) :
  String.length (a ++ b) = (String.length a + String.length b)%nat.
Proof. induction a as [|x a IH]; simpl; congruence. Qed.

Lemma append_cancel_l (p a b : string) : (p ++ a = p ++ b)%string -> a = b.
Proof. induction p as [|x p IH]; simpl; intros H; [exact H|]. injection H. exact IH. Qed.

Lemma append_cancel_r (a b s : string) : (a ++ s = b ++ s)%string -> a = b.
Proof.
  revert b; induction a as [|x a IH]; intros [|y b] H; simpl in *.
  - reflexivity.
  - exfalso. apply (f_equal String.length) in H. simpl in H. rewrite append_length in H. lia.
  - exfalso. apply (f_equal String.length) in H. simpl in H. rewrite append_length in H. lia.
  - injection H as -> H. f_equal. apply IH. exact H.
Qed.

(* ---------------------------------------------------------- decimal printing *)
Definition parse_Z (s : string) : option Z := option_map Z.of_int (NilZero.int_of_string s).

Lemma parse_string_of_Z (z : Z) : parse_Z (string_of_Z z) = Some z.
Proof.
  unfold parse_Z, string_of_Z.
  destruct z as [|p|p].
  - reflexivity.
  - rewrite NilZero.isi.
    + simpl option_map. f_equal. exact (DecimalZ.of_to (Z.pos p)).
    + simpl. intros H. injection H. apply Unsigned.to_uint_nonnil.
    + discriminate.
  - rewrite NilZero.isi.
    + simpl option_map. f_equal. exact (DecimalZ.of_to (Z.neg p)).
    + discriminate.
    + simpl. intros H. injection H. apply Unsigned.to_uint_nonnil.
Qed.

Lemma string_of_Z_inj (a b : Z) : string_of_Z a = string_of_Z b -> a = b.
Proof.
  intros H. apply (f_equal parse_Z) in H. rewrite !parse_string_of_Z in H. congruence.
Qed.

Lemma parse_fmt02d (z : Z) : 0 <= z -> parse_Z (fmt02d z) = Some z.
Proof.
  intros Hz. unfold fmt02d.
  destruct ((0 <=? z) && (z <? 10)) eqn:E.
  - assert (H : z = 0 \/ z = 1 \/ z = 2 \/ z = 3 \/ z = 4 \/ z = 5 \/ z = 6 \/ z = 7 \/ z = 8 \/ z = 9) by lia.
    repeat (destruct H as [-> | H]; [reflexivity|]). subst. reflexivity.
  - replace ((-10 <? z) && (z <? 0)) with false by lia.
    apply parse_string_of_Z.
Qed.

Lemma fmt02d_inj (a b : Z) : 0 <= a -> 0 <= b -> fmt02d a = fmt02d b -> a = b.
Proof.
  intros Ha Hb H. apply (f_equal parse_Z) in H. rewrite !parse_fmt02d in H by assumption. congruence.
Qed.

(* ------------------------------------------------------------- directory *)
Lemma is_file_In fs n : is_file fs n = true <-> In n fs.
Proof.
  unfold is_file. rewrite existsb_exists. split.
  - intros (x & Hx & E). apply String.eqb_eq in E. subst. exact Hx.
  - intros H. exists n. split; [exact H | apply String.eqb_refl].
Qed.

Lemma is_file_false fs n : is_file fs n = false <-> ~ In n fs.
Proof. rewrite <- is_file_In. destruct (is_file fs n); split; congruence. Qed.
