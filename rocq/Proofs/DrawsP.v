(* Lemmas about Model/Draws.v (property C10).

   Main results
     moveaxis_index / moveaxis_shape     np.array(list) then moveaxis(0,-1): table[o][r][k] = series_k[o][r]
     run_generators_Ok_iff               generate_draws succeeds exactly along a chain of generator calls
     series_from_own_generator           series k is an output of the generator registered for type(name_k)
     table_indexing                      T10a: idx d = position of d in the sorted names and
                                         table o r (idx d) = series(type d) o r
     table_indexing_consistent           ... and type d is THE declared type when declarations agree
     conflicting_types_refuted           two declarations of one name with different types: accepted, the
                                         first occurrence is fed the other type's series
     shape_enforced / bad_shape_refused  T10c
     set_rng_None_iff / reserved_names / native_not_shadowed / reachable_user_no_native    T10d
     mc_unfold / mc_is_mean / mc_real_inv / engine_draws_own_series    T10b
     mc_plus / mc_scale / mc_const       T10f
     derive_is_partial                   T10e (from the correctness of Model/Deriv.v D, a Section hypothesis) *)
From Coq Require Import Lia Sorting.Sorted.
From BV Require Import Model.Draws Proofs.IdMgrP.
Open Scope nat_scope.

(* ================================================================== 1. lists *)
Lemma nth_error_seq start len i : i < len -> nth_error (seq start len) i = Some (start + i).
Proof.
  revert start i; induction len as [|len IH]; intros start i H; [lia|].
  destruct i as [|i]; cbn [seq nth_error]; [f_equal; lia|].
  rewrite IH by lia. f_equal; lia.
Qed.

Lemma nth_error_flat_olist {X Y} (f : X -> option Y) l k :
  Forall (fun x => f x <> None) l ->
  nth_error (flat_map (fun x => olist (f x)) l) k =
  match nth_error l k with Some x => f x | None => None end.
Proof.
  intros H; revert k; induction H as [|x l Hx Hl IH]; intros k; cbn [flat_map].
  - destruct k; reflexivity.
  - destruct (f x) as [y|] eqn:E; [|congruence]. cbn [olist app].
    destruct k as [|k]; cbn [nth_error]; [symmetry; exact E | apply IH].
Qed.

Lemma length_flat_olist {X Y} (f : X -> option Y) l :
  Forall (fun x => f x <> None) l -> List.length (flat_map (fun x => olist (f x)) l) = List.length l.
Proof.
  induction 1 as [|x l Hx Hl IH]; cbn [flat_map List.length]; [reflexivity|].
  destruct (f x); [|congruence]. cbn. f_equal. exact IH.
Qed.

Lemma assoc_In {B} k (l : list (string * B)) v : assoc k l = Some v -> In (k, v) l.
Proof.
  induction l as [|[k' v'] l IH]; cbn [assoc]; [discriminate|].
  destruct (String.eqb_spec k k') as [->|Hne].
  - intros [= ->]. left; reflexivity.
  - intros H. right. exact (IH H).
Qed.

Lemma assoc_None {B} k (l : list (string * B)) : assoc k l = None <-> ~ In k (map fst l).
Proof.
  induction l as [|[k' v'] l IH]; cbn [assoc map fst In]; [tauto|].
  destruct (String.eqb_spec k k') as [->|Hne].
  - split; [discriminate | intros H; exfalso; apply H; left; reflexivity].
  - rewrite IH. split; [intros H [E|Hi]; [congruence | tauto] | tauto].
Qed.

Lemma assoc_Some_of_In {B} k (l : list (string * B)) : In k (map fst l) -> exists v, assoc k l = Some v.
Proof.
  intros H. destruct (assoc k l) as [v|] eqn:E; [eauto|]. apply assoc_None in E. contradiction.
Qed.

(* ================================================================== 2. declarations *)
Lemma draws_decls_names fs : map fst (draws_decls fs) = flat_map (names_of_kind KDraws) fs.
Proof.
  unfold draws_decls. induction fs as [|f fs IH]; cbn [flat_map]; [reflexivity|].
  rewrite map_app, IH. f_equal. unfold names_of_kind.
  induction (subterms f) as [|s l IHl]; cbn [flat_map]; [reflexivity|].
  rewrite map_app, IHl. f_equal.
  destruct s as [h k]; destruct h; try reflexivity; try (cbn; destruct fixed; reflexivity).
Qed.

Lemma draw_types_declared fs d ty : assoc d (draw_types fs) = Some ty -> In (d, ty) (draws_decls fs).
Proof. intros H. apply assoc_In in H. unfold draw_types in H. apply in_rev in H. exact H. Qed.

Lemma draw_types_total fs d :
  In d (flat_map (names_of_kind KDraws) fs) -> exists ty, assoc d (draw_types fs) = Some ty.
Proof.
  intros H. apply assoc_Some_of_In. unfold draw_types. rewrite map_rev, <- in_rev, draws_decls_names.
  exact H.
Qed.

Lemma types_consistentb_spec fs : types_consistentb fs = true <-> types_consistent fs.
Proof.
  unfold types_consistentb, types_consistent. rewrite forallb_forall. split.
  - intros H n t1 t2 H1 H2. pose proof (H _ H1) as E1. pose proof (H _ H2) as E2. cbn [fst snd] in *.
    destruct (assoc n (draw_types fs)) as [t|]; [|discriminate].
    apply String.eqb_eq in E1, E2. congruence.
  - intros H [n t] Hd. cbn [fst snd].
    assert (Hin : In n (flat_map (names_of_kind KDraws) fs)).
    { rewrite <- draws_decls_names. apply in_map_iff. exists (n, t). auto. }
    destruct (draw_types_total fs n Hin) as [t' Et]. rewrite Et. apply String.eqb_eq.
    exact (H n t' t (draw_types_declared _ _ _ Et) Hd).
Qed.

(* ================================================================== 3. the table *)
Section DrawsP.
  Variable A : Type.
  Variable S : Type.
  Notation matrix := (matrix A).
  Notation tensor := (tensor A).
  Notation generator := (generator A S).
  Notation gdict := (gdict A S).

  Lemma has_shape_spec N R (m : matrix) :
    has_shape A N R m = true <->
    List.length m = N /\ Forall (fun row => List.length row = R) m.
  Proof.
    unfold has_shape. rewrite andb_true_iff, Nat.eqb_eq, forallb_forall, Forall_forall.
    split; intros [H1 H2]; (split; [exact H1|]); intros x Hx; apply Nat.eqb_eq; exact (H2 x Hx).
  Qed.

  Lemma has_shape_get2 N R (m : matrix) o r :
    has_shape A N R m = true -> o < N -> r < R -> get2 A m o r <> None.
  Proof.
    intros H Ho Hr. apply has_shape_spec in H. destruct H as [HN HR]. unfold get2.
    destruct (nth_error m o) as [row|] eqn:E.
    - rewrite Forall_forall in HR. pose proof (HR row (nth_error_In _ _ E)) as Hl.
      apply nth_error_Some. lia.
    - apply nth_error_None in E. lia.
  Qed.

  Lemma get2_range (m : matrix) N R o r x :
    has_shape A N R m = true -> get2 A m o r = Some x -> o < N /\ r < R.
  Proof.
    intros H. apply has_shape_spec in H. destruct H as [HN HR]. unfold get2.
    destruct (nth_error m o) as [row|] eqn:E; [|discriminate]. intros Hx.
    assert (nth_error m o <> None) as Ho by congruence. apply nth_error_Some in Ho.
    assert (nth_error row r <> None) as Hr by congruence. apply nth_error_Some in Hr.
    rewrite Forall_forall in HR. rewrite (HR row (nth_error_In _ _ E)) in Hr. lia.
  Qed.

  (* np.array(list) then np.moveaxis(., 0, -1): table[o][r][k] = series_k[o][r] *)
  Theorem moveaxis_index N R (ms : list matrix) o r k :
    Forall (fun m => has_shape A N R m = true) ms -> o < N -> r < R ->
    get3 A (moveaxis_0_last A N R (stack A ms)) o r k =
    match nth_error ms k with Some m => get2 A m o r | None => None end.
  Proof.
    intros Hs Ho Hr. unfold get3, moveaxis_0_last, stack.
    rewrite (map_nth_error _ _ _ (nth_error_seq 0 N o Ho)). cbn [Nat.add].
    unfold get2 at 1. rewrite (map_nth_error _ _ _ (nth_error_seq 0 R r Hr)). cbn [Nat.add].
    apply nth_error_flat_olist.
    rewrite Forall_forall in *. intros m Hm. apply (has_shape_get2 N R); auto.
  Qed.

  (* the table has shape (N, R, K) *)
  Theorem moveaxis_shape N R (ms : list matrix) :
    Forall (fun m => has_shape A N R m = true) ms ->
    let t := moveaxis_0_last A N R (stack A ms) in
    List.length t = N /\
    Forall (fun plane => List.length plane = R /\
                         Forall (fun cell => List.length cell = List.length ms) plane) t.
  Proof.
    intros Hs t. subst t. unfold moveaxis_0_last, stack. split; [rewrite map_length, seq_length; reflexivity|].
    rewrite Forall_forall. intros plane Hp. apply in_map_iff in Hp. destruct Hp as (o & <- & Ho).
    apply in_seq in Ho. split; [rewrite map_length, seq_length; reflexivity|].
    rewrite Forall_forall. intros cell Hc. apply in_map_iff in Hc. destruct Hc as (r & <- & Hr).
    apply in_seq in Hr. apply length_flat_olist.
    rewrite Forall_forall in *. intros m Hm. apply (has_shape_get2 N R); auto; lia.
  Qed.

  (* ---------------------------------------------------------------- the loop of generate_draws *)
  Section Loop.
    Variables (native user : gdict) (types : list (string * string)) (N R : nat).

    (* a chain of generator calls: state before, names, series produced, state after *)
    Inductive calls : S -> list string -> list matrix -> S -> Prop :=
    | calls_nil s : calls s [] [] s
    | calls_cons s n rest t g m s' ms s'' :
        assoc n types = Some t -> find_generator A S native user t = Some g ->
        g s N R = (m, s') -> has_shape A N R m = true ->
        calls s' rest ms s'' -> calls s (n :: rest) (m :: ms) s''.

    Theorem run_generators_Ok_iff names s ms s' :
      run_generators A S native user types names N R s = Ok (ms, s') <-> calls s names ms s'.
    Proof.
      split.
      - revert s ms s'. induction names as [|n rest IH]; intros s ms s'; cbn [run_generators].
        + intros [= <- <-]. constructor.
        + destruct (assoc n types) as [t|] eqn:Et; [|discriminate].
          destruct (find_generator A S native user t) as [g|] eqn:Eg; [|discriminate].
          destruct (g s N R) as [m s1] eqn:Ec.
          destruct (has_shape A N R m) eqn:Eh; [|discriminate].
          destruct (run_generators A S native user types rest N R s1) as [[ms1 s2]|e] eqn:Er; [|discriminate].
          intros [= <- <-]. econstructor; eauto.
      - induction 1 as [s|s n rest t g m s1 ms1 s2 Et Eg Ec Eh Hc IH]; cbn [run_generators]; [reflexivity|].
        rewrite Et, Eg, Ec, Eh, IH. reflexivity.
    Qed.

    Lemma calls_length s names ms s' : calls s names ms s' -> List.length ms = List.length names.
    Proof. induction 1; cbn; congruence. Qed.

    Lemma calls_shapes s names ms s' : calls s names ms s' -> Forall (fun m => has_shape A N R m = true) ms.
    Proof. induction 1; constructor; assumption. Qed.

    (* the k-th series is what the generator registered for the type of the k-th name returned *)
    Theorem series_from_own_generator s names ms s' k n :
      calls s names ms s' -> nth_error names k = Some n ->
      exists t g st m st',
        assoc n types = Some t /\ find_generator A S native user t = Some g /\
        g st N R = (m, st') /\ has_shape A N R m = true /\ nth_error ms k = Some m.
    Proof.
      intros H; revert k. induction H as [s|s n0 rest t g m s1 ms1 s2 Et Eg Ec Eh Hc IH]; intros k Hk.
      - destruct k; discriminate.
      - destruct k as [|k]; cbn [nth_error] in *.
        + injection Hk as <-. exists t, g, s, m, s1. auto.
        + exact (IH k Hk).
    Qed.

    Lemma run_generators_app pre rest s ms s1 :
      calls s pre ms s1 ->
      run_generators A S native user types (pre ++ rest) N R s =
      match run_generators A S native user types rest N R s1 with
      | Ok (ms', s2) => Ok (ms ++ ms', s2)
      | Err e => Err e
      end.
    Proof.
      induction 1 as [s|s n rest0 t g m s1 ms1 s2 Et Eg Ec Eh Hc IH]; cbn [app run_generators].
      - destruct (run_generators A S native user types rest N R s) as [[? ?]|]; reflexivity.
      - rewrite Et, Eg, Ec, Eh, IH.
        destruct (run_generators A S native user types rest N R s2) as [[? ?]|]; reflexivity.
    Qed.

    (* T10c, refusal: the first generator that returns another shape stops generate_draws *)
    Theorem bad_shape_refused pre n post s ms s1 t g :
      calls s pre ms s1 -> assoc n types = Some t -> find_generator A S native user t = Some g ->
      has_shape A N R (fst (g s1 N R)) = false ->
      generate_draws A S native user types (pre ++ n :: post) N R s = Err (BadShape n).
    Proof.
      intros Hc Et Eg Eh. unfold generate_draws. rewrite (run_generators_app _ _ _ _ _ Hc).
      cbn [run_generators]. rewrite Et, Eg. destruct (g s1 N R) as [m s2]. cbn [fst] in Eh. rewrite Eh.
      reflexivity.
    Qed.

    Theorem unknown_type_refused pre n post s ms s1 t :
      calls s pre ms s1 -> assoc n types = Some t -> find_generator A S native user t = None ->
      generate_draws A S native user types (pre ++ n :: post) N R s = Err (UnknownType n t).
    Proof.
      intros Hc Et Eg. unfold generate_draws. rewrite (run_generators_app _ _ _ _ _ Hc).
      cbn [run_generators]. rewrite Et, Eg. reflexivity.
    Qed.

    (* T10c, acceptance: a returned table only contains series of shape (N, R), and has shape (N, R, K) *)
    Theorem shape_enforced names s table s' :
      generate_draws A S native user types names N R s = Ok (table, s') ->
      exists ms, calls s names ms s' /\ table = moveaxis_0_last A N R (stack A ms) /\
                 Forall (fun m => has_shape A N R m = true) ms /\
                 List.length table = N /\
                 Forall (fun plane => List.length plane = R /\
                           Forall (fun cell => List.length cell = List.length names) plane) table.
    Proof.
      unfold generate_draws.
      destruct (run_generators A S native user types names N R s) as [[ms s1]|e] eqn:E; [|discriminate].
      intros [= <- <-]. apply run_generators_Ok_iff in E. exists ms.
      pose proof (calls_shapes _ _ _ _ E) as Hs. pose proof (moveaxis_shape N R ms Hs) as [H1 H2].
      rewrite (calls_length _ _ _ _ E) in H2. auto.
    Qed.
  End Loop.

  (* ---------------------------------------------------------------- T10a *)
  Theorem table_indexing_unchecked native user fs cols N R s t table s' d :
    prepare_draws_unchecked A S native user fs cols N R s = Some (t, Ok (table, s')) ->
    In d (flat_map (names_of_kind KDraws) fs) ->
    t_draws t = sorted_names (flat_map (names_of_kind KDraws) fs) /\
    exists k ty g st m st',
      draw_id t d = Some (Z.of_nat k) /\ nth_error (t_draws t) k = Some d /\
      assoc d (draw_types fs) = Some ty /\ In (d, ty) (draws_decls fs) /\
      find_generator A S native user ty = Some g /\
      g st N R = (m, st') /\ has_shape A N R m = true /\
      forall o r, o < N -> r < R ->
        engine_draw A t table o r d = get2 A m o r /\ get2 A m o r <> None.
  Proof.
    unfold prepare_draws_unchecked. destruct (prepare fs cols) as [t0|] eqn:Ep; [|discriminate].
    intros [= -> Hg] Hd. apply prepare_Some in Ep. destruct Ep as [Ht _].
    assert (Hn : t_draws t = sorted_names (flat_map (names_of_kind KDraws) fs)) by (rewrite Ht; reflexivity).
    split; [exact Hn|].
    assert (Hin : In d (t_draws t)) by (rewrite Hn; apply sorted_names_In; exact Hd).
    apply index_of_In in Hin. destruct Hin as [z Hz].
    pose proof (index_of_range _ _ _ Hz) as Hr. pose proof (index_of_Some_nth' _ _ _ Hz) as Hnth.
    apply shape_enforced in Hg. destruct Hg as (ms & Hc & -> & Hs & _).
    destruct (series_from_own_generator _ _ _ _ _ _ _ _ _ _ _ Hc Hnth) as (ty & g & st & m & st' & Et & Eg & Ec & Eh & Em).
    exists (Z.to_nat z), ty, g, st, m, st'.
    rewrite Z2Nat.id by lia. repeat split; auto.
    - apply draw_types_declared; exact Et.
    - unfold engine_draw, draw_id. rewrite Hz. unfold engine_read.
      destruct (Z.ltb_spec z 0); [lia|]. rewrite (moveaxis_index N R ms o r _ Hs) by assumption.
      rewrite Em. reflexivity.
    - apply (has_shape_get2 N R); assumption.
  Qed.

  Lemma prepare_draws_accepts native user fs cols N R s x :
    prepare_draws A S native user fs cols N R s = Some x ->
    types_consistent fs /\ prepare_draws_unchecked A S native user fs cols N R s = Some x.
  Proof.
    unfold prepare_draws. destruct (types_consistentb fs) eqn:E; [|discriminate].
    intros H. split; [apply types_consistentb_spec; exact E | exact H].
  Qed.

  (* T10a for the preparation as coded now: an accepted preparation has one type per name, so ty is
     the type of EVERY declaration of d: variable A is fed series A *)
  Theorem table_indexing native user fs cols N R s t table s' d :
    prepare_draws A S native user fs cols N R s = Some (t, Ok (table, s')) ->
    In d (flat_map (names_of_kind KDraws) fs) ->
    t_draws t = sorted_names (flat_map (names_of_kind KDraws) fs) /\
    exists k ty g st m st',
      draw_id t d = Some (Z.of_nat k) /\ nth_error (t_draws t) k = Some d /\
      In (d, ty) (draws_decls fs) /\ (forall ty0, In (d, ty0) (draws_decls fs) -> ty0 = ty) /\
      find_generator A S native user ty = Some g /\
      g st N R = (m, st') /\ has_shape A N R m = true /\
      forall o r, o < N -> r < R ->
        engine_draw A t table o r d = get2 A m o r /\ get2 A m o r <> None.
  Proof.
    intros Hp Hd. apply prepare_draws_accepts in Hp. destruct Hp as [Hc Hp].
    destruct (table_indexing_unchecked _ _ _ _ _ _ _ _ _ _ _ Hp Hd)
      as (Hn & k & ty & g & st & m & st' & H1 & H2 & _ & H4 & H5 & H6 & H7 & H8).
    split; [exact Hn|]. exists k, ty, g, st, m, st'.
    repeat (split; [assumption|]). split; [|repeat (split; [assumption|]); assumption].
    intros ty0 H0. exact (Hc d ty0 ty H0 H4).
  Qed.

  (* stated from a declaration *)
  Corollary table_indexing_consistent native user fs cols N R s t table s' d ty0 :
    prepare_draws A S native user fs cols N R s = Some (t, Ok (table, s')) ->
    In (d, ty0) (draws_decls fs) ->
    exists k g st m st',
      draw_id t d = Some (Z.of_nat k) /\ nth_error (t_draws t) k = Some d /\
      find_generator A S native user ty0 = Some g /\
      g st N R = (m, st') /\ has_shape A N R m = true /\
      forall o r, o < N -> r < R ->
        engine_draw A t table o r d = get2 A m o r /\ get2 A m o r <> None.
  Proof.
    intros Hp Hd.
    assert (Hin : In d (flat_map (names_of_kind KDraws) fs)).
    { rewrite <- draws_decls_names. apply in_map_iff. exists (d, ty0). auto. }
    destruct (table_indexing _ _ _ _ _ _ _ _ _ _ _ Hp Hin) as (_ & k & ty & g & st & m & st' & H1 & H2 & _ & H4 & H5 & H6 & H7 & H8).
    rewrite (H4 ty0 Hd). exists k, g, st, m, st'. repeat (split; [assumption|]). assumption.
  Qed.

  (* a name declared with two types is refused, whatever the generators *)
  Theorem conflicting_types_refused native user fs cols N R s d t1 t2 :
    In (d, t1) (draws_decls fs) -> In (d, t2) (draws_decls fs) -> t1 <> t2 ->
    prepare_draws A S native user fs cols N R s = None.
  Proof.
    intros H1 H2 Hne. destruct (prepare_draws A S native user fs cols N R s) as [x|] eqn:E; [|reflexivity].
    apply prepare_draws_accepts in E. destruct E as [Hc _]. exfalso. exact (Hne (Hc d t1 t2 H1 H2)).
  Qed.

  (* the numbering is the position in the sorted, duplicate-free list of names: two different
     variables never share a column *)
  Corollary draw_id_injective fs cols t d1 d2 k :
    prepare fs cols = Some t -> draw_id t d1 = Some k -> draw_id t d2 = Some k -> d1 = d2.
  Proof. intros _. unfold draw_id. apply index_of_inj. Qed.

  Corollary draws_sorted fs cols t : prepare fs cols = Some t -> StronglySorted slt (t_draws t).
  Proof.
    intros H. apply prepare_Some in H. destruct H as [-> _]. cbn [t_draws]. apply sorted_names_sorted.
  Qed.

  (* ---------------------------------------------------------------- T10d *)
  Theorem set_rng_None_iff (native rng : gdict) :
    set_rng A S native rng = None <-> exists k, In k (map fst native) /\ In k (map fst rng).
  Proof.
    unfold set_rng.
    destruct (existsb _ (map fst native)) eqn:E.
    - split; [intros _|reflexivity]. apply existsb_exists in E. destruct E as (k & Hk & E).
      apply existsb_exists in E. destruct E as (k' & Hk' & E). apply String.eqb_eq in E. subst k'. eauto.
    - split; [discriminate|]. intros (k & Hk & Hk'). exfalso.
      assert (existsb (fun k => existsb (String.eqb k) (map fst rng)) (map fst native) = true); [|congruence].
      apply existsb_exists. exists k. split; [exact Hk|]. apply existsb_exists. exists k.
      split; [exact Hk' | apply String.eqb_refl].
  Qed.

  Theorem reserved_names (native rng u : gdict) :
    set_rng A S native rng = Some u ->
    u = rng /\ forall k, In k (map fst native) -> assoc k u = None.
  Proof.
    intros H. assert (Hu : u = rng).
    { unfold set_rng in H. destruct (existsb _ _); [discriminate | congruence]. }
    split; [exact Hu|]. subst u. intros k Hk. apply assoc_None. intros Hk'.
    assert (set_rng A S native rng = None); [|congruence].
    apply set_rng_None_iff. eauto.
  Qed.

  (* whatever the user dictionary contains, a native type name designates the native generator *)
  Theorem native_not_shadowed (native user : gdict) t g :
    assoc t native = Some g -> find_generator A S native user t = Some g.
  Proof. intros H. unfold find_generator. rewrite H. reflexivity. Qed.

  (* the user dictionary starts empty and only changes through set_random_number_generators *)
  Inductive reachable_user (native : gdict) : gdict -> Prop :=
  | ru_init : reachable_user native []
  | ru_set u rng u' : reachable_user native u -> set_rng A S native rng = Some u' -> reachable_user native u'.

  Theorem reachable_user_no_native native u k :
    reachable_user native u -> In k (map fst native) -> assoc k u = None.
  Proof.
    intros H Hk. destruct H as [|u rng u' _ Hs]; [reflexivity|].
    exact (proj2 (reserved_names _ _ _ Hs) k Hk).
  Qed.

  Corollary user_type_uses_user_generator native u t :
    reachable_user native u -> forall g, assoc t u = Some g ->
    find_generator A S native u t = Some g.
  Proof.
    intros H g Hg. unfold find_generator. destruct (assoc t native) as [g'|] eqn:E; [|exact Hg].
    exfalso. assert (In t (map fst native)).
    { apply assoc_In in E. apply in_map_iff. exists (t, g'). auto. }
    rewrite (reachable_user_no_native _ _ _ H H0) in Hg. discriminate.
  Qed.
End DrawsP.

(* ------------------------------------------------------------------ conflicting declarations *)
(* bioDraws("a", "TA") + bioDraws("a", "TB") with TA -> all 1, TB -> all 2: WITHOUT the check of the draw
   types (the code before the repair) the preparation is accepted and both occurrences read the series
   of TB, although the first one is declared with type TA; with the check it is refused *)
Definition cst_gen (v : Z) : generator Z unit := fun s N R => (repeat (repeat v R) N, s).

Theorem conflicting_types_refuted :
  exists (fs : list expr) (user : gdict Z unit) t table gA,
    prepare_draws_unchecked Z unit [] user fs [] 1 1 tt = Some (t, Ok (table, tt)) /\
    prepare_draws Z unit [] user fs [] 1 1 tt = None /\
    In ("a"%string, "TA"%string) (draws_decls fs) /\
    find_generator Z unit [] user "TA" = Some gA /\
    get2 Z (fst (gA tt 1 1)) 0 0 = Some 1%Z /\
    engine_draw Z t table 0 0 "a" = Some 2%Z.
Proof.
  exists [EBin Plus (EDraws "a" "TA") (EDraws "a" "TB")],
         [("TA"%string, cst_gen 1); ("TB"%string, cst_gen 2)].
  eexists. eexists. exists (cst_gen 1).
  split; [vm_compute; reflexivity|]. split; [vm_compute; reflexivity|]. split; [left; reflexivity|].
  split; [reflexivity|]. split; reflexivity.
Qed.

(* ------------------------------------------------------------------ identifiers belong to ONE preparation *)
(* Two formulas sharing the draw variable xi: MonteCarlo(aa + xi) (xi is column 1) and MonteCarlo(xi * xi) (xi is column 0).
   Each preparation read with its OWN table gives xi its own series (100); the numbering of the second one applied to
   the table of the first one reads the series of aa (1), and conversely falls outside the table: the identifiers stored
   in a shared bioDraws object must be those of the preparation whose table the engine holds (stream history). *)
Theorem stale_identifiers_refuted :
  exists (f1 f2 : expr) (user : gdict Z unit) t1 tb1 t2 tb2,
    prepare_draws Z unit [] user [f1] [] 1 1 tt = Some (t1, Ok (tb1, tt)) /\
    prepare_draws Z unit [] user [f2] [] 1 1 tt = Some (t2, Ok (tb2, tt)) /\
    draw_id t1 "xi" = Some 1%Z /\ draw_id t2 "xi" = Some 0%Z /\
    engine_draw Z t1 tb1 0 0 "xi" = Some 100%Z /\
    engine_draw Z t2 tb2 0 0 "xi" = Some 100%Z /\
    engine_draw Z t2 tb1 0 0 "xi" = Some 1%Z /\
    engine_draw Z t1 tb2 0 0 "xi" = None.
Proof.
  exists (EUn MonteCarlo (EBin Plus (EDraws "aa" "GA") (EDraws "xi" "GX"))),
         (EUn MonteCarlo (EBin Times (EDraws "xi" "GX") (EDraws "xi" "GX"))),
         [("GA"%string, cst_gen 1); ("GX"%string, cst_gen 100)].
  do 4 eexists. split; [vm_compute; reflexivity|]. split; [vm_compute; reflexivity|].
  repeat split.
Qed.

(* ================================================================== 4. Monte-Carlo = mean over the draws *)
From Coq Require Import Reals Lra.
From Coquelicot Require Import Rbar Hierarchy RInt_gen Derive.
From BV Require Import Model.EvalX Model.Deriv.

Section MC.
  Variable Phi : R -> R.
  Local Open Scope R_scope.

  (* T10b: the MonteCarlo node is the mean, over the draws of the observation, of the child
     evaluated with the current-draw lookup set to each of them *)
  Theorem mc_unfold e en :
    evalX Phi (EUn MonteCarlo e) en =
    xmean (map (fun d => evalX Phi e (with_draw en d)) (e_draws en)).
  Proof. reflexivity. Qed.

  Lemma xsum_cons a l : xsum (a :: l) = lift2 Rplus a (xsum l).
  Proof. reflexivity. Qed.

  Lemma xsum_reals vs : xsum (map XR vs) = XR (Rsum vs).
  Proof.
    induction vs as [|v vs IH]; [reflexivity|]. cbn [map]. rewrite xsum_cons, IH. reflexivity.
  Qed.

  Lemma xsum_real_inv l s : xsum l = XR s -> exists vs, l = map XR vs /\ s = Rsum vs.
  Proof.
    revert s; induction l as [|a l IH]; intros s.
    - intros [= <-]. exists []. split; reflexivity.
    - rewrite xsum_cons. destruct a as [x| |]; try discriminate.
      destruct (xsum l) as [y| |] eqn:E; try discriminate. cbn [lift2]. intros [= <-].
      destruct (IH y eq_refl) as (vs & -> & ->). exists (x :: vs). split; reflexivity.
  Qed.

  Lemma Forall2_map_XR {X} (f : X -> xval) l vs :
    Forall2 (fun d v => f d = XR v) l vs -> map f l = map XR vs.
  Proof. induction 1 as [|d v l vs H _ IH]; cbn [map]; [reflexivity | rewrite H, IH; reflexivity]. Qed.

  Lemma map_XR_Forall2 {X} (f : X -> xval) l vs :
    map f l = map XR vs -> Forall2 (fun d v => f d = XR v) l vs.
  Proof.
    revert vs; induction l as [|d l IH]; intros [|v vs]; cbn [map]; try discriminate; [constructor|].
    intros [= H1 H2]. constructor; auto.
  Qed.

  Lemma xmean_reals v vs : xmean (map XR (v :: vs)) = XR (Rsum (v :: vs) / INR (List.length (v :: vs))).
  Proof.
    unfold xmean. change (map XR (v :: vs)) with (XR v :: map XR vs) at 1.
    cbv iota. change (XR v :: map XR vs) with (map XR (v :: vs)).
    rewrite xsum_reals, map_length. reflexivity.
  Qed.

  Theorem mc_is_mean e en vs :
    Forall2 (fun d v => evalX Phi e (with_draw en d) = XR v) (e_draws en) vs ->
    e_draws en <> [] ->
    evalX Phi (EUn MonteCarlo e) en = XR (Rsum vs / INR (List.length vs)).
  Proof.
    intros H Hne. rewrite mc_unfold, (Forall2_map_XR _ _ _ H).
    destruct vs as [|v vs]; [inversion H; congruence|]. apply xmean_reals.
  Qed.

  Lemma xmean_real_inv l x :
    xmean l = XR x -> l <> [] /\ exists s, xsum l = XR s /\ x = s / INR (List.length l).
  Proof.
    unfold xmean. destruct l as [|a l]; [discriminate|]. intros H. split; [discriminate|].
    destruct (xsum (a :: l)) as [s| |]; try discriminate. cbn [lift2] in H. injection H as <-. eauto.
  Qed.

  (* converse: a real Monte-Carlo value means a real value at every draw, and at least one draw *)
  Theorem mc_real_inv e en x :
    evalX Phi (EUn MonteCarlo e) en = XR x ->
    e_draws en <> [] /\
    exists vs, Forall2 (fun d v => evalX Phi e (with_draw en d) = XR v) (e_draws en) vs /\
               x = Rsum vs / INR (List.length vs).
  Proof.
    rewrite mc_unfold. intros H. apply xmean_real_inv in H. destruct H as (Hne & s & Hs & ->).
    split. { intros E. apply Hne. rewrite E. reflexivity. }
    destruct (xsum_real_inv _ _ Hs) as (vs & HL & ->). exists vs.
    split; [apply map_XR_Forall2; exact HL|].
    assert (Hlen : List.length (map (fun d => evalX Phi e (with_draw en d)) (e_draws en)) = List.length vs)
      by (rewrite HL, map_length; reflexivity).
    rewrite Hlen. reflexivity.
  Qed.

  (* ---------------------------------------------------------------- T10f linearity *)
  Lemma xsum_map_plus {X} (f g : X -> xval) l sa sb :
    xsum (map f l) = XR sa -> xsum (map g l) = XR sb ->
    xsum (map (fun d => lift2 Rplus (f d) (g d)) l) = XR (sa + sb).
  Proof.
    revert sa sb; induction l as [|d l IH]; intros sa sb; cbn [map].
    - intros [= <-] [= <-]. cbn. f_equal. lra.
    - rewrite !xsum_cons. destruct (f d) as [x| |]; try discriminate.
      destruct (g d) as [y| |]; try discriminate.
      destruct (xsum (map f l)) as [ra| |]; try discriminate.
      destruct (xsum (map g l)) as [rb| |]; try discriminate.
      cbn [lift2]. intros [= <-] [= <-]. rewrite (IH ra rb eq_refl eq_refl). cbn [lift2]. f_equal. lra.
  Qed.

  Lemma xsum_map_scale {X} (g : X -> xval) l c sb :
    xsum (map g l) = XR sb ->
    xsum (map (fun d => lift2 Rmult (XR c) (g d)) l) = XR (c * sb).
  Proof.
    revert sb; induction l as [|d l IH]; intros sb; cbn [map].
    - intros [= <-]. cbn. f_equal. lra.
    - rewrite !xsum_cons. destruct (g d) as [y| |]; try discriminate.
      destruct (xsum (map g l)) as [rb| |]; try discriminate.
      intros H. rewrite (IH rb eq_refl). cbn [lift2] in H. injection H as <-. cbn [lift2]. f_equal. lra.
  Qed.

  Lemma xmean_of_sum l s : l <> [] -> xsum l = XR s -> xmean l = XR (s / INR (List.length l)).
  Proof. intros Hne Hs. unfold xmean. destruct l; [congruence|]. rewrite Hs. reflexivity. Qed.

  Lemma INR_length_nz {X} (l : list X) : l <> [] -> INR (List.length l) <> 0.
  Proof. destruct l; [congruence|]. intros _. apply not_0_INR. discriminate. Qed.

  Theorem mc_plus a b en va vb :
    evalX Phi (EUn MonteCarlo a) en = XR va -> evalX Phi (EUn MonteCarlo b) en = XR vb ->
    evalX Phi (EUn MonteCarlo (EBin Plus a b)) en = XR (va + vb).
  Proof.
    rewrite !mc_unfold. intros Ha Hb.
    apply xmean_real_inv in Ha, Hb. destruct Ha as (Hne & sa & Hsa & ->). destruct Hb as (_ & sb & Hsb & ->).
    change (fun d => evalX Phi (EBin Plus a b) (with_draw en d))
      with (fun d => lift2 Rplus (evalX Phi a (with_draw en d)) (evalX Phi b (with_draw en d))).
    assert (Hd : e_draws en <> []) by (intros E; apply Hne; rewrite E; reflexivity).
    rewrite (xmean_of_sum _ (sa + sb)).
    - rewrite !map_length. f_equal. field. apply INR_length_nz. exact Hd.
    - intros E. apply Hd. apply map_eq_nil in E. exact E.
    - apply xsum_map_plus; assumption.
  Qed.

  (* a factor that does not depend on the draw comes out of the mean *)
  Theorem mc_scale c a en cv va :
    (forall d, In d (e_draws en) -> evalX Phi c (with_draw en d) = XR cv) ->
    evalX Phi (EUn MonteCarlo a) en = XR va ->
    evalX Phi (EUn MonteCarlo (EBin Times c a)) en = XR (cv * va).
  Proof.
    rewrite !mc_unfold. intros Hc Ha.
    apply xmean_real_inv in Ha. destruct Ha as (Hne & sa & Hsa & ->).
    assert (E : map (fun d => evalX Phi (EBin Times c a) (with_draw en d)) (e_draws en) =
                map (fun d => lift2 Rmult (XR cv) (evalX Phi a (with_draw en d))) (e_draws en)).
    { apply map_ext_in. intros d Hd.
      change (evalX Phi (EBin Times c a) (with_draw en d))
        with (lift2 Rmult (evalX Phi c (with_draw en d)) (evalX Phi a (with_draw en d))).
      rewrite (Hc d Hd). reflexivity. }
    assert (Hd : e_draws en <> []) by (intros E'; apply Hne; rewrite E'; reflexivity).
    rewrite E, (xmean_of_sum _ (cv * sa)).
    - rewrite !map_length. f_equal. field. apply INR_length_nz. exact Hd.
    - intros E'. apply Hd. apply map_eq_nil in E'. exact E'.
    - apply xsum_map_scale. exact Hsa.
  Qed.

  (* the mean of a quantity that is the same at every draw is that quantity *)
  Theorem mc_const e en v :
    e_draws en <> [] ->
    (forall d, In d (e_draws en) -> evalX Phi e (with_draw en d) = XR v) ->
    evalX Phi (EUn MonteCarlo e) en = XR v.
  Proof.
    intros Hne H. rewrite (mc_is_mean e en (map (fun _ => v) (e_draws en))); [|
      clear Hne; induction (e_draws en) as [|d l IH]; cbn [map]; constructor;
        [apply H; left; reflexivity | apply IH; intros d' Hd'; apply H; right; exact Hd'] | exact Hne].
    rewrite map_length. f_equal.
    assert (Hs : forall (l : list lookup), Rsum (map (fun _ => v) l) = INR (List.length l) * v).
    { induction l as [|d l IH]; [cbn; lra|]. cbn [map List.length]. rewrite S_INR.
      change (Rsum (v :: map (fun _ : lookup => v) l)) with (v + Rsum (map (fun _ : lookup => v) l)).
      rewrite IH. lra. }
    rewrite Hs. field. apply INR_length_nz. exact Hne.
  Qed.
End MC.

(* ---------------------------------------------------------------- engine environment = own series *)
Section EngineSpec.
  Local Open Scope nat_scope.
  Variable A : Type.
  Variable S : Type.
  Variable val : A -> R.

  (* T10b (engine side): at observation o, the r-th lookup the engine's loop goes through maps every
     draw variable d of the formulas to cell [o][r] of the series produced by the generator of d's type *)
  Theorem engine_draws_own_series native user fs cols N R s t table s' o :
    prepare_draws A S native user fs cols N R s = Some (t, Ok (table, s')) -> o < N ->
    List.length (engine_draws A val t table o R) = R /\
    forall d, In d (flat_map (names_of_kind KDraws) fs) ->
      exists ty g st m st',
        In (d, ty) (draws_decls fs) /\ find_generator A S native user ty = Some g /\
        g st N R = (m, st') /\
        forall r, r < R ->
          exists L x, nth_error (engine_draws A val t table o R) r = Some L /\
                      get2 A m o r = Some x /\ L d = Some (val x).
  Proof.
    intros Hp Ho. split; [unfold engine_draws; rewrite map_length, seq_length; reflexivity|].
    intros d Hd. destruct (table_indexing A S _ _ _ _ _ _ _ _ _ _ _ Hp Hd)
      as (_ & k & ty & g & st & m & st' & H1 & H2 & H3 & H4 & H5 & H6 & H7 & H8).
    exists ty, g, st, m, st'. split; [exact H3|]. split; [exact H5|]. split; [exact H6|]. intros r Hr.
    destruct (H8 o r Ho Hr) as [E Hn]. destruct (get2 A m o r) as [x|] eqn:Ex; [|congruence].
    exists (draw_lookup A val t table o r), x. split; [|split; [reflexivity|]].
    - unfold engine_draws. rewrite (map_nth_error _ _ _ (nth_error_seq 0 R r Hr)). reflexivity.
    - unfold draw_lookup. rewrite E. reflexivity.
  Qed.
End EngineSpec.

(* ================================================================== 5. Derive *)
Lemma existsb_eqb_In n l : existsb (String.eqb n) l = true <-> In n l.
Proof.
  rewrite existsb_exists. split.
  - intros (x & Hx & E). apply String.eqb_eq in E. subst. exact Hx.
  - intros H. exists n. split; [exact H | apply String.eqb_refl].
Qed.

(* the kind of the name is the class of the table it belongs to *)
Lemma wrt_of_spec t n w :
  wrt_of t n = Some w ->
  (w = WBeta n /\ In n (t_free t ++ t_fixed t)) \/ (w = WVar n /\ In n (t_vars t)) \/
  (w = WRV n /\ In n (t_rv t)).
Proof.
  unfold wrt_of.
  destruct (existsb (String.eqb n) (t_free t ++ t_fixed t)) eqn:E1.
  { intros [= <-]. left. split; [reflexivity | apply existsb_eqb_In; exact E1]. }
  destruct (existsb (String.eqb n) (t_vars t)) eqn:E2.
  { intros [= <-]. right; left. split; [reflexivity | apply existsb_eqb_In; exact E2]. }
  destruct (existsb (String.eqb n) (t_rv t)) eqn:E3; [|discriminate].
  intros [= <-]. right; right. split; [reflexivity | apply existsb_eqb_In; exact E3].
Qed.

Section DeriveP.
  Variable Phi : R -> R.
  (* correctness of the symbolic derivative: Proofs/DerivP.v (property C02, T02a) *)
  Hypothesis D_correct : forall ws w en x0 e, In w ws -> dom Phi ws (upd en w x0) e ->
    is_derive (fun x => valR (evalX Phi e (upd en w x))) x0 (valR (evalX Phi (D w e) (upd en w x0))).
  Hypothesis D_value : forall ws w en x0 e, In w ws -> dom Phi ws (upd en w x0) e ->
    exists d, evalX Phi (D w e) (upd en w x0) = XR d.

  (* T10e: at a point where the child is smooth, the value of Derive(child, name) is the partial
     derivative of the child's value in the named parameter / variable, everything else fixed *)
  Theorem derive_is_partial t n w child en x0 :
    wrt_of t n = Some w -> dom Phi (w :: nil) (upd en w x0) child ->
    exists d, derive_value Phi t n child (upd en w x0) = XR d /\
              is_derive (fun x => valR (evalX Phi child (upd en w x))) x0 d.
  Proof.
    intros Hw Hd. unfold derive_value. rewrite Hw.
    destruct (D_value (w :: nil) w en x0 child (or_introl eq_refl) Hd) as [d Hv].
    exists d. split; [exact Hv|].
    pose proof (D_correct (w :: nil) w en x0 child (or_introl eq_refl) Hd) as H. rewrite Hv in H. exact H.
  Qed.
End DeriveP.

(* ================================================================== 6. Integrate (partial) *)
Section GH.
  Local Open Scope R_scope.

  Lemma Rsum_cons a l : Rsum (a :: l) = a + Rsum l.
  Proof. reflexivity. Qed.

  (* the engine's rule is linear in the integrand *)
  Theorem gh_rule_linear nodes f g a b :
    gh_rule nodes (fun x => a * f x + b * g x) = a * gh_rule nodes f + b * gh_rule nodes g.
  Proof.
    unfold gh_rule, gh_quad, gh_unweighted. induction nodes as [|[x w] l IH].
    - cbn [map]. unfold Rsum. cbn [fold_right]. ring.
    - cbn [map fst snd]. rewrite !Rsum_cons, IH. ring.
  Qed.

  (* partial: IF the node table integrates g(x) exp(-x^2) exactly for g = f(x) exp(x^2), the engine's
     value is the integral of f over the real line.  That the 100-point table has this property to
     working precision for smooth, normally decaying integrands is a numerical fact of the external
     engine (sampled by stream `integrate`), not a theorem. *)
  Theorem integrate_is_integral_partial nodes f :
    is_integral (fun x => gh_unweighted f x * exp (- (x * x))) (gh_quad nodes (gh_unweighted f)) ->
    is_integral f (gh_rule nodes f).
  Proof.
    unfold is_integral, gh_rule. apply is_RInt_gen_ext.
    apply filter_forall. intros [a b] x _. unfold gh_unweighted.
    rewrite Rmult_assoc, <- exp_plus. replace (x * x + - (x * x)) with 0 by lra.
    rewrite exp_0. lra.
  Qed.
End GH.

(* ================================================================== 7. T10e closed with Proofs/DerivP.v *)
From BV Require Import Proofs.DerivP.

(* the only premise left is the external fact about the normal CDF (used by NormalCdf nodes only) *)
Theorem derive_is_partial_closed (Phi : R -> R) :
  (forall x, is_derive Phi x (D2R inv_sqrt_2pi * exp (- (x * x / 2)))%R) ->
  forall t n w child en x0,
    wrt_of t n = Some w -> dom Phi (w :: nil) (upd en w x0) child ->
    exists d, derive_value Phi t n child (upd en w x0) = XR d /\
              is_derive (fun x => valR (evalX Phi child (upd en w x))) x0 d.
Proof.
  intros HP. apply derive_is_partial.
  - intros ws w en x0 e Hw Hd. exact (D_correct Phi HP ws w Hw en x0 e Hd).
  - intros ws w en x0 e Hw Hd. exact (D_value Phi HP ws w Hw en x0 e Hd).
Qed.
