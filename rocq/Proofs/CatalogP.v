(* C16 -- lemmas about Model/Catalog.v and about the GENERATED definitions of Gen/Config.v. *)
From Coq Require Import ZArith List String Ascii Bool Lia Permutation Sorted NArith.
From BV Require Import Model.PyBase Model.Expr Model.Catalog Proofs.PyBaseP Gen.Config.
Import ListNotations.
Open Scope Z_scope.

Ltac Zify.zify_post_hook ::= Z.to_euclidean_division_equations.

Notation CEq := Datatypes.Eq.
Notation CLt := Datatypes.Lt.
Notation CGt := Datatypes.Gt.

(* ================================================================== order on strings *)
Lemma ascii_cmp_eq a b : Ascii.compare a b = CEq <-> a = b.
Proof.
  split; [apply Ascii.compare_eq_iff|]. intros ->. unfold Ascii.compare. apply N.compare_refl.
Qed.

Lemma ascii_cmp_lt_trans a b c :
  Ascii.compare a b = CLt -> Ascii.compare b c = CLt -> Ascii.compare a c = CLt.
Proof.
  unfold Ascii.compare. rewrite !N.compare_lt_iff. apply N.lt_trans.
Qed.

Lemma str_cmp_eq a b : String.compare a b = CEq <-> a = b.
Proof.
  split; [apply String.compare_eq_iff|]. intros ->.
  induction b as [|c b IH]; simpl; [reflexivity|].
  replace (Ascii.compare c c) with CEq by (symmetry; apply ascii_cmp_eq; reflexivity). exact IH.
Qed.

Lemma str_cmp_lt_trans : forall a b c,
  String.compare a b = CLt -> String.compare b c = CLt -> String.compare a c = CLt.
Proof.
  induction a as [|x a IH]; intros [|y b] [|z c]; simpl; try congruence.
  destruct (Ascii.compare x y) eqn:Exy; try discriminate;
  destruct (Ascii.compare y z) eqn:Eyz; try discriminate; intros H1 H2.
  - apply ascii_cmp_eq in Exy, Eyz. subst.
    replace (Ascii.compare z z) with CEq by (symmetry; apply ascii_cmp_eq; reflexivity).
    eapply IH; eauto.
  - apply ascii_cmp_eq in Exy. subst. rewrite Eyz. reflexivity.
  - apply ascii_cmp_eq in Eyz. subst. rewrite Exy. reflexivity.
  - rewrite (ascii_cmp_lt_trans _ _ _ Exy Eyz). reflexivity.
Qed.

Lemma str_cmp_gt_lt a b : String.compare a b = CGt <-> String.compare b a = CLt.
Proof.
  rewrite (String.compare_antisym b a). destruct (String.compare a b); simpl; split; congruence.
Qed.

(* ------------------------------------------------ order on selection tuples *)
Lemma sel_cmp_eq a b : sel_cmp a b = CEq <-> a = b.
Proof.
  destruct a as [a1 a2], b as [b1 b2]. unfold sel_cmp. simpl. split.
  - destruct (String.compare a1 b1) eqn:E; try discriminate.
    intros H. apply str_cmp_eq in E, H. congruence.
  - intros [= -> ->].
    replace (String.compare b1 b1) with CEq by (symmetry; apply str_cmp_eq; reflexivity).
    apply str_cmp_eq. reflexivity.
Qed.

Lemma sel_cmp_antisym a b : sel_cmp a b = CompOpp (sel_cmp b a).
Proof.
  destruct a as [a1 a2], b as [b1 b2]. unfold sel_cmp. simpl.
  rewrite (String.compare_antisym b1 a1).
  destruct (String.compare a1 b1); simpl; try reflexivity. apply String.compare_antisym.
Qed.

Lemma sel_cmp_lt_trans a b c : sel_cmp a b = CLt -> sel_cmp b c = CLt -> sel_cmp a c = CLt.
Proof.
  destruct a as [a1 a2], b as [b1 b2], c as [c1 c2]. unfold sel_cmp. simpl.
  destruct (String.compare a1 b1) eqn:E1; try discriminate;
  destruct (String.compare b1 c1) eqn:E2; try discriminate; intros H1 H2.
  - apply str_cmp_eq in E1, E2. subst.
    replace (String.compare c1 c1) with CEq by (symmetry; apply str_cmp_eq; reflexivity).
    eapply str_cmp_lt_trans; eauto.
  - apply str_cmp_eq in E1. subst. rewrite E2. reflexivity.
  - apply str_cmp_eq in E2. subst. rewrite E1. reflexivity.
  - rewrite (str_cmp_lt_trans _ _ _ E1 E2). reflexivity.
Qed.

Definition sel_le (a b : selection) : Prop := sel_leb a b = true.

Lemma sel_le_refl a : sel_le a a.
Proof.
  unfold sel_le, sel_leb. replace (sel_cmp a a) with CEq; [reflexivity|].
  symmetry. apply sel_cmp_eq. reflexivity.
Qed.

Lemma sel_le_total a b : sel_le a b \/ sel_le b a.
Proof.
  unfold sel_le, sel_leb. rewrite (sel_cmp_antisym b a). destruct (sel_cmp a b); simpl; auto.
Qed.

Lemma sel_leb_false a b : sel_leb a b = false -> sel_le b a.
Proof.
  intros H. destruct (sel_le_total a b) as [H'|H']; [unfold sel_le in H'; congruence|exact H'].
Qed.

Lemma sel_le_antisym a b : sel_le a b -> sel_le b a -> a = b.
Proof.
  unfold sel_le, sel_leb. rewrite (sel_cmp_antisym b a).
  destruct (sel_cmp a b) eqn:E; simpl; try discriminate.
  intros _ _. apply sel_cmp_eq. exact E.
Qed.

Lemma sel_le_trans a b c : sel_le a b -> sel_le b c -> sel_le a c.
Proof.
  unfold sel_le, sel_leb.
  destruct (sel_cmp a b) eqn:E1; try discriminate; destruct (sel_cmp b c) eqn:E2; try discriminate; intros _ _.
  - apply sel_cmp_eq in E1, E2. subst. replace (sel_cmp c c) with CEq; [reflexivity|].
    symmetry. apply sel_cmp_eq. reflexivity.
  - apply sel_cmp_eq in E1. subst. rewrite E2. reflexivity.
  - apply sel_cmp_eq in E2. subst. rewrite E1. reflexivity.
  - rewrite (sel_cmp_lt_trans _ _ _ E1 E2). reflexivity.
Qed.

(* ------------------------------------------------ sorted(): the unique sorted permutation *)
Lemma sel_insert_perm x l : Permutation (sel_insert x l) (x :: l).
Proof.
  induction l as [|y l IH]; simpl; [reflexivity|].
  destruct (sel_leb x y); [reflexivity|].
  rewrite IH. apply perm_swap.
Qed.

Lemma py_sorted_perm l : Permutation (py_sorted_sel l) l.
Proof.
  induction l as [|x l IH]; simpl; [constructor|].
  rewrite sel_insert_perm. constructor. exact IH.
Qed.

Lemma sel_insert_sorted x l : StronglySorted sel_le l -> StronglySorted sel_le (sel_insert x l).
Proof.
  induction 1 as [|y l Hs IH Hall]; simpl.
  - constructor; constructor.
  - destruct (sel_leb x y) eqn:E.
    + constructor; [constructor; assumption|].
      constructor; [exact E|].
      eapply Forall_impl; [|exact Hall]. intros z Hz. eapply sel_le_trans; eauto.
    + constructor; [exact IH|].
      apply sel_leb_false in E.
      eapply Permutation_Forall; [symmetry; apply sel_insert_perm|].
      constructor; assumption.
Qed.

Lemma py_sorted_sorted l : StronglySorted sel_le (py_sorted_sel l).
Proof.
  induction l as [|x l IH]; simpl; [constructor|]. apply sel_insert_sorted. exact IH.
Qed.

Lemma sorted_perm_eq : forall l1 l2,
  StronglySorted sel_le l1 -> StronglySorted sel_le l2 -> Permutation l1 l2 -> l1 = l2.
Proof.
  induction l1 as [|a l1 IH]; intros l2 H1 H2 P.
  - apply Permutation_nil in P. congruence.
  - destruct l2 as [|b l2]; [apply Permutation_sym, Permutation_nil in P; discriminate|].
    inversion H1 as [|? ? Hs1 Ha1]; inversion H2 as [|? ? Hs2 Ha2]; subst.
    assert (a = b).
    { assert (In a (b :: l2)) as [->|Ia] by (eapply Permutation_in; [exact P|left; reflexivity]); [reflexivity|].
      assert (In b (a :: l1)) as [->|Ib] by (eapply Permutation_in; [symmetry; exact P|left; reflexivity]); [reflexivity|].
      rewrite Forall_forall in Ha1, Ha2. apply sel_le_antisym; auto. }
    subst. f_equal. apply IH; auto. eapply Permutation_cons_inv; eauto.
Qed.

Lemma py_sorted_unique l1 l2 : Permutation l1 l2 -> py_sorted_sel l1 = py_sorted_sel l2.
Proof.
  intros P. apply sorted_perm_eq; try apply py_sorted_sorted.
  rewrite !py_sorted_perm. exact P.
Qed.

Lemma py_sorted_id l : StronglySorted sel_le l -> py_sorted_sel l = l.
Proof.
  intros H. apply sorted_perm_eq; [apply py_sorted_sorted|exact H|apply py_sorted_perm].
Qed.

(* ================================================================== the selections setter *)
Lemma str_mem_In x l : str_mem x l = true <-> In x l.
Proof.
  unfold str_mem. rewrite existsb_exists. split.
  - intros (y & Hy & E). apply String.eqb_eq in E. subst. exact Hy.
  - intros H. exists x. split; [exact H|apply String.eqb_refl].
Qed.

Lemma str_mem_false x l : str_mem x l = false <-> ~ In x l.
Proof. rewrite <- str_mem_In. destruct (str_mem x l); split; congruence. Qed.

Lemma dup_ctrl_from_false : forall l seen,
  dup_ctrl_from seen l = false <->
  NoDup (map fst l) /\ forall x, In x (map fst l) -> ~ In x seen.
Proof.
  induction l as [|s l IH]; intros seen; simpl.
  - split; [intros _; split; [constructor|intros x []]|reflexivity].
  - destruct (str_mem (fst s) seen) eqn:E.
    + split; [discriminate|]. intros [_ H]. exfalso. apply (H (fst s)); [left; reflexivity|].
      apply str_mem_In. exact E.
    + apply str_mem_false in E. rewrite IH. split.
      * intros [Hnd Hn]. split.
        -- constructor; [|exact Hnd]. intros Hin. apply (Hn _ Hin). apply in_or_app. right. left. reflexivity.
        -- intros x [<-|Hx]; [exact E|]. intros Hs. apply (Hn x Hx). apply in_or_app. left. exact Hs.
      * intros [Hnd Hn]. inversion Hnd as [|? ? Hni Hnd']; subst. split; [exact Hnd'|].
        intros x Hx Hin. apply in_app_or in Hin. destruct Hin as [Hin|[<-|[]]].
        -- apply (Hn x); [right; exact Hx|exact Hin].
        -- exact (Hni Hx).
Qed.

Lemma has_dup_ctrl_false l : has_dup_ctrl l = false <-> NoDup (map fst l).
Proof.
  unfold has_dup_ctrl. rewrite dup_ctrl_from_false. split; [tauto|]. intros H. split; [exact H|]. intros x _ [].
Qed.

Lemma has_dup_ctrl_perm l1 l2 : Permutation l1 l2 -> has_dup_ctrl l1 = has_dup_ctrl l2.
Proof.
  intros P.
  assert (H : has_dup_ctrl l1 = false <-> has_dup_ctrl l2 = false).
  { rewrite !has_dup_ctrl_false.
    split; intros H; (eapply Permutation_NoDup; [|exact H]); apply Permutation_map;
      [exact P|symmetry; exact P]. }
  destruct (has_dup_ctrl l1), (has_dup_ctrl l2); try reflexivity; destruct H as [H1 H2].
  - apply H2. reflexivity.
  - symmetry. apply H1. reflexivity.
Qed.

(* a Configuration object holds a sorted list with pairwise distinct controllers *)
Definition is_config (c : config) : Prop := StronglySorted sel_le c /\ NoDup (map fst c).

Lemma mk_config_perm l1 l2 : Permutation l1 l2 -> mk_config l1 = mk_config l2.
Proof. intros P. unfold mk_config. rewrite (py_sorted_unique _ _ P). reflexivity. Qed.

Lemma mk_config_some l c :
  mk_config l = Some c <-> c = py_sorted_sel l /\ NoDup (map fst l).
Proof.
  unfold mk_config.
  rewrite <- (has_dup_ctrl_false l), (has_dup_ctrl_perm _ _ (py_sorted_perm l)).
  destruct (has_dup_ctrl l).
  - split; [discriminate|intros [_ H]; discriminate].
  - split; [intros [= <-]; split; reflexivity|intros [-> _]; reflexivity].
Qed.

Lemma mk_config_is_config l c : mk_config l = Some c -> is_config c /\ Permutation c l.
Proof.
  intros H. apply mk_config_some in H. destruct H as [-> Hnd]. split; [split|].
  - apply py_sorted_sorted.
  - eapply Permutation_NoDup; [|exact Hnd]. apply Permutation_map. symmetry. apply py_sorted_perm.
  - apply py_sorted_perm.
Qed.

Lemma mk_config_fix c : is_config c -> mk_config c = Some c.
Proof.
  intros [Hs Hnd]. apply mk_config_some. split; [symmetry; apply py_sorted_id; exact Hs|exact Hnd].
Qed.

(* ================================================================== split / join *)
Lemma py_split_nonnil c s : py_split c s <> [].
Proof.
  destruct s as [|x s]; simpl; [discriminate|].
  destruct (Ascii.eqb x c); [discriminate|]. destruct (py_split c s); discriminate.
Qed.

Lemma char_free_cons c x s :
  char_free c (String x s) = negb (Ascii.eqb c x) && char_free c s.
Proof. unfold char_free. simpl. rewrite negb_orb. reflexivity. Qed.

Lemma char_free_app c a b : char_free c (a ++ b) = char_free c a && char_free c b.
Proof.
  induction a as [|x a IH]; simpl; [reflexivity|].
  rewrite !char_free_cons, IH, andb_assoc. reflexivity.
Qed.

Lemma py_split_free c s : char_free c s = true -> py_split c s = [s].
Proof.
  induction s as [|x s IH]; simpl; [reflexivity|].
  rewrite char_free_cons. intros H. apply andb_prop in H. destruct H as [H1 H2].
  rewrite Ascii.eqb_sym. destruct (Ascii.eqb c x); [discriminate|].
  rewrite (IH H2). reflexivity.
Qed.

Lemma py_split_app c a b :
  char_free c a = true -> py_split c (a ++ String c b) = a :: py_split c b.
Proof.
  induction a as [|x a IH]; simpl.
  - intros _. rewrite Ascii.eqb_refl. reflexivity.
  - rewrite char_free_cons. intros H. apply andb_prop in H. destruct H as [H1 H2].
    rewrite Ascii.eqb_sym. destruct (Ascii.eqb c x); [discriminate|].
    rewrite (IH H2). reflexivity.
Qed.

Lemma concat_cons2 sep x y r :
  String.concat sep (x :: y :: r) = (x ++ sep ++ String.concat sep (y :: r))%string.
Proof. reflexivity. Qed.

Lemma split_concat c : forall ts, ts <> [] -> forallb (char_free c) ts = true ->
  py_split c (String.concat (String c EmptyString) ts) = ts.
Proof.
  induction ts as [|t ts IH]; [congruence|]. intros _ H. simpl in H. apply andb_prop in H. destruct H as [H1 H2].
  destruct ts as [|u ts].
  - simpl. apply py_split_free. exact H1.
  - rewrite concat_cons2. simpl append at 2.
    rewrite py_split_app by exact H1. f_equal. apply IH; [discriminate|exact H2].
Qed.

Lemma name_ok_term s :
  name_ok (fst s) && name_ok (snd s) = true -> char_free SEP (term_of s) = true.
Proof.
  unfold name_ok, term_of. intros H.
  apply andb_prop in H. destruct H as [Ha Hb]. apply andb_prop in Ha, Hb.
  destruct Ha as [Ha _], Hb as [Hb _].
  rewrite !char_free_app, Ha, Hb. reflexivity.
Qed.

Lemma parse_term_of s :
  name_ok (fst s) && name_ok (snd s) = true -> parse_term (term_of s) = Some s.
Proof.
  unfold name_ok, term_of, parse_term. intros H. destruct s as [a b]. simpl in *.
  apply andb_prop in H. destruct H as [Ha Hb]. apply andb_prop in Ha, Hb. destruct Ha, Hb.
  rewrite py_split_app by assumption. rewrite py_split_free by assumption. reflexivity.
Qed.

Lemma map_opt_parse c : names_ok c = true -> map_opt parse_term (map term_of c) = Some c.
Proof.
  induction c as [|s c IH]; simpl; [reflexivity|]. intros H. apply andb_prop in H. destruct H as [H1 H2].
  rewrite (parse_term_of _ H1), (IH H2). reflexivity.
Qed.

Lemma terms_free c : names_ok c = true -> forallb (char_free SEP) (map term_of c) = true.
Proof.
  induction c as [|s c IH]; simpl; [reflexivity|]. intros H. apply andb_prop in H. destruct H as [H1 H2].
  rewrite (name_ok_term _ H1), (IH H2). reflexivity.
Qed.

Lemma dict_set_fresh d k v : ~ In k (map fst d) -> dict_set d k v = d ++ [(k, v)].
Proof.
  induction d as [|[k' v'] d IH]; simpl; [reflexivity|]. intros H.
  destruct (String.eqb_spec k' k) as [->|Hne]; [exfalso; apply H; left; reflexivity|].
  rewrite IH; [reflexivity|]. intros Hin. apply H. right. exact Hin.
Qed.

Lemma fold_dict_set_fresh : forall l d, NoDup (map fst (d ++ l)) ->
  fold_left (fun d cs => dict_set d (fst cs) (snd cs)) l d = d ++ l.
Proof.
  induction l as [|[k v] l IH]; intros d H; simpl; [rewrite app_nil_r; reflexivity|].
  rewrite dict_set_fresh.
  - rewrite IH; rewrite <- app_assoc; [reflexivity|exact H].
  - rewrite map_app in H. simpl in H. apply NoDup_remove_2 in H. intros Hin. apply H.
    apply in_or_app. left. exact Hin.
Qed.

(* T16c *)
Lemma from_string_string_id c :
  c <> [] -> names_ok c = true -> is_config c -> Catalog.from_string (string_id c) = Some c.
Proof.
  intros Hne Hok Hc. unfold Catalog.from_string, string_id.
  rewrite split_concat; [|destruct c; [congruence|discriminate]|apply terms_free; exact Hok].
  rewrite (map_opt_parse _ Hok).
  rewrite fold_dict_set_fresh by (simpl; apply Hc). simpl. apply mk_config_fix. exact Hc.
Qed.

(* a left inverse of string_id on all lists of well-named selections *)
Definition unparse (s : string) : option (list selection) :=
  match s with EmptyString => Some [] | _ => map_opt parse_term (py_split SEP s) end.

Lemma string_id_nonempty c : c <> [] -> string_id c <> EmptyString.
Proof.
  destruct c as [|[a b] c]; [congruence|]. intros _. unfold string_id.
  destruct c as [|u c]; simpl map.
  - simpl. unfold term_of. simpl. destruct a; discriminate.
  - rewrite concat_cons2. unfold term_of at 1. simpl. destruct a; discriminate.
Qed.

Lemma unparse_string_id c : names_ok c = true -> unparse (string_id c) = Some c.
Proof.
  intros Hok. destruct c as [|s c]; [reflexivity|].
  unfold unparse. pose proof (string_id_nonempty (s :: c)) as Hn.
  destruct (string_id (s :: c)) eqn:E; [exfalso; apply Hn; [discriminate|reflexivity]|].
  rewrite <- E. unfold string_id.
  rewrite split_concat; [|discriminate|apply terms_free; exact Hok].
  apply map_opt_parse. exact Hok.
Qed.

(* T16b, injectivity *)
Lemma string_id_inj c1 c2 :
  names_ok c1 = true -> names_ok c2 = true -> string_id c1 = string_id c2 -> c1 = c2.
Proof.
  intros H1 H2 E. apply (f_equal unparse) in E. rewrite !unparse_string_id in E by assumption. congruence.
Qed.

Lemma forallb_perm {A} (f : A -> bool) l1 l2 : Permutation l1 l2 -> forallb f l1 = forallb f l2.
Proof.
  induction 1; simpl; try congruence.
  destruct (f x), (f y); reflexivity.
Qed.

Lemma names_ok_perm l1 l2 : Permutation l1 l2 -> names_ok l1 = names_ok l2.
Proof. apply forallb_perm. Qed.

(* T16b, both directions: two listings give the same identifier iff they list the same choices *)
Lemma id_determines_config l1 l2 c1 c2 :
  names_ok l1 = true -> names_ok l2 = true ->
  mk_config l1 = Some c1 -> mk_config l2 = Some c2 ->
  (string_id c1 = string_id c2 <-> Permutation l1 l2).
Proof.
  intros N1 N2 M1 M2. split.
  - intros E. destruct (mk_config_is_config _ _ M1) as [_ P1], (mk_config_is_config _ _ M2) as [_ P2].
    apply string_id_inj in E.
    + subst. rewrite <- P1. exact P2.
    + rewrite (names_ok_perm _ _ P1). exact N1.
    + rewrite (names_ok_perm _ _ P2). exact N2.
  - intros P. rewrite (mk_config_perm _ _ P) in M1. congruence.
Qed.

(* ================================================================== tie A: the generated
   definitions of Gen/Config.v are the hand-written ones of Model/Catalog.v *)
Definition with_id (c : config) : config * string := (c, string_id c).

Lemma gen_get_string_id c : get_string_id c = string_id c.
Proof. reflexivity. Qed.

Lemma gen_check_fold : forall l seen,
  fold_left (fun acc (item : string * string) =>
               match acc with
               | None => None
               | Some unique_items => if str_mem (fst item) unique_items then None
                                      else Some (unique_items ++ [fst item])
               end) l (Some seen)
  = if dup_ctrl_from seen l then None else Some (seen ++ map fst l).
Proof.
  induction l as [|s l IH]; intros seen; simpl; [rewrite app_nil_r; reflexivity|].
  destruct (str_mem (fst s) seen).
  - clear IH. induction l as [|t l IHl]; simpl; [reflexivity|exact IHl].
  - rewrite IH, <- app_assoc. reflexivity.
Qed.

Lemma gen_check_list_validity l :
  check_list_validity l = if has_dup_ctrl l then None else Some tt.
Proof.
  unfold check_list_validity, has_dup_ctrl. rewrite gen_check_fold.
  destruct (dup_ctrl_from [] l); reflexivity.
Qed.

Lemma gen_set_selections l : set_selections l = option_map with_id (mk_config l).
Proof.
  unfold set_selections, mk_config. rewrite gen_check_list_validity.
  destruct (has_dup_ctrl (py_sorted_sel l)); reflexivity.
Qed.

Lemma gen_from_dict d : from_dict d = option_map with_id (mk_config d).
Proof.
  unfold from_dict. rewrite gen_set_selections. f_equal. f_equal.
  induction d as [|[a b] d IH]; simpl; congruence.
Qed.

Definition fs_step (acc : option (list (string * string))) (term : string) :=
  match acc with
  | None => None
  | Some the_config =>
      match py_split_s SELECTION_SEPARATOR term with
      | [controller; selection] => Some (dict_set the_config controller selection)
      | _ => None
      end
  end.

Lemma fs_step_none l : fold_left fs_step l None = None.
Proof. induction l; simpl; auto. Qed.

Lemma gen_from_string_fold : forall terms d,
  fold_left fs_step terms (Some d)
  = match map_opt parse_term terms with
    | None => None
    | Some sels => Some (fold_left (fun d cs => dict_set d (fst cs) (snd cs)) sels d)
    end.
Proof.
  induction terms as [|t terms IH]; intros d; [reflexivity|].
  cbn [fold_left map_opt]. unfold fs_step at 2. unfold parse_term at 1.
  change (py_split_s SELECTION_SEPARATOR t) with (py_split SELSEP t).
  destruct (py_split SELSEP t) as [|a [|b [|c r]]]; try apply fs_step_none.
  rewrite IH. destruct (map_opt parse_term terms); reflexivity.
Qed.

Lemma gen_from_string s : Config.from_string s = option_map with_id (Catalog.from_string s).
Proof.
  change (Config.from_string s) with
    (match fold_left fs_step (py_split SEP s) (Some []) with
     | None => None
     | Some the_config => from_dict the_config
     end).
  unfold Catalog.from_string. rewrite gen_from_string_fold.
  destruct (map_opt parse_term (py_split SEP s)); [apply gen_from_dict|reflexivity].
Qed.

(* Controller.modify_controller, circular: always succeeds on a legal state, reports `step`
   modifications and moves the index to (i + step) mod size *)
Lemma gen_modify_controller_circular n i s :
  1 <= n -> modify_controller n i s true = Some (s, step_index n i s).
Proof.
  intros Hn. unfold modify_controller, step_index.
  replace (((i + s) mod n <? 0) || ((i + s) mod n >=? n)) with false; [reflexivity|].
  symmetry. pose proof (Z.mod_pos_bound (i + s) n ltac:(lia)). lia.
Qed.

(* ... not circular: clamped at the ends *)
Lemma gen_modify_controller_clamped n i s :
  1 <= n -> 0 <= i < n ->
  modify_controller n i s false = Some (snd (clamp_index n i s), fst (clamp_index n i s)).
Proof.
  intros Hn Hi. unfold modify_controller, clamp_index.
  destruct (i + s <? 0) eqn:E1.
  - replace ((0 <? 0) || (0 >=? n)) with false by lia. reflexivity.
  - destruct (i + s >=? n) eqn:E2.
    + replace ((n - 1 <? 0) || (n - 1 >=? n)) with false by lia. reflexivity.
    + replace ((i + s <? 0) || (i + s >=? n)) with false by lia. reflexivity.
Qed.

Lemma step_index_range n i s : 1 <= n -> 0 <= step_index n i s < n.
Proof. intros Hn. unfold step_index. apply Z.mod_pos_bound. lia. Qed.

(* T16h at the level of one controller: decreasing after increasing by the same step *)
Lemma step_index_inverse n i s :
  1 <= n -> 0 <= i < n -> step_index n (step_index n i s) (- s) = i.
Proof.
  intros Hn Hi. unfold step_index. rewrite Z.add_mod_idemp_l by lia.
  replace (i + s + - s) with i by lia. apply Z.mod_small. exact Hi.
Qed.

Lemma step_index_inverse' n i s :
  1 <= n -> 0 <= i < n -> step_index n (step_index n i (- s)) s = i.
Proof.
  intros Hn Hi. unfold step_index. rewrite Z.add_mod_idemp_l by lia.
  replace (i + - s + s) with i by lia. apply Z.mod_small. exact Hi.
Qed.

(* the same, on the generated function: any size >= 1, any step of any sign or magnitude *)
Lemma gen_inc_dec_inverse n i s :
  1 <= n -> 0 <= i < n ->
  exists j, modify_controller n i s true = Some (s, j) /\ 0 <= j < n /\
            modify_controller n j (- s) true = Some (- s, i).
Proof.
  intros Hn Hi. exists (step_index n i s). split; [apply gen_modify_controller_circular; exact Hn|].
  split; [apply step_index_range; exact Hn|].
  rewrite gen_modify_controller_circular by exact Hn. rewrite step_index_inverse by assumption. reflexivity.
Qed.

(* ================================================================== the product of controllers *)
Definition sizes (cs : list controller) : list nat := map (fun c => List.length (snd c)) cs.
Definition prod_nat (l : list nat) : nat := fold_right Nat.mul 1%nat l.

Lemma flat_map_length_const {A B} (f : A -> list B) (m : nat) l :
  (forall x, In x l -> List.length (f x) = m) -> List.length (flat_map f l) = (List.length l * m)%nat.
Proof.
  induction l as [|x l IH]; intros H; simpl; [reflexivity|].
  rewrite app_length. rewrite H by (left; reflexivity).
  rewrite IH by (intros y Hy; apply H; right; exact Hy). lia.
Qed.

(* T16a *)
Lemma product_length cs : List.length (product cs) = prod_nat (sizes cs).
Proof.
  induction cs as [|c cs IH]; simpl; [reflexivity|].
  rewrite (flat_map_length_const _ (List.length (product cs))).
  - rewrite IH. reflexivity.
  - intros s _. apply map_length.
Qed.

Lemma fold_left_mul l : forall a, fold_left Z.mul l a = a * fold_right Z.mul 1 l.
Proof. induction l as [|x l IH]; intros a; simpl; [lia|]. rewrite IH. lia. Qed.

Lemma str_mem_cons_false x a l : str_mem x (a :: l) = false -> a <> x /\ str_mem x l = false.
Proof.
  unfold str_mem. simpl. intros H. apply orb_false_elim in H. destruct H as [H1 H2].
  split; [|exact H2]. intros ->. rewrite String.eqb_refl in H1. discriminate.
Qed.

Lemma nodupb_go_NoDup : forall l seen,
  (fix go (seen l : list string) : bool :=
     match l with [] => true | x :: r => negb (str_mem x seen) && go (x :: seen) r end) seen l = true ->
  NoDup l /\ forall x, In x l -> ~ In x seen.
Proof.
  induction l as [|x l IH]; intros seen H.
  - split; [constructor|intros ? []].
  - apply andb_prop in H. destruct H as [H1 H2]. apply negb_true_iff in H1. apply str_mem_false in H1.
    destruct (IH _ H2) as [Hnd Hn]. split.
    + constructor; [|exact Hnd]. intros Hin. apply (Hn x Hin). left. reflexivity.
    + intros y [<-|Hy]; [exact H1|]. intros Hs. apply (Hn y Hy). right. exact Hs.
Qed.

Lemma nodupb_NoDup l : nodupb l = true -> NoDup l.
Proof. intros H. apply (nodupb_go_NoDup l [] H). Qed.

Lemma wf_ctrl_spec c : wf_ctrl c = true ->
  name_ok (fst c) = true /\ snd c <> [] /\ NoDup (snd c) /\ forallb name_ok (snd c) = true.
Proof.
  unfold wf_ctrl. intros H.
  apply andb_prop in H. destruct H as [H H4]. apply andb_prop in H. destruct H as [H H3].
  apply andb_prop in H. destruct H as [H1 H2].
  split; [exact H1|]. split; [|split; [apply nodupb_NoDup; exact H3|exact H4]].
  intros E. rewrite E in H2. discriminate.
Qed.

Definition name_lt (a b : string) : Prop := String.compare a b = Datatypes.Lt.

Lemma strictly_sorted_strong l : strictly_sorted l = true -> StronglySorted name_lt l.
Proof.
  induction l as [|x l IH]; intros H; [constructor|].
  simpl in H. apply andb_prop in H. destruct H as [H1 H2]. specialize (IH H2).
  constructor; [exact IH|].
  destruct l as [|y l]; [constructor|].
  destruct (String.compare x y) eqn:E; try discriminate.
  inversion IH as [|? ? _ Hall]; subst.
  constructor; [exact E|].
  eapply Forall_impl; [|exact Hall]. intros z Hz. eapply str_cmp_lt_trans; eauto.
Qed.

Lemma name_lt_irrefl a : ~ name_lt a a.
Proof. unfold name_lt. replace (String.compare a a) with Datatypes.Eq; [discriminate|]. symmetry. apply str_cmp_eq. reflexivity. Qed.

Lemma strong_sorted_NoDup l : StronglySorted name_lt l -> NoDup l.
Proof.
  induction 1 as [|x l Hs IH Hall]; constructor; [|exact IH].
  intros Hin. rewrite Forall_forall in Hall. exact (name_lt_irrefl x (Hall x Hin)).
Qed.

Lemma wf_ctrls_spec cs : wf_ctrls cs = true ->
  StronglySorted name_lt (map fst cs) /\ NoDup (map fst cs) /\ forall c, In c cs -> wf_ctrl c = true.
Proof.
  unfold wf_ctrls. intros H. apply andb_prop in H. destruct H as [H1 H2].
  apply strictly_sorted_strong in H1. split; [exact H1|]. split; [apply strong_sorted_NoDup; exact H1|].
  apply forallb_forall. exact H2.
Qed.

Lemma wf_ctrls_tail c cs : wf_ctrls (c :: cs) = true -> wf_ctrl c = true /\ wf_ctrls cs = true.
Proof.
  unfold wf_ctrls. intros H. apply andb_prop in H. destruct H as [H1 H2].
  simpl in H1, H2. apply andb_prop in H1, H2. destruct H1 as [_ H1], H2 as [H2 H3].
  split; [exact H2|]. rewrite H1, H3. reflexivity.
Qed.

Lemma number_of_configurations_product cs :
  cs <> [] -> (forall c, In c cs -> NoDup (snd c)) ->
  number_of_configurations cs = Z.of_nat (List.length (product cs)).
Proof.
  intros Hne Hnd. unfold number_of_configurations. destruct cs as [|c0 cs0]; [congruence|].
  remember (c0 :: cs0) as cs. clear Heqcs Hne c0 cs0.
  rewrite fold_left_mul, product_length, Z.mul_1_l.
  induction cs as [|c cs IH]; simpl; [reflexivity|].
  rewrite Nat2Z.inj_mul, IH by (intros; apply Hnd; right; assumption).
  rewrite nodup_fixed_point by (apply Hnd; left; reflexivity). reflexivity.
Qed.

(* ---- membership: valid configurations are exactly the elements of the product *)
Lemma list_eqb_string l1 l2 : list_eqb String.eqb l1 l2 = true <-> l1 = l2.
Proof.
  revert l2. induction l1 as [|x l1 IH]; intros [|y l2]; simpl; split; try congruence; try discriminate.
  - intros H. apply andb_prop in H. destruct H as [H1 H2]. apply String.eqb_eq in H1. apply IH in H2. congruence.
  - intros [= -> ->]. rewrite String.eqb_refl. apply IH. reflexivity.
Qed.

Lemma valid_config_In : forall cs cfg, valid_config cs cfg = true <-> In cfg (product cs).
Proof.
  induction cs as [|c cs IH]; intros cfg.
  - unfold valid_config. simpl. destruct cfg; simpl; split; auto; try discriminate. intros [H|[]]. discriminate.
  - simpl product. rewrite in_flat_map. split.
    + unfold valid_config. intros H. apply andb_prop in H. destruct H as [H1 H2]. apply list_eqb_string in H1.
      destruct cfg as [|[n s] cfg]; [discriminate|]. simpl in H1, H2. injection H1 as Hn Hr.
      apply andb_prop in H2. destruct H2 as [H2 H3]. apply str_mem_In in H2.
      exists s. split; [exact H2|]. apply in_map_iff. exists cfg. split; [subst; reflexivity|].
      apply IH. unfold valid_config. rewrite H3. rewrite (proj2 (list_eqb_string _ _) Hr). reflexivity.
    + intros (s & Hs & Hin). apply in_map_iff in Hin. destruct Hin as (cfg' & <- & Hin).
      apply IH in Hin. unfold valid_config in *. apply andb_prop in Hin. destruct Hin as [H1 H2].
      simpl. apply list_eqb_string in H1. rewrite H1, String.eqb_refl, (proj2 (list_eqb_string _ _) eq_refl). simpl.
      rewrite (proj2 (str_mem_In _ _) Hs), H2. reflexivity.
Qed.

Lemma NoDup_app_disj {A} (l1 l2 : list A) :
  NoDup l1 -> NoDup l2 -> (forall x, In x l1 -> ~ In x l2) -> NoDup (l1 ++ l2).
Proof.
  induction 1 as [|x l1 Hni Hnd IH]; intros H2 Hd; simpl; [exact H2|].
  constructor.
  - intros Hin. apply in_app_or in Hin. destruct Hin as [Hin|Hin]; [contradiction|].
    apply (Hd x); [left; reflexivity|exact Hin].
  - apply IH; [exact H2|]. intros y Hy. apply Hd. right. exact Hy.
Qed.

Lemma NoDup_flat_map {A B} (f : A -> list B) l :
  NoDup l -> (forall x, In x l -> NoDup (f x)) ->
  (forall x y b, In x l -> In y l -> In b (f x) -> In b (f y) -> x = y) ->
  NoDup (flat_map f l).
Proof.
  induction 1 as [|x l Hni Hnd IH]; intros Hf Hdisj; simpl; [constructor|].
  apply NoDup_app_disj.
  - apply Hf. left. reflexivity.
  - apply IH; [intros; apply Hf; right; assumption|].
    intros a b0 b Ha Hb. apply Hdisj; right; assumption.
  - intros b Hb Hb'. apply in_flat_map in Hb'. destruct Hb' as (y & Hy & Hby).
    assert (x = y) by (eapply Hdisj; eauto; [left; reflexivity|right; exact Hy]). subst. contradiction.
Qed.

Lemma product_NoDup cs : (forall c, In c cs -> NoDup (snd c)) -> NoDup (product cs).
Proof.
  induction cs as [|c cs IH]; intros H; simpl; [constructor; [intros []|constructor]|].
  apply NoDup_flat_map.
  - apply H. left. reflexivity.
  - intros s _. apply FinFun.Injective_map_NoDup; [intros a b [= E]; exact E|].
    apply IH. intros; apply H; right; assumption.
  - intros s1 s2 b _ _ H1 H2. apply in_map_iff in H1, H2.
    destruct H1 as (x1 & <- & _), H2 as (x2 & E & _). congruence.
Qed.

(* every element of the product has the controllers' names, in the controllers' order *)
Lemma product_fst cs cfg : In cfg (product cs) -> map fst cfg = map fst cs.
Proof.
  intros H. apply valid_config_In in H. unfold valid_config in H.
  apply andb_prop in H. destruct H as [H _]. apply list_eqb_string. exact H.
Qed.

Lemma product_names_ok : forall cs cfg,
  (forall c, In c cs -> wf_ctrl c = true) -> In cfg (product cs) -> names_ok cfg = true.
Proof.
  induction cs as [|c cs IH]; intros cfg Hwf H; simpl in H.
  - destruct H as [<-|[]]. reflexivity.
  - apply in_flat_map in H. destruct H as (s & Hs & H). apply in_map_iff in H. destruct H as (cfg' & <- & H).
    simpl. destruct (wf_ctrl_spec c (Hwf c (or_introl eq_refl))) as (Hn & _ & _ & Hall).
    rewrite forallb_forall in Hall. rewrite Hn, (Hall s Hs). simpl.
    apply IH; [intros; apply Hwf; right; assumption|exact H].
Qed.

Lemma sorted_names_is_config cfg : StronglySorted name_lt (map fst cfg) -> is_config cfg.
Proof.
  intros H. split; [|apply strong_sorted_NoDup; exact H].
  induction cfg as [|[a b] cfg IH]; [constructor|].
  simpl in H. inversion H as [|? ? Hs Hall]; subst. constructor; [apply IH; exact Hs|].
  rewrite Forall_forall in *. intros [a' b'] Hin.
  assert (Hlt : name_lt a a') by (apply Hall; apply in_map_iff; exists (a', b'); auto).
  unfold sel_le, sel_leb, sel_cmp. simpl. unfold name_lt in Hlt. rewrite Hlt. reflexivity.
Qed.

Lemma product_is_config cs cfg : wf_ctrls cs = true -> In cfg (product cs) -> is_config cfg.
Proof.
  intros Hwf H. apply sorted_names_is_config. rewrite (product_fst _ _ H).
  apply wf_ctrls_spec. exact Hwf.
Qed.

(* ---- the identifiers built by CentralController are the identifiers of the product *)
Lemma term_of_inj n s1 s2 : term_of (n, s1) = term_of (n, s2) -> s1 = s2.
Proof.
  unfold term_of. simpl. intros H. apply append_cancel_l in H. injection H. auto.
Qed.

Lemma state_ids_map c : NoDup (snd c) ->
  state_ids c = map (fun s => term_of (fst c, s)) (snd c).
Proof.
  intros H. unfold state_ids. apply nodup_fixed_point.
  apply FinFun.Injective_map_NoDup; [|exact H]. intros a b. apply term_of_inj.
Qed.

Lemma flat_map_map {A B C} (f : B -> list C) (g : A -> B) l :
  flat_map f (map g l) = flat_map (fun x => f (g x)) l.
Proof. induction l; simpl; congruence. Qed.

Lemma map_flat_map {A B C} (f : A -> list B) (g : B -> C) l :
  map g (flat_map f l) = flat_map (fun x => map g (f x)) l.
Proof. induction l; simpl; [reflexivity|]. rewrite map_app. congruence. Qed.

Lemma sproduct_product cs : (forall c, In c cs -> NoDup (snd c)) ->
  sproduct (map state_ids cs) = map (map term_of) (product cs).
Proof.
  induction cs as [|c cs IH]; intros H; simpl; [reflexivity|].
  rewrite state_ids_map by (apply H; left; reflexivity).
  rewrite flat_map_map, map_flat_map.
  apply flat_map_ext. intros s. rewrite IH by (intros; apply H; right; assumption).
  rewrite !map_map. reflexivity.
Qed.

Lemma all_ids_product cs : wf_ctrls cs = true -> all_ids cs = map string_id (product cs).
Proof.
  intros Hwf. destruct (wf_ctrls_spec _ Hwf) as (_ & _ & Hc).
  assert (Hnd : forall c, In c cs -> NoDup (snd c)) by (intros c Hin; apply (wf_ctrl_spec c (Hc c Hin))).
  unfold all_ids. rewrite sproduct_product by exact Hnd. rewrite map_map.
  apply nodup_fixed_point.
  assert (Hp := product_NoDup cs Hnd).
  assert (Hok : forall cfg, In cfg (product cs) -> names_ok cfg = true) by (intros; eapply product_names_ok; eauto).
  revert Hp Hok. generalize (product cs) as l. induction l as [|x l IH]; intros Hp Hok; simpl; [constructor|].
  inversion Hp as [|? ? Hni Hp']; subst. constructor.
  - intros Hin. apply in_map_iff in Hin. destruct Hin as (y & E & Hy).
    apply string_id_inj in E; [subst; contradiction| |]; apply Hok; simpl; auto.
  - apply IH; [exact Hp'|]. intros; apply Hok; right; assumption.
Qed.

Lemma product_nonnil cs cfg : cs <> [] -> In cfg (product cs) -> cfg <> [].
Proof.
  intros Hne H E. apply product_fst in H. subst. destruct cs; [congruence|discriminate].
Qed.

(* T16d: the set of configurations enumerated by the library is the product, each once *)
Lemma all_configurations_product cs :
  wf_ctrls cs = true -> cs <> [] -> all_configurations cs = map Some (product cs).
Proof.
  intros Hwf Hne. unfold all_configurations. rewrite all_ids_product by exact Hwf. rewrite map_map.
  apply map_ext_in. intros cfg Hin. apply from_string_string_id.
  - eapply product_nonnil; eauto.
  - eapply product_names_ok; [|exact Hin]. apply wf_ctrls_spec. exact Hwf.
  - eapply product_is_config; eauto.
Qed.

Lemma iteration_exactly_once cs :
  wf_ctrls cs = true -> cs <> [] ->
  forall order, Permutation order (all_configurations cs) ->
    NoDup order /\
    List.length order = prod_nat (sizes cs) /\
    (forall x, In x order -> exists cfg, x = Some cfg /\ valid_config cs cfg = true) /\
    (forall cfg, valid_config cs cfg = true -> In (Some cfg) order).
Proof.
  intros Hwf Hne order P. rewrite all_configurations_product in P by assumption.
  destruct (wf_ctrls_spec _ Hwf) as (_ & _ & Hc).
  assert (Hnd : forall c, In c cs -> NoDup (snd c)) by (intros c Hin; apply (wf_ctrl_spec c (Hc c Hin))).
  split; [|split; [|split]].
  - eapply Permutation_NoDup; [symmetry; exact P|].
    apply FinFun.Injective_map_NoDup; [intros a b [= E]; exact E|]. apply product_NoDup. exact Hnd.
  - rewrite (Permutation_length P), map_length. apply product_length.
  - intros x Hx. eapply Permutation_in in Hx; [|exact P]. apply in_map_iff in Hx.
    destruct Hx as (cfg & <- & Hin). exists cfg. split; [reflexivity|]. apply valid_config_In. exact Hin.
  - intros cfg Hv. eapply Permutation_in; [symmetry; exact P|]. apply in_map. apply valid_config_In. exact Hv.
Qed.

(* ================================================================== controller state *)
Definition st_ok (cs : list controller) (st : cstate) : Prop :=
  Forall2 (fun c i => 0 <= i < Z.of_nat (List.length (snd c))) cs st.

Lemma index_of_spec : forall l s i, index_of s l = Some i ->
  0 <= i < Z.of_nat (List.length l) /\ nth_Z EmptyString l i = s /\
  nth_error l (Z.to_nat i) = Some s.
Proof.
  induction l as [|x l IH]; intros s i H; simpl in H; [discriminate|].
  destruct (String.eqb_spec x s) as [->|Hne].
  - injection H as <-. split; [simpl List.length; lia|split; reflexivity].
  - destruct (index_of s l) as [j|] eqn:E; [|discriminate]. injection H as <-.
    destruct (IH _ _ E) as (Hr & Hn & He). split; [simpl List.length; lia|].
    assert (H1 : Z.succ j <? 0 = false) by (apply Z.ltb_ge; lia).
    assert (H2 : j <? 0 = false) by (apply Z.ltb_ge; lia).
    unfold nth_Z in *. rewrite H1. rewrite H2 in Hn.
    replace (Z.to_nat (Z.succ j)) with (S (Z.to_nat j)) by lia. simpl. auto.
Qed.

Lemma index_of_nth : forall l i, NoDup l -> 0 <= i < Z.of_nat (List.length l) ->
  index_of (nth_Z EmptyString l i) l = Some i.
Proof.
  induction l as [|x l IH]; intros i Hnd Hi; simpl in Hi; [lia|].
  inversion Hnd as [|? ? Hni Hnd']; subst.
  assert (H0 : i <? 0 = false) by (apply Z.ltb_ge; lia).
  unfold nth_Z. rewrite H0.
  destruct (Z.to_nat i) as [|k] eqn:E.
  - simpl. rewrite String.eqb_refl. f_equal. lia.
  - simpl. destruct (String.eqb_spec x (nth k l EmptyString)) as [Heq|_].
    + exfalso. apply Hni. rewrite Heq. apply nth_In. lia.
    + specialize (IH (Z.of_nat k) Hnd' ltac:(lia)). unfold nth_Z in IH.
      assert (H1 : Z.of_nat k <? 0 = false) by (apply Z.ltb_ge; lia).
      rewrite H1 in IH. rewrite Nat2Z.id in IH. rewrite IH. simpl. f_equal. lia.
Qed.

Lemma nth_Z_In l i : 0 <= i < Z.of_nat (List.length l) -> In (nth_Z EmptyString l i) l.
Proof.
  intros H. assert (H0 : i <? 0 = false) by (apply Z.ltb_ge; lia).
  unfold nth_Z. rewrite H0. apply nth_In. lia.
Qed.

Lemma map_opt_Forall2 {A B} (f : A -> option B) : forall l r,
  map_opt f l = Some r <-> Forall2 (fun x y => f x = Some y) l r.
Proof.
  induction l as [|x l IH]; intros r; simpl.
  - split; [intros [= <-]; constructor|intros H; inversion H; reflexivity].
  - split.
    + destruct (f x) eqn:E; [|discriminate]. destruct (map_opt f l) eqn:E2; [|discriminate].
      intros [= <-]. constructor; [exact E|]. apply IH. reflexivity.
    + intros H. inversion H as [|? y ? r' Hx Hr]; subst. rewrite Hx. apply IH in Hr. rewrite Hr. reflexivity.
Qed.

Lemma Forall2_combine {A B} (R : A -> B -> Prop) : forall l1 l2,
  List.length l1 = List.length l2 -> (forall x y, In (x, y) (combine l1 l2) -> R x y) -> Forall2 R l1 l2.
Proof.
  induction l1 as [|x l1 IH]; intros [|y l2] Hl H; simpl in *; try discriminate; constructor.
  - apply H. left. reflexivity.
  - apply IH; [lia|]. intros; apply H; right; assumption.
Qed.

Lemma Forall2_In_combine {A B} (R : A -> B -> Prop) l1 l2 x y :
  Forall2 R l1 l2 -> In (x, y) (combine l1 l2) -> R x y.
Proof.
  induction 1 as [|a b l1 l2 Hab HF IH]; simpl; [intros []|]. intros [[= <- <-]|Hin]; auto.
Qed.

Lemma assoc_In_NoDup {A} (l : list (string * A)) k v :
  NoDup (map fst l) -> In (k, v) l -> assoc k l = Some v.
Proof.
  induction l as [|[k' v'] l IH]; simpl; [intros _ []|]. intros Hnd [[= -> ->]|Hin].
  - rewrite String.eqb_refl. reflexivity.
  - inversion Hnd as [|? ? Hni Hnd']; subst.
    destruct (String.eqb_spec k' k) as [->|_]; [|apply IH; assumption].
    exfalso. apply Hni. apply in_map_iff. exists (k, v). auto.
Qed.

Lemma assoc_Some_In {A} (l : list (string * A)) k v : assoc k l = Some v -> In (k, v) l.
Proof.
  induction l as [|[k' v'] l IH]; simpl; [discriminate|].
  destruct (String.eqb_spec k' k) as [->|_]; [intros [= ->]; left; reflexivity|intros H; right; apply IH; exact H].
Qed.

Lemma known_ctrl_In cs n : known_ctrl cs n = true <-> In n (map fst cs).
Proof.
  unfold known_ctrl. rewrite existsb_exists. split.
  - intros (c & Hc & E). apply String.eqb_eq in E. subst. apply in_map. exact Hc.
  - intros H. apply in_map_iff in H. destruct H as (c & <- & Hc). exists c. split; [exact Hc|apply String.eqb_refl].
Qed.

Lemma valid_config_Forall2 cs cfg :
  valid_config cs cfg = true <-> Forall2 (fun sel c => fst sel = fst c /\ In (snd sel) (snd c)) cfg cs.
Proof.
  revert cfg. induction cs as [|c cs IH]; intros [|sel cfg].
  - split; [constructor|reflexivity].
  - split; [discriminate|intros H; inversion H].
  - split; [discriminate|intros H; inversion H].
  - split.
    + unfold valid_config. simpl. intros H. apply andb_prop in H. destruct H as [H1 H2]. apply andb_prop in H1, H2.
      destruct H1 as [H1 H1'], H2 as [H2 H2']. apply String.eqb_eq in H1. apply str_mem_In in H2.
      constructor; [split; assumption|]. apply IH. unfold valid_config. rewrite H1', H2'. reflexivity.
    + intros H. inversion H as [|? ? ? ? [Ha Hb] Hr]; subst. apply IH in Hr. unfold valid_config in *.
      apply andb_prop in Hr. destruct Hr as [Hr1 Hr2]. simpl.
      rewrite Ha, String.eqb_refl, Hr1, (proj2 (str_mem_In _ _) Hb), Hr2. reflexivity.
Qed.

Definition sel_of (cfg : config) (n : string) : string :=
  match assoc n cfg with Some s => s | None => EmptyString end.

Lemma cfg_as_map cfg : NoDup (map fst cfg) -> map (fun n => (n, sel_of cfg n)) (map fst cfg) = cfg.
Proof.
  induction cfg as [|[k v] cfg IH]; simpl; [reflexivity|]. intros Hnd. inversion Hnd as [|? ? Hni Hnd']; subst.
  unfold sel_of at 1. simpl. rewrite String.eqb_refl. f_equal.
  rewrite <- (IH Hnd') at 2. apply map_ext_in. intros n Hn. unfold sel_of. simpl.
  destruct (String.eqb_spec k n) as [->|_]; [contradiction|reflexivity].
Qed.

(* the relation between a controller and its index established by set_configuration cfg *)
Definition set_rel (cfg : config) (c : controller) (i : Z) : Prop :=
  exists s, assoc (fst c) cfg = Some s /\ index_of s (snd c) = Some i.

Lemma Forall2_imp {A B} (R1 R2 : A -> B -> Prop) l1 l2 :
  (forall x y, R1 x y -> R2 x y) -> Forall2 R1 l1 l2 -> Forall2 R2 l1 l2.
Proof. intros H. induction 1; constructor; auto. Qed.

Lemma set_configuration_rel cs cfg st :
  set_configuration cs cfg = Some st -> Forall2 (set_rel cfg) cs st.
Proof.
  unfold set_configuration. destruct (forallb (fun sel => known_ctrl cs (fst sel)) cfg); [|discriminate]. intros H.
  apply map_opt_Forall2 in H. eapply Forall2_imp; [|exact H].
  intros c i Hc. simpl in Hc. destruct (assoc (fst c) cfg) as [s|] eqn:E; [|discriminate]. exists s. auto.
Qed.

Lemma set_rel_ok cfg cs st : Forall2 (set_rel cfg) cs st -> st_ok cs st.
Proof.
  intros H. eapply Forall2_imp; [|exact H]. intros c i (s & _ & Hi). apply (index_of_spec _ _ _ Hi).
Qed.

Lemma Forall2_In_r_ex {A B} (R : A -> B -> Prop) l1 l2 y :
  Forall2 R l1 l2 -> In y l2 -> exists x, In x l1 /\ R x y.
Proof.
  induction 1 as [|a b l1 l2 Hab HF IH]; simpl; [intros []|]. intros [<-|Hin].
  - exists a. auto.
  - destruct (IH Hin) as (x & Hx & HR). exists x. auto.
Qed.

Lemma index_of_In s l : In s l -> exists i, index_of s l = Some i.
Proof.
  induction l as [|x l IH]; simpl; [intros []|]. intros H.
  destruct (String.eqb_spec x s) as [_|Hne]; [eauto|].
  destruct H as [H|H]; [contradiction|]. destruct (IH H) as (i & ->). simpl. eauto.
Qed.

Lemma map_opt_total {A B} (f : A -> option B) l :
  (forall x, In x l -> exists y, f x = Some y) -> exists r, map_opt f l = Some r.
Proof.
  induction l as [|x l IH]; intros H; simpl; [eauto|].
  destruct (H x (or_introl eq_refl)) as (y & ->).
  destruct IH as (r & ->); [intros; apply H; right; assumption|]. eauto.
Qed.

Lemma valid_names cs cfg : valid_config cs cfg = true -> map fst cfg = map fst cs.
Proof.
  unfold valid_config. intros H. apply andb_prop in H. destruct H as [H _]. apply list_eqb_string. exact H.
Qed.

Lemma set_configuration_valid cs cfg :
  NoDup (map fst cs) -> valid_config cs cfg = true ->
  exists st, set_configuration cs cfg = Some st /\ st_ok cs st.
Proof.
  intros Hnd Hv. pose proof (proj1 (valid_config_Forall2 _ _) Hv) as HF.
  pose proof (valid_names _ _ Hv) as Hnames.
  assert (Hex : exists st, set_configuration cs cfg = Some st).
  { unfold set_configuration.
    replace (forallb (fun sel => known_ctrl cs (fst sel)) cfg) with true.
    - apply map_opt_total. intros c Hc.
      destruct (Forall2_In_r_ex _ _ _ _ HF Hc) as ([n s] & Hs & Ha & Hb). simpl in Ha, Hb. subst n.
      rewrite (assoc_In_NoDup cfg (fst c) s); [|rewrite Hnames; exact Hnd|exact Hs].
      apply index_of_In. exact Hb.
    - symmetry. apply forallb_forall. intros sel Hsel. apply known_ctrl_In. rewrite <- Hnames.
      apply in_map. exact Hsel. }
  destruct Hex as (st & Hst). exists st. split; [exact Hst|].
  eapply set_rel_ok. apply set_configuration_rel. exact Hst.
Qed.

Lemma get_configuration_cons c cs i st :
  get_configuration (c :: cs) (i :: st) = (fst c, nth_Z EmptyString (snd c) i) :: get_configuration cs st.
Proof. reflexivity. Qed.

Lemma get_configuration_names cs st :
  List.length cs = List.length st -> map fst (get_configuration cs st) = map fst cs.
Proof.
  revert st. induction cs as [|c cs IH]; intros [|i st] H; simpl in H; try discriminate; [reflexivity|].
  rewrite get_configuration_cons. simpl. f_equal. apply IH. lia.
Qed.

(* set then get: the configuration read back from the controllers is the one that was set *)
Lemma set_get cs cfg st :
  NoDup (map fst cs) -> valid_config cs cfg = true ->
  set_configuration cs cfg = Some st -> get_configuration cs st = cfg.
Proof.
  intros Hnd Hv Hst. pose proof (valid_names _ _ Hv) as Hnames.
  apply set_configuration_rel in Hst.
  assert (H : get_configuration cs st = map (fun n => (n, sel_of cfg n)) (map fst cs)).
  { clear -Hst. induction Hst as [|c i cs st (s & Ha & Hi) _ IH]; [reflexivity|].
    rewrite get_configuration_cons, IH. simpl. f_equal. f_equal.
    unfold sel_of. rewrite Ha. apply (index_of_spec _ _ _ Hi). }
  rewrite H, <- Hnames. apply cfg_as_map. rewrite Hnames. exact Hnd.
Qed.

Lemma get_valid cs st : st_ok cs st -> valid_config cs (get_configuration cs st) = true.
Proof.
  intros H. apply valid_config_Forall2.
  induction H as [|c i cs st Hi _ IH]; [constructor|].
  rewrite get_configuration_cons. constructor; [|exact IH]. simpl. split; [reflexivity|].
  apply nth_Z_In. exact Hi.
Qed.

Lemma st_ok_length cs st : st_ok cs st -> List.length cs = List.length st.
Proof. induction 1; simpl; congruence. Qed.

(* get then set: setting the configuration read from the controllers restores their indices *)
Lemma get_set cs st :
  NoDup (map fst cs) -> (forall c, In c cs -> NoDup (snd c)) -> st_ok cs st ->
  set_configuration cs (get_configuration cs st) = Some st.
Proof.
  intros Hnd Hspecs Hok. pose proof (st_ok_length _ _ Hok) as Hlen.
  pose proof (get_configuration_names _ _ Hlen) as Hnames.
  unfold set_configuration.
  replace (forallb (fun sel => known_ctrl cs (fst sel)) (get_configuration cs st)) with true.
  - apply map_opt_Forall2. apply Forall2_combine; [exact Hlen|].
    intros c i Hin. simpl.
    rewrite (assoc_In_NoDup _ (fst c) (nth_Z EmptyString (snd c) i)).
    + apply index_of_nth; [apply Hspecs; eapply in_combine_l; exact Hin|].
      apply (Forall2_In_combine _ _ _ _ _ Hok Hin).
    + rewrite Hnames. exact Hnd.
    + unfold get_configuration. apply in_map_iff. exists (c, i). auto.
  - symmetry. apply forallb_forall. intros sel Hsel. apply known_ctrl_In. rewrite <- Hnames.
    apply in_map. exact Hsel.
Qed.

Lemma modify_cons c cs i st n s :
  modify (c :: cs) (i :: st) n s =
  (if String.eqb (fst c) n then step_index (Z.of_nat (List.length (snd c))) i s else i) :: modify cs st n s.
Proof. reflexivity. Qed.

Lemma modify_ok cs st n s : st_ok cs st -> st_ok cs (modify cs st n s).
Proof.
  induction 1 as [|c i cs st Hi _ IH]; [constructor|].
  rewrite modify_cons. constructor; [|exact IH].
  destruct (String.eqb (fst c) n); [apply step_index_range; lia|exact Hi].
Qed.

Lemma modify_inverse cs st n s : st_ok cs st -> modify cs (modify cs st n s) n (- s) = st.
Proof.
  induction 1 as [|c i cs st Hi _ IH]; [reflexivity|].
  rewrite !modify_cons, IH. f_equal.
  destruct (String.eqb (fst c) n); [apply step_index_inverse; lia|reflexivity].
Qed.

Lemma modify_inverse' cs st n s : st_ok cs st -> modify cs (modify cs st n (- s)) n s = st.
Proof.
  intros H. rewrite <- (Z.opp_involutive s) at 2. apply modify_inverse. exact H.
Qed.

Lemma fold_modify_ok cs delta choice : forall st,
  st_ok cs st -> st_ok cs (fold_left (fun s n => modify cs s n delta) choice st).
Proof.
  induction choice as [|n choice IH]; intros st H; simpl; [exact H|]. apply IH. apply modify_ok. exact H.
Qed.

Definition wf_specs (cs : list controller) : Prop := forall c, In c cs -> NoDup (snd c).

Lemma wf_ctrls_props cs : wf_ctrls cs = true -> NoDup (map fst cs) /\ wf_specs cs.
Proof.
  intros Hwf. destruct (wf_ctrls_spec _ Hwf) as (_ & Hnd & Hc). split; [exact Hnd|].
  intros c Hin. apply (wf_ctrl_spec c (Hc c Hin)).
Qed.

(* ================================================================== T16g: operators are closed *)
Lemma increased_closed cs n cfg s :
  wf_ctrls cs = true -> valid_config cs cfg = true -> In n (map fst cs) ->
  exists cfg', increased cs n cfg s = Some (cfg', s) /\ valid_config cs cfg' = true.
Proof.
  intros Hwf Hv Hn. destruct (wf_ctrls_props _ Hwf) as [Hnd _].
  destruct (set_configuration_valid _ _ Hnd Hv) as (st & Hst & Hok).
  unfold increased. rewrite Hst, (proj2 (known_ctrl_In _ _) Hn).
  eexists. split; [reflexivity|]. apply get_valid. apply modify_ok. exact Hok.
Qed.

Lemma decreased_closed cs n cfg s :
  wf_ctrls cs = true -> valid_config cs cfg = true -> In n (map fst cs) ->
  exists cfg', decreased cs n cfg s = Some (cfg', s) /\ valid_config cs cfg' = true.
Proof.
  intros Hwf Hv Hn. destruct (wf_ctrls_props _ Hwf) as [Hnd _].
  destruct (set_configuration_valid _ _ Hnd Hv) as (st & Hst & Hok).
  unfold decreased. rewrite Hst, (proj2 (known_ctrl_In _ _) Hn).
  eexists. split; [reflexivity|]. apply get_valid. apply modify_ok. exact Hok.
Qed.

Lemma two_controllers_closed cs n1 n2 d cfg s :
  wf_ctrls cs = true -> valid_config cs cfg = true -> In n1 (map fst cs) -> In n2 (map fst cs) ->
  exists cfg', two_controllers cs n1 n2 d cfg s = Some (cfg', s) /\ valid_config cs cfg' = true.
Proof.
  intros Hwf Hv H1 H2. destruct (wf_ctrls_props _ Hwf) as [Hnd _].
  destruct (set_configuration_valid _ _ Hnd Hv) as (st & Hst & Hok).
  unfold two_controllers. rewrite Hst, (proj2 (known_ctrl_In _ _) H1), (proj2 (known_ctrl_In _ _) H2). simpl.
  eexists. split; [reflexivity|]. apply get_valid. apply modify_ok. apply modify_ok. exact Hok.
Qed.

Lemma modify_random_closed cs delta choice cfg s :
  wf_ctrls cs = true -> valid_config cs cfg = true -> (forall n, In n choice -> In n (map fst cs)) ->
  exists cfg', modify_random cs delta choice cfg s = Some (cfg', Z.min s (Z.of_nat (List.length cs)))
               /\ valid_config cs cfg' = true.
Proof.
  intros Hwf Hv Hc. destruct (wf_ctrls_props _ Hwf) as [Hnd _].
  destruct (set_configuration_valid _ _ Hnd Hv) as (st & Hst & Hok).
  unfold modify_random. rewrite Hst.
  replace (forallb (known_ctrl cs) choice) with true
    by (symmetry; apply forallb_forall; intros n Hn; apply known_ctrl_In; apply Hc; exact Hn).
  eexists. split; [reflexivity|]. apply get_valid. apply fold_modify_ok. exact Hok.
Qed.

(* every operator returned by prepare_operators, for every outcome of random.choices among the
   controllers' names and every value of the_modification *)
Lemma prepared_operator_closed cs sd choice name o cfg s :
  wf_ctrls cs = true -> valid_config cs cfg = true ->
  (forall n, In n choice -> In n (map fst cs)) ->
  In (name, o) (prepare_operators cs) ->
  exists cfg' k, apply_op cs sd choice o cfg s = Some (cfg', k) /\ valid_config cs cfg' = true.
Proof.
  intros Hwf Hv Hc Hin. unfold prepare_operators in Hin.
  apply in_app_or in Hin. destruct Hin as [Hin|Hin]; [|apply in_app_or in Hin; destruct Hin as [Hin|Hin]].
  - apply in_flat_map in Hin. destruct Hin as (n & Hn & [E|[E|[]]]); injection E as _ <-; simpl.
    + destruct (increased_closed cs n cfg s Hwf Hv Hn) as (c' & H1 & H2). eauto.
    + destruct (decreased_closed cs n cfg s Hwf Hv Hn) as (c' & H1 & H2). eauto.
  - apply in_flat_map in Hin. destruct Hin as (n1 & Hn1 & Hin).
    apply in_flat_map in Hin. destruct Hin as (n2 & Hn2 & Hin).
    destruct (String.eqb n1 n2); [destruct Hin|].
    apply in_map_iff in Hin. destruct Hin as (d & E & _). injection E as _ <-. simpl.
    destruct (two_controllers_closed cs n1 n2 d cfg s Hwf Hv Hn1 Hn2) as (c' & H1 & H2). eauto.
  - destruct Hin as [E|[E|[]]]; injection E as _ <-; simpl;
      destruct (modify_random_closed cs (sd true) choice cfg s Hwf Hv Hc) as (c1 & H1 & H2);
      destruct (modify_random_closed cs (sd false) choice cfg s Hwf Hv Hc) as (c2 & H3 & H4); eauto.
Qed.

(* ================================================================== T16h: inverse *)
Lemma inc_dec_inverse cs n cfg s cfg' k :
  wf_ctrls cs = true -> valid_config cs cfg = true ->
  increased cs n cfg s = Some (cfg', k) -> decreased cs n cfg' s = Some (cfg, s).
Proof.
  intros Hwf Hv H. destruct (wf_ctrls_props _ Hwf) as [Hnd Hsp].
  destruct (set_configuration_valid _ _ Hnd Hv) as (st & Hst & Hok).
  unfold increased in H. rewrite Hst in H. destruct (known_ctrl cs n) eqn:Hk; [|discriminate].
  injection H as <- <-. unfold decreased.
  rewrite (get_set _ _ Hnd Hsp (modify_ok _ _ n s Hok)), Hk, (modify_inverse _ _ _ _ Hok).
  rewrite (set_get _ _ _ Hnd Hv Hst). reflexivity.
Qed.

Lemma dec_inc_inverse cs n cfg s cfg' k :
  wf_ctrls cs = true -> valid_config cs cfg = true ->
  decreased cs n cfg s = Some (cfg', k) -> increased cs n cfg' s = Some (cfg, s).
Proof.
  intros Hwf Hv H. destruct (wf_ctrls_props _ Hwf) as [Hnd Hsp].
  destruct (set_configuration_valid _ _ Hnd Hv) as (st & Hst & Hok).
  unfold decreased in H. rewrite Hst in H. destruct (known_ctrl cs n) eqn:Hk; [|discriminate].
  injection H as <- <-. unfold increased.
  rewrite (get_set _ _ Hnd Hsp (modify_ok _ _ n (- s) Hok)), Hk, (modify_inverse' _ _ _ _ Hok).
  rewrite (set_get _ _ _ Hnd Hv Hst). reflexivity.
Qed.

(* ================================================================== selection = substitution *)
Section cexpr_induction.
  Variable P : cexpr -> Prop.
  Hypothesis HN : forall h k, Forall P k -> P (CNode h k).
  Hypothesis HC : forall n c ms, Forall (fun m => P (snd m)) ms -> P (CCat n c ms).
  Fixpoint cexpr_ind' (e : cexpr) : P e :=
    match e with
    | CNode h k =>
        HN h k ((fix go (l : list cexpr) : Forall P l :=
                   match l with
                   | [] => Forall_nil _
                   | x :: r => Forall_cons x (cexpr_ind' x) (go r)
                   end) k)
    | CCat n c ms =>
        HC n c ms ((fix go (l : list (string * cexpr)) : Forall (fun m => P (snd m)) l :=
                      match l with
                      | [] => Forall_nil _
                      | m :: r => Forall_cons m (cexpr_ind' (snd m)) (go r)
                      end) ms)
    end.
End cexpr_induction.

Definition pick_m (f : cexpr -> expr) :=
  fix pick (l : list (string * cexpr)) (n : nat) {struct l} : expr :=
    match l with
    | [] => dummy
    | m :: r => match n with O => f (snd m) | S j => pick r j end
    end.

Definition find_m (f : cexpr -> expr) (s : string) :=
  fix find (l : list (string * cexpr)) : expr :=
    match l with
    | [] => dummy
    | m :: r => if String.eqb (fst m) s then f (snd m) else find r
    end.

Lemma erase_cat ix n c ms :
  erase ix (CCat n c ms) =
  match ix c with
  | None => dummy
  | Some i => if i <? 0 then dummy else pick_m (erase ix) ms (Z.to_nat i)
  end.
Proof. reflexivity. Qed.

Lemma subst_cat cfg n c ms :
  subst cfg (CCat n c ms) =
  match assoc c cfg with None => dummy | Some s => find_m (subst cfg) s ms end.
Proof. reflexivity. Qed.

Lemma Forall_flat_map' {A B} (P : B -> Prop) (f : A -> list B) l :
  Forall P (flat_map f l) <-> Forall (fun x => Forall P (f x)) l.
Proof.
  induction l as [|x l IH]; simpl; [split; constructor|].
  rewrite Forall_app, IH. split; [intros [H1 H2]; constructor; assumption|intros H; inversion H; auto].
Qed.

(* what set_configuration establishes for one controller: its index is the position of the
   configuration's selection among its specifications *)
Definition ctrl_set (cfg : config) (ix : string -> option Z) (c : controller) : Prop :=
  exists s i, assoc (fst c) cfg = Some s /\ ix (fst c) = Some i /\ index_of s (snd c) = Some i.

Lemma pick_find ix cfg s : forall ms i,
  Forall (fun m => erase ix (snd m) = subst cfg (snd m)) ms ->
  index_of s (map fst ms) = Some i ->
  pick_m (erase ix) ms (Z.to_nat i) = find_m (subst cfg) s ms.
Proof.
  induction ms as [|m ms IH]; intros i HF Hi; simpl in Hi; [discriminate|].
  inversion HF as [|? ? Hm HF']; subst.
  destruct (String.eqb (fst m) s) eqn:E.
  - injection Hi as <-. simpl. rewrite E. exact Hm.
  - destruct (index_of s (map fst ms)) as [j|] eqn:Ej; [|discriminate]. injection Hi as <-.
    destruct (index_of_spec _ _ _ Ej) as (Hr & _).
    replace (Z.to_nat (Z.succ j)) with (S (Z.to_nat j)) by lia. simpl. rewrite E. apply IH; auto.
Qed.

(* T16f (structural core) *)
Lemma erase_subst cfg ix : forall e,
  Forall (ctrl_set cfg ix) (ctrls_of e) -> erase ix e = subst cfg e.
Proof.
  induction e as [h k IH|n c ms IH] using cexpr_ind'; intros H.
  - simpl. f_equal. simpl in H. apply Forall_flat_map' in H.
    induction k as [|x k IHk]; [reflexivity|].
    inversion IH; inversion H; subst. simpl. f_equal; auto.
  - simpl in H. inversion H as [|? ? (s & i & Ha & Hix & Hi) Hrest]; subst. simpl in Ha, Hix, Hi.
    apply Forall_flat_map' in Hrest.
    rewrite erase_cat, subst_cat, Ha, Hix.
    destruct (index_of_spec _ _ _ Hi) as (Hr & _).
    assert (H0 : i <? 0 = false) by (apply Z.ltb_ge; lia). rewrite H0.
    apply pick_find; [|exact Hi].
    clear -IH Hrest. induction ms as [|m ms IHm]; [constructor|].
    inversion IH; inversion Hrest; subst. constructor; auto.
Qed.

(* T16e: in every catalog -- on selected and unselected branches alike -- the member selected is
   the one named by the configuration for the catalog's controller *)
Lemma selected_names_sync cfg ix : forall e,
  Forall (ctrl_set cfg ix) (ctrls_of e) ->
  Forall (fun p => snd p = assoc (fst p) cfg /\ snd p <> None) (selected_names ix e).
Proof.
  induction e as [h k IH|n c ms IH] using cexpr_ind'; intros H; simpl in *.
  - apply Forall_flat_map' in H. apply Forall_flat_map'.
    induction k as [|x k IHk]; [constructor|]. inversion IH; inversion H; subst. constructor; auto.
  - inversion H as [|? ? (s & i & Ha & Hix & Hi) Hrest]; subst. simpl in Ha, Hix, Hi.
    constructor.
    + simpl. rewrite Hix, Ha. destruct (index_of_spec _ _ _ Hi) as (Hr & _ & Hn).
      assert (H0 : i <? 0 = false) by (apply Z.ltb_ge; lia). rewrite H0.
      rewrite nth_error_map in Hn. destruct (nth_error ms (Z.to_nat i)) as [m|]; [|discriminate].
      simpl in *. split; congruence.
    + apply Forall_flat_map' in Hrest. apply Forall_flat_map'.
      clear -IH Hrest. induction ms as [|m ms IHm]; [constructor|].
      inversion IH; inversion Hrest; subst. constructor; auto.
Qed.

(* ------------------------------------------------ the central controller *)
Lemma ctrl_insert_In c l x : In x (ctrl_insert c l) -> x = c \/ In x l.
Proof.
  induction l as [|d l IH]; simpl; [intros [<-|[]]; auto|].
  destruct (String.compare (fst c) (fst d)); simpl; intros H.
  - auto.
  - destruct H as [<-|H]; auto.
  - destruct H as [<-|H]; auto. destruct (IH H); auto.
Qed.

Lemma ctrl_insert_keeps c l x : In x l -> In x (ctrl_insert c l).
Proof.
  induction l as [|d l IH]; simpl; [intros []|].
  destruct (String.compare (fst c) (fst d)); simpl; intros H; auto.
  destruct H; auto.
Qed.

Lemma ctrl_insert_name c l : In (fst c) (map fst (ctrl_insert c l)).
Proof.
  induction l as [|d l IH]; simpl; [auto|].
  destruct (String.compare (fst c) (fst d)) eqn:E; simpl; auto.
  apply str_cmp_eq in E. auto.
Qed.

Lemma ctrl_insert_sorted c l :
  StronglySorted name_lt (map fst l) -> StronglySorted name_lt (map fst (ctrl_insert c l)).
Proof.
  induction l as [|d l IH]; simpl; intros H; [constructor; constructor|].
  inversion H as [|? ? Hs Hall]; subst.
  destruct (String.compare (fst c) (fst d)) eqn:E; simpl.
  - exact H.
  - constructor; [exact H|]. constructor; [exact E|].
    eapply Forall_impl; [|exact Hall]. intros z Hz. eapply str_cmp_lt_trans; eauto.
  - constructor; [apply IH; exact Hs|].
    apply Forall_forall. intros z Hz. apply in_map_iff in Hz. destruct Hz as (x & <- & Hx).
    apply ctrl_insert_In in Hx. destruct Hx as [->|Hx].
    + apply str_cmp_gt_lt. exact E.
    + rewrite Forall_forall in Hall. apply Hall. apply in_map. exact Hx.
Qed.

Lemma central_sorted e : StronglySorted name_lt (map fst (central e)).
Proof.
  unfold central. induction (ctrls_of e) as [|c l IH]; simpl; [constructor|].
  apply ctrl_insert_sorted. exact IH.
Qed.

Lemma central_incl e x : In x (central e) -> In x (ctrls_of e).
Proof.
  unfold central. induction (ctrls_of e) as [|c l IH]; simpl; [auto|].
  intros H. apply ctrl_insert_In in H. destruct H; auto.
Qed.

Lemma central_names e c : In c (ctrls_of e) -> In (fst c) (map fst (central e)).
Proof.
  unfold central. induction (ctrls_of e) as [|d l IH]; simpl; [intros []|].
  intros [->|H].
  - apply ctrl_insert_name.
  - specialize (IH H). apply in_map_iff in IH. destruct IH as (x & E & Hx).
    rewrite <- E. apply in_map. apply ctrl_insert_keeps. exact Hx.
Qed.

Lemma ctrl_eqb_eq a b : ctrl_eqb a b = true -> a = b.
Proof.
  unfold ctrl_eqb. intros H. apply andb_prop in H. destruct H as [H1 H2].
  apply String.eqb_eq in H1. apply list_eqb_string in H2. destruct a, b; simpl in *; congruence.
Qed.

Lemma coherent_spec l a b : coherent l = true -> In a l -> In b l -> fst a = fst b -> a = b.
Proof.
  unfold coherent. intros H Ha Hb E. rewrite forallb_forall in H. specialize (H a Ha).
  rewrite forallb_forall in H. specialize (H b Hb). rewrite E, String.eqb_refl in H. simpl in H.
  apply ctrl_eqb_eq. exact H.
Qed.

(* under coherence the central controller holds exactly the controllers found in the formula *)
Lemma central_complete e c : coherent (ctrls_of e) = true -> In c (ctrls_of e) -> In c (central e).
Proof.
  intros Hco Hc. pose proof (central_names e c Hc) as Hn. apply in_map_iff in Hn.
  destruct Hn as (x & E & Hx). replace c with x; [exact Hx|].
  apply (coherent_spec _ _ _ Hco (central_incl e x Hx) Hc E).
Qed.

Lemma strong_strictly_sorted l : StronglySorted name_lt l -> strictly_sorted l = true.
Proof.
  induction 1 as [|x l Hs IH Hall]; [reflexivity|]. simpl. rewrite IH, andb_true_r.
  destruct l as [|y l]; [reflexivity|]. inversion Hall as [|? ? Hxy _]; subst.
  unfold name_lt in Hxy. rewrite Hxy. reflexivity.
Qed.

Lemma central_wf e : wf_cexpr e = true -> wf_ctrls (central e) = true.
Proof.
  unfold wf_cexpr, wf_ctrls. intros H. apply andb_prop in H. destruct H as [_ H].
  rewrite (strong_strictly_sorted _ (central_sorted e)). simpl.
  apply forallb_forall. intros c Hc. rewrite forallb_forall in H. apply H. apply central_incl. exact Hc.
Qed.

Lemma index_in_combine cs st c i :
  NoDup (map fst cs) -> In (c, i) (combine cs st) -> index_in cs st (fst c) = Some i.
Proof.
  intros Hnd Hin. unfold index_in. apply assoc_In_NoDup.
  - clear -Hnd. revert st. induction cs as [|x cs IH]; intros [|y st]; simpl; try constructor.
    + inversion Hnd as [|? ? Hni Hnd']; subst. intros Hin. apply Hni.
      apply in_map_iff in Hin. destruct Hin as ((a, b) & <- & Hab). apply in_combine_l in Hab. exact Hab.
    + inversion Hnd; subst. apply IH. assumption.
  - clear -Hin. revert st Hin. induction cs as [|x cs IH]; intros [|y st]; simpl.
    + intros [].
    + intros [].
    + intros [].
    + intros [[= -> ->]|H0]; [left; reflexivity|right; apply IH; exact H0].
Qed.

(* T16f: configuring then reading the tree = the formula written by hand *)
Lemma configure_subst e cfg :
  wf_cexpr e = true -> valid_config (central e) cfg = true ->
  configure e cfg = Some (subst cfg e).
Proof.
  intros Hwf Hv. pose proof (central_wf e Hwf) as Hcw.
  destruct (wf_ctrls_props _ Hcw) as [Hnd _].
  destruct (set_configuration_valid _ _ Hnd Hv) as (st & Hst & Hok).
  unfold configure. rewrite Hst. f_equal. apply erase_subst.
  apply Forall_forall. intros c Hc.
  assert (Hco : coherent (ctrls_of e) = true) by (unfold wf_cexpr in Hwf; apply andb_prop in Hwf; tauto).
  pose proof (central_complete e c Hco Hc) as Hin.
  pose proof (set_configuration_rel _ _ _ Hst) as Hrel.
  destruct (In_nth _ _ c Hin) as (k & Hk & Hnth).
  pose proof (st_ok_length _ _ Hok) as Hlen.
  assert (Hci : In (c, nth k st 0) (combine (central e) st)).
  { rewrite <- Hnth at 1. rewrite <- combine_nth by exact Hlen. apply nth_In. rewrite combine_length. lia. }
  destruct (Forall2_In_combine _ _ _ _ _ Hrel Hci) as (s & Ha & Hi).
  exists s, (nth k st 0). split; [exact Ha|]. split; [|exact Hi].
  apply index_in_combine; assumption.
Qed.

(* T16e at the level of a formula *)
Lemma shared_controller_sync e cfg st :
  wf_cexpr e = true -> valid_config (central e) cfg = true ->
  set_configuration (central e) cfg = Some st ->
  Forall (fun p => snd p = assoc (fst p) cfg /\ snd p <> None)
         (selected_names (index_in (central e) st) e).
Proof.
  intros Hwf Hv Hst. pose proof (central_wf e Hwf) as Hcw.
  destruct (wf_ctrls_props _ Hcw) as [Hnd _].
  apply selected_names_sync. apply Forall_forall. intros c Hc.
  assert (Hco : coherent (ctrls_of e) = true) by (unfold wf_cexpr in Hwf; apply andb_prop in Hwf; tauto).
  pose proof (central_complete e c Hco Hc) as Hin.
  pose proof (set_configuration_rel _ _ _ Hst) as Hrel.
  pose proof (set_rel_ok _ _ _ Hrel) as Hok.
  destruct (In_nth _ _ c Hin) as (k & Hk & Hnth).
  pose proof (st_ok_length _ _ Hok) as Hlen.
  assert (Hci : In (c, nth k st 0) (combine (central e) st)).
  { rewrite <- Hnth at 1. rewrite <- combine_nth by exact Hlen. apply nth_In. rewrite combine_length. lia. }
  destruct (Forall2_In_combine _ _ _ _ _ Hrel Hci) as (s & Ha & Hi).
  exists s, (nth k st 0). split; [exact Ha|]. split; [|exact Hi].
  apply index_in_combine; assumption.
Qed.

(* ================================================================== statements about the
   generated definitions (what Properties/C16.v exposes) *)

(* T16b: the identifier does not depend on the order in which the choices are listed *)
Lemma gen_id_order_invariant l1 l2 : Permutation l1 l2 -> set_selections l1 = set_selections l2.
Proof. intros P. rewrite !gen_set_selections, (mk_config_perm _ _ P). reflexivity. Qed.

Lemma gen_id_injective c1 c2 :
  names_ok c1 = true -> names_ok c2 = true -> get_string_id c1 = get_string_id c2 -> c1 = c2.
Proof. rewrite !gen_get_string_id. apply string_id_inj. Qed.

Lemma gen_set_selections_some l c id :
  set_selections l = Some (c, id) <-> mk_config l = Some c /\ id = string_id c.
Proof.
  rewrite gen_set_selections. destruct (mk_config l) as [c'|]; simpl; split; try discriminate.
  - intros [= -> <-]. auto.
  - intros [[= ->] ->]. reflexivity.
  - intros [H _]. discriminate.
Qed.

Lemma gen_id_determines l1 l2 c1 c2 id1 id2 :
  names_ok l1 = true -> names_ok l2 = true ->
  set_selections l1 = Some (c1, id1) -> set_selections l2 = Some (c2, id2) ->
  (id1 = id2 <-> Permutation l1 l2).
Proof.
  intros N1 N2 H1 H2. apply gen_set_selections_some in H1, H2. destruct H1 as [M1 ->], H2 as [M2 ->].
  apply (id_determines_config l1 l2 c1 c2); assumption.
Qed.

(* T16c *)
Lemma gen_parse_print l c id :
  l <> [] -> names_ok l = true -> set_selections l = Some (c, id) ->
  Config.from_string id = Some (c, id).
Proof.
  intros Hne Hok H. apply gen_set_selections_some in H. destruct H as [M ->].
  destruct (mk_config_is_config _ _ M) as [Hc P].
  rewrite gen_from_string, from_string_string_id; [reflexivity| | |exact Hc].
  - intros ->. apply Permutation_nil in P. contradiction.
  - rewrite (names_ok_perm _ _ P). exact Hok.
Qed.

(* get_configuration builds a Configuration: the setter accepts the list as it is *)
Lemma gen_get_configuration cs st :
  wf_ctrls cs = true -> st_ok cs st ->
  set_selections (get_configuration cs st) =
  Some (get_configuration cs st, get_string_id (get_configuration cs st)).
Proof.
  intros Hwf Hok. rewrite gen_set_selections, mk_config_fix; [reflexivity|].
  apply sorted_names_is_config. rewrite get_configuration_names by (apply st_ok_length; exact Hok).
  apply wf_ctrls_spec. exact Hwf.
Qed.

(* T16a *)
Lemma count_configurations cs :
  wf_ctrls cs = true -> cs <> [] ->
  number_of_configurations cs = Z.of_nat (List.length (product cs)) /\
  List.length (product cs) = prod_nat (sizes cs) /\
  List.length (all_configurations cs) = prod_nat (sizes cs).
Proof.
  intros Hwf Hne. destruct (wf_ctrls_props _ Hwf) as [_ Hsp].
  split; [apply number_of_configurations_product; assumption|].
  split; [apply product_length|].
  rewrite all_configurations_product by assumption. rewrite map_length. apply product_length.
Qed.

(* T16f, with the consequence for every function of the tree (signature, value, ...) *)
Lemma configured_equals_handwritten e cfg :
  wf_cexpr e = true -> valid_config (central e) cfg = true ->
  configure e cfg = Some (subst cfg e) /\
  forall (A : Type) (f : expr -> A), option_map f (configure e cfg) = Some (f (subst cfg e)).
Proof.
  intros Hwf Hv. rewrite (configure_subst e cfg Hwf Hv). split; reflexivity.
Qed.

(* ================================================================== helper generators *)
Lemma segmented_beta_no_catalog b segs : ctrls_of (segmented_beta b segs) = [].
Proof.
  unfold segmented_beta. simpl.
  induction segs as [|[[v m] r] segs IH]; simpl; [reflexivity|].
  rewrite flat_map_app, IH, app_nil_r.
  induction (filter (fun vc => negb (String.eqb (snd vc) r)) m) as [|x l IHl]; simpl; auto.
Qed.

(* the controller of a catalog returned by segmentation_catalogs does not depend on the beta:
   all of them can share one Controller *)
Lemma flat_map_nil {A B} (f : A -> list B) l : (forall x, f x = []) -> flat_map f l = [].
Proof. intros H. induction l as [|x l IH]; simpl; [reflexivity|]. rewrite H, IH. reflexivity. Qed.

Lemma seg_catalog_ctrls g b segs maxn :
  ctrls_of (seg_catalog g b segs maxn) = [(g, map (combo_name segs) (seg_possibilities segs maxn))].
Proof.
  unfold seg_catalog. cbn [ctrls_of].
  rewrite map_map, flat_map_map, flat_map_nil; [reflexivity|].
  intros c. cbn [snd]. apply segmented_beta_no_catalog.
Qed.

Lemma gas_catalog_ctrls g b alt segs maxn :
  ctrls_of (gas_catalog g b alt segs maxn) =
  ((g ++ "_gen_altspec")%string, ["generic"; "altspec"]%string) ::
  match segs with
  | [] => []
  | _ => let c := (g, map (combo_name segs) (seg_possibilities segs maxn)) in [c; c]
  end.
Proof.
  unfold gas_catalog. destruct segs as [|s segs]; [reflexivity|].
  cbn [ctrls_of map fst snd flat_map]. rewrite !seg_catalog_ctrls. reflexivity.
Qed.

(* ================================================================== histories *)
Lemma unique_by_name (U : list controller) a b :
  NoDup (map fst U) -> In a U -> In b U -> fst a = fst b -> a = b.
Proof.
  induction U as [|c U IH]; simpl; [intros _ []|]. intros Hnd Ha Hb E.
  inversion Hnd as [|? ? Hni Hnd']; subst.
  destruct Ha as [->|Ha], Hb as [->|Hb]; auto.
  - exfalso. apply Hni. rewrite E. apply in_map. exact Hb.
  - exfalso. apply Hni. rewrite <- E. apply in_map. exact Ha.
Qed.

Lemma set_index_ok U st n i st' :
  NoDup (map fst U) -> st_ok U st -> set_index U st n i = Some st' -> st_ok U st'.
Proof.
  unfold set_index. intros Hnd Hok H.
  destruct (existsb (fun c => String.eqb (fst c) n && (0 <=? i) && (i <? Z.of_nat (List.length (snd c)))) U) eqn:E;
    [|discriminate]. injection H as <-.
  apply existsb_exists in E. destruct E as (c0 & Hc0 & E).
  apply andb_prop in E. destruct E as [E E3]. apply andb_prop in E. destruct E as [E1 E2].
  apply String.eqb_eq in E1. apply Z.leb_le in E2. apply Z.ltb_lt in E3.
  assert (Hall : forall c, In c U -> fst c = n -> c = c0).
  { intros c Hc Hn. apply (unique_by_name U); auto. congruence. }
  clear Hnd Hc0. unfold st_ok in *.
  induction Hok as [|c j cs st Hj _ IH]; [constructor|].
  simpl. constructor.
  - destruct (String.eqb_spec (fst c) n) as [Heq|_]; [|exact Hj].
    rewrite (Hall c (or_introl eq_refl) Heq). lia.
  - apply IH. intros c' Hc'. apply Hall. right. exact Hc'.
Qed.

Lemma run_sets_ok U : forall h st st',
  NoDup (map fst U) -> st_ok U st -> run_sets U st h = Some st' -> st_ok U st'.
Proof.
  induction h as [|[n i] h IH]; intros st st' Hnd Hok H; simpl in H.
  - injection H as <-. exact Hok.
  - destruct (set_index U st n i) as [st1|] eqn:E; [|discriminate].
    eapply IH; [exact Hnd| |exact H]. eapply set_index_ok; eauto.
Qed.

Lemma central_complete_prop e c :
  (forall a b, In a (ctrls_of e) -> In b (ctrls_of e) -> fst a = fst b -> a = b) ->
  In c (ctrls_of e) -> In c (central e).
Proof.
  intros Hco Hc. pose proof (central_names e c Hc) as Hn. apply in_map_iff in Hn.
  destruct Hn as (x & E & Hx). replace c with x; [exact Hx|].
  apply Hco; [apply central_incl; exact Hx|exact Hc|exact E].
Qed.

(* what holds for one controller of the formula in ANY legal state of the controllers *)
Lemma state_ctrl_set U st e c :
  wf_ctrls U = true -> st_ok U st -> incl (ctrls_of e) U -> In c (ctrls_of e) ->
  ctrl_set (current_configuration U st e) (index_in U st) c.
Proof.
  intros Hwf Hok Hincl Hc.
  destruct (wf_ctrls_props _ Hwf) as [Hnd Hsp].
  pose proof (Hincl c Hc) as HcU.
  destruct (In_nth _ _ c HcU) as (k & Hk & Hnth).
  pose proof (st_ok_length _ _ Hok) as Hlen.
  assert (Hci : In (c, nth k st 0) (combine U st)).
  { rewrite <- Hnth at 1. rewrite <- combine_nth by exact Hlen. apply nth_In. rewrite combine_length. lia. }
  pose proof (index_in_combine _ _ _ _ Hnd Hci) as Hix.
  pose proof (Forall2_In_combine _ _ _ _ _ Hok Hci) as Hr. simpl in Hr.
  exists (nth_Z EmptyString (snd c) (nth k st 0)), (nth k st 0).
  split; [|split; [exact Hix|apply index_of_nth; [apply Hsp; exact HcU|exact Hr]]].
  apply assoc_In_NoDup.
  - unfold current_configuration. rewrite map_map. simpl.
    apply strong_sorted_NoDup. apply central_sorted.
  - unfold current_configuration. apply in_map_iff. exists c. rewrite Hix. split; [reflexivity|].
    apply central_complete_prop; [|exact Hc].
    intros a b Ha Hb. apply (unique_by_name U); auto.
Qed.

Lemma current_configuration_valid U st e :
  wf_ctrls U = true -> st_ok U st -> incl (ctrls_of e) U ->
  valid_config (central e) (current_configuration U st e) = true.
Proof.
  intros Hwf Hok Hincl. destruct (wf_ctrls_props _ Hwf) as [Hnd Hsp].
  apply valid_config_Forall2. unfold current_configuration.
  assert (H : forall c, In c (central e) -> In c (ctrls_of e)) by (intros; apply central_incl; assumption).
  induction (central e) as [|c l IH]; [constructor|].
  simpl. constructor; [|apply IH; intros; apply H; right; assumption].
  simpl. split; [reflexivity|].
  destruct (state_ctrl_set U st e c Hwf Hok Hincl (H c (or_introl eq_refl))) as (s & i & _ & Hix & Hi).
  rewrite Hix. destruct (index_of_spec _ _ _ Hi) as (Hr & _). apply nth_Z_In. exact Hr.
Qed.

(* T16i: whatever happened to the controllers before or after the catalogs of e were created, e
   reads as the formula written by hand for the configuration it reports, that configuration is a
   member of e's product, and every catalog of e selects the member it names *)
Lemma any_state_reads_handwritten U st e :
  wf_ctrls U = true -> st_ok U st -> incl (ctrls_of e) U ->
  read U st e = subst (current_configuration U st e) e /\
  valid_config (central e) (current_configuration U st e) = true /\
  Forall (fun p => snd p = assoc (fst p) (current_configuration U st e) /\ snd p <> None)
         (selected_names (index_in U st) e).
Proof.
  intros Hwf Hok Hincl.
  assert (HF : Forall (ctrl_set (current_configuration U st e) (index_in U st)) (ctrls_of e)).
  { apply Forall_forall. intros c Hc. apply state_ctrl_set; assumption. }
  split; [apply erase_subst; exact HF|]. split; [apply current_configuration_valid; assumption|].
  apply selected_names_sync. exact HF.
Qed.

Lemma any_history_reads_handwritten U st0 h st e :
  wf_ctrls U = true -> st_ok U st0 -> run_sets U st0 h = Some st -> incl (ctrls_of e) U ->
  read U st e = subst (current_configuration U st e) e /\
  valid_config (central e) (current_configuration U st e) = true /\
  Forall (fun p => snd p = assoc (fst p) (current_configuration U st e) /\ snd p <> None)
         (selected_names (index_in U st) e).
Proof.
  intros Hwf Hok Hrun Hincl. apply any_state_reads_handwritten; try assumption.
  destruct (wf_ctrls_props _ Hwf) as [Hnd _]. eapply run_sets_ok; eauto.
Qed.

(* the initial state (every Controller starts at index 0) is legal *)
Lemma initial_state_ok U : (forall c, In c U -> snd c <> []) -> st_ok U (map (fun _ => 0) U).
Proof.
  intros H. unfold st_ok. induction U as [|c U IH]; simpl; constructor.
  - specialize (H c (or_introl eq_refl)). destruct (snd c); [congruence|simpl; lia].
  - apply IH. intros; apply H; right; assumption.
Qed.

(* ================================================================== controller objects *)
(* objects of one name are one object *)
Definition consistent (l : list cobj) : Prop :=
  forall a b, In a l -> In b l -> fst a = fst b -> a = b.

Lemma consistent_equiv l1 l2 : (forall c, In c l1 <-> In c l2) -> consistent l1 -> consistent l2.
Proof. intros H C a b Ha Hb. apply C; apply H; assumption. Qed.

Lemma assoc_None {A} (l : list (string * A)) k : assoc k l = None <-> ~ In k (map fst l).
Proof.
  induction l as [|[k' v] l IH]; simpl; [tauto|].
  destruct (String.eqb_spec k' k) as [->|Hne].
  - split; [discriminate|]. intros H. exfalso. apply H. left. reflexivity.
  - rewrite IH. split; [intros H [E|Hin]; [congruence|exact (H Hin)]|intros H Hin; apply H; right; exact Hin].
Qed.

Lemma pdict_set_same {A} (d : list (string * A)) k v : assoc k d = Some v -> pdict_set d k v = d.
Proof.
  induction d as [|[k' v'] d IH]; simpl; [discriminate|].
  destruct (String.eqb_spec k' k) as [->|_]; [intros [= ->]; reflexivity|intros H; rewrite (IH H); reflexivity].
Qed.

Lemma pdict_set_fresh {A} (d : list (string * A)) k v : assoc k d = None -> pdict_set d k v = d ++ [(k, v)].
Proof.
  induction d as [|[k' v'] d IH]; simpl; [reflexivity|].
  destruct (String.eqb_spec k' k) as [->|_]; [discriminate|intros H; rewrite (IH H); reflexivity].
Qed.

Lemma obj_set_add_present s c i : assoc (fst c) s = Some i -> obj_set_add s c = s.
Proof.
  intros H. unfold obj_set_add. replace (existsb (fun d => String.eqb (fst d) (fst c)) s) with true; [reflexivity|].
  symmetry. apply existsb_exists. exists (fst c, i). split; [apply assoc_Some_In; exact H|apply String.eqb_refl].
Qed.

Lemma obj_set_add_fresh (s : list cobj) c : assoc (fst c) s = None -> obj_set_add s c = s ++ [c].
Proof.
  intros H. unfold obj_set_add. replace (existsb (fun d => String.eqb (fst d) (fst c)) s) with false; [reflexivity|].
  symmetry. apply not_true_iff_false. intros E. apply existsb_exists in E. destruct E as (d & Hd & E).
  apply String.eqb_eq in E. apply assoc_None in H. apply H. rewrite <- E. apply in_map. exact Hd.
Qed.

Lemma dict_of_target (t : list (string * Z)) : forall d : list (string * Z),
  NoDup (map fst (d ++ t)) ->
  fold_left (fun (d : list (string * Z)) (c : string * Z) => pdict_set d (fst c) (snd c)) t d = d ++ t.
Proof.
  induction t as [|[k v] t IH]; intros d H; simpl; [rewrite app_nil_r; reflexivity|].
  rewrite pdict_set_fresh.
  - rewrite IH; rewrite <- app_assoc; [reflexivity|exact H].
  - apply assoc_None. rewrite map_app in H. simpl in H. apply NoDup_remove_2 in H.
    intros Hin. apply H. apply in_or_app. left. exact Hin.
Qed.

Definition gen_merge_step (acc : option (list (string * Z) * list (string * Z))) (controller : string * Z) :=
  match acc with
  | None => None
  | Some (known, target) =>
      let other := assoc (fst controller) known in
      if (match other with Some o => negb (o =? snd controller) | None => false end) then None
      else Some (pdict_set known (fst controller) (snd controller), obj_set_add target controller)
  end.

Lemma gen_merge_fold : forall source t,
  match fold_left gen_merge_step source (Some (t, t)) with
  | None => None
  | Some (_, target) => Some target
  end = m_merge t source.
Proof.
  induction source as [|c r IH]; intros t; simpl; [reflexivity|].
  destruct (assoc (fst c) t) as [i|] eqn:E.
  - destruct (Z.eqb_spec i (snd c)) as [->|Hne]; simpl.
    + rewrite pdict_set_same by exact E. rewrite (obj_set_add_present _ _ _ E). apply IH.
    + clear IH. induction r as [|x r IHr]; simpl; [reflexivity|exact IHr].
  - simpl. rewrite pdict_set_fresh by exact E. rewrite obj_set_add_fresh by exact E.
    destruct c as [n i]. apply IH.
Qed.

(* tie A: the generated merge_controllers is the hand-written one (on a set of controllers, i.e.
   a target with pairwise distinct names) *)
Lemma gen_merge_controllers target source :
  NoDup (map fst target) -> merge_controllers target source = m_merge target source.
Proof.
  intros H. unfold merge_controllers. cbv zeta.
  rewrite (dict_of_target target []) by exact H. simpl app.
  exact (gen_merge_fold source target).
Qed.

Lemma m_merge_spec : forall source target,
  NoDup (map fst target) ->
  (forall l, m_merge target source = Some l ->
     consistent (target ++ source) /\ NoDup (map fst l) /\ forall c, In c l <-> In c (target ++ source)) /\
  (consistent (target ++ source) -> exists l, m_merge target source = Some l).
Proof.
  induction source as [|c r IH]; intros target Hnd.
  - simpl. rewrite app_nil_r. split.
    + intros l [= <-]. split; [|split; [exact Hnd|tauto]].
      intros a b Ha Hb E. destruct a as [n i], b as [m j]. simpl in E. subst m.
      pose proof (assoc_In_NoDup _ _ _ Hnd Ha). pose proof (assoc_In_NoDup _ _ _ Hnd Hb). congruence.
    + eauto.
  - simpl. destruct (assoc (fst c) target) as [i|] eqn:E.
    + pose proof (assoc_Some_In _ _ _ E) as Hin.
      destruct (Z.eqb_spec i (snd c)) as [->|Hne].
      * assert (Hc : In c target) by (destruct c; exact Hin).
        assert (Heq : forall x, In x (target ++ r) <-> In x (target ++ c :: r)).
        { intros x. rewrite !in_app_iff. simpl. split; [tauto|]. intros [H|[<-|H]]; auto. }
        destruct (IH target Hnd) as [IH1 IH2]. split.
        -- intros l Hl. destruct (IH1 l Hl) as (C & N & I). split; [eapply consistent_equiv; eauto|].
           split; [exact N|]. intros x. rewrite I. apply Heq.
        -- intros C. apply IH2. eapply consistent_equiv; [|exact C]. intros x. symmetry. apply Heq.
      * split; [discriminate|]. intros C. exfalso. apply Hne.
        assert (H : (fst c, i) = c).
        { apply C; [apply in_or_app; left; exact Hin|apply in_or_app; right; left; reflexivity|reflexivity]. }
        rewrite <- H. reflexivity.
    + assert (Hnd' : NoDup (map fst (target ++ [c]))).
      { rewrite map_app. simpl. apply NoDup_app_disj; [exact Hnd|constructor; [intros []|constructor]|].
        intros x Hx [<-|[]]. apply assoc_None in E. contradiction. }
      destruct (IH (target ++ [c]) Hnd') as [IH1 IH2]. rewrite <- app_assoc in IH1, IH2. simpl in IH1, IH2.
      split; [exact IH1|exact IH2].
Qed.

Section otree_induction.
  Variable P : otree -> Prop.
  Hypothesis HN : forall k, Forall P k -> P (ONode k).
  Hypothesis HC : forall c ms, Forall P ms -> P (OCat c ms).
  Fixpoint otree_ind' (t : otree) : P t :=
    match t with
    | ONode k => HN k ((fix go (l : list otree) : Forall P l :=
                          match l with [] => Forall_nil _ | x :: r => Forall_cons x (otree_ind' x) (go r) end) k)
    | OCat c ms => HC c ms ((fix go (l : list otree) : Forall P l :=
                               match l with [] => Forall_nil _ | x :: r => Forall_cons x (otree_ind' x) (go r) end) ms)
    end.
End otree_induction.

Definition ctrl_spec (t : otree) : Prop :=
  (forall l, all_controllers t = Some l ->
     consistent (objs_of t) /\ NoDup (map fst l) /\ forall c, In c l <-> In c (objs_of t)) /\
  (consistent (objs_of t) -> exists l, all_controllers t = Some l).

Lemma merge_fold_none ts : fold_left (fun acc k => merge_step acc (all_controllers k)) ts None = None.
Proof. induction ts; simpl; auto. Qed.

Lemma merge_fold_spec : forall ts acc base,
  Forall ctrl_spec ts -> NoDup (map fst acc) -> (forall c, In c acc <-> In c base) ->
  (forall l, fold_left (fun a k => merge_step a (all_controllers k)) ts (Some acc) = Some l ->
     consistent (base ++ flat_map objs_of ts) /\ NoDup (map fst l) /\
     forall c, In c l <-> In c (base ++ flat_map objs_of ts)) /\
  (consistent (base ++ flat_map objs_of ts) ->
     exists l, fold_left (fun a k => merge_step a (all_controllers k)) ts (Some acc) = Some l).
Proof.
  induction ts as [|t ts IH]; intros acc base HF Hnd Hb.
  - simpl. rewrite app_nil_r. split; [|eauto].
    intros l [= <-]. split; [|split; [exact Hnd|exact Hb]].
    apply (consistent_equiv acc); [exact Hb|].
    intros a b Ha Hc E. destruct a as [n i], b as [m j]. simpl in E. subst m.
    pose proof (assoc_In_NoDup _ _ _ Hnd Ha). pose proof (assoc_In_NoDup _ _ _ Hnd Hc). congruence.
  - inversion HF as [|? ? [Ht1 Ht2] HF']; subst. simpl fold_left. simpl flat_map.
    assert (Hsub : consistent (base ++ objs_of t ++ flat_map objs_of ts) -> consistent (objs_of t)).
    { intros C a b Ha Hc. apply C; apply in_or_app; right; apply in_or_app; left; assumption. }
    destruct (all_controllers t) as [s|] eqn:Es.
    + destruct (Ht1 s eq_refl) as (Ct & Ns & Is).
      destruct (m_merge_spec s acc Hnd) as [M1 M2].
      change (merge_step (Some acc) (Some s)) with (m_merge acc s).
      destruct (m_merge acc s) as [a'|] eqn:Em.
      * destruct (M1 a' eq_refl) as (Ca & Na & Ia).
        assert (Hb' : forall c, In c a' <-> In c (base ++ objs_of t)).
        { intros c. rewrite Ia, !in_app_iff, Hb, Is. tauto. }
        destruct (IH a' (base ++ objs_of t) HF' Na Hb') as [I1 I2].
        rewrite <- app_assoc in I1, I2. split; [exact I1|exact I2].
      * rewrite merge_fold_none. split; [discriminate|]. intros C. exfalso.
        destruct M2 as (l & Hl); [|discriminate].
        apply (consistent_equiv (base ++ objs_of t)).
        -- intros c. rewrite !in_app_iff, Hb, Is. tauto.
        -- intros a b Ha Hc. apply C; rewrite app_assoc; apply in_or_app; left; assumption.
    + change (merge_step (Some acc) None) with (@None (list cobj)). rewrite merge_fold_none. split; [discriminate|].
      intros C. destruct (Ht2 (Hsub C)) as (l & Hl). discriminate.
Qed.

Lemma all_controllers_spec : forall t, ctrl_spec t.
Proof.
  induction t as [k IH|c ms IH] using otree_ind'.
  - unfold ctrl_spec. simpl.
    destruct (merge_fold_spec k [] [] IH ltac:(constructor) ltac:(tauto)) as [H1 H2]. simpl in H1, H2.
    split; [exact H1|exact H2].
  - unfold ctrl_spec. simpl.
    assert (Hnd : NoDup (map fst [c])) by (constructor; [intros []|constructor]).
    destruct (merge_fold_spec ms [c] [c] IH Hnd ltac:(tauto)) as [H1 H2]. simpl in H1, H2.
    split; [exact H1|exact H2].
Qed.

(* T16j: a formula is accepted iff controllers of one name are one object; then the controllers
   handed to the central controller have pairwise distinct names and are exactly those met *)
Lemma accepted_iff_consistent t :
  (exists l, all_controllers t = Some l) <-> consistent (objs_of t).
Proof.
  destruct (all_controllers_spec t) as [H1 H2]. split; [|exact H2].
  intros (l & Hl). apply (H1 l Hl).
Qed.

Lemma accepted_distinct_names t l :
  all_controllers t = Some l ->
  NoDup (map fst l) /\ (forall c, In c l <-> In c (objs_of t)) /\ consistent (objs_of t).
Proof. intros H. destruct (all_controllers_spec t) as [H1 _]. destruct (H1 l H) as (C & N & I). auto. Qed.

Lemma refused_witness t :
  all_controllers t = None <-> ~ consistent (objs_of t).
Proof.
  pose proof (accepted_iff_consistent t) as H. destruct (all_controllers t) as [l|].
  - split; [discriminate|]. intros N. exfalso. apply N. apply H. eauto.
  - split; [|reflexivity]. intros _ C. apply H in C. destruct C as (l & Hl). discriminate.
Qed.
