(* Theorems about the packaging code, stated on the definitions of Gen/Pack.v that are regenerated
   from the Python source on every run (tie A), and about the matrix model of Model/Pack.v.

     names_indices_spec      indices = {name: rank in the sorted list}, names = sorted keys
     index_is_rank           the index attached to a name is its rank
     literal_ids_spec        the literal ids handed to the engine are 0 .. n-1 in sorted-name order
     convert_to_dict_spec    with that map, entry i of the sequence is attached to the i-th name
     named_entry             ... hence named[b] = sequence[rank b]
     select_agg / select_dis / select_one / select_many   what calculate_function_and_derivatives returns
     gvd_refuses_spec, flags_passed                        the refusal and the flags reaching the engine
     clad_scale_spec                                       scaling divides all four outputs by N
     bhhh_entry, bhhh_symmetric, msum_entry                BHHH = sum of outer products, entry-wise
*)
From Coq Require Import Reals ZArith List String Bool Lia Lra Sorting.Sorted.
From BV Require Import Model.PyBase Model.IdMgr Model.Pack Proofs.IdMgrP Gen.Pack.
Import ListNotations.
Open Scope Z_scope.

(* ------------------------------------------------------------------ names and indices *)
Definition swap_iv (p : Z * string) : string * Z := (snd p, fst p).

Lemma dict_set_fresh {A} (d : list (string * A)) k v :
  ~ In k (map fst d) -> dict_set d k v = d ++ [(k, v)].
Proof.
  induction d as [|[k' v'] d IH]; cbn [dict_set map fst In app]; intros H; [reflexivity|].
  destruct (String.eqb_spec k k') as [->|Hne]; [exfalso; apply H; left; reflexivity|].
  rewrite IH; [reflexivity|]. intros Hin. apply H. right. exact Hin.
Qed.

Lemma fold_dict_set (l : list string) : forall k (acc : list (string * Z)),
  NoDup l -> (forall x, In x l -> ~ In x (map fst acc)) ->
  fold_left (fun indices '(i, v) => dict_set indices v i) (enumerate_from k l) acc
  = acc ++ map swap_iv (enumerate_from k l).
Proof.
  induction l as [|x l IH]; intros k acc Hnd Hfresh; cbn [enumerate_from fold_left map].
  - rewrite app_nil_r. reflexivity.
  - inversion Hnd as [|? ? Hx Hnd']; subst.
    rewrite dict_set_fresh by (apply Hfresh; left; reflexivity).
    rewrite IH; [|exact Hnd'|].
    + rewrite <- app_assoc. reflexivity.
    + intros y Hy. rewrite map_app, in_app_iff. cbn [map fst In].
      intros [H|[H|[]]]; [exact (Hfresh y (or_intror Hy) H)|]. subst y. exact (Hx Hy).
Qed.

Theorem names_indices_spec keys :
  expressions_names_indices keys =
  (map swap_iv (enumerate (sorted_names keys)), sorted_names keys).
Proof.
  unfold expressions_names_indices, enumerate.
  rewrite fold_dict_set; [reflexivity | apply sorted_names_NoDup | intros x _ []].
Qed.

Lemma dict_get_enum (l : list string) b : forall k,
  dict_get (map swap_iv (enumerate_from k l)) b = option_map (fun z => z + k) (index_of b l).
Proof.
  induction l as [|x l IH]; intros k; cbn [enumerate_from map dict_get index_of option_map]; [reflexivity|].
  unfold swap_iv at 1. cbn [fst snd].
  destruct (String.eqb b x); [cbn; f_equal; lia|].
  rewrite IH. destruct (index_of b l); cbn [option_map]; [f_equal; lia | reflexivity].
Qed.

(* the index the library attaches to a name is the rank of the name in the sorted list *)
Theorem index_is_rank keys b :
  dict_get (fst (expressions_names_indices keys)) b = index_of b (snd (expressions_names_indices keys)).
Proof.
  rewrite names_indices_spec. cbn [fst snd]. unfold enumerate. rewrite dict_get_enum.
  destruct (index_of b (sorted_names keys)); cbn [option_map]; [f_equal; lia | reflexivity].
Qed.

Lemma values_enum (l : list string) : forall k,
  dict_values (map swap_iv (enumerate_from k l)) = map (fun j => k + Z.of_nat j) (seq 0 (List.length l)).
Proof.
  unfold dict_values.
  induction l as [|x l IH]; intros k; cbn [enumerate_from map List.length seq]; [reflexivity|].
  unfold swap_iv at 1. cbn [fst snd]. f_equal; [lia|].
  rewrite IH, <- seq_shift, map_map. apply map_ext. intros j. lia.
Qed.

(* literal ids handed to the engine by calculate_likelihood_and_derivatives: 0, 1, ..., n-1,
   i.e. position i of the gradient is the i-th sorted free-parameter name *)
Theorem literal_ids_spec keys :
  clad_literal_ids (fst (expressions_names_indices keys))
  = map Z.of_nat (seq 0 (List.length (sorted_names keys))).
Proof.
  rewrite names_indices_spec. cbn [fst]. unfold clad_literal_ids, enumerate.
  rewrite values_enum. apply map_ext. intros j. lia.
Qed.

(* ------------------------------------------------------------------ convert_to_dict *)
Lemma skipn_S_tl {A} k : forall (l : list A), skipn (S k) l = tl (skipn k l).
Proof.
  induction k as [|k IH]; intros [|a l]; try reflexivity.
  change (skipn (S (S k)) (a :: l)) with (skipn (S k) l). rewrite IH. reflexivity.
Qed.

Lemma convert_map_enum {A} (d : A) (seq_ : list A) (l : list string) : forall k,
  List.length seq_ = (k + List.length l)%nat ->
  map (fun '(name, index) => (name, py_index d seq_ index)) (map swap_iv (enumerate_from (Z.of_nat k) l))
  = combine l (skipn k seq_).
Proof.
  induction l as [|x l IH]; intros k Hlen; cbn [enumerate_from map combine]; [reflexivity|].
  unfold swap_iv at 1. cbn [fst snd].
  cbn [List.length] in Hlen.
  destruct (skipn k seq_) as [|a rest] eqn:Es.
  { exfalso. assert (H := skipn_length k seq_). rewrite Es in H. cbn in H. lia. }
  f_equal.
  - f_equal. unfold py_index. rewrite Nat2Z.id.
    rewrite <- (firstn_skipn k seq_), Es.
    rewrite app_nth2 by (rewrite firstn_length; lia).
    rewrite firstn_length. replace (k - Nat.min k (List.length seq_))%nat with 0%nat by lia. reflexivity.
  - replace (Z.of_nat k + 1) with (Z.of_nat (S k)) by lia.
    rewrite IH by lia. f_equal.
    rewrite skipn_S_tl, Es. reflexivity.
Qed.

Lemma range_check_enum (l : list string) n : forall k,
  (Z.of_nat k + Z.of_nat (List.length l) <= Z.of_nat n) ->
  existsb (fun index => (index >=? Z.of_nat n) || (index <? 0))
          (dict_values (map swap_iv (enumerate_from (Z.of_nat k) l))) = false.
Proof.
  unfold dict_values.
  induction l as [|x l IH]; intros k H; cbn [enumerate_from map existsb List.length] in *; [reflexivity|].
  unfold swap_iv at 1. cbn [fst snd].
  apply orb_false_iff. split.
  - rewrite Nat2Z.inj_succ in H. apply orb_false_iff. split; [rewrite Z.geb_leb; apply Z.leb_gt; lia | apply Z.ltb_ge; cbn [snd swap_iv fst]; lia].
  - rewrite Nat2Z.inj_succ in H. replace (Z.of_nat k + 1) with (Z.of_nat (S k)) by (rewrite Nat2Z.inj_succ; lia). apply IH. rewrite Nat2Z.inj_succ. lia.
Qed.

(* with the map produced by expressions_names_indices, entry i of the sequence is attached to the
   i-th sorted name *)
Theorem convert_to_dict_spec {A} (d : A) keys (seq_ : list A) :
  List.length seq_ = List.length (sorted_names keys) ->
  convert_to_dict d seq_ (fst (expressions_names_indices keys)) = Some (combine (sorted_names keys) seq_).
Proof.
  intros Hlen. rewrite names_indices_spec. cbn [fst]. unfold convert_to_dict, enumerate.
  pose proof (range_check_enum (sorted_names keys) (List.length seq_) 0) as Hr.
  pose proof (convert_map_enum d seq_ (sorted_names keys) 0) as Hc.
  change (Z.of_nat 0) with 0 in Hr, Hc.
  rewrite Hr by (rewrite Hlen; lia).
  unfold dict_items. rewrite Hc by (rewrite Hlen; lia).
  reflexivity.
Qed.

Lemma dict_get_combine {A} (l : list string) (s : list A) b i d :
  NoDup l -> List.length s = List.length l -> (i < List.length l)%nat -> nth i l EmptyString = b ->
  dict_get (combine l s) b = Some (nth i s d).
Proof.
  revert s i. induction l as [|x l IH]; intros [|a s] i Hnd Hlen Hi Hb; cbn [List.length] in *; try lia.
  inversion Hnd as [|? ? Hx Hnd']; subst.
  cbn [combine dict_get]. destruct i as [|i]; cbn [nth].
  - rewrite String.eqb_refl. reflexivity.
  - destruct (String.eqb_spec (nth i l EmptyString) x) as [E|_].
    + exfalso. apply Hx. rewrite <- E. apply nth_In. lia.
    + apply IH; auto; lia.
Qed.

(* T02d, second half: the named entry of the i-th sorted name is entry i of the array *)
Theorem named_entry {A} (d : A) keys (seq_ : list A) i :
  List.length seq_ = List.length (sorted_names keys) -> (i < List.length (sorted_names keys))%nat ->
  exists dict, convert_to_dict d seq_ (fst (expressions_names_indices keys)) = Some dict /\
               dict_get dict (nth i (sorted_names keys) EmptyString) = Some (nth i seq_ d) /\
               map fst dict = sorted_names keys.
Proof.
  intros Hlen Hi. exists (combine (sorted_names keys) seq_). split; [apply convert_to_dict_spec; exact Hlen|].
  split.
  - apply (dict_get_combine _ _ _ i); auto. apply sorted_names_NoDup.
  - clear Hi. revert Hlen. generalize (sorted_names keys). intros l. revert seq_.
    induction l as [|x l IH]; intros [|a s] H; cbn [List.length] in *; try lia; [reflexivity|].
    cbn [combine map fst]. f_equal. apply IH. lia.
Qed.

(* named gradient / Hessian of the aggregated output *)
Theorem named_gradient_spec {A} (d : A) keys (g : list A) :
  List.length g = List.length (sorted_names keys) ->
  named_gradient d (Some g) (fst (expressions_names_indices keys)) = Some (Some (combine (sorted_names keys) g)).
Proof. intros H. unfold named_gradient. rewrite convert_to_dict_spec by exact H. reflexivity. Qed.

Theorem named_gradient_none {A} (d : A) mapping : named_gradient d None mapping = None.
Proof. reflexivity. Qed.

Theorem named_hessian_spec {A} (d : A) keys (h : list (list A)) :
  List.length h = List.length (sorted_names keys) ->
  Forall (fun row => List.length row = List.length (sorted_names keys)) h ->
  named_hessian d (Some h) (fst (expressions_names_indices keys))
  = Some (Some (combine (sorted_names keys) (map (fun row => Some (combine (sorted_names keys) row)) h))).
Proof.
  intros Hl Hrows. unfold named_hessian.
  assert (E : map (fun row => convert_to_dict d row (fst (expressions_names_indices keys))) h
              = map (fun row => Some (combine (sorted_names keys) row)) h).
  { apply map_ext_in. intros row Hin. rewrite Forall_forall in Hrows.
    apply convert_to_dict_spec. apply Hrows, Hin. }
  rewrite E. rewrite convert_to_dict_spec by (rewrite map_length; exact Hl). reflexivity.
Qed.

(* ------------------------------------------------------------------ selection of the outputs *)
Section Select.
  Context {F G H : Type} (dF : F) (dG : G) (dH : H).
  Notation sel := (select dF dG dH).
  Definition asked {A} (flag : bool) (x : A) : option A := if flag then Some x else None.

  (* aggregated mode: the first entry of each array, None for what was not asked *)
  Theorem select_agg cg ch cb db f g h b :
    sel cg ch cb true db f g h b
    = RAgg (nth 0 f dF, asked cg (nth 0 g dG), asked ch (nth 0 h dH), asked cb (nth 0 b dH)).
  Proof. unfold select, asked, py_index. destruct cg, ch, cb; reflexivity. Qed.

  (* per observation, with a database: the arrays themselves, None for what was not asked *)
  Theorem select_dis cg ch cb f g h b :
    sel cg ch cb false (Some tt) f g h b = RDis (f, asked cg g, asked ch h, asked cb b).
  Proof. unfold select, asked. destruct cg, ch, cb; reflexivity. Qed.

  (* without database: exactly one entry is expected *)
  Theorem select_one cg ch cb f0 g h b :
    sel cg ch cb false None [f0] g h b
    = RAgg (f0, asked cg (nth 0 g dG), asked ch (nth 0 h dH), asked cb (nth 0 b dH)).
  Proof. unfold select, unique_entry, asked, py_index. destruct cg, ch, cb; reflexivity. Qed.

  Theorem select_many cg ch cb f g h b :
    List.length f <> 1%nat -> sel cg ch cb false None f g h b = RErr.
  Proof.
    intros Hn. unfold select, unique_entry.
    destruct (Z.eqb_spec (Z.of_nat (List.length f)) 1) as [E|_]; [exfalso; apply Hn; lia|].
    destruct cg, ch, cb; reflexivity.
  Qed.
End Select.

(* the only refused combination: Hessian or BHHH without the gradient *)
Theorem gvd_refuses_spec g h b :
  gvd_refuses g h b = true <-> ((h = true \/ b = true) /\ g = false).
Proof. unfold gvd_refuses. destruct g, h, b; cbn; intuition discriminate. Qed.

(* the flags asked by the caller are the flags that reach the engine *)
Theorem flags_passed g h b a :
  (let '(g1, h1, b1, a1) := gvd_flags g h b a in engine_flags g1 h1 b1 a1) = (g, h, b, a).
Proof. reflexivity. Qed.

(* ------------------------------------------------------------------ scaling *)
Open Scope R_scope.
Theorem clad_scale_spec n f g h bh :
  (n <> 0)%Z ->
  clad_scale true n f g h bh = Some (f / IZR n, vdiv g (IZR n), mdiv h (IZR n), mdiv bh (IZR n)) /\
  clad_scale false n f g h bh = Some (f, g, h, bh).
Proof.
  intros Hn. unfold clad_scale, Reqb. split; [|reflexivity].
  destruct (Req_EM_T (IZR n) (IZR 0)) as [E|_]; [apply eq_IZR in E; contradiction | reflexivity].
Qed.

Theorem clad_scale_zero f g h bh : clad_scale true 0 f g h bh = None.
Proof. unfold clad_scale, Reqb. destruct (Req_EM_T (IZR 0) (IZR 0)) as [_|n]; [reflexivity | exfalso; apply n; reflexivity]. Qed.

Lemma ventry_vdiv v c i : ventry (vdiv v c) i = ventry v i / c.
Proof.
  unfold ventry, vdiv. revert i. induction v as [|x v IH]; intros [|i]; cbn [map nth]; try apply IH; try reflexivity.
  - unfold Rdiv. ring.
  - unfold Rdiv. ring.
Qed.

Lemma mentry_mdiv m c i j : mentry (mdiv m c) i j = mentry m i j / c.
Proof.
  unfold mentry, mdiv. revert i. induction m as [|r m IH]; intros [|i]; cbn [map nth].
  - destruct j; cbn; unfold Rdiv; ring.
  - destruct j; cbn; unfold Rdiv; ring.
  - apply (ventry_vdiv r c j).
  - apply IH.
Qed.

(* scaling is entry-wise division by the sample size, for all four outputs *)
Theorem scaled_entries n f g h bh f' g' h' bh' :
  clad_scale true n f g h bh = Some (f', g', h', bh') ->
  f' = f / IZR n /\ (forall i, ventry g' i = ventry g i / IZR n) /\
  (forall i j, mentry h' i j = mentry h i j / IZR n) /\ (forall i j, mentry bh' i j = mentry bh i j / IZR n).
Proof.
  destruct (Z.eq_dec n 0) as [->|Hn]; [rewrite clad_scale_zero; discriminate|].
  rewrite (proj1 (clad_scale_spec n f g h bh Hn)). intros E. injection E as <- <- <- <-.
  repeat split; intros; [apply ventry_vdiv | apply mentry_mdiv | apply mentry_mdiv].
Qed.

(* ------------------------------------------------------------------ BHHH and aggregation *)
Lemma nth_vadd a b i : List.length a = List.length b -> nth i (vadd a b) 0 = nth i a 0 + nth i b 0.
Proof.
  revert b i. induction a as [|x a IH]; intros [|y b] i Hl; cbn [List.length] in Hl; try discriminate.
  - destruct i; cbn; ring.
  - destruct i; cbn [vadd nth]; [reflexivity|]. apply IH. lia.
Qed.

Lemma vadd_length a b : List.length a = List.length b -> List.length (vadd a b) = List.length a.
Proof.
  revert b. induction a as [|x a IH]; intros [|y b] Hl; cbn [List.length] in Hl; try discriminate; [reflexivity|].
  cbn [vadd List.length]. f_equal. apply IH. lia.
Qed.

Definition rect (w : nat) (m : mat) : Prop := Forall (fun r => List.length r = w) m.

Lemma mentry_madd w a b i j :
  List.length a = List.length b -> rect w a -> rect w b ->
  mentry (madd a b) i j = mentry a i j + mentry b i j.
Proof.
  unfold mentry, rect. revert b i.
  induction a as [|x a IH]; intros [|y b] i Hl Ra Rb; cbn [List.length] in Hl; try discriminate.
  - destruct i, j; cbn; ring.
  - inversion Ra as [|? ? Hx Ra']; subst. inversion Rb as [|? ? Hy Rb']; subst.
    destruct i as [|i]; cbn [madd nth].
    + apply nth_vadd. congruence.
    + apply IH; auto; lia.
Qed.

Lemma madd_shape w a b :
  List.length a = List.length b -> rect w a -> rect w b ->
  List.length (madd a b) = List.length a /\ rect w (madd a b).
Proof.
  unfold rect. revert b.
  induction a as [|x a IH]; intros [|y b] Hl Ra Rb; cbn [List.length] in Hl; try discriminate.
  - split; [reflexivity | constructor].
  - inversion Ra as [|? ? Hx Ra']; subst. inversion Rb as [|? ? Hy Rb']; subst.
    assert (Hl' : List.length a = List.length b) by lia.
    destruct (IH b Hl' Ra' Rb') as [L R].
    cbn [madd List.length]. split; [f_equal; exact L|].
    constructor; [|exact R]. rewrite vadd_length; congruence.
Qed.

Lemma nth_repeat0 k j : nth j (repeat 0 k) 0 = 0.
Proof. revert j. induction k as [|k IH]; intros [|j]; cbn; auto. Qed.

Lemma mentry_mzero k i j : mentry (mzero k) i j = 0.
Proof.
  unfold mentry, mzero. generalize k at 2. intros n. revert i.
  induction n as [|n IH]; intros [|i]; cbn [repeat nth].
  - destruct j; reflexivity.
  - destruct j; reflexivity.
  - apply nth_repeat0.
  - apply IH.
Qed.

Lemma mzero_shape k : List.length (mzero k) = k /\ rect k (mzero k).
Proof.
  unfold mzero, rect. split; [apply repeat_length|].
  apply Forall_forall. intros r Hr. apply repeat_spec in Hr. subst r. apply repeat_length.
Qed.

Definition square (k : nat) (m : mat) : Prop := List.length m = k /\ rect k m.

Lemma msum_shape k l : Forall (square k) l -> square k (msum k l).
Proof.
  unfold square, msum. induction 1 as [|m l [Lm Rm] Hl [L R]]; cbn [fold_right]; [apply mzero_shape|].
  destruct (madd_shape k m (fold_right madd (mzero k) l)) as [L' R']; auto; [congruence|].
  split; [congruence | exact R'].
Qed.

(* aggregation: an entry of the sum of matrices is the sum of the entries *)
Theorem msum_entry k l i j :
  Forall (square k) l -> mentry (msum k l) i j = rsum (map (fun m => mentry m i j) l).
Proof.
  induction 1 as [|m l [Lm Rm] Hl IH]; cbn [msum fold_right map rsum]; [apply mentry_mzero|].
  destruct (msum_shape k l Hl) as [L R].
  rewrite (mentry_madd k); auto; [|unfold msum in L; congruence].
  fold (msum k l). rewrite IH. reflexivity.
Qed.

Lemma outer_entry g i j : mentry (outer g) i j = ventry g i * ventry g j.
Proof.
  unfold mentry, outer, ventry.
  destruct (Nat.lt_ge_cases i (List.length g)) as [Hi|Hi].
  - rewrite (nth_indep _ [] (map (fun gj => 0 * gj) g)) by (rewrite map_length; exact Hi).
    rewrite (map_nth (fun gi => map (fun gj => gi * gj) g) g 0 i).
    destruct (Nat.lt_ge_cases j (List.length g)) as [Hj|Hj].
    + rewrite (nth_indep _ 0 (nth i g 0 * 0)) by (rewrite map_length; exact Hj).
      exact (map_nth (fun gj => nth i g 0 * gj) g 0 j).
    + rewrite (nth_overflow _ _ Hj). rewrite nth_overflow by (rewrite map_length; exact Hj). ring.
  - rewrite (nth_overflow g 0 Hi). rewrite (nth_overflow _ [] ) by (rewrite map_length; exact Hi).
    destruct j; cbn; ring.
Qed.

Lemma outer_square g : square (List.length g) (outer g).
Proof.
  unfold square, rect, outer. split; [apply map_length|].
  apply Forall_forall. intros r Hr. apply in_map_iff in Hr. destruct Hr as (x & <- & _). apply map_length.
Qed.

(* T02f: the (i, j) entry of BHHH is the sum over observations of g_r[i] g_r[j] *)
Theorem bhhh_entry k gs i j :
  Forall (fun g => List.length g = k) gs ->
  mentry (bhhh k gs) i j = rsum (map (fun g => ventry g i * ventry g j) gs).
Proof.
  intros Hg. unfold bhhh. rewrite msum_entry.
  - rewrite map_map. f_equal. apply map_ext. intros g. apply outer_entry.
  - apply Forall_forall. intros m Hm. apply in_map_iff in Hm. destruct Hm as (g & <- & Hin).
    rewrite Forall_forall in Hg. rewrite <- (Hg g Hin). apply outer_square.
Qed.

Theorem bhhh_symmetric k gs i j :
  Forall (fun g => List.length g = k) gs -> mentry (bhhh k gs) i j = mentry (bhhh k gs) j i.
Proof.
  intros Hg. rewrite !bhhh_entry by exact Hg. f_equal. apply map_ext. intros g. ring.
Qed.

(* the same for vectors: an entry of the aggregated gradient is the sum of the entries *)
Lemma vsum_length k l : Forall (fun v => List.length v = k) l -> List.length (vsum k l) = k.
Proof.
  induction 1 as [|v l Hv Hl IH]; cbn [vsum fold_right]; [apply repeat_length|].
  rewrite vadd_length; [exact Hv|]. unfold vsum in IH. congruence.
Qed.

Theorem vsum_entry k l i :
  Forall (fun v => List.length v = k) l -> ventry (vsum k l) i = rsum (map (fun v => ventry v i) l).
Proof.
  unfold ventry. induction 1 as [|v l Hv Hl IH]; cbn [map rsum fold_right]; [apply nth_repeat0|].
  change (vsum k (v :: l)) with (vadd v (vsum k l)).
  rewrite nth_vadd by (rewrite (vsum_length k l Hl); exact Hv).
  rewrite IH. reflexivity.
Qed.
