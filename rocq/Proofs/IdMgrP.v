(* Lemmas about Model/IdMgr.v (the numbering convention of IdManager.prepare).

   Main results
     str_ltb_irrefl / str_ltb_trans / str_ltb_trich      Python's < on names is a strict total order
     sorted_names_sorted / sorted_names_NoDup / sorted_names_In
     sorted_names_canonical                              the table depends on the SET of names only
     collect_perm                                        ... hence not on the order of the formulas
     index_of_nth_error / index_of_None / index_of_inj   numbering = bijection names <-> [0,n)
     prepare_None_iff / prepare_refuses_iff              refusal <=> a name in two classes / dup column
     collect_rename / rename_index_follows / rename_vector_follows   renaming equivariance
     evalX_rename                                        the semantics follows the NAMES

   No axiom is used except in the last part (evalX is over Coq's classical reals). *)
From Coq Require Import Ascii Lia Sorting.Sorted Sorting.Permutation.
From BV Require Import Model.IdMgr.
Open Scope Z_scope.

(* ================================================================== 1. str_ltb *)
Lemma nat_of_ascii_inj x y : nat_of_ascii x = nat_of_ascii y -> x = y.
Proof.
  intros H. rewrite <- (ascii_nat_embedding x), <- (ascii_nat_embedding y). congruence.
Qed.

Lemma str_ltb_cons x a y b :
  str_ltb (String x a) (String y b) =
  if Nat.ltb (nat_of_ascii x) (nat_of_ascii y) then true
  else if Nat.ltb (nat_of_ascii y) (nat_of_ascii x) then false
  else str_ltb a b.
Proof. reflexivity. Qed.

Lemma str_ltb_irrefl a : str_ltb a a = false.
Proof.
  induction a as [|x a IH]; [reflexivity|].
  rewrite str_ltb_cons, Nat.ltb_irrefl. exact IH.
Qed.

Lemma str_ltb_trans a b c : str_ltb a b = true -> str_ltb b c = true -> str_ltb a c = true.
Proof.
  revert b c; induction a as [|x a IH]; intros [|y b] [|z c]; try (cbn; congruence).
  rewrite !str_ltb_cons.
  destruct (Nat.ltb_spec (nat_of_ascii x) (nat_of_ascii y));
  destruct (Nat.ltb_spec (nat_of_ascii y) (nat_of_ascii x));
  destruct (Nat.ltb_spec (nat_of_ascii y) (nat_of_ascii z));
  destruct (Nat.ltb_spec (nat_of_ascii z) (nat_of_ascii y));
  destruct (Nat.ltb_spec (nat_of_ascii x) (nat_of_ascii z));
  destruct (Nat.ltb_spec (nat_of_ascii z) (nat_of_ascii x));
  try congruence; try lia.
  apply IH.
Qed.

Lemma str_ltb_trich a b : str_ltb a b = false -> str_ltb b a = false -> a = b.
Proof.
  revert b; induction a as [|x a IH]; intros [|y b]; try (cbn; congruence).
  rewrite !str_ltb_cons.
  destruct (Nat.ltb_spec (nat_of_ascii x) (nat_of_ascii y));
  destruct (Nat.ltb_spec (nat_of_ascii y) (nat_of_ascii x));
  try congruence; try lia.
  intros H1 H2. f_equal.
  - apply nat_of_ascii_inj. lia.
  - apply IH; assumption.
Qed.

Lemma str_ltb_asym a b : str_ltb a b = true -> str_ltb b a = false.
Proof.
  intros H. destruct (str_ltb b a) eqn:E; [|reflexivity].
  rewrite <- (str_ltb_irrefl a). symmetry. exact (str_ltb_trans _ _ _ H E).
Qed.

Lemma str_ltb_neq a b : str_ltb a b = true -> a <> b.
Proof. intros H ->. rewrite str_ltb_irrefl in H. discriminate. Qed.

(* exactly one of a<b, a=b, b<a *)
Lemma str_ltb_total a b : {str_ltb a b = true} + {a = b} + {str_ltb b a = true}.
Proof.
  destruct (str_ltb a b) eqn:E1; [left; left; reflexivity|].
  destruct (str_ltb b a) eqn:E2; [right; reflexivity|].
  left; right. apply str_ltb_trich; assumption.
Qed.

(* ================================================================== 2. sorted_names *)
Definition slt (a b : string) : Prop := str_ltb a b = true.

Lemma insert_sorted_In x y l : In y (insert_sorted x l) <-> y = x \/ In y l.
Proof.
  induction l as [|z l IH]; cbn [insert_sorted].
  - cbn. intuition.
  - destruct (String.eqb_spec x z) as [->|Hne].
    + cbn. intuition.
    + destruct (str_ltb x z).
      * cbn. intuition.
      * cbn [In]. rewrite IH. intuition.
Qed.

Lemma insert_sorted_sorted x l :
  StronglySorted slt l -> StronglySorted slt (insert_sorted x l).
Proof.
  induction 1 as [|z l Hs IH Hall]; cbn [insert_sorted].
  - constructor; constructor.
  - destruct (String.eqb_spec x z) as [->|Hne].
    + constructor; assumption.
    + destruct (str_ltb x z) eqn:E.
      * constructor; [constructor; assumption|].
        constructor; [exact E|].
        rewrite Forall_forall in *. intros w Hw. exact (str_ltb_trans _ _ _ E (Hall w Hw)).
      * constructor; [exact IH|].
        rewrite Forall_forall in *. intros w Hw.
        apply insert_sorted_In in Hw. destruct Hw as [->|Hw]; [|auto].
        unfold slt. destruct (str_ltb z x) eqn:E'; [reflexivity|].
        exfalso. apply Hne. apply str_ltb_trich; assumption.
Qed.

Theorem sorted_names_sorted l : StronglySorted slt (sorted_names l).
Proof.
  induction l as [|x l IH]; cbn; [constructor|]. apply insert_sorted_sorted. exact IH.
Qed.

Theorem sorted_names_In x l : In x (sorted_names l) <-> In x l.
Proof.
  induction l as [|y l IH]; cbn [sorted_names fold_right]; [reflexivity|].
  rewrite insert_sorted_In. fold (sorted_names l). rewrite IH. cbn. intuition.
Qed.

Lemma ssorted_NoDup l : StronglySorted slt l -> NoDup l.
Proof.
  induction 1 as [|z l Hs IH Hall]; constructor; [|exact IH].
  intros Hin. rewrite Forall_forall in Hall. exact (str_ltb_neq _ _ (Hall z Hin) eq_refl).
Qed.

Theorem sorted_names_NoDup l : NoDup (sorted_names l).
Proof. apply ssorted_NoDup, sorted_names_sorted. Qed.

(* the i-th name is strictly below the j-th one when i < j *)
Lemma ssorted_nth l : StronglySorted slt l ->
  forall i j a b, (i < j)%nat -> nth_error l i = Some a -> nth_error l j = Some b -> slt a b.
Proof.
  induction 1 as [|z l Hs IH Hall]; intros i j a b Hij Ha Hb.
  - destruct i; discriminate.
  - destruct j as [|j]; [lia|]. cbn in Hb.
    destruct i as [|i]; cbn in Ha.
    + injection Ha as <-. rewrite Forall_forall in Hall. apply Hall. eapply nth_error_In; eauto.
    + apply (IH i j a b); [lia | exact Ha | exact Hb].
Qed.

(* ================================================================== 3. canonicity *)
Lemma ssorted_unique l l' :
  StronglySorted slt l -> StronglySorted slt l' -> (forall x, In x l <-> In x l') -> l = l'.
Proof.
  intros Hl; revert l'. induction Hl as [|a l Hs IH Ha]; intros l' Hl' Heq.
  - destruct l' as [|b l']; [reflexivity|]. exfalso. apply (proj2 (Heq b)). left; reflexivity.
  - destruct Hl' as [|b l' Hs' Hb].
    + exfalso. apply (proj1 (Heq a)). left; reflexivity.
    + rewrite Forall_forall in Ha, Hb.
      assert (a = b) as ->.
      { destruct (proj1 (Heq a) (or_introl eq_refl)) as [E|Hin]; [congruence|].
        destruct (proj2 (Heq b) (or_introl eq_refl)) as [E|Hin']; [congruence|].
        pose proof (Hb _ Hin) as H1. pose proof (Ha _ Hin') as H2.
        unfold slt in *. rewrite (str_ltb_asym _ _ H1) in H2. discriminate. }
      f_equal. apply IH; [exact Hs'|].
      intros x; split; intros Hx.
      * destruct (proj1 (Heq x) (or_intror Hx)) as [E|Hin]; [|exact Hin].
        subst x. exfalso. exact (str_ltb_neq _ _ (Ha _ Hx) eq_refl).
      * destruct (proj2 (Heq x) (or_intror Hx)) as [E|Hin]; [|exact Hin].
        subst x. exfalso. exact (str_ltb_neq _ _ (Hb _ Hx) eq_refl).
Qed.

(* the numbering depends on the SET of names only *)
Theorem sorted_names_canonical l l' :
  (forall x, In x l <-> In x l') -> sorted_names l = sorted_names l'.
Proof.
  intros H. apply ssorted_unique; try apply sorted_names_sorted.
  intros x. rewrite !sorted_names_In. apply H.
Qed.

Corollary sorted_names_perm l l' : Permutation l l' -> sorted_names l = sorted_names l'.
Proof.
  intros H. apply sorted_names_canonical. intros x; split; apply Permutation_in; [|symmetry]; exact H.
Qed.

Corollary sorted_names_idem l : sorted_names (sorted_names l) = sorted_names l.
Proof. apply sorted_names_canonical. intros x. apply sorted_names_In. Qed.

Lemma ssorted_fix l : StronglySorted slt l -> sorted_names l = l.
Proof.
  intros H. apply ssorted_unique; [apply sorted_names_sorted | exact H | intros x; apply sorted_names_In].
Qed.

Theorem collect_In k fs x : In x (collect k fs) <-> exists f, In f fs /\ In x (names_of_kind k f).
Proof.
  unfold collect. rewrite sorted_names_In, in_flat_map. reflexivity.
Qed.

(* T03d reorder_terms: the table of a list of formulas does not depend on their order, nor on
   repetitions -- only on the set of names that occur *)
Theorem collect_canonical k fs fs' :
  (forall x, In x (flat_map (names_of_kind k) fs) <-> In x (flat_map (names_of_kind k) fs')) ->
  collect k fs = collect k fs'.
Proof. apply sorted_names_canonical. Qed.

Theorem collect_perm k fs fs' : Permutation fs fs' -> collect k fs = collect k fs'.
Proof.
  intros H. apply collect_canonical. intros x. rewrite !in_flat_map.
  split; intros (f & Hf & Hx); exists f; (split; [|exact Hx]).
  - exact (Permutation_in _ H Hf).
  - exact (Permutation_in _ (Permutation_sym H) Hf).
Qed.

Theorem prepare_perm fs fs' cols : Permutation fs fs' -> prepare fs cols = prepare fs' cols.
Proof.
  intros H. unfold prepare. rewrite !(collect_perm _ fs fs' H). reflexivity.
Qed.

(* ================================================================== 4. index_of *)
Lemma index_of_range x l z : index_of x l = Some z -> 0 <= z < Z.of_nat (List.length l).
Proof.
  revert z; induction l as [|y l IH]; intros z; cbn [index_of]; [discriminate|].
  destruct (String.eqb x y).
  - intros [= <-]. cbn [List.length]. lia.
  - destruct (index_of x l) as [i|]; [|discriminate].
    intros [= <-]. specialize (IH i eq_refl). cbn [List.length]. lia.
Qed.

Lemma index_of_Some_nth x l i : index_of x l = Some (Z.of_nat i) -> nth_error l i = Some x.
Proof.
  revert i; induction l as [|y l IH]; intros i; cbn [index_of]; [discriminate|].
  destruct (String.eqb_spec x y) as [->|Hne].
  - intros [= H]. destruct i; [reflexivity | lia].
  - destruct (index_of x l) as [j|] eqn:E; [|discriminate].
    intros [= H]. pose proof (index_of_range _ _ _ E).
    destruct i as [|i]; [lia|]. cbn. apply IH. f_equal. lia.
Qed.

Lemma nth_error_index_of x l i : NoDup l -> nth_error l i = Some x -> index_of x l = Some (Z.of_nat i).
Proof.
  intros Hnd; revert i; induction Hnd as [|y l Hy Hnd IH]; intros i; [destruct i; discriminate|].
  destruct i as [|i]; cbn [nth_error index_of].
  - intros [= ->]. rewrite String.eqb_refl. reflexivity.
  - intros H. destruct (String.eqb_spec x y) as [->|Hne].
    + exfalso. apply Hy. eapply nth_error_In; eauto.
    + rewrite (IH _ H). f_equal. lia.
Qed.

(* the numbering is a bijection between the names and [0, n) *)
Theorem index_of_nth_error x l i :
  NoDup l -> (index_of x l = Some (Z.of_nat i) <-> nth_error l i = Some x).
Proof. intros H; split; [apply index_of_Some_nth | apply nth_error_index_of; exact H]. Qed.

Theorem index_of_None x l : index_of x l = None <-> ~ In x l.
Proof.
  induction l as [|y l IH]; cbn [index_of In]; [intuition|].
  destruct (String.eqb_spec x y) as [->|Hne].
  - split; [discriminate | intros H; exfalso; apply H; left; reflexivity].
  - destruct (index_of x l) as [j|].
    + split; [discriminate|]. intros H. exfalso. apply H. right.
      destruct (in_dec string_dec x l) as [Hi|Hi]; [exact Hi|]. apply IH in Hi. discriminate.
    + split; [|reflexivity]. intros _ [E|Hi]; [congruence|]. exact (proj1 IH eq_refl Hi).
Qed.

Theorem index_of_In x l : In x l <-> exists z, index_of x l = Some z.
Proof.
  destruct (index_of x l) as [z|] eqn:E.
  - split; [intros _; eauto|]. intros _.
    destruct (in_dec string_dec x l) as [Hi|Hi]; [exact Hi|]. apply index_of_None in Hi. congruence.
  - apply index_of_None in E. split; [contradiction | intros [z Hz]; discriminate].
Qed.

Lemma index_of_Some_nth' x l z : index_of x l = Some z -> nth_error l (Z.to_nat z) = Some x.
Proof.
  intros H. pose proof (index_of_range _ _ _ H). apply index_of_Some_nth.
  rewrite Z2Nat.id by lia. exact H.
Qed.

Theorem index_of_inj x y l z : index_of x l = Some z -> index_of y l = Some z -> x = y.
Proof.
  intros Hx Hy. apply index_of_Some_nth' in Hx, Hy. congruence.
Qed.

Theorem index_of_surj l i : (i < List.length l)%nat -> NoDup l ->
  exists x, index_of x l = Some (Z.of_nat i).
Proof.
  intros Hi Hnd. destruct (nth_error l i) as [x|] eqn:E.
  - exists x. apply nth_error_index_of; assumption.
  - apply nth_error_None in E. lia.
Qed.

(* position in a concatenation *)
Lemma index_of_app_l x l1 l2 z : index_of x l1 = Some z -> index_of x (l1 ++ l2) = Some z.
Proof.
  revert z; induction l1 as [|y l1 IH]; intros z; cbn [index_of app]; [discriminate|].
  destruct (String.eqb x y); [auto|].
  destruct (index_of x l1) as [j|]; [|discriminate]. intros [= <-]. rewrite (IH j eq_refl). reflexivity.
Qed.

Lemma index_of_app_r x l1 l2 : ~ In x l1 ->
  index_of x (l1 ++ l2) = option_map (fun z => z + Z.of_nat (List.length l1)) (index_of x l2).
Proof.
  induction l1 as [|y l1 IH]; intros Hn; cbn [index_of app List.length].
  - destruct (index_of x l2); cbn; [f_equal; lia | reflexivity].
  - destruct (String.eqb_spec x y) as [->|Hne]; [exfalso; apply Hn; left; reflexivity|].
    rewrite IH by (intros H; apply Hn; right; exact H).
    destruct (index_of x l2); cbn; [f_equal; lia | reflexivity].
Qed.

(* ================================================================== 5. prepare *)
Lemma nodupb_NoDup l : nodupb l = true <-> NoDup l.
Proof.
  induction l as [|x l IH]; cbn [nodupb].
  - split; [constructor | reflexivity].
  - rewrite andb_true_iff, negb_true_iff, IH. split.
    + intros [He Hn]. constructor; [|exact Hn]. intros Hin.
      assert (existsb (String.eqb x) l = true); [|congruence].
      apply existsb_exists. exists x. split; [exact Hin | apply String.eqb_refl].
    + intros H. inversion H as [|? ? Hx Hn]; subst. split; [|exact Hn].
      destruct (existsb (String.eqb x) l) eqn:E; [|reflexivity].
      apply existsb_exists in E. destruct E as (y & Hy & E). apply String.eqb_eq in E. subst. contradiction.
Qed.

Lemma NoDup_app_iff {A} (l1 l2 : list A) :
  NoDup (l1 ++ l2) <-> NoDup l1 /\ NoDup l2 /\ (forall x, In x l1 -> In x l2 -> False).
Proof.
  induction l1 as [|a l1 IH]; cbn [app].
  - split; [intros H; repeat split; [constructor | exact H | intros x []] | tauto].
  - split.
    + intros H. inversion H as [|? ? Ha Hn]; subst. apply IH in Hn. destruct Hn as (H1 & H2 & H3).
      rewrite in_app_iff in Ha. repeat split.
      * constructor; tauto.
      * exact H2.
      * intros x [->|Hx] Hx2; [tauto | eauto].
    + intros (H1 & H2 & H3). inversion H1 as [|? ? Ha Hn]; subst. constructor.
      * rewrite in_app_iff. intros [H|H]; [tauto|]. apply (H3 a); [left; reflexivity | exact H].
      * apply IH. repeat split; [exact Hn | exact H2 |]. intros x Hx. apply H3. right; exact Hx.
Qed.

(* constructive converse: what a duplicate in a concatenation of names means *)
Lemma not_NoDup_app (l1 l2 : list string) :
  ~ NoDup (l1 ++ l2) -> ~ NoDup l1 \/ ~ NoDup l2 \/ exists x, In x l1 /\ In x l2.
Proof.
  induction l1 as [|a l1 IH]; cbn [app]; intros H.
  - right; left; exact H.
  - destruct (in_dec string_dec a (l1 ++ l2)) as [Hin|Hnin].
    + apply in_app_iff in Hin. destruct Hin as [Hin|Hin].
      * left. intros Hn. inversion Hn; contradiction.
      * right; right. exists a. split; [left; reflexivity | exact Hin].
    + destruct IH as [H1|[H2|(x & Hx1 & Hx2)]].
      * intros Hn. apply H. constructor; assumption.
      * left. intros Hn. inversion Hn; contradiction.
      * right; left; exact H2.
      * right; right. exists x. split; [right; exact Hx1 | exact Hx2].
Qed.

Theorem prepare_Some fs cols t : prepare fs cols = Some t ->
  t = mkId (collect KFreeBeta fs) (collect KFixedBeta fs) (collect KRV fs) (collect KDraws fs) cols
  /\ NoDup (all_names t).
Proof.
  unfold prepare. destruct (nodupb _) eqn:E; [|discriminate]. intros [= <-].
  split; [reflexivity | apply nodupb_NoDup; exact E].
Qed.

Theorem prepare_None_iff fs cols :
  prepare fs cols = None <->
  ~ NoDup (all_names (mkId (collect KFreeBeta fs) (collect KFixedBeta fs) (collect KRV fs)
                           (collect KDraws fs) cols)).
Proof.
  unfold prepare. rewrite <- nodupb_NoDup. destruct (nodupb _); split; congruence.
Qed.

(* any table: a name in two different classes is a duplicate of the concatenation *)
Lemma two_classes_dup t n k1 k2 :
  k1 <> k2 -> In n (class_list t k1) -> In n (class_list t k2) -> ~ NoDup (all_names t).
Proof.
  intros Hne H1 H2 Hn. unfold all_names in Hn.
  repeat (apply NoDup_app_iff in Hn; let Hd := fresh "Hd" in destruct Hn as (_ & Hn & Hd);
          pose proof (Hd n) as Hd; rewrite ?in_app_iff in Hd).
  destruct k1, k2; try congruence; cbn [class_list] in H1, H2; tauto.
Qed.

Lemma NoDup_all_names_iff t :
  NoDup (all_names t) <->
  (forall k, NoDup (class_list t k)) /\
  (forall n k1 k2, k1 <> k2 -> In n (class_list t k1) -> In n (class_list t k2) -> False).
Proof.
  split.
  - intros H. split.
    + unfold all_names in H. intros k.
      repeat (apply NoDup_app_iff in H; let Hd := fresh "Hd" in destruct H as (? & H & Hd)).
      destruct k; assumption.
    + intros n k1 k2 Hne H1 H2. exact (two_classes_dup t n k1 k2 Hne H1 H2 H).
  - intros [Hnd Hdis]. unfold all_names.
    apply NoDup_app_iff; split; [apply (Hnd KFreeBeta)|split].
    2:{ intros x H1 H2. rewrite !in_app_iff in H2.
        destruct H2 as [H2|[H2|[H2|H2]]];
        [apply (Hdis x KFreeBeta KFixedBeta) | apply (Hdis x KFreeBeta KRV)
         | apply (Hdis x KFreeBeta KDraws) | apply (Hdis x KFreeBeta KVar)]; (congruence || assumption). }
    apply NoDup_app_iff; split; [apply (Hnd KFixedBeta)|split].
    2:{ intros x H1 H2. rewrite !in_app_iff in H2.
        destruct H2 as [H2|[H2|H2]];
        [apply (Hdis x KFixedBeta KRV) | apply (Hdis x KFixedBeta KDraws)
         | apply (Hdis x KFixedBeta KVar)]; (congruence || assumption). }
    apply NoDup_app_iff; split; [apply (Hnd KRV)|split].
    2:{ intros x H1 H2. rewrite !in_app_iff in H2.
        destruct H2 as [H2|H2];
        [apply (Hdis x KRV KDraws) | apply (Hdis x KRV KVar)]; (congruence || assumption). }
    apply NoDup_app_iff; split; [apply (Hnd KDraws)|split; [apply (Hnd KVar)|]].
    intros x H1 H2. apply (Hdis x KDraws KVar); (congruence || assumption).
Qed.

(* the names of each class as the user wrote them: those met in the formulas, and the columns *)
Definition raw_class (fs : list expr) (cols : list string) (k : ekind) : list string :=
  match k with KVar => cols | _ => flat_map (names_of_kind k) fs end.

Lemma class_list_raw fs cols k n :
  In n (class_list (mkId (collect KFreeBeta fs) (collect KFixedBeta fs) (collect KRV fs)
                         (collect KDraws fs) cols) k) <-> In n (raw_class fs cols k).
Proof.
  destruct k; cbn [class_list raw_class t_free t_fixed t_rv t_draws t_vars]; unfold collect;
    rewrite ?sorted_names_In; reflexivity.
Qed.

(* T03h duplicate_kinds_refused: the preparation is refused exactly when some name is used for
   two different kinds of element (free parameter / fixed parameter / random variable / draws
   in the formulas, or column of the table), or the table has two columns of the same name *)
Theorem prepare_refuses_iff fs cols :
  prepare fs cols = None <->
  (exists n k1 k2, k1 <> k2 /\ In n (raw_class fs cols k1) /\ In n (raw_class fs cols k2))
  \/ ~ NoDup cols.
Proof.
  rewrite prepare_None_iff.
  set (t := mkId _ _ _ _ _). split.
  - intros H. unfold all_names in H.
    assert (Hs : forall k, NoDup (collect k fs)) by (intros k; apply sorted_names_NoDup).
    cbn [t t_free t_fixed t_rv t_draws t_vars] in H.
    assert (X : forall k1 n k2, k1 <> k2 -> In n (class_list t k1) -> In n (class_list t k2) ->
       exists n k1 k2, k1 <> k2 /\ In n (raw_class fs cols k1) /\ In n (raw_class fs cols k2)).
    { intros k1 n k2 Hne H1 H2. exists n, k1, k2. split; [exact Hne|].
      split; apply class_list_raw; assumption. }
    apply not_NoDup_app in H. destruct H as [H|[H|(x & H1 & H2)]]; [exfalso; apply H, Hs | |].
    2:{ left. rewrite !in_app_iff in H2. destruct H2 as [H2|[H2|[H2|H2]]].
        - apply (X KFreeBeta x KFixedBeta); (congruence || assumption).
        - apply (X KFreeBeta x KRV); (congruence || assumption).
        - apply (X KFreeBeta x KDraws); (congruence || assumption).
        - apply (X KFreeBeta x KVar); (congruence || assumption). }
    apply not_NoDup_app in H. destruct H as [H|[H|(x & H1 & H2)]]; [exfalso; apply H, Hs | |].
    2:{ left. rewrite !in_app_iff in H2. destruct H2 as [H2|[H2|H2]].
        - apply (X KFixedBeta x KRV); (congruence || assumption).
        - apply (X KFixedBeta x KDraws); (congruence || assumption).
        - apply (X KFixedBeta x KVar); (congruence || assumption). }
    apply not_NoDup_app in H. destruct H as [H|[H|(x & H1 & H2)]]; [exfalso; apply H, Hs | |].
    2:{ left. rewrite !in_app_iff in H2. destruct H2 as [H2|H2].
        - apply (X KRV x KDraws); (congruence || assumption).
        - apply (X KRV x KVar); (congruence || assumption). }
    apply not_NoDup_app in H. destruct H as [H|[H|(x & H1 & H2)]]; [exfalso; apply H, Hs | |].
    + right. exact H.
    + left. apply (X KDraws x KVar); (congruence || assumption).
  - intros [(n & k1 & k2 & Hne & H1 & H2)|H].
    + apply (two_classes_dup t n k1 k2 Hne); apply class_list_raw; assumption.
    + intros Hn. apply NoDup_all_names_iff in Hn. apply H. exact (proj1 Hn KVar).
Qed.

(* the accepted tables: every class duplicate-free, classes pairwise disjoint *)
Corollary prepare_Some_disjoint fs cols t : prepare fs cols = Some t ->
  forall n k1 k2, In n (class_list t k1) -> In n (class_list t k2) -> k1 = k2.
Proof.
  intros H n k1 k2 H1 H2. apply prepare_Some in H. destruct H as [_ Hn].
  apply NoDup_all_names_iff in Hn. destruct Hn as [_ Hd].
  destruct k1, k2; try reflexivity; exfalso; refine (Hd n _ _ _ H1 H2); congruence.
Qed.

(* ================================================================== 6. renaming (T03c) *)
Lemma expr_rose_ind (P : expr -> Prop) :
  (forall h kids, Forall P kids -> P (Node h kids)) -> forall e, P e.
Proof.
  intros H. fix IH 1. intros [h kids]. apply H.
  induction kids as [|k kids IHk]; constructor; [apply IH | exact IHk].
Qed.

(* rename the parameters (the names inside Beta nodes) *)
Definition rename_head (rho : string -> string) (h : head) : head :=
  match h with HBeta n f => HBeta (rho n) f | _ => h end.

Fixpoint rename (rho : string -> string) (e : expr) : expr :=
  match e with Node h ks => Node (rename_head rho h) (map (rename rho) ks) end.

Definition ren_names (rho : string -> string) (k : ekind) (l : list string) : list string :=
  match k with KFreeBeta | KFixedBeta => map rho l | _ => l end.

Definition head_names (k : ekind) (h : head) : list string :=
  match kind_of_head h with
  | Some (k', n) => if ekind_eqb k k' then [n] else []
  | None => []
  end.

Lemma head_names_rename rho k h :
  head_names k (rename_head rho h) = ren_names rho k (head_names k h).
Proof. destruct h as [| n [|] | | | | | | | | | | | | | |], k; reflexivity. Qed.

Lemma ren_names_app rho k a b : ren_names rho k (a ++ b) = ren_names rho k a ++ ren_names rho k b.
Proof. destruct k; cbn [ren_names]; try reflexivity; apply map_app. Qed.

Lemma ren_names_flat_map {A} rho k (f : A -> list string) l :
  flat_map (fun x => ren_names rho k (f x)) l = ren_names rho k (flat_map f l).
Proof.
  induction l as [|x l IH]; cbn [flat_map]; [destruct k; reflexivity|].
  rewrite ren_names_app, IH. reflexivity.
Qed.

Lemma subterms_rename rho e : subterms (rename rho e) = map (rename rho) (subterms e).
Proof.
  induction e as [h kids IH] using expr_rose_ind.
  cbn [rename subterms map]. f_equal.
  induction IH as [|k kids Hk _ IHk]; cbn [map flat_map]; [reflexivity|].
  rewrite map_app, Hk, IHk. reflexivity.
Qed.

Lemma hd_of_rename rho e : hd_of (rename rho e) = rename_head rho (hd_of e).
Proof. destruct e; reflexivity. Qed.

Lemma names_of_kind_rename rho k e :
  names_of_kind k (rename rho e) = ren_names rho k (names_of_kind k e).
Proof.
  unfold names_of_kind. fold (head_names k).
  rewrite subterms_rename. rewrite <- ren_names_flat_map.
  induction (subterms e) as [|s l IH]; cbn [map flat_map]; [reflexivity|].
  rewrite IH. f_equal. change (head_names k (hd_of (rename rho s)) = ren_names rho k (head_names k (hd_of s))).
  rewrite hd_of_rename. apply head_names_rename.
Qed.

Lemma raw_names_rename rho k fs :
  flat_map (names_of_kind k) (map (rename rho) fs) = ren_names rho k (flat_map (names_of_kind k) fs).
Proof.
  rewrite <- ren_names_flat_map.
  induction fs as [|f fs IH]; cbn [map flat_map]; [reflexivity|].
  rewrite IH, names_of_kind_rename. reflexivity.
Qed.

Definition beta_kind (k : ekind) : Prop := k = KFreeBeta \/ k = KFixedBeta.

(* the table of the renamed formulas is the sorted image of the table: the new position of a
   parameter is dictated by its new NAME *)
Theorem collect_rename rho k fs : beta_kind k ->
  collect k (map (rename rho) fs) = sorted_names (map rho (collect k fs)).
Proof.
  intros Hk. unfold collect. rewrite raw_names_rename.
  replace (ren_names rho k (flat_map (names_of_kind k) fs))
    with (map rho (flat_map (names_of_kind k) fs)) by (destruct Hk; subst; reflexivity).
  apply sorted_names_canonical. intros x. rewrite !in_map_iff.
  split; intros (y & E & Hy); exists y; (split; [exact E|]); apply sorted_names_In; exact Hy.
Qed.

Theorem collect_rename_other rho k fs : ~ beta_kind k ->
  collect k (map (rename rho) fs) = collect k fs.
Proof.
  intros Hk. unfold collect. rewrite raw_names_rename.
  destruct k; try reflexivity; exfalso; apply Hk; [left | right]; reflexivity.
Qed.

Definition injective (rho : string -> string) : Prop := forall a b, rho a = rho b -> a = b.

Lemma NoDup_map_inj rho l : injective rho -> NoDup l -> NoDup (map rho l).
Proof.
  intros Hi. induction 1 as [|x l Hx Hn IH]; cbn [map]; constructor; [|exact IH].
  rewrite in_map_iff. intros (y & E & Hy). apply Hi in E. subst. contradiction.
Qed.

(* for an injective renaming the new table is a permutation of the image of the old one *)
Theorem collect_rename_perm rho k fs : beta_kind k -> injective rho ->
  Permutation (collect k (map (rename rho) fs)) (map rho (collect k fs)).
Proof.
  intros Hk Hi. rewrite (collect_rename rho k fs Hk).
  apply NoDup_Permutation.
  - apply sorted_names_NoDup.
  - apply NoDup_map_inj; [exact Hi | apply sorted_names_NoDup].
  - intros x. apply sorted_names_In.
Qed.

Corollary collect_rename_length rho k fs : beta_kind k -> injective rho ->
  List.length (collect k (map (rename rho) fs)) = List.length (collect k fs).
Proof.
  intros Hk Hi. rewrite (Permutation_length (collect_rename_perm rho k fs Hk Hi)). apply map_length.
Qed.

(* an order-preserving renaming keeps every position *)
Theorem collect_rename_monotone rho k fs : beta_kind k ->
  (forall a b, str_ltb a b = true -> str_ltb (rho a) (rho b) = true) ->
  collect k (map (rename rho) fs) = map rho (collect k fs).
Proof.
  intros Hk Hm. rewrite (collect_rename rho k fs Hk). apply ssorted_fix.
  unfold collect. generalize (sorted_names_sorted (flat_map (names_of_kind k) fs)).
  induction 1 as [|z l Hs IH Hall]; cbn [map]; constructor; [exact IH|].
  rewrite Forall_forall in *. intros w Hw. apply in_map_iff in Hw. destruct Hw as (y & <- & Hy).
  apply Hm. apply Hall. exact Hy.
Qed.

(* T03c: every parameter keeps a slot, found under its new name, and the value vector handed
   to the engine carries each value with its name *)
Theorem rename_index_follows rho k fs n i : beta_kind k ->
  index_of n (collect k fs) = Some i ->
  exists j, index_of (rho n) (collect k (map (rename rho) fs)) = Some j.
Proof.
  intros Hk Hi. apply index_of_In. rewrite (collect_rename rho k fs Hk).
  apply sorted_names_In. apply in_map. apply index_of_In. eauto.
Qed.

Theorem rename_vector_follows {A} rho k fs (vals vals' : string -> option A) :
  beta_kind k ->
  (forall n, vals' (rho n) = vals n) ->
  forall n i, index_of n (collect k fs) = Some i ->
  exists j, index_of (rho n) (collect k (map (rename rho) fs)) = Some j /\
            nth_error (vector vals' (collect k (map (rename rho) fs))) (Z.to_nat j) = Some (vals n) /\
            nth_error (vector vals (collect k fs)) (Z.to_nat i) = Some (vals n).
Proof.
  intros Hk Hv n i Hi.
  destruct (rename_index_follows rho k fs n i Hk Hi) as [j Hj]. exists j.
  split; [exact Hj|]. unfold vector. split.
  - rewrite nth_error_map, (index_of_Some_nth' _ _ _ Hj). cbn. rewrite Hv. reflexivity.
  - rewrite nth_error_map, (index_of_Some_nth' _ _ _ Hi). reflexivity.
Qed.

(* the same at the level of prepare *)
Theorem prepare_rename_follows {A} rho fs cols t t' (vals vals' : string -> option A) :
  prepare fs cols = Some t -> prepare (map (rename rho) fs) cols = Some t' ->
  (forall n, vals' (rho n) = vals n) ->
  t_rv t' = t_rv t /\ t_draws t' = t_draws t /\ t_vars t' = t_vars t /\
  (forall n i, index_of n (t_free t) = Some i ->
     exists j, index_of (rho n) (t_free t') = Some j /\
               nth_error (vector vals' (t_free t')) (Z.to_nat j) = nth_error (vector vals (t_free t)) (Z.to_nat i)) /\
  (forall n i, index_of n (t_fixed t) = Some i ->
     exists j, index_of (rho n) (t_fixed t') = Some j /\
               nth_error (vector vals' (t_fixed t')) (Z.to_nat j) = nth_error (vector vals (t_fixed t)) (Z.to_nat i)).
Proof.
  intros H H' Hv. apply prepare_Some in H, H'. destruct H as [-> _], H' as [-> _].
  cbn [t_free t_fixed t_rv t_draws t_vars].
  assert (Hn : forall k, k = KRV \/ k = KDraws -> ~ beta_kind k)
    by (intros k [->| ->] [E|E]; discriminate).
  split; [apply collect_rename_other, Hn; auto|].
  split; [apply collect_rename_other, Hn; auto|].
  split; [reflexivity|].
  split; intros n i Hi.
  - destruct (rename_vector_follows rho KFreeBeta fs vals vals' (or_introl eq_refl) Hv n i Hi)
      as (j & Hj & H1 & H2). exists j. split; [exact Hj | congruence].
  - destruct (rename_vector_follows rho KFixedBeta fs vals vals' (or_intror eq_refl) Hv n i Hi)
      as (j & Hj & H1 & H2). exists j. split; [exact Hj | congruence].
Qed.

(* non-vacuity, and "never by position": swapping the names of the two parameters of a + b
   leaves the table ["a";"b"] unchanged, so the VALUES must be swapped in the vector *)
Example rename_swap_example :
  let rho := fun n => if String.eqb n "a" then "b"%string else if String.eqb n "b" then "a"%string else n in
  let f := EBin Plus (EBeta "a" false) (EBeta "b" false) in
  collect KFreeBeta [f] = ["a"; "b"]%string /\
  collect KFreeBeta [rename rho f] = ["a"; "b"]%string /\
  rename rho f = EBin Plus (EBeta "b" false) (EBeta "a" false).
Proof. vm_compute. repeat split. Qed.

(* ================================================================== 7. semantics and renaming *)
From BV Require Import Model.EvalX.
Open Scope Z_scope.

Section RenameSemantics.
  Variable Phi : R -> R.
  Variable rho : string -> string.

  (* en' reads the parameter rho n where en reads n; everything else is the same *)
  Definition env_ren (en en' : env) : Prop :=
    (forall n, e_beta en' (rho n) = e_beta en n) /\
    e_var en' = e_var en /\ e_draw en' = e_draw en /\ e_rv en' = e_rv en /\
    e_draws en' = e_draws en /\ e_rows en' = e_rows en.

  Lemma env_ren_with_draw en en' d : env_ren en en' -> env_ren (with_draw en d) (with_draw en' d).
  Proof. intros (Hb & Hv & Hd & Hr & Hds & Hrs). unfold env_ren, with_draw; cbn. auto 10. Qed.

  Lemma env_ren_with_row en en' r : env_ren en en' -> env_ren (with_row en r) (with_row en' r).
  Proof. intros (Hb & Hv & Hd & Hr & Hds & Hrs). unfold env_ren, with_row; cbn. auto 10. Qed.

  Lemma evalX_unfold h kids en :
    evalX Phi (Node h kids) en =
    let vs := map (fun k => evalX Phi k en) kids in
    match h, vs with
    | HNum d, [] => XR (D2R d)
    | HBeta n _, [] => of_opt (e_beta en n)
    | HVar n, [] => of_opt (e_var en n)
    | HDraws n _, [] => of_opt (e_draw en n)
    | HRV n, [] => of_opt (e_rv en n)
    | HBin op, [a; b] => xbin op a b
    | HUn MonteCarlo, [_] =>
        match kids with
        | [k] => xmean (map (fun d => evalX Phi k (with_draw en d)) (e_draws en))
        | _ => XNaN
        end
    | HUn PanelTraj, [_] =>
        match kids with
        | [k] => match e_rows en with
                 | [] => XNaN
                 | rows => xprod (map (fun r => evalX Phi k (with_row en r)) rows)
                 end
        | _ => XNaN
        end
    | HUn op, [a] => xun Phi op a
    | HPowC c, [a] => xpowc c a
    | HBelongs s, [a] => xbelongs s a
    | HMultSum, _ => xsum vs
    | HCondSum, _ => xcondsum vs
    | HElem keys, _ => xelem keys vs
    | HLinUtil, _ => xlinutil vs
    | HLogLogit uk ak, _ => xloglogit uk ak vs
    | _, _ => XNaN
    end.
  Proof. reflexivity. Qed.

  (* T03c (semantic half): renaming the parameters and renaming the entries of the parameter
     environment accordingly does not change the value of any formula *)
  Theorem evalX_rename e : forall en en', env_ren en en' ->
    evalX Phi (rename rho e) en' = evalX Phi e en.
  Proof.
    induction e as [h kids IH] using expr_rose_ind. intros en en' Hen.
    cbn [rename]. rewrite !evalX_unfold. cbv zeta. rewrite map_map.
    assert (Hvs : map (fun k => evalX Phi (rename rho k) en') kids = map (fun k => evalX Phi k en) kids).
    { apply map_ext_in. intros k Hk. rewrite Forall_forall in IH. apply IH; assumption. }
    rewrite Hvs.
    pose proof Hen as (Hb & Hv & Hd & Hr & Hds & Hrs).
    destruct h; cbn [rename_head]; try reflexivity.
    - destruct kids; cbn [map]; [rewrite Hb|]; reflexivity.
    - destruct kids; cbn [map]; [rewrite Hv|]; reflexivity.
    - destruct kids; cbn [map]; [rewrite Hd|]; reflexivity.
    - destruct kids; cbn [map]; [rewrite Hr|]; reflexivity.
    - destruct kids as [|a [|b kids]]; cbn [map]; try (destruct op; reflexivity).
      inversion IH as [|? ? Ha _]; subst.
      destruct op; try reflexivity.
      + rewrite Hds. f_equal. apply map_ext. intros d. apply Ha. apply env_ren_with_draw. exact Hen.
      + assert (Hm : forall rows, map (fun r => evalX Phi (rename rho a) (with_row en' r)) rows
                                  = map (fun r => evalX Phi a (with_row en r)) rows).
        { intros rows. apply map_ext. intros r. apply Ha. apply env_ren_with_row. exact Hen. }
        rewrite Hrs. destruct (e_rows en) as [|r0 rows]; [reflexivity|].
        specialize (Hm (r0 :: rows)). cbn [map] in Hm |- *. rewrite Hm. reflexivity.
  Qed.
End RenameSemantics.

(* a canonical renamed environment when rho has a left inverse *)
Corollary evalX_rename_inv Phi rho rho_inv e en :
  (forall n, rho_inv (rho n) = n) ->
  evalX Phi (rename rho e)
        (mkEnv (fun m => e_beta en (rho_inv m)) (e_var en) (e_draw en) (e_rv en) (e_draws en) (e_rows en))
  = evalX Phi e en.
Proof.
  intros H. apply evalX_rename. unfold env_ren; cbn. repeat split. intros n. rewrite H. reflexivity.
Qed.

(* ------------------------------------------------------------------ assumptions *)
Print Assumptions str_ltb_trans.
Print Assumptions str_ltb_trich.
Print Assumptions sorted_names_canonical.
Print Assumptions prepare_perm.
Print Assumptions index_of_nth_error.
Print Assumptions prepare_refuses_iff.
Print Assumptions collect_rename.
Print Assumptions prepare_rename_follows.
Print Assumptions evalX_rename.
