(* The pure-Python evaluator (get_value methods translated from /repo on every run: Gen/PyEval.v)
   computes, node by node, the semantics evalX gives to the same node on real arguments. *)
From Coq Require Import Reals List Lra.
From BV Require Import Model.PyBase Model.Stats Model.Expr Model.EvalX Gen.PyEval.
Import ListNotations.
Open Scope R_scope.

Ltac dec := unfold Rneqb, Rgtb, Rgeb in *; unfold Reqb, Rleb, Rltb, Rnz, Reqb', Rleb', Rltb', b2R in *;
            repeat match goal with
                   | |- context [Req_EM_T ?a ?b] => destruct (Req_EM_T a b)
                   | |- context [Rle_dec ?a ?b] => destruct (Rle_dec a b)
                   | |- context [Rlt_dec ?a ?b] => destruct (Rlt_dec a b)
                   end; cbn [negb]; try reflexivity; try (exfalso; lra).

Lemma py_Plus_sem l r : xbin Plus (XR l) (XR r) = XR (py_Plus l r). Proof. reflexivity. Qed.
Lemma py_Minus_sem l r : xbin Minus (XR l) (XR r) = XR (py_Minus l r). Proof. reflexivity. Qed.
Lemma py_Times_sem l r : xbin Times (XR l) (XR r) = XR (py_Times l r). Proof. reflexivity. Qed.
Lemma py_Divide_sem l r : r <> 0 -> xbin Divide (XR l) (XR r) = XR (py_Divide l r).
Proof. intros H. unfold xbin, py_Divide, Rnz. destruct (Req_EM_T r 0); [contradiction|reflexivity]. Qed.
Lemma py_Power_sem l r : 0 < l -> xbin Power (XR l) (XR r) = XR (py_Power l r).
Proof. intros H. unfold xbin, py_Power, Rltb'. destruct (Rlt_dec 0 l); [reflexivity|contradiction]. Qed.
Lemma py_bioMin_sem l r : xbin BMin (XR l) (XR r) = XR (py_bioMin l r).
Proof. unfold xbin, lift2, py_bioMin, Rleb, Rmin. destruct (Rle_dec l r); reflexivity. Qed.
Lemma py_bioMax_sem l r : xbin BMax (XR l) (XR r) = XR (py_bioMax l r).
Proof.
  unfold xbin, lift2, py_bioMax, Rgeb, Rleb, Rmax.
  destruct (Rle_dec l r), (Rle_dec r l); try reflexivity; f_equal; lra.
Qed.
Lemma py_And_sem l r : xbin And (XR l) (XR r) = XR (py_And l r).
Proof. unfold xbin, py_And. dec. Qed.
Lemma py_Or_sem l r : xbin Or (XR l) (XR r) = XR (py_Or l r).
Proof. unfold xbin, py_Or. dec. Qed.
Lemma py_Equal_sem l r : xbin Eq (XR l) (XR r) = XR (py_Equal l r).
Proof. unfold xbin, lift2, py_Equal. dec. Qed.
Lemma py_NotEqual_sem l r : xbin Ne (XR l) (XR r) = XR (py_NotEqual l r).
Proof. unfold xbin, lift2, py_NotEqual. dec. Qed.
Lemma py_LessOrEqual_sem l r : xbin Le (XR l) (XR r) = XR (py_LessOrEqual l r).
Proof. unfold xbin, lift2, py_LessOrEqual. dec. Qed.
Lemma py_GreaterOrEqual_sem l r : xbin Ge (XR l) (XR r) = XR (py_GreaterOrEqual l r).
Proof. unfold xbin, lift2, py_GreaterOrEqual. dec. Qed.
Lemma py_Less_sem l r : xbin Lt (XR l) (XR r) = XR (py_Less l r).
Proof. unfold xbin, lift2, py_Less. dec. Qed.
Lemma py_Greater_sem l r : xbin Gt (XR l) (XR r) = XR (py_Greater l r).
Proof. unfold xbin, lift2, py_Greater. dec. Qed.

Section Un.
  Variable Phi : R -> R.
  Lemma py_UnaryMinus_sem c : xun Phi UMinus (XR c) = XR (py_UnaryMinus c). Proof. reflexivity. Qed.
  Lemma py_exp_sem c : xun Phi Exp (XR c) = XR (py_exp c). Proof. reflexivity. Qed.
  Lemma py_sin_sem c : xun Phi Sin (XR c) = XR (py_sin c). Proof. reflexivity. Qed.
  Lemma py_cos_sem c : xun Phi Cos (XR c) = XR (py_cos c). Proof. reflexivity. Qed.
  Lemma py_log_sem c : 0 < c -> xun Phi Log (XR c) = XR (py_log c).
  Proof. intros H. unfold xun, py_log, Rltb'. destruct (Rlt_dec 0 c); [reflexivity|contradiction]. Qed.
  Lemma py_logzero_sem c : 0 <= c -> xun Phi Logzero (XR c) = XR (py_logzero c).
  Proof.
    intros H. unfold xun, py_logzero, Rnz, Rltb', Reqb. simpl IZR.
    destruct (Req_EM_T c 0); [reflexivity|]. destruct (Rlt_dec 0 c); [reflexivity|exfalso; lra].
  Qed.
End Un.

Lemma fold_plus_shift (l : list R) (a : R) :
  fold_left (fun acc e => acc + e) l a = a + fold_left (fun acc e => acc + e) l 0.
Proof.
  revert a. induction l as [|x l IH]; intro a; simpl; [lra|].
  rewrite IH, (IH (0 + x)). lra.
Qed.

Lemma py_bioMultSum_sem (kids : list R) : xsum (map XR kids) = XR (py_bioMultSum kids).
Proof.
  unfold py_bioMultSum. induction kids as [|x l IH]; simpl; [reflexivity|].
  unfold xsum in *. simpl. rewrite IH. simpl. f_equal.
  rewrite (fold_plus_shift l (0 + x)). lra.
Qed.

Fixpoint flat_vals (terms : list (R * R)) : list xval :=
  match terms with [] => [] | (c, t) :: r => XR c :: XR t :: flat_vals r end.

Lemma condsum_shift (l : list (R * R)) (a : R) :
  fold_left (fun acc tt => if Rneqb (fst tt) (IZR 0%Z) then acc + snd tt else acc) l a
  = a + fold_left (fun acc tt => if Rneqb (fst tt) (IZR 0%Z) then acc + snd tt else acc) l 0.
Proof.
  revert a. induction l as [|[c t] l IH]; intro a; simpl; [lra|].
  destruct (Rneqb c 0).
  - rewrite IH, (IH (0 + t)). lra.
  - apply IH.
Qed.

Lemma Rnz_neqb c : Rnz c = Rneqb c (IZR 0%Z).
Proof. unfold Rnz, Rneqb, Reqb. simpl IZR. destruct (Req_EM_T c 0); reflexivity. Qed.

Lemma py_ConditionalSum_sem (terms : list (R * R)) :
  xcondsum (flat_vals terms) = XR (py_ConditionalSum terms).
Proof.
  unfold py_ConditionalSum. induction terms as [|[c t] l IH]; [reflexivity|].
  cbn [flat_vals xcondsum fold_left fst snd]. rewrite Rnz_neqb.
  destruct (Rneqb c (IZR 0%Z)).
  - rewrite IH. cbn [lift2]. f_equal. rewrite (condsum_shift l (0 + t)). lra.
  - exact IH.
Qed.
