(* Ordered logit / probit (ordered.py): the probabilities of the categories telescope to one and
   lie in [0,1] when the cdf is monotone with values in [0,1] and the threshold increments are >= 0. *)
From Coq Require Import Reals Lra Lia List ZArith Bool String.
From BV Require Import Model.EvalX Model.BuildersChoice Model.PyBase Proofs.ChoiceBase.
Open Scope R_scope.

Lemma dset_fresh {A} (d : dict A) k v : ~ In k (keys d) -> dset d k v = (d ++ [(k, v)])%list.
Proof.
  induction d as [|[k' v'] d IH]; simpl; [reflexivity|]. intros H.
  destruct (Z.eqb_spec k k') as [->|Hne]; [tauto|]. f_equal. apply IH. tauto.
Qed.

Definition Rlsum (l : list R) : R := Rsum (fun x => x) l.

Lemma Rlsum_app a b : Rlsum (a ++ b) = Rlsum a + Rlsum b.
Proof. apply Rsum_app. Qed.

Definition diff_name (tau_name : string) (it : Z) : string :=
  (tau_name ++ "_diff_" ++ string_of_Z it)%string.

Section Ordered.
  Variable Phi : R -> R.
  Variable en : env.
  Notation ev e := (evalX Phi e en).
  Variable cdf : expr -> expr.
  Variable F : R -> R.
  Hypothesis cdf_sem : forall e v, ev e = XR v -> ev (cdf e) = XR (F v).
  Variable x : expr.
  Variable xv : R.
  Hypothesis Hx : ev x = XR xv.
  Variable tau_name : string.
  (* values of the increment parameters *)
  Variable dv : Z -> R.

  Definition in_unit (p : R) : Prop := 0 <= p <= 1.

  Lemma ordered_mid_spec items :
    forall tau acc tv,
      ev tau = XR tv ->
      (forall it, In it items -> e_beta en (diff_name tau_name it) = Some (dv it)) ->
      NoDup items -> (forall it, In it items -> ~ In it (keys acc)) ->
      exists mid ps tv',
        ordered_mid cdf x tau_name items tau acc = ((acc ++ mid)%list, snd (ordered_mid cdf x tau_name items tau acc)) /\
        ev (snd (ordered_mid cdf x tau_name items tau acc)) = XR tv' /\
        keys mid = items /\
        Forall2 (fun kv p => ev (snd kv) = XR p) mid ps /\
        Rlsum ps = F (xv - tv) - F (xv - tv') /\
        ((forall it, In it items -> 0 <= dv it) -> (forall a b, a <= b -> F a <= F b) ->
         (forall a, in_unit (F a)) -> tv <= tv' /\ Forall in_unit ps).
  Proof.
    induction items as [|it items IH]; intros tau acc tv Htau Hd Hnd Hfresh.
    - exists [], [], tv. simpl. rewrite app_nil_r.
      split; [reflexivity|]. split; [assumption|]. split; [reflexivity|]. split; [constructor|].
      split; [unfold Rlsum; simpl; ring|]. intros _ _ _. split; [lra|constructor].
    - inversion Hnd as [|? ? Hnotin Hnd']; subst. cbn [ordered_mid].
      set (diff := EBeta (tau_name ++ "_diff_" ++ string_of_Z it) false).
      set (next := EBin Plus tau diff).
      assert (Hdiff : ev diff = XR (dv it)).
      { change (ev diff) with (of_opt (e_beta en (diff_name tau_name it))).
        rewrite (Hd it) by now left. reflexivity. }
      assert (Hnext : ev next = XR (tv + dv it)).
      { unfold next. rewrite ev_bin, Htau, Hdiff. reflexivity. }
      set (entry := EBin Minus (cdf (EBin Minus x tau)) (cdf (EBin Minus x next))).
      assert (Hentry : ev entry = XR (F (xv - tv) - F (xv - (tv + dv it)))).
      { unfold entry. rewrite ev_bin.
        rewrite (cdf_sem (EBin Minus x tau) (xv - tv)) by (rewrite ev_bin, Hx, Htau; reflexivity).
        rewrite (cdf_sem (EBin Minus x next) (xv - (tv + dv it))) by (rewrite ev_bin, Hx, Hnext; reflexivity).
        reflexivity. }
      rewrite (dset_fresh acc it entry) by (apply Hfresh; now left).
      destruct (IH next (acc ++ [(it, entry)])%list (tv + dv it) Hnext) as (mid & ps & tv' & E1 & E2 & E3 & E4 & E5 & E6).
      + intros j Hj. apply Hd. now right.
      + assumption.
      + intros j Hj. unfold keys. rewrite map_app. simpl. intros Hin. apply in_app_or in Hin as [Hin|[<-|[]]].
        * apply (Hfresh j); [now right|assumption].
        * tauto.
      + exists ((it, entry) :: mid), ((F (xv - tv) - F (xv - (tv + dv it))) :: ps), tv'.
        split; [|split; [|split; [|split; [|split]]]].
        * rewrite E1 at 1. simpl. rewrite <- app_assoc. reflexivity.
        * exact E2.
        * simpl. now rewrite E3.
        * constructor; assumption.
        * unfold Rlsum in *. simpl. rewrite E5. ring.
        * intros Hpos Hmono Hrange.
          destruct E6 as [E6a E6b]; [intros j Hj; apply Hpos; now right|assumption|assumption|].
          assert (0 <= dv it) by (apply Hpos; now left).
          split; [lra|]. constructor; [|assumption].
          unfold in_unit. pose proof (Hrange (xv - tv)) as [R1 R2]. pose proof (Hrange (xv - (tv + dv it))) as [R3 R4].
          assert (F (xv - (tv + dv it)) <= F (xv - tv)) by (apply Hmono; lra). lra.
  Qed.

  (* T05i / T05j *)
  Theorem ordered_proper (vals : list Z) (tau : expr) (fixed : bool) (tv : R) D :
    tau = EBeta tau_name fixed -> e_beta en tau_name = Some tv ->
    (2 <= List.length vals)%nat -> NoDup vals ->
    (forall it, In it (init (tl vals)) -> e_beta en (diff_name tau_name it) = Some (dv it)) ->
    ordered_likelihood x vals tau cdf = Ok D ->
    exists ps,
      keys D = vals /\
      Forall2 (fun kv p => ev (snd kv) = XR p) D ps /\
      Rlsum ps = 1 /\
      ((forall it, In it (init (tl vals)) -> 0 <= dv it) -> (forall a b, a <= b -> F a <= F b) ->
       (forall a, in_unit (F a)) -> Forall in_unit ps).
  Proof.
    intros -> Hb Hlen Hnd Hd E.
    destruct vals as [|v0 rest]; [simpl in Hlen; lia|]. simpl tl in *.
    unfold ordered_likelihood, EBeta in E.
    assert (Htau : ev (Node (HBeta tau_name fixed) []) = XR tv) by (simpl; now rewrite Hb).
    inversion Hnd as [|? ? Hv0 Hndr]; subst.
    assert (Hrest : rest <> []) by (destruct rest; [simpl in Hlen; lia|discriminate]).
    pose proof (app_removelast_last v0 Hrest) as Hsplit. fold (init rest) in Hsplit.
    assert (Hndi : NoDup (init rest)).
    { pose proof Hndr as H0. rewrite Hsplit in H0. apply NoDup_remove_1 in H0. now rewrite app_nil_r in H0. }
    assert (Hlast_notin : ~ In (last rest v0) (init rest)).
    { pose proof Hndr as H0. rewrite Hsplit in H0. apply NoDup_remove_2 in H0. now rewrite app_nil_r in H0. }
    set (first := [(v0, EBin Minus (ENumD d_one) (cdf (EBin Minus x (Node (HBeta tau_name fixed) []))))]) in *.
    destruct (ordered_mid_spec (init rest) (Node (HBeta tau_name fixed) []) first tv Htau Hd Hndi)
      as (mid & ps & tv' & E1 & E2 & E3 & E4 & E5 & E6).
    { intros it Hit [<-|[]]. apply Hv0. rewrite Hsplit. apply in_or_app. now left. }
    destruct (ordered_mid cdf x tau_name (init rest) (Node (HBeta tau_name fixed) []) first) as [acc tl0] eqn:Eo.
    simpl snd in *. injection E1 as ->.
    change (Ok (dset (first ++ mid)%list (last rest v0) (cdf (EBin Minus x tl0))) = Ok D) in E.
    assert (ED : dset (first ++ mid)%list (last rest v0) (cdf (EBin Minus x tl0)) = D) by congruence.
    rewrite <- ED. clear ED E.
    assert (Hfresh : ~ In (last rest v0) (keys (first ++ mid))).
    { unfold keys. rewrite map_app. fold (keys mid). rewrite E3. simpl. intros [Heq|Hin].
      - apply Hv0. rewrite Hsplit. apply in_or_app. right. left. symmetry. exact Heq.
      - tauto. }
    rewrite (dset_fresh _ _ _ Hfresh).
    assert (Hfirst : ev (EBin Minus (ENumD d_one) (cdf (EBin Minus x (Node (HBeta tau_name fixed) []))))
                     = XR (1 - F (xv - tv))).
    { rewrite ev_bin, (cdf_sem _ (xv - tv)) by (rewrite ev_bin, Hx, Htau; reflexivity).
      simpl. now rewrite D2R_one. }
    assert (Hlastv : ev (cdf (EBin Minus x tl0)) = XR (F (xv - tv'))).
    { apply cdf_sem. rewrite ev_bin, Hx, E2. reflexivity. }
    exists ((1 - F (xv - tv)) :: ps ++ [F (xv - tv')]).
    split; [|split; [|split]].
    - unfold keys. rewrite !map_app. fold (keys mid). rewrite E3. simpl. f_equal. symmetry. exact Hsplit.
    - simpl. constructor; [exact Hfirst|]. apply Forall2_app; [assumption|]. constructor; [exact Hlastv|constructor].
    - unfold Rlsum in *. simpl. rewrite Rsum_app, E5. simpl. ring.
    - intros Hpos Hmono Hrange. destruct (E6 Hpos Hmono Hrange) as [_ Hps].
      constructor.
      + unfold in_unit. pose proof (Hrange (xv - tv)) as [R1 R2]. lra.
      + apply Forall_app. split; [assumption|]. constructor; [apply Hrange|constructor].
  Qed.
End Ordered.

(* ------------------------------------------------------------------ the two cdfs *)
Definition logisticF (v : R) : R := 1 / (1 + exp (- (v - 0) / 1)).

Lemma logisticcdf_sem Phi en e v :
  evalX Phi e en = XR v -> evalX Phi (logisticcdf e) en = XR (logisticF v).
Proof.
  intros H. unfold logisticcdf, logisticF.
  rewrite !ev_bin, ev_un_exp, ev_bin, ev_un_uminus, ev_bin, H.
  simpl. rewrite D2R_one, D2R_zero, Rnz_1. simpl.
  assert (Hp : Rnz (1 + exp (- (v - 0) / 1)) = true).
  { apply Rnz_true. pose proof (exp_pos (- (v - 0) / 1)). lra. }
  rewrite Hp. reflexivity.
Qed.

Lemma logisticF_range a : 0 <= logisticF a <= 1.
Proof.
  unfold logisticF. pose proof (exp_pos (- (a - 0) / 1)) as He. split.
  - apply Rle_mult_inv_pos; lra.
  - apply (Rmult_le_reg_r (1 + exp (- (a - 0) / 1))); [lra|].
    unfold Rdiv. rewrite Rmult_assoc, Rinv_l by lra. lra.
Qed.

Lemma logisticF_mono a b : a <= b -> logisticF a <= logisticF b.
Proof.
  intros Hab. unfold logisticF.
  pose proof (exp_pos (- (a - 0) / 1)) as Ha. pose proof (exp_pos (- (b - 0) / 1)) as Hb.
  assert (Hle : exp (- (b - 0) / 1) <= exp (- (a - 0) / 1)).
  { destruct (Req_dec a b) as [->|Hne]; [lra|]. left. apply exp_increasing. lra. }
  unfold Rdiv at 1 3. rewrite !Rmult_1_l. apply Rinv_le_contravar; lra.
Qed.

Lemma normalcdf_sem Phi en e v :
  evalX Phi e en = XR v -> evalX Phi (normalcdf e) en = XR (Phi v).
Proof. intros H. unfold normalcdf. rewrite ev_un_ncdf, H. reflexivity. Qed.
