(* C19 -- full sampling of the nested and cross-nested logit written on a sample of alternatives
   (Model/SamplingMev.v) equals the nested / cross-nested logit on the full choice set
   (Model/BuildersChoice.v, closed forms of Proofs/ChoiceNested.v and Proofs/ChoiceCnl.v). *)
From Coq Require Import Reals Lra Lia List ZArith Bool String Permutation.
From BV Require Import Model.EvalX Model.BuildersChoice Model.PyBase Model.Sampling Model.SamplingMev.
From BV Require Import Proofs.ChoiceBase Proofs.ChoiceLogit Proofs.ChoiceNested Proofs.ChoiceCnl.
From BV Require Proofs.SamplingP Proofs.Builders17P Proofs.BuildersChoiceP.
Import ListNotations.
Open Scope R_scope.

Notation bmem := BuildersChoice.memZ.
Notation bget := BuildersChoice.get.

(* ================================================================== sums *)
Lemma Rsum_perm {A} (f : A -> R) l l' : Permutation l l' -> Rsum f l = Rsum f l'.
Proof. induction 1; simpl; lra. Qed.

Lemma Rsum_filter {A} (p : A -> bool) (f : A -> R) l :
  Rsum (fun x => if p x then f x else 0) l = Rsum f (filter p l).
Proof. induction l as [|x l IH]; simpl; [reflexivity|]. destruct (p x); simpl; lra. Qed.

Lemma Rsum_select (F alts : list Z) (f : Z -> R) :
  NoDup F -> NoDup alts -> incl alts F ->
  Rsum (fun b => if bmem b alts then f b else 0) F = Rsum f alts.
Proof.
  intros HF Ha Hinc. rewrite Rsum_filter. apply Rsum_perm.
  apply NoDup_Permutation; [now apply NoDup_filter | assumption|].
  intros x. rewrite filter_In, ChoiceBase.memZ_In. split; [tauto|]. intros H. split; [now apply Hinc | assumption].
Qed.

Lemma sumexp_Rsum l : sumexp l = Rsum exp l.
Proof. induction l as [|x l IH]; simpl; [reflexivity|]. now rewrite IH. Qed.

Lemma list_eqb_Z_spec a b : list_eqb Z.eqb a b = true <-> a = b.
Proof.
  revert b. induction a as [|x a IH]; intros [|y b]; simpl; try (split; [discriminate | discriminate]); [tauto|].
  rewrite andb_true_iff, Z.eqb_eq, IH. split; [intros [-> ->]; reflexivity | intros [= -> ->]; tauto].
Qed.

(* ================================================================== evaluation of the pieces *)
Section Pieces.
  Variable Phi : R -> R.
  Variable en : env.
  Notation ev e := (evalX Phi e en).
  Notation pvx p := (pvX Phi en p).

  Lemma ev_condsum_nil : ev (ECondSum []) = XR 0.
  Proof. reflexivity. Qed.

  Lemma ev_condsum_cons c t l :
    ev (ECondSum ((c, t) :: l))
    = match ev c with
      | XR x => if Rnz x then lift2 Rplus (ev t) (ev (ECondSum l)) else ev (ECondSum l)
      | _ => XNaN
      end.
  Proof. reflexivity. Qed.

  Lemma Reqb'_IZR a b : Reqb' (IZR a) (IZR b) = (a =? b)%Z.
  Proof.
    destruct (Z.eqb_spec a b) as [->|Hne]; [now apply Reqb'_true|].
    apply Reqb'_false. intros H. apply eq_IZR in H. contradiction.
  Qed.

  Lemma ev_belongs x b alts :
    e_var en x = Some (IZR b) -> ev (belongs (EVar x) alts) = XR (b2R (bmem b alts)).
  Proof.
    intros Hx. unfold belongs, EVar. cbn [evalX map]. rewrite Hx. cbn [of_opt xbelongs]. do 2 f_equal.
    transitivity (bmem b (dedup alts)).
    - unfold BuildersChoice.memZ. induction (dedup alts) as [|a r IH]; simpl; [reflexivity|].
      unfold dyZ at 1. rewrite Builders17P.D2R_ENumI, Reqb'_IZR. now rewrite IH.
    - destruct (bmem b alts) eqn:E.
      + apply ChoiceBase.memZ_In. apply (proj2 (BuildersChoiceP.In_dedup b alts)). now apply ChoiceBase.memZ_In.
      + apply ChoiceBase.memZ_false. intros H. apply (proj1 (BuildersChoiceP.In_dedup b alts)) in H.
        apply (proj1 (ChoiceBase.memZ_false b alts)) in E. contradiction.
  Qed.

  Lemma Rnz_b2R b : Rnz (b2R b) = b.
  Proof. destruct b; simpl; [apply Rnz_1 | apply Rnz_0]. Qed.

  Lemma ev_ne0 x v : e_var en x = Some v -> ev (EBin Ne (EVar x) (ENumD d_zero)) = XR (b2R (Rnz v)).
  Proof.
    intros Hx. unfold EBin, EVar, ENumD. cbn [evalX map]. rewrite Hx. cbn [of_opt xbin lift2].
    rewrite D2R_zero. do 2 f_equal. unfold Reqb', Rnz. destruct (Req_EM_T v 0); reflexivity.
  Qed.

  (* loglogit({j: W_j}, None, 0) *)
  Lemma dict_from_keys : forall ws j, map fst (dict_from j ws) = map fst (avail_from j ws).
  Proof. induction ws as [|w r IH]; intros j; simpl; [reflexivity|]. now rewrite IH. Qed.

  Lemma dict_from_eval : forall ws vs j,
    Forall2 (fun w v => ev w = XR v) ws vs ->
    map (fun k => ev k) (map snd (dict_from j ws)) = map XR vs.
  Proof.
    induction ws as [|w r IH]; intros vs j H; inversion H; subst; simpl; [reflexivity|].
    f_equal; [assumption|]. now apply IH.
  Qed.

  Lemma Forall2_len {A B} (P : A -> B -> Prop) l l' : Forall2 P l l' -> List.length l = List.length l'.
  Proof. induction 1; simpl; congruence. Qed.

  Lemma ev_logit_indexed w0 ws v0 vs :
    Forall2 (fun w v => ev w = XR v) (w0 :: ws) (v0 :: vs) ->
    ev (logit_indexed (w0 :: ws)) = XR (v0 - ln (sumexp (v0 :: vs))).
  Proof.
    intros H. pose proof (Forall2_len _ _ _ H) as Hl.
    unfold logit_indexed, ELogLogit. cbn [evalX].
    cbn [map]. unfold ENumZ at 1. cbn [evalX map]. rewrite SamplingP.D2R_int.
    rewrite map_app, (dict_from_eval _ _ _ H), SamplingP.avail_from_eval, dict_from_keys.
    cbn [avail_from map fst].
    change (IZR 0) with (IZR (Z.of_nat 0)).
    apply SamplingP.xloglogit_all_available.
    rewrite map_length. simpl in Hl. injection Hl as Hl. rewrite <- Hl. clear.
    generalize 1%nat. induction ws as [|u r IH]; intros j; simpl; [reflexivity|]. now rewrite IH.
  Qed.
End Pieces.

(* ================================================================== nested logit on the sample *)
Lemma last_same_none alts : forall nests acc,
  (forall m', In m' nests -> nn_alts m' <> alts) -> last_same alts nests acc = acc.
Proof.
  induction nests as [|x r IH]; intros acc H; simpl; [reflexivity|].
  destruct (list_eqb Z.eqb (nn_alts x) alts) eqn:E.
  - apply list_eqb_Z_spec in E. exfalso. apply (H x); [now left | assumption].
  - apply IH. intros m' Hm'. apply H. now right.
Qed.

Lemma last_same_self : forall nests acc m,
  pairwise_disjoint (map nn_alts nests) = true ->
  (forall m', In m' nests -> nn_alts m' <> []) -> In m nests ->
  last_same (nn_alts m) nests acc = Some m.
Proof.
  induction nests as [|x r IH]; intros acc m Hpd Hne Hin; [destruct Hin|].
  simpl in Hpd. apply andb_true_iff in Hpd as [Hd Hpd]. simpl. destruct Hin as [->|Hin].
  - replace (list_eqb Z.eqb (nn_alts m) (nn_alts m)) with true by (symmetry; now apply list_eqb_Z_spec).
    apply last_same_none. intros m' Hm' E.
    rewrite forallb_forall in Hd. specialize (Hd (nn_alts m') (in_map nn_alts r m' Hm')).
    destruct (nn_alts m) as [|z l] eqn:Em; [apply (Hne m); [now left | assumption]|].
    apply (disjointZ_spec _ _ z Hd); [now left|]. rewrite E. now left.
  - apply IH; [assumption | intros m' Hm'; apply Hne; now right | assumption].
Qed.

Lemma Rsum_find_disjoint (a : Z) (g : nnest -> R) : forall l,
  pairwise_disjoint (map nn_alts l) = true ->
  Rsum (fun m => if bmem a (nn_alts m) then g m else 0) l
  = match find (fun m => bmem a (nn_alts m)) l with Some m => g m | None => 0 end.
Proof.
  induction l as [|x r IH]; simpl; intros H; [reflexivity|].
  apply andb_true_iff in H as [Hd Hpd]. destruct (bmem a (nn_alts x)) eqn:E.
  - rewrite Rsum_zero; [ring|]. intros m' Hm'.
    replace (bmem a (nn_alts m')) with false; [reflexivity|]. symmetry. apply ChoiceBase.memZ_false.
    rewrite forallb_forall in Hd. specialize (Hd (nn_alts m') (in_map nn_alts r m' Hm')).
    apply (disjointZ_spec _ _ a Hd). now apply ChoiceBase.memZ_In.
  - rewrite IH by assumption. ring.
Qed.

Section SampledNested.
  Variable Phi : R -> R.
  Variable en : env.
  Notation ev e := (evalX Phi e en).
  Notation pvx p := (pvX Phi en p).
  Variable Vf : Z -> R.
  Variables pre idcol : string.
  Let one : Z -> R := fun _ => 1.

  Lemma nsum_one mu alts : nsum one Vf mu alts = Rsum (fun b => exp (mu * Vf b)) alts.
  Proof. unfold nsum, one. apply Rsum_ext. intros j _. now rewrite Rnz_1. Qed.

  (* the MEV sum of a nest over the MEV sample (weights 1) *)
  Lemma ev_sn_mev_sum m mu : forall B ws ums j0,
    sample_holds Phi en Vf pre idcol mev_weight_col j0 B ws ums ->
    Forall (fun w => w = 1) ws ->
    pvx (nn_param m) = XR mu ->
    ev (sn_mev_sum pre idcol j0 ums m)
    = XR (Rsum (fun b => if bmem b (nn_alts m) then exp (mu * Vf b) else 0) B).
  Proof.
    induction B as [|b B IH]; intros [|w ws] [|u ums] j0 H Hw Hmu; simpl in H; try contradiction.
    - reflexivity.
    - destruct H as (Hu & Hid & Hwj & Hr). inversion Hw as [|? ? Hw1 Hws]; subst.
      pose proof (IH ws ums (S j0) Hr Hws Hmu) as IH'. unfold sn_mev_sum, indexed in IH'.
      unfold sn_mev_sum, indexed. cbn [List.length seq combine map fst snd].
      rewrite ev_condsum_cons, (ev_belongs Phi en _ b _ Hid), Rnz_b2R, IH'.
      cbn [Rsum]. destruct (bmem b (nn_alts m)).
      + rewrite ev_bin, ev_un_exp.
        change (ev (to_e (pmul (nn_param m) (PE u)))) with (pvx (pmul (nn_param m) (PE u))).
        rewrite (pvX_pmul_PE Phi en _ u mu (Vf b) Hmu Hu).
        unfold EVar. cbn [evalX map]. rewrite Hwj. simpl. f_equal. ring.
      + f_equal. ring.
  Qed.

  Variable nests : list nnest.
  Hypothesis Hpd : pairwise_disjoint (map nn_alts nests) = true.
  Hypothesis Hne : forall m, In m nests -> nn_alts m <> [].
  Hypothesis Hok : nests_ok Phi en nests.
  (* F: the alternatives of the MEV sample (a permutation of the full set of the MEV partition) *)
  Variable F : list Z.
  Hypothesis Hinc : forall m, In m nests -> incl (nn_alts m) F.

  Variables (B : list Z) (ws : list R) (ums : list expr) (j0 : nat).
  Hypothesis HB : sample_holds Phi en Vf pre idcol mev_weight_col j0 B ws ums.
  Hypothesis Hws : Forall (fun w => w = 1) ws.
  Hypothesis HBF : Permutation B F.

  (* the MEV sum of a nest on the sample: every alternative of F that belongs to the nest counts ONCE *)
  Definition ssum (mu : R) (alts : list Z) : R :=
    Rsum (fun b => if bmem b alts then exp (mu * Vf b) else 0) F.

  Lemma ssum_pos mu alts a : In a alts -> In a F -> 0 < ssum mu alts.
  Proof.
    intros Ha HaF. unfold ssum. apply (Rsum_pos _ F a); [|assumption|].
    - intros y _. destruct (bmem y alts); [left; apply exp_pos | lra].
    - replace (bmem a alts) with true by (symmetry; now apply ChoiceBase.memZ_In). apply exp_pos.
  Qed.

  Lemma ssum_nsum mu alts : NoDup F -> NoDup alts -> incl alts F -> ssum mu alts = nsum one Vf mu alts.
  Proof. intros HF H1 H2. unfold ssum. rewrite nsum_one. now apply Rsum_select. Qed.

  Lemma ev_sn_sum_of m mu :
    In m nests -> pvx (nn_param m) = XR mu ->
    ev (sn_sum_of pre idcol j0 ums nests m) = XR (ssum mu (nn_alts m)).
  Proof.
    intros Hm Hmu. unfold sn_sum_of. rewrite (last_same_self nests None m Hpd Hne Hm).
    rewrite (ev_sn_mev_sum m mu B ws ums j0 HB Hws Hmu). f_equal. apply (Rsum_perm _ _ _ HBF).
  Qed.

  (* ln G of alternative a on the sample, as the sum over the nests *)
  Definition gsum (a : Z) : R :=
    Rsum (fun m => if bmem a (nn_alts m)
                   then c1_of Phi en (nn_param m) * Vf a
                        + c2_of Phi en (nn_param m) * ln (ssum (muR Phi en (nn_param m)) (nn_alts m))
                   else 0) nests.
  Definition hsample (a : Z) : R := Vf a + gsum a.

  Lemma ev_sn_term j u a :
    ev u = XR (Vf a) -> e_var en (colname "" idcol j) = Some (IZR a) ->
    ev (sn_term pre idcol j0 ums nests j u) = XR (gsum a).
  Proof.
    intros Hu Hid. unfold sn_term, gsum.
    rewrite (ev_condsum Phi en
               (fun m => belongs (EVar (colname "" idcol j)) (nn_alts m))
               (fun m => to_e (padd (pmul (psub (nn_param m) p_one) (PE u))
                                    (pmul (psub (pdiv p_one (nn_param m)) p_one)
                                          (PE (EUn Log (sn_sum_of pre idcol j0 ums nests m))))))
               (fun m => b2R (bmem a (nn_alts m)))
               (fun m => c1_of Phi en (nn_param m) * Vf a
                         + c2_of Phi en (nn_param m) * ln (ssum (muR Phi en (nn_param m)) (nn_alts m)))).
    - f_equal. apply Rsum_ext. intros m _. now rewrite Rnz_b2R.
    - intros m _. now apply ev_belongs.
    - intros m Hm Hc. destruct (bmem a (nn_alts m)) eqn:E; [|simpl in Hc; lra].
      apply ChoiceBase.memZ_In in E.
      destruct (Hok m Hm) as (mu & Hmu & Hnz).
      assert (Hmu' : muR Phi en (nn_param m) = mu) by (unfold muR; now rewrite Hmu). rewrite Hmu'.
      pose proof (ev_sn_sum_of m mu Hm Hmu) as Hs.
      pose proof (ssum_pos mu (nn_alts m) a E (Hinc m Hm a E)) as Hpos.
      assert (Hlog : ev (EUn Log (sn_sum_of pre idcol j0 ums nests m)) = XR (ln (ssum mu (nn_alts m)))).
      { rewrite ev_un_log, Hs. simpl. now rewrite Rltb'_true. }
      rewrite pmul_PE_r with (a := psub (pdiv p_one (nn_param m)) p_one).
      apply (pvX_padd_PE Phi en).
      + apply pvX_pmul_PE; [now apply (c1_def Phi en _ mu) | assumption].
      + rewrite ev_bin.
        change (ev (to_e (psub (pdiv p_one (nn_param m)) p_one))) with (pvx (psub (pdiv p_one (nn_param m)) p_one)).
        rewrite (c2_def Phi en _ mu Hmu Hnz), Hlog. reflexivity.
  Qed.

  (* the corrected utilities of the first sample (corrections 0) *)
  Lemma corrected_values : forall A cs us j,
    sample_holds Phi en Vf "" idcol log_proba_col j A cs us ->
    Forall (fun c => c = 0) cs ->
    Forall2 (fun w v => ev w = XR v)
      (map (fun ju : nat * expr =>
              EBin Plus (EBin Minus (snd ju) (EVar (colname "" log_proba_col (fst ju))))
                        (sn_term pre idcol j0 ums nests (fst ju) (snd ju))) (indexed j us))
      (map hsample A).
  Proof.
    induction A as [|a A IH]; intros [|c cs] [|u us] j H Hc; simpl in H; try contradiction.
    - constructor.
    - destruct H as (Hu & Hid & Hlp & Hr).
      pose proof (Forall_inv Hc) as Hc1. pose proof (Forall_inv_tail Hc) as Hcs. simpl in Hc1.
      unfold indexed. cbn [List.length seq combine map fst snd]. constructor.
      + rewrite !ev_bin, Hu, (ev_sn_term j u a Hu Hid). unfold hsample.
        unfold EVar. cbn [evalX map]. rewrite Hlp, Hc1. simpl. f_equal. ring.
      + apply (IH cs us (S j) Hr Hcs).
  Qed.

  (* when no nest repeats an alternative the sample sums are the sums of nested.py *)
  Lemma hsample_hnl n a :
    NoDup F -> (forall m, In m nests -> NoDup (nn_alts m)) -> nl_list n = nests ->
    hsample a = hnl Phi en one Vf n a.
  Proof.
    intros HF Hnd Hn. unfold hsample. rewrite hnl_gnl. f_equal.
    unfold gsum, gnl, find_nest. rewrite Hn, <- (Rsum_find_disjoint a _ nests Hpd).
    apply Rsum_ext. intros m Hm. destruct (bmem a (nn_alts m)); [|reflexivity].
    now rewrite (ssum_nsum _ _ HF (Hnd m Hm) (Hinc m Hm)).
  Qed.
End SampledNested.

(* ================================================================== facts about full sampling *)
Lemma full_weight_one strata r :
  wf_strata strata -> fully_sampled strata -> row_ok strata r -> row_weight r = 1.
Proof.
  intros [_ Hf] Hfull (sub & k & Hs & _ & Hc).
  rewrite Forall_forall in Hf. specialize (Hf _ Hs). simpl in Hf.
  unfold fully_sampled in Hfull. rewrite Forall_forall in Hfull. specialize (Hfull _ Hs). simpl in Hfull.
  unfold row_weight. destruct (snd r) as [[k' n']|]; [|destruct Hc].
  destruct Hc as (_ & _ & _ & E). rewrite E. unfold weight_value. simpl. subst k.
  field. apply Rgt_not_eq. apply (IZR_lt 0). lia.
Qed.

Lemma all_corr_zero strata rows :
  wf_strata strata -> fully_sampled strata -> Forall (row_ok strata) rows ->
  Forall (fun c => c = 0) (map row_corr rows).
Proof.
  intros Hwf Hfull H. apply Forall_forall. intros x Hx. apply in_map_iff in Hx as (r & <- & Hr).
  rewrite Forall_forall in H. eapply SamplingP.full_corr_zero; eauto.
Qed.

Lemma all_weight_one strata rows :
  wf_strata strata -> fully_sampled strata -> Forall (row_ok strata) rows ->
  Forall (fun w => w = 1) (map row_weight rows).
Proof.
  intros Hwf Hfull H. apply Forall_forall. intros x Hx. apply in_map_iff in Hx as (r & <- & Hr).
  rewrite Forall_forall in H. eapply full_weight_one; eauto.
Qed.

Lemma den_one_perm (h : Z -> R) A ks :
  Permutation A ks -> sumexp (map h A) = den (fun _ => 1) h ks.
Proof.
  intros HP. rewrite sumexp_Rsum, Rsum_map, (Rsum_perm _ _ _ HP). unfold den.
  apply Rsum_ext. intros k _. now rewrite Rnz_1.
Qed.

Lemma nl_guard_inv2 util av n zd :
  nl_guard util av n zd = Ok tt ->
  pairwise_disjoint (map nn_alts (nl_list n)) = true /\ (forall m, In m (nl_list n) -> nn_alts m <> []).
Proof.
  unfold nl_guard. destruct (check_partition n) eqn:E1; [|discriminate].
  destruct (forallb _ (nl_list n)) eqn:E2; [|discriminate]. intros _.
  unfold check_partition, check_intersection in E1. rewrite !andb_true_iff in E1. split; [tauto|].
  intros m Hm E. rewrite forallb_forall in E2. specialize (E2 m Hm). rewrite E in E2. discriminate.
Qed.

(* ================================================================== T19g: nested logit *)
(* closed form of the nested logit on the sample (both partitions sampled completely); no hypothesis on
   repetitions inside a nest: a nest counts as the SET of its alternatives *)
Theorem sampled_nested_value Phi en Vf strata mev c rows mrows idcol pre us j0 ums (nests : list nnest) t :
  wf_strata strata -> fully_sampled strata -> valid_sample strata c rows ->
  wf_strata mev -> fully_sampled mev -> valid_mev_sample mev mrows ->
  pairwise_disjoint (map nn_alts nests) = true -> (forall m, In m nests -> nn_alts m <> []) ->
  nests_ok Phi en nests ->
  (forall m, In m nests -> incl (nn_alts m) (full_set mev)) ->
  sample_holds Phi en Vf "" idcol log_proba_col 0 (ids rows) (map row_corr rows) us ->
  sample_holds Phi en Vf pre idcol mev_weight_col j0 (ids mrows) (map row_weight mrows) ums ->
  get_nested_logit pre idcol us j0 ums nests = Ok t ->
  let h := hsample Phi en Vf nests (full_set mev) in
  evalX Phi t en = XR (h c - ln (sumexp (map h (ids rows)))).
Proof.
  intros Hwf Hfull Hv Hwfm Hfullm Hvm Hpd Hne Hok Hinc Hs1 Hs2 Et h.
  destruct Hv as [(o & rest & Erows) Hvm1].
  pose proof (SamplingP.full_sample_permutation _ _ Hwfm Hfullm Hvm) as HPB.
  destruct Hvm1 as (_ & _ & Hrows). destruct Hvm as (_ & _ & Hmrows).
  unfold get_nested_logit in Et.
  destruct (negb (is_nil nests) && negb (is_nil ums) && negb (is_nil us)
            && negb (zd_plain (map nn_param nests))); [|discriminate].
  injection Et as <-.
  pose proof (corrected_values Phi en Vf pre idcol nests Hpd Hne Hok (full_set mev) Hinc
                (ids mrows) (map row_weight mrows) ums j0 Hs2
                (all_weight_one _ _ Hwfm Hfullm Hmrows) HPB
                (ids rows) (map row_corr rows) us 0%nat Hs1 (all_corr_zero _ _ Hwf Hfull Hrows)) as HF2.
  fold (corrected_plus (sn_term pre idcol j0 ums nests) us) in HF2.
  assert (Hids : ids rows = c :: ids rest) by (rewrite Erows; reflexivity).
  fold h in HF2. rewrite Hids in HF2 |- *. cbn [map] in HF2 |- *.
  destruct (corrected_plus (sn_term pre idcol j0 ums nests) us) as [|w0 ws] eqn:Ecp; [inversion HF2|].
  exact (ev_logit_indexed Phi en w0 ws _ _ HF2).
Qed.

Theorem full_sampling_nested Phi en Vf (U : dict expr) (a : nn_arg)
        strata mev c rows mrows idcol pre us j0 ums ch l t :
  wf_strata strata -> fully_sampled strata -> valid_sample strata c rows ->
  wf_strata mev -> fully_sampled mev -> valid_mev_sample mev mrows ->
  Permutation (keys U) (full_set strata) ->
  (forall k e, In (k, e) U -> evalX Phi e en = XR (Vf k)) ->
  nests_ok Phi en (nn_arg_nests a) ->
  (forall m, In m (nn_arg_nests a) -> incl (nn_alts m) (full_set mev)) ->
  sample_holds Phi en Vf "" idcol log_proba_col 0 (ids rows) (map row_corr rows) us ->
  sample_holds Phi en Vf pre idcol mev_weight_col j0 (ids mrows) (map row_weight mrows) ums ->
  pvX Phi en ch = XR (IZR c) ->
  lognested (pe_dict U) None a ch = Ok l ->
  get_nested_logit pre idcol us j0 ums (nn_arg_nests a) = Ok t ->
  evalX Phi t en = evalX Phi l en.
Proof.
  intros Hwf Hfull Hv Hwfm Hfullm Hvm HP HU Hok Hinc0 Hs1 Hs2 Hch El Et.
  assert (Hnd : forall m, In m (nn_arg_nests a) -> NoDup (nn_alts m) /\ incl (nn_alts m) (full_set mev))
    by (intros m Hm; split; [exact (lognested_ok_nodup _ _ _ _ _ El m Hm) | exact (Hinc0 m Hm)]).
  set (one := fun _ : Z => 1).
  assert (Hav : av_ok Phi en None one) by (intros k; reflexivity).
  destruct (lognested_value Phi en U None one Vf Hav (fun k e H _ => HU k e H) a ch l I Hok El)
    as (n & zd & En & Eg & Hall).
  pose proof (nl_make_list _ _ _ En) as Hn.
  destruct (nl_guard_inv2 _ _ _ _ Eg) as [Hpd Hne]. rewrite Hn in Hpd, Hne.
  rewrite (sampled_nested_value Phi en Vf strata mev c rows mrows idcol pre us j0 ums (nn_arg_nests a) t
             Hwf Hfull Hv Hwfm Hfullm Hvm Hpd Hne Hok (fun m Hm => proj2 (Hnd m Hm)) Hs1 Hs2 Et).
  destruct Hv as [(o & rest & Erows) Hvm1].
  pose proof (SamplingP.full_sample_permutation _ _ Hwf Hfull Hvm1) as HPA.
  assert (Hc : In c (keys U)).
  { apply (Permutation_in c (Permutation_sym HP)), (Permutation_in c HPA). rewrite Erows. now left. }
  destruct (Hall c ch Hc Hch) as (l' & El' & _ & Hl' & _). rewrite El in El'. injection El' as <-.
  rewrite Hl'. unfold one at 1. rewrite Rnz_1.
  assert (Hh : forall x, hsample Phi en Vf (nn_arg_nests a) (full_set mev) x = hnl Phi en one Vf n x).
  { intros x. apply (hsample_hnl Phi en Vf (nn_arg_nests a) Hpd (full_set mev) (fun m Hm => proj2 (Hnd m Hm)) n x
                       (proj1 Hwfm) (fun m Hm => proj1 (Hnd m Hm)) Hn). }
  rewrite Hh, (map_ext _ _ Hh). f_equal. f_equal. f_equal. subst one.
  apply den_one_perm. apply (Permutation_trans HPA (Permutation_sym HP)).
Qed.

(* ================================================================== cross-nested logit on the sample *)
Lemma Rsum_pick_Z (l : list Z) i (v : R) :
  NoDup l -> In i l -> Rsum (fun j => if (j =? i)%Z then v else 0) l = v.
Proof.
  induction l as [|a l IH]; simpl; [tauto|]. intros Hn Hi. inversion Hn as [|? ? Hna Hn']; subst.
  destruct (Z.eqb_spec a i) as [->|Hne].
  - rewrite Rsum_zero; [ring|]. intros j Hj. destruct (Z.eqb_spec j i) as [->|]; [tauto|reflexivity].
  - rewrite IH; [ring|assumption|]. destruct Hi; [congruence|assumption].
Qed.

Lemma Rsum_get {A} (G : Z -> A -> R) (F : list Z) : forall d : dict A,
  NoDup (keys d) -> NoDup F -> incl (keys d) F ->
  Rsum (fun b => match bget d b with Some p => G b p | None => 0 end) F
  = Rsum (fun kp => G (fst kp) (snd kp)) d.
Proof.
  induction d as [|[k p] d IH]; intros Hd HF Hinc.
  - simpl. apply Rsum_zero. reflexivity.
  - simpl in Hd. inversion Hd as [|? ? Hk Hd']; subst.
    assert (Hkd : bget d k = None) by (apply get_None; assumption).
    rewrite (Rsum_ext _ (fun b => (if (b =? k)%Z then G k p else 0)
                                  + match bget d b with Some q => G b q | None => 0 end)).
    + rewrite Rsum_plus, Rsum_pick_Z; [|assumption|apply Hinc; now left].
      rewrite IH; [reflexivity | assumption | assumption | intros x Hx; apply Hinc; now right].
    + intros b _. simpl. destruct (Z.eqb_spec b k) as [->|Hne]; [rewrite Hkd; ring | ring].
Qed.

Lemma last_named_none name : forall nests acc,
  ~ In name (map fst nests) -> last_named name nests acc = acc.
Proof.
  induction nests as [|x r IH]; intros acc H; simpl; [reflexivity|].
  destruct (String.eqb_spec (fst x) name) as [E|E].
  - exfalso. apply H. left. exact E.
  - apply IH. intros Hc. apply H. now right.
Qed.

Lemma last_named_self : forall (nests : list ncnest) acc nm,
  NoDup (map fst nests) -> In nm nests -> last_named (fst nm) nests acc = Some nm.
Proof.
  induction nests as [|x r IH]; intros acc nm Hnd Hin; [destruct Hin|].
  simpl in Hnd. inversion Hnd as [|? ? Hx Hr]; subst. simpl. destruct Hin as [->|Hin].
  - rewrite String.eqb_refl. now apply last_named_none.
  - now apply IH.
Qed.

Lemma cn_make_alone util a n :
  cn_make util a = Ok n ->
  forall i, bmem i (cn_alone n) = true -> forall m, In m (cn_list n) -> bget (cn_alpha m) i = None.
Proof.
  intros H i Hi m Hm.
  assert (Hal : exists cs, nests_init cs (map (fun n => keys (cn_alpha n)) (cn_list n)) = Ok (cn_alone n)).
  { destruct a; simpl in H; apply bind_Ok in H as (al & Hal & [= <-]); simpl; eauto. }
  destruct Hal as (cs & Hal). unfold nests_init in Hal.
  destruct (subsetZ _ cs); [|discriminate]. injection Hal as Hal.
  apply ChoiceBase.memZ_In in Hi. rewrite <- Hal in Hi. apply filter_In in Hi as [_ Hi].
  apply negb_true_iff, ChoiceBase.memZ_false in Hi. apply get_None. intros Hk. apply Hi.
  apply in_concat. exists (keys (cn_alpha m)). split; [|assumption].
  apply (in_map (fun n0 => keys (cn_alpha n0))). assumption.
Qed.

Section SampledCnl.
  Variable Phi : R -> R.
  Variable en : env.
  Notation ev e := (evalX Phi e en).
  Notation pvx p := (pvX Phi en p).
  Variable Vf : Z -> R.
  Variables pre idcol : string.
  Let one : Z -> R := fun _ => 1.

  (* the value of alpha(nest, alternative): 0 outside the nest *)
  Definition alpha_of (nm : ncnest) (k : Z) : R :=
    match bget (cn_alpha (snd nm)) k with Some p => alR Phi en p | None => 0 end.

  Lemma alpha_of_some nm k p :
    cnest_ok Phi en (snd nm) -> bget (cn_alpha (snd nm)) k = Some p ->
    alpha_of nm k = alR Phi en p /\ pvx p = XR (alR Phi en p) /\ 0 < alR Phi en p.
  Proof.
    intros [_ Hal] Hg. unfold alpha_of. rewrite Hg. split; [reflexivity|].
    destruct (Hal k p (get_In _ _ _ Hg)) as (a & Hp & Hpos). unfold alR. rewrite Hp. simpl. split; [reflexivity | assumption].
  Qed.

  Variable nests : list ncnest.
  Hypothesis Hnames : NoDup (map fst nests).
  Hypothesis Hok : cnests_ok Phi en (map snd nests).
  Hypothesis Hex : cnests_exact (map snd nests).

  Lemma nm_ok nm : In nm nests -> cnest_ok Phi en (snd nm).
  Proof. intros H. apply Hok. now apply in_map. Qed.

  (* the MEV sum of a nest over the MEV sample (weights 1) *)
  Lemma ev_sc_mev_sum nm mu : In nm nests -> pvx (cn_param (snd nm)) = XR mu ->
    forall B ws ums j0,
    sample_holds Phi en Vf pre idcol mev_weight_col j0 B ws ums ->
    Forall (fun w => w = 1) ws ->
    alphas_hold en alpha_of pre nests j0 B ->
    ev (sc_mev_sum pre j0 ums nm)
    = XR (Rsum (fun b => match bget (cn_alpha (snd nm)) b with
                         | Some p => Rpower (alR Phi en p) mu * exp (mu * Vf b)
                         | None => 0
                         end) B).
  Proof.
    intros Hnm Hmu.
    induction B as [|b B IH]; intros [|w ws] [|u ums] j0 H Hw Ha; simpl in H; try contradiction.
    - reflexivity.
    - destruct H as (Hu & Hid & Hwj & Hr). destruct Ha as [Ha Har].
      pose proof (Forall_inv Hw) as Hw1. pose proof (Forall_inv_tail Hw) as Hws. simpl in Hw1.
      pose proof (IH ws ums (S j0) Hr Hws Har) as IH'. unfold sc_mev_sum, indexed in IH'.
      unfold sc_mev_sum, indexed. cbn [List.length seq combine map fst snd].
      rewrite ev_condsum_cons, (ev_ne0 Phi en _ _ (Ha nm Hnm)), Rnz_b2R, IH'.
      cbn [Rsum]. destruct (bget (cn_alpha (snd nm)) b) as [p|] eqn:Eg.
      + destruct (alpha_of_some nm b p (nm_ok nm Hnm) Eg) as (E1 & E2 & E3).
        rewrite E1. replace (Rnz (alR Phi en p)) with true by (symmetry; apply Rnz_true; lra).
        rewrite !ev_bin, ev_un_exp.
        change (ev (to_e (pmul (cn_param (snd nm)) (PE u)))) with (pvx (pmul (cn_param (snd nm)) (PE u))).
        rewrite (pvX_pmul_PE Phi en _ u mu (Vf b) Hmu Hu).
        rewrite (ev_epow Phi en (EVar (colname pre (cnl_col (fst nm)) j0)) (cn_param (snd nm)) (alR Phi en p) mu);
          [| unfold EVar; cbn [evalX map]; rewrite (Ha nm Hnm), E1; reflexivity | assumption | assumption].
        unfold EVar. cbn [evalX map]. rewrite Hwj, Hw1. simpl. f_equal. ring.
      + unfold alpha_of at 1. rewrite Eg, Rnz_0. f_equal. ring.
  Qed.

  Variable F : list Z.
  Hypothesis HF : NoDup F.
  Hypothesis Hnd : forall nm, In nm nests ->
                     NoDup (keys (cn_alpha (snd nm))) /\ incl (keys (cn_alpha (snd nm))) F.

  Variables (B : list Z) (ws : list R) (ums : list expr) (j0 : nat).
  Hypothesis HB : sample_holds Phi en Vf pre idcol mev_weight_col j0 B ws ums.
  Hypothesis Hws : Forall (fun w => w = 1) ws.
  Hypothesis HBa : alphas_hold en alpha_of pre nests j0 B.
  Hypothesis HBF : Permutation B F.

  Lemma ev_sc_sum_of nm mu :
    In nm nests -> pvx (cn_param (snd nm)) = XR mu ->
    ev (sc_sum_of pre j0 ums nests nm) = XR (bsum one Vf mu mu (alphasR Phi en (snd nm))).
  Proof.
    intros Hnm Hmu. unfold sc_sum_of. rewrite (last_named_self nests None nm Hnames Hnm).
    rewrite (ev_sc_mev_sum nm mu Hnm Hmu B ws ums j0 HB Hws HBa). f_equal.
    rewrite (Rsum_perm _ _ _ HBF). destruct (Hnd nm Hnm) as [H1 H2].
    rewrite (Rsum_get (fun b p => Rpower (alR Phi en p) mu * exp (mu * Vf b)) F _ H1 HF H2).
    unfold bsum, alphasR. rewrite Rsum_map. apply Rsum_ext. intros [k p] _. unfold one. simpl. ring.
  Qed.

  Lemma c2_em m mu :
    In m (map snd nests) -> pvx (cn_param m) = XR mu -> mu <> 0 ->
    c2_of Phi en (cn_param m) = em_of Phi en (cn_param m).
  Proof.
    intros Hm Hmu Hnz.
    rewrite (c2_exact Phi en _ mu (Hex m Hm) Hmu Hnz), (em_exact Phi en _ mu (Hex m Hm) Hmu Hnz).
    field. assumption.
  Qed.

  (* the argument of logzero for the alternative a at position j *)
  Lemma ev_sc_inner j u a :
    ev u = XR (Vf a) ->
    (forall nm, In nm nests -> e_var en (colname "" (cnl_col (fst nm)) j) = Some (alpha_of nm a)) ->
    ev (ECondSum (map (fun nm : ncnest =>
                         let m := snd nm in
                         let alpha := EVar (colname "" (cnl_col (fst nm)) j) in
                         (EBin Ne alpha (ENumD d_zero),
                          EBin Times
                            (EBin Times (epow alpha (cn_param m))
                                        (EUn Exp (to_e (pmul (psub (cn_param m) p_one) (PE u)))))
                            (epow (sc_sum_of pre j0 ums nests nm) (psub (pdiv p_one (cn_param m)) p_one))))
                      nests))
    = XR (Gsum Phi en one Vf (map snd nests) a).
  Proof.
    intros Hu Ha.
    rewrite (ev_condsum Phi en
               (fun nm : ncnest => EBin Ne (EVar (colname "" (cnl_col (fst nm)) j)) (ENumD d_zero))
               (fun nm : ncnest =>
                  EBin Times
                    (EBin Times (epow (EVar (colname "" (cnl_col (fst nm)) j)) (cn_param (snd nm)))
                                (EUn Exp (to_e (pmul (psub (cn_param (snd nm)) p_one) (PE u)))))
                    (epow (sc_sum_of pre j0 ums nests nm) (psub (pdiv p_one (cn_param (snd nm))) p_one)))
               (fun nm => b2R (Rnz (alpha_of nm a)))
               (fun nm => cterm Phi en one Vf (snd nm) a (alpha_of nm a))).
    - f_equal. unfold Gsum. rewrite Rsum_map. apply Rsum_ext. intros nm Hnm. rewrite Rnz_b2R.
      destruct (bget (cn_alpha (snd nm)) a) as [p|] eqn:Eg.
      + destruct (alpha_of_some nm a p (nm_ok nm Hnm) Eg) as (E1 & _ & E3). rewrite E1.
        now replace (Rnz (alR Phi en p)) with true by (symmetry; apply Rnz_true; lra).
      + unfold alpha_of. rewrite Eg, Rnz_0. reflexivity.
    - intros nm Hnm. now apply ev_ne0, Ha.
    - intros nm Hnm Hc. rewrite Rnz_b2R_Rnz in Hc || idtac.
      destruct (bget (cn_alpha (snd nm)) a) as [p|] eqn:Eg;
        [|exfalso; apply Hc; unfold alpha_of; rewrite Eg, Rnz_0; reflexivity].
      destruct (alpha_of_some nm a p (nm_ok nm Hnm) Eg) as (E1 & E2 & E3).
      destruct (nm_ok nm Hnm) as [(mu & Hmu & Hnz) _].
      assert (Hmu' : muR Phi en (cn_param (snd nm)) = mu) by (unfold muR; now rewrite Hmu).
      pose proof (ev_sc_sum_of nm mu Hnm Hmu) as HS.
      assert (HSpos : 0 < bsum one Vf mu mu (alphasR Phi en (snd nm))).
      { apply (bsum_pos one Vf mu mu _ a (alR Phi en p)); [intros; unfold one; lra| |unfold one; lra].
        unfold alphasR. apply (in_map (fun jp => (fst jp, alR Phi en (snd jp))) _ (a, p)).
        now apply get_In. }
      unfold cterm. rewrite Hmu', E1.
      rewrite <- (c2_em (snd nm) mu (in_map snd _ _ Hnm) Hmu Hnz).
      rewrite !ev_bin.
      rewrite (ev_epow Phi en (EVar (colname "" (cnl_col (fst nm)) j)) (cn_param (snd nm)) (alR Phi en p) mu);
        [| unfold EVar; cbn [evalX map]; rewrite (Ha nm Hnm), E1; reflexivity | assumption | assumption].
      rewrite (ev_epow Phi en _ _ _ (c2_of Phi en (cn_param (snd nm))) HS HSpos (c2_def Phi en _ mu Hmu Hnz)).
      rewrite ev_un_exp.
      change (ev (to_e (pmul ?x (PE u)))) with (pvx (pmul x (PE u))).
      rewrite (pvX_pmul_PE Phi en _ u _ (Vf a) (c1_def Phi en _ mu Hmu) Hu). reflexivity.
  Qed.

  (* an alternative of the choice set is either alone (in no nest) or in at least one nest *)
  Definition cn_placed (n : cn_nests) (a : Z) : Prop :=
    (bmem a (cn_alone n) = true /\ forall m, In m (cn_list n) -> bget (cn_alpha m) a = None) \/
    (bmem a (cn_alone n) = false /\ exists m p, In m (cn_list n) /\ bget (cn_alpha m) a = Some p).

  Lemma ev_sc_term n j u a :
    cn_list n = map snd nests -> cn_placed n a ->
    ev u = XR (Vf a) ->
    (forall nm, In nm nests -> e_var en (colname "" (cnl_col (fst nm)) j) = Some (alpha_of nm a)) ->
    ev (sc_term pre j0 ums nests j u) = XR (hcn Phi en one Vf n a - Vf a).
  Proof.
    intros Hn Hpl Hu Ha. pose proof (ev_sc_inner j u a Hu Ha) as Hin.
    unfold sc_term. rewrite ev_un_logzero. cbv zeta in Hin |- *. rewrite Hin. clear Hin.
    unfold hcn. rewrite <- Hn. destruct Hpl as [[E Hnone] | [E (m & p & Hm & Hg)]]; rewrite E.
    - replace (Gsum Phi en one Vf (cn_list n) a) with 0.
      + simpl. rewrite Rnz_0. f_equal. ring.
      + symmetry. unfold Gsum. apply Rsum_zero. intros m Hm. now rewrite (Hnone m Hm).
    - pose proof (Gsum_pos Phi en one Vf (cn_list n) a m p Hm Hg) as Hpos. simpl.
      replace (Rnz (Gsum Phi en one Vf (cn_list n) a)) with true by (symmetry; apply Rnz_true; lra).
      rewrite Rltb'_true by assumption. f_equal. ring.
  Qed.

  Lemma corrected_values_cnl n : cn_list n = map snd nests -> forall A cs us j,
    sample_holds Phi en Vf "" idcol log_proba_col j A cs us ->
    Forall (fun c => c = 0) cs ->
    alphas_hold en alpha_of "" nests j A ->
    (forall a, In a A -> cn_placed n a) ->
    Forall2 (fun w v => ev w = XR v)
      (map (fun ju : nat * expr =>
              EBin Plus (EBin Minus (snd ju) (EVar (colname "" log_proba_col (fst ju))))
                        (sc_term pre j0 ums nests (fst ju) (snd ju))) (indexed j us))
      (map (hcn Phi en one Vf n) A).
  Proof.
    intros Hn. induction A as [|a A IH]; intros [|c cs] [|u us] j H Hc Hal Hpl; simpl in H; try contradiction.
    - constructor.
    - destruct H as (Hu & Hid & Hlp & Hr). destruct Hal as [Ha Har].
      pose proof (Forall_inv Hc) as Hc1. pose proof (Forall_inv_tail Hc) as Hcs. simpl in Hc1.
      unfold indexed. cbn [List.length seq combine map fst snd]. constructor.
      + rewrite !ev_bin, Hu, (ev_sc_term n j u a Hn (Hpl a (or_introl eq_refl)) Hu Ha).
        unfold EVar. cbn [evalX map]. rewrite Hlp, Hc1. simpl. f_equal. ring.
      + apply (IH cs us (S j) Hr Hcs Har). intros x Hx. apply Hpl. now right.
  Qed.
End SampledCnl.

(* every alternative of the choice set is placed when logcnl succeeds *)
Lemma logcnl_placed (U : dict expr) a ch l :
  logcnl (pe_dict U) None a ch = Ok l ->
  exists n, cn_make (pe_dict U) a = Ok n /\ forall i, In i (keys U) -> cn_placed n i.
Proof.
  intros El. destruct (logcnl_inv _ _ _ _ _ El) as (n & H & En & _ & EH & _).
  exists n. split; [assumption|]. intros i Hi.
  destruct (mev_h_inv _ _ _ EH) as [Hk Hh].
  assert (HiH : In i (keys H)) by (rewrite Hk; unfold pe_dict; now rewrite keys_dmap).
  destruct (get_keys_In H i HiH) as (h & _ & Hin).
  destruct (Hh i h Hin) as (v & g & _ & Hg & _).
  unfold cn_log_gi in Hg. unfold cn_placed. destruct (bmem i (cn_alone n)) eqn:E.
  - left. split; [reflexivity|]. now apply (cn_make_alone _ _ _ En).
  - right. split; [reflexivity|].
    destruct (cn_gi_terms (pe_dict U) None n i) as [|g0 gs] eqn:Eg; [discriminate|].
    apply (cn_gi_terms_nonempty U None n i (g0 :: gs) Eg). discriminate.
Qed.

(* ================================================================== T19h: cross-nested logit *)
Theorem full_sampling_cnl Phi en Vf (U : dict expr) (a : cn_arg) (nests : list ncnest)
        strata mev c rows mrows idcol pre us j0 ums ch l t :
  wf_strata strata -> fully_sampled strata -> valid_sample strata c rows ->
  wf_strata mev -> fully_sampled mev -> valid_mev_sample mev mrows ->
  Permutation (keys U) (full_set strata) ->
  (forall k e, In (k, e) U -> evalX Phi e en = XR (Vf k)) ->
  map snd nests = cn_arg_nests a -> NoDup (map fst nests) ->
  cnests_ok Phi en (cn_arg_nests a) -> cnests_exact (cn_arg_nests a) ->
  (forall nm, In nm nests ->
     NoDup (keys (cn_alpha (snd nm))) /\ incl (keys (cn_alpha (snd nm))) (full_set mev)) ->
  sample_holds Phi en Vf "" idcol log_proba_col 0 (ids rows) (map row_corr rows) us ->
  alphas_hold en (alpha_of Phi en) "" nests 0 (ids rows) ->
  sample_holds Phi en Vf pre idcol mev_weight_col j0 (ids mrows) (map row_weight mrows) ums ->
  alphas_hold en (alpha_of Phi en) pre nests j0 (ids mrows) ->
  pvX Phi en ch = XR (IZR c) ->
  logcnl (pe_dict U) None a ch = Ok l ->
  get_cross_nested_logit pre us j0 ums nests = Ok t ->
  evalX Phi t en = evalX Phi l en.
Proof.
  intros Hwf Hfull Hv Hwfm Hfullm Hvm HP HU Hsnd Hnames Hok Hex Hnd Hs1 Ha1 Hs2 Ha2 Hch El Et.
  set (one := fun _ : Z => 1).
  assert (Hav : av_ok Phi en None one) by (intros k; reflexivity).
  assert (Hnn : forall k : Z, 0 <= one k) by (intros k; unfold one; lra).
  destruct (logcnl_value Phi en U None one Vf Hav Hnn HU a ch l I Hok El) as (n & zd & En & Eg & Hall).
  destruct (logcnl_placed U a ch l El) as (n' & En' & Hpl). rewrite En in En'. injection En' as <-.
  pose proof (cn_make_list _ _ _ En) as Hn. rewrite <- Hsnd in Hn, Hok, Hex.
  destruct Hv as [(o & rest & Erows) Hvm1].
  pose proof (SamplingP.full_sample_permutation _ _ Hwf Hfull Hvm1) as HPA.
  pose proof (SamplingP.full_sample_permutation _ _ Hwfm Hfullm Hvm) as HPB.
  destruct Hvm1 as (_ & _ & Hrows). destruct Hvm as (_ & _ & Hmrows).
  assert (HAU : forall x, In x (ids rows) -> In x (keys U)).
  { intros x Hx. apply (Permutation_in x (Permutation_sym HP)), (Permutation_in x HPA), Hx. }
  assert (Hc : In c (keys U)) by (apply HAU; rewrite Erows; now left).
  destruct (Hall c ch Hc Hch) as (l' & El' & _ & Hl' & _). rewrite El in El'. injection El' as <-.
  rewrite Hl'. unfold one at 1. rewrite Rnz_1.
  unfold get_cross_nested_logit in Et.
  destruct (negb (is_nil nests) && negb (is_nil ums) && negb (is_nil us)
            && negb (zd_plain (map (fun nm => cn_param (snd nm)) nests))); [|discriminate].
  injection Et as <-.
  pose proof (corrected_values_cnl Phi en Vf pre idcol nests Hnames Hok Hex (full_set mev)
                (proj1 Hwfm) Hnd (ids mrows) (map row_weight mrows) ums j0 Hs2
                (all_weight_one _ _ Hwfm Hfullm Hmrows) Ha2 HPB n Hn
                (ids rows) (map row_corr rows) us 0%nat Hs1 (all_corr_zero _ _ Hwf Hfull Hrows) Ha1
                (fun x Hx => Hpl x (HAU x Hx))) as HF2.
  fold (corrected_plus (sc_term pre j0 ums nests) us) in HF2.
  assert (Hids : ids rows = c :: ids rest) by (rewrite Erows; reflexivity).
  rewrite Hids in HF2. cbn [map] in HF2.
  destruct (corrected_plus (sc_term pre j0 ums nests) us) as [|w0 ws] eqn:Ecp; [inversion HF2|].
  rewrite (ev_logit_indexed Phi en w0 ws _ _ HF2). f_equal. f_equal. f_equal.
  subst one.
  rewrite <- (den_one_perm (hcn Phi en (fun _ : Z => 1) Vf n) (ids rows) (keys U)
                (Permutation_trans HPA (Permutation_sym HP))).
  rewrite Hids. reflexivity.
Qed.

(* ================================================================== a nest that lists an alternative twice *)
(* A nest whose list repeats an alternative is REFUSED by the validators of nests.py (repaired: it used
   to be accepted, models.lognested then counted the alternative twice in the nest sum while the sample
   builder -- BelongsTo a set -- counts it once).  Witness: alternatives 1, 2, one nest [1; 1].  All the
   other hypotheses of full_sampling_nested hold on it (rf_hyps). *)
Local Open Scope Z_scope.
Fixpoint assocR0 (n : string) (l : list (string * R)) : option R :=
  match l with [] => None | (k, v) :: r => if String.eqb n k then Some v else assocR0 n r end.
Definition rf_rows : list srow := [(2, Some (2, 2)); (1, Some (2, 2))].
Definition rf_mrows : list srow := [(1, Some (2, 2)); (2, Some (2, 2))].
Definition rf_strata : list stratum := [([1; 2], 2)].
Definition rf_vars : list (string * R) :=
  [("v_0", 0%R); ("v_1", 0%R); ("alt_id_0", IZR 2); ("alt_id_1", IZR 1);
   ("_log_proba_0", corr_value (2, 2)); ("_log_proba_1", corr_value (2, 2));
   ("_MEV_v_0", 0%R); ("_MEV_v_1", 0%R); ("_MEV_alt_id_0", IZR 1); ("_MEV_alt_id_1", IZR 2);
   ("_MEV__mev_weight_0", weight_value (2, 2)); ("_MEV__mev_weight_1", weight_value (2, 2));
   ("V1", 0%R); ("V2", 0%R)]%string.
Definition rf_en : env :=
  mkEnv (fun n => if String.eqb n "mu" then Some 2%R else None) (fun n => assocR0 n rf_vars)
        (fun _ => None) (fun _ => None) [] [].
Definition rf_U : dict expr := [(1, EVar "V1"); (2, EVar "V2")].
Definition rf_us : list expr := [EVar "v_0"; EVar "v_1"].
Definition rf_ums : list expr := [EVar "_MEV_v_0"; EVar "_MEV_v_1"].
Definition rf_nest : nnest := mkNN (PE (EBeta "mu" false)) [1; 1].
Definition rf_nn : nn_arg := NNObj [1; 2] [rf_nest].
Definition rf_Vf : Z -> R := fun _ => 0%R.

Lemma rf_hyps Phi :
  wf_strata rf_strata /\ fully_sampled rf_strata /\ valid_sample rf_strata 2 rf_rows /\
  valid_mev_sample rf_strata rf_mrows /\
  Permutation (keys rf_U) (full_set rf_strata) /\
  (forall k e, In (k, e) rf_U -> evalX Phi e rf_en = XR (rf_Vf k)) /\
  nests_ok Phi rf_en (nn_arg_nests rf_nn) /\
  (forall m, In m (nn_arg_nests rf_nn) -> incl (nn_alts m) (full_set rf_strata)) /\
  sample_holds Phi rf_en rf_Vf "" "alt_id" log_proba_col 0 (ids rf_rows) (map row_corr rf_rows) rf_us /\
  sample_holds Phi rf_en rf_Vf mev_prefix "alt_id" mev_weight_col 0 (ids rf_mrows) (map row_weight rf_mrows) rf_ums /\
  pvX Phi rf_en (PN (1, 1)) = XR (IZR 2).
Proof.
  assert (Hwf : wf_strata rf_strata) by (apply SamplingP.wf_stratab_spec; reflexivity).
  split; [exact Hwf|]. split; [repeat constructor|].
  split; [apply (SamplingP.check_sample_iff _ _ _ Hwf); reflexivity|].
  split; [apply (SamplingP.check_mev_sample_iff _ _ Hwf); reflexivity|].
  split; [apply Permutation_refl|].
  split; [intros k e [[= <- <-]|[[= <- <-]|[]]]; reflexivity|].
  split; [intros m [<-|[]]; exists 2%R; split; [reflexivity | lra]|].
  split; [intros m [<-|[]] x [<-|[<-|[]]]; simpl; tauto|].
  split; [simpl; repeat split; reflexivity|].
  split; [simpl; repeat split; reflexivity|].
  unfold pvX. simpl. f_equal. unfold D2R. simpl. lra.
Qed.

(* the validators refuse the nest (check_intersection: forallb nodupZ), whatever the choice; the sample
   builder itself has no such test *)
Theorem nested_repeated_alternative_refused :
  (forall ch, lognested (pe_dict rf_U) None rf_nn ch = Err 1) /\
  exists t, get_nested_logit mev_prefix "alt_id" rf_us 0 rf_ums (nn_arg_nests rf_nn) = Ok t.
Proof. split; [intros ch; reflexivity | eexists; vm_compute; reflexivity]. Qed.
